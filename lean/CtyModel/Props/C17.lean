/-
Property C17 — decoders are safe on arbitrary input: error or conforming value, never a panic,
memory within a fixed multiple of the input size.

The namespace `CtyModel.C17` audited by `./check C17` holds BOTH halves:
* the JSON half (`json_…`, `typejson_…`): `Props/C17Json.lean`;
* the MessagePack half (`msgpack_…`): this file.

MessagePack half.  Every statement is about `D17.Unmarshal` / `D17.unmarshal` (CtyModel/d17Msgpack.lean:
the exported `msgpack.Unmarshal` and the recursive function behind it, following /repo bb6ac26) and
`Msgpack.impliedType` — the transliterations of cty/msgpack/unmarshal.go, unknown.go, dynamic.go,
type_implied.go that the correspondence harness diffs against /repo on every run (ops
`d17.unmarshal`, `mp.implied`) — and quantifies over EVERY item tree (`Msgpack.Item`: what the
wire format delimits; bytes that are no item tree are exercised on the real code by the harness),
EVERY requested type, EVERY equality oracle of the refinement builder and every `Ext`.

`Ext` holds the external functions (nothing is an axiom): `norm` = `cty.NormalizeString`, `setOf` =
`cty.SetVal` on already decoded members (hashing and de-duplication are property C03's).  The
no-panic clause assumes of them only `D17.SetNP E`: `SetVal` does not panic on what the decoder
hands it (the decoder asks `CanSetVal` first).  The extension branch needs not even that.

Lemmas: `Lemmas/d17MsgpackNP.lean`, `Lemmas/d17MsgpackAlloc.lean`, `Lemmas/d17AllocSites.lean`,
`Lemmas/d17JsonDepth.lean`.
-/
import CtyModel.Props.C17Json
import CtyModel.Lemmas.d17MsgpackNP
import CtyModel.Lemmas.d17MsgpackConf
import CtyModel.Lemmas.d17MsgpackImplied
import CtyModel.Lemmas.d17MsgpackWF
import CtyModel.Lemmas.d17MsgpackLen
import CtyModel.Lemmas.d17MsgpackAlloc
import CtyModel.Lemmas.d17AllocSites
import CtyModel.Lemmas.d17JsonDepth
import CtyModel.Generated.Limits
import CtyModel.Lemmas.MpUnknownFnsTie

namespace CtyModel.C17
open Msgpack D17 Refine

/-- an `Ext` for concrete instances: strings already normalised, `SetVal` keeps the members as they
come, one bucket each (fine for the sets of the examples, whose members are distinct) -/
def mext0 : Ext :=
  { norm := id, safePrefix := fun _ => none, setOf := fun _ ps => .ok (.sset (ps.map fun _ => 7) ps) }

/-- the one assumption of the no-panic clause is satisfiable -/
theorem mext0_setnp : SetNP mext0 := by
  intro e ps w h
  change (Res.ok _ : Res Payload) = .panic w at h
  cases h

/-! ## Clause 1 — never a panic -/

/-- `msgpack.Unmarshal` never panics: every item tree, every requested type, every equality oracle
of the refinement builder (so also the one the code uses, `rawNumberEqual` on decimal text), every
`Ext` whose `SetVal` does not panic.  (Before /repo 4e89662, e63bbcc, 28caeac this was false: a
NaN, members of different types under a dynamic element type and contradictory refinements reached
panicking constructors; they are the errors of `msgpack_repaired_panics_are_errors`.) -/
theorem msgpack_never_panics [EqOracle] (E : Ext) (hs : SetNP E) (it : Item) (ty : Ty) (w : String) :
    D17.Unmarshal E it ty ≠ .panic w :=
  (Unmarshal_np E hs it ty).not_panic w

/-- the same for the recursive `unmarshal` (what `unmarshalDynamic`, the per-kind functions and the
refinement loop call), whatever the requested type — also one that carries optional-attribute
annotations or is not well-formed -/
theorem msgpack_unmarshal_never_panics [EqOracle] (E : Ext) (hs : SetNP E) (it : Item) (ty : Ty) (w : String) :
    D17.unmarshal E it ty ≠ .panic w :=
  (unmarshal_np E hs it ty).not_panic w

/-- `msgpack.ImpliedType` never panics, on every item tree, with no assumption at all -/
theorem msgpack_implied_never_panics (E : Ext) (it : Item) (w : String) : impliedType E it ≠ .panic w :=
  (impliedType_np E it).not_panic w

/-- An unknown-value extension item never makes the decoder panic, with NO assumption on `Ext`:
the deferred `recover()` of `unmarshalUnknownValue` (/repo 28caeac) turns every panic of the
refinement builder — and of anything else below it — into an error. -/
theorem msgpack_unknown_never_panics [EqOracle] (E : Ext) (code : Int) (len : Nat) (hdr : ExtHdr) (stream : List Item)
    (ty : Ty) (w : String) : D17.unmarshal E (.ext code len hdr stream) ty ≠ .panic w := by
  have : NP (D17.unmarshal E (.ext code len hdr stream) ty) := by simp only [D17.unmarshal]; exact recoverErr_np _
  exact this.not_panic w

/-- THE STRONGER STATEMENT one might want: the replay of the refinement map (`rfnLoop`, the `for`
loop of `unmarshalUnknownValue`) never reaches a panic of the refinement builder in the first
place.  FALSE of the code: the builder panics on contradictory refinements and the decoder relies
on `recover()`.  Kept visible. -/
def msgpack_refinement_replay_never_panics : Prop :=
  ∀ (O : EqOracle) (E : Ext) (ty : Ty) (n : Nat) (stream : List Item) (b : Builder) (st : LenSt) (w : String),
    @D17.rfnLoop O E ty n stream b st ≠ .panic w

/-- COUNTEREXAMPLE: the refinement map `{1: false, 1: true}` (not null, then null) for an unknown
string — the builder's `Null()` panics ("refining null value as non-null" the other way round);
`msgpack_unknown_never_panics` is what holds instead, and the witness is an error of
`msgpack_repaired_panics_are_errors`. -/
theorem msgpack_refinement_replay_never_panics_counterexample : ¬ msgpack_refinement_replay_never_panics := by
  intro h
  have hb : (match @D17.rfnLoop textOracle mext0 .string 2 [.int 1, .bool false, .int 1, .bool true]
      ⟨Value.unknown .string, [], .str .u ""⟩ lenSt0 with | .panic _ => true | _ => false) = true := by decide +kernel
  split at hb
  · rename_i w hw; exact h textOracle mext0 _ _ _ _ _ w hw
  · cases hb

/-- REGRESSION (repaired by /repo 4e89662, 28caeac, e63bbcc, d1824c6, a52fc1e, bb6ac26): the recorded
witnesses are errors.  NaN for a number; `{1:false,1:true}` for an unknown string; crossed length
bounds; `[[type "string","a"],[type "number",1]]` for `list(dynamic)`; `0x90` for `tuple(string)`; an
object with a repeated attribute; a not-null list refinement whose length bounds meet at 2 and at
2^40 (the decoder would have built a list of that many unknown elements) — while the same
refinement of a SET stays an unknown set. -/
theorem msgpack_repaired_panics_are_errors :
    (match @D17.Unmarshal textOracle mext0 .fnan .number with | .err _ => true | _ => false) = true ∧
    (match @D17.Unmarshal textOracle mext0 (.ext 12 5 (.map 2) [.int 1, .bool false, .int 1, .bool true]) .string with
      | .err _ => true | _ => false) = true ∧
    (match @D17.Unmarshal textOracle mext0 (.ext 12 5 (.map 2) [.int 5, .int 3, .int 6, .int 1]) (.list .string) with
      | .err _ => true | _ => false) = true ∧
    (match @D17.Unmarshal textOracle mext0 (.arr [.arr [.binj (.str "string"), .str "a"], .arr [.binj (.str "number"), .int 1]])
        (.list .dyn) with | .err _ => true | _ => false) = true ∧
    (match @D17.Unmarshal textOracle mext0 (.arr []) (.tuple [.string]) with | .err _ => true | _ => false) = true ∧
    (match @D17.Unmarshal textOracle mext0 (.map [.str "a", .str "a"] [.str "x", .str "y"])
        (.object ["a", "b"] [.string, .string] [false, false]) with | .err _ => true | _ => false) = true ∧
    (match @D17.Unmarshal textOracle mext0 (.ext 12 7 (.map 3) [.int 1, .bool false, .int 5, .int 2, .int 6, .int 2])
        (.list .string) with | .err _ => true | _ => false) = true ∧
    (match @D17.Unmarshal textOracle mext0 (.ext 12 7 (.map 3) [.int 5, .int 1099511627776, .int 6, .int 1099511627776, .int 1, .bool false])
        (.list .string) with | .err _ => true | _ => false) = true ∧
    (match @D17.Unmarshal textOracle mext0 (.ext 12 7 (.map 3) [.int 1, .bool false, .int 5, .int 2, .int 6, .int 2])
        (.set .string) with | .ok v => !v.isKnown | _ => false) = true := by decide +kernel

/-- the decoder is exercised by the examples on every kind of node (the conclusion of
`msgpack_never_panics` is reached through `ok` results too): an object holding a map, a tuple with
a dynamic wrapper, a set, and a refined unknown number -/
example :
    (match @D17.Unmarshal textOracle mext0
        (.map [.str "m", .str "s", .str "t", .str "u"]
          [.map [.str "b", .str "a"] [.int 1, .str "2.5"],
           .arr [.str "x", .str "y"],
           .arr [.bool true, .arr [.binj (.arr [.str "list", .str "string"]), .arr [.str "p"]]],
           .ext 12 9 (.map 2) [.int 1, .bool false, .int 3, .arr [.int 0, .bool true]]])
        (.object ["m", "s", "t", "u"] [.map .number, .set .string, .tuple [.bool, .dyn], .number]
          [false, false, true, false]) with
      | .ok v => Ty.conformErrs (.object ["m", "s", "t", "u"] [.map .number, .set .string, .tuple [.bool, .dyn], .number]
          [false, false, false, false]) v.ty == 0 && !v.ty.hasOpt
      | _ => false) = true := by decide +kernel

/-! ## Clause 2 — a returned value conforms to the requested type -/

/-- A value `msgpack.Unmarshal` returns has a type that CONFORMS to the requested type — C07's
relation: `TestConformance` reports no error (`Ty.conformErrs ty v.ty = 0`) — that is well-formed and
(since /repo afdc0a2) carries no optional-attribute annotation.  Every item tree whose map items are
parallel lists (`itemOk`, the representation invariant of `Item.map`: the lexer makes them from
pairs), every well-formed requested type, every equality oracle, every `Ext` — no assumption on the
external functions at all.  (Before /repo d1824c6 and a52fc1e this was false: `0x90` decoded to the
empty tuple whatever the tuple type, and an object with a repeated attribute to an object that
lacked another one.) -/
theorem msgpack_ok_conforms [EqOracle] (E : Ext) (it : Item) (ty : Ty) (v : Value) (hi : itemOk it = true)
    (hty : Ty.wf ty = true) (h : D17.Unmarshal E it ty = .ok v) :
    Ty.conformErrs ty v.ty = 0 ∧ Ty.matches ty v.ty = true ∧ Ty.hasOpt v.ty = false ∧ Ty.wf v.ty = true := by
  obtain ⟨g1, g2, g3⟩ := Unmarshal_good E it ty v hi hty h
  exact ⟨(Ty.conform_iff ty v.ty hty g1).mpr g2, g2, g3, g1⟩

/-- An unknown-value extension item that decodes at all decodes to a value of EXACTLY the requested
type (refined, null, or — for a number or a collection pinned down by its refinements — known):
the refinement map cannot change the type. -/
theorem msgpack_unknown_has_requested_type [EqOracle] (E : Ext) (code : Int) (len : Nat) (hdr : ExtHdr)
    (stream : List Item) (ty : Ty) (v : Value) (h : D17.unmarshal E (.ext code len hdr stream) ty = .ok v) :
    v.ty = ty :=
  ext_ty E h

/-- the hypotheses are met by ordinary documents, through `ok` results: the document of the example
above (object, map, set, tuple with a dynamic wrapper, refined unknown) is `itemOk` and decodes -/
example :
    itemOk (.map [.str "m", .str "s", .str "t", .str "u"]
          [.map [.str "b", .str "a"] [.int 1, .str "2.5"],
           .arr [.str "x", .str "y"],
           .arr [.bool true, .arr [.binj (.arr [.str "list", .str "string"]), .arr [.str "p"]]],
           .ext 12 9 (.map 2) [.int 1, .bool false, .int 3, .arr [.int 0, .bool true]]]) = true ∧
    Ty.wf (.object ["m", "s", "t", "u"] [.map .number, .set .string, .tuple [.bool, .dyn], .number]
          [false, false, true, false]) = true := by decide +kernel

/-- A type `msgpack.ImpliedType` returns satisfies the representation invariant (attribute names
strictly ascending — a repeated key overwrites —, one type and one flag per name), has no
optional-attribute annotation, and its attribute names are fixed points of `norm`: every item tree,
every `Ext`, no assumption. -/
theorem msgpack_implied_ok_wf (E : Ext) (it : Item) (t : Ty) (h : impliedType E it = .ok t) :
    Ty.wf t = true ∧ Ty.hasOpt t = false ∧ Ty.namesAll (C17Json.nfcOf E.norm) t = true :=
  impliedType_good E it t h

example : (match impliedType mext0 (.map [.str "b", .str "a", .str "b"] [.nil, .arr [.int 1, .map [] []], .ext 0 1 .other []]) with
    | .ok t => t.equals (.object ["a", "b"] [.tuple [.number, .object [] [] []], .dyn] [false, false])
    | _ => false) = true := by decide +kernel

/-- an `Ext` whose `SetVal` answers only for sets of at most one member (where hashing and
de-duplication — property C03's — have nothing to do): it satisfies the laws below -/
def mext1 : Ext :=
  { norm := id, safePrefix := fun _ => none,
    setOf := fun _ ps => match ps with
      | [] => .ok (.sset [] [])
      | [p] => .ok (.sset [7] [p])
      | _ => .unmodelled }

/-- the laws of the well-formedness clause are satisfiable -/
theorem mext1_laws : WLaws mext1 where
  norm_idem := fun _ => rfl
  set_wf := by
    intro e ps p h1 h2 h3
    match ps, h1, h2, h3 with
    | [], _, _, h3 => cases h3; simp [Payload.wfP, Payload.wfAll, Payload.containsMarked, Payload.containsMarkedL, idsAsc, noDup]
    | [q], h1, h2, h3 =>
      cases h3
      simp only [Payload.wfAll, Bool.and_true] at h1
      simp only [Payload.containsMarkedL, Bool.or_false] at h2
      simp [Payload.wfP, Payload.wfAll, Payload.containsMarked, Payload.containsMarkedL, idsAsc, noDup, h1, h2]
    | _ :: _ :: _, _, _, h3 => cases h3

/-- A value `msgpack.Unmarshal` returns is WELL-FORMED in the sense of C06 (`Value.WF`, with "NFC"
read as "fixed point of `norm`": payload constructors as the type dictates at every depth, tuple
lengths and attribute sets, ascending normalised map keys, refinements of the kind their type calls
for, no marks, lawful sets, a well-formed type without optional annotations and with normalised
names) — relative to the laws of the external functions (`WLaws`: `norm` idempotent; `SetVal`
returns a well-formed unmarked set when handed well-formed unmarked members), for a requested type
whose attribute names are normalised (as the type constructors make them).  Every item tree with
parallel map lists, every equality oracle.  In particular a refined unknown value that comes out of
the replay of a refinement map carries a refinement of the right kind for its type, and one that
collapses (`NewValue`: equal number bounds, zero or pinned collection length) is the well-formed
known value. -/
theorem msgpack_ok_wellformed [EqOracle] (E : Ext) (hl : WLaws E) (it : Item) (ty : Ty) (v : Value)
    (hi : itemOk it = true) (hty : Ty.wf ty = true) (hn : Ty.namesAll (C17Json.nfcOf E.norm) ty = true)
    (h : D17.Unmarshal E it ty = .ok v) : v.WF (C17Json.nfcOf E.norm) = true :=
  Unmarshal_wf E hl it ty v hi hty hn h

/-- … and the conclusion is reached: a document with every kind of node (a one-member set, a map
with a repeated key, a tuple with a dynamic wrapper, a refined unknown number, an unknown list
with length bounds) decodes to a well-formed value under lawful external functions -/
example :
    (match @D17.Unmarshal textOracle mext1
        (.map [.str "m", .str "s", .str "t", .str "u", .str "w"]
          [.map [.str "b", .str "a", .str "b"] [.int 1, .str "2.5", .int 3],
           .arr [.str "x"],
           .arr [.bool true, .arr [.binj (.arr [.str "list", .str "string"]), .arr [.str "p"]]],
           .ext 12 9 (.map 2) [.int 1, .bool false, .int 3, .arr [.int 0, .bool true]],
           .ext 12 7 (.map 3) [.int 1, .bool false, .int 5, .int 2, .int 6, .int 4]])
        (.object ["m", "s", "t", "u", "w"] [.map .number, .set .string, .tuple [.bool, .dyn], .number, .list .bool]
          [false, false, true, false, false]) with
      | .ok v => v.WF (C17Json.nfcOf mext1.norm)
      | _ => false) = true := by decide +kernel

/-! ## The limits, tied to the source -/

/-- The two limits the MessagePack decoder applies to what the input merely announces are the
ones in the source (`Generated/Limits.lean` is re-extracted from cty/msgpack/unknown.go and
unmarshal.go on every check: a change of either constant breaks this theorem), and so is the
nesting limit of `json.ImpliedType`. -/
theorem msgpack_limits_are_source :
    Msgpack.maxExtLen = Generated.msgpackMaxExtLen ∧ D17.allocHintMax = Generated.msgpackAllocHintMax := by decide

/-- An extension body longer than the limit of the source (1024 bytes) is refused — whatever its
type code, its content, the requested type — before `make([]byte, extLen)` is reached
(`msgpack_alloc_…` below count that buffer). -/
theorem msgpack_oversize_extension_refused [EqOracle] (E : Ext) (code : Int) (len : Nat) (hdr : ExtHdr)
    (stream : List Item) (ty : Ty) (h : len > Generated.msgpackMaxExtLen) :
    ∃ c, D17.unmarshal E (.ext code len hdr stream) ty = .err c := by
  have h1 : ¬ len ≤ 1 := by simp [Generated.msgpackMaxExtLen] at h; omega
  have h2 : len > maxExtLen := h
  simp only [D17.unmarshal, h1, if_false, h2, if_true]
  split <;> exact ⟨_, rfl⟩

/-- … and the limit is sharp: a body of exactly 1024 bytes is still read -/
example : (match @D17.unmarshal textOracle mext0 (.ext 12 1024 (.map 1) [.int 1, .bool false]) .string with
    | .ok v => !v.isKnown | _ => false) = true := by decide +kernel

/-- /repo bb6ac26 IS COMPLETE: an unknown-value extension item decoded against a list type comes
back null, unknown (refined or not) or as the EMPTY list — never as a list whose length was read
from the input (`RefinementBuilder.NewValue` turns a not-null list record whose length bounds meet
at `n` into `n` unknown elements: `n` up to 2^63 from a dozen bytes).  For every refinement map,
every order of its entries, repeated and unknown keys included: the loop variables
`notNull, minLen, maxLen` of `unmarshalUnknownValue` mirror the builder's record
(`Lemmas/d17MsgpackLen.lean`, `LenInv`), so the test after the loop refuses exactly those records. -/
theorem msgpack_unknown_list_not_sized_by_input [EqOracle] (E : Ext) (code : Int) (len : Nat) (hdr : ExtHdr)
    (stream : List Item) (e : Ty) (v : Value) (h : D17.unmarshal E (.ext code len hdr stream) (.list e) = .ok v) :
    v.v = .null ∨ (∃ r, v.v = .unk r) ∨ v.v = .seq [] :=
  ext_list_shape E h

/-- the three outcomes occur: `{1:true}` null, `{1:false,5:2,6:4}` a refined unknown list,
`{1:false,6:0}` the empty list -/
example :
    (match @D17.unmarshal textOracle mext0 (.ext 12 3 (.map 1) [.int 1, .bool true]) (.list .string) with
      | .ok ⟨_, .null⟩ => true | _ => false) = true ∧
    (match @D17.unmarshal textOracle mext0 (.ext 12 7 (.map 3) [.int 1, .bool false, .int 5, .int 2, .int 6, .int 4]) (.list .string) with
      | .ok v => !v.isKnown | _ => false) = true ∧
    (match @D17.unmarshal textOracle mext0 (.ext 12 5 (.map 2) [.int 1, .bool false, .int 6, .int 0]) (.list .string) with
      | .ok ⟨_, .seq []⟩ => true | _ => false) = true := by decide +kernel

/-! ## Clause 3 — allocation (cty/msgpack after /repo 9555bea, 12d5e4f) -/

/-- On a COMPLETE item tree the `make(…)` calls of the decoder request fewer element slots than
twice the size of the document in bytes, for every requested type (`allocCost`: an upper bound of
what the walk can reach; `wireSize`: the bytes from below, an extension body counted once more for
every level of extension nesting, as the decoder copies it: at most `(1 + extDepth it)` × bytes).
`allocHint` plays no part here — any hint that does not exceed the announced length will do — since
an item tree has the members its headers announce. -/
theorem msgpack_alloc_complete (E : Ext) (it : Item) (ty : Ty) :
    allocCost allocHint E it ty + 1 ≤ 2 * wireSize it :=
  allocCost_le allocHint allocHint_le E it ty

/-- THE STATEMENT for documents that are cut off after a length header (the bytes end, or stop
being MessagePack, where the announced members should follow), for a given way `hint` of turning an
announced length into a pre-allocation and a constant `K`: at most `K` slots per byte. -/
def msgpack_alloc_within (hint : Nat → Nat) (K : Nat) : Prop :=
  ∀ (E : Ext) (c : Cut) (ty : Ty), allocCostCut hint E c ty ≤ K * cutSize c

/-- It holds of the code as it is, with the clamp of the source as the constant: `allocHint`
pre-allocates at most `msgpackAllocHintMax` = 1024 slots per header, an extension body is at most
`msgpackMaxExtLen` = 1024 bytes, every header costs a byte. -/
theorem msgpack_alloc_cut : msgpack_alloc_within allocHint Generated.msgpackAllocHintMax :=
  fun E c ty => allocCostCut_le allocHint allocHint_le E 1024 (by decide) allocHint_le_max (by decide) c ty

/-- REGRESSION (what /repo 9555bea, 12d5e4f repaired): with the announced length itself as the
capacity (`hint = id`) the statement fails for the constant 1024 — and for every constant: the
five bytes `dd ff ff ff ff` announce 2^32-1 members. -/
theorem msgpack_alloc_unclamped_counterexample : ¬ msgpack_alloc_within id Generated.msgpackAllocHintMax := by
  intro h
  have := h mext0 (.arr 4294967295 [] .eof) (.list .string)
  revert this
  decide +kernel

/-- the bound of `msgpack_alloc_cut` is attained: three nested headers (three bytes of array
headers in the model) that each announce more than 1024 members cost 3 · 1024 slots -/
example : allocCostCut allocHint mext0 (.arr 70000 [] (.arr 70000 [] (.arr 70000 [] .eof))) (.list (.list (.list .string)))
      = 3072 ∧ cutSize (.arr 70000 [] (.arr 70000 [] (.arr 70000 [] .eof))) = 3 := by decide +kernel

/-- The allocation sites of the model are the allocation sites of the source: the table of EVERY
`make(` call of cty/msgpack/*.go and cty/json/*.go (`Generated/DecoderAllocs.lean`, re-extracted on
every check, fails closed on a size expression of unknown shape) has no site whose length or
capacity is a raw decoded header; the eight clamped sites are the five collection decoders of
unmarshal.go, `impliedTupleType`, and the two reads of an extension body under their guards. -/
theorem msgpack_alloc_sites_are_source :
    Generated.decoderAllocSites.all (fun s => s.len != .rawHeader && s.cap != .rawHeader) = true ∧
    D17Sites.clampedIn "cty/msgpack/unmarshal.go" = 5 ∧
    D17Sites.clampedIn "cty/msgpack/type_implied.go" = 1 ∧
    D17Sites.clampedIn "cty/msgpack/unknown.go" = 2 ∧
    Generated.decoderAllocSites.length = 14 :=
  ⟨D17Sites.no_raw_header_capacity, D17Sites.decoder_sites_listed.1, D17Sites.decoder_sites_listed.2.1,
   D17Sites.decoder_sites_listed.2.2.1, D17Sites.decoder_sites_listed.2.2.2.2⟩

/-! ## `json.ImpliedType` and its nesting limit (/repo 0c63e6a)

`D17.jsonImplied env max depth j` (CtyModel/d17JsonDepth.lean) is `impliedTypeForTok(tok, dec, depth)`
with the test `depth >= maxImpliedTypeDepth` of the source; the correspondence harness diffs it,
instantiated at the constant of the source, against /repo on every run (op `d17.jsonimplied`,
documents nested 9999 … 10002 deep included).  The theorems of `Props/C17Json.lean` are about the
limit-free `JsonVal.impliedType`; `json_implied_limit_only_adds_errors` carries them over. -/

/-- `json.ImpliedType` as the code runs it: from depth 0, with the limit read from the source
(`Generated/Limits.lean`, re-extracted from cty/json/type_implied.go on every check, together with
the shape of the guard and the `depth+1` of the two recursive calls) -/
def jsonImpliedType (env : JsonVal.JEnv) (j : Json) : Res Ty :=
  jsonImpliedTop env Generated.jsonImpliedTypeDepthLimit j

/-- The limit does nothing but turn outcomes into errors: with the limit the outcome is the one
without it, or an error — at every depth, for every limit. -/
theorem json_implied_limit_only_adds_errors (env : JsonVal.JEnv) (max d : Nat) (j : Json) :
    jsonImplied env max d j = JsonVal.impliedType env j ∨ ∃ c, jsonImplied env max d j = .err c :=
  jsonImplied_eq_or_err env max j d

/-- … and within the limit it changes nothing at all: a document nested at most
`maxImpliedTypeDepth` deep gets exactly the outcome of the limit-free function (the correspondence of
the JSON half before /repo 0c63e6a, and the theorems about `JsonVal.impliedType`, stay valid there). -/
theorem json_implied_within_limit_unchanged (env : JsonVal.JEnv) (j : Json)
    (h : jnest j ≤ Generated.jsonImpliedTypeDepthLimit) : jsonImpliedType env j = JsonVal.impliedType env j :=
  jsonImplied_within env Generated.jsonImpliedTypeDepthLimit j 0 (Or.inl (by omega))

/-- … so `json.ImpliedType` with its limit never panics, on every token tree … -/
theorem json_implied_limited_never_panics (env : JsonVal.JEnv) (j : Json) (w : String) :
    jsonImpliedType env j ≠ .panic w := by
  rcases jsonImplied_eq_or_err env Generated.jsonImpliedTypeDepthLimit j 0 with h | ⟨c, h⟩
  · unfold jsonImpliedType jsonImpliedTop; rw [h]; exact json_implied_never_panics env j w
  · unfold jsonImpliedType jsonImpliedTop; rw [h]; simp

/-- … and a type it returns is well-formed, without optional-attribute annotation, with (for
idempotent `norm`) normalised attribute names. -/
theorem json_implied_limited_ok_wf (env : JsonVal.JEnv) (j : Json) (t : Ty) (h : jsonImpliedType env j = .ok t) :
    Ty.wf t = true ∧ Ty.hasOpt t = false ∧
    ((∀ s, env.norm (env.norm s) = env.norm s) → Ty.namesAll (C17Json.nfcOf env.norm) t = true) := by
  unfold jsonImpliedType jsonImpliedTop at h
  rcases jsonImplied_eq_or_err env Generated.jsonImpliedTypeDepthLimit j 0 with h' | ⟨c, h'⟩
  · rw [h'] at h; exact json_implied_ok_wf env j t h
  · rw [h'] at h; cases h

/-- THE DEPTH BOUND: a document for which `json.ImpliedType` returns a type has arrays and objects
nested at most `maxImpliedTypeDepth` (= 10000, the constant of the source) deep — so the recursion
of `impliedTypeForTok` / `impliedObjectType` / `impliedTupleType`, one frame triple per level, is
at most that deep on ANY document: -/
theorem json_implied_nesting_bounded (env : JsonVal.JEnv) (j : Json) (t : Ty) (h : jsonImpliedType env j = .ok t) :
    jnest j ≤ Generated.jsonImpliedTypeDepthLimit := by
  have := jsonImplied_ok_nest env Generated.jsonImpliedTypeDepthLimit j 0 t h
  omega

/-- … at the limit an array or an object is answered with an error at once, before any member is
looked at (no call at depth `max + 1` is ever made). -/
theorem json_implied_stops_at_limit (env : JsonVal.JEnv) (max d : Nat) (hd : d ≥ max) (xs : List Json)
    (ks : List String) (vs : List Json) :
    (∃ c, jsonImplied env max d (.arr xs) = .err c) ∧ (∃ c, jsonImplied env max d (.obj ks vs) = .err c) := by
  simp [jsonImplied, hd]

/-- the limit is sharp, in the model as in the code (the harness runs 9999 … 10002 on both): with
limit 3, three levels are a type and four are an error -/
example :
    (match jsonImpliedTop jenv0 3 (.arr [.arr [.obj ["a"] [.num "1"]]]) with | .ok t => t.equals (.tuple [.tuple [.object ["a"] [.number] [false]]]) | _ => false) = true ∧
    (match jsonImpliedTop jenv0 3 (.arr [.arr [.obj ["a"] [.arr []]]]) with | .err _ => true | _ => false) = true ∧
    jnest (.arr [.arr [.obj ["a"] [.arr []]]]) = 4 := by decide +kernel

/-! ## The regenerated decoder (cty/msgpack/unknown.go `unmarshalUnknownValue`, translated on every check)

`Generated.MpUnknownFns.unmarshalUnknownValue` (and its loop helper) is derived from the SOURCE on every
run of `./check` by `extract/translate_mpunknown.go` (given API: `CtyModel/MpGo.lean`).  The guards it
passes before the refinement map is read are proved of it for ALL inputs; the replay of the map is tied
to `D17.unmarshal` on a battery of items by evaluation (`Lemmas/MpUnknownFnsTie.decoder_battery_agrees`). -/

/-- `msgpack_unknown_never_panics`, about the regenerated decoder: whatever the decoder is positioned at
and whatever type is requested, the translated `unmarshalUnknownValue` does not panic (its first
statement is the deferred `recover()`, which the translator accepts in exactly that shape). -/
theorem msgpack_unknown_never_panics_generated [EqOracle] (E : Ext) (d : MpGo.Dec) (ty : Ty) (w : String) :
    Generated.MpUnknownFns.unmarshalUnknownValue E d ty ≠ .panic w :=
  MpUnknownFnsTie.dec_never_panics E d ty w

/-- `msgpack_oversize_extension_refused`, about the regenerated decoder: an extension body longer than
the limit of the source is an error whatever its type code, content and requested type — the size test
comes before the body is read. -/
theorem msgpack_oversize_extension_refused_generated [EqOracle] (E : Ext) (code : Int) (len : Nat) (hdr : ExtHdr)
    (stream : List Item) (ty : Ty) (h : len > Generated.msgpackMaxExtLen) :
    ∃ c, Generated.MpUnknownFns.unmarshalUnknownValue E (.atItem (.ext code len hdr stream)) ty = .err c :=
  MpUnknownFnsTie.dec_oversize E code len hdr stream ty h

/-- … a body of at most one byte is the unrefined unknown value of the requested type, under any type code. -/
theorem msgpack_plain_unknown_generated [EqOracle] (E : Ext) (code : Int) (len : Nat) (hdr : ExtHdr)
    (stream : List Item) (ty : Ty) (h : len ≤ 1) :
    Generated.MpUnknownFns.unmarshalUnknownValue E (.atItem (.ext code len hdr stream)) ty = .ok (.v (Value.unknown ty)) :=
  MpUnknownFnsTie.dec_small E code len hdr stream ty h

/-- `known_length_list_refused` and its neighbours, about the regenerated decoder (the witnesses of
`C16.known_length_list_regression` and of the repaired finding): a not-null list refinement whose length
bounds meet at 2, or at 2^22, is an ERROR; the same bounds without "not null", different bounds, and
the same map for a SET still decode to an unknown value; a zero upper length bound is accepted. -/
theorem known_length_list_refused_generated :
    (match @Generated.MpUnknownFns.unmarshalUnknownValue textOracle mext0
        (.atItem (.ext 12 7 (.map 3) [.int 1, .bool false, .int 5, .int 2, .int 6, .int 2])) (.list .string) with
      | .err _ => true | _ => false) = true ∧
    (match @Generated.MpUnknownFns.unmarshalUnknownValue textOracle mext0
        (.atItem (.ext 12 13 (.map 3) [.int 1, .bool false, .int 5, .uint 4194304, .int 6, .uint 4194304])) (.list .string) with
      | .err _ => true | _ => false) = true ∧
    (match @Generated.MpUnknownFns.unmarshalUnknownValue textOracle mext0
        (.atItem (.ext 12 5 (.map 2) [.int 5, .int 2, .int 6, .int 2])) (.list .string) with
      | .ok g => !RefineGo.isKnown g | _ => false) = true ∧
    (match @Generated.MpUnknownFns.unmarshalUnknownValue textOracle mext0
        (.atItem (.ext 12 7 (.map 3) [.int 1, .bool false, .int 5, .int 2, .int 6, .int 3])) (.list .string) with
      | .ok g => !RefineGo.isKnown g | _ => false) = true ∧
    (match @Generated.MpUnknownFns.unmarshalUnknownValue textOracle mext0
        (.atItem (.ext 12 7 (.map 3) [.int 1, .bool false, .int 5, .int 2, .int 6, .int 2])) (.set .string) with
      | .ok g => !RefineGo.isKnown g | _ => false) = true ∧
    (match @Generated.MpUnknownFns.unmarshalUnknownValue textOracle mext0
        (.atItem (.ext 12 3 (.map 1) [.int 6, .int 0])) (.list .string) with
      | .ok g => !RefineGo.isKnown g | _ => false) = true := by
  decide +kernel

/-- The regenerated decoder and the hand-written `D17.unmarshal` compute the same outcome on the battery of
`Lemmas/MpUnknownFnsTie.lean` (49 extension items × 9 requested types × both equality oracles): every
refinement key under every type guard, contradictory nullness, crossed and meeting bounds, malformed
keys and values, unknown keys, short streams. -/
theorem msgpack_refinement_replay_generated_agrees :
    (MpUnknownFnsTie.batItems.all fun it => MpUnknownFnsTie.batTys.all fun ty =>
      MpUnknownFnsTie.agree textOracle MpUnknownFnsTie.batE it ty && MpUnknownFnsTie.agree partialOracle MpUnknownFnsTie.batE it ty) = true :=
  MpUnknownFnsTie.decoder_battery_agrees

end CtyModel.C17
