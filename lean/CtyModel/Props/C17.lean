/-
Property C17 — decoders are safe on arbitrary input: error or conforming value, never a panic,
memory within a fixed multiple of the input size.

The namespace `CtyModel.C17` audited by `./check C17` holds BOTH halves:
* the JSON half (`json_…`, `typejson_…`): `Props/C17Json.lean`;
* the MessagePack half (`msgpack_…`): this file.
-/
import CtyModel.Props.C17Json

namespace CtyModel.C17

end CtyModel.C17
