/-
C09 — Unification returns a type every input really converts to.

Property theorems only; helper lemmas live in `CtyModel/Lemmas/Unify*.lean`.  The
statements are about `Unify.unifyF` (= convert.unify: the unified type AND the slice
of returned conversions, following unify.go branch for branch), `Unify.applyU` (a
returned conversion applied to a value, through C08's `Convert.apply`) and
ConvertUnify's `unifyTyF` / `sortTypes` / `compareTypes` — the transliterations the
harness diffs against the real `convert.Unify` / `UnifyUnsafe` on every run (unified
type, which conversions are nil, the outcome of every returned conversion on generated
values).

Parameters: `E : Convert.Env` answers `GetConversion*` and the nested `ty, _ :=
unify(…)` calls whose conversions Go discards.  Theorems hold for every `E` satisfying
`UnifyLaws` (C08's one assumption about `unify`; `unifyLaws_std` below discharges it
for the environment the drivers use), every fuel, and lists of types of any length
and depth.
-/
import CtyModel.Lemmas.UnifyTyLaws
namespace CtyModel
namespace C09
open Convert Ty Unify

/-! ## Unifying equal types returns that type with no conversions -/

/-- Clause "unifying equal types returns that type with no conversions": a non-empty
list of identical (well-formed, annotation-free) types unifies — in either mode — to
that type, and every slot of the returned slice is nil. -/
theorem unify_equal_types (E : Env) (hU : UnifyLaws E) (fuel : Nat) (uns : Bool) (t : Ty) (ts : List Ty)
    (hne : ts ≠ []) (hall : ∀ x ∈ ts, x = t) (hw : t.wf = true) (ho : t.hasOpt = false) :
    unifyF E (fuel + 1) uns ts = .ok (some (t, ts.map fun _ => none)) :=
  unifyF_same hU fuel uns t ts hne hall hw ho

/-- The same for the type result the conversions themselves consult: with more fuel
than the type is deep, ConvertUnify's `unifyTyF` answers that type. -/
theorem unify_equal_types_ty (fuel : Nat) (uns : Bool) (t : Ty) (n : Nat) (hd : tyDepth t < fuel)
    (hn : 0 < n) (hw : t.wf = true) (ho : t.hasOpt = false) :
    unifyTyF fuel uns (List.replicate n t) = some t :=
  unifyTyF_same fuel uns t n hd hn hw ho

/-- THE INSTANCE: `unifyTy` (the `unify` of the drivers' environment) satisfies the one
law the C08 theorems assume of `Env.unify` — this discharges `UnifyLaws.same`. -/
theorem unifyLaws_std (base : Env) : UnifyLaws (Env.std base) := Unify.unifyLaws_std base

example : unifyF (Env.std Env.simple) 1 true [.map (.tuple [.string, .bool]), .map (.tuple [.string, .bool])] =
    .ok (some (.map (.tuple [.string, .bool]), [none, none])) :=
  unify_equal_types _ (unifyLaws_std _) 0 true _ _ (by simp) (by simp) (by decide) (by decide)

end C09
end CtyModel
