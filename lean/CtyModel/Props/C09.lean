/-
C09 — Unification returns a type every input really converts to.

Property theorems only; helper lemmas live in `CtyModel/Lemmas/Unify*.lean`.  The
statements are about `Unify.unifyF` (= convert.unify: the unified type AND the slice
of returned conversions, following unify.go branch for branch), `Unify.applyU` (a
returned conversion applied to a value, through C08's `Convert.apply`) and
ConvertUnify's `unifyTyF` / `sortTypes` / `compareTypes` — the transliterations the
harness diffs against the real `convert.Unify` / `UnifyUnsafe` on every run (unified
type, which conversions are nil, the outcome of every returned conversion on generated
values).

Parameters: `E : Convert.Env` answers `GetConversion*` and the nested `ty, _ :=
unify(…)` calls whose conversions Go discards.  Theorems hold for every `E` satisfying
`UnifyLaws` (C08's one assumption about `unify`; `unifyLaws_std` below discharges it
for the environment the drivers use), every fuel, and lists of types of any length
and depth.

Where a clause is false of the code as it exists the full statement is kept as a
`def … : Prop`, with its negation proved from a concrete witness and the strongest
statement that holds next to it:
* `NilIffEqual` (a DynamicPseudoType input gets a conversion from unifyAllAsDynamic);
* `UnsafeOfSafe` (placeholders; C08's witness), with the preference loop (any depth), the
  lists that go straight to it, and the flat types (any depth) proved;
* `SortVisitsAll` (the preference relation has cycles; sortTypes then drops candidates).

The clauses about APPLIED conversions — `ConvsYieldUnified`, `SafeConvsTotal`,
`NoPanicApplied` — were false of the code up to /repo df9d7d3: the closure composed by
unifyTuplesAsList / unifyObjectsAsMaps applied its second conversion to the original value
instead of the output of the first (wrong type / error in safe mode / panic; three
`_counterexample` theorems stood here).  Since that repair the closure is the composition
of two conversions `GetConversion[Unsafe]` offers (`convs_composed_steps`), and the clauses
are proved for EVERY slot `unify` returns (`…_slots_partial`) under side conditions that
are stated explicitly: the type each step converts to is placeholder-free
(`stepTargets`; the model cannot exclude a placeholder in the intermediate list / map
type for an arbitrary `Env.unify`), and the value handed from the first step to the
second is well-formed (resp. wholly known) — C08 proves the TYPE of a conversion's outcome
but not that the outcome is a well-formed value again.  The former witnesses are kept as
`…_witness_fixed` (and as harness cases that must pass); the full statements stay as
`def`s: not proved in that generality, searched by the harness on every run.

Fuel (d09): `unifyTyF` is stable from `2·depth + 2` activations on and `unifyTy` (what `Env.std` runs)
is its value at every sufficient fuel and a fixed point of one activation (`fuel_monotone_partial`,
`fuel_enough`, `unify_type_fixpoint`; below the bound more fuel CAN change an answer:
`fuel_monotone_counterexample`); the full model `unifyF` needs two activations (`unify_fuel_two`).
`UnifyLaws` and `SetLaws` are proved of the environment the C09 driver runs (`unifyLaws_driver`,
`setLaws_driver`, `…_driver` corollaries).

d09b: (1) the type component of `unifyF` IS `unifyTy` (`unify_type_is_unifyTy`, `unify_type_eq`: the two
transliterations of unify.go are one function, so the `unifyTy` theorems are about the type `Unify`
returns); (2) on placeholder-free, well-formed input types the unified type and the target of every
step of every returned conversion are placeholder-free and well-formed (`unified_plain`,
`unified_type_plain_std`), which discharges the side conditions of the applied-conversion clauses:
`convs_yield_unified_plain`, `safe_convs_total_plain`, `no_panic_applied_plain` carry none; (3) the
model is total from fuel 2 on (`unify_total`, `unify_total_outcome`: never out of fuel, no error
outcome); (4) `unsafe_of_safe_flat_full` carries the flat closed form over to the full model (through
the object / tuple sub-unifiers the clause is still only searched).
-/
import CtyModel.Lemmas.UnifyTyLaws
import CtyModel.Lemmas.UnifyProps
import CtyModel.Lemmas.UnifyNoPanic
import CtyModel.Lemmas.UnifyTopo
import CtyModel.Lemmas.UnifyUnsafe
import CtyModel.Lemmas.UnifyFlat
import CtyModel.Lemmas.d09Fuel
import CtyModel.Lemmas.d09Fuel2
import CtyModel.Lemmas.ConvertD08SetEnv
import CtyModel.Lemmas.d09bTotal
import CtyModel.Lemmas.d09bPlain
import CtyModel.Lemmas.d09bTyEq
namespace CtyModel
namespace C09
open Convert Ty Unify

/-! ## Unifying equal types returns that type with no conversions -/

/-- Clause "unifying equal types returns that type with no conversions": a non-empty
list of identical (well-formed, annotation-free) types unifies — in either mode — to
that type, and every slot of the returned slice is nil. -/
theorem unify_equal_types (E : Env) (hU : UnifyLaws E) (fuel : Nat) (uns : Bool) (t : Ty) (ts : List Ty)
    (hne : ts ≠ []) (hall : ∀ x ∈ ts, x = t) (hw : t.wf = true) (ho : t.hasOpt = false) :
    unifyF E (fuel + 1) uns ts = .ok (some (t, ts.map fun _ => none)) :=
  unifyF_same hU fuel uns t ts hne hall hw ho

/-- The same for the type result the conversions themselves consult: with more fuel
than the type is deep, ConvertUnify's `unifyTyF` answers that type. -/
theorem unify_equal_types_ty (fuel : Nat) (uns : Bool) (t : Ty) (n : Nat) (hd : tyDepth t < fuel)
    (hn : 0 < n) (hw : t.wf = true) (ho : t.hasOpt = false) :
    unifyTyF fuel uns (List.replicate n t) = some t :=
  unifyTyF_same fuel uns t n hd hn hw ho

/-- THE INSTANCE: `unifyTy` (the `unify` of the drivers' environment) satisfies the one
law the C08 theorems assume of `Env.unify` — this discharges `UnifyLaws.same`. -/
theorem unifyLaws_std (base : Env) : UnifyLaws (Env.std base) := Unify.unifyLaws_std base

example : unifyF (Env.std Env.simple) 1 true [.map (.tuple [.string, .bool]), .map (.tuple [.string, .bool])] =
    .ok (some (.map (.tuple [.string, .bool]), [none, none])) :=
  unify_equal_types _ (unifyLaws_std _) 0 true _ _ (by simp) (by simp) (by decide) (by decide)

/-! ## One result type, one conversion slot per input -/

/-- Clause "the result is a single type": `unify` answers NilType with no slice at all, or
one type together with a slice that has exactly one slot per input type. -/
theorem single_result (E : Env) (fuel : Nat) (uns : Bool) (types : List Ty) (out : UOut)
    (h : unifyF E fuel uns types = .ok out) :
    out = none ∨ ∃ t cs, out = some (t, cs) ∧ slotsOk types cs = true := by
  cases out with
  | none => exact .inl rfl
  | some r =>
    obtain ⟨t, cs⟩ := r
    exact .inr ⟨t, cs, rfl, by simp [slotsOk, (unifyF_slots E fuel uns types t cs h).1]⟩

/-- … the slots correspond to the inputs index by index. -/
theorem convs_length (E : Env) (fuel : Nat) (uns : Bool) (types : List Ty) (t : Ty) (cs : Convs)
    (h : unifyF E fuel uns types = .ok (some (t, cs))) : cs.length = types.length :=
  (unifyF_slots E fuel uns types t cs h).1

/-- Every slot `unify` returns is of one of the five forms of `SlotRel`: filled the direct
way (nil if the input `Equals` the result, else what `GetConversion[Unsafe](input, result)`
offers), the chosen candidate itself, the constant of unifyAllAsDynamic, or one of the
two closures of unifyTuplesAsList / unifyObjectsAsMaps.  (All clauses below are read off
this.) -/
theorem convs_shape (E : Env) (fuel : Nat) (uns : Bool) (types : List Ty) (t : Ty) (cs : Convs)
    (h : unifyF E fuel uns types = .ok (some (t, cs))) : SlotsRel E uns t types cs :=
  unifyF_slots E fuel uns types t cs h

example : unifyF (Env.std Env.simple) 3 false [.tuple [.bool, .string], .list .string] =
    .ok (some (.list .string, [some (.plan (.wrap (.list .string)
      (.tupToList [.wrap .string .boolToStr, .nil] false))), none])) := rfl

/-! ## The conversion is absent exactly when the input already equals the result -/

/-- Clause "for placeholder-free inputs the conversion is absent exactly when the input
already equals the result".  It holds of every input type that is not the placeholder
ITSELF (nested placeholders are fine; `unifyAllAsDynamic` hands a conversion to a
DynamicPseudoType input although it equals the result), for well-formed input types,
either mode, any environment. -/
theorem nil_iff_equal_partial (E : Env) (fuel : Nat) (uns : Bool) (types : List Ty) (t : Ty) (cs : Convs)
    (hw : ∀ ty ∈ types, ty.wf = true) (h : unifyF E fuel uns types = .ok (some (t, cs))) :
    nilIffEqual t types (nilFlags cs) = true :=
  slots_nilIffEqual hw (unifyF_slots E fuel uns types t cs h)

/-- … slot by slot: for `types[i] ≠ DynamicPseudoType`, `convs[i] == nil ↔ types[i].Equals(result)` -/
theorem nil_iff_equal_at (E : Env) (fuel : Nat) (uns : Bool) (types : List Ty) (t : Ty) (cs : Convs) (i : Nat)
    (ty : Ty) (c : Option UConv) (hw : ty.wf = true) (hd : ty.isDyn = false)
    (h : unifyF E fuel uns types = .ok (some (t, cs))) (hi : types[i]? = some ty) (hc : cs[i]? = some c) :
    c = none ↔ ty.equals t = true := by
  obtain ⟨c', hc', hrel⟩ := (unifyF_slots E fuel uns types t cs h).2 i ty hi
  rw [hc] at hc'; simp only [Option.some.injEq] at hc'; subst hc'
  have := slotRel_nilIffEqual hw hrel
  simp only [nilIffEqualAt, hd, Bool.false_or, beq_iff_eq] at this
  cases c <;> simp_all

/-- the full statement (every input type, the placeholder included) is FALSE of the code -/
def NilIffEqual : Prop :=
  ∀ (E : Env) (fuel : Nat) (uns : Bool) (types : List Ty) (t : Ty) (cs : Convs) (i : Nat) (ty : Ty) (c : Option UConv),
    ty.wf = true → unifyF E fuel uns types = .ok (some (t, cs)) → types[i]? = some ty → cs[i]? = some c →
    (c = none ↔ ty.equals t = true)

/-- the witness: `Unify([list(string), dynamic])` is DynamicPseudoType and BOTH inputs get a
conversion, the one that already is DynamicPseudoType included -/
theorem nil_iff_equal_counterexample :
    unifyF (Env.std Env.simple) 2 false [.list .string, .dyn] =
      .ok (some (.dyn, [some .constDyn, some .constDyn])) := rfl

theorem nilIffEqual_false : ¬ NilIffEqual := by
  intro h
  have := h (Env.std Env.simple) 2 false [.list .string, .dyn] .dyn _ 1 .dyn (some .constDyn) rfl
    nil_iff_equal_counterexample rfl rfl
  simp [equals] at this

example : nilIffEqual (.list .string) [.tuple [.bool, .string], .list .string] [false, true] = true := by decide

/-! ## Safe unification never relies on an unsafe conversion -/

/-- Clause "safe unification never relies on an unsafe conversion": every conversion
`Unify` (safe mode) returns is built only from plans that `GetConversion` — safe mode,
`gck … false` — offers (plus the table-free constant of unifyAllAsDynamic). -/
theorem safe_never_unsafe (E : Env) (fuel : Nat) (types : List Ty) (t : Ty) (cs : Convs) (i : Nat) (c : UConv)
    (h : unify E fuel types = .ok (some (t, cs))) (hc : cs[i]? = some (some c)) : SafeBuilt E c := by
  have hs := unifyF_slots E fuel false types t cs h
  have hi : i < types.length := by rw [← hs.1]; exact (List.getElem?_eq_some_iff.mp hc).1
  obtain ⟨c', hc', hrel⟩ := hs.2 i types[i] (List.getElem?_eq_getElem hi)
  rw [hc] at hc'; simp only [Option.some.injEq] at hc'; subst hc'
  exact slotRel_safeBuilt hrel

/-- … and precisely which: a slot filled the direct way holds exactly the plan
`GetConversion(types[i], result)` returns. -/
theorem safe_never_unsafe_direct (E : Env) (fuel : Nat) (types : List Ty) (t ty : Ty) (cs : Convs) (i : Nat) (c : UConv)
    (h : unify E fuel types = .ok (some (t, cs))) (hi : types[i]? = some ty) (hc : cs[i]? = some (some c))
    (hk : ((isTupleTy ty && isListTy t) || (isObjectTy ty && isMapTy t)) = false) :
    (∃ p, c = .plan p ∧ getConversion E ty t = some p) ∨ (t = .dyn ∧ c = .constDyn) := by
  obtain ⟨c', hc', hrel⟩ := (unifyF_slots E fuel false types t cs h).2 i ty hi
  rw [hc] at hc'; simp only [Option.some.injEq] at hc'; subst hc'
  rcases slotRel_plain_kind hk hrel with hd | ⟨_, hn⟩ | ⟨ht, hcd⟩
  · obtain ⟨_, p, hp, hg⟩ := direct_plan hd
    exact .inl ⟨p, hp, hg⟩
  · simp at hn
  · simp only [Option.some.injEq] at hcd
    exact .inr ⟨ht, hcd⟩

example : SafeBuilt (Env.std Env.simple) (.plan (.wrap .string .boolToStr)) :=
  .plan (a := .bool) (b := .string) rfl

/-! ## Each returned conversion yields a value of the unified type -/

/-- Full statement of the clause "each returned conversion applied to any value of its
input type yields a value of the unified type", for placeholder-free types.  Not proved in
this generality (see the header): `convs_yield_unified_slots_partial` is the statement
with its two side conditions; the harness judges the clause on every applied conversion. -/
def ConvsYieldUnified : Prop :=
  ∀ (E : Env) (fuel fuel' : Nat) (uns : Bool) (types : List Ty) (t : Ty) (cs : Convs) (i : Nat) (c : UConv) (v r : Value),
    UnifyLaws E → (∀ ty ∈ types, plainTy ty = true) → plainTy t = true →
    unifyF E fuel uns types = .ok (some (t, cs)) → cs[i]? = some (some c) → types[i]? = some v.ty →
    Value.wt v = true → applyU E fuel' c v = .ok r → r.ty = t

/-- What holds: a slot filled the direct way (it holds what `GetConversion[Unsafe](input,
result)` offers — every slot except those of tuples among lists and objects among
maps, see `convs_direct_of_kind`) applied to any well-formed value of its input type —
known, unknown, null or marked, any depth — returns a value whose type is exactly the
unified type, or an error; never a value of another type.  Either mode; placeholder-free,
well-formed result type; reuse of C08.result_type_partial. -/
theorem convs_yield_unified_partial (E : Env) (hU : UnifyLaws E) (fuel fuel' : Nat) (uns : Bool) (types : List Ty)
    (t : Ty) (cs : Convs) (i : Nat) (c : UConv) (v r : Value) (ht : plainTy t = true)
    (_h : unifyF E fuel uns types = .ok (some (t, cs))) (_hc : cs[i]? = some (some c))
    (hd : slotOf E uns t v.ty = some (some c)) (hv : Value.wt v = true)
    (ha : applyU E fuel' c v = .ok r) : r.ty = t ∧ yieldsUnified t r = true := by
  simp only [plainTy, Bool.and_eq_true, Bool.not_eq_true'] at ht
  obtain ⟨_, p, rfl, hg⟩ := direct_plan hd
  have hp : RegularPair v t := ⟨hv, ht.1.1, ht.2⟩
  have hty : r.ty = t := by
    rw [apply_ty hU hp hg ha, stripOpt_id_of_noOpt t ht.1.2]
  refine ⟨hty, ?_⟩
  have hc := conform_stripOpt t ht.1.1 ht.2
  rw [stripOpt_id_of_noOpt t ht.1.2] at hc
  simp [yieldsUnified, conformsTo, noOptional, hty, hc, ht.1.2]

/-- which slots are filled the direct way: all those whose input type is not a tuple
headed for a list type nor an object headed for a map type -/
theorem convs_direct_of_kind (E : Env) (fuel : Nat) (uns : Bool) (types : List Ty) (t ty : Ty) (cs : Convs)
    (i : Nat) (c : UConv) (h : unifyF E fuel uns types = .ok (some (t, cs))) (hi : types[i]? = some ty)
    (hc : cs[i]? = some (some c)) (hk : ((isTupleTy ty && isListTy t) || (isObjectTy ty && isMapTy t)) = false)
    (ht : t.isDyn = false) : slotOf E uns t ty = some (some c) := by
  obtain ⟨c', hc', hrel⟩ := (unifyF_slots E fuel uns types t cs h).2 i ty hi
  rw [hc] at hc'; simp only [Option.some.injEq] at hc'; subst hc'
  rcases slotRel_plain_kind hk hrel with hd | ⟨_, hn⟩ | ⟨ht', _⟩
  · exact hd
  · simp at hn
  · subst ht'; simp [Ty.isDyn] at ht

/-- the conversion handed to a placeholder input by unifyAllAsDynamic yields DynamicVal,
whose type is the unified type -/
theorem convs_yield_unified_dynamic (E : Env) (fuel : Nat) (v : Value) :
    applyU E fuel .constDyn v = .ok (Value.unknown .dyn) ∧ yieldsUnified .dyn (Value.unknown .dyn) = true :=
  ⟨rfl, by decide⟩

/-- What the slots of tuples among lists / objects among maps hold (the others are direct,
`convs_direct_of_kind`): the direct conversion; or the conversion to `mid` — the list / map
type the tuples / objects unify to on their own — alone, where `mid` already is the
result; or the closure composed of `GetConversion[Unsafe](input, mid)` and
`GetConversion[Unsafe](mid, result)`, in this order. -/
theorem convs_composed_steps (E : Env) (fuel : Nat) (uns : Bool) (types : List Ty) (t ty : Ty) (cs : Convs)
    (i : Nat) (c : UConv) (h : unifyF E fuel uns types = .ok (some (t, cs))) (hi : types[i]? = some ty)
    (hc : cs[i]? = some (some c)) (ht : t.isDyn = false) :
    slotOf E uns t ty = some (some c) ∨
    ∃ mid f, structColl ty mid t = true ∧ slotOf E uns mid ty = some (some f) ∧
      ((c = f ∧ (mid.equals t = true ∨ mid = t)) ∨
       ∃ s, c = .andThen (some f) s ∧ slotOf E uns t mid = some (some s)) := by
  obtain ⟨c', hc', hrel⟩ := (unifyF_slots E fuel uns types t cs h).2 i ty hi
  rw [hc] at hc'; simp only [Option.some.injEq] at hc'; subst hc'
  rcases slotRel_cases hrel with hd | ⟨hdyn, _⟩ | hm
  · exact .inl hd
  · subst hdyn; simp [Ty.isDyn] at ht
  · exact .inr hm

/-- The composed closure hands the OUTPUT of its first step to the second (unify.go since
/repo df9d7d3: `out, err := tupleConv(in); …; return listConv(out)`) … -/
theorem composed_applies_second_to_output (E : Env) (fuel : Nat) (f s : UConv) (v out : Value)
    (h : applyU E fuel f v = .ok out) : applyU E fuel (.andThen (some f) s) v = applyU E fuel s out :=
  applyU_andThen h

/-- … and stops at the first step's error (`if err != nil { return out, err }`). -/
theorem composed_stops_at_first_error (E : Env) (fuel : Nat) (f s : UConv) (v : Value) (e : String)
    (h : applyU E fuel f v = .err e) : applyU E fuel (.andThen (some f) s) v = .err e := by
  rw [applyU_andThen_stop (by simp [h]), h]

/-- The composed closure yields a value of the unified type: first step a direct slot
input type → `mid`, second a direct slot `mid` → result, both targets placeholder-free
and well-formed, the intermediate value well-formed; either mode, any depth. -/
theorem convs_yield_unified_composed_partial (E : Env) (hU : UnifyLaws E) (fuel' : Nat) (uns : Bool)
    (t mid : Ty) (f s : UConv) (v r : Value) (ht : plainTy t = true) (hm : plainTy mid = true)
    (hf : slotOf E uns mid v.ty = some (some f)) (hs : slotOf E uns t mid = some (some s))
    (hv : Value.wt v = true) (hout : ∀ out, applyU E fuel' f v = .ok out → Value.wt out = true)
    (ha : applyU E fuel' (.andThen (some f) s) v = .ok r) : r.ty = t ∧ yieldsUnified t r = true := by
  have hty := andThen_ty hU ht hm hf hs hv hout ha
  exact ⟨hty, yieldsUnified_of_ty ht hty⟩

/-- THE CLAUSE for every slot `unify` returns, direct or composed: applied to any
well-formed value of its input type — known, unknown, null or marked, any depth — the
outcome, if it is a value, has exactly the unified type.  Side conditions: the result type
and the types the steps of the conversion convert to (`stepTargets`: read off the
returned conversion; for a direct slot that is the result type alone) are well-formed
and placeholder-free; for a composed closure the value its first step hands on is
well-formed. -/
theorem convs_yield_unified_slots_partial (E : Env) (hU : UnifyLaws E) (fuel fuel' : Nat) (uns : Bool)
    (types : List Ty) (t : Ty) (cs : Convs) (i : Nat) (c : UConv) (v r : Value) (ht : plainTy t = true)
    (h : unifyF E fuel uns types = .ok (some (t, cs))) (hc : cs[i]? = some (some c)) (hi : types[i]? = some v.ty)
    (hv : Value.wt v = true) (hT : ∀ m ∈ stepTargets c, plainTy m = true)
    (hout : ∀ f s out, c = .andThen (some f) s → applyU E fuel' f v = .ok out → Value.wt out = true)
    (ha : applyU E fuel' c v = .ok r) : r.ty = t ∧ yieldsUnified t r = true := by
  obtain ⟨c', hc', hrel⟩ := (unifyF_slots E fuel uns types t cs h).2 i v.ty hi
  rw [hc] at hc'; simp only [Option.some.injEq] at hc'; subst hc'
  have hty := slot_applied_ty hU ht hrel hv hT hout ha
  exact ⟨hty, yieldsUnified_of_ty ht hty⟩

/-- the former witness (safe mode, placeholder-free): `Unify([tuple(tuple(bool)),
tuple(tuple(string)), list(list(string))])` is `list(list(string))`; the conversion returned
for the first input is the closure composed by unifyTuplesAsList.  Before /repo df9d7d3 it
returned `[[true]] : list(list(bool))` on `((true))`; now `[["true"]]` of the unified type. -/
def yieldWitnessTys : List Ty := [.tuple [.tuple [.bool]], .tuple [.tuple [.string]], .list (.list .string)]
def yieldWitnessV : Value := ⟨.tuple [.tuple [.bool]], .seq [.seq [.b true]]⟩
def yieldWitnessConv : UConv :=
  .andThen
    (some (.plan (.wrap (.list (.tuple [.string]))
      (.tupToList [.wrap (.tuple [.string]) (.tupToTup [.wrap .string .boolToStr])] false))))
    (.plan (.wrap (.list (.list .string))
      (.collToList (.list .string) (.wrap (.list .string) (.tupToList [.nil] false)))))

theorem convs_yield_unified_witness_fixed :
    (unifyF (Env.std Env.simple) 3 false yieldWitnessTys).map (fun o => o.map fun r => (r.1, r.2[0]?)) =
      .ok (some (.list (.list .string), some (some yieldWitnessConv))) ∧
    applyU (Env.std Env.simple) 8 yieldWitnessConv yieldWitnessV =
      .ok ⟨.list (.list .string), .seq [.seq [.s "true"]]⟩ ∧
    yieldsUnified (.list (.list .string)) ⟨.list (.list .string), .seq [.seq [.s "true"]]⟩ = true :=
  ⟨rfl, rfl, by decide⟩

/-- non-vacuity of the side conditions on that witness -/
example : (stepTargets yieldWitnessConv).all plainTy = true := by decide

/-! ## Safe conversions never fail on known values -/

/-- Full statement of the clause "for placeholder-free inputs the conversion … never
fails in safe mode".  Not proved in this generality (see the header):
`safe_convs_total_slots_partial` is the statement with its side conditions; the harness
judges the clause on every applied conversion. -/
def SafeConvsTotal : Prop :=
  ∀ (E : Env) (fuel fuel' : Nat) (types : List Ty) (t : Ty) (cs : Convs) (i : Nat) (c : UConv) (v : Value) (e : String),
    UnifyLaws E → SetLaws E → (∀ ty ∈ types, plainTy ty = true) → plainTy t = true →
    unify E fuel types = .ok (some (t, cs)) → cs[i]? = some (some c) → types[i]? = some v.ty →
    Value.wt v = true → Payload.whollyKnown v.v = true → applyU E fuel' c v ≠ .err e

/-- What holds: in safe mode a slot filled the direct way never reports an error and
never panics on a well-formed value of its input type without unknown parts (nulls and
marks allowed, any depth): the outcome is a value of the unified type, or the model's
fuel ran out.  Reuse of C08.safe_total_partial. -/
theorem safe_convs_total_partial (E : Env) (hU : UnifyLaws E) (hS : SetLaws E) (fuel fuel' : Nat) (types : List Ty)
    (t : Ty) (cs : Convs) (i : Nat) (c : UConv) (v : Value) (ht : plainTy t = true)
    (_h : unify E fuel types = .ok (some (t, cs))) (_hc : cs[i]? = some (some c))
    (hd : slotOf E false t v.ty = some (some c)) (hv : Value.wt v = true)
    (hk : Payload.whollyKnown v.v = true) :
    (∃ r, applyU E fuel' c v = .ok r ∧ r.ty = t) ∨ applyU E fuel' c v = .unmodelled := by
  simp only [plainTy, Bool.and_eq_true, Bool.not_eq_true'] at ht
  obtain ⟨_, p, rfl, hg⟩ := direct_plan hd
  have hp : RegularPair v t := ⟨hv, ht.1.1, ht.2⟩
  have h := apply_NB hU hS fuel' hp hk hg
  simp only [applyU]
  cases hr : apply E fuel' p v with
  | ok r => exact .inl ⟨r, rfl, by rw [apply_ty hU hp hg hr, stripOpt_id_of_noOpt t ht.1.2]⟩
  | err c => exact absurd (h.2 c hr) (by simp)
  | panic w => exact absurd hr (h.1 w)
  | unmodelled => exact .inr rfl

/-- THE CLAUSE for every slot safe unification returns, direct or composed: on a
well-formed value of its input type without unknown parts (nulls and marks allowed, any
depth) it never reports an error and never panics — the outcome is a value of the unified
type, or the model's fuel ran out.  Side conditions as in
`convs_yield_unified_slots_partial`; the value a composed closure's first step hands on
is well-formed and without unknown parts too. -/
theorem safe_convs_total_slots_partial (E : Env) (hU : UnifyLaws E) (hS : SetLaws E) (fuel fuel' : Nat)
    (types : List Ty) (t : Ty) (cs : Convs) (i : Nat) (c : UConv) (v : Value) (ht : plainTy t = true)
    (h : unify E fuel types = .ok (some (t, cs))) (hc : cs[i]? = some (some c)) (hi : types[i]? = some v.ty)
    (hv : Value.wt v = true) (hk : Payload.whollyKnown v.v = true)
    (hT : ∀ m ∈ stepTargets c, plainTy m = true)
    (hout : ∀ f s out, c = .andThen (some f) s → applyU E fuel' f v = .ok out →
      Value.wt out = true ∧ Payload.whollyKnown out.v = true) :
    (∃ r, applyU E fuel' c v = .ok r ∧ r.ty = t) ∨ applyU E fuel' c v = .unmodelled := by
  obtain ⟨c', hc', hrel⟩ := (unifyF_slots E fuel false types t cs h).2 i v.ty hi
  rw [hc] at hc'; simp only [Option.some.injEq] at hc'; subst hc'
  have hnb := slot_applied_NB hU hS (fuel := fuel') ht hrel hv hk hT hout
  cases hr : applyU E fuel' c v with
  | ok r => exact .inl ⟨r, rfl, slot_applied_ty hU ht hrel hv hT (fun f s out e h1 => (hout f s out e h1).1) hr⟩
  | err e => exact absurd (hnb.2 e hr) (by simp)
  | panic w => exact absurd hr (hnb.1 w)
  | unmodelled => exact .inr rfl

/-- … for the composed closure by itself: two direct slots in a row. -/
theorem safe_convs_total_composed_partial (E : Env) (hU : UnifyLaws E) (hS : SetLaws E) (fuel' : Nat)
    (t mid : Ty) (f s : UConv) (v : Value) (ht : plainTy t = true) (hm : plainTy mid = true)
    (hf : slotOf E false mid v.ty = some (some f)) (hs : slotOf E false t mid = some (some s))
    (hv : Value.wt v = true) (hk : Payload.whollyKnown v.v = true)
    (hout : ∀ out, applyU E fuel' f v = .ok out → Value.wt out = true ∧ Payload.whollyKnown out.v = true) :
    (∃ r, applyU E fuel' (.andThen (some f) s) v = .ok r ∧ r.ty = t) ∨
      applyU E fuel' (.andThen (some f) s) v = .unmodelled := by
  have hnb := andThen_NB hU hS (fuel := fuel') ht hm hf hs hv hk hout
  cases hr : applyU E fuel' (.andThen (some f) s) v with
  | ok r => exact .inl ⟨r, rfl, andThen_ty hU ht hm hf hs hv (fun out h1 => (hout out h1).1) hr⟩
  | err e => exact absurd (hnb.2 e hr) (by simp)
  | panic w => exact absurd hr (hnb.1 w)
  | unmodelled => exact .inr rfl

/-- the former witness (safe mode, placeholder-free, known value): `Unify([tuple(tuple(bool),
tuple(string)), list(list(string))])` is `list(list(string))`.  Before /repo df9d7d3 the
conversion returned for the tuple failed on `((true), ("a"))` — "element types must all
match for conversion to list", its second step converting the original elements `(true)`
and `("a")` separately; now it returns `[["true"], ["a"]]`. -/
def totalWitnessTys : List Ty := [.tuple [.tuple [.bool], .tuple [.string]], .list (.list .string)]
def totalWitnessV : Value := ⟨.tuple [.tuple [.bool], .tuple [.string]], .seq [.seq [.b true], .seq [.s "a"]]⟩
def totalWitnessConv : UConv :=
  .andThen
    (some (.plan (.wrap (.list (.tuple [.string]))
      (.tupToList [.wrap (.tuple [.string]) (.tupToTup [.wrap .string .boolToStr]), .nil] false))))
    (.plan (.wrap (.list (.list .string))
      (.collToList (.list .string) (.wrap (.list .string) (.tupToList [.nil] false)))))

theorem safe_convs_total_witness_fixed :
    (unify (Env.std Env.simple) 3 totalWitnessTys).map (fun o => o.map fun r => (r.1, r.2[0]?)) =
      .ok (some (.list (.list .string), some (some totalWitnessConv))) ∧
    applyU (Env.std Env.simple) 8 totalWitnessConv totalWitnessV =
      .ok ⟨.list (.list .string), .seq [.seq [.s "true"], .seq [.s "a"]]⟩ :=
  ⟨rfl, rfl⟩

/-- non-vacuity of the partial theorems: a direct slot, a regular value, an outcome -/
example : slotOf (Env.std Env.simple) false (.list .string) (.tuple [.bool, .string]) =
    some (some (.plan (.wrap (.list .string) (.tupToList [.wrap .string .boolToStr, .nil] false)))) := rfl
example : applyU (Env.std Env.simple) 8 (.plan (.wrap (.list .string) (.tupToList [.wrap .string .boolToStr, .nil] false)))
    ⟨.tuple [.bool, .string], .seq [.b true, .s "a"]⟩ = .ok ⟨.list .string, .seq [.s "true", .s "a"]⟩ := rfl

/-! ## Unification never panics -/

/-- Clause "unification never panics": `unify` is a total function of the type list
(`unifyF` is defined by structural recursion — there is no partiality to hide a panic
in), and none of the `.panic` branches of the model — a kind-specific accessor
(`ElementType`, `AttributeTypes`, `TupleElementTypes`, `AttributeType(name)`) on a type
of another kind, `types[0]`, `convs[idx]`, `tupleConvs[i]`, `types[wantTypeIdx]` out of
range — is reachable: for every environment, fuel and mode, and any list of types whose
object types are well-formed (as every `cty.Object(…)` is). -/
theorem no_panic (E : Env) (fuel : Nat) (uns : Bool) (types : List Ty)
    (hw : ∀ ty ∈ types, isObjectTy ty = true → ty.wf = true) : (unifyF E fuel uns types).isPanic = false := by
  have h := unifyF_NP E fuel uns types hw
  cases hr : unifyF E fuel uns types <;> simp [Res.isPanic]
  exact absurd hr (h _)

/-- … nor does it report an error; with fuel 0 the model is out of fuel, otherwise it
answers NilType or a type with its slice.  (2 is always enough fuel on the real call
tree: the re-entry of unifyTuplesAsList / unifyObjectsAsMaps happens on lists / maps only.) -/
theorem no_panic_total (E : Env) (fuel : Nat) (uns : Bool) (types : List Ty)
    (hw : ∀ ty ∈ types, isObjectTy ty = true → ty.wf = true) :
    (∃ out, unifyF E fuel uns types = .ok out) ∨ unifyF E fuel uns types = .unmodelled ∨
      (∃ c, unifyF E fuel uns types = .err c) := by
  have h := unifyF_NP E fuel uns types hw
  cases hr : unifyF E fuel uns types with
  | ok o => exact .inl ⟨o, rfl⟩
  | err c => exact .inr (.inr ⟨c, rfl⟩)
  | panic w => exact absurd hr (h w)
  | unmodelled => exact .inr (.inl rfl)

/-- The closures composed by unifyTuplesAsList / unifyObjectsAsMaps never call a nil
conversion ("We know the tuple conversion is not nil, because we went from tuple to
list"): every composed slot has a non-nil first step. -/
theorem no_panic_nil_call (E : Env) (fuel : Nat) (uns : Bool) (types : List Ty) (t : Ty) (cs : Convs) (i : Nat)
    (s : UConv) (h : unifyF E fuel uns types = .ok (some (t, cs))) : cs[i]? ≠ some (some (.andThen none s)) := by
  intro hc
  have hs := unifyF_slots E fuel uns types t cs h
  have hi : i < types.length := by rw [← hs.1]; exact (List.getElem?_eq_some_iff.mp hc).1
  obtain ⟨c', hc', hrel⟩ := hs.2 i types[i] (List.getElem?_eq_getElem hi)
  rw [hc] at hc'; simp only [Option.some.injEq] at hc'; subst hc'
  cases hrel with
  | direct hd =>
    obtain ⟨_, p, hp, _⟩ := direct_plan hd
    simp at hp

/-- Full statement for the RETURNED conversions: applied to a well-formed value of
their input type they never panic.  Not proved in this generality (values with unknown
parts, placeholders in the types): `no_panic_applied_slots_partial` is what is proved; the
harness applies every returned conversion and reports every panic. -/
def NoPanicApplied : Prop :=
  ∀ (E : Env) (fuel fuel' : Nat) (uns : Bool) (types : List Ty) (t : Ty) (cs : Convs) (i : Nat) (c : UConv) (v : Value),
    UnifyLaws E → SetLaws E → unifyF E fuel uns types = .ok (some (t, cs)) → cs[i]? = some (some c) →
    types[i]? = some v.ty → Value.wt v = true → (applyU E fuel' c v).isPanic = false

/-- What holds: a slot filled the direct way, applied to a well-formed value of its
input type without unknown parts, does not panic (placeholder-free, well-formed result
type; either mode).  Reuse of C08.no_panic_getConversion_partial. -/
theorem no_panic_applied_partial (E : Env) (hU : UnifyLaws E) (hS : SetLaws E) (fuel' : Nat) (uns : Bool)
    (t : Ty) (c : UConv) (v : Value) (ht : plainTy t = true)
    (hd : slotOf E uns t v.ty = some (some c)) (hv : Value.wt v = true)
    (hk : Payload.whollyKnown v.v = true) : (applyU E fuel' c v).isPanic = false := by
  simp only [plainTy, Bool.and_eq_true, Bool.not_eq_true'] at ht
  obtain ⟨_, p, rfl, hg⟩ := direct_plan hd
  have hp : RegularPair v t := ⟨hv, ht.1.1, ht.2⟩
  have h := (apply_NB hU hS fuel' hp hk hg).1
  simp only [applyU]
  cases hr : apply E fuel' p v <;> simp [Res.isPanic]
  exact absurd hr (h _)

/-- EVERY slot `unify` returns, direct or composed, either mode: applied to a well-formed
value of its input type without unknown parts it does not panic (side conditions as in
`safe_convs_total_slots_partial`). -/
theorem no_panic_applied_slots_partial (E : Env) (hU : UnifyLaws E) (hS : SetLaws E) (fuel fuel' : Nat)
    (uns : Bool) (types : List Ty) (t : Ty) (cs : Convs) (i : Nat) (c : UConv) (v : Value) (ht : plainTy t = true)
    (h : unifyF E fuel uns types = .ok (some (t, cs))) (hc : cs[i]? = some (some c)) (hi : types[i]? = some v.ty)
    (hv : Value.wt v = true) (hk : Payload.whollyKnown v.v = true)
    (hT : ∀ m ∈ stepTargets c, plainTy m = true)
    (hout : ∀ f s out, c = .andThen (some f) s → applyU E fuel' f v = .ok out →
      Value.wt out = true ∧ Payload.whollyKnown out.v = true) : (applyU E fuel' c v).isPanic = false := by
  obtain ⟨c', hc', hrel⟩ := (unifyF_slots E fuel uns types t cs h).2 i v.ty hi
  rw [hc] at hc'; simp only [Option.some.injEq] at hc'; subst hc'
  have hnb := (slot_applied_NB hU hS (fuel := fuel') ht hrel hv hk hT hout).1
  cases hr : applyU E fuel' c v <;> simp [Res.isPanic]
  exact absurd hr (hnb _)

/-- … for the composed closure by itself: two direct slots in a row. -/
theorem no_panic_applied_composed_partial (E : Env) (hU : UnifyLaws E) (hS : SetLaws E) (fuel' : Nat) (uns : Bool)
    (t mid : Ty) (f s : UConv) (v : Value) (ht : plainTy t = true) (hm : plainTy mid = true)
    (hf : slotOf E uns mid v.ty = some (some f)) (hs : slotOf E uns t mid = some (some s))
    (hv : Value.wt v = true) (hk : Payload.whollyKnown v.v = true)
    (hout : ∀ out, applyU E fuel' f v = .ok out → Value.wt out = true ∧ Payload.whollyKnown out.v = true) :
    (applyU E fuel' (.andThen (some f) s) v).isPanic = false := by
  have hnb := (andThen_NB hU hS (fuel := fuel') ht hm hf hs hv hk hout).1
  cases hr : applyU E fuel' (.andThen (some f) s) v <;> simp [Res.isPanic]
  exact absurd hr (hnb _)

/-- the former witness: `Unify([tuple(), tuple(bool), list(dynamic)])` is `list(dynamic)`.
Before /repo df9d7d3 the closure composed for the empty tuple applied its second step —
list(bool) → list(dynamic), which for an empty collection asks
`val.Type().ElementType()` — to the original empty TUPLE value and panicked; now that step
gets the empty `list(bool)` the first step made, and returns it. -/
def panicWitnessConv : UConv :=
  .andThen (some (.plan (.wrap (.list .bool) (.emptyToList .bool))))
    (.plan (.wrap (.list .dyn) (.collToList .dyn (.wrap .dyn .dynPass))))

theorem no_panic_applied_witness_fixed :
    (unify (Env.std Env.simple) 3 [.tuple [], .tuple [.bool], .list .dyn]).map
        (fun o => o.map fun r => (r.1, r.2[0]?)) =
      .ok (some (.list .dyn, some (some panicWitnessConv))) ∧
    applyU (Env.std Env.simple) 8 panicWitnessConv ⟨.tuple [], .seq []⟩ = .ok ⟨.list .bool, .seq []⟩ ∧
    yieldsUnified (.list .dyn) ⟨.list .bool, .seq []⟩ = true :=
  ⟨rfl, rfl, by decide⟩

example : (unifyF (Env.std Env.simple) 2 true [.object ["a"] [.string] [false], .tuple [.bool], .dyn]).isPanic = false :=
  no_panic _ 2 true _ (by decide)

/-! ## The preference order -/

/-- `sortTypes` is Kahn's algorithm over the graph "`compareTypes(tys[i], tys[j]) < 0`"
(`prefers`; the comparison is made once per pair, lower index first).  What the code
guarantees, for EVERY list of types: the nodes it visits (`sortVisited`: the filled
part of the `result` array) are visited in a topological order — a type is tried as
unification target only after every type preferred to it … -/
theorem sort_is_topological (tys : List Ty) (k m i : Nat) (hk : (sortVisited tys)[k]? = some m)
    (hp : prefers tys i m = true) : i ∈ (sortVisited tys).take k :=
  (sortVisited_spec tys).1 k m hk i hp

/-- … no node is visited twice, every visited node is an index into the list … -/
theorem sort_visits_once (tys : List Ty) : (sortVisited tys).Nodup ∧ ∀ m ∈ sortVisited tys, m < tys.length :=
  (sortVisited_spec tys).2

/-- … and the returned slice is the visited part followed by zeros (the slots of
`result` that the queue window never reached). -/
theorem sort_result (tys : List Ty) :
    sortTypes tys = sortVisited tys ++ List.replicate (tys.length - (sortVisited tys).length) 0 :=
  sortTypes_eq tys

/-- Hence, whenever every node is visited (which is the case unless the preference
relation has a cycle on the list), the result is a permutation of the indices in
topological order. -/
theorem sort_is_permutation_partial (tys : List Ty) (h : (sortVisited tys).length = tys.length) :
    sortTypes tys = sortVisited tys ∧ isPermutation tys.length (sortTypes tys) = true := by
  have he : sortTypes tys = sortVisited tys := by rw [sort_result, h]; simp
  refine ⟨he, ?_⟩
  obtain ⟨hnd, hlt⟩ := sort_visits_once tys
  rw [he]
  simp only [isPermutation, h, beq_self_eq_true, Bool.true_and, List.all_eq_true, List.mem_range,
    List.contains_iff_mem]
  intro i hi
  apply Classical.byContradiction
  intro hni
  -- pigeonhole: `length` distinct indices below `length`, none of them `i`
  have hsub : ∀ x ∈ sortVisited tys, x ∈ (List.range tys.length).filter (fun x => x != i) := by
    intro x hx
    refine List.mem_filter.mpr ⟨List.mem_range.mpr (hlt x hx), ?_⟩
    have : x ≠ i := fun e => hni (e ▸ hx)
    simpa using this
  have hle := List.Nodup.length_le_of_subset hnd hsub
  have hst := filter_length_strict (fun x => x != i) (fun _ => true) (List.range tys.length)
    (fun _ _ _ => rfl) ⟨i, List.mem_range.mpr hi, rfl, by simp⟩
  have hall : (List.range tys.length).filter (fun _ => true) = List.range tys.length :=
    List.filter_eq_self.mpr (fun _ _ => rfl)
  rw [hall, List.length_range] at hst
  omega

/-- Full statement "sortTypes returns the indices in SOME order, each once": FALSE of
the code — the preference relation is not acyclic. -/
def SortVisitsAll : Prop := ∀ tys : List Ty, isPermutation tys.length (sortTypes tys) = true

/-- the witness: three tuple types that prefer each other in a cycle (component-wise,
`string` is preferred to `number`, and `list(bool)` is comparable to neither) are never
visited; the returned order tries `types[0]` again instead -/
def cycleTys : List Ty :=
  [.tuple [.string, .list .bool, .number], .tuple [.number, .string, .list .bool],
   .tuple [.list .bool, .number, .string], .string]

theorem sort_counterexample :
    (prefers cycleTys 0 1 && prefers cycleTys 1 2 && prefers cycleTys 2 0) = true ∧
    sortTypes cycleTys = [3, 0, 0, 0] ∧ isPermutation 4 (sortTypes cycleTys) = false := by
  refine ⟨by decide, by decide, by decide⟩

theorem sortVisitsAll_false : ¬ SortVisitsAll := by
  intro h
  have := h cycleTys
  rw [show cycleTys.length = 4 from rfl, sort_counterexample.2.2] at this
  exact absurd this (by decide)

/-- a consequence for `Unify`: with the cycle in the list, DynamicPseudoType — to which
every input converts, and which `Unify` of the same list without the tuples answers —
is never tried: the answer is NilType -/
theorem sort_cycle_hides_candidate :
    unify (Env.std Env.simple) 2 (cycleTys ++ [.dyn]) = .ok none ∧
    (unify (Env.std Env.simple) 2 [.tuple [.string, .list .bool, .number], .string, .dyn]).map
      (fun o => o.map (·.1)) = .ok (some .dyn) :=
  ⟨rfl, rfl⟩

example : (sortVisited [.dyn, .list .number, .set .string, .list .string]) = [3, 1, 2, 0] := by decide
example : (sortVisited [.dyn, .list .number, .set .string, .list .string]).length = 4 := by decide

/-! ## Unsafe unification succeeds whenever safe unification does -/

/-- Full statement of the clause "unsafe unification succeeds whenever safe unification
… does", for ANY list of types: FALSE of the code — see `unsafe_of_safe_counterexample`
(the witness has a placeholder; the clause of the property is about placeholder-free
types). -/
def UnsafeOfSafe : Prop :=
  ∀ (fuel : Nat) (types : List Ty) (t : Ty) (cs : Convs),
    unify (Env.std Env.simple) fuel types = .ok (some (t, cs)) →
    ∃ t' cs', unifyUnsafe (Env.std Env.simple) fuel types = .ok (some (t', cs'))

/-- The heart of the clause — the preference loop, any environment, types of any depth:
where the safe loop settles on a placeholder-free type (every input `Equals` it or has a
SAFE conversion to it), the unsafe loop settles on a type too — that one or one
earlier in the preference order. -/
theorem unsafe_of_safe_general (E : Env) (types : List Ty) (hne : types ≠ []) (t : Ty) (cs : Convs)
    (ht : t.hasDyn = false) (h : general E false types = .ok (some (t, cs))) :
    ∃ t' cs', general E true types = .ok (some (t', cs')) :=
  general_unsafe_of_safe E types hne ht h

/-- Hence `UnifyUnsafe` succeeds whenever `Unify` does for every list whose kinds send
`unify` straight to its preference loop (`generalKinds`: not all maps / lists / sets /
objects / tuples, no map-with-objects or list-with-tuples mixture, not objects with
tuples — e.g. primitives, sets with lists, collections with primitives), for a
placeholder-free result, types of any depth, any environment.  (The paths through
unifyCollectionTypes / unifyObjectTypes / unifyTupleTypes re-enter `unify` on element /
attribute types; for those the harness searches for a failing input on every run —
all lists of ≤ 3 types of size ≤ 2 and random deeper ones — and has found none without a
placeholder; not proved.) -/
theorem unsafe_of_safe_partial (E : Env) (fuel : Nat) (types : List Ty) (t : Ty) (cs : Convs)
    (hk : generalKinds types = true) (ht : t.hasDyn = false)
    (h : unify E (fuel + 1) types = .ok (some (t, cs))) :
    ∃ t' cs', unifyUnsafe E (fuel + 1) types = .ok (some (t', cs')) := by
  have hne : types ≠ [] := by
    intro e; subst e; simp [generalKinds] at hk
  simp only [unify, unifyUnsafe, unifyF, unifyStep_generalKinds _ _ _ _ hk] at h ⊢
  exact general_unsafe_of_safe E types hne ht h

/-- Closed form, any depth, for the types built from primitives, capsule types, lists,
sets and maps (`flat`: no tuple, no object, no placeholder): wherever the type result of
safe unification (ConvertUnify's `unifyTyF`, the `unify` the conversions themselves
consult) is a type, so is that of unsafe unification — for every fuel, hence for
`unifyTy`.  By induction on the nesting, together with `unify_result_reachable_flat`. -/
theorem unsafe_of_safe_flat (fuel : Nat) (ts : List Ty) (t : Ty) (hf : ∀ x ∈ ts, flat x = true)
    (h : unifyTyF fuel false ts = some t) : ∃ t', unifyTyF fuel true ts = some t' :=
  (flat_main fuel).2 ts t hf h

theorem unsafe_of_safe_flat_std (ts : List Ty) (t : Ty) (hf : ∀ x ∈ ts, flat x = true)
    (h : unifyTy false ts = some t) : ∃ t', unifyTy true ts = some t' :=
  (flat_main (fuelFor ts)).2 ts t hf h

/-- the invariant behind it (the clause "a type every input really converts to", at the
level of types): the unified type of flat types is flat, and every input `Equals` it or
has a conversion to it in the mode of the unification, whatever the environment -/
theorem unify_result_reachable_flat (fuel : Nat) (uns : Bool) (ts : List Ty) (t : Ty)
    (hf : ∀ x ∈ ts, flat x = true) (h : unifyTyF fuel uns ts = some t) :
    flat t = true ∧ ∀ x ∈ ts, x.equals t = true ∨ ∀ E : Env, (gck E x t uns).isSome = true :=
  (flat_main fuel).1 uns ts t hf h

example : flat (.map (.list (.set .string))) = true := by decide
example : unifyTyF 6 false [.list (.set .bool), .list (.list .string)] = some (.list (.list .string)) := rfl

/-- the witness (C08's `safe_sub_unsafe_counterexample`, now on the full model):
`Unify([map(tuple(string)), object{a: bool, m: dynamic, zz: string}])` is `map(dynamic)`,
`UnifyUnsafe` of the same list is NilType — in unsafe mode the attribute types unify to
`string` (dynamic → string is an unsafe conversion), after which `map(tuple(string))`
and `map(string)` have no common type -/
def unsafeWitnessTys : List Ty :=
  [.map (.tuple [.string]), .object ["a", "m", "zz"] [.bool, .dyn, .string] [false, false, false]]

theorem unsafe_of_safe_counterexample :
    (unify (Env.std Env.simple) 3 unsafeWitnessTys).map (fun o => o.map (·.1)) = .ok (some (.map .dyn)) ∧
    unifyUnsafe (Env.std Env.simple) 3 unsafeWitnessTys = .ok none ∧
    unifyTyF 12 false unsafeWitnessTys = some (.map .dyn) ∧ unifyTyF 12 true unsafeWitnessTys = none :=
  ⟨rfl, rfl, rfl, rfl⟩

theorem unsafeOfSafe_false : ¬ UnsafeOfSafe := by
  intro h
  cases hu : unify (Env.std Env.simple) 3 unsafeWitnessTys with
  | ok o =>
    have h1 := unsafe_of_safe_counterexample.1
    rw [hu] at h1
    cases o with
    | none => simp [Res.map] at h1
    | some r =>
      obtain ⟨t, cs⟩ := r
      obtain ⟨t', cs', h2⟩ := h 3 unsafeWitnessTys t cs hu
      rw [unsafe_of_safe_counterexample.2.1] at h2
      simp at h2
  | err _ => have h1 := unsafe_of_safe_counterexample.1; rw [hu] at h1; simp [Res.map] at h1
  | panic _ => have h1 := unsafe_of_safe_counterexample.1; rw [hu] at h1; simp [Res.map] at h1
  | unmodelled => have h1 := unsafe_of_safe_counterexample.1; rw [hu] at h1; simp [Res.map] at h1

example : generalKinds [.set .string, .set .bool, .list .number] = true := by decide
example : generalKinds [.string, .number, .bool] = true := by decide
example : (unify (Env.std Env.simple) 2 [.set .bool, .list .string]).map (fun o => o.map (·.1)) =
    .ok (some (.list .string)) := rfl

/-! ## The composed closures without the side condition on the intermediate value

C08's well-typedness preservation (`Convert.apply_wt`, Lemmas/ConvertD08WT.lean: the result of a
successful conversion of a well-typed value to a placeholder-free target is well typed, and
wholly known if the input is) discharges the side condition "the value the first step hands
to the second is `Value.wt` / wholly known" of the `…_slots_partial` theorems above. -/

/-- what the first step of a composed closure hands on: well typed; wholly known if the input is -/
theorem first_step_well_typed (E : Env) (hU : UnifyLaws E) (fuel' : Nat) (uns : Bool) (t : Ty) (c : UConv)
    (v : Value) (hrel : SlotRel E uns t v.ty (some c)) (hv : Value.wt v = true)
    (hT : ∀ m ∈ stepTargets c, plainTy m = true) :
    ∀ f s out, c = .andThen (some f) s → applyU E fuel' f v = .ok out →
      Value.wt out = true ∧ (Payload.whollyKnown v.v = true → Payload.whollyKnown out.v = true) := by
  intro f s out hc ha
  cases hrel with
  | direct hs =>
    obtain ⟨_, p, rfl, _⟩ := direct_plan hs
    simp at hc
  | allDyn _ => simp at hc
  | viaEq _ _ _ => simp at hc
  | composed hsc he hp hq =>
    rename_i mid p q
    simp only [UConv.andThen.injEq, Option.some.injEq] at hc
    obtain ⟨rfl, rfl⟩ := hc
    obtain ⟨c0, _, rfl⟩ := Option.map_eq_some_iff.mp hp
    have hm : plainTy mid = true := hT mid (by simp [stepTargets])
    obtain ⟨hw, _, hdn⟩ := plainTy_parts hm
    exact apply_wt hU ⟨hv, hw, hdn⟩ hp ha

/-- `convs_yield_unified_slots_partial` with the side condition on the intermediate value discharged:
every slot `unify` returns, direct or composed, applied to any well-typed value of its input
type yields — if it yields a value — a value of exactly the unified type. -/
theorem convs_yield_unified_slots_wt_partial (E : Env) (hU : UnifyLaws E) (fuel fuel' : Nat) (uns : Bool)
    (types : List Ty) (t : Ty) (cs : Convs) (i : Nat) (c : UConv) (v r : Value) (ht : plainTy t = true)
    (h : unifyF E fuel uns types = .ok (some (t, cs))) (hc : cs[i]? = some (some c)) (hi : types[i]? = some v.ty)
    (hv : Value.wt v = true) (hT : ∀ m ∈ stepTargets c, plainTy m = true)
    (ha : applyU E fuel' c v = .ok r) : r.ty = t ∧ yieldsUnified t r = true := by
  obtain ⟨c', hc', hrel⟩ := (unifyF_slots E fuel uns types t cs h).2 i v.ty hi
  rw [hc] at hc'; simp only [Option.some.injEq] at hc'; subst hc'
  exact convs_yield_unified_slots_partial E hU fuel fuel' uns types t cs i c v r ht h hc hi hv hT
    (fun f s out e h1 => (first_step_well_typed E hU fuel' uns t c v hrel hv hT f s out e h1).1) ha

/-- `safe_convs_total_slots_partial` with the side condition discharged. -/
theorem safe_convs_total_slots_wt_partial (E : Env) (hU : UnifyLaws E) (hS : SetLaws E) (fuel fuel' : Nat)
    (types : List Ty) (t : Ty) (cs : Convs) (i : Nat) (c : UConv) (v : Value) (ht : plainTy t = true)
    (h : unify E fuel types = .ok (some (t, cs))) (hc : cs[i]? = some (some c)) (hi : types[i]? = some v.ty)
    (hv : Value.wt v = true) (hk : Payload.whollyKnown v.v = true)
    (hT : ∀ m ∈ stepTargets c, plainTy m = true) :
    (∃ r, applyU E fuel' c v = .ok r ∧ r.ty = t) ∨ applyU E fuel' c v = .unmodelled := by
  obtain ⟨c', hc', hrel⟩ := (unifyF_slots E fuel false types t cs h).2 i v.ty hi
  rw [hc] at hc'; simp only [Option.some.injEq] at hc'; subst hc'
  exact safe_convs_total_slots_partial E hU hS fuel fuel' types t cs i c v ht h hc hi hv hk hT
    (fun f s out e h1 =>
      let w := first_step_well_typed E hU fuel' false t c v hrel hv hT f s out e h1
      ⟨w.1, w.2 hk⟩)

/-- `no_panic_applied_slots_partial` with the side condition discharged. -/
theorem no_panic_applied_slots_wt_partial (E : Env) (hU : UnifyLaws E) (hS : SetLaws E) (fuel fuel' : Nat)
    (uns : Bool) (types : List Ty) (t : Ty) (cs : Convs) (i : Nat) (c : UConv) (v : Value) (ht : plainTy t = true)
    (h : unifyF E fuel uns types = .ok (some (t, cs))) (hc : cs[i]? = some (some c)) (hi : types[i]? = some v.ty)
    (hv : Value.wt v = true) (hk : Payload.whollyKnown v.v = true)
    (hT : ∀ m ∈ stepTargets c, plainTy m = true) : (applyU E fuel' c v).isPanic = false := by
  obtain ⟨c', hc', hrel⟩ := (unifyF_slots E fuel uns types t cs h).2 i v.ty hi
  rw [hc] at hc'; simp only [Option.some.injEq] at hc'; subst hc'
  exact no_panic_applied_slots_partial E hU hS fuel fuel' uns types t cs i c v ht h hc hi hv hk hT
    (fun f s out e h1 =>
      let w := first_step_well_typed E hU fuel' uns t c v hrel hv hT f s out e h1
      ⟨w.1, w.2 hk⟩)

/-! ## Fuel: the type result of `unify` as a total function of the type list

`unifyTyF n` (ConvertUnify) is indexed by fuel because `unify` and `getConversion` call each
other; out of fuel answers `none`, which is also the answer NilType.  The clauses above that
speak of `unifyTyF fuel` / `unifyTy` (`unify_equal_types_ty`, `unsafe_of_safe_flat`,
`unify_result_reachable_flat`, `unifyLaws_std`) are tied to ONE function of the type list by the
theorems of this section (Lemmas/d09Fuel.lean): from `2·depth + 2` activations on the answer no
longer depends on the fuel, `fuelFor ts` (what `unifyTy`, the `Env.unify` of the drivers, uses)
is at least that, and `unifyTy` satisfies the fuel-free recursion equation of unify.go. -/

/-- Full statement "more fuel never changes an answer that is a type": FALSE of the model
below the bound — a nested call that runs out of fuel answers NilType, which switches a
fallback on (here: the element-wise object unification inside the tuple-as-list path fails for
lack of fuel and the list type itself wins; with one more activation the attributes unify as
a map). -/
def FuelMonotone : Prop :=
  ∀ (n : Nat) (uns : Bool) (ts : List Ty) (t : Ty), unifyTyF n uns ts = some t → unifyTyF (n + 1) uns ts = some t

def fuelWitnessTys : List Ty :=
  [.list (.object ["a"] [.string] [false]), .tuple [.object ["a", "b"] [.string, .number] [false, false]]]

theorem fuel_monotone_counterexample :
    unifyTyF 3 false fuelWitnessTys = some (.list (.object ["a"] [.string] [false])) ∧
    unifyTyF 4 false fuelWitnessTys = some (.list (.map .string)) ∧
    unifyTy false fuelWitnessTys = some (.list (.map .string)) ∧ 2 * tyDepthL fuelWitnessTys + 2 = 6 :=
  ⟨rfl, rfl, rfl, rfl⟩

theorem fuelMonotone_false : ¬ FuelMonotone := by
  intro h
  have := h 3 false fuelWitnessTys _ fuel_monotone_counterexample.1
  rw [fuel_monotone_counterexample.2.1] at this
  simp at this

/-- FUEL STABILITY (what holds): with at least `2·depth + 2` activations — depth = nesting depth
of the deepest input type — more fuel never changes the answer, a type or NilType. -/
theorem fuel_monotone_partial (uns : Bool) (ts : List Ty) (n m : Nat) (h : 2 * tyDepthL ts + 2 ≤ n) (hm : n ≤ m) :
    unifyTyF m uns ts = unifyTyF n uns ts :=
  unifyTyF_stable_le uns ts h hm

/-- `fuelFor ts` always suffices: at every sufficient fuel `unifyTyF` answers what `unifyTy` — the
`Env.unify` of `Env.std`, which the drivers run — answers. -/
theorem fuel_enough (uns : Bool) (ts : List Ty) (n : Nat) (h : 2 * tyDepthL ts + 2 ≤ n) :
    unifyTyF n uns ts = unifyTy uns ts ∧ 2 * tyDepthL ts + 2 ≤ fuelFor ts :=
  ⟨unifyTyF_eq_unifyTy uns ts h, by simp only [fuelFor]; omega⟩

/-- The fuel-free reading of unify.go: `unifyTy` is a fixed point of one activation of `unify` in
which every nested `unify(…)` call — `ty, _ := unify(elemTypes)`, the re-entry of
unifyTuplesAsList / unifyObjectsAsMaps, and the `unify` the conversions consult — is `unifyTy` again. -/
theorem unify_type_fixpoint (uns : Bool) (ts : List Ty) : unifyTy uns ts = Convert.unifyStep unifyTy uns ts :=
  unifyTy_fixpoint uns ts

/-- The unified type is never nested more deeply than the deepest input (the invariant that
bounds the re-entry with the list / map type swapped in). -/
theorem unify_type_depth (uns : Bool) (ts : List Ty) (t : Ty) (h : unifyTy uns ts = some t) :
    tyDepth t ≤ tyDepthL ts :=
  unifyTy_depth uns ts t h

/-- `unify_equal_types_ty` without fuel -/
theorem unify_equal_types_std (uns : Bool) (t : Ty) (n : Nat) (hn : 0 < n) (hw : t.wf = true) (ho : t.hasOpt = false) :
    unifyTy uns (List.replicate n t) = some t := by
  rw [← unifyTyF_eq_unifyTy uns _ (n := 2 * tyDepthL (List.replicate n t) + 2) (Nat.le_refl _)]
  exact unifyTyF_same _ uns t n (by rw [tyDepthL_replicate t n hn]; omega) hn hw ho

/-- `unify_result_reachable_flat` without fuel: the unified type of flat types is flat and every
input `Equals` it or converts to it, whatever the environment. -/
theorem unify_result_reachable_flat_std (uns : Bool) (ts : List Ty) (t : Ty)
    (hf : ∀ x ∈ ts, flat x = true) (h : unifyTy uns ts = some t) :
    flat t = true ∧ ∀ x ∈ ts, x.equals t = true ∨ ∀ E : Env, (gck E x t uns).isSome = true :=
  (flat_main (fuelFor ts)).1 uns ts t hf h

example : unifyTy false fuelWitnessTys = unifyTyF 6 false fuelWitnessTys := (fuel_enough false _ 6 (by decide)).1.symm
example : unifyTy true [.map (.tuple [.string, .bool]), .map (.tuple [.string, .bool])] = some (.map (.tuple [.string, .bool])) :=
  unify_equal_types_std true _ 2 (by decide) (by decide) (by decide)

/-- The fuel of the FULL model (unified type and conversions): two activations always suffice —
`unify` re-enters itself with its conversions used only from unifyTuplesAsList / unifyObjectsAsMaps,
on a list of list (map) types and placeholders, where the next activation never re-enters.  So
every clause above that is stated "for every fuel" of `unifyF` is a statement about the ONE outcome
`unifyF E 2 uns types` (the drivers run fuel 4), for every environment, mode and list of types. -/
theorem unify_fuel_two (E : Env) (n : Nat) (uns : Bool) (types : List Ty) :
    unifyF E (n + 2) uns types = unifyF E 2 uns types :=
  unifyF_two E n uns types

/-- e.g. `nil_iff_equal_partial` and `convs_length` read without fuel -/
theorem nil_iff_equal_fuel_free (E : Env) (n : Nat) (uns : Bool) (types : List Ty) (t : Ty) (cs : Convs)
    (hw : ∀ ty ∈ types, ty.wf = true) (h : unifyF E (n + 2) uns types = .ok (some (t, cs))) :
    unifyF E 2 uns types = .ok (some (t, cs)) ∧ cs.length = types.length ∧
      nilIffEqual t types (nilFlags cs) = true := by
  rw [unify_fuel_two] at h
  exact ⟨h, convs_length E 2 uns types t cs h, nil_iff_equal_partial E 2 uns types t cs hw h⟩

example : unifyF (Env.std Env.simple) 4 true [.list .string, .tuple [.string], .dyn] =
    unifyF (Env.std Env.simple) 2 true [.list .string, .tuple [.string], .dyn] := unify_fuel_two _ 2 _ _

/-! ## Absent iff equal, UNSAFE mode, placeholder members present

`nil_iff_equal_at` holds for either mode and any list; here it is spelled out for `UnifyUnsafe`
next to placeholder members — the lists on which unifyTuplesAsList gives up after the
re-unification with the swapped-in list type answered DynamicPseudoType (`unify` then runs its
preference loop, which must see the ORIGINAL tuple types: the model's `reunify` works on a copy,
as unify.go's `listed` does; a seeded change that swaps in place and does not restore on that
path makes the conversions of the tuple inputs disappear). -/

/-- For every input of `UnifyUnsafe` that is not the placeholder itself — whatever else is in
the list, bare placeholders included — the conversion is absent iff the input equals the result. -/
theorem nil_iff_equal_unsafe_at (E : Env) (fuel : Nat) (types : List Ty) (t : Ty) (cs : Convs) (i : Nat)
    (ty : Ty) (c : Option UConv) (hw : ty.wf = true) (hd : ty.isDyn = false)
    (h : unifyUnsafe E fuel types = .ok (some (t, cs))) (hi : types[i]? = some ty) (hc : cs[i]? = some c) :
    c = none ↔ ty.equals t = true :=
  nil_iff_equal_at E fuel true types t cs i ty c hw hd h hi hc

/-- the lists of the seeded change, on the model the drivers run: `UnifyUnsafe([list(string),
tuple(string), dynamic])` and `UnifyUnsafe([dynamic, tuple(string), list(string), tuple(string,
number)])` are `list(string)`, and exactly the `list(string)` input has no conversion -/
theorem nil_iff_equal_unsafe_placeholder_witness :
    (unifyUnsafe (Env.std Env.simple) 2 [.list .string, .tuple [.string], .dyn]).map
        (fun o => o.map fun r => (r.1, nilFlags r.2)) = .ok (some (.list .string, [true, false, false])) ∧
    (unifyUnsafe (Env.std Env.simple) 2 [.dyn, .tuple [.string], .list .string, .tuple [.string, .number]]).map
        (fun o => o.map fun r => (r.1, nilFlags r.2)) = .ok (some (.list .string, [false, false, true, false])) ∧
    nilIffEqual (.list .string) [.dyn, .tuple [.string], .list .string, .tuple [.string, .number]]
      [false, false, true, false] = true :=
  ⟨rfl, rfl, by decide⟩

/-- … and the conversion handed to the tuple really yields the unified type -/
example : applyU (Env.std Env.simple) 8
    (.plan (.wrap (.list .string) (.tupToList [.nil] true))) ⟨.tuple [.string], .seq [.s "b"]⟩ =
      .ok ⟨.list .string, .seq [.s "b"]⟩ := rfl

/-! ## The environment the C09 driver runs

The theorems above hold for every `E` with `UnifyLaws E` (and `SetLaws E` where members of sets are
hashed).  Both laws are PROVED of the environment the correspondence driver diffs against the real
code on every run (`Driver/HUnify.lean: unEnv = Env.std (Env.concrete unifyTy)` — `unify` is
`unifyTy`, hash / equivalence / order of set members are C08's transliterations of Value.Hash,
Equals and the set ordering), so the applied-conversion clauses are statements about that model. -/

/-- the environment of `Driver/HUnify.lean` -/
def driverEnv : Env := Env.std (Env.concrete unifyTy)

theorem unifyLaws_driver : UnifyLaws driverEnv := unifyLaws_std _

theorem setLaws_driver : SetLaws driverEnv where
  hash_ok := (setLaws_concrete unifyTy).hash_ok
  equiv_ok := (setLaws_concrete unifyTy).equiv_ok

/-- `convs_yield_unified_slots_wt_partial` for the driver's environment -/
theorem convs_yield_unified_driver (n fuel' : Nat) (uns : Bool) (types : List Ty) (t : Ty) (cs : Convs) (i : Nat)
    (c : UConv) (v r : Value) (ht : plainTy t = true)
    (h : unifyF driverEnv (n + 2) uns types = .ok (some (t, cs))) (hc : cs[i]? = some (some c))
    (hi : types[i]? = some v.ty) (hv : Value.wt v = true) (hT : ∀ m ∈ stepTargets c, plainTy m = true)
    (ha : applyU driverEnv fuel' c v = .ok r) : r.ty = t ∧ yieldsUnified t r = true :=
  convs_yield_unified_slots_wt_partial driverEnv unifyLaws_driver (n + 2) fuel' uns types t cs i c v r ht h hc hi hv hT ha

/-- `safe_convs_total_slots_wt_partial` for the driver's environment -/
theorem safe_convs_total_driver (n fuel' : Nat) (types : List Ty) (t : Ty) (cs : Convs) (i : Nat) (c : UConv)
    (v : Value) (ht : plainTy t = true) (h : unify driverEnv (n + 2) types = .ok (some (t, cs)))
    (hc : cs[i]? = some (some c)) (hi : types[i]? = some v.ty) (hv : Value.wt v = true)
    (hk : Payload.whollyKnown v.v = true) (hT : ∀ m ∈ stepTargets c, plainTy m = true) :
    (∃ r, applyU driverEnv fuel' c v = .ok r ∧ r.ty = t) ∨ applyU driverEnv fuel' c v = .unmodelled :=
  safe_convs_total_slots_wt_partial driverEnv unifyLaws_driver setLaws_driver (n + 2) fuel' types t cs i c v ht h hc hi hv hk hT

/-- `no_panic_applied_slots_wt_partial` for the driver's environment -/
theorem no_panic_applied_driver (n fuel' : Nat) (uns : Bool) (types : List Ty) (t : Ty) (cs : Convs) (i : Nat)
    (c : UConv) (v : Value) (ht : plainTy t = true)
    (h : unifyF driverEnv (n + 2) uns types = .ok (some (t, cs))) (hc : cs[i]? = some (some c))
    (hi : types[i]? = some v.ty) (hv : Value.wt v = true) (hk : Payload.whollyKnown v.v = true)
    (hT : ∀ m ∈ stepTargets c, plainTy m = true) : (applyU driverEnv fuel' c v).isPanic = false :=
  no_panic_applied_slots_wt_partial driverEnv unifyLaws_driver setLaws_driver (n + 2) fuel' uns types t cs i c v ht h hc hi hv hk hT

/-- the hypotheses are jointly satisfiable on the driver's environment: the composed closure of the
former witness, its step targets placeholder-free -/
example : (unify driverEnv 4 totalWitnessTys).map (fun o => o.map fun r => (r.1, r.2[0]?)) =
    .ok (some (.list (.list .string), some (some totalWitnessConv))) := rfl

/-! ## d09b — totality; placeholder-free inputs need no side condition

`plainTy` = well-formed, no optional-attribute annotation, no DynamicPseudoType anywhere: the
"placeholder-free" types of the property.  On such inputs the side conditions of the
applied-conversion theorems (`plainTy t`, `∀ m ∈ stepTargets c, plainTy m`) are THEOREMS
(Lemmas/d09bPlainTy.lean, d09bPlain.lean), and the model never runs out of fuel (d09bTotal.lean). -/

/-- TOTALITY of the model: with two activations or more `unify` answers a Go outcome — a return
or a panic, never "out of fuel", and the model has no error outcome — for EVERY environment, mode
and list of types of any depth … -/
theorem unify_total_outcome (E : Env) (n : Nat) (uns : Bool) (types : List Ty) :
    (∃ out, unifyF E (n + 2) uns types = .ok out) ∨ ∃ w, unifyF E (n + 2) uns types = .panic w := by
  have h := lv_unifyF E uns n types
  cases hr : unifyF E (n + 2) uns types with
  | ok o => exact .inl ⟨o, rfl⟩
  | err c => rw [hr] at h; simp [lv] at h
  | panic w => exact .inr ⟨w, rfl⟩
  | unmodelled => rw [hr] at h; simp [lv] at h

/-- … and with `no_panic` it is a return: `unify` is a TOTAL function of the type list (object
types well-formed, as every `cty.Object(…)` is), answering NilType or a type with its slice.
This sharpens `no_panic_total`, whose "out of fuel" and "error" disjuncts are empty from fuel 2 on. -/
theorem unify_total (E : Env) (n : Nat) (uns : Bool) (types : List Ty)
    (hw : ∀ ty ∈ types, isObjectTy ty = true → ty.wf = true) : ∃ out, unifyF E (n + 2) uns types = .ok out :=
  unifyF_total E uns n types hw

example : ∃ out, unifyF driverEnv 2 true [.object ["a"] [.string] [false], .tuple [.bool], .dyn] = .ok out :=
  unify_total _ 0 _ _ (by decide)

/-- The unified TYPE of placeholder-free types is placeholder-free, well-formed and
annotation-free (`unifyTy`, the type result at sufficient fuel; any depth, either mode). -/
theorem unified_type_plain_std (uns : Bool) (types : List Ty) (t : Ty) (hp : ∀ ty ∈ types, plainTy ty = true)
    (h : unifyTy uns types = some t) : plainTy t = true :=
  unifyTy_plain uns types t hp h

/-- … and at every fuel -/
theorem unified_type_plain_fuel (n : Nat) (uns : Bool) (types : List Ty) (t : Ty)
    (hp : ∀ ty ∈ types, plainTy ty = true) (h : unifyTyF n uns types = some t) : plainTy t = true :=
  unifyTyF_plain n uns types t hp h

/-- The FULL model on placeholder-free inputs: the unified type is placeholder-free and
well-formed, and so is the type EVERY step of EVERY returned conversion converts to (the result
type, and the intermediate list / map type of the composed closures) — any environment whose
`unify` keeps such types (as `unifyTy` does: `unified_type_plain_std`), any fuel, either mode. -/
theorem unified_plain (E : Env) (hE : PlainPres E.unify) (fuel : Nat) (uns : Bool) (types : List Ty) (t : Ty)
    (cs : Convs) (hp : ∀ ty ∈ types, plainTy ty = true) (h : unifyF E fuel uns types = .ok (some (t, cs))) :
    plainTy t = true ∧ ∀ (i : Nat) (c : UConv), cs[i]? = some (some c) → ∀ m ∈ stepTargets c, plainTy m = true := by
  obtain ⟨ht, hc⟩ := unifyF_plain hE fuel uns types hp t cs h
  exact ⟨ht, fun i c hi => hc c (List.mem_of_getElem? hi)⟩

theorem plainPres_driver : PlainPres driverEnv.unify := plainPres_std _

/-- THE CLAUSE "each returned conversion applied to any value of its input type yields a value of
the unified type" for placeholder-free input types, NO side condition left: every slot `Unify` /
`UnifyUnsafe` returns, direct or composed, applied to any well-typed value of its input type —
known, unknown, null or marked, any depth — yields a value of exactly the unified type, or an
error; on the environment the driver runs. -/
theorem convs_yield_unified_plain (n fuel' : Nat) (uns : Bool) (types : List Ty) (t : Ty) (cs : Convs) (i : Nat)
    (c : UConv) (v r : Value) (hp : ∀ ty ∈ types, plainTy ty = true)
    (h : unifyF driverEnv (n + 2) uns types = .ok (some (t, cs))) (hc : cs[i]? = some (some c))
    (hi : types[i]? = some v.ty) (hv : Value.wt v = true)
    (ha : applyU driverEnv fuel' c v = .ok r) : r.ty = t ∧ yieldsUnified t r = true := by
  obtain ⟨ht, hT⟩ := unified_plain driverEnv plainPres_driver (n + 2) uns types t cs hp h
  exact convs_yield_unified_driver n fuel' uns types t cs i c v r ht h hc hi hv (hT i c hc) ha

/-- THE CLAUSE "… and never fails in safe mode" for placeholder-free input types, no side
condition left: on a well-typed value without unknown parts (nulls and marks allowed, any depth)
every returned conversion yields a value of the unified type — no error, no panic (or the fuel
of `apply`, the model of the conversion itself, ran out). -/
theorem safe_convs_total_plain (n fuel' : Nat) (types : List Ty) (t : Ty) (cs : Convs) (i : Nat) (c : UConv)
    (v : Value) (hp : ∀ ty ∈ types, plainTy ty = true) (h : unify driverEnv (n + 2) types = .ok (some (t, cs)))
    (hc : cs[i]? = some (some c)) (hi : types[i]? = some v.ty) (hv : Value.wt v = true)
    (hk : Payload.whollyKnown v.v = true) :
    (∃ r, applyU driverEnv fuel' c v = .ok r ∧ r.ty = t) ∨ applyU driverEnv fuel' c v = .unmodelled := by
  obtain ⟨ht, hT⟩ := unified_plain driverEnv plainPres_driver (n + 2) false types t cs hp h
  exact safe_convs_total_driver n fuel' types t cs i c v ht h hc hi hv hk (hT i c hc)

/-- "never panics" for the returned conversions, placeholder-free input types, either mode, no
side condition left. -/
theorem no_panic_applied_plain (n fuel' : Nat) (uns : Bool) (types : List Ty) (t : Ty) (cs : Convs) (i : Nat)
    (c : UConv) (v : Value) (hp : ∀ ty ∈ types, plainTy ty = true)
    (h : unifyF driverEnv (n + 2) uns types = .ok (some (t, cs))) (hc : cs[i]? = some (some c))
    (hi : types[i]? = some v.ty) (hv : Value.wt v = true) (hk : Payload.whollyKnown v.v = true) :
    (applyU driverEnv fuel' c v).isPanic = false := by
  obtain ⟨ht, hT⟩ := unified_plain driverEnv plainPres_driver (n + 2) uns types t cs hp h
  exact no_panic_applied_driver n fuel' uns types t cs i c v ht h hc hi hv hk (hT i c hc)

/-- the hypotheses are jointly satisfiable by the former witnesses (composed closures, depth 2) -/
example : ∀ ty ∈ totalWitnessTys, plainTy ty = true := by decide
example : ∀ ty ∈ yieldWitnessTys, plainTy ty = true := by decide
example : (applyU driverEnv 8 totalWitnessConv totalWitnessV).isPanic = false :=
  no_panic_applied_plain 2 8 false totalWitnessTys _ _ 0 _ totalWitnessV (by decide) rfl rfl rfl (by decide) (by decide)

/-! ## d09b — ONE function: the type component of the full model is `unifyTy`

The harness compares BOTH the type component of `unifyF` and `unifyTy` with the real `Unify` /
`UnifyUnsafe`; they are the same function (Lemmas/d09bTyEq.lean: one activation of the one has the
type result of one activation of the other — conversions exist iff the Boolean checks pass, the
attribute columns looked up by name are the columns by position, the preference loop with its
reused buffer is `findSome?` — and `unify_type_fixpoint` closes the recursion).  So every theorem
above about `unifyTy` / `unifyTyF` at sufficient fuel (`unify_equal_types_std`,
`unsafe_of_safe_flat_std`, `unify_result_reachable_flat_std`, `unify_type_depth`,
`unified_type_plain_std`) is a theorem about the type `unify` returns. -/

/-- Whenever the full model answers (fuel ≥ 2, either mode, any list of types whose object types
are well-formed, any environment whose `unify` is `unifyTy`), the type it answers is `unifyTy` of
the list — NilType exactly where `unifyTy` is `none`. -/
theorem unify_type_is_unifyTy (base : Env) (n : Nat) (uns : Bool) (types : List Ty) (out : UOut)
    (hw : ∀ ty ∈ types, isObjectTy ty = true → ty.wf = true)
    (h : unifyF (Env.std base) (n + 2) uns types = .ok out) : out.map (·.1) = unifyTy uns types :=
  unifyF_ty (E := Env.std base) rfl n types hw out h

/-- … and it always answers (`unify_total`): the type component of `unify`, as a function of the
type list, IS `unifyTy`. -/
theorem unify_type_eq (base : Env) (n : Nat) (uns : Bool) (types : List Ty)
    (hw : ∀ ty ∈ types, isObjectTy ty = true → ty.wf = true) :
    (unifyF (Env.std base) (n + 2) uns types).map (fun o => o.map (·.1)) = .ok (unifyTy uns types) := by
  obtain ⟨out, h⟩ := unify_total (Env.std base) n uns types hw
  rw [h, Res.map, unify_type_is_unifyTy base n uns types out hw h]

/-- hence `unifyTyF` at every sufficient fuel too (with `fuel_enough`) -/
theorem unify_type_eq_fuel (base : Env) (n m : Nat) (uns : Bool) (types : List Ty)
    (hw : ∀ ty ∈ types, isObjectTy ty = true → ty.wf = true) (hm : 2 * tyDepthL types + 2 ≤ m) :
    (unifyF (Env.std base) (n + 2) uns types).map (fun o => o.map (·.1)) = .ok (unifyTyF m uns types) := by
  rw [(fuel_enough uns types m hm).1]; exact unify_type_eq base n uns types hw

/-- e.g. the depth bound and the flat-type reachability, now about the type `Unify` returns -/
theorem unify_result_depth (base : Env) (n : Nat) (uns : Bool) (types : List Ty) (t : Ty) (cs : Convs)
    (hw : ∀ ty ∈ types, isObjectTy ty = true → ty.wf = true)
    (h : unifyF (Env.std base) (n + 2) uns types = .ok (some (t, cs))) : tyDepth t ≤ tyDepthL types :=
  unify_type_depth uns types t (unify_type_is_unifyTy base n uns types _ hw h).symm

example : (unifyF driverEnv 2 false fuelWitnessTys).map (fun o => o.map (·.1)) = .ok (some (.list (.map .string))) := by
  rw [show driverEnv = Env.std (Env.concrete unifyTy) from rfl, unify_type_eq _ 0 _ _ (by decide)]; rfl

/-- Clause "unsafe unification succeeds whenever safe unification does" on the FULL model, closed
form for the types built from primitives, capsule types, lists, sets and maps (any depth, any
length): where `Unify` returns a type with its conversions, so does `UnifyUnsafe`.  (`unsafe_of_safe_flat`
was a statement about `unifyTyF`; `unify_type_eq` and `unify_total` carry it over.)  Through the
object / tuple sub-unifiers the clause is still searched, not proved; with placeholders it is
false (`unsafe_of_safe_counterexample`). -/
theorem unsafe_of_safe_flat_full (base : Env) (n : Nat) (types : List Ty) (t : Ty) (cs : Convs)
    (hf : ∀ x ∈ types, flat x = true) (h : unify (Env.std base) (n + 2) types = .ok (some (t, cs))) :
    ∃ t' cs', unifyUnsafe (Env.std base) (n + 2) types = .ok (some (t', cs')) := by
  have hw : ∀ ty ∈ types, isObjectTy ty = true → ty.wf = true := by
    intro ty hty ho
    have := hf ty hty
    cases ty <;> simp [isObjectTy] at ho
    simp [flat] at this
  have h1 : unifyTy false types = some t := (unify_type_is_unifyTy base n false types _ hw h).symm
  obtain ⟨t', ht'⟩ := unsafe_of_safe_flat_std types t hf h1
  obtain ⟨out, ho⟩ := unify_total (Env.std base) n true types hw
  have h2 := unify_type_is_unifyTy base n true types out hw ho
  rw [ht'] at h2
  cases out with
  | none => simp at h2
  | some r => exact ⟨r.1, r.2, ho⟩

example : ∃ t' cs', unifyUnsafe driverEnv 2 [.list (.set .bool), .list (.list .string)] = .ok (some (t', cs')) :=
  unsafe_of_safe_flat_full (Env.concrete unifyTy) 0 _ (.list (.list .string)) _ (by decide) rfl

/-- The three applied-conversion clauses for placeholder-free inputs in ANY environment that
satisfies the laws and whose `unify` keeps placeholder-free types placeholder-free (not only the
driver's): the full statements `ConvsYieldUnified` / `SafeConvsTotal` / `NoPanicApplied` restricted
by exactly that one extra assumption on `E` (and, for the last two, values without unknown parts). -/
theorem applied_clauses_plain_env (E : Env) (hU : UnifyLaws E) (hS : SetLaws E) (hE : PlainPres E.unify)
    (fuel fuel' : Nat) (uns : Bool) (types : List Ty) (t : Ty) (cs : Convs) (i : Nat) (c : UConv) (v : Value)
    (hp : ∀ ty ∈ types, plainTy ty = true) (h : unifyF E fuel uns types = .ok (some (t, cs)))
    (hc : cs[i]? = some (some c)) (hi : types[i]? = some v.ty) (hv : Value.wt v = true) :
    (∀ r, applyU E fuel' c v = .ok r → r.ty = t ∧ yieldsUnified t r = true) ∧
    (Payload.whollyKnown v.v = true → (applyU E fuel' c v).isPanic = false ∧
      (uns = false → (∃ r, applyU E fuel' c v = .ok r ∧ r.ty = t) ∨ applyU E fuel' c v = .unmodelled)) := by
  obtain ⟨ht, hT⟩ := unified_plain E hE fuel uns types t cs hp h
  refine ⟨fun r ha => convs_yield_unified_slots_wt_partial E hU fuel fuel' uns types t cs i c v r ht h hc hi hv (hT i c hc) ha,
    fun hk => ⟨no_panic_applied_slots_wt_partial E hU hS fuel fuel' uns types t cs i c v ht h hc hi hv hk (hT i c hc), ?_⟩⟩
  intro hu; subst hu
  exact safe_convs_total_slots_wt_partial E hU hS fuel fuel' types t cs i c v ht h hc hi hv hk (hT i c hc)

end C09
end CtyModel
