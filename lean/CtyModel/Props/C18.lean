/-
C18 — Go-value bridging (package cty/gocty) is exact or refuses: no silent loss.

Property theorems only; helper lemmas live in `CtyModel/Lemmas/Gocty*.lean`.
Every statement is about `Gocty.toCty`, `Gocty.fromCty`, `Gocty.impliedType`
(`bridgeType` = the implied type with arrays as lists and big numbers as
numbers) — the transliterations of `ToCtyValue`, `FromCtyValue(v, new(T))` and
`ImpliedType` that the correspondence harness diffs against /repo on every run.
A Go type is a `GoTy`, a Go value a `GoVal` (what `reflect` reports); `norm` is
Unicode NFC normalisation (`ctystrings.Normalize`), an external library and
therefore a parameter.  Numbers are `Num` (= `*big.Float`); `normalNum` is the
representation invariant of the model's numbers (odd mantissa), which every
number has (`normal_mk`) — it restricts representations, not numbers.
-/
import CtyModel.Lemmas.GoctyDecode
namespace CtyModel
namespace C18
open Gocty

/-! ### "Decoding a number into a Go numeric type succeeds exactly when the number is representable there … and then stores that number" -/

/-- The `min`/`max` switch tables of `fromCtyNumberInt` / `fromCtyNumberUInt` are
the two's-complement ranges: −2^(b−1) … 2^(b−1)−1 and 0 … 2^b−1 for every width
the code distinguishes, and every Go integer type has one of these widths. -/
theorem bounds_table :
    (∀ b ∈ [8, 16, 32, 64], intMinMax b = some (-(2 : Int) ^ (b - 1), (2 : Int) ^ (b - 1) - 1)) ∧
    (∀ b ∈ [8, 16, 32, 64], uintMax b = some ((2 : Int) ^ b - 1)) ∧
    (∀ w : IntW, w.bits ∈ [8, 16, 32, 64]) ∧
    (∀ b s, lo b s = (if s then -(2 : Int) ^ (b - 1) else 0) ∧
            hi b s = (if s then (2 : Int) ^ (b - 1) - 1 else (2 : Int) ^ b - 1)) := by
  refine ⟨by decide, by decide, fun w => by cases w <;> decide, fun b s => ?_⟩
  cases s <;> simp [lo, hi]

/-- Integers of every width, signed and unsigned: decoding the number `x` into the
target succeeds iff `x` is a whole number `k` (finite, no fractional part) with
`lo ≤ k ≤ hi` for that width and signedness, and then exactly `k` is stored. -/
theorem int_ok_iff (x : Num) (hx : normalNum x = true) (w : IntW) (s : Bool) (g : GoVal) :
    fromCty ⟨.number, .n x⟩ (.int w s) = .ok g ↔
      ∃ k : Int, IsTheInt x k ∧ lo w.bits s ≤ k ∧ k ≤ hi w.bits s ∧ g = .int k := by
  have : fromCty ⟨.number, .n x⟩ (.int w s) = fromNum x (.int w s) := by
    simp only [fromCty, fromCtyP, GoTy.base, GoTy.isCval, GoTy.depth, wrapPtr]
    cases fromNum x (.int w s) <;> rfl
  rw [this]
  exact fromNum_int_ok_iff x hx w s g

/-- … otherwise it returns an error (never a panic, never a stored approximation). -/
theorem int_err_otherwise (x : Num) (hx : normalNum x = true) (w : IntW) (s : Bool)
    (h : ¬ ∃ k : Int, IsTheInt x k ∧ lo w.bits s ≤ k ∧ k ≤ hi w.bits s) :
    ∃ c, fromNum x (.int w s) = .err c := by
  rcases fromNum_int_ok_or_err x w s with ⟨g, hg⟩ | hc
  · obtain ⟨k, h1, h2, h3, _⟩ := (fromNum_int_ok_iff x hx w s g).mp hg
    exact absurd ⟨k, h1, h2, h3⟩ h
  · exact hc

/-- the representation invariant `normalNum` excludes no number: `Num.mk` (which
every arithmetic result and the wire codec go through) always yields it -/
theorem normalNum_mk (n : Bool) (m : Nat) (e : Int) (p : Nat) : normalNum (Num.mk n m e p) = true :=
  normal_mk n m e p

/-- Floats: decoding `x` into float64 stores `x.Float64()` (IEEE round to nearest
even, gradual underflow), into float32 Go's `float32` of that; it succeeds for
every infinite `x` and for every finite `x` whose stored value is finite, and is
refused exactly when a finite number would have to be stored as an infinity
(beyond the type's finite range). -/
theorem float_ok_iff (x : Num) (is32 : Bool) (g : GoVal) :
    fromNum x (.float is32) = .ok g ↔
      ∃ f, g = .flt f ∧ f = (if is32 then Num.f64to32 x.toF64.1 else x.toF64.1) ∧
        (x.isInf = true ∨ f.isInf = false) := by
  rw [fromNum_float]
  cases h : fromNumFloat x is32 with
  | ok f0 =>
    have := (fromNumFloat_ok_iff x is32 f0).mp h
    simp only [mapRes, Res.ok.injEq]
    constructor
    · rintro rfl; exact ⟨f0, rfl, this.1, this.2⟩
    · rintro ⟨f, rfl, hf, _⟩; rw [hf, ← this.1]
  | err c =>
    simp only [mapRes]
    refine ⟨fun h' => (by cases h'), ?_⟩
    rintro ⟨f, _, hf, hi⟩
    have := (fromNumFloat_ok_iff x is32 f).mpr ⟨hf, hi⟩
    rw [h] at this; cases this
  | panic c =>
    simp only [mapRes]
    refine ⟨fun h' => (by cases h'), ?_⟩
    rintro ⟨f, _, hf, hi⟩
    have := (fromNumFloat_ok_iff x is32 f).mpr ⟨hf, hi⟩
    rw [h] at this; cases this
  | unmodelled =>
    simp only [mapRes]
    refine ⟨fun h' => (by cases h'), ?_⟩
    rintro ⟨f, _, hf, hi⟩
    have := (fromNumFloat_ok_iff x is32 f).mpr ⟨hf, hi⟩
    rw [h] at this; cases this

/-! ### "otherwise, and for unknown values, nulls into non-nilable targets and shape mismatches, it returns an error" -/

/-- unknown values (marked or not) are refused by every target other than a `cty.Value` -/
theorem errors_unknown (ty : Ty) (r : Rfn) (T : GoTy) (h : T.base.isCval = false) :
    (∃ c, fromCty ⟨ty, .unk r⟩ T = .err c) ∧ ∀ m, ∃ c, fromCty ⟨ty, .marked m (.unk r)⟩ T = .err c :=
  ⟨⟨_, fromCtyP_unknown [] ty r T h⟩, fun m => ⟨_, fromCtyP_marked_unknown [] m ty r T h⟩⟩

/-- null is refused by every non-nilable target (not a pointer, slice, map or `cty.Value`) -/
theorem errors_null_nonnilable (ty : Ty) (T : GoTy) (h1 : T.nilableKind = false) (h2 : T.isCval = false) :
    ∃ c, fromCty ⟨ty, .null⟩ T = .err c := fromCtyP_null_nonnilable ty T h1 h2

/-- a known, non-null value whose shape the target does not accept is refused -/
theorem errors_shape_mismatch (v : Value) (T : GoTy) (hk : kindOK v.ty v.v = true)
    (hs : shapeOK v.ty T.base = false) : ∃ c, fromCty v T = .err c :=
  fromCtyP_shape v.ty v.v T hk hs

/-- `errors_otherwise`: the three clauses together -/
theorem errors_otherwise (v : Value) (T : GoTy) (hc : T.base.isCval = false) :
    (∀ r, v.v = .unk r → ∃ c, fromCty v T = .err c) ∧
    (v.v = .null → T.nilableKind = false → ∃ c, fromCty v T = .err c) ∧
    (kindOK v.ty v.v = true → shapeOK v.ty T.base = false → ∃ c, fromCty v T = .err c) := by
  obtain ⟨ty, p⟩ := v
  refine ⟨?_, ?_, ?_⟩
  · rintro r rfl; exact (errors_unknown ty r T hc).1
  · rintro rfl hn
    have : T.isCval = false := by cases T <;> simp_all [GoTy.base, GoTy.isCval, GoTy.nilableKind]
    exact errors_null_nonnilable ty T hn this
  · exact errors_shape_mismatch ⟨ty, p⟩ T

/-! ### "for unmarked values it never panics when given a non-nil pointer target" -/

/-- `FromCtyValue(v, new(T))` does not panic for any value without marks (at any
depth) and any target type — whatever the value's type, shape, nullness, knownness. -/
theorem no_panic_unmarked (v : Value) (T : GoTy) (h : v.containsMarked = false) :
    ∀ w, fromCty v T ≠ .panic w := by
  intro w hw
  have := fromCtyP_noPanic v.v v.ty T h
  unfold fromCty at hw
  rw [hw] at this
  cases this

/-- the guard is the one the code has: a marked value does reach the panicking accessors -/
theorem marked_can_panic : fromCty ⟨.bool, .marked ["m"] (.b true)⟩ .bool = .panic "marked" := by rfl

/-! ### Non-vacuity -/
example : normalNum (Num.ofInt 127) = true ∧ lo IntW.w8.bits true ≤ 127 ∧ (127 : Int) ≤ hi IntW.w8.bits true := by
  decide
example : IsTheInt (Num.ofInt 127) 127 := by simp [IsTheInt, Num.ofInt, Num.mk, Num.norm, Num.normFuel, Num.bitlen]
example : fromCty ⟨.number, .n (Num.ofInt 127)⟩ (.int .w8 true) = .ok (.int 127) := by rfl
example : fromCty ⟨.number, .n (Num.ofInt 128)⟩ (.int .w8 true) = .err "whole number" := by rfl
example : fromCty ⟨.number, .n (Num.mk false 3 (-1) 64)⟩ (.int .w8 false) = .err "whole number" := by rfl
example : kindOK .string (.s "x") = true ∧ shapeOK .string (GoTy.ptr (.int .w8 true)).base = false := by decide
example : Value.containsMarked ⟨.list .string, .seq [.s "a", .null]⟩ = false := by decide

end C18
end CtyModel
