/-
C18 — Go-value bridging (package cty/gocty) is exact or refuses: no silent loss.

Property theorems only; helper lemmas live in `CtyModel/Lemmas/Gocty*.lean`.
Every statement is about `Gocty.toCty`, `Gocty.fromCty`, `Gocty.impliedType`
(`bridgeType` = the implied type with arrays as lists and big numbers as
numbers) — the transliterations of `ToCtyValue`, `FromCtyValue(v, new(T))` and
`ImpliedType` that the correspondence harness diffs against /repo on every run.
A Go type is a `GoTy`, a Go value a `GoVal` (what `reflect` reports); `norm` is
Unicode NFC normalisation (`ctystrings.Normalize`), an external library and
therefore a parameter.  Numbers are `Num` (= `*big.Float`); `normalNum` is the
representation invariant of the model's numbers (odd mantissa), which every
number has (`normal_mk`) — it restricts representations, not numbers.
-/
import CtyModel.Lemmas.GoctyRoundtrip
import CtyModel.Lemmas.GoctyFloat
import CtyModel.Lemmas.GoctySched
import CtyModel.Lemmas.d18Compose
import CtyModel.Lemmas.d18Num
import CtyModel.Lemmas.d18Cval
import CtyModel.Lemmas.d18ToCty
import CtyModel.Generated.IntBounds
import CtyModel.Lemmas.GoctyFnsTie
import CtyModel.Lemmas.d18bShape
import CtyModel.Lemmas.d18bShapeTie
import CtyModel.Lemmas.d18bFloat32
namespace CtyModel
namespace C18
open Gocty

/-! ### "Decoding a number into a Go numeric type succeeds exactly when the number is representable there … and then stores that number" -/

/-- The `min`/`max` switch tables of `fromCtyNumberInt` / `fromCtyNumberUInt` are
the two's-complement ranges: −2^(b−1) … 2^(b−1)−1 and 0 … 2^b−1 for every width
the code distinguishes, and every Go integer type has one of these widths. -/
theorem bounds_table :
    (∀ b ∈ [8, 16, 32, 64], intMinMax b = some (-(2 : Int) ^ (b - 1), (2 : Int) ^ (b - 1) - 1)) ∧
    (∀ b ∈ [8, 16, 32, 64], uintMax b = some ((2 : Int) ^ b - 1)) ∧
    (∀ w : IntW, w.bits ∈ [8, 16, 32, 64]) ∧
    (∀ b s, lo b s = (if s then -(2 : Int) ^ (b - 1) else 0) ∧
            hi b s = (if s then (2 : Int) ^ (b - 1) - 1 else (2 : Int) ^ b - 1)) := by
  refine ⟨by decide, by decide, fun w => by cases w <;> decide, fun b s => ?_⟩
  cases s <;> simp [lo, hi]

/-- The tie of that table to the source: `Generated.intBounds` / `uintBounds` are
re-extracted from the `switch target.Type().Bits()` of `fromCtyNumberInt` /
`fromCtyNumberUInt` in cty/gocty/out.go on every check (a changed bound, a new or
removed case makes this theorem fail to check).  Every
row of the source is a row of the model's table with the same bounds, and the model
panics ("weird number of bits") exactly where the source has no case.  (The refusal
tests themselves are no longer compared as TEXT — a renamed local broke that tie
without a change of meaning: they are part of the translated definitions, see
`generated_decoders_eq` below.) -/
theorem bounds_table_is_source :
    Generated.intBounds.map (fun r => (r.1, intMinMax r.1)) = Generated.intBounds.map (fun r => (r.1, some r.2)) ∧
    Generated.uintBounds.map (fun r => (r.1, uintMax r.1)) = Generated.uintBounds.map (fun r => (r.1, some r.2)) ∧
    (∀ b, b ∉ Generated.intBounds.map (·.1) → intMinMax b = none) ∧
    (∀ b, b ∉ Generated.uintBounds.map (·.1) → uintMax b = none) := by
  refine ⟨by decide, by decide, fun b hb => ?_, fun b hb => ?_⟩
  · have h : Generated.intBounds.map (·.1) = [8, 16, 32, 64] := by decide
    rw [h] at hb
    unfold intMinMax
    split <;> simp_all
  · have h : Generated.uintBounds.map (·.1) = [8, 16, 32, 64] := by decide
    rw [h] at hb
    unfold uintMax
    split <;> simp_all

/-- Integers of every width, signed and unsigned: decoding the number `x` into the
target succeeds iff `x` is a whole number `k` (finite, no fractional part) with
`lo ≤ k ≤ hi` for that width and signedness, and then exactly `k` is stored. -/
theorem int_ok_iff (S : Sched) (x : Num) (hx : normalNum x = true) (w : IntW) (s : Bool) (g : GoVal) :
    fromCtyS S ⟨.number, .n x⟩ (.int w s) = .ok g ↔
      ∃ k : Int, IsTheInt x k ∧ lo w.bits s ≤ k ∧ k ≤ hi w.bits s ∧ g = .int k := by
  have : fromCtyS S ⟨.number, .n x⟩ (.int w s) = fromNum x (.int w s) := by
    simp only [fromCtyS, fromCtyP, GoTy.base, GoTy.isCval, GoTy.depth, wrapPtr]
    cases fromNum x (.int w s) <;> rfl
  rw [this]
  exact fromNum_int_ok_iff x hx w s g

/-- … otherwise it returns an error (never a panic, never a stored approximation). -/
theorem int_err_otherwise (x : Num) (hx : normalNum x = true) (w : IntW) (s : Bool)
    (h : ¬ ∃ k : Int, IsTheInt x k ∧ lo w.bits s ≤ k ∧ k ≤ hi w.bits s) :
    ∃ c, fromNum x (.int w s) = .err c := by
  rcases fromNum_int_ok_or_err x w s with ⟨g, hg⟩ | hc
  · obtain ⟨k, h1, h2, h3, _⟩ := (fromNum_int_ok_iff x hx w s g).mp hg
    exact absurd ⟨k, h1, h2, h3⟩ h
  · exact hc

/-- the representation invariant `normalNum` excludes no number: `Num.mk` (which
every arithmetic result and the wire codec go through) always yields it -/
theorem normalNum_mk (n : Bool) (m : Nat) (e : Int) (p : Nat) : normalNum (Num.mk n m e p) = true :=
  normal_mk n m e p

/-- Floats: decoding `x` into float64 stores `x.Float64()` (IEEE round to nearest
even, gradual underflow), into float32 Go's `float32` of that; it succeeds for
every infinite `x` and for every finite `x` whose stored value is finite, and is
refused exactly when a finite number would have to be stored as an infinity
(beyond the type's finite range). -/
theorem float_ok_iff (x : Num) (is32 : Bool) (g : GoVal) :
    fromNum x (.float is32) = .ok g ↔
      ∃ f, g = .flt f ∧ f = (if is32 then Num.f64to32 x.toF64.1 else x.toF64.1) ∧
        (x.isInf = true ∨ f.isInf = false) := by
  rw [fromNum_float]
  cases h : fromNumFloat x is32 with
  | ok f0 =>
    have := (fromNumFloat_ok_iff x is32 f0).mp h
    simp only [mapRes, Res.ok.injEq]
    constructor
    · rintro rfl; exact ⟨f0, rfl, this.1, this.2⟩
    · rintro ⟨f, rfl, hf, _⟩; rw [hf, ← this.1]
  | err c =>
    simp only [mapRes]
    refine ⟨fun h' => (by cases h'), ?_⟩
    rintro ⟨f, _, hf, hi⟩
    have := (fromNumFloat_ok_iff x is32 f).mpr ⟨hf, hi⟩
    rw [h] at this; cases this
  | panic c =>
    simp only [mapRes]
    refine ⟨fun h' => (by cases h'), ?_⟩
    rintro ⟨f, _, hf, hi⟩
    have := (fromNumFloat_ok_iff x is32 f).mpr ⟨hf, hi⟩
    rw [h] at this; cases this
  | unmodelled =>
    simp only [mapRes]
    refine ⟨fun h' => (by cases h'), ?_⟩
    rintro ⟨f, _, hf, hi⟩
    have := (fromNumFloat_ok_iff x is32 f).mpr ⟨hf, hi⟩
    rw [h] at this; cases this

/-- … and otherwise (a finite number that would be stored as an infinity) the result is an error -/
theorem float_err_otherwise (x : Num) (is32 : Bool)
    (h : x.isInf = false ∧ (if is32 then Num.f64to32 x.toF64.1 else x.toF64.1).isInf = true) :
    ∃ c, fromNum x (.float is32) = .err c := by
  rw [fromNum_float]
  have hnp := fromNumFloat_isPanic x is32
  cases hf : fromNumFloat x is32 with
  | ok f =>
    obtain ⟨rfl, h2⟩ := (fromNumFloat_ok_iff x is32 f).mp hf
    rcases h2 with h2 | h2
    · rw [h.1] at h2; cases h2
    · rw [h.2] at h2; cases h2
  | err c => exact ⟨c, rfl⟩
  | panic w => rw [hf] at hnp; cases hnp
  | unmodelled =>
    exfalso
    unfold fromNumFloat at hf
    simp only [] at hf
    split at hf
    · cases hf
    · split at hf <;> cases hf

/-- The finite ranges, at their edges (evaluated by the kernel): the largest finite
float64/float32 is accepted and stored as itself; the least number that rounds to
an infinity — 2^1024 − 2^970, resp. 2^128 − 2^103 — is refused, a number just
below it is accepted and stored as the largest finite value; −2^128 is refused by
float32 and stored exactly by float64; the infinities are accepted; numbers too
small for the type are stored as (signed) zero, as `Float64()` documents. -/
theorem float_range_witnesses :
    let max64 : Num := .fin false (2 ^ 53 - 1) 971 53
    let max32 : Num := .fin false (2 ^ 24 - 1) 104 53
    fromNum max64 (.float false) = .ok (.flt max64) ∧
    fromNum (.fin false (2 ^ 54 - 1) 970 512) (.float false) = .err "value must be between" ∧
    fromNum (.fin false (2 ^ 100 - 2 ^ 46 - 1) 924 512) (.float false) = .ok (.flt max64) ∧
    fromNum max32 (.float true) = .ok (.flt max32) ∧
    fromNum (.fin false (2 ^ 25 - 1) 103 512) (.float true) = .err "value must be between" ∧
    fromNum (.fin false (2 ^ 48 - 2 ^ 23 - 1) 80 512) (.float true) = .ok (.flt max32) ∧
    fromNum (.fin true 1 128 64) (.float true) = .err "value must be between" ∧
    fromNum (.fin true 1 128 64) (.float false) = .ok (.flt (.fin true 1 128 53)) ∧
    fromNum (.inf true) (.float true) = .ok (.flt (.inf true)) ∧
    fromNum (.inf false) (.float false) = .ok (.flt (.inf false)) ∧
    fromNum (.fin true 1 (-1075) 64) (.float false) = .ok (.flt (.fin true 0 0 53)) := by
  refine ⟨?_, ?_, ?_, ?_, ?_, ?_, ?_, ?_, ?_, ?_, ?_⟩ <;> rfl

/-- Float64, closed form: a finite number is refused exactly when its magnitude is at
least 2^1024 − 2^970 (exact comparison `Num.cmp`) — every finite number that
round-to-nearest-even keeps within the finite range of float64, in particular
every `|x| ≤ MaxFloat64`, is accepted, everything from the midpoint between
MaxFloat64 and 2^1024 on is refused.  (For float32 the same is stated by
`float_ok_iff` through Go's two-step conversion and checked at the edges in
`float_range_witnesses`; the model has no closed form for the double rounding.) -/
theorem float64_refused_iff (n : Bool) (m : Nat) (e : Int) (p : Nat) (hx : normalNum (.fin n m e p) = true) :
    (∃ c, fromNum (.fin n m e p) (.float false) = .err c) ↔ 0 ≤ Num.cmp (Num.abs (.fin n m e p)) thr64 := by
  have hiff : (∃ c, fromNum (.fin n m e p) (.float false) = .err c) ↔
      (Num.toF64 (.fin n m e p)).1.isInf = true := by
    rw [fromNum_float]
    constructor
    · rintro ⟨c, hc⟩
      cases hi : (Num.toF64 (.fin n m e p)).1.isInf with
      | true => rfl
      | false =>
        exfalso
        have := (fromNumFloat_ok_iff (.fin n m e p) false (Num.toF64 (.fin n m e p)).1).mpr
          ⟨by simp, Or.inr hi⟩
        rw [this] at hc; cases hc
    · intro hi
      cases hf : fromNumFloat (.fin n m e p) false with
      | ok f =>
        obtain ⟨rfl, h2⟩ := (fromNumFloat_ok_iff _ false f).mp hf
        simp only [Bool.false_eq_true, if_false] at h2
        rcases h2 with h2 | h2
        · cases h2
        · rw [hi] at h2; cases h2
      | err c => exact ⟨c, rfl⟩
      | panic w => have := fromNumFloat_isPanic (.fin n m e p) false; rw [hf] at this; cases this
      | unmodelled =>
        exfalso
        unfold fromNumFloat at hf
        simp only [] at hf
        split at hf
        · cases hf
        · split at hf <;> cases hf
  rw [hiff]
  by_cases hm : m = 0
  · subst hm
    have he : e = 0 := by simpa [normalNum] using hx
    subst he
    have h1 : (Num.toF64 (.fin n 0 0 p)).1.isInf = false := by
      simp [Num.toF64, Num.toIEEE, Num.norm_zero, Num.isInf]
    have h2 : Num.cmp (Num.abs (.fin n 0 0 p)) thr64 = -1 := by
      simp only [Num.abs, thr64, NumCmp.cmp_fin, NumCmp.icmp, NumCmp.sgnm, Num.scaleTo, Bool.false_eq_true, if_false]
      have hpos : (0:Int) < ((2 ^ 54 - 1 : Nat) : Int) * 2 ^ ((970:Int) - min 0 970).toNat :=
        Int.mul_pos (by decide) (NumCmp.two_pow_pos _)
      generalize ((2 ^ 54 - 1 : Nat) : Int) * 2 ^ ((970:Int) - min 0 970).toNat = Y at hpos
      simp only [Int.natCast_zero, Int.zero_mul, hpos, if_true]
    rw [h1, h2]; simp
  · rw [Num.toF64_isInf_iff n m e p hx hm]
    exact (Num.cmp_thr64_iff m e p 64 hm).symm

/-- a float64/float32 value (the harness' canonical form of one) is decoded to itself -/
theorem float_exact (x : Num) (is32 : Bool) (h : (if is32 then x.isF32 else x.isF64) = true) :
    fromNum (fixPrec x) (.float is32) = .ok (.flt x) := flt_roundtrip x is32 h

/-! ### "otherwise, and for unknown values, nulls into non-nilable targets and shape mismatches, it returns an error" -/

/-- unknown values (marked or not) are refused by every target other than a `cty.Value` -/
theorem errors_unknown (S : Sched) (ty : Ty) (r : Rfn) (T : GoTy) (h : T.base.isCval = false) :
    (∃ c, fromCtyS S ⟨ty, .unk r⟩ T = .err c) ∧ ∀ m, ∃ c, fromCtyS S ⟨ty, .marked m (.unk r)⟩ T = .err c :=
  ⟨⟨_, fromCtyP_unknown S [] ty r T h⟩, fun m => ⟨_, fromCtyP_marked_unknown S [] m ty r T h⟩⟩

/-- null is refused by every non-nilable target (not a pointer, slice, map or `cty.Value`) -/
theorem errors_null_nonnilable (S : Sched) (ty : Ty) (T : GoTy) (h1 : T.nilableKind = false) (h2 : T.isCval = false) :
    ∃ c, fromCtyS S ⟨ty, .null⟩ T = .err c := fromCtyP_null_nonnilable S ty T h1 h2

/-- a known, non-null value whose shape the target does not accept is refused -/
theorem errors_shape_mismatch (S : Sched) (v : Value) (T : GoTy) (hk : kindOK v.ty v.v = true)
    (hs : shapeOK v.ty T.base = false) : ∃ c, fromCtyS S v T = .err c :=
  fromCtyP_shape S v.ty v.v T hk hs

/-- `errors_otherwise`: the three clauses together -/
theorem errors_otherwise (S : Sched) (v : Value) (T : GoTy) (hc : T.base.isCval = false) :
    (∀ r, v.v = .unk r → ∃ c, fromCtyS S v T = .err c) ∧
    (v.v = .null → T.nilableKind = false → ∃ c, fromCtyS S v T = .err c) ∧
    (kindOK v.ty v.v = true → shapeOK v.ty T.base = false → ∃ c, fromCtyS S v T = .err c) := by
  obtain ⟨ty, p⟩ := v
  refine ⟨?_, ?_, ?_⟩
  · rintro r rfl; exact (errors_unknown S ty r T hc).1
  · rintro rfl hn
    have : T.isCval = false := by cases T <;> simp_all [GoTy.base, GoTy.isCval, GoTy.nilableKind]
    exact errors_null_nonnilable S ty T hn this
  · exact errors_shape_mismatch S ⟨ty, p⟩ T

/-! ### "for unmarked values it never panics when given a non-nil pointer target" -/

/-- `FromCtyValue(v, new(T))` does not panic for any value without marks (at any
depth) and any target type — whatever the value's type, shape, nullness, knownness.
NB: for inputs outside the modelled fragment (capsule values, a set of two or more
non-primitive members, a payload that is not of the kind its type dictates) the model
answers `unmodelled`, which is "not a panic" for the wrong reason; `decode_total` below is
the statement without that escape. -/
theorem no_panic_unmarked (S : Sched) (v : Value) (T : GoTy) (h : v.containsMarked = false) :
    ∀ w, fromCtyS S v T ≠ .panic w := by
  intro w hw
  have := fromCtyP_noPanic v.v S v.ty T h
  unfold fromCtyS at hw
  rw [hw] at this
  cases this

/-! ### Go's map order (`fromCtyObject` ranges over a Go map): for every schedule -/

/-- Whatever order Go visits the attributes of the objects in (`S`, `S'`: one order per
object met), the outcome is the same up to WHICH failure is reported: success and the
decoded value, failure, and "outside the model" do not depend on it. -/
theorem schedule_decides_only_which_failure (S S' : Sched) (v : Value) (T : GoTy) :
    cls (fromCtyS S v T) = cls (fromCtyS S' v T) := fromCtyP_sched v.v S S' [] v.ty T

/-- For a value without marks even that choice is immaterial: it succeeds with the same
Go value under every schedule, or is refused with an error under every schedule. -/
theorem schedule_irrelevant_unmarked (S S' : Sched) (v : Value) (T : GoTy) (h : v.containsMarked = false) :
    (∀ g, fromCtyS S v T = .ok g ↔ fromCtyS S' v T = .ok g) ∧
    ((∃ c, fromCtyS S v T = .err c) ↔ ∃ c, fromCtyS S' v T = .err c) := by
  have hc := schedule_decides_only_which_failure S S' v T
  have p1 := no_panic_unmarked S v T h
  have p2 := no_panic_unmarked S' v T h
  constructor
  · intro g
    cases h1 : fromCtyS S v T <;> cases h2 : fromCtyS S' v T <;> simp_all [cls]
  · cases h1 : fromCtyS S v T <;> cases h2 : fromCtyS S' v T <;> simp_all [cls]

/-- … while a marked attribute next to a failing one makes Go's map order visible:
the same call panics or returns an error -/
theorem schedule_matters_marked_counterexample :
    let v : Value := ⟨.object ["a", "b"] [.number, .number] [false, false],
      .smap ["a", "b"] [.marked ["m"] (.n (Num.ofInt 1)), .null]⟩
    let T : GoTy := .struct ["a", "b"] [.int .w8 true, .int .w8 true]
    fromCtyS idSched v T = .panic "marked" ∧
    fromCtyS (fun _ names => names.reverse) v T = .err "null value is not allowed" := ⟨rfl, rfl⟩

/-- the guard is the one the code has: a marked value does reach the panicking accessors -/
theorem marked_can_panic (S : Sched) : fromCtyS S ⟨.bool, .marked ["m"] (.b true)⟩ .bool = .panic "marked" := by rfl

/-! ### "Converting a Go value … to the value type implied by its Go type — or arrays and big numbers to the corresponding list and number types — and back reproduces the Go value exactly, with nil pointers, slices and maps corresponding to null"

`hasTy g T`: `g` is a value of Go type `T` (what the Go type checker guarantees;
integers within their width, floats being float32/float64 values, NaN excluded as
in the property).  `bridgeType` is `ImpliedType` extended to arrays (lists) and
big numbers (numbers).  `rtSide norm g T` (decidable) says:
* every string and map key in `g` is NFC (`norm s = s`);
* a nil pointer occurs only where its pointee type is not itself a pointer, slice,
  map, array or `cty.Value` (null cannot say at which level the nil was);
* the `cty` tags of a struct are distinct and NFC, at least one field has one, and a
  field without a tag — which the bridge does not carry — holds its zero value;
* below a slice, array or map a `cty.Value` occurs only as the element type itself, the members
  all of ONE non-dynamic type (`uniformCv`; a cty list/map has one element type — members of
  different types are refused by `ToCtyValue`, `mixed_cval_refused`); no `cty.NilVal` (the invalid
  zero `cty.Value`) in a bridged position.
The first two are exactly the two recorded known findings (`roundtrip_nilptr_counterexample`,
`roundtrip_nfc_*_counterexample`); the third has `roundtrip_untagged_counterexample`.
Mis-tagged structs are excluded for a reason of their own: of two fields with one tag
`structTagIndices` keeps the later (the earlier field is silently not bridged), and a tag
that is not NFC never matches the normalised attribute name (`ToCtyValue` writes null for
it, `FromCtyValue` reports a missing attribute).  What the code does there is modelled
(`effTags`, `impliedStruct`) and corresponded, but it is not a round trip. -/

/-- nil ↔ null, stated on its own: a nil slice, map or pointer converts to the null
value of the wanted type, and a null list / map / anything-through-a-pointer decodes
to a nil slice / map / pointer (a pointer to a non-nilable, non-`cty.Value` type). -/
theorem nil_is_null (S : Sched) (norm : String → String) (t : Ty) (E : GoTy) :
    toCty norm .nilSlice (.list t) = .ok (Value.null (.list t)) ∧
    toCty norm .nilMap (.map t) = .ok (Value.null (.map t)) ∧
    toCty norm .nilPtr t = .ok (Value.null t) ∧
    fromCtyS S (Value.null (.list t)) (.slice E) = .ok .nilSlice ∧
    fromCtyS S (Value.null (.map t)) (.map E) = .ok .nilMap ∧
    fromCtyS S (Value.null .string) (.ptr .str) = .ok .nilPtr ∧
    fromCtyS S (Value.null .number) (.ptr (.ptr (.int .w8 false))) = .ok (.ptr .nilPtr) :=
  ⟨rfl, rfl, rfl, rfl, rfl, rfl, rfl⟩

/-- The unconditional round-trip statement (false of the code, see below). -/
def RoundtripAll : Prop :=
  ∀ (norm : String → String) (g : GoVal) (T : GoTy) (ty : Ty),
    hasTy g T = true → bridgeType norm T = .ok ty →
    ∃ v, toCty norm g ty = .ok v ∧ ∀ S, fromCtyS S v T = .ok g

/-- Round trip, for every Go type of the modelled family and every value of it —
integers of every width, floats, strings, booleans, slices, arrays, string-keyed
maps, tagged structs, pointers at any depth, big.Int, big.Float, embedded
`cty.Value`s, nested arbitrarily — by induction on the Go value:
`FromCtyValue(ToCtyValue(g, bridge type of T), new(T))` succeeds and stores `g`;
nil slices, maps and pointers go through null (they are `GoVal` constructors
of their own and come back as themselves). -/
theorem roundtrip_partial (norm : String → String) (g : GoVal) (T : GoTy) (ty : Ty)
    (hT : hasTy g T = true) (hs : rtSide norm g T = true) (hb : bridgeType norm T = .ok ty) :
    ∃ v, toCty norm g ty = .ok v ∧ ∀ S, fromCtyS S v T = .ok g := by
  obtain ⟨v, h1, h2, _⟩ := rt norm g T ty hT hs hb
  exact ⟨v, h1, h2⟩

/-- the same through `ImpliedType` proper (no arrays, no big numbers at any depth) -/
theorem roundtrip_implied (norm : String → String) (g : GoVal) (T : GoTy) (ty : Ty)
    (hT : hasTy g T = true) (hs : rtSide norm g T = true) (hb : impliedType norm T = .ok ty) :
    ∃ v, toCty norm g ty = .ok v ∧ ∀ S, fromCtyS S v T = .ok g :=
  roundtrip_partial norm g T ty hT hs (implied_bridge norm T ty hb)

/-- and the value produced on the way has exactly the implied type whenever no
`cty.Value` is embedded in the Go type (with one, the dynamic positions take the
type of the embedded value) -/
theorem toCty_has_implied_type (norm : String → String) (g : GoVal) (T : GoTy) (ty : Ty) (v : Value)
    (hT : hasTy g T = true) (hs : rtSide norm g T = true) (hb : bridgeType norm T = .ok ty)
    (hc : hasCval T = false) (hv : toCty norm g ty = .ok v) : v.ty = ty := by
  obtain ⟨v', h1, _, h3, _⟩ := rt norm g T ty hT hs hb
  have : v = v' := by
    have := hv.symm.trans h1
    cases this; rfl
  rw [this]; exact h3 hc

/-- In general the value produced conforms to the implied type: it has the same
shape wherever the implied type is not the placeholder `cty.DynamicPseudoType`
(`Ty.matches`), and — its own type being a well-formed cty type — the real
`TestConformance` reports no error (`C07.conform_iff`). -/
theorem toCty_conforms (norm : String → String) (g : GoVal) (T : GoTy) (ty : Ty) (v : Value)
    (hT : hasTy g T = true) (hs : rtSide norm g T = true) (hb : bridgeType norm T = .ok ty)
    (hv : toCty norm g ty = .ok v) :
    Ty.«matches» ty v.ty = true ∧ (Ty.wf v.ty = true → Ty.conformErrs ty v.ty = 0) := by
  obtain ⟨v', h1, _, _, h4⟩ := rt norm g T ty hT hs hb
  have : v = v' := by
    have := hv.symm.trans h1
    cases this; rfl
  subst this
  exact ⟨h4, fun hw => (Ty.conform_iff ty v.ty (impliedG_wf norm true T ty hb) hw).mpr h4⟩

/-! ### `ImpliedType` -/

/-- `ImpliedType` returns a type or an error for every Go type, never panics; what it
returns is a well-formed cty type (attribute names strictly ascending, i.e. a map
with distinct keys) without optional-attribute annotations … -/
theorem impliedType_total (norm : String → String) (T : GoTy) :
    (∀ w, impliedType norm T ≠ .panic w) ∧
    (∀ ty, impliedType norm T = .ok ty → Ty.wf ty = true) := by
  refine ⟨fun w h => ?_, fun ty h => impliedG_wf norm false T ty h⟩
  have := impliedG_noPanic norm false T
  unfold impliedType at h
  rw [h] at this
  cases this

/-- … it has no cty type for arrays, big numbers and structs without tagged fields
(an error, at any pointer depth; errors of element types propagate) … -/
theorem impliedType_refuses (norm : String → String) (n : Nat) (e : GoTy) (tags : List String) (tys : List GoTy)
    (h : taggedNames tags = []) :
    (∃ c, impliedType norm (.array n e) = .err c) ∧ (∃ c, impliedType norm .bigInt = .err c) ∧
    (∃ c, impliedType norm .bigFloat = .err c) ∧ (∃ c, impliedType norm (.struct tags tys) = .err c) ∧
    (∃ c, impliedType norm (.ptr (.ptr (.array n e))) = .err c) :=
  ⟨⟨_, rfl⟩, ⟨_, rfl⟩, ⟨_, rfl⟩, ⟨"no cty field tags", by simp [impliedType, impliedG, impliedStruct, taggedNames_effTags_nil tags h]⟩, ⟨_, rfl⟩⟩

/-- … and where it succeeds the bridge type is the same type: the round trip above
is, for those Go types, the round trip through `ImpliedType` itself. -/
theorem impliedType_is_bridgeType (norm : String → String) (T : GoTy) (ty : Ty)
    (h : impliedType norm T = .ok ty) : bridgeType norm T = .ok ty := implied_bridge norm T ty h

/-- known finding 1: a nil `*[]string` becomes null, and null decodes to a non-nil
pointer to a nil slice — the nil comes back one level further in -/
theorem roundtrip_nilptr_counterexample (S : Sched) :
    hasTy .nilPtr (.ptr (.slice .str)) = true ∧
    bridgeType id (.ptr (.slice .str)) = .ok (.list .string) ∧
    toCty id .nilPtr (.list .string) = .ok ⟨.list .string, .null⟩ ∧
    fromCtyS S ⟨.list .string, .null⟩ (.ptr (.slice .str)) = .ok (.ptr .nilSlice) :=
  ⟨rfl, rfl, rfl, rfl⟩

/-- a normaliser that maps the decomposed "e◌́" to the composed "é", as NFC does -/
def nfcSample : String → String := fun s => if s = "e\u0301" then "\u00e9" else s

/-- known finding 2: a string that is not NFC comes back normalised -/
theorem roundtrip_nfc_counterexample (S : Sched) :
    hasTy (.str "e\u0301") .str = true ∧ bridgeType nfcSample .str = .ok .string ∧
    toCty nfcSample (.str "e\u0301") .string = .ok ⟨.string, .s "\u00e9"⟩ ∧
    fromCtyS S ⟨.string, .s "\u00e9"⟩ .str = .ok (.str "\u00e9") :=
  ⟨rfl, rfl, rfl, rfl⟩

/-- … and so does a map key -/
theorem roundtrip_nfc_key_counterexample (S : Sched) :
    hasTy (.map ["e\u0301"] [.bool true]) (.map .bool) = true ∧
    bridgeType nfcSample (.map .bool) = .ok (.map .bool) ∧
    toCty nfcSample (.map ["e\u0301"] [.bool true]) (.map .bool) = .ok ⟨.map .bool, .smap ["\u00e9"] [.b true]⟩ ∧
    fromCtyS S ⟨.map .bool, .smap ["\u00e9"] [.b true]⟩ (.map .bool) = .ok (.map ["\u00e9"] [.bool true]) :=
  ⟨rfl, rfl, rfl, rfl⟩

/-- hence the unconditional statement does not hold -/
theorem roundtripAll_false : ¬ RoundtripAll := by
  intro h
  obtain ⟨v, h1, h2⟩ := h id .nilPtr (.ptr (.slice .str)) (.list .string) rfl rfl
  obtain ⟨_, _, e1, e2⟩ := roundtrip_nilptr_counterexample idSched
  rw [e1] at h1
  cases h1
  have h2 := h2 idSched
  rw [e2] at h2
  cases h2

/-! ### Non-vacuity -/
example : normalNum (Num.ofInt 127) = true ∧ lo IntW.w8.bits true ≤ 127 ∧ (127 : Int) ≤ hi IntW.w8.bits true := by
  decide
example : IsTheInt (Num.ofInt 127) 127 := by simp [IsTheInt, Num.ofInt, Num.mk, Num.norm, Num.normFuel, Num.bitlen]
example (S : Sched) : fromCtyS S ⟨.number, .n (Num.ofInt 127)⟩ (.int .w8 true) = .ok (.int 127) := by rfl
example (S : Sched) : fromCtyS S ⟨.number, .n (Num.ofInt 128)⟩ (.int .w8 true) = .err "whole number" := by rfl
example (S : Sched) : fromCtyS S ⟨.number, .n (Num.mk false 3 (-1) 64)⟩ (.int .w8 false) = .err "whole number" := by rfl
example : normalNum (.fin true 3 1023 64) = true ∧ 0 ≤ Num.cmp (Num.abs (.fin true 3 1023 64)) thr64 := by
  refine ⟨by decide, ?_⟩
  rw [show Num.abs (.fin true 3 1023 64) = .fin false 3 1023 64 from rfl, thr64, Num.cmp_thr64_iff 3 1023 64 64 (by decide)]
  left; decide
example : kindOK .string (.s "x") = true ∧ shapeOK .string (GoTy.ptr (.int .w8 true)).base = false := by decide
example : Value.containsMarked ⟨.list .string, .seq [.s "a", .null]⟩ = false := by decide

/-- a nested Go type and a value of it that meet every hypothesis of the round trip -/
def sampleT : GoTy :=
  .struct ["name", "l", "", "m", "p", "bi", "v"]
    [.str, .slice (.int .w16 true), .int .w16 true, .map (.array 2 (.int .w8 false)),
     .ptr (.ptr (.struct ["a"] [.bool])), .bigInt, .cval]
def sampleG : GoVal :=
  .struct ["name", "l", "", "m", "p", "bi", "v"]
    [.str "x", .slice [.int 1, .int (-32768)], .int 0,
     .map ["k", "z"] [.arr [.int 0, .int 255], .arr [.int 1, .int 2]],
     .ptr (.ptr (.struct ["a"] [.bool true])), .bigInt 18446744073709551616, .cval ⟨.string, .unk .unref⟩]
example : hasTy sampleG sampleT = true ∧ rtSide id sampleG sampleT = true := by decide
example : ∃ ty, bridgeType id sampleT = .ok ty := ⟨_, rfl⟩
example : hasTy (.ptr .nilPtr) (.ptr (.ptr .str)) = true ∧ rtSide id (.ptr .nilPtr) (.ptr (.ptr .str)) = true := by decide

/-! ### d18: the same clauses without the escapes the audit found

"never panics" as totality on the modelled fragment; "ok iff representable" for big.Int,
big.Float and numeric targets behind pointers; the shape clause for objects (stray and
missing attributes); containers of `cty.Value`. -/

/-- Totality ("never panics", not by leaving the model): for every value whose payload is of
the kind its type dictates at every depth (C06: every `cty.Value` is), without marks, without
capsules, and whose sets have at most one member or a primitive element type, and for EVERY
target type and schedule, `FromCtyValue` returns — a decoded Go value or an error. -/
theorem decode_total (S : Sched) (v : Value) (T : GoTy) (h : modelled v.ty v.v = true) :
    (∃ g, fromCtyS S v T = .ok g) ∨ ∃ c, fromCtyS S v T = .err c :=
  isOkOrErr_cases (fromCtyP_total S v.ty v.v T h)

/-- `modelled` holds no marker (so `decode_total` is about unmarked values, as the property is) -/
theorem modelled_is_unmarked (v : Value) (h : modelled v.ty v.v = true) : v.containsMarked = false :=
  modelled_unmarked v.v v.ty h

/-- Integers behind pointers (`*int8`, `**uint16`, …): the same "ok iff whole and in range",
the stored value behind `n` fresh non-nil pointers. -/
theorem int_ok_iff_ptr (S : Sched) (x : Num) (hx : normalNum x = true) (n : Nat) (w : IntW) (s : Bool) (g : GoVal) :
    fromCtyS S ⟨.number, .n x⟩ (ptrN n (.int w s)) = .ok g ↔
      ∃ k : Int, IsTheInt x k ∧ lo w.bits s ≤ k ∧ k ≤ hi w.bits s ∧ g = wrapPtr n (.int k) := by
  unfold fromCtyS
  rw [fromCtyP_number_ptrN S x n (.int w s) rfl, mapRes_ok_iff]
  constructor
  · rintro ⟨a, ha, rfl⟩
    obtain ⟨k, h1, h2, h3, rfl⟩ := (fromNum_int_ok_iff x hx w s a).mp ha
    exact ⟨k, h1, h2, h3, rfl⟩
  · rintro ⟨k, h1, h2, h3, rfl⟩
    exact ⟨.int k, (fromNum_int_ok_iff x hx w s _).mpr ⟨k, h1, h2, h3, rfl⟩, rfl⟩

/-- … and otherwise `FromCtyValue` itself (not only `fromNum`) returns an error, at any pointer depth -/
theorem int_err_otherwise_ptr (S : Sched) (x : Num) (hx : normalNum x = true) (n : Nat) (w : IntW) (s : Bool)
    (h : ¬ ∃ k : Int, IsTheInt x k ∧ lo w.bits s ≤ k ∧ k ≤ hi w.bits s) :
    ∃ c, fromCtyS S ⟨.number, .n x⟩ (ptrN n (.int w s)) = .err c := by
  obtain ⟨c, hc⟩ := int_err_otherwise x hx w s h
  refine ⟨c, ?_⟩
  unfold fromCtyS
  rw [fromCtyP_number_ptrN S x n (.int w s) rfl, hc]; rfl

/-- Floats behind pointers: as `float_ok_iff`, the stored value behind `n` pointers. -/
theorem float_ok_iff_ptr (S : Sched) (x : Num) (n : Nat) (is32 : Bool) (g : GoVal) :
    fromCtyS S ⟨.number, .n x⟩ (ptrN n (.float is32)) = .ok g ↔
      ∃ f, g = wrapPtr n (.flt f) ∧ f = (if is32 then Num.f64to32 x.toF64.1 else x.toF64.1) ∧
        (x.isInf = true ∨ f.isInf = false) := by
  unfold fromCtyS
  rw [fromCtyP_number_ptrN S x n (.float is32) rfl, mapRes_ok_iff]
  constructor
  · rintro ⟨a, ha, rfl⟩
    obtain ⟨f, rfl, h2, h3⟩ := (float_ok_iff x is32 a).mp ha
    exact ⟨f, rfl, h2, h3⟩
  · rintro ⟨f, rfl, h2, h3⟩
    exact ⟨.flt f, (float_ok_iff x is32 _).mpr ⟨f, rfl, h2, h3⟩, rfl⟩

/-- big.Int (at any pointer depth): decoding succeeds iff the number is whole, and then stores
exactly that integer — no width limit. -/
theorem bigInt_ok_iff (S : Sched) (x : Num) (hx : normalNum x = true) (n : Nat) (g : GoVal) :
    fromCtyS S ⟨.number, .n x⟩ (ptrN n .bigInt) = .ok g ↔ ∃ k : Int, IsTheInt x k ∧ g = wrapPtr n (.bigInt k) := by
  unfold fromCtyS
  rw [fromCtyP_number_ptrN S x n .bigInt rfl, mapRes_ok_iff]
  constructor
  · rintro ⟨a, ha, rfl⟩
    obtain ⟨k, h1, rfl⟩ := (fromNum_bigInt_ok_iff x hx a).mp ha
    exact ⟨k, h1, rfl⟩
  · rintro ⟨k, h1, rfl⟩
    exact ⟨.bigInt k, (fromNum_bigInt_ok_iff x hx _).mpr ⟨k, h1, rfl⟩, rfl⟩

/-- … a fraction or an infinity is refused by big.Int with an error -/
theorem bigInt_err_otherwise (S : Sched) (x : Num) (hx : normalNum x = true) (n : Nat)
    (h : ¬ ∃ k : Int, IsTheInt x k) : ∃ c, fromCtyS S ⟨.number, .n x⟩ (ptrN n .bigInt) = .err c := by
  refine ⟨"value must be a whole number", ?_⟩
  unfold fromCtyS
  rw [fromCtyP_number_ptrN S x n .bigInt rfl, fromNum_bigInt_err x hx h]; rfl

/-- big.Float (at any pointer depth) accepts every number — finite of any precision, or infinite —
and stores it as it is. -/
theorem bigFloat_stores_exactly (S : Sched) (x : Num) (n : Nat) :
    fromCtyS S ⟨.number, .n x⟩ (ptrN n .bigFloat) = .ok (wrapPtr n (.bigFloat x)) := by
  unfold fromCtyS
  rw [fromCtyP_number_ptrN S x n .bigFloat rfl]; rfl

/-- "shape mismatches return an error", objects: an object is decoded into a struct (behind any
number of pointers) iff no tagged field that can not be nil lacks its attribute and every
attribute decodes into the field tagged with its name — in particular every attribute HAS such a
field; the struct then holds the decoded attributes and zero values elsewhere.  For every
schedule (Go's map order). -/
theorem object_ok_iff (S : Sched) (names : List String) (atys : List Ty) (opt : List Bool) (cs : List Payload)
    (T : GoTy) (tags : List String) (tys : List GoTy) (hT : T.base = .struct tags tys) (g : GoVal) :
    fromCtyS S ⟨.object names atys opt, .smap names cs⟩ T = .ok g ↔
      missingRequired names (effTags tags) tys = false ∧
      ∃ gs, fromCtyA S.next [] names atys cs (effTags tags) tys = gs.map Res.ok ∧
        g = wrapPtr T.depth (.struct tags (assemble names gs (effTags tags) tys)) :=
  fromCtyP_object_ok_iff S names atys opt cs T tags tys hT g

/-- … an attribute that no tagged field carries (a "stray" one — e.g. the typo `prot` for an
optional `port`) is refused with an error under every schedule, whatever else the object holds or
omits: its value is never silently dropped.  (`lookupTag k (effTags tags) tys = none`: no field's
effective `cty` tag is `k`.) -/
theorem errors_object_stray (S : Sched) (names : List String) (atys : List Ty) (opt : List Bool) (cs : List Payload)
    (T : GoTy) (tags : List String) (tys : List GoTy) (hT : T.base = .struct tags tys)
    (hm : modelledZ atys cs = true) (hl : names.length = atys.length)
    (k : String) (hk : k ∈ names) (hs : lookupTag k (effTags tags) tys = none) :
    ∃ c, fromCtyS S ⟨.object names atys opt, .smap names cs⟩ T = .err c :=
  fromCtyP_object_stray S names atys opt cs T tags tys hT hm hl k hk hs

/-- … and so is an object that lacks the attribute of a field that can not be nil -/
theorem errors_object_missing (S : Sched) (names : List String) (atys : List Ty) (opt : List Bool) (cs : List Payload)
    (T : GoTy) (tags : List String) (tys : List GoTy) (hT : T.base = .struct tags tys)
    (hm : missingRequired names (effTags tags) tys = true) :
    ∃ c, fromCtyS S ⟨.object names atys opt, .smap names cs⟩ T = .err c :=
  ⟨_, fromCtyP_object_missing S names atys opt cs T tags tys hT hm⟩

/-- the near miss of the seeded change C18c, evaluated: `struct{Name string "name"; Port *int "port"}`
given `{name, prot}` (the optional `port` omitted, a stray `prot` present) is refused, while `{name}` alone
is accepted with a nil `Port`; `{name, port, extra}` and `{port}` are refused. -/
theorem object_near_miss_witnesses (S : Sched) :
    let T : GoTy := .struct ["name", "port"] [.str, .ptr (.int .wInt true)]
    let web : Payload := .s "web"
    let n8080 : Payload := .n (Num.ofInt 8080)
    (∃ c, fromCtyS S ⟨.object ["name", "prot"] [.string, .number] [false, false], .smap ["name", "prot"] [web, n8080]⟩ T = .err c) ∧
    fromCtyS S ⟨.object ["name"] [.string] [false], .smap ["name"] [web]⟩ T = .ok (.struct ["name", "port"] [.str "web", .nilPtr]) ∧
    (∃ c, fromCtyS S ⟨.object ["extra", "name", "port"] [.bool, .string, .number] [false, false, false],
        .smap ["extra", "name", "port"] [.b true, web, n8080]⟩ T = .err c) ∧
    (∃ c, fromCtyS S ⟨.object ["port"] [.number] [false], .smap ["port"] [n8080]⟩ T = .err c) := by
  refine ⟨?_, ?_, ?_, ?_⟩
  · exact errors_object_stray S _ _ _ _ _ _ _ rfl (by decide) rfl "prot" (by decide) (by decide)
  · exact (object_ok_iff S _ _ _ _ _ _ _ rfl _).mpr ⟨by decide, [.str "web"], rfl, rfl⟩
  · exact errors_object_stray S _ _ _ _ _ _ _ rfl (by decide) rfl "extra" (by decide) (by decide)
  · exact errors_object_missing S _ _ _ _ _ _ _ rfl (by decide)

/-- Containers of embedded dynamic values — `[]cty.Value`, `[n]cty.Value`, `map[string]cty.Value` —
round-trip exactly when the members are all of one type `t` (not the dynamic pseudo-type; `t.equals t`
holds for every well-formed type, `C07.equals_iff_eq`).  (d18: `rtSide` used to exclude every `cty.Value`
below a container; it now admits this case — `uniformCv` — so `roundtrip_partial` covers it at any
nesting, e.g. as a struct field; this is the statement on its own.) -/
theorem roundtrip_cval_containers (norm : String → String) (ks : List String) (ws : List Value) (t : Ty)
    (hne : ws ≠ []) (hty : ∀ w ∈ ws, w.ty = t) (hd : isDynTy t = false) (heq : Ty.equals t t = true)
    (hks : ks.map norm = ks) :
    (∃ v, toCty norm (.slice (ws.map .cval)) (.list .dyn) = .ok v ∧
      ∀ S, fromCtyS S v (.slice .cval) = .ok (.slice (ws.map .cval))) ∧
    (∃ v, toCty norm (.arr (ws.map .cval)) (.list .dyn) = .ok v ∧
      ∀ S, fromCtyS S v (.array ws.length .cval) = .ok (.arr (ws.map .cval))) ∧
    (∃ v, toCty norm (.map ks (ws.map .cval)) (.map .dyn) = .ok v ∧
      ∀ S, fromCtyS S v (.map .cval) = .ok (.map ks (ws.map .cval))) :=
  ⟨⟨_, (rt_cval_slice norm ws t hne hty hd heq).1, (rt_cval_slice norm ws t hne hty hd heq).2⟩,
   ⟨_, (rt_cval_array norm ws t hne hty hd heq).1, (rt_cval_array norm ws t hne hty hd heq).2⟩,
   ⟨_, (rt_cval_map norm ks ws t hne hks hty hd heq).1, (rt_cval_map norm ks ws t hne hks hty hd heq).2⟩⟩

/-- members of different types have no cty list or map: `ToCtyValue` REFUSES them with an error
("exact or refuses"; repaired in /repo 99f9cb6 — before, `cty.ListVal` panicked) -/
theorem mixed_cval_refused :
    (∃ c, toCty id (.slice [.cval ⟨.string, .s "a"⟩, .cval ⟨.number, .n (Num.ofInt 1)⟩]) (.list .dyn) = .err c) ∧
    (∃ c, toCty id (.map ["a", "b"] [.cval ⟨.bool, .b true⟩, .cval ⟨.string, .null⟩]) (.map .dyn) = .err c) :=
  ⟨⟨_, rfl⟩, ⟨_, rfl⟩⟩

/-- the third exclusion of `rtSide` is a genuine (documented) non-round-trip: a field without a
`cty` tag is not bridged, so a non-zero value in it comes back as zero -/
theorem roundtrip_untagged_counterexample (S : Sched) :
    let T : GoTy := .struct ["a", ""] [.int .w8 true, .int .w16 true]
    let g : GoVal := .struct ["a", ""] [.int 1, .int 5]
    hasTy g T = true ∧ bridgeType id T = .ok (.object ["a"] [.number] [false]) ∧
    toCty id g (.object ["a"] [.number] [false]) = .ok ⟨.object ["a"] [.number] [false], .smap ["a"] [.n (Num.ofInt 1)]⟩ ∧
    fromCtyS S ⟨.object ["a"] [.number] [false], .smap ["a"] [.n (Num.ofInt 1)]⟩ T = .ok (.struct ["a", ""] [.int 1, .int 0]) := by
  exact ⟨by decide, rfl, rfl, (object_ok_iff S _ _ _ _ _ _ _ rfl _).mpr ⟨by decide, [.int 1], rfl, rfl⟩⟩

/-- "Exact or refuses" composes (for every schedule): a list is decoded into a slice / an array, a
map into a Go map, a tuple into a struct iff every member is decoded into the element / field type
(arrays and tuples: and the lengths agree), and the result holds exactly the decoded members. -/
theorem members_ok_iff (S : Sched) (ety : Ty) (etys : List Ty) (ks : List String) (cs : List Payload) (n : Nat) (E : GoTy)
    (tags : List String) (tys : List GoTy) (g : GoVal) :
    (fromCtyS S ⟨.list ety, .seq cs⟩ (.slice E) = .ok g ↔ ∃ gs, fromCtyL S ety cs E = gs.map Res.ok ∧ g = .slice gs) ∧
    (fromCtyS S ⟨.list ety, .seq cs⟩ (.array n E) = .ok g ↔
      cs.length = n ∧ ∃ gs, fromCtyL S ety cs E = gs.map Res.ok ∧ g = .arr gs) ∧
    (fromCtyS S ⟨.map ety, .smap ks cs⟩ (.map E) = .ok g ↔ ∃ gs, fromCtyL S ety cs E = gs.map Res.ok ∧ g = .map ks gs) ∧
    (fromCtyS S ⟨.tuple etys, .seq cs⟩ (.struct tags tys) = .ok g ↔
      tys.length = etys.length ∧ ∃ gs, fromCtyZ S [] etys cs tys = gs.map Res.ok ∧ g = .struct tags gs) :=
  ⟨fromCtyP_list_slice_ok_iff S ety cs (.slice E) E rfl g, fromCtyP_list_array_ok_iff S ety cs (.array n E) n E rfl g,
   fromCtyP_map_ok_iff S ety ks cs (.map E) E rfl g, fromCtyP_tuple_ok_iff S etys cs (.struct tags tys) tags tys rfl g⟩

/-- … so a refusal at depth is a refusal of the whole: a list (of modelled members) one of whose members
is refused — an unknown, a null into a non-nilable element, a number that does not fit — is refused with an
error, at any pointer depth of the target; the member is not skipped. -/
theorem errors_nested_member (S : Sched) (ety : Ty) (cs : List Payload) (T : GoTy) (E : GoTy)
    (hT : T.base = .slice E) (hm : modelledL ety cs = true) (c : Payload) (hc : c ∈ cs)
    (he : ∃ e, fromCtyP S [] ety c E = .err e) : ∃ e, fromCtyS S ⟨.list ety, .seq cs⟩ T = .err e :=
  fromCtyP_list_member_refused S ety cs T E hT hm c hc he

/-- for instance an unknown inside a list of numbers, into `*[]int8` -/
example (S : Sched) : ∃ e, fromCtyS S ⟨.list .number, .seq [.n (Num.ofInt 1), .unk .unref]⟩ (.ptr (.slice (.int .w8 true))) = .err e :=
  errors_nested_member S .number _ _ (.int .w8 true) rfl (by decide) (.unk .unref) (by simp)
    ⟨_, fromCtyP_unknown S [] .number .unref (.int .w8 true) rfl⟩

/-- Not demanded by the property (its "never panics" clause is about `FromCtyValue`), recorded because
the audit asked for it: `ToCtyValue` does not panic on any Go value that holds no NaN (and whose
map keys are NFC), whatever the wanted cty type — conforming to the Go value or not. -/
theorem tocty_no_panic (norm : String → String) (g : GoVal) (ty : Ty) (h : noNaN norm g = true) :
    ∀ w, toCty norm g ty ≠ .panic w := by
  intro w hw
  have := toCtyG_noPanic norm g true ty h
  unfold toCty at hw
  rw [hw] at this
  cases this

/-- … while a NaN does make it panic (`big.Float.SetFloat64(NaN)`); the property excludes NaN -/
theorem tocty_nan_panics : toCty id .nan .number = .panic "NaN" ∧
    toCty id (.slice [.flt (.fin false 1 0 53), .nan]) (.list .number) = .panic "NaN" := ⟨rfl, rfl⟩

/-- `roundtrip_partial` does reach containers of `cty.Value`: a struct with a `[]cty.Value` and a
`map[string]cty.Value` field (the harness type `c18S8`) meets its side condition -/
example :
    let T : GoTy := .struct ["l", "m", "n"] [.slice .cval, .map .cval, .int .wInt true]
    let g : GoVal := .struct ["l", "m", "n"]
      [.slice [.cval ⟨.string, .s "a"⟩, .cval ⟨.string, .unk .unref⟩],
       .map ["k"] [.cval ⟨.list .number, .seq []⟩], .int 3]
    hasTy g T = true ∧ rtSide id g T = true ∧ ∃ ty, bridgeType id T = .ok ty := by
  refine ⟨by decide, by decide, _, rfl⟩
example : rtSide id (.slice [.cval ⟨.string, .s "a"⟩, .cval ⟨.number, .n (Num.ofInt 1)⟩]) (.slice .cval) = false := by decide

/-! non-vacuity of the d18 hypotheses -/
example : noNaN id sampleG = true := by decide
example : modelled (.object ["l", "s"] [.list .number, .set (.tuple [.bool])] [false, false])
    (.smap ["l", "s"] [.seq [.n (Num.ofInt 1), .null, .unk .unref], .sset [0] [.seq [.b true]]]) = true := by decide
example : ptrN 2 (.int .w8 true) = .ptr (.ptr (.int .w8 true)) := rfl
example (S : Sched) : fromCtyS S ⟨.number, .n (Num.ofInt 127)⟩ (ptrN 2 (.int .w8 true)) = .ok (.ptr (.ptr (.int 127))) := by rfl
example (S : Sched) : fromCtyS S ⟨.number, .n (Num.mk false 3 (-1) 64)⟩ (ptrN 1 .bigInt) = .err "value must be a whole number" := by rfl
example : ¬ ∃ k : Int, IsTheInt (Num.mk false 3 (-1) 64) k := by
  rintro ⟨k, hk⟩
  simp [IsTheInt, Num.mk, Num.norm, Num.normFuel] at hk
  omega
example : (∀ w ∈ [(⟨.string, .s "a"⟩ : Value), ⟨.string, .unk .unref⟩], w.ty = .string) ∧ isDynTy .string = false ∧
    Ty.equals .string .string = true := by
  refine ⟨by simp, rfl, by decide⟩

/-! ### The regenerated-model tie (number, bool and string decoding)

`Generated.GoctyFns.*` are NOT hand-written: `extract/translate_gocty.go` translates the bodies of `fromCtyNumber`,
`fromCtyNumberInt`, `fromCtyNumberUInt`, `fromCtyNumberFloat`, `fromCtyNumberBig`, `fromCtyBool`, `fromCtyString` and
`likelyRequiredTypesError` (cty/gocty/out.go) into Lean on every check — the `min`/`max` switch tables, the accuracy and
`IsInt` tests, the infinity guards and the dispatch on the target's kind included.  `math/big`, `reflect` and the three
`cty.Value` accessors are the given API (`CtyModel/GoctyGo.lean`: the hand-written `Num` model).  A generated decoder takes
the number, the target's type and the value the target holds before (immaterial: `tv`) and returns what it holds afterwards.
`generated_*_eq` say that the source text computes what the hand-written model computes (up to the TEXT of an error or
panic, `GoctyFnsTie.er`), so the number theorems above hold of the translated source; the `*_generated` corollaries state
them directly about it.  A source edit that changes the meaning makes these proofs fail; an edit that leaves the translated
fragment makes the extractor fail. -/

/-- `fromCtyNumber` as written in the source is the model's `fromNum`, for every number and EVERY target type -/
theorem generated_fromCtyNumber_eq (x : Num) (T : GoTy) (tv : GoVal) :
    GoctyFnsTie.er (Generated.GoctyFns.fromCtyNumber ⟨.number, .n x⟩ T tv) = GoctyFnsTie.er (fromNum x T) :=
  GoctyFnsTie.fromCtyNumber_eq x T tv

/-- … and as `fromCtyValue` calls it (marks pushed down from the containers included, any target that is neither a
pointer nor `cty.Value`) it is the number case of the model of `fromCtyValue` -/
theorem generated_fromCtyNumber_eq_fromCtyP (S : Sched) (ms : List String) (x : Num) (T : GoTy) (tv : GoVal)
    (hd : T.depth = 0) (hc : T.isCval = false) :
    GoctyFnsTie.er (Generated.GoctyFns.fromCtyNumber ⟨.number, pushMarks ms (.n x)⟩ T tv) =
      GoctyFnsTie.er (fromCtyP S ms .number (.n x) T) :=
  GoctyFnsTie.fromCtyNumber_eq_fromCtyP S ms x T tv hd hc

/-- `fromCtyBool` as written in the source is the bool case of the model of `fromCtyValue` -/
theorem generated_fromCtyBool_eq (S : Sched) (ms : List String) (b : Bool) (T : GoTy) (tv : GoVal)
    (hd : T.depth = 0) (hc : T.isCval = false) :
    GoctyFnsTie.er (Generated.GoctyFns.fromCtyBool ⟨.bool, pushMarks ms (.b b)⟩ T tv) =
      GoctyFnsTie.er (fromCtyP S ms .bool (.b b) T) :=
  GoctyFnsTie.fromCtyBool_eq_fromCtyP S ms b T tv hd hc

/-- `fromCtyString` as written in the source is the string case of the model of `fromCtyValue` -/
theorem generated_fromCtyString_eq (S : Sched) (ms : List String) (v : String) (T : GoTy) (tv : GoVal)
    (hd : T.depth = 0) (hc : T.isCval = false) :
    GoctyFnsTie.er (Generated.GoctyFns.fromCtyString ⟨.string, pushMarks ms (.s v)⟩ T tv) =
      GoctyFnsTie.er (fromCtyP S ms .string (.s v) T) :=
  GoctyFnsTie.fromCtyString_eq_fromCtyP S ms v T tv hd hc

/-- the four width-specific decoders, each as written in the source, are the model's -/
theorem generated_decoders_eq (x : Num) (tv : GoVal) :
    (∀ w, GoctyFnsTie.er (Generated.GoctyFns.fromCtyNumberInt x (.int w true) tv) =
            GoctyFnsTie.er (mapRes GoVal.int (fromNumInt x w.bits))) ∧
    (∀ w, GoctyFnsTie.er (Generated.GoctyFns.fromCtyNumberUInt x (.int w false) tv) =
            GoctyFnsTie.er (mapRes GoVal.int (fromNumUInt x w.bits))) ∧
    (∀ is32, GoctyFnsTie.er (Generated.GoctyFns.fromCtyNumberFloat x (.float is32) tv) =
            GoctyFnsTie.er (mapRes GoVal.flt (fromNumFloat x is32))) ∧
    (∀ T, GoctyGo.kindOf T = .kStruct →
            GoctyFnsTie.er (Generated.GoctyFns.fromCtyNumberBig x T tv) = GoctyFnsTie.er (fromNum x T)) :=
  ⟨fun w => GoctyFnsTie.fromCtyNumberInt_eq x w tv, fun w => GoctyFnsTie.fromCtyNumberUInt_eq x w tv,
   fun b => GoctyFnsTie.fromCtyNumberFloat_eq x b tv, fun T h => GoctyFnsTie.fromCtyNumberBig_eq x T tv h⟩

theorem generated_ok_iff (x : Num) (T : GoTy) (tv g : GoVal) :
    Generated.GoctyFns.fromCtyNumber ⟨.number, .n x⟩ T tv = .ok g ↔ fromNum x T = .ok g := by
  rw [← GoctyFnsTie.er_eq_ok, generated_fromCtyNumber_eq, GoctyFnsTie.er_eq_ok]

/-- `int_ok_iff`, about the translated source: the decoder written in out.go succeeds on an integer target iff the
number is whole and within the type's range, and then the target holds exactly that integer (the conversion
`SetInt`/`SetUint` perform to the target's width included) -/
theorem int_ok_iff_generated (x : Num) (hx : normalNum x = true) (w : IntW) (s : Bool) (tv g : GoVal) :
    Generated.GoctyFns.fromCtyNumber ⟨.number, .n x⟩ (.int w s) tv = .ok g ↔
      ∃ k : Int, IsTheInt x k ∧ lo w.bits s ≤ k ∧ k ≤ hi w.bits s ∧ g = .int k := by
  rw [generated_ok_iff]; exact fromNum_int_ok_iff x hx w s g

/-- `int_err_otherwise`, about the translated source -/
theorem int_err_otherwise_generated (x : Num) (hx : normalNum x = true) (w : IntW) (s : Bool) (tv : GoVal)
    (h : ¬ ∃ k : Int, IsTheInt x k ∧ lo w.bits s ≤ k ∧ k ≤ hi w.bits s) :
    ∃ c, Generated.GoctyFns.fromCtyNumber ⟨.number, .n x⟩ (.int w s) tv = .err c := by
  obtain ⟨c, hc⟩ := int_err_otherwise x hx w s h
  have := generated_fromCtyNumber_eq x (.int w s) tv
  rw [hc] at this
  exact GoctyFnsTie.er_eq_err.mp this

/-- `float_ok_iff`, about the translated source -/
theorem float_ok_iff_generated (x : Num) (is32 : Bool) (tv g : GoVal) :
    Generated.GoctyFns.fromCtyNumber ⟨.number, .n x⟩ (.float is32) tv = .ok g ↔
      ∃ f, g = .flt f ∧ f = (if is32 then Num.f64to32 x.toF64.1 else x.toF64.1) ∧
        (x.isInf = true ∨ f.isInf = false) := by
  rw [generated_ok_iff]; exact float_ok_iff x is32 g

/-- `float_err_otherwise`, about the translated source -/
theorem float_err_otherwise_generated (x : Num) (is32 : Bool) (tv : GoVal)
    (h : x.isInf = false ∧ (if is32 then Num.f64to32 x.toF64.1 else x.toF64.1).isInf = true) :
    ∃ c, Generated.GoctyFns.fromCtyNumber ⟨.number, .n x⟩ (.float is32) tv = .err c := by
  obtain ⟨c, hc⟩ := float_err_otherwise x is32 h
  have := generated_fromCtyNumber_eq x (.float is32) tv
  rw [hc] at this
  exact GoctyFnsTie.er_eq_err.mp this

/-- `bigInt_ok_iff`, about the translated source: no width limit, whole numbers only -/
theorem bigInt_ok_iff_generated (x : Num) (hx : normalNum x = true) (tv g : GoVal) :
    Generated.GoctyFns.fromCtyNumber ⟨.number, .n x⟩ .bigInt tv = .ok g ↔ ∃ k : Int, IsTheInt x k ∧ g = .bigInt k := by
  rw [generated_ok_iff]; exact fromNum_bigInt_ok_iff x hx g

/-- `bigFloat_stores_exactly`, about the translated source -/
theorem bigFloat_stores_exactly_generated (x : Num) (tv : GoVal) :
    Generated.GoctyFns.fromCtyNumber ⟨.number, .n x⟩ .bigFloat tv = .ok (.bigFloat x) := by
  rw [generated_ok_iff]; rfl

/-- `bounds_table`, about the translated source: the decoder written in out.go panics on no integer type, and what
it accepts for a `b`-bit type is exactly −2^(b−1) … 2^(b−1)−1 (signed) or 0 … 2^b−1 (unsigned) -/
theorem bounds_table_generated (w : IntW) (s : Bool) (k : Int) (tv : GoVal) :
    Generated.GoctyFns.fromCtyNumber ⟨.number, .n (Num.ofInt k)⟩ (.int w s) tv =
        .ok (.int k) ↔ (if s then -(2 : Int) ^ (w.bits - 1) else 0) ≤ k ∧
          k ≤ (if s then (2 : Int) ^ (w.bits - 1) - 1 else (2 : Int) ^ w.bits - 1) := by
  have hn : normalNum (Num.ofInt k) = true := normalNum_mk _ _ _ _
  rw [int_ok_iff_generated _ hn]
  have hb := (bounds_table.2.2.2 w.bits s)
  rw [← hb.1, ← hb.2]
  constructor
  · rintro ⟨k', h1, h2, h3, h4⟩
    cases h4; exact ⟨h2, h3⟩
  · rintro ⟨h2, h3⟩
    exact ⟨k, IsTheInt_ofInt k 64, h2, h3, rfl⟩

/-- a marked number panics in the translated source as in the model (`marked_can_panic`) -/
theorem marked_number_panics_generated (ms : List String) (p : Payload) (T : GoTy) (tv : GoVal) :
    ∃ w, Generated.GoctyFns.fromCtyNumber ⟨.number, .marked ms p⟩ T tv = .panic w := by
  have := GoctyFnsTie.fromCtyNumber_marked ms p T tv
  cases h : Generated.GoctyFns.fromCtyNumber ⟨.number, .marked ms p⟩ T tv <;> simp [h, GoctyFnsTie.er] at this
  exact ⟨_, rfl⟩

example : Generated.GoctyFns.fromCtyNumber ⟨.number, .n (Num.ofInt 127)⟩ (.int .w8 true) (.int 0) = .ok (.int 127) := by
  rfl
example : Generated.GoctyFns.fromCtyNumber ⟨.number, .n (Num.ofInt 128)⟩ (.int .w8 true) (.int 0) =
    .err "value must be a whole number, between %d and %d" := by rfl
example : Generated.GoctyFns.fromCtyNumber ⟨.number, .n (Num.mk false 3 (-1) 64)⟩ (.int .w64 false) (.int 0) =
    .err "value must be a whole number, between 0 and %d inclusive" := by rfl
example (tv : GoVal) : ∃ c, Generated.GoctyFns.fromCtyNumber ⟨.number, .n (Num.ofInt 1)⟩ (.slice .str) tv = .err c := ⟨_, rfl⟩

/-! ## Second deepening (slice d18b)

Three predicates of the harness that caught seeded changes now have statements (on the hand-written model diffed
against /repo), and the STRUCTURE of `fromCtyValue` and of the collection decoders is regenerated from the source:
`Generated.GoctyShapeFns.fromCtyValue / fromCtyList / fromCtySet / fromCtyMap / fromCtyTuple / fromCtyObject` are the
translated text of cty/gocty/out.go — the `cty.Value` passthrough, the null and unknown guards, the dispatch on the type kind,
the kind dispatch of every decoder, their null guards, `length != target.Len()`, the tuple's field count and positional loop.
The recursive call is a parameter (`D18bTie.recS S` = the model itself: open recursion), `fromCtyPopulatePtr` is given API
(`populateTy` / `populateLift`), the five `ForEachElement` closures and the two Go-map loops of `fromCtyObject` are PINNED
REGIONS (their text is compared on every run and their meaning written in the model's vocabulary), `fromCtyCapsule` is not
translated (capsules are outside the model). -/

/-- "shape mismatches … return an error", arrays, for EVERY length: a list or a set is decoded into a Go array `[n]E`
(behind any pointers) only if it has exactly `n` members, and every other length is refused with an error whatever the
members are (the predicate that caught seeded/C18-array-decode-empty-collection-early-return). -/
theorem array_length_rule (S : Sched) (ety : Ty) (ids : List Int) (cs : List Payload) (T : GoTy) (n : Nat) (E : GoTy)
    (hT : T.base = .array n E) :
    (∀ g, fromCtyS S ⟨.list ety, .seq cs⟩ T = .ok g → cs.length = n) ∧
    (∀ g, fromCtyS S ⟨.set ety, .sset ids cs⟩ T = .ok g → cs.length = n) ∧
    (cs.length ≠ n → (∃ c, fromCtyS S ⟨.list ety, .seq cs⟩ T = .err c) ∧ (∃ c, fromCtyS S ⟨.set ety, .sset ids cs⟩ T = .err c)) :=
  ⟨fun g h => ((fromCtyP_list_array_ok_iff S ety cs T n E hT g).mp h).1,
   fun g h => fromCtyP_set_array_ok_len S ety ids cs T n E hT g h,
   fun hl => ⟨fromCtyP_list_array_len_err S ety cs T n E hT hl, fromCtyP_set_array_len_err S ety ids cs T n E hT hl⟩⟩

/-- … in particular an empty list or set decodes into an array only of length 0 (and then stores the empty array) -/
theorem empty_into_array_iff (S : Sched) (ety : Ty) (T : GoTy) (n : Nat) (E : GoTy) (hT : T.base = .array n E) :
    ((∃ g, fromCtyS S ⟨.list ety, .seq []⟩ T = .ok g) ↔ n = 0) ∧
    ((∃ g, fromCtyS S ⟨.set ety, .sset [] []⟩ T = .ok g) ↔ n = 0) ∧
    (n = 0 → fromCtyS S ⟨.list ety, .seq []⟩ T = .ok (wrapPtr T.depth (.arr [])) ∧
             fromCtyS S ⟨.set ety, .sset [] []⟩ T = .ok (wrapPtr T.depth (.arr []))) := by
  have hl := fromCtyP_empty_list_array S ety T n E hT
  have hs := fromCtyP_empty_set_array S ety T n E hT
  refine ⟨⟨fun ⟨g, h⟩ => ?_, fun h0 => ⟨_, hl.1 h0⟩⟩, ⟨fun ⟨g, h⟩ => ?_, fun h0 => ⟨_, hs.1 h0⟩⟩, fun h0 => ⟨hl.1 h0, hs.1 h0⟩⟩
  · by_cases h0 : n = 0
    · exact h0
    · obtain ⟨c, hc⟩ := hl.2 h0
      rw [fromCtyS] at h; rw [hc] at h; cases h
  · by_cases h0 : n = 0
    · exact h0
    · obtain ⟨c, hc⟩ := hs.2 h0
      rw [fromCtyS] at h; rw [hc] at h; cases h

/-- "nil pointers … correspond to null", inside maps: a map decoded into `map[string]*E` (behind any pointers; `E` not
`cty.Value`; element type not a list or map, whose null is a nil slice / map behind an allocated pointer) has exactly the
keys of the cty map, and under the key of every null element a nil pointer — a null element is never a missing key
(the predicate that caught seeded/C18-map-decode-null-pointer-element-dropped). -/
theorem map_null_element_is_nil_member (S : Sched) (ety : Ty) (ks : List String) (cs : List Payload) (T : GoTy) (E : GoTy)
    (hT : T.base = .map (.ptr E)) (hc : E.base.isCval = false) (hn : nullViaPtr ety = true) (g : GoVal)
    (h : fromCtyS S ⟨.map ety, .smap ks cs⟩ T = .ok g) :
    ∃ gs, g = wrapPtr T.depth (.map ks gs) ∧ gs.length = cs.length ∧
      ∀ i : Nat, cs[i]? = some Payload.null → gs[i]? = some (wrapPtr E.depth .nilPtr) :=
  fromCtyP_map_null_member S ety ks cs T E hT hc hn g h

/-- "big numbers to the corresponding number type … exactly": `ToCtyValue` of a `big.Int` is the number `v` for EVERY
magnitude — the number made has the integer value `v` and a precision that holds all its bits (`(&big.Float{}).SetInt`
takes max(64, bit length), so nothing is rounded), at the top level or behind a pointer; and it decodes back into the same
`big.Int` (the predicate that caught seeded/C18-bigint-newfloat-53-bit-precision). -/
theorem bigInt_tocty_exact (S : Sched) (norm : String → String) (v : Int) :
    ∃ x, toCty norm (.bigInt v) .number = .ok ⟨.number, .n x⟩ ∧ toCty norm (.ptr (.bigInt v)) .number = .ok ⟨.number, .n x⟩ ∧
      IsTheInt x v ∧ normalNum x = true ∧
      (∃ n m e p, x = .fin n m e p ∧ Num.bitlen v.natAbs ≤ p) ∧
      fromCtyS S ⟨.number, .n x⟩ .bigInt = .ok (.bigInt v) := by
  obtain ⟨h1, h2, h3⟩ := toCtyG_bigInt_exact norm true v
  refine ⟨_, h1, ?_, h2, h3, ⟨_, _, _, _, rfl, bigInt_prec_suffices v⟩, ?_⟩
  · simp only [toCty, toCtyG]
  · exact (bigInt_ok_iff S _ h3 0 _).mpr ⟨v, h2, rfl⟩

/-! ### float32: closed form through the float64 intermediate, and the double-rounding band

`fromCtyNumberFloat` narrows in two steps: `fv := bf.Float64()`, then `float32(fv)`.  The refusal threshold therefore sits
on the float64 INTERMEDIATE, and the stored value is the float32 nearest to that intermediate, not to the number. -/

/-- Float32, closed form (was only searched): a finite number is refused by a float32 target exactly when it is refused by
float64 (`|x| ≥ 2^1024 − 2^970`) or its float64 rounding `x.Float64()` has magnitude at least 2^128 − 2^103, the midpoint
between the largest float32 and 2^128 (the tie going up) -/
theorem float32_refused_iff (n : Bool) (m : Nat) (e : Int) (p : Nat) (hx : normalNum (.fin n m e p) = true) :
    (∃ c, fromNum (.fin n m e p) (.float true) = .err c) ↔
      (0 ≤ Num.cmp (Num.abs (.fin n m e p)) thr64 ∨ 0 ≤ Num.cmp (Num.abs (Num.toF64 (.fin n m e p)).1) thr32) := by
  have h64 := float64_refused_iff n m e p hx
  rw [float_refused_iff_inf _ false rfl] at h64
  rw [float_refused_iff_inf _ true rfl]
  simp only [Bool.false_eq_true, if_false, if_true] at h64 ⊢
  have hn : normalNum (Num.toF64 (.fin n m e p)).1 = true := normal_toIEEE 52 (-1022) 1023 _
  rw [f64to32_isInf_iff _ hn, h64]

/-- … so on a number that IS a float64 (`Float64()` exact — every Go float that entered cty through `ToCtyValue`) the
test is the float32 range test itself: refused iff `|x| ≥ 2^128 − 2^103`, and what is stored is the float32 nearest to `x` -/
theorem float32_of_float64 (x f : Num) (hx : x.toF64.2 = true) (h : fromNum x (.float true) = .ok (.flt f)) :
    f = (Num.toF32 x).1 := by
  obtain ⟨f', h1, h2, _⟩ := (float_ok_iff x true (.flt f)).mp h
  cases h1
  simpa [f64to32_of_exact x hx] using h2

/-- The full-strength reading of "stores that number" for float32 — the value stored is the float32 NEAREST to the number,
what `bf.Float32()` returns — is false of the code for numbers of more than 53 significant bits: the DOUBLE-ROUNDING band. -/
def Float32StoresNearest : Prop :=
  ∀ (x f : Num), fromNum x (.float true) = .ok (.flt f) → f = (Num.toF32 x).1

/-- it holds of every number that `Float64()` represents exactly (`float32_of_float64`) -/
theorem float32StoresNearest_partial (x f : Num) (hx : x.toF64.2 = true) (h : fromNum x (.float true) = .ok (.flt f)) :
    f = (Num.toF32 x).1 := float32_of_float64 x f hx h

/-- witness: `1 + 2^-24 + 2^-60` (the decimal 1.000000059604644776 parsed by cty) lies just ABOVE the midpoint of the float32
neighbours 1 and 1 + 2^-23; `Float64()` rounds it down onto the midpoint, `float32(…)` breaks the tie to even: 1 is stored,
the nearest float32 is 1 + 2^-23 (replayed on /repo: FromCtyValue gives 8388608p-23, `Float32()` 8388609p-23) -/
theorem float32StoresNearest_counterexample : ¬ Float32StoresNearest := by
  intro h
  have h1 : fromNum (.fin false (2 ^ 60 + 2 ^ 36 + 1) (-60) 512) (.float true) = .ok (.flt (.fin false 1 0 53)) := by rfl
  have h2 := h _ _ h1
  have h3 : (Num.toF32 (.fin false (2 ^ 60 + 2 ^ 36 + 1) (-60) 512)).1 = .fin false (2 ^ 23 + 1) (-23) 53 := by rfl
  rw [h3] at h2
  exact absurd h2 (by decide)

/-- the refusal side of the band, evaluated: 2^128 − 2^103 − 2^74 rounds (to nearest) to the largest float32 and
`Float32()` would return that, but `Float64()` rounds it up onto the threshold and it is REFUSED — a number beyond
MaxFloat32, so the refusal is within the property; one unit below it is accepted and stored as MaxFloat32 -/
theorem float32_band_witnesses :
    let max32 : Num := .fin false (2 ^ 24 - 1) 104 53
    (∃ c, fromNum (.fin false (2 ^ 54 - 2 ^ 29 - 1) 74 512) (.float true) = .err c) ∧
    (Num.toF32 (.fin false (2 ^ 54 - 2 ^ 29 - 1) 74 512)).1 = max32 ∧
    fromNum (.fin false (2 ^ 128 - 2 ^ 103 - 2 ^ 74 - 1) 0 512) (.float true) = .ok (.flt max32) := by
  refine ⟨⟨_, rfl⟩, rfl, rfl⟩

example : normalNum (.fin false (2 ^ 54 - 2 ^ 29 - 1) 74 512) = true ∧
    0 ≤ Num.cmp (Num.abs (Num.toF64 (.fin false (2 ^ 54 - 2 ^ 29 - 1) 74 512)).1) thr32 := by decide
example : (Num.toF64 (Num.ofInt 16777217)).2 = true := by rfl

/-- `fromCtyList` as written in the source is the list case of the model of `fromCtyValue` (null, marks, slice and array
targets, every other target kind refused), the recursive call being the model -/
theorem generated_fromCtyList_eq (S : Sched) (ms : List String) (ety : Ty) (p : Payload) (T : GoTy) (tv : GoVal)
    (hd : T.depth = 0) (hc : T.isCval = false) (hp : p = .null ∨ ∃ cs, p = .seq cs) :
    GoctyFnsTie.er (Generated.GoctyShapeFns.fromCtyList (D18bTie.recS S) ⟨.list ety, pushMarks ms p⟩ T tv) =
      GoctyFnsTie.er (fromCtyP S ms (.list ety) p T) :=
  D18bTie.fromCtyList_tie S ms ety p T tv hd hc hp

/-- `fromCtySet` as written in the source is the set case of the model -/
theorem generated_fromCtySet_eq (S : Sched) (ms : List String) (ety : Ty) (ids : List Int) (cs : List Payload) (T : GoTy)
    (tv : GoVal) (hd : T.depth = 0) (hc : T.isCval = false) :
    GoctyFnsTie.er (Generated.GoctyShapeFns.fromCtySet (D18bTie.recS S) ⟨.set ety, pushMarks ms (.sset ids cs)⟩ T tv) =
      GoctyFnsTie.er (fromCtyP S ms (.set ety) (.sset ids cs) T) :=
  D18bTie.fromCtySet_tie S ms ety ids cs T tv hd hc

/-- `fromCtyMap` as written in the source is the map case of the model -/
theorem generated_fromCtyMap_eq (S : Sched) (ms : List String) (ety : Ty) (p : Payload) (T : GoTy) (tv : GoVal)
    (hd : T.depth = 0) (hc : T.isCval = false) (hp : p = .null ∨ ∃ ks cs, p = .smap ks cs) :
    GoctyFnsTie.er (Generated.GoctyShapeFns.fromCtyMap (D18bTie.recS S) ⟨.map ety, pushMarks ms p⟩ T tv) =
      GoctyFnsTie.er (fromCtyP S ms (.map ety) p T) :=
  D18bTie.fromCtyMap_tie S ms ety p T tv hd hc hp

/-- `fromCtyTuple` as written in the source — field count, positional loop, `CanSet` — is the tuple case of the model,
for an unmarked tuple into the zero value of every non-pointer target -/
theorem generated_fromCtyTuple_eq (S : Sched) (etys : List Ty) (cs : List Payload) (T : GoTy)
    (hd : T.depth = 0) (hc : T.isCval = false) (hwf : cs.length = etys.length) :
    GoctyFnsTie.er (Generated.GoctyShapeFns.fromCtyTuple (D18bTie.recS S) ⟨.tuple etys, .seq cs⟩ T (zeroVal T)) =
      GoctyFnsTie.er (fromCtyP S [] (.tuple etys) (.seq cs) T) :=
  D18bTie.fromCtyTuple_tie S etys cs T hd hc hwf

/-- `fromCtyObject` as written in the source is the object case of the model (unmarked object; `S 0` = the order in which
Go visits this object's attributes, `S.next` the schedule below).  Only the dispatch on the target's kind and the composition
"missing-attribute check, then the attribute loop" are translated here: the two loops range over Go maps and are PINNED
REGIONS whose meaning is written in the model's own vocabulary (an edit inside them fails closed instead of failing a proof) -/
theorem generated_fromCtyObject_eq (S : Sched) (names : List String) (atys : List Ty) (opt : List Bool) (cs : List Payload)
    (T : GoTy) (hd : T.depth = 0) (hc : T.isCval = false) :
    GoctyFnsTie.er (Generated.GoctyShapeFns.fromCtyObject (D18bTie.recS S.next) (S 0) ⟨.object names atys opt, .smap names cs⟩ T
      (zeroVal T)) = GoctyFnsTie.er (fromCtyP S [] (.object names atys opt) (.smap names cs) T) :=
  D18bTie.fromCtyObject_tie S names atys opt cs T hd hc

/-- `fromCtyValue` as written in the source — with the translated decoders it dispatches to — is the model of `FromCtyValue`
on every known, non-null, kind-correct value without a mark at the top, into every target whose pointee is not `cty.Value`
(at any pointer depth); the recursive calls are the model itself (`recFor`: an object hands the next schedule down) -/
theorem generated_fromCtyValue_eq (S : Sched) (ty : Ty) (p : Payload) (T : GoTy) (tv : GoVal)
    (hc : T.base.isCval = false) (hk : kindOK ty p = true)
    (hwf : ∀ etys cs, ty = .tuple etys → p = .seq cs → cs.length = etys.length) :
    GoctyFnsTie.er (Generated.GoctyShapeFns.fromCtyValue (D18bTie.recFor S ty) (S 0) ⟨ty, p⟩ T tv) =
      GoctyFnsTie.er (fromCtyP S [] ty p T) :=
  D18bTie.fromCtyValue_tie S ty p T tv hc hk hwf

/-- … and with marks: the value carries the marks `ms` (its own or pushed down from its containers).  A marked scalar, list,
set or map panics in the accessor its decoder calls first, a marked tuple or object hands its marks to the members
(`val.Index` / `val.GetAttr`) — in the translated source exactly as in the model (`marked_can_panic`,
`schedule_matters_marked_counterexample` are therefore statements about the source text too) -/
theorem generated_fromCtyValue_eq_marked (S : Sched) (ms : List String) (ty : Ty) (p : Payload) (T : GoTy) (tv : GoVal)
    (hc : T.base.isCval = false) (hk : kindOK ty p = true)
    (hwf : ∀ etys cs, ty = .tuple etys → p = .seq cs → cs.length = etys.length) :
    GoctyFnsTie.er (Generated.GoctyShapeFns.fromCtyValue (D18bTie.recFor S ty) (S 0) ⟨ty, pushMarks ms p⟩ T tv) =
      GoctyFnsTie.er (fromCtyP S ms ty p T) :=
  D18bTie.fromCtyValue_tie_marked S ms ty p T tv hc hk hwf

/-- … and its three guards are the model's, for ANY recursive decoder, with the marks pushed down from the containers:
a `cty.Value` pointee receives the value as it is (exactly, unknown / null / marked alike); null goes through the last
pointer; an unknown value is refused -/
theorem generated_fromCtyValue_guards (S : Sched) (rec : GoctyGo.Rec) (ord : List String → List String) (ms : List String) (ty : Ty)
    (p : Payload) (T : GoTy) (tv : GoVal) (hm : p.isMarked = false) :
    (T.base.isCval = true → Generated.GoctyShapeFns.fromCtyValue rec ord ⟨ty, pushMarks ms p⟩ T tv = fromCtyP S ms ty p T) ∧
    (T.base.isCval = false → p = .null → nullViaPtr ty = true →
      GoctyFnsTie.er (Generated.GoctyShapeFns.fromCtyValue rec ord ⟨ty, pushMarks ms p⟩ T tv) = GoctyFnsTie.er (fromCtyP S ms ty p T)) ∧
    (T.base.isCval = false → (∃ r, p = .unk r) →
      GoctyFnsTie.er (Generated.GoctyShapeFns.fromCtyValue rec ord ⟨ty, pushMarks ms p⟩ T tv) = GoctyFnsTie.er (fromCtyP S ms ty p T)) :=
  D18bTie.fromCtyValue_tie_guards S rec ord ms ty p T tv hm

/-- `errors_unknown` and `errors_null_nonnilable`, about the translated source and for ANY behaviour of the recursive call:
in out.go an unknown value (marked or not) is refused before any decoder is chosen, and a null (of a type other than list,
map, capsule) is refused by a non-pointer target and otherwise sets the last pointer to nil -/
theorem errors_unknown_null_generated (rec : GoctyGo.Rec) (ord : List String → List String) (v : Value) (T : GoTy) (tv : GoVal)
    (hc : T.base.isCval = false) :
    (v.isKnown = false → GoctyFnsTie.er (Generated.GoctyShapeFns.fromCtyValue rec ord v T tv) = .err "") ∧
    (v.isNull = true → nullViaPtr v.ty = true →
      GoctyFnsTie.er (Generated.GoctyShapeFns.fromCtyValue rec ord v T tv) =
        if T.depth = 0 then .err "" else .ok (wrapPtr (T.depth - 1) .nilPtr)) :=
  ⟨fun hk => D18bTie.fromCtyValue_unknown rec ord v T tv hc hk, fun hn hv => D18bTie.fromCtyValue_null rec ord v T tv hc hn hv⟩

/-- `array_length_rule`, about the translated source and for ANY behaviour of the recursive call: in out.go the
`length != target.Len()` tests of `fromCtyList` and `fromCtySet` come before the element loops, and `fromCtyTuple` compares
the field count first — a wrong length is refused before a single member is looked at -/
theorem array_length_rule_generated (rec : GoctyGo.Rec) (ety : Ty) (etys : List Ty) (ids : List Int) (cs : List Payload) (p : Payload)
    (n : Nat) (E : GoTy) (tags : List String) (tys : List GoTy) (tv : GoVal) :
    (cs.length ≠ n → (∃ c, Generated.GoctyShapeFns.fromCtyList rec ⟨.list ety, .seq cs⟩ (.array n E) tv = .err c) ∧
                     (∃ c, Generated.GoctyShapeFns.fromCtySet rec ⟨.set ety, .sset ids cs⟩ (.array n E) tv = .err c)) ∧
    (tys.length ≠ etys.length → ∃ c, Generated.GoctyShapeFns.fromCtyTuple rec ⟨.tuple etys, p⟩ (.struct tags tys) tv = .err c) :=
  ⟨fun hl => ⟨D18bTie.fromCtyList_array_len rec ety cs n E tv hl, D18bTie.fromCtySet_array_len rec ety ids cs n E tv hl⟩,
   fun hl => D18bTie.fromCtyTuple_field_count rec etys p tags tys tv hl⟩

/-- a marked list, set or map panics in the translated source as in the model (`marked_can_panic`), whatever its members -/
theorem marked_container_panics_generated (rec : GoctyGo.Rec) (ms : List String) (ety : Ty) (cs : List Payload) (ks : List String)
    (ids : List Int) (E : GoTy) (tv : GoVal) :
    GoctyFnsTie.er (Generated.GoctyShapeFns.fromCtyList rec ⟨.list ety, .marked ms (.seq cs)⟩ (.slice E) tv) = .panic "" ∧
    GoctyFnsTie.er (Generated.GoctyShapeFns.fromCtySet rec ⟨.set ety, .marked ms (.sset ids cs)⟩ (.slice E) tv) = .panic "" ∧
    GoctyFnsTie.er (Generated.GoctyShapeFns.fromCtyMap rec ⟨.map ety, .marked ms (.smap ks cs)⟩ (.map E) tv) = .panic "" :=
  D18bTie.marked_container_panics rec ms ety cs ks ids E tv

-- the hypotheses are met by non-trivial instances; the statements evaluated
example (S : Sched) : ∃ c, fromCtyS S ⟨.list .number, .seq []⟩ (.ptr (.array 2 (.int .w8 true))) = .err c :=
  ((array_length_rule S .number [] [] (.ptr (.array 2 (.int .w8 true))) 2 (.int .w8 true) rfl).2.2 (by decide)).1
example (S : Sched) : fromCtyS S ⟨.map .string, .smap ["a", "b"] [.null, .s "x"]⟩ (.map (.ptr .str)) =
    .ok (.map ["a", "b"] [.nilPtr, .ptr (.str "x")]) := by rfl
example : nullViaPtr .string = true ∧ (GoTy.str).base.isCval = false ∧ (GoTy.map (.ptr .str)).base = .map (.ptr .str) := ⟨rfl, rfl, rfl⟩
example (S : Sched) : ∃ x, toCty id (.bigInt (2 ^ 200 + 1)) .number = .ok ⟨.number, .n x⟩ ∧ IsTheInt x (2 ^ 200 + 1) :=
  let ⟨x, h1, _, h2, _⟩ := bigInt_tocty_exact S id (2 ^ 200 + 1); ⟨x, h1, h2⟩
example (S : Sched) : Generated.GoctyShapeFns.fromCtyList (D18bTie.recS S) ⟨.list .number, .seq [.n (Num.ofInt 1), .n (Num.ofInt 2)]⟩
    (.array 2 (.int .w8 true)) (zeroVal (.array 2 (.int .w8 true))) = .ok (.arr [.int 1, .int 2]) := by rfl
example (S : Sched) : Generated.GoctyShapeFns.fromCtyList (D18bTie.recS S) ⟨.list .number, .seq []⟩
    (.array 2 (.int .w8 true)) (zeroVal (.array 2 (.int .w8 true))) = .err "must be a list of length %d" := by rfl
example (S : Sched) : Generated.GoctyShapeFns.fromCtyTuple (D18bTie.recS S) ⟨.tuple [.string, .number], .seq [.s "a", .n (Num.ofInt 7)]⟩
    (.struct ["", ""] [.str, .int .w8 true]) (zeroVal (.struct ["", ""] [.str, .int .w8 true])) =
    .ok (.struct ["", ""] [.str "a", .int 7]) := by rfl

example (S : Sched) : Generated.GoctyShapeFns.fromCtyValue (D18bTie.recS S) (S 0)
    ⟨.list .number, .seq [.n (Num.ofInt 1), .null]⟩ (.ptr (.slice (.ptr (.int .w8 true)))) .nilPtr =
    .ok (.ptr (.slice [.ptr (.int 1), .nilPtr])) := by rfl
example : kindOK (.list .number) (.seq [.n (Num.ofInt 1), .null]) = true ∧ (GoTy.ptr (.slice (.ptr (.int .w8 true)))).base.isCval = false :=
  ⟨rfl, rfl⟩
example (S : Sched) : Generated.GoctyShapeFns.fromCtyValue (D18bTie.recS S) (S 0) ⟨.string, .unk .unref⟩ (.ptr .str) .nilPtr =
    .err "value must be known" := by rfl

example (S : Sched) : GoctyFnsTie.er (Generated.GoctyShapeFns.fromCtyValue (D18bTie.recS S) (S 0)
    ⟨.tuple [.string], pushMarks ["m"] (.seq [.s "a"])⟩ (.struct [""] [.str]) (zeroVal (.struct [""] [.str]))) = .panic "" := by rfl
example : kindOK (.tuple [.string]) (.seq [.s "a"]) = true := rfl

end C18
end CtyModel
