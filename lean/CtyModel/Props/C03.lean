/-
C03 — Equality is a coherent equivalence that agrees with hashing and sets.

Property theorems only; helper lemmas live in `CtyModel/Lemmas`.
-/
import CtyModel.Lemmas.SetRefineRun
namespace CtyModel
namespace C03

/-! ########################################################################
## SECTION «cty/set» — the generic hash-bucket set (`SetImpl`), any `Rules`

Clause of C03 covered here: *"a set never holds two equal members, holds
exactly the distinct values it was built from whatever the insertion order,
iterates in an order that depends only on its members, and its membership,
union, intersection, difference and symmetric-difference results are those of
the mathematical sets of its members"* — for ALL histories of
add / remove / copy / has / length / values / set-algebra calls.

Everything is stated for an arbitrary `R : Rules α` that is `Lawful`
(`Equivalent` is an equivalence relation and equivalent values hash alike —
the contract written in `cty/set/rules.go`).  That cty's own value rules are
lawful is a separate matter (`cty_rules_lawful_partial`, elsewhere in C03).
`SetImpl.*` are the transliterations of `cty/set/ops.go` that the
correspondence harness (`harness/c03set.go`) diffs against the real
`set.Set[int]`, bucket layout included.
######################################################################## -/
section SetSlice
open SetImpl
variable {α : Type} {R : Rules α}

/-! ### `set_inv` — the representation invariant -/

/-- `NewSet` establishes the invariant: bucket ids strictly ascending, no empty
bucket, every member in the bucket of its hash, no two equivalent members. -/
theorem set_inv_empty : Inv R (empty : SetImpl α) := inv_empty R

/-- `Add`, `Remove`, `Copy` preserve the invariant. -/
theorem set_inv_mutators (hR : R.Lawful) {s : SetImpl α} (h : Inv R s) (x : α) :
    Inv R (add R s x) ∧ Inv R (remove R s x) ∧ Inv R (copy s) :=
  ⟨(invB_add hR (h.toB hR) x).toInv hR, (invB_remove (h.toB hR) x).toInv hR,
    by rw [copy_eq_self (h.toB hR)]; exact h⟩

/-- `Union`, `Intersection`, `Subtract`, `SymmetricDifference` return sets that
satisfy the invariant (they are built by `Add` into a fresh set, so this needs
nothing of the operands). -/
theorem set_inv_algebra (hR : R.Lawful) (s1 s2 : SetImpl α) :
    Inv R (union R s1 s2) ∧ Inv R (intersection R s1 s2) ∧ Inv R (subtract R s1 s2) ∧
      Inv R (symmetricDifference R s1 s2) ∧ ∀ l, Inv R (fromList R l) :=
  ⟨(invB_union hR s1 s2).toInv hR, (invB_intersection hR s1 s2).toInv hR,
    (invB_subtract hR s1 s2).toInv hR, (invB_symmetricDifference hR s1 s2).toInv hR,
    fun l => (invB_fromList hR l).toInv hR⟩

/-- **All histories.**  Whatever sequence of API calls is applied to a file of
set variables that satisfy the invariant, every set variable satisfies it
afterwards (induction over `List SetOp`). -/
theorem set_inv (hR : R.Lawful) (ops : List (SetOp α)) (st : List (SetImpl α))
    (h : ∀ i, Inv R (getReg st i)) : ∀ i, Inv R (getReg (runRegs R ops st).1 i) :=
  fun i => (allInv_runRegs hR ops (fun j => (h j).toB hR) i).toInv hR

/-- …in particular for every history started from nothing but empty sets, and
for every history started on one valid set. -/
theorem set_inv_from_empty (hR : R.Lawful) (ops : List (SetOp α)) :
    ∀ i, Inv R (getReg (runRegs R ops []).1 i) :=
  fun i => (allInv_runRegs hR ops (allInv_nil R) i).toInv hR

theorem set_inv_run (hR : R.Lawful) (ops : List (SetOp α)) {s : SetImpl α} (h : Inv R s) :
    Inv R (run R ops s).1 :=
  (allInv_runRegs hR ops (allInv_singleton (h.toB hR)) 0).toInv hR

/-- "A set never holds two equal members", read off the invariant: any two
different positions of the member list hold inequivalent values. -/
theorem set_no_two_equivalent_members {s : SetImpl α} (h : Inv R s) (i j : Nat)
    (hij : i < j) (hj : j < (values s).length) :
    R.equiv ((values s)[i]'(Nat.lt_trans hij hj)) ((values s)[j]'hj) = false :=
  (List.pairwise_iff_getElem.mp h.nodup) i j (Nat.lt_trans hij hj) hj hij

/-! ### `set_refines` — results are those of the mathematical sets

`abs R s` is the mathematical set a representation stands for: the values
equivalent to some member. -/

/-- `Has` decides membership. -/
theorem set_refines_has (hR : R.Lawful) {s : SetImpl α} (h : Inv R s) (x : α) :
    has R s x = true ↔ abs R s x := has_iff_abs hR (h.toB hR) x

/-- `Add` inserts the class of `x`, `Remove` deletes it, `Copy` changes nothing,
the empty set is empty. -/
theorem set_refines_mutators (hR : R.Lawful) {s : SetImpl α} (h : Inv R s) (x y : α) :
    (abs R (add R s x) y ↔ abs R s y ∨ R.equiv y x = true) ∧
    (abs R (remove R s x) y ↔ abs R s y ∧ ¬ R.equiv y x = true) ∧
    (abs R (copy s) y ↔ abs R s y) ∧
    ¬ abs R (empty : SetImpl α) y :=
  ⟨abs_add hR (h.toB hR) x y, abs_remove hR (h.toB hR) x y,
    by rw [copy_eq_self (h.toB hR)], abs_empty R y⟩

/-- `Union` = ∪, `Intersection` = ∩, `Subtract` = ∖, `SymmetricDifference` = △. -/
theorem set_refines_algebra (hR : R.Lawful) {s1 s2 : SetImpl α} (h1 : Inv R s1) (h2 : Inv R s2)
    (y : α) :
    (abs R (union R s1 s2) y ↔ abs R s1 y ∨ abs R s2 y) ∧
    (abs R (intersection R s1 s2) y ↔ abs R s1 y ∧ abs R s2 y) ∧
    (abs R (subtract R s1 s2) y ↔ abs R s1 y ∧ ¬ abs R s2 y) ∧
    (abs R (symmetricDifference R s1 s2) y ↔
      (abs R s1 y ∧ ¬ abs R s2 y) ∨ (abs R s2 y ∧ ¬ abs R s1 y)) :=
  ⟨abs_union hR s1 s2 y, abs_intersection hR s1 (h2.toB hR) y, abs_subtract hR s1 (h2.toB hR) y,
    abs_symmetricDifference hR (h1.toB hR) (h2.toB hR) y⟩

/-- `Length` is the number of equivalence classes represented: it is the length
of the member list, whose entries are pairwise inequivalent, and it equals the
length of *any* duplicate-free list of representatives of the same set — so two
representations of one mathematical set have the same `Length`. -/
theorem set_refines_length (hR : R.Lawful) {s : SetImpl α} (h : Inv R s) :
    length s = (values s).length ∧ Inequiv R (values s) ∧
    (∀ reps, Represents R reps (abs R s) → length s = reps.length) ∧
    (∀ s', Inv R s' → (∀ y, abs R s y ↔ abs R s' y) → length s = length s') :=
  ⟨length_eq_values_length s, h.nodup, fun _ hr => length_eq_of_represents hR h hr,
    fun _ h' he => length_eq_of_abs_eq hR h h' he⟩

/-- `Values()` (sorted or not) lists one representative of every class once. -/
theorem set_refines_values (hR : R.Lawful) {s : SetImpl α} (h : Inv R s) :
    Represents R (iter R s) (abs R s) ∧ (iter R s).Perm (values s) :=
  ⟨represents_iter hR (h.toB hR), iter_perm R s⟩

/-- "Holds exactly the distinct values it was built from whatever the insertion
order": a set built from a list represents exactly the classes of the list's
elements; any permutation of the list gives the same mathematical set and the
same `Length`. -/
theorem set_built_order_indep (hR : R.Lawful) (l l' : List α) (hp : l.Perm l') :
    (∀ y, abs R (fromList R l) y ↔ ∃ x ∈ l, R.equiv y x = true) ∧
    (∀ y, abs R (fromList R l) y ↔ abs R (fromList R l') y) ∧
    length (fromList R l) = length (fromList R l') :=
  ⟨abs_fromList hR l, abs_fromList_perm hR hp, length_fromList_perm hR hp⟩

/-- **All histories.**  For every sequence of API calls on valid sets, the final
mathematical sets are those obtained by running the mathematical operations
(`specRun`), and every value returned on the way (`Has` → the membership truth
value, `Length` → the number of classes, `Values` → a duplicate-free list of
representatives) is the one the mathematical sets dictate (`OutsOk`). -/
theorem set_refines (hR : R.Lawful) (ops : List (SetOp α)) (st : List (SetImpl α))
    (h : ∀ i, Inv R (getReg st i)) :
    absRegs R (runRegs R ops st).1 = specRun R ops (absRegs R st) ∧
      OutsOk R (absRegs R st) ops (runRegs R ops st).2 :=
  runRegs_refines hR ops (fun j => (h j).toB hR)

/-! ### iteration order -/

/-- If `less` is a strict order on the members that is total between
inequivalent members, the sorted iteration order (`Values()` under
`OrderedRules`) is a function of the member multiset alone: two sets whose
members agree up to permutation — hence whatever the insertion order, bucket
layout or history that produced them — iterate identically. -/
theorem values_order_indep_of_total (less : α → α → Bool) {s1 s2 : SetImpl α}
    (h1 : Inv R s1) (hp : (values s1).Perm (values s2))
    (ht : StrictTotalOn R less (values s1)) :
    valuesSorted less s1 = valuesSorted less s2 :=
  valuesSorted_eq_of_perm less h1.nodup hp ht

/-- …and so for sets built from the same pairwise-inequivalent inputs in any order. -/
theorem values_order_indep_of_insertion (hR : R.Lawful) (less : α → α → Bool) {l l' : List α}
    (hl : Inequiv R l) (hp : l.Perm l') (ht : StrictTotalOn R less l) :
    valuesSorted less (fromList R l) = valuesSorted less (fromList R l') := by
  have p1 := values_fromList_perm hR hl
  have p2 := values_fromList_perm hR (inequiv_perm hR hp hl)
  refine valuesSorted_eq_of_perm less (inequiv_perm hR p1.symm hl) (p1.trans (hp.trans p2.symm)) ?_
  exact ⟨fun a ha => ht.irrefl a (p1.mem_iff.mp ha),
    fun a ha b hb c hc => ht.trans a (p1.mem_iff.mp ha) b (p1.mem_iff.mp hb) c (p1.mem_iff.mp hc),
    fun a ha b hb => ht.total a (p1.mem_iff.mp ha) b (p1.mem_iff.mp hb)⟩

/-- The totality hypothesis is needed.  With a `less` that leaves two
inequivalent members of one bucket unordered (`Sample.ordTies`: 0 and 3 tie),
the stable sort keeps bucket order, which is insertion order: the same two
members iterate as `[0, 3]` or `[3, 0]` depending on which was added first. -/
theorem values_order_counterexample :
    let R := Sample.ordTies
    let s1 := fromList R [0, 3]
    let s2 := fromList R [3, 0]
    Inv R s1 ∧ Inv R s2 ∧ (values s1).Perm (values s2) ∧
      iter R s1 = [0, 3] ∧ iter R s2 = [3, 0] ∧ iter R s1 ≠ iter R s2 := by
  refine ⟨⟨?_, ?_, ?_, ?_⟩, ⟨?_, ?_, ?_, ?_⟩, ?_, ?_, ?_, ?_⟩ <;> decide

/-! ### copy -/

/-- `Copy` returns an equal set (same buckets, same members, same abstract set).
This is a statement about the *content*: in Go the copy shares the bucket slices
with the receiver, and a later `Add` to both can write the same spare-capacity
slot of a shared backing array.  That aliasing hazard is outside this model
(`copy` is the snapshot) and belongs to C20 (`valueset_copy_add_counterexample`);
the C03 harness reports it separately under the signature
`copy-shares-bucket-array`. -/
theorem copy_is_snapshot {s : SetImpl α} (h : Inv R s) : copy s = s := copy_eq h.asc

/-! ### the hypotheses are satisfiable, and needed -/

theorem sample_m3e6_lawful : Sample.m3e6.Lawful := by
  refine ⟨?_, ?_, ?_, ?_⟩ <;> simp only [Sample.m3e6, beq_iff_eq] <;> intros <;> first | trivial | omega

theorem sample_m2e12_lawful : Sample.m2e12.Lawful := by
  refine ⟨?_, ?_, ?_, ?_⟩ <;> simp only [Sample.m2e12, beq_iff_eq] <;> intros <;> first | trivial | omega

theorem sample_ordTotal_lawful : Sample.ordTotal.Lawful := by
  refine ⟨?_, ?_, ?_, ?_⟩ <;> simp only [Sample.ordTotal, beq_iff_eq] <;> intros <;> first | trivial | omega

theorem sample_ordTies_lawful : Sample.ordTies.Lawful := by
  refine ⟨?_, ?_, ?_, ?_⟩ <;> simp only [Sample.ordTies, beq_iff_eq] <;> intros <;> first | trivial | omega

/-- `Sample.ordTotal`'s order is strict and total between inequivalent values, on
any member list. -/
theorem sample_ordTotal_total (l : List Int) :
    StrictTotalOn Sample.ordTotal (fun a b => b % 6 < a % 6) l := by
  refine ⟨?_, ?_, ?_⟩
  · intro a _; simp
  · intro a _ b _ c _; simp only [decide_eq_true_eq]; omega
  · intro a _ b _; simp only [Sample.ordTotal, decide_eq_true_eq, beq_eq_false_iff_ne, ne_eq]; omega

/-- a concrete history with collisions, removals, copies and algebra, and what it returns -/
example :
    (runRegs Sample.m3e6
      [.add 0 0, .add 0 3, .add 0 6, .add 0 1, .copy 1 0, .remove 0 9, .add 1 4, .has 0 3,
       .has 1 15, .union 2 0 1, .symmetricDifference 3 0 1, .length 2, .values 3] []) =
    ([⟨[(-1, [0]), (0, [1])]⟩, ⟨[(-1, [0, 3]), (0, [1, 4])]⟩, ⟨[(-1, [0, 3]), (0, [1, 4])]⟩,
      ⟨[(-1, [3]), (0, [4])]⟩],
     [.none, .none, .none, .none, .none, .none, .none, .bool false, .bool true, .none, .none,
      .nat 4, .list [3, 4]]) := by decide

example : valuesSorted (fun a b => b % 6 < a % 6) (fromList Sample.ordTotal [0, 3, 1, 5]) =
    valuesSorted (fun a b => b % 6 < a % 6) (fromList Sample.ordTotal [5, 1, 3, 0]) :=
  values_order_indep_of_insertion sample_ordTotal_lawful _ (by decide) (by decide)
    (sample_ordTotal_total _)

/-- Lawfulness matters: `Sample.unlawful` calls 0 and 2 equivalent but hashes them
to different buckets — it is not lawful, and the set built from `[0, 2]` holds
both (two members for one class: `Length` 2, the invariant fails), although
`Add` did scan for an equivalent member. -/
theorem unlawful_rules_counterexample :
    let R := Sample.unlawful
    let s := fromList R [0, 2]
    ¬ R.Lawful ∧ R.equiv 0 2 = true ∧ values s = [0, 2] ∧ length s = 2 ∧ ¬ Inv R s := by
  refine ⟨?_, by decide, by decide, by decide, ?_⟩
  · intro h
    exact absurd (h.hash_eq 0 2 (by decide)) (by decide)
  · intro h
    have := set_no_two_equivalent_members h 0 1 (by decide) (by decide)
    revert this
    decide

end SetSlice
/-! ######################## end of SECTION «cty/set» ######################## -/

end C03
end CtyModel
