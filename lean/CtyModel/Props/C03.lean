/-
C03 — Equality is a coherent equivalence that agrees with hashing and sets.

Property theorems only; helper lemmas live in `CtyModel/Lemmas`.
-/
import CtyModel.Lemmas.d03Rules
import CtyModel.Lemmas.d03Marks
import CtyModel.Lemmas.d03SetVal
import CtyModel.Lemmas.SetRefineRun
import CtyModel.Lemmas.SetFnsTie
import CtyModel.Lemmas.ValEqRules
import CtyModel.Lemmas.ValEqSymm
import CtyModel.Lemmas.d03bLess
import CtyModel.Lemmas.d03bCaps
import CtyModel.Lemmas.d03bEncTop
import CtyModel.Lemmas.d03bEqFull
import CtyModel.Lemmas.d03bConv
namespace CtyModel
namespace C03

/-! ########################################################################
## SECTION «cty/set» — the generic hash-bucket set (`SetImpl`), any `Rules`

Clause of C03 covered here: *"a set never holds two equal members, holds
exactly the distinct values it was built from whatever the insertion order,
iterates in an order that depends only on its members, and its membership,
union, intersection, difference and symmetric-difference results are those of
the mathematical sets of its members"* — for ALL histories of
add / remove / copy / has / length / values / set-algebra calls.

Everything is stated for an arbitrary `R : Rules α` that is `Lawful`
(`Equivalent` is an equivalence relation and equivalent values hash alike —
the contract written in `cty/set/rules.go`).  That cty's own value rules are
lawful is a separate matter (`cty_rules_lawful_partial`, elsewhere in C03).
`SetImpl.*` are the transliterations of `cty/set/ops.go` that the
correspondence harness (`harness/c03set.go`) diffs against the real
`set.Set[int]`, bucket layout included.
######################################################################## -/
section SetSlice
open SetImpl
variable {α : Type} {R : Rules α}

/-! ### `set_inv` — the representation invariant -/

/-- `NewSet` establishes the invariant: bucket ids strictly ascending, no empty
bucket, every member in the bucket of its hash, no two equivalent members. -/
theorem set_inv_empty : Inv R (empty : SetImpl α) := inv_empty R

/-- `Add`, `Remove`, `Copy` preserve the invariant. -/
theorem set_inv_mutators (hR : R.Lawful) {s : SetImpl α} (h : Inv R s) (x : α) :
    Inv R (add R s x) ∧ Inv R (remove R s x) ∧ Inv R (copy s) :=
  ⟨(invB_add hR (h.toB hR) x).toInv hR, (invB_remove (h.toB hR) x).toInv hR,
    by rw [copy_eq_self (h.toB hR)]; exact h⟩

/-- `Union`, `Intersection`, `Subtract`, `SymmetricDifference` return sets that
satisfy the invariant (they are built by `Add` into a fresh set, so this needs
nothing of the operands). -/
theorem set_inv_algebra (hR : R.Lawful) (s1 s2 : SetImpl α) :
    Inv R (union R s1 s2) ∧ Inv R (intersection R s1 s2) ∧ Inv R (subtract R s1 s2) ∧
      Inv R (symmetricDifference R s1 s2) ∧ ∀ l, Inv R (fromList R l) :=
  ⟨(invB_union hR s1 s2).toInv hR, (invB_intersection hR s1 s2).toInv hR,
    (invB_subtract hR s1 s2).toInv hR, (invB_symmetricDifference hR s1 s2).toInv hR,
    fun l => (invB_fromList hR l).toInv hR⟩

/-- **All histories.**  Whatever sequence of API calls is applied to a file of
set variables that satisfy the invariant, every set variable satisfies it
afterwards (induction over `List SetOp`). -/
theorem set_inv (hR : R.Lawful) (ops : List (SetOp α)) (st : List (SetImpl α))
    (h : ∀ i, Inv R (getReg st i)) : ∀ i, Inv R (getReg (runRegs R ops st).1 i) :=
  fun i => (allInv_runRegs hR ops (fun j => (h j).toB hR) i).toInv hR

/-- …in particular for every history started from nothing but empty sets, and
for every history started on one valid set. -/
theorem set_inv_from_empty (hR : R.Lawful) (ops : List (SetOp α)) :
    ∀ i, Inv R (getReg (runRegs R ops []).1 i) :=
  fun i => (allInv_runRegs hR ops (allInv_nil R) i).toInv hR

theorem set_inv_run (hR : R.Lawful) (ops : List (SetOp α)) {s : SetImpl α} (h : Inv R s) :
    Inv R (run R ops s).1 :=
  (allInv_runRegs hR ops (allInv_singleton (h.toB hR)) 0).toInv hR

/-- "A set never holds two equal members", read off the invariant: any two
different positions of the member list hold inequivalent values. -/
theorem set_no_two_equivalent_members {s : SetImpl α} (h : Inv R s) (i j : Nat)
    (hij : i < j) (hj : j < (values s).length) :
    R.equiv ((values s)[i]'(Nat.lt_trans hij hj)) ((values s)[j]'hj) = false :=
  (List.pairwise_iff_getElem.mp h.nodup) i j (Nat.lt_trans hij hj) hj hij

/-! ### `set_refines` — results are those of the mathematical sets

`abs R s` is the mathematical set a representation stands for: the values
equivalent to some member. -/

/-- `Has` decides membership. -/
theorem set_refines_has (hR : R.Lawful) {s : SetImpl α} (h : Inv R s) (x : α) :
    has R s x = true ↔ abs R s x := has_iff_abs hR (h.toB hR) x

/-- `Add` inserts the class of `x`, `Remove` deletes it, `Copy` changes nothing,
the empty set is empty. -/
theorem set_refines_mutators (hR : R.Lawful) {s : SetImpl α} (h : Inv R s) (x y : α) :
    (abs R (add R s x) y ↔ abs R s y ∨ R.equiv y x = true) ∧
    (abs R (remove R s x) y ↔ abs R s y ∧ ¬ R.equiv y x = true) ∧
    (abs R (copy s) y ↔ abs R s y) ∧
    ¬ abs R (empty : SetImpl α) y :=
  ⟨abs_add hR (h.toB hR) x y, abs_remove hR (h.toB hR) x y,
    by rw [copy_eq_self (h.toB hR)], abs_empty R y⟩

/-- `Union` = ∪, `Intersection` = ∩, `Subtract` = ∖, `SymmetricDifference` = △. -/
theorem set_refines_algebra (hR : R.Lawful) {s1 s2 : SetImpl α} (h1 : Inv R s1) (h2 : Inv R s2)
    (y : α) :
    (abs R (union R s1 s2) y ↔ abs R s1 y ∨ abs R s2 y) ∧
    (abs R (intersection R s1 s2) y ↔ abs R s1 y ∧ abs R s2 y) ∧
    (abs R (subtract R s1 s2) y ↔ abs R s1 y ∧ ¬ abs R s2 y) ∧
    (abs R (symmetricDifference R s1 s2) y ↔
      (abs R s1 y ∧ ¬ abs R s2 y) ∨ (abs R s2 y ∧ ¬ abs R s1 y)) :=
  ⟨abs_union hR s1 s2 y, abs_intersection hR s1 (h2.toB hR) y, abs_subtract hR s1 (h2.toB hR) y,
    abs_symmetricDifference hR (h1.toB hR) (h2.toB hR) y⟩

/-- `Length` is the number of equivalence classes represented: it is the length
of the member list, whose entries are pairwise inequivalent, and it equals the
length of *any* duplicate-free list of representatives of the same set — so two
representations of one mathematical set have the same `Length`. -/
theorem set_refines_length (hR : R.Lawful) {s : SetImpl α} (h : Inv R s) :
    length s = (values s).length ∧ Inequiv R (values s) ∧
    (∀ reps, Represents R reps (abs R s) → length s = reps.length) ∧
    (∀ s', Inv R s' → (∀ y, abs R s y ↔ abs R s' y) → length s = length s') :=
  ⟨length_eq_values_length s, h.nodup, fun _ hr => length_eq_of_represents hR h hr,
    fun _ h' he => length_eq_of_abs_eq hR h h' he⟩

/-- `Values()` (sorted or not) lists one representative of every class once. -/
theorem set_refines_values (hR : R.Lawful) {s : SetImpl α} (h : Inv R s) :
    Represents R (iter R s) (abs R s) ∧ (iter R s).Perm (values s) :=
  ⟨represents_iter hR (h.toB hR), iter_perm R s⟩

/-- "Holds exactly the distinct values it was built from whatever the insertion
order": a set built from a list represents exactly the classes of the list's
elements; any permutation of the list gives the same mathematical set and the
same `Length`. -/
theorem set_built_order_indep (hR : R.Lawful) (l l' : List α) (hp : l.Perm l') :
    (∀ y, abs R (fromList R l) y ↔ ∃ x ∈ l, R.equiv y x = true) ∧
    (∀ y, abs R (fromList R l) y ↔ abs R (fromList R l') y) ∧
    length (fromList R l) = length (fromList R l') :=
  ⟨abs_fromList hR l, abs_fromList_perm hR hp, length_fromList_perm hR hp⟩

/-- **All histories.**  For every sequence of API calls on valid sets, the final
mathematical sets are those obtained by running the mathematical operations
(`specRun`), and every value returned on the way (`Has` → the membership truth
value, `Length` → the number of classes, `Values` → a duplicate-free list of
representatives) is the one the mathematical sets dictate (`OutsOk`). -/
theorem set_refines (hR : R.Lawful) (ops : List (SetOp α)) (st : List (SetImpl α))
    (h : ∀ i, Inv R (getReg st i)) :
    absRegs R (runRegs R ops st).1 = specRun R ops (absRegs R st) ∧
      OutsOk R (absRegs R st) ops (runRegs R ops st).2 :=
  runRegs_refines hR ops (fun j => (h j).toB hR)

/-! ### iteration order -/

/-- If `less` is a strict order on the members that is total between
inequivalent members, the sorted iteration order (`Values()` under
`OrderedRules`) is a function of the member multiset alone: two sets whose
members agree up to permutation — hence whatever the insertion order, bucket
layout or history that produced them — iterate identically. -/
theorem values_order_indep_of_total (less : α → α → Bool) {s1 s2 : SetImpl α}
    (h1 : Inv R s1) (hp : (values s1).Perm (values s2))
    (ht : StrictTotalOn R less (values s1)) :
    valuesSorted less s1 = valuesSorted less s2 :=
  valuesSorted_eq_of_perm less h1.nodup hp ht

/-- …and so for sets built from the same pairwise-inequivalent inputs in any order. -/
theorem values_order_indep_of_insertion (hR : R.Lawful) (less : α → α → Bool) {l l' : List α}
    (hl : Inequiv R l) (hp : l.Perm l') (ht : StrictTotalOn R less l) :
    valuesSorted less (fromList R l) = valuesSorted less (fromList R l') := by
  have p1 := values_fromList_perm hR hl
  have p2 := values_fromList_perm hR (inequiv_perm hR hp hl)
  refine valuesSorted_eq_of_perm less (inequiv_perm hR p1.symm hl) (p1.trans (hp.trans p2.symm)) ?_
  exact ⟨fun a ha => ht.irrefl a (p1.mem_iff.mp ha),
    fun a ha b hb c hc => ht.trans a (p1.mem_iff.mp ha) b (p1.mem_iff.mp hb) c (p1.mem_iff.mp hc),
    fun a ha b hb => ht.total a (p1.mem_iff.mp ha) b (p1.mem_iff.mp hb)⟩

/-- The totality hypothesis is needed.  With a `less` that leaves two
inequivalent members of one bucket unordered (`Sample.ordTies`: 0 and 3 tie),
the stable sort keeps bucket order, which is insertion order: the same two
members iterate as `[0, 3]` or `[3, 0]` depending on which was added first. -/
theorem values_order_counterexample :
    let R := Sample.ordTies
    let s1 := fromList R [0, 3]
    let s2 := fromList R [3, 0]
    Inv R s1 ∧ Inv R s2 ∧ (values s1).Perm (values s2) ∧
      iter R s1 = [0, 3] ∧ iter R s2 = [3, 0] ∧ iter R s1 ≠ iter R s2 := by
  refine ⟨⟨?_, ?_, ?_, ?_⟩, ⟨?_, ?_, ?_, ?_⟩, ?_, ?_, ?_, ?_⟩ <;> decide

/-! ### copy -/

/-- `Copy` returns an equal set (same buckets, same members, same abstract set).
This is a statement about the *content*: in Go the copy shares the bucket slices
with the receiver, and a later `Add` to both can write the same spare-capacity
slot of a shared backing array.  That aliasing hazard is outside this model
(`copy` is the snapshot) and belongs to C20 (`valueset_copy_add_counterexample`);
the C03 harness reports it separately under the signature
`copy-shares-bucket-array`. -/
theorem copy_is_snapshot {s : SetImpl α} (h : Inv R s) : copy s = s := copy_eq h.asc

/-! ### the hypotheses are satisfiable, and needed -/

theorem sample_m3e6_lawful : Sample.m3e6.Lawful := by
  refine ⟨?_, ?_, ?_, ?_⟩ <;> simp only [Sample.m3e6, beq_iff_eq] <;> intros <;> first | trivial | omega

theorem sample_m2e12_lawful : Sample.m2e12.Lawful := by
  refine ⟨?_, ?_, ?_, ?_⟩ <;> simp only [Sample.m2e12, beq_iff_eq] <;> intros <;> first | trivial | omega

theorem sample_ordTotal_lawful : Sample.ordTotal.Lawful := by
  refine ⟨?_, ?_, ?_, ?_⟩ <;> simp only [Sample.ordTotal, beq_iff_eq] <;> intros <;> first | trivial | omega

theorem sample_ordTies_lawful : Sample.ordTies.Lawful := by
  refine ⟨?_, ?_, ?_, ?_⟩ <;> simp only [Sample.ordTies, beq_iff_eq] <;> intros <;> first | trivial | omega

/-- `Sample.ordTotal`'s order is strict and total between inequivalent values, on
any member list. -/
theorem sample_ordTotal_total (l : List Int) :
    StrictTotalOn Sample.ordTotal (fun a b => b % 6 < a % 6) l := by
  refine ⟨?_, ?_, ?_⟩
  · intro a _; simp
  · intro a _ b _ c _; simp only [decide_eq_true_eq]; omega
  · intro a _ b _; simp only [Sample.ordTotal, decide_eq_true_eq, beq_eq_false_iff_ne, ne_eq]; omega

/-- a concrete history with collisions, removals, copies and algebra, and what it returns -/
example :
    (runRegs Sample.m3e6
      [.add 0 0, .add 0 3, .add 0 6, .add 0 1, .copy 1 0, .remove 0 9, .add 1 4, .has 0 3,
       .has 1 15, .union 2 0 1, .symmetricDifference 3 0 1, .length 2, .values 3] []) =
    ([⟨[(-1, [0]), (0, [1])]⟩, ⟨[(-1, [0, 3]), (0, [1, 4])]⟩, ⟨[(-1, [0, 3]), (0, [1, 4])]⟩,
      ⟨[(-1, [3]), (0, [4])]⟩],
     [.none, .none, .none, .none, .none, .none, .none, .bool false, .bool true, .none, .none,
      .nat 4, .list [3, 4]]) := by decide

example : valuesSorted (fun a b => b % 6 < a % 6) (fromList Sample.ordTotal [0, 3, 1, 5]) =
    valuesSorted (fun a b => b % 6 < a % 6) (fromList Sample.ordTotal [5, 1, 3, 0]) :=
  values_order_indep_of_insertion sample_ordTotal_lawful _ (by decide) (by decide)
    (sample_ordTotal_total _)

/-- Lawfulness matters: `Sample.unlawful` calls 0 and 2 equivalent but hashes them
to different buckets — it is not lawful, and the set built from `[0, 2]` holds
both (two members for one class: `Length` 2, the invariant fails), although
`Add` did scan for an equivalent member. -/
theorem unlawful_rules_counterexample :
    let R := Sample.unlawful
    let s := fromList R [0, 2]
    ¬ R.Lawful ∧ R.equiv 0 2 = true ∧ values s = [0, 2] ∧ length s = 2 ∧ ¬ Inv R s := by
  refine ⟨?_, by decide, by decide, by decide, ?_⟩
  · intro h
    exact absurd (h.hash_eq 0 2 (by decide)) (by decide)
  · intro h
    have := set_no_two_equivalent_members h 0 1 (by decide) (by decide)
    revert this
    decide

/-! ### iteration order: the converse direction (d03, audit item 1) -/

/-- Clause *"iterates in an order that depends only on its members"*, converse
direction.  `values_order_indep_of_total` is an implication (total ⇒ order
independent, for all sets).  The converse is true where insertion order can show
at all — between two inequivalent values of ONE bucket (members of different
buckets are laid out by bucket id, whatever `less` says): the two sets built
from `x, y` and from `y, x` iterate alike **iff** `less` orders the two values. -/
theorem values_order_indep_pair_iff (hR : R.Lawful) (less : α → α → Bool) (hl : R.less = some less) {x y : α}
    (hh : R.hash x = R.hash y) (hne : R.equiv x y = false)
    (hasym : ¬ (less x y = true ∧ less y x = true)) :
    iter R (fromList R [x, y]) = iter R (fromList R [y, x]) ↔ (less x y = true ∨ less y x = true) :=
  order_indep_pair_iff hR less hl hh hne hasym

/-- both sides of the equivalence occur: `ordTies` leaves 0 and 3 unordered,
`ordTotal` orders them -/
example : ¬ iter Sample.ordTies (fromList Sample.ordTies [0, 3]) = iter Sample.ordTies (fromList Sample.ordTies [3, 0]) :=
  fun h => absurd ((values_order_indep_pair_iff sample_ordTies_lawful _ rfl (by decide) (by decide) (by decide)).mp h)
    (by decide)

example : iter Sample.ordTotal (fromList Sample.ordTotal [0, 3]) = iter Sample.ordTotal (fromList Sample.ordTotal [3, 0]) :=
  (values_order_indep_pair_iff sample_ordTotal_lawful _ rfl (by decide) (by decide) (by decide)).mpr (by decide)

/-- Audit item 5: `sortStable` transliterates `sort.SliceStable` only up to 20
elements (one insertion-sort block).  For longer member lists nothing about Go's
block merging is needed: if `less` is a strict order total between inequivalent
members, ANY ascending permutation of the members — the output of any correct
sort — is the model's `valuesSorted`. -/
theorem values_sorted_unique (less : α → α → Bool) {s : SetImpl α} (h : Inv R s)
    (ht : StrictTotalOn R less (values s)) {l' : List α} (hp : l'.Perm (values s))
    (hs : l'.Pairwise (fun a b => less a b = true)) : l' = valuesSorted less s :=
  sorted_perm_eq_sortStable less (ht.toList h.nodup) hp hs

end SetSlice
/-! ######################## end of SECTION «cty/set» ######################## -/

/-! ########################################################################
## SECTION «values» — equality, hashing and sets of cty VALUES

Clauses of C03 covered here: *"Raw equality is reflexive, symmetric and
transitive on all values; the equality operation is symmetric, treats any two
nulls as equal, agrees with raw equality on wholly known values of the same
type, and forms a trichotomy with less-than and greater-than on numbers; any
two values that are equal have the same hash.  Consequently a set never holds
two equal members …"*.

The functions spoken about are the transliterations the harness diffs against
/repo: `Num.rawEqual` (`rawNumberEqual`), `Value.equals` (`Value.Equals`),
`Value.rawEq` (`Value.RawEquals`), `Value.hashBytes` / `Value.hash`
(`appendSetHashBytes`, `Value.Hash`), `ctyRules` (`setRules`), `Value.mkSetVal`
(`cty.SetVal`).  `Value.shaped` is shape well-formedness (`SetRulesSpec.lean`);
`Ty.plain` = no set type and no capsule type occurs — the proved frontier:
`RawEquals`, `Hash` and `Less` of a set-typed value go through the set's
iteration order, which is itself defined by `Less`, `RawEquals` and the hash
bytes of the members (`lvl`); capsule equality is a parameter of the capsule
type.  Where the full-strength clause is FALSE of the code it is kept as a
`def … : Prop` with its refutation from a concrete witness next to the
`_partial` theorem.
######################################################################## -/
section Values
open Value

/-! ### number equality -/

/-- `rawNumberEqual` is an equivalence relation — for ANY decimal text function in
place of `Text('f', -1)`: it compares a key (sign, integer-ness, the integer
value or the text).  (What it is NOT is equality of values: see the
counterexamples below.) -/
theorem numEq_equiv (text : Num → String) :
    (∀ a, Num.rawEqualWith text a a = true) ∧
    (∀ a b, Num.rawEqualWith text a b = Num.rawEqualWith text b a) ∧
    (∀ a b c, Num.rawEqualWith text a b = true → Num.rawEqualWith text b c = true →
      Num.rawEqualWith text a c = true) ∧
    Num.rawEqual = Num.rawEqualWith Num.textF :=
  ⟨Num.rawEqualWith_refl text, Num.rawEqualWith_symm text, Num.rawEqualWith_trans text, rfl⟩

/-! ### raw equality is an equivalence -/

/-- `RawEquals` never panics on well-formed values of plain types and is decided
by the structural specification `rawB`. -/
theorem rawEquals_total (a b : Value) (wa : a.shaped = true) (wb : b.shaped = true) (pa : a.ty.plain = true) :
    ∃ r, rawEq a b = .ok r :=
  ⟨_, rawEquals_eq_rawB a b wa wb pa⟩

/-- reflexive (marks, nulls, unknowns with any refinement, nesting included) -/
theorem rawEquals_refl (v : Value) (hw : v.shaped = true) (hp : v.ty.plain = true) :
    rawEq v v = .ok true := by
  rw [rawEquals_eq_rawB v v hw hw hp]
  simp [rawB_refl v.ty v.v hp ((Value.shaped_iff v).mp hw).2]

/-- symmetric: the same answer (not only the same truth) in both directions -/
theorem rawEquals_symm (a b : Value) (wa : a.shaped = true) (wb : b.shaped = true) (pa : a.ty.plain = true)
    (pb : b.ty.plain = true) : rawEq a b = rawEq b a := by
  rw [rawEquals_eq_rawB a b wa wb pa, rawEquals_eq_rawB b a wb wa pb]
  obtain ⟨ta, va⟩ := a
  obtain ⟨tb, vb⟩ := b
  by_cases h : ta = tb
  · subst h
    simp only [decide_true, Bool.true_and]
    rw [rawB_symm ta va vb pa ((Value.shaped_iff _).mp wa).2 ((Value.shaped_iff _).mp wb).2]
  · have h' : ¬ tb = ta := fun e => h e.symm
    simp only [] at h h' ⊢
    rw [decide_eq_false h, decide_eq_false h']
    rfl

/-- transitive -/
theorem rawEquals_trans (a b c : Value) (wa : a.shaped = true) (wb : b.shaped = true) (wc : c.shaped = true)
    (pa : a.ty.plain = true) (h1 : rawEq a b = .ok true) (h2 : rawEq b c = .ok true) :
    rawEq a c = .ok true := by
  rw [rawEquals_eq_rawB a b wa wb pa] at h1
  simp only [Res.ok.injEq, Bool.and_eq_true, decide_eq_true_eq] at h1
  have pb : b.ty.plain = true := h1.1 ▸ pa
  rw [rawEquals_eq_rawB b c wb wc pb] at h2
  simp only [Res.ok.injEq, Bool.and_eq_true, decide_eq_true_eq] at h2
  rw [rawEquals_eq_rawB a c wa wc pa]
  have hac : a.ty = c.ty := h1.1.trans h2.1
  simp only [hac, decide_true, Bool.true_and, Res.ok.injEq]
  have := rawB_trans a.ty a.v b.v c.v pa ((Value.shaped_iff a).mp wa).2 (h1.1 ▸ ((Value.shaped_iff b).mp wb).2)
    (hac ▸ ((Value.shaped_iff c).mp wc).2) h1.2 (h1.1 ▸ h2.2)
  rw [← hac]; exact this

/-! ### Equals -/

/-- **`Equals` is symmetric** — the two calls return the very same result, be it
True, False or the unknown bool (so "incl. unknown results") — for any two
well-formed mark-free values of plain types: same type or different types,
known, null, unknown with any refinement, `DynamicVal`, nested.  (For marked
operands `Equals` is this function on the deeply unmarked operands with the
union of both mark sets re-applied.)  Besides symmetry of the member
comparisons this needs that none of them panics: the map branch looks the keys
of each side up in the other. -/
theorem equals_symm (a b : Value) (wa : a.shaped = true) (wb : b.shaped = true) (pa : a.ty.plain = true)
    (pb : b.ty.plain = true) (ma : a.containsMarked = false) (mb : b.containsMarked = false) :
    equals a b = equals b a :=
  equals_symm_of_wf a b wa wb pa pb ma mb

/-- …and on such values of one type it never panics: it answers True, False or unknown. -/
theorem equals_total (t : Ty) (a b : Payload) (hw : t.wf = true) (hp : t.plain = true)
    (wa : a.shaped t = true) (ma : a.containsMarked = false) (wb : b.shaped t = true) (mb : b.containsMarked = false) :
    ∃ acc, equals ⟨t, a⟩ ⟨t, b⟩ = .ok (accVal acc) := by
  simp only [equals, Value.containsMarked, ma, mb, Bool.or_self, Bool.false_eq_true, if_false, equalsP]
  obtain ⟨acc, h, _⟩ := equalsFuel_symm (max a.depth b.depth + 1) t a b hw hp ⟨wa, ma, by omega⟩ ⟨wb, mb, by omega⟩
  exact ⟨acc, h⟩

example : equals ⟨.list .number, .seq [.unk (.num .f none none), .n (Num.ofInt 1 64)]⟩ ⟨.list .number, .seq [.n (Num.ofInt 2 64), .n (Num.ofInt 2 64)]⟩
    = .ok unkBool := by decide +kernel

/-- Any two nulls are equal, whatever their types; a null differs from every known
non-null value (either operand order). -/
theorem equals_nulls (t t' : Ty) :
    equals ⟨t, .null⟩ ⟨t', .null⟩ = .ok (boolVal true) ∧
    ∀ p : Payload, p.isKnown = true → p.isNull = false → p.containsMarked = false →
      equals ⟨t, .null⟩ ⟨t', p⟩ = .ok (boolVal false) ∧ equals ⟨t', p⟩ ⟨t, .null⟩ = .ok (boolVal false) := by
  refine ⟨?_, fun p hk hn hm => ⟨?_, ?_⟩⟩
  · simp only [equals, Value.containsMarked, Payload.containsMarked, Bool.or_self, Bool.false_eq_true,
      if_false, equalsP, equalsFuel]
    rw [equalsPre_of_known _ _ _ _ rfl rfl]
    rfl
  · simp only [equals, Value.containsMarked, Payload.containsMarked, hm, Bool.or_self, Bool.false_eq_true,
      if_false, equalsP, equalsFuel]
    rw [equalsPre_of_known _ _ _ _ rfl hk]
    simp [hn, show Payload.isNull .null = true from rfl]
  · simp only [equals, Value.containsMarked, Payload.containsMarked, hm, Bool.or_self, Bool.false_eq_true,
      if_false, equalsP, equalsFuel]
    rw [equalsPre_of_known _ _ _ _ hk rfl]
    simp [hn, show Payload.isNull .null = true from rfl]

/-- On wholly known, mark-free, well-formed values of one PLAIN type, `Equals`
returns exactly the truth value `RawEquals` returns (both are `rawB`). -/
theorem equals_eq_rawEquals_of_known_partial (t : Ty) (a b : Payload) (hw : t.wf = true) (hp : t.plain = true)
    (wa : a.shaped t = true) (ka : a.whollyKnown = true) (ma : a.containsMarked = false)
    (wb : b.shaped t = true) (kb : b.whollyKnown = true) (mb : b.containsMarked = false) :
    equals ⟨t, a⟩ ⟨t, b⟩ = (rawEq ⟨t, a⟩ ⟨t, b⟩).map boolVal ∧
    (equals ⟨t, a⟩ ⟨t, b⟩ = .ok (boolVal true) ↔ rawEq ⟨t, a⟩ ⟨t, b⟩ = .ok true) := by
  have h1 := equals_of_members hw hp wa ka ma wb kb mb
  have h2 := rawEquals_eq_rawB ⟨t, a⟩ ⟨t, b⟩ ((Value.shaped_iff _).mpr ⟨hw, wa⟩) ((Value.shaped_iff _).mpr ⟨hw, wb⟩) hp
  simp only [decide_true, Bool.true_and] at h2
  rw [h1, h2]
  refine ⟨rfl, ?_⟩
  cases rawB t a b <;> simp [boolVal]

/-- …and so, on that frontier, `Equals` is reflexive, symmetric and transitive. -/
theorem equals_equiv_of_known (t : Ty) (hw : t.wf = true) (hp : t.plain = true) (a b c : Payload)
    (wa : a.shaped t = true) (ka : a.whollyKnown = true) (ma : a.containsMarked = false)
    (wb : b.shaped t = true) (kb : b.whollyKnown = true) (mb : b.containsMarked = false)
    (wc : c.shaped t = true) (kc : c.whollyKnown = true) (mc : c.containsMarked = false) :
    equals ⟨t, a⟩ ⟨t, a⟩ = .ok (boolVal true) ∧
    equals ⟨t, a⟩ ⟨t, b⟩ = equals ⟨t, b⟩ ⟨t, a⟩ ∧
    (equals ⟨t, a⟩ ⟨t, b⟩ = .ok (boolVal true) → equals ⟨t, b⟩ ⟨t, c⟩ = .ok (boolVal true) →
      equals ⟨t, a⟩ ⟨t, c⟩ = .ok (boolVal true)) := by
  rw [equals_of_members hw hp wa ka ma wa ka ma, equals_of_members hw hp wa ka ma wb kb mb,
    equals_of_members hw hp wb kb mb wa ka ma, equals_of_members hw hp wb kb mb wc kc mc,
    equals_of_members hw hp wa ka ma wc kc mc, rawB_refl t a hp wa, rawB_symm t a b hp wa wb]
  refine ⟨rfl, rfl, fun h1 h2 => ?_⟩
  have e1 : rawB t b a = true := by cases h : rawB t b a <;> simp_all [boolVal]
  have e2 : rawB t b c = true := by cases h : rawB t b c <;> simp_all [boolVal]
  rw [rawB_symm t b a hp wb wa] at e1
  rw [rawB_trans t a b c hp wa wb wc e1 e2]

/-- The full-strength clause — for every pair of wholly known mark-free well-formed
values of one type, sets included. -/
def EqualsAgreesWithRawEquals : Prop :=
  ∀ a b : Value, a.shaped = true → b.shaped = true → a.ty = b.ty → a.whollyKnown = true → b.whollyKnown = true →
    a.containsMarked = false → b.containsMarked = false →
    (equals a b = .ok (boolVal true) ↔ rawEq a b = .ok true)

/-! ### cty's set rules are lawful — where they are -/

/-- the members `cty_rules_lawful_partial` speaks about, as a type -/
def Member (e : Ty) (ns : List Num) : Type := { p : Payload // p.member e ns = true }

/-- `setRules{e}` restricted to those members (the very functions of `ctyRules e`) -/
def ctyRulesOn (e : Ty) (ns : List Num) : Rules (Member e ns) where
  hash := fun p => (ctyRules e).hash p.1
  equiv := fun a b => (ctyRules e).equiv a.1 b.1
  less := (ctyRules e).less.map fun l a b => l a.1 b.1

theorem Member.spec {e : Ty} {ns : List Num} (p : Member e ns) :
    p.1.shaped e = true ∧ p.1.whollyKnown = true ∧ p.1.containsMarked = false ∧ p.1.numsIn ns = true := by
  have := p.2
  simp only [Payload.member, Bool.and_eq_true, Bool.not_eq_true'] at this
  exact ⟨this.1.1.1, this.1.1.2, this.1.2, this.2⟩

/-- **cty's `setRules` meet the contract of `cty/set`** (`Equivalent` is an
equivalence and equivalent members hash alike) on wholly known, mark-free,
well-formed members of one plain element type whose numbers are drawn from a
list `ns` on which number equality and the hashed number text agree
(`HashCoherentNums ns`, a decidable check). -/
theorem cty_rules_lawful_partial (e : Ty) (ns : List Num) (hw : e.wf = true) (hp : e.plain = true)
    (hc : HashCoherentNums ns = true) : (ctyRulesOn e ns).Lawful := by
  have eqv : ∀ a b : Member e ns, (ctyRulesOn e ns).equiv a b = rawB e a.1 b.1 := fun a b =>
    ctyRules_equiv_eq hw hp a.spec.1 a.spec.2.1 a.spec.2.2.1 b.spec.1 b.spec.2.1 b.spec.2.2.1
  refine ⟨fun a => ?_, fun a b h => ?_, fun a b c h1 h2 => ?_, fun a b h => ?_⟩
  · rw [eqv]; exact rawB_refl e a.1 hp a.spec.1
  · rw [eqv] at h ⊢; rw [rawB_symm e b.1 a.1 hp b.spec.1 a.spec.1]; exact h
  · rw [eqv] at h1 h2 ⊢; exact rawB_trans e a.1 b.1 c.1 hp a.spec.1 b.spec.1 c.spec.1 h1 h2
  · rw [eqv] at h
    exact ctyRules_hash_eq hp hc a.spec.1 a.spec.2.2.1 a.spec.2.2.2 b.spec.1 b.spec.2.2.1 b.spec.2.2.2 h

/-- The full-strength clause: lawful for every element type and all numbers. -/
def CtyRulesLawful : Prop := ∀ (e : Ty) (ns : List Num), e.wf = true → (ctyRulesOn e ns).Lawful

/-- **Value sets refine mathematical sets.**  `set_refines` and `set_inv` at cty's
own rules: for every history of `ValueSet` calls (`Add`, `Remove`, `Has`,
`Length`, `Values`, `Copy`, `Union`, `Intersection`, `Subtract`,
`SymmetricDifference`) over admitted members, every set keeps the invariant (no
two `Equals` members, every member in the bucket of its hash), the final sets are
the mathematical results, and every answer returned on the way is the one the
mathematical sets dictate.  `SetVal` is the history "`Add` each input". -/
theorem valueSet_refines (e : Ty) (ns : List Num) (hw : e.wf = true) (hp : e.plain = true)
    (hc : HashCoherentNums ns = true) (ops : List (SetOp (Member e ns))) (st : List (SetImpl (Member e ns)))
    (h : ∀ i, SetImpl.Inv (ctyRulesOn e ns) (SetImpl.getReg st i)) :
    (∀ i, SetImpl.Inv (ctyRulesOn e ns) (SetImpl.getReg (SetImpl.runRegs (ctyRulesOn e ns) ops st).1 i)) ∧
    SetImpl.absRegs (ctyRulesOn e ns) (SetImpl.runRegs (ctyRulesOn e ns) ops st).1 =
      SetImpl.specRun (ctyRulesOn e ns) ops (SetImpl.absRegs (ctyRulesOn e ns) st) ∧
    SetImpl.OutsOk (ctyRulesOn e ns) (SetImpl.absRegs (ctyRulesOn e ns) st) ops
      (SetImpl.runRegs (ctyRulesOn e ns) ops st).2 :=
  have hR := cty_rules_lawful_partial e ns hw hp hc
  ⟨set_inv hR ops st h, set_refines hR ops st h⟩

/-- …and a set value built from any permutation of the same inputs holds the same
members (as a mathematical set) and has the same length. -/
theorem valueSet_built_order_indep (e : Ty) (ns : List Num) (hw : e.wf = true) (hp : e.plain = true)
    (hc : HashCoherentNums ns = true) (l l' : List (Member e ns)) (hperm : l.Perm l') :
    SetImpl.Inv (ctyRulesOn e ns) (SetImpl.fromList (ctyRulesOn e ns) l) ∧
    (∀ y, SetImpl.abs (ctyRulesOn e ns) (SetImpl.fromList (ctyRulesOn e ns) l) y ↔
      SetImpl.abs (ctyRulesOn e ns) (SetImpl.fromList (ctyRulesOn e ns) l') y) ∧
    SetImpl.length (SetImpl.fromList (ctyRulesOn e ns) l) = SetImpl.length (SetImpl.fromList (ctyRulesOn e ns) l') :=
  have hR := cty_rules_lawful_partial e ns hw hp hc
  ⟨(set_inv_algebra hR SetImpl.empty SetImpl.empty).2.2.2.2 l, (set_built_order_indep hR l l' hperm).2.1,
    (set_built_order_indep hR l l' hperm).2.2⟩

/-! ### the hypotheses are satisfiable -/

/-- integers, halves and a 512-bit decimal together are hash-coherent -/
example : HashCoherentNums [Num.ofInt 0 64, Num.ofInt 1 64, .fin false 1 0 53, .fin false 1 (-1) 53,
    .fin false 3 (-1) 512, .fin true 9 (-2) 64] = true := by decide +kernel

example : Payload.member (.tuple [.number, .list .string]) [Num.ofInt 1 64]
    (.seq [.n (Num.ofInt 1 64), .seq [.s "a", .null]]) = true := by decide +kernel

/-! ### the three counterexamples (DESIGN §8 #4, #5, #6) -/

/-- float64 3.9477794105 -/
def w4f : Num := .fin false 4444804470517179 (-50) 53
/-- the 512-bit parse of "3.9477794105" -/
def w4p : Num := .fin false 6616383510720751409574419276066167347849274831266510936186703153532054316082981444465370061514054905547072918229708187613238190649929064032578605931325323 (-509) 512
/-- float64 0.1 -/
def w5f : Num := .fin false 3602879701896397 (-55) 53
/-- the 512-bit parse of "0.1" -/
def w5p : Num := .fin false 10726246343954077679659219998564676901983492656473914702178849154977411224058837581441499438533522742152025486549188840683003106249557255957146919204867277 (-515) 512
/-- float64 0.1 carried at 512 bits (`NumberFloatVal(0.1).Multiply(parse "1")`) -/
def w5c : Num := .fin false 3602879701896397 (-55) 512
/-- the tuples `[17179869181]` and `[17179869182]` (64-bit integers) -/
def w6T : Ty := .tuple [.number]
def w6a : Payload := .seq [.n (.fin false 17179869181 0 64)]
def w6b : Payload := .seq [.n (.fin false 8589934591 1 64)]

/-- **#4 — equal values that hash differently.**  float64 3.9477794105 and the
512-bit parse of "3.9477794105" are `Equals` (same shortest decimal text) but
their hash bytes differ (`"3.94777941"` vs `"3.947779411"`: ten significant
digits of different exact values), so do their hashes, and `SetVal` of the two
holds BOTH: two equal members in one set.  The pair is not `HashCoherentNums`. -/
theorem hash_incoherent_counterexample :
    equals (numVal w4f) (numVal w4p) = .ok (boolVal true) ∧
    hashBytes (numVal w4f) = .ok (strBytes "3.94777941") ∧
    hashBytes (numVal w4p) = .ok (strBytes "3.947779411") ∧
    Value.hash (numVal w4f) = .ok 1243578146 ∧ Value.hash (numVal w4p) = .ok 1459007788 ∧
    mkSetVal [numVal w4f, numVal w4p] = .ok ⟨.set .number, .sset [1243578146, 1459007788] [.n w4f, .n w4p]⟩ ∧
    HashCoherentNums [w4f, w4p] = false := by decide +kernel

/-- the two numbers as admitted members of a set of numbers -/
def w4fM : Member .number [w4f, w4p] := ⟨.n w4f, by decide +kernel⟩
def w4pM : Member .number [w4f, w4p] := ⟨.n w4p, by decide +kernel⟩

/-- hence cty's rules are not lawful in general -/
theorem cty_rules_lawful_false : ¬ CtyRulesLawful := by
  intro h
  have := (h .number [w4f, w4p] rfl).hash_eq w4fM w4pM (by decide +kernel)
  revert this
  decide +kernel

/-- **#5 — no trichotomy.**  float64 0.1 and the 512-bit parse of "0.1" are
`Equals` AND the first is `GreaterThan` the second (two of `<`, `=`, `>` hold);
float64 0.1 and the same value carried at 512 bits are neither `Equals` nor
ordered (none holds). -/
theorem trichotomy_counterexample :
    (equals (numVal w5f) (numVal w5p) = .ok (boolVal true) ∧
      greaterThan (numVal w5f) (numVal w5p) = .ok (boolVal true) ∧
      lessThan (numVal w5f) (numVal w5p) = .ok (boolVal false)) ∧
    (equals (numVal w5f) (numVal w5c) = .ok (boolVal false) ∧
      greaterThan (numVal w5f) (numVal w5c) = .ok (boolVal false) ∧
      lessThan (numVal w5f) (numVal w5c) = .ok (boolVal false)) := by decide +kernel

/-- the full-strength clause: exactly one of `<`, `=`, `>` on known numbers -/
def Trichotomy : Prop :=
  ∀ x y : Num,
    let l := lessThan (numVal x) (numVal y) = .ok (boolVal true)
    let e := equals (numVal x) (numVal y) = .ok (boolVal true)
    let g := greaterThan (numVal x) (numVal y) = .ok (boolVal true)
    (l ∧ ¬ e ∧ ¬ g) ∨ (¬ l ∧ e ∧ ¬ g) ∨ (¬ l ∧ ¬ e ∧ g)

theorem trichotomy_false : ¬ Trichotomy := by
  intro h
  have := h w5f w5p
  have c := trichotomy_counterexample.1
  simp only [c.1, c.2.1, not_true_eq_false, and_false, false_and, or_self] at this

/-- **#6 — iteration order depends on insertion order.**  The tuples `[17179869181]`
and `[17179869182]` are not `Equals`, but hash alike (ten significant digits), so
`Less` — which compares hash bytes for non-primitive members — orders them
neither way; they share a bucket and the stable sort keeps insertion order.
`SetVal([a,b])` and `SetVal([b,a])` hold the same two members, are `Equals`,
but iterate differently and are not `RawEquals`. -/
theorem set_order_counterexample :
    equals ⟨w6T, w6a⟩ ⟨w6T, w6b⟩ = .ok (boolVal false) ∧
    hashBytes ⟨w6T, w6a⟩ = hashBytes ⟨w6T, w6b⟩ ∧
    setLess w6T w6a w6b = .ok false ∧ setLess w6T w6b w6a = .ok false ∧
    mkSetVal [⟨w6T, w6a⟩, ⟨w6T, w6b⟩] = .ok ⟨.set w6T, .sset [3407990228, 3407990228] [w6a, w6b]⟩ ∧
    mkSetVal [⟨w6T, w6b⟩, ⟨w6T, w6a⟩] = .ok ⟨.set w6T, .sset [3407990228, 3407990228] [w6b, w6a]⟩ ∧
    setIter w6T [w6a, w6b] = .ok [w6a, w6b] ∧ setIter w6T [w6b, w6a] = .ok [w6b, w6a] ∧
    rawEq ⟨.set w6T, .sset [3407990228, 3407990228] [w6a, w6b]⟩
      ⟨.set w6T, .sset [3407990228, 3407990228] [w6b, w6a]⟩ = .ok false ∧
    equals ⟨.set w6T, .sset [3407990228, 3407990228] [w6a, w6b]⟩
      ⟨.set w6T, .sset [3407990228, 3407990228] [w6b, w6a]⟩ = .ok (boolVal true) := by decide +kernel

/-- the full-strength clause: a set built from a permutation of the same inputs
is the same value (same members in the same iteration order) -/
def SetValOrderIndependent : Prop :=
  ∀ (l l' : List Value) (s s' : Value), l.Perm l' → mkSetVal l = .ok s → mkSetVal l' = .ok s' →
    rawEq s s' = .ok true

theorem setVal_order_independent_false : ¬ SetValOrderIndependent := by
  intro h
  have c := set_order_counterexample
  have := h _ _ _ _ (List.Perm.swap _ _ []) c.2.2.2.2.1 c.2.2.2.2.2.1
  rw [c.2.2.2.2.2.2.2.2.1] at this
  cases this

/-- …and the same two set values refute `EqualsAgreesWithRawEquals` beyond plain types. -/
theorem equals_agrees_with_rawEquals_false : ¬ EqualsAgreesWithRawEquals := by
  intro h
  have c := set_order_counterexample
  have := (h ⟨.set w6T, .sset [3407990228, 3407990228] [w6a, w6b]⟩ ⟨.set w6T, .sset [3407990228, 3407990228] [w6b, w6a]⟩
    (by decide +kernel) (by decide +kernel) rfl (by decide +kernel) (by decide +kernel) (by decide +kernel)
    (by decide +kernel)).mp c.2.2.2.2.2.2.2.2.2
  rw [c.2.2.2.2.2.2.2.2.1] at this
  cases this

/-! ########################################################################
### d03 — the audit of C03, closed item by item

Everything below speaks about the same transliterations as above.  The new
frontier is `Payload.intMember e p`: well-formed for `e`, wholly known, no mark
at any depth, **every number an integer — at ANY precision** (an infinite
family; no per-list `decide` is left to the caller).
######################################################################## -/

/-! #### "any two values that are equal have the same hash" — stated on the hash itself (audit item 3) -/

/-- The clause, directly on `makeSetHashBytes` / `Value.Hash` (not through the
totalised `ctyRules.hash`): two `Equals`-true admitted members have the same hash
bytes and the same hash — as RESULTS of the two calls, whatever they are. -/
theorem equal_values_same_hash_partial (t : Ty) (ns : List Num) (a b : Payload) (hw : t.wf = true)
    (hp : t.plain = true) (hc : HashCoherentNums ns = true) (ha : a.member t ns = true) (hb : b.member t ns = true)
    (h : equals ⟨t, a⟩ ⟨t, b⟩ = .ok (boolVal true)) :
    hashBytes ⟨t, a⟩ = hashBytes ⟨t, b⟩ ∧ Value.hash ⟨t, a⟩ = Value.hash ⟨t, b⟩ := by
  have sa := Member.spec (e := t) (ns := ns) ⟨a, ha⟩
  have sb := Member.spec (e := t) (ns := ns) ⟨b, hb⟩
  rw [equals_of_members hw hp sa.1 sa.2.1 sa.2.2.1 sb.1 sb.2.1 sb.2.2.1] at h
  have hr : rawB t a b = true := by cases hq : rawB t a b <;> simp_all [boolVal]
  have hbytes : hashBytes ⟨t, a⟩ = hashBytes ⟨t, b⟩ :=
    hashBytesP_eq_of_rawB hp hc sa.1 sa.2.2.2 sb.1 sb.2.2.2 hr
  exact ⟨hbytes, hash_eq_of_hashBytes_eq hbytes (by simp [Value.containsMarked, sa.2.2.1, sb.2.2.1])⟩

/-- **All integers are hash-coherent** (missing theorem (b)): the side condition
`HashCoherentNums` holds of every list of integers, whatever their precisions. -/
theorem hash_coherent_ints (ns : List Num) (h : ns.all Num.isInt = true) : HashCoherentNums ns = true :=
  hashCoherentNums_of_allInt ns h

/-- …so for members all of whose numbers are integers the clause holds with no
side condition left. -/
theorem equal_values_same_hash_ints (t : Ty) (a b : Payload) (hw : t.wf = true) (hp : t.plain = true)
    (ha : a.intMember t = true) (hb : b.intMember t = true)
    (h : equals ⟨t, a⟩ ⟨t, b⟩ = .ok (boolVal true)) :
    hashBytes ⟨t, a⟩ = hashBytes ⟨t, b⟩ ∧ Value.hash ⟨t, a⟩ = Value.hash ⟨t, b⟩ := by
  obtain ⟨wa, ka, ma, ia⟩ := Payload.intMember_spec ha
  obtain ⟨wb, kb, mb, ib⟩ := Payload.intMember_spec hb
  rw [equals_of_members hw hp wa ka ma wb kb mb] at h
  have hr : rawB t a b = true := by cases hq : rawB t a b <;> simp_all [boolVal]
  have hbytes : hashBytes ⟨t, a⟩ = hashBytes ⟨t, b⟩ := hashBytesP_eq_of_rawB_ints hp wa ia wb ib hr
  exact ⟨hbytes, hash_eq_of_hashBytes_eq hbytes (by simp [Value.containsMarked, ma, mb])⟩

/-- the full-strength clause -/
def EqualValuesSameHash : Prop :=
  ∀ a b : Value, equals a b = .ok (boolVal true) → hashBytes a = hashBytes b

theorem equal_values_same_hash_false : ¬ EqualValuesSameHash := by
  intro h
  have c := hash_incoherent_counterexample
  have := h _ _ c.1
  rw [c.2.1, c.2.2.1] at this
  revert this
  decide +kernel

example : Payload.intMember (.tuple [.number, .list .string])
    (.seq [.n (.fin false 1 70 53), .seq [.s "a", .null]]) = true := by decide +kernel

/-- 2^70 as a float64, as a 512-bit parse, as a 64-bit integer: `Equals`, and hashed alike -/
example : equals (numVal (.fin false 1 70 53)) (numVal (.fin false 1 70 512)) = .ok (boolVal true) ∧
    hashBytes (numVal (.fin false 1 70 53)) = hashBytes (numVal (.fin false 1 70 512)) :=
  ⟨by decide +kernel, (equal_values_same_hash_ints .number _ _ rfl rfl (by decide +kernel) (by decide +kernel)
    (by decide +kernel)).1⟩

/-! #### the defaults of `ctyRules` are not taken (audit item 4) -/

/-- `ctyRules e` totalises `Hash`, `Equivalent` and `Less` (`| _ => 0`, `| _ =>
false`).  On admitted members whose strings the model can quote
(`Payload.quotable`: every rune in the modelled part of strconv's printable table)
the totalisation is idle: `Value.Hash` RETURNS and `ctyRules.hash` is what it
returns; `Equals` returns the known bool `ctyRules.equiv`.  So `Lawful.hash_eq`
there is a statement about the real hash, not `0 = 0`. -/
theorem cty_rules_are_the_real_functions (e : Ty) (hw : e.wf = true) (hp : e.plain = true) (a b : Payload)
    (ha : a.intMember e = true) (hb : b.intMember e = true) (qa : a.quotable = true) :
    (∃ bs, hashBytes ⟨e, a⟩ = .ok bs ∧ Value.hash ⟨e, a⟩ = .ok (crc32 bs)) ∧
    Value.hash ⟨e, a⟩ = .ok ((ctyRules e).hash a) ∧
    equals ⟨e, a⟩ ⟨e, b⟩ = .ok (boolVal ((ctyRules e).equiv a b)) := by
  obtain ⟨wa, ka, ma, _⟩ := Payload.intMember_spec ha
  obtain ⟨wb, kb, mb, _⟩ := Payload.intMember_spec hb
  exact ⟨hash_ok hp wa ma qa, ctyRules_hash_real hp wa ma qa, ctyRules_equiv_real hw hp wa ka ma wb kb mb⟩

example : Payload.quotable (.seq [.s "a\"\\\n é가", .null, .smap ["k"] [.s ""]]) = true := by decide +kernel

/-! #### cty's rules are lawful on ALL integer-numbered members (audit item 3, missing theorem (b)) -/

/-- the members, as a type -/
def IntMember (e : Ty) : Type := { p : Payload // p.intMember e = true }

/-- `setRules{e}` restricted to those members (the very functions of `ctyRules e`) -/
def ctyRulesOnInts (e : Ty) : Rules (IntMember e) where
  hash := fun p => (ctyRules e).hash p.1
  equiv := fun a b => (ctyRules e).equiv a.1 b.1
  less := (ctyRules e).less.map fun l a b => l a.1 b.1

/-- **cty's `setRules` meet the contract of `cty/set`** on every well-formed,
wholly known, mark-free member of a plain element type whose numbers are
integers: no list of admitted numbers, no `decide` left to the caller. -/
theorem cty_rules_lawful_ints (e : Ty) (hw : e.wf = true) (hp : e.plain = true) : (ctyRulesOnInts e).Lawful := by
  have sp := fun a : IntMember e => Payload.intMember_spec a.2
  have eqv : ∀ a b : IntMember e, (ctyRulesOnInts e).equiv a b = rawB e a.1 b.1 := fun a b =>
    ctyRules_equiv_eq hw hp (sp a).1 (sp a).2.1 (sp a).2.2.1 (sp b).1 (sp b).2.1 (sp b).2.2.1
  refine ⟨fun a => ?_, fun a b h => ?_, fun a b c h1 h2 => ?_, fun a b h => ?_⟩
  · rw [eqv]; exact rawB_refl e a.1 hp (sp a).1
  · rw [eqv] at h ⊢; rw [rawB_symm e b.1 a.1 hp (sp b).1 (sp a).1]; exact h
  · rw [eqv] at h1 h2 ⊢; exact rawB_trans e a.1 b.1 c.1 hp (sp a).1 (sp b).1 (sp c).1 h1 h2
  · rw [eqv] at h
    exact ctyRules_hash_eq_ints hp a.2 b.2 h

/-- **Value sets of such members refine mathematical sets** — `valueSet_refines`
without its `HashCoherentNums` hypothesis: every history keeps the invariant (no
two `Equals` members, each in the bucket of its hash), ends in the mathematical
results, and answers every call as the mathematical sets dictate. -/
theorem valueSet_refines_ints (e : Ty) (hw : e.wf = true) (hp : e.plain = true)
    (ops : List (SetOp (IntMember e))) (st : List (SetImpl (IntMember e)))
    (h : ∀ i, SetImpl.Inv (ctyRulesOnInts e) (SetImpl.getReg st i)) :
    (∀ i, SetImpl.Inv (ctyRulesOnInts e) (SetImpl.getReg (SetImpl.runRegs (ctyRulesOnInts e) ops st).1 i)) ∧
    SetImpl.absRegs (ctyRulesOnInts e) (SetImpl.runRegs (ctyRulesOnInts e) ops st).1 =
      SetImpl.specRun (ctyRulesOnInts e) ops (SetImpl.absRegs (ctyRulesOnInts e) st) ∧
    SetImpl.OutsOk (ctyRulesOnInts e) (SetImpl.absRegs (ctyRulesOnInts e) st) ops
      (SetImpl.runRegs (ctyRulesOnInts e) ops st).2 :=
  have hR := cty_rules_lawful_ints e hw hp
  ⟨set_inv hR ops st h, set_refines hR ops st h⟩

/-- …and building from any permutation of the same inputs gives the same
mathematical set and the same length. -/
theorem valueSet_built_order_indep_ints (e : Ty) (hw : e.wf = true) (hp : e.plain = true)
    (l l' : List (IntMember e)) (hperm : l.Perm l') :
    SetImpl.Inv (ctyRulesOnInts e) (SetImpl.fromList (ctyRulesOnInts e) l) ∧
    (∀ y, SetImpl.abs (ctyRulesOnInts e) (SetImpl.fromList (ctyRulesOnInts e) l) y ↔
      SetImpl.abs (ctyRulesOnInts e) (SetImpl.fromList (ctyRulesOnInts e) l') y) ∧
    SetImpl.length (SetImpl.fromList (ctyRulesOnInts e) l) = SetImpl.length (SetImpl.fromList (ctyRulesOnInts e) l') :=
  have hR := cty_rules_lawful_ints e hw hp
  ⟨(set_inv_algebra hR SetImpl.empty SetImpl.empty).2.2.2.2 l, (set_built_order_indep hR l l' hperm).2.1,
    (set_built_order_indep hR l l' hperm).2.2⟩

/-! #### iteration order of sets of strings, bools, integers (missing theorem (a)) -/

/-- `setRules.Less` **never fails** on unmarked well-formed members of a primitive
element type (null and unknown members included) and is decided by the plain
specification `primLessB`; `ctyRules.less` is what it returns. -/
theorem setLess_total_prim (e : Ty) (he : e.isPrim = true) (x y : Payload) (wx : x.shaped e = true)
    (wy : y.shaped e = true) (mx : x.containsMarked = false) (my : y.containsMarked = false) :
    setLess e x y = .ok (primLessB e x y) ∧ (ctyRules e).less = some (ctyLessB e) ∧
      ctyLessB e x y = primLessB e x y :=
  ⟨setLess_prim he wx wy (not_isMarked_of_clean mx) (not_isMarked_of_clean my), rfl,
    (ctyLessB_prim he wx wy mx my).2⟩

/-- **`setRules.Less` is a strict order, total between inequivalent members**, on
the admitted members of a primitive element type: the hypothesis of
`values_order_indep_of_total`, discharged for cty's own rules. -/
theorem cty_less_strict_total_prim (e : Ty) (he : e.isPrim = true) (l : List (IntMember e)) :
    (ctyRulesOnInts e).less = some (fun a b => ctyLessB e a.1 b.1) ∧
    SetImpl.StrictTotalOn (ctyRulesOnInts e) (fun a b => ctyLessB e a.1 b.1) l := by
  have sp := fun a : IntMember e => Payload.intMember_spec a.2
  have hl : ∀ a b : IntMember e, ctyLessB e a.1 b.1 = primLessB e a.1 b.1 := fun a b =>
    (ctyLessB_prim he (sp a).1 (sp b).1 (sp a).2.2.1 (sp b).2.2.1).2
  obtain ⟨hp, hw⟩ := Ty.isPrim_plain he
  refine ⟨rfl, fun a _ => ?_, fun a _ b _ c _ h1 h2 => ?_, fun a _ b _ hne => ?_⟩
  · rw [hl]; exact primLessB_irrefl he (sp a).1
  · rw [hl] at h1 h2 ⊢; exact primLessB_trans he a.2 b.2 c.2 h1 h2
  · rw [hl, hl]
    have : (ctyRulesOnInts e).equiv a b = rawB e a.1 b.1 :=
      ctyRules_equiv_eq hw hp (sp a).1 (sp a).2.1 (sp a).2.2.1 (sp b).1 (sp b).2.1 (sp b).2.2.1
    rw [this] at hne
    exact primLessB_total he a.2 b.2 hne

/-- **Value-level iteration order.**  Two sets of strings, of bools or of integers
(with or without a null member) that hold the same members — whatever the
insertion order, bucket layout or history — iterate identically. -/
theorem valueSet_iteration_order_indep_prim (e : Ty) (he : e.isPrim = true) {s1 s2 : SetImpl (IntMember e)}
    (h1 : SetImpl.Inv (ctyRulesOnInts e) s1) (hperm : (SetImpl.values s1).Perm (SetImpl.values s2)) :
    SetImpl.iter (ctyRulesOnInts e) s1 = SetImpl.iter (ctyRulesOnInts e) s2 := by
  have h := cty_less_strict_total_prim e he (SetImpl.values s1)
  simp only [SetImpl.iter, h.1]
  exact values_order_indep_of_total _ h1 hperm h.2

/-- …in particular sets built from the same pairwise different inputs in any order. -/
theorem valueSet_insertion_order_indep_prim (e : Ty) (he : e.isPrim = true) {l l' : List (IntMember e)}
    (hl : SetImpl.Inequiv (ctyRulesOnInts e) l) (hperm : l.Perm l') :
    SetImpl.iter (ctyRulesOnInts e) (SetImpl.fromList (ctyRulesOnInts e) l) =
      SetImpl.iter (ctyRulesOnInts e) (SetImpl.fromList (ctyRulesOnInts e) l') := by
  have h := cty_less_strict_total_prim e he l
  have hR := cty_rules_lawful_ints e (Ty.isPrim_plain he).2 (Ty.isPrim_plain he).1
  simp only [SetImpl.iter, h.1]
  exact values_order_indep_of_insertion hR _ hl hperm h.2

/-! #### numbers: what of the trichotomy holds (audit item 2) -/

/-- For ALL numbers (any precisions, infinities included): `<` and `>` are decided
by the exact comparison, exclude each other, are each other's converse, and one
of `<`, `>`, "equal in value" always holds. -/
theorem lt_gt_exclusive (x y : Num) :
    lessThan (numVal x) (numVal y) = .ok (boolVal (decide (Num.cmp x y < 0))) ∧
    greaterThan (numVal x) (numVal y) = .ok (boolVal (decide (Num.cmp x y > 0))) ∧
    ¬ (lessThan (numVal x) (numVal y) = .ok (boolVal true) ∧ greaterThan (numVal x) (numVal y) = .ok (boolVal true)) ∧
    lessThan (numVal x) (numVal y) = greaterThan (numVal y) (numVal x) ∧
    (lessThan (numVal x) (numVal y) = .ok (boolVal true) ∨ greaterThan (numVal x) (numVal y) = .ok (boolVal true) ∨
      Num.cmp x y = 0) := by
  have hs := NumCmp.cmp_swap x y
  refine ⟨lessThan_num x y, greaterThan_num x y, ?_, ?_, ?_⟩
  · rw [lessThan_num, greaterThan_num, boolVal_true_iff, boolVal_true_iff]
    simp only [decide_eq_true_eq]; omega
  · rw [lessThan_num, greaterThan_num, hs]
    congr 2
    simp only [decide_eq_decide]; omega
  · rw [lessThan_num, greaterThan_num, boolVal_true_iff, boolVal_true_iff]
    simp only [decide_eq_true_eq]; omega

/-- **Trichotomy, where it holds**: exactly one of `<`, `=`, `>` — for every pair
on which `rawNumberEqual` agrees with the exact comparison (a decidable
condition; `trichotomy_counterexample` shows both ways of violating it). -/
theorem trichotomy_partial (x y : Num) (h : Num.rawEqual x y = (Num.cmp x y == 0)) :
    let l := lessThan (numVal x) (numVal y) = .ok (boolVal true)
    let e := equals (numVal x) (numVal y) = .ok (boolVal true)
    let g := greaterThan (numVal x) (numVal y) = .ok (boolVal true)
    (l ∧ ¬ e ∧ ¬ g) ∨ (¬ l ∧ e ∧ ¬ g) ∨ (¬ l ∧ ¬ e ∧ g) := by
  simp only [lessThan_num, greaterThan_num, equals_num, boolVal_true_iff, h, decide_eq_true_eq, beq_iff_eq]
  omega

/-- **All integers** (of any two precisions, e.g. 2^70 as a float64 and as a
512-bit parse) satisfy the trichotomy. -/
theorem trichotomy_ints (x y : Num) (hx : x.isInt = true) (hy : y.isInt = true) :
    let l := lessThan (numVal x) (numVal y) = .ok (boolVal true)
    let e := equals (numVal x) (numVal y) = .ok (boolVal true)
    let g := greaterThan (numVal x) (numVal y) = .ok (boolVal true)
    (l ∧ ¬ e ∧ ¬ g) ∨ (¬ l ∧ e ∧ ¬ g) ∨ (¬ l ∧ ¬ e ∧ g) :=
  trichotomy_partial x y (isInt_coh hx hy)

/-- the side condition also holds of non-integers, e.g. two float64 values; it is
what fails for `w5f`/`w5p` and `w5f`/`w5c` -/
example : Num.rawEqual w5f w4f = (Num.cmp w5f w4f == 0) ∧ Num.rawEqual w5f w5p ≠ (Num.cmp w5f w5p == 0) ∧
    Num.rawEqual w5f w5c ≠ (Num.cmp w5f w5c == 0) := by decide +kernel

/-! #### `Equals` is symmetric on marked operands too (audit item 2) -/

/-- `equals_symm` without its two mark-freeness hypotheses: for any two well-formed
values of plain types, marked at the top, inside, on both sides or not at all,
`a.Equals(b)` and `b.Equals(a)` are the same value carrying the same marks (the
union of all marks of both operands). -/
theorem equals_symm_marks (a b : Value) (wa : a.shaped = true) (wb : b.shaped = true) (pa : a.ty.plain = true)
    (pb : b.ty.plain = true) : equals a b = equals b a :=
  equals_symm_marked a b wa wb pa pb

example : equals ⟨.list .string, .seq [.marked ["m"] (.s "a"), .unk .unref]⟩ ⟨.list .string, .marked ["k"] (.seq [.s "a", .s "b"])⟩
    = .ok ⟨.bool, .marked ["k", "m"] (.unk (.nullable .f))⟩ := by decide +kernel

/-! #### set-TYPED values of primitive element type (missing theorem (c)) -/

/-- Iterating a set value of strings, bools or numbers (`ElementIterator`,
`AsValueSlice`: Go's `Set.Values()` with `setRules.Less`) never fails — null and
unknown members included — and yields the stable sort of the stored members by
`primLessB`. -/
theorem setIter_total_prim (e : Ty) (he : e.isPrim = true) (vs : List Payload)
    (h : ∀ p ∈ vs, p.shaped e = true ∧ p.containsMarked = false) :
    setIter e vs = .ok (SetImpl.sortStable (primLessB e) vs) :=
  setIter_prim he h

/-- **`RawEquals` of two set values** of one primitive element type never fails and
is: same number of members, and the two iteration orders agree position by
position (`rawBList`). -/
theorem rawEquals_set_prim (e : Ty) (he : e.isPrim = true) (ix iy : List Int) (xs ys : List Payload)
    (hx : ∀ p ∈ xs, p.shaped e = true ∧ p.containsMarked = false)
    (hy : ∀ p ∈ ys, p.shaped e = true ∧ p.containsMarked = false) :
    rawEq ⟨.set e, .sset ix xs⟩ ⟨.set e, .sset iy ys⟩ =
      .ok (decide (xs.length = ys.length) &&
        rawBList e (SetImpl.sortStable (primLessB e) xs) (SetImpl.sortStable (primLessB e) ys)) :=
  rawEq_set_prim he hx hy

/-- `RawEquals` is reflexive on set values of primitive element type (members may be
null or unknown with any refinement). -/
theorem rawEquals_refl_set_prim (e : Ty) (he : e.isPrim = true) (ids : List Int) (vs : List Payload)
    (h : ∀ p ∈ vs, p.shaped e = true ∧ p.containsMarked = false) :
    rawEq ⟨.set e, .sset ids vs⟩ ⟨.set e, .sset ids vs⟩ = .ok true := by
  rw [rawEq_set_prim he h h]
  simp [rawBList_refl he (fun p hp => h p ((SetImpl.mem_sortStable _ _ _).mp hp))]

/-- …symmetric and transitive as well: **`RawEquals` is an equivalence on set values
of primitive element type** (the first clause of C03 on set-typed values). -/
theorem rawEquals_equiv_set_prim (e : Ty) (he : e.isPrim = true) (ix iy iz : List Int) (xs ys zs : List Payload)
    (hx : ∀ p ∈ xs, p.shaped e = true ∧ p.containsMarked = false)
    (hy : ∀ p ∈ ys, p.shaped e = true ∧ p.containsMarked = false)
    (hz : ∀ p ∈ zs, p.shaped e = true ∧ p.containsMarked = false) :
    rawEq ⟨.set e, .sset ix xs⟩ ⟨.set e, .sset iy ys⟩ = rawEq ⟨.set e, .sset iy ys⟩ ⟨.set e, .sset ix xs⟩ ∧
    (rawEq ⟨.set e, .sset ix xs⟩ ⟨.set e, .sset iy ys⟩ = .ok true →
      rawEq ⟨.set e, .sset iy ys⟩ ⟨.set e, .sset iz zs⟩ = .ok true →
      rawEq ⟨.set e, .sset ix xs⟩ ⟨.set e, .sset iz zs⟩ = .ok true) := by
  have mem := fun (l : List Payload) (h : ∀ p ∈ l, p.shaped e = true ∧ p.containsMarked = false) p
    (hp : p ∈ SetImpl.sortStable (primLessB e) l) => h p ((SetImpl.mem_sortStable _ _ _).mp hp)
  rw [rawEq_set_prim he hx hy, rawEq_set_prim he hy hx, rawEq_set_prim he hy hz, rawEq_set_prim he hx hz]
  refine ⟨?_, fun h1 h2 => ?_⟩
  · rw [rawBList_symm he (mem xs hx) (mem ys hy)]
    congr 2
    exact decide_eq_decide.mpr ⟨Eq.symm, Eq.symm⟩
  · simp only [Res.ok.injEq, Bool.and_eq_true, decide_eq_true_eq] at h1 h2 ⊢
    refine ⟨h1.1.trans h2.1, rawBList_trans he (mem xs hx) (mem ys hy) (mem zs hz) ?_ h1.2 h2.2⟩
    rw [(SetImpl.sortStable_perm _ xs).length_eq, (SetImpl.sortStable_perm _ ys).length_eq]; exact h1.1

/-- `cty.SetVal` of unmarked, quotable members of one primitive type IS the generic
set built by `Add`ing the inputs in order under `setRules{e}`. -/
theorem setVal_is_fromList_prim (e : Ty) (he : e.isPrim = true) (l : List Payload) (hne : l ≠ [])
    (hl : ∀ p ∈ l, (p.shaped e = true ∧ p.containsMarked = false) ∧ p.quotable = true) :
    mkSetVal (l.map fun p => (⟨e, p⟩ : Value)) = .ok ⟨.set e, setPayload (SetImpl.fromList (ctyRules e) l)⟩ :=
  mkSetVal_prim he hne hl

/-- **`SetValOrderIndependent`, where it holds.**  Sets built (`SetVal`, or any
`Add` sequence) from a list and from a permutation of it — pairwise different
wholly known strings, bools or integers of any precisions, with or without a
null — are `RawEquals` and iterate identically: the full-strength clause
`SetValOrderIndependent` restricted to primitive element types and integer
numbers (its refutations `set_order_counterexample` and the 0.1-at-two-precisions
witness lie outside: a tuple type, a non-integer). -/
theorem setVal_order_independent_partial (e : Ty) (he : e.isPrim = true) (l l' : List Payload)
    (hl : ∀ p ∈ l, p.intMember e = true) (hne : l.Pairwise (fun a b => rawB e a b = false)) (hperm : l.Perm l') :
    rawEq ⟨.set e, setPayload (SetImpl.fromList (ctyRules e) l)⟩
      ⟨.set e, setPayload (SetImpl.fromList (ctyRules e) l')⟩ = .ok true ∧
    setIter e (SetImpl.values (SetImpl.fromList (ctyRules e) l)) =
      setIter e (SetImpl.values (SetImpl.fromList (ctyRules e) l')) := by
  obtain ⟨hp, hw⟩ := Ty.isPrim_plain he
  have hl' : ∀ p ∈ l', p.intMember e = true := fun p h => hl p (hperm.mem_iff.mpr h)
  -- pairwise difference is symmetric between admitted members, so it survives the permutation
  have hne' : l'.Pairwise (fun a b => rawB e a b = false) := by
    have h1 : l.Pairwise (fun a b => (a.intMember e = true ∧ b.intMember e = true) ∧ rawB e a b = false) :=
      List.Pairwise.imp_of_mem (fun ha hb h => ⟨⟨hl _ ha, hl _ hb⟩, h⟩) hne
    have h2 := (List.Perm.pairwise_iff (l₁ := l) (l₂ := l') (fun {a b} h => by
      refine ⟨⟨h.1.2, h.1.1⟩, ?_⟩
      rw [rawB_symm e b a hp (Payload.intMember_spec h.1.2).1 (Payload.intMember_spec h.1.1).1]; exact h.2) hperm).mp h1
    exact h2.imp fun h => h.2
  have p1 := values_fromList_perm_ints hw hp hl hne
  have p2 := values_fromList_perm_ints hw hp hl' hne'
  have hx : ∀ p ∈ SetImpl.values (SetImpl.fromList (ctyRules e) l), p.intMember e = true :=
    fun p h => hl p (p1.mem_iff.mp h)
  have hy : ∀ p ∈ SetImpl.values (SetImpl.fromList (ctyRules e) l'), p.intMember e = true :=
    fun p h => hl' p (p2.mem_iff.mp h)
  have hnx : (SetImpl.values (SetImpl.fromList (ctyRules e) l)).Pairwise (fun a b => rawB e a b = false) := by
    have h1 : l.Pairwise (fun a b => (a.intMember e = true ∧ b.intMember e = true) ∧ rawB e a b = false) :=
      List.Pairwise.imp_of_mem (fun ha hb h => ⟨⟨hl _ ha, hl _ hb⟩, h⟩) hne
    have h2 := (List.Perm.pairwise_iff (fun {a b} h => by
      refine ⟨⟨h.1.2, h.1.1⟩, ?_⟩
      rw [rawB_symm e b a hp (Payload.intMember_spec h.1.2).1 (Payload.intMember_spec h.1.1).1]; exact h.2) p1.symm).mp h1
    exact h2.imp fun h => h.2
  have hsort := sortStable_prim_perm he hx hnx (p1.trans (hperm.trans p2.symm))
  have hxm := fun p h => primMem_of_intMember (hx p h)
  have hym := fun p h => primMem_of_intMember (hy p h)
  refine ⟨?_, ?_⟩
  · simp only [setPayload]
    rw [rawEq_set_prim he hxm hym, hsort]
    simp [(p1.trans (hperm.trans p2.symm)).length_eq,
      rawBList_refl he (fun p hp => hym p ((SetImpl.mem_sortStable _ _ _).mp hp))]
  · rw [setIter_prim he hxm, setIter_prim he hym, hsort]

/-- two integers at different precisions and a null, in two insertion orders -/
example :
    mkSetVal [⟨.number, .n (.fin false 1 70 53)⟩, ⟨.number, .null⟩, ⟨.number, .n (.fin false 3 0 512)⟩] =
      .ok ⟨.set .number, setPayload (SetImpl.fromList (ctyRules .number)
        [.n (.fin false 1 70 53), .null, .n (.fin false 3 0 512)])⟩ ∧
    rawEq ⟨.set .number, setPayload (SetImpl.fromList (ctyRules .number)
        [.n (.fin false 1 70 53), .null, .n (.fin false 3 0 512)])⟩
      ⟨.set .number, setPayload (SetImpl.fromList (ctyRules .number)
        [.n (.fin false 3 0 512), .n (.fin false 1 70 53), .null])⟩ = .ok true := by
  refine ⟨setVal_is_fromList_prim .number rfl [.n (.fin false 1 70 53), .null, .n (.fin false 3 0 512)]
      (by simp) (by decide +kernel),
    (setVal_order_independent_partial .number rfl [.n (.fin false 1 70 53), .null, .n (.fin false 3 0 512)]
      [.n (.fin false 3 0 512), .n (.fin false 1 70 53), .null] (by decide +kernel) ?_ ?_).1⟩
  · have h : Num.rawEqual (.fin false 1 70 53) (.fin false 3 0 512) = false := by decide +kernel
    simp [rawB, h]
  · exact (List.Perm.cons _ (List.Perm.swap _ _ _)).trans (List.Perm.swap _ _ _) |>.trans
      (List.Perm.cons _ (List.Perm.refl _)) |>.symm |>.symm


/-! ########################################################################
### d03b — second deepening: the hash TEXT, compound members, capsule types

New vocabulary (`SetRulesD03b.lean`, evaluated by the driver on the generated
values): `Value.sameShape` — two values of one type differ at most in number
leaves with the same hashed text (10 significant digits), in unknown leaves and in
capsule leaves (what `harness/c03val.go c03SameShape` computes through the public
API); `Ty.setFree` — no set type occurs (capsule types may);
`Payload.numTextsOk` — every hashed number text is non-empty over `0-9.e+-Inf`
(what `big.Float.String` writes; checked on every generated value);
`Payload.tieFree` — any two members are `RawEquals` or have different hash texts.
######################################################################## -/

/-! #### injectivity of the hash text (strings, bools, nulls, structure) -/

/-- **The set hash text is injective up to `sameShape`.**  Clause *"equal values
have the same hash"* read backwards, as far as it can hold: two well-formed values
of one set-free type whose `makeSetHashBytes` results coincide have the same
structure, the same lengths, the same map keys, equal strings and bools, null in
the same places — they can differ only in number leaves (same 10 digits),
unknown leaves and capsule leaves.  The delimiters `; : [ ] { } < >` never occur
unescaped inside a `%q`-quoted string (`D03b.quoteChars_prefix`), so this is a
statement about the very function the `hash.bytes` correspondence diffs: writing
strings unquoted (seeded/C03-string-hash-text-unescaped-quotes) breaks that
correspondence AND contradicts this theorem (`["a","b"]` vs `["a\";\"b"]`). -/
theorem hash_text_injective_setfree (t : Ty) (a b : Payload) (hw : t.wf = true) (hsf : t.setFree = true)
    (wa : a.shaped t = true) (wb : b.shaped t = true) (na : a.numTextsOk = true) (nb : b.numTextsOk = true)
    (h : Bytes) (ha : hashBytes ⟨t, a⟩ = .ok h) (hb : hashBytes ⟨t, b⟩ = .ok h) :
    Value.sameShape ⟨t, a⟩ ⟨t, b⟩ = true :=
  D03b.sameShape_of_hashBytes_eq hw hsf wa wb na nb ha hb

/-- **…and exactly so**: on a set-free type two well-formed values have the same hash
text IF AND ONLY IF they are `sameShape` — the relation the harness classifies hash
ties with is the kernel of `makeSetHashBytes`, no coarser and no finer (the "only if"
needs the number texts to be over `0-9.e+-Inf`; the "if" needs nothing). -/
theorem hash_text_eq_iff_sameShape (t : Ty) (a b : Payload) (hw : t.wf = true) (hsf : t.setFree = true)
    (wa : a.shaped t = true) (wb : b.shaped t = true) (na : a.numTextsOk = true) (nb : b.numTextsOk = true)
    (h : Bytes) (ha : hashBytes ⟨t, a⟩ = .ok h) :
    hashBytes ⟨t, b⟩ = .ok h ↔ Value.sameShape ⟨t, a⟩ ⟨t, b⟩ = true :=
  ⟨fun hb => hash_text_injective_setfree t a b hw hsf wa wb na nb h ha hb,
    fun hs => by rw [← D03b.hashBytes_of_sameShape hw hsf wa wb hs]; exact ha⟩

/-- …contrapositive: values that are not `sameShape` never share a hash text (they
may still share the 32-bit `Hash`; `Equivalent` then tells them apart). -/
theorem different_shape_different_hash_text (t : Ty) (a b : Payload) (hw : t.wf = true) (hsf : t.setFree = true)
    (wa : a.shaped t = true) (wb : b.shaped t = true) (na : a.numTextsOk = true) (nb : b.numTextsOk = true)
    (hne : Value.sameShape ⟨t, a⟩ ⟨t, b⟩ = false) (h : Bytes) (ha : hashBytes ⟨t, a⟩ = .ok h) :
    hashBytes ⟨t, b⟩ ≠ .ok h := by
  intro hb
  rw [hash_text_injective_setfree t a b hw hsf wa wb na nb h ha hb] at hne
  cases hne

/-- the seeded collision pair: a list of two strings and a list of one string that
spells the delimiter — not `sameShape`, so their hash texts differ -/
example : hashBytes ⟨.list .string, .seq [.s "a", .s "b"]⟩ = .ok (strBytes "[\"a\";\"b\";]") ∧
    hashBytes ⟨.list .string, .seq [.s "a\";\"b"]⟩ ≠ .ok (strBytes "[\"a\";\"b\";]") :=
  ⟨by decide +kernel, different_shape_different_hash_text (.list .string) (.seq [.s "a", .s "b"]) (.seq [.s "a\";\"b"])
    rfl rfl (by decide +kernel) (by decide +kernel) (by decide +kernel) (by decide +kernel) (by decide +kernel) _
    (by decide +kernel)⟩

/-- the hypotheses are jointly satisfiable by a nested value with marks, a capsule,
a null, an unknown, a non-integer number and escapes; and `sameShape` does relate
different values: the tuples of `set_order_counterexample` (numbers that agree in
10 digits) and two differently refined unknowns -/
example : Ty.setFree (.object ["a", "b"] [.map (.tuple [.number, .capsule 1]), .list .string] []) = true ∧
    Payload.shaped (.object ["a", "b"] [.map (.tuple [.number, .capsule 1]), .list .string] [])
      (.smap ["a", "b"] [.smap ["k\"", "l"] [.seq [.n w5f, .caps], .null], .seq [.marked ["m"] (.s ";"), .unk (.str .f "x")]]) = true ∧
    Payload.numTextsOk (.smap ["a", "b"] [.smap ["k\"", "l"] [.seq [.n w5f, .caps], .null], .seq [.marked ["m"] (.s ";"), .unk (.str .f "x")]]) = true ∧
    Value.sameShape ⟨w6T, w6a⟩ ⟨w6T, w6b⟩ = true ∧
    Value.sameShape ⟨.list .string, .seq [.unk .unref]⟩ ⟨.list .string, .seq [.unk (.str .f "x")]⟩ = true ∧
    Value.sameShape ⟨.list .string, .seq [.s "a", .s "b"]⟩ ⟨.list .string, .seq [.s "a\";\"b"]⟩ = false := by
  decide +kernel

/-! #### sets of COMPOUND members: `Less`, iteration order, and what a tie can be -/

/-- the members: `intMember` (well-formed, wholly known, mark-free, integer numbers
at any precisions) whose strings the model can quote -/
def QMember (e : Ty) : Type := { p : Payload // p.intMember e = true ∧ p.quotable = true }

/-- `setRules{e}` restricted to those members (the very functions of `ctyRules e`) -/
def ctyRulesOnQ (e : Ty) : Rules (QMember e) where
  hash := fun p => (ctyRules e).hash p.1
  equiv := fun a b => (ctyRules e).equiv a.1 b.1
  less := (ctyRules e).less.map fun l a b => l a.1 b.1

theorem cty_rules_lawful_q (e : Ty) (hw : e.wf = true) (hp : e.plain = true) : (ctyRulesOnQ e).Lawful := by
  have sp := fun a : QMember e => Payload.intMember_spec a.2.1
  have eqv : ∀ a b : QMember e, (ctyRulesOnQ e).equiv a b = rawB e a.1 b.1 := fun a b =>
    ctyRules_equiv_eq hw hp (sp a).1 (sp a).2.1 (sp a).2.2.1 (sp b).1 (sp b).2.1 (sp b).2.2.1
  refine ⟨fun a => ?_, fun a b h => ?_, fun a b c h1 h2 => ?_, fun a b h => ?_⟩
  · rw [eqv]; exact rawB_refl e a.1 hp (sp a).1
  · rw [eqv] at h ⊢; rw [rawB_symm e b.1 a.1 hp (sp b).1 (sp a).1]; exact h
  · rw [eqv] at h1 h2 ⊢; exact rawB_trans e a.1 b.1 c.1 hp (sp a).1 (sp b).1 (sp c).1 h1 h2
  · rw [eqv] at h
    exact ctyRules_hash_eq_ints hp a.2.1 b.2.1 h

/-- **`setRules.Less` never fails on members of a compound element type** (list,
map, tuple, object — set-free, capsule-free) and is decided by the specification
`D03b.compLessB`: not `RawEquals`; null after non-null; otherwise the byte order
of the two hash texts.  `ctyRules.less` is what it returns (no default taken). -/
theorem setLess_total_compound (e : Ty) (hw : e.wf = true) (hp : e.plain = true) (hc : e.isPrim = false)
    (x y : QMember e) :
    setLess e x.1 y.1 = .ok (D03b.compLessB e x.1 y.1) ∧ ctyLessB e x.1 y.1 = D03b.compLessB e x.1 y.1 := by
  have h := D03b.ctyLessB_comp hw hp hc x.2 y.2
  exact ⟨by rw [h.1, h.2], h.2⟩

/-- **`setRules.Less` is a strict order on compound members, total between
inequivalent members of a tie-free list** — the hypothesis of
`values_order_indep_of_total` discharged for cty's rules beyond primitive element
types.  `Payload.tieFree` is decidable and is exactly what fails in the recorded
finding less-tied-inequivalent-members (`set_order_counterexample`). -/
theorem cty_less_strict_total_compound (e : Ty) (hw : e.wf = true) (hp : e.plain = true) (hc : e.isPrim = false)
    (l : List (QMember e)) (htf : Payload.tieFree e (l.map (·.1)) = true) :
    (ctyRulesOnQ e).less = some (fun a b => ctyLessB e a.1 b.1) ∧
    SetImpl.StrictTotalOn (ctyRulesOnQ e) (fun a b => ctyLessB e a.1 b.1) l := by
  have st := D03b.compLessB_strictTotal hp (l.map (·.1))
    (fun p hm => by obtain ⟨a, _, rfl⟩ := List.mem_map.mp hm; exact a.2)
    (D03b.tieFree_spec hw hp
      (fun p hm => by obtain ⟨a, _, rfl⟩ := List.mem_map.mp hm; exact (Payload.intMember_spec a.2.1).1) htf)
  have hl : ∀ a b : QMember e, ctyLessB e a.1 b.1 = D03b.compLessB e a.1 b.1 := fun a b =>
    (D03b.ctyLessB_comp hw hp hc a.2 b.2).2
  have mem : ∀ a ∈ l, a.1 ∈ l.map (·.1) := fun a ha => List.mem_map_of_mem ha
  have sp := fun a : QMember e => Payload.intMember_spec a.2.1
  refine ⟨rfl, fun a ha => ?_, fun a ha b hb c hc' h1 h2 => ?_, fun a ha b hb hne => ?_⟩
  · rw [hl]; exact st.1 _ (mem a ha)
  · rw [hl] at h1 h2 ⊢; exact st.2.1 _ (mem a ha) _ (mem b hb) _ (mem c hc') h1 h2
  · rw [hl, hl]
    have : (ctyRulesOnQ e).equiv a b = rawB e a.1 b.1 :=
      ctyRules_equiv_eq hw hp (sp a).1 (sp a).2.1 (sp a).2.2.1 (sp b).1 (sp b).2.1 (sp b).2.2.1
    rw [this] at hne
    exact st.2.2 _ (mem a ha) _ (mem b hb) hne

/-- **Value-level iteration order for compound members.**  Two sets of lists, maps,
tuples or objects (of strings, bools, integers, nulls) that hold the same tie-free
members — whatever the insertion order, bucket layout or history — iterate
identically. -/
theorem valueSet_iteration_order_indep_compound (e : Ty) (hw : e.wf = true) (hp : e.plain = true)
    (hc : e.isPrim = false) {s1 s2 : SetImpl (QMember e)} (h1 : SetImpl.Inv (ctyRulesOnQ e) s1)
    (hperm : (SetImpl.values s1).Perm (SetImpl.values s2))
    (htf : Payload.tieFree e ((SetImpl.values s1).map (·.1)) = true) :
    SetImpl.iter (ctyRulesOnQ e) s1 = SetImpl.iter (ctyRulesOnQ e) s2 := by
  have h := cty_less_strict_total_compound e hw hp hc (SetImpl.values s1) htf
  simp only [SetImpl.iter, h.1]
  exact values_order_indep_of_total _ h1 hperm h.2

/-- …in particular sets built from the same pairwise different tie-free inputs in any order. -/
theorem valueSet_insertion_order_indep_compound (e : Ty) (hw : e.wf = true) (hp : e.plain = true)
    (hc : e.isPrim = false) {l l' : List (QMember e)} (hl : SetImpl.Inequiv (ctyRulesOnQ e) l) (hperm : l.Perm l')
    (htf : Payload.tieFree e (l.map (·.1)) = true) :
    SetImpl.iter (ctyRulesOnQ e) (SetImpl.fromList (ctyRulesOnQ e) l) =
      SetImpl.iter (ctyRulesOnQ e) (SetImpl.fromList (ctyRulesOnQ e) l') := by
  have h := cty_less_strict_total_compound e hw hp hc l htf
  have hR := cty_rules_lawful_q e hw hp
  simp only [SetImpl.iter, h.1]
  exact values_order_indep_of_insertion hR _ hl hperm h.2

/-- **What a `Less` tie can be** (the classification `c03TieExplained` of the
harness, proved): two compound members that are not `Equals` and that
`setRules.Less` orders neither way are `sameShape` — same structure, strings,
bools and nulls; they differ only in number leaves that agree in 10 significant
digits.  So the recorded finding less-tied-inequivalent-members has no other
cause on set-free capsule-free wholly known members. -/
theorem less_tie_explained (e : Ty) (hw : e.wf = true) (hp : e.plain = true) (hsf : e.setFree = true)
    (hc : e.isPrim = false) (x y : QMember e) (nx : x.1.numTextsOk = true) (ny : y.1.numTextsOk = true)
    (hne : (ctyRulesOnQ e).equiv x y = false) (h1 : ctyLessB e x.1 y.1 = false) (h2 : ctyLessB e y.1 x.1 = false) :
    Value.sameShape ⟨e, x.1⟩ ⟨e, y.1⟩ = true := by
  have sp := fun a : QMember e => Payload.intMember_spec a.2.1
  have : (ctyRulesOnQ e).equiv x y = rawB e x.1 y.1 :=
    ctyRules_equiv_eq hw hp (sp x).1 (sp x).2.1 (sp x).2.2.1 (sp y).1 (sp y).2.1 (sp y).2.2.1
  rw [this] at hne
  rw [(D03b.ctyLessB_comp hw hp hc x.2 y.2).2] at h1
  rw [(D03b.ctyLessB_comp hw hp hc y.2 x.2).2] at h2
  exact D03b.tie_sameShape hw hp hsf x.2 y.2 nx ny hne h1 h2

/-- a tie-free list of tuples (strings, integers at two precisions, a null member);
the tied pair of `set_order_counterexample` is not tie-free, is `sameShape`, and
`less_tie_explained` applies to it -/
example : Payload.tieFree (.tuple [.string, .number])
      [.seq [.s "a", .n (Num.ofInt 1 64)], .seq [.s "a", .n (.fin false 1 70 53)], .null, .seq [.s "b;", .null]] = true ∧
    Payload.tieFree w6T [w6a, w6b] = false ∧ Payload.intMember w6T w6a = true ∧ Payload.intMember w6T w6b = true ∧
    Value.sameShape ⟨w6T, w6a⟩ ⟨w6T, w6b⟩ = true := by decide +kernel


/-! #### values that CONTAIN SETS (sets of sets, lists of sets, objects with set attributes)

`appendSetHashBytes`, `RawEquals` and `Less` read a set-typed value through its
iteration order, which `Less` itself defines.  `D03b.canon` writes that reading
out: every set node becomes the LIST of its members sorted by the specification of
`Less` (`D03b.lessEnc`), `D03b.enc` turns `set e` into `list e`; and
`D03b.S_all` proves, by induction over the nesting levels `lvl n` that the model
functions are tied through, that the transliterations `hashS`/`rawK`/`Lvl.less`/
`Lvl.iter` compute on a set-containing value exactly what they compute on its
set-free transliteration.  Carrier (`D03b.G`, `D03b.capFree`): well-formed, no
mark, quotable strings, no capsule type — sets at ANY depth, members null, unknown
(any refinement) or known, numbers of any kind. -/

/-- **`RawEquals` on values with sets never fails and is an equivalence relation** —
the first clause of C03 beyond set-free types: it is `RawEquals` of the
transliterations. -/
theorem rawEquals_equiv_with_sets (t : Ty) (hc : D03b.capFree t = true) (a b c : Payload)
    (ha : D03b.G t a) (hb : D03b.G t b) (hc' : D03b.G t c) :
    rawEq ⟨t, a⟩ ⟨t, b⟩ = .ok (rawB (D03b.enc t) (D03b.canon t a) (D03b.canon t b)) ∧
    rawEq ⟨t, a⟩ ⟨t, a⟩ = .ok true ∧
    rawEq ⟨t, a⟩ ⟨t, b⟩ = rawEq ⟨t, b⟩ ⟨t, a⟩ ∧
    (rawEq ⟨t, a⟩ ⟨t, b⟩ = .ok true → rawEq ⟨t, b⟩ ⟨t, c⟩ = .ok true → rawEq ⟨t, a⟩ ⟨t, c⟩ = .ok true) := by
  have pl := D03b.enc_plain t hc
  have sa := (D03b.canon_G t a ha).1
  have sb := (D03b.canon_G t b hb).1
  have sc := (D03b.canon_G t c hc').1
  simp only [rawEq]
  rw [D03b.rawEqP_enc hc ha hb, D03b.rawEqP_enc hc ha ha, D03b.rawEqP_enc hc hb ha, D03b.rawEqP_enc hc hb hc',
    D03b.rawEqP_enc hc ha hc', rawB_refl _ _ pl sa, rawB_symm _ _ _ pl sb sa]
  refine ⟨rfl, rfl, rfl, fun h1 h2 => ?_⟩
  simp only [Res.ok.injEq] at h1 h2 ⊢
  exact rawB_trans _ _ _ _ pl sa sb sc h1 h2

/-- **Hashing a value with sets never fails**, and the hash text is the hash text of
the transliteration (a set hashes as the list of its members in `Less` order). -/
theorem hash_with_sets (t : Ty) (hc : D03b.capFree t = true) (a : Payload) (ha : D03b.G t a) :
    hashBytes ⟨t, a⟩ = hashBytes ⟨D03b.enc t, D03b.canon t a⟩ ∧ ∃ bs, hashBytes ⟨t, a⟩ = .ok bs ∧
      Value.hash ⟨t, a⟩ = .ok (crc32 bs) := by
  have g := D03b.canon_G t a ha
  have e : hashBytes ⟨t, a⟩ = hashBytes ⟨D03b.enc t, D03b.canon t a⟩ := D03b.hashBytesP_enc hc ha
  obtain ⟨bs, h1, _⟩ := hash_ok (D03b.enc_plain t hc) g.1 g.2.1 g.2.2
  refine ⟨e, bs, e.trans h1, ?_⟩
  simp only [Value.hash, e.trans h1, Value.containsMarked, ha.2.1]
  rfl

/-- **`RawEquals` values with sets hash alike** when their numbers are integers (at
any precisions): the clause "equal values have the same hash" for values with sets
at any depth, for the equality `RawEquals`. -/
theorem rawEquals_same_hash_with_sets (t : Ty) (hc : D03b.capFree t = true) (a b : Payload)
    (ha : D03b.G t a) (hb : D03b.G t b) (ia : a.intNums = true) (ib : b.intNums = true)
    (h : rawEq ⟨t, a⟩ ⟨t, b⟩ = .ok true) :
    hashBytes ⟨t, a⟩ = hashBytes ⟨t, b⟩ ∧ Value.hash ⟨t, a⟩ = Value.hash ⟨t, b⟩ := by
  rw [(rawEquals_equiv_with_sets t hc a b b ha hb hb).1] at h
  simp only [Res.ok.injEq] at h
  have hbytes : hashBytes ⟨t, a⟩ = hashBytes ⟨t, b⟩ := by
    rw [(hash_with_sets t hc a ha).1, (hash_with_sets t hc b hb).1]
    exact hashBytesP_eq_of_rawB_ints (D03b.enc_plain t hc) (D03b.canon_G t a ha).1 (D03b.canon_intNums ia)
      (D03b.canon_G t b hb).1 (D03b.canon_intNums ib) h
  exact ⟨hbytes, hash_eq_of_hashBytes_eq hbytes (by simp [Value.containsMarked, ha.2.1, hb.2.1])⟩

/-- **The hash text of values with sets is injective up to `sameShape` of the
transliterations**: equal hash texts ⇒ the same structure with every set read in
iteration order, equal strings, bools and nulls. -/
theorem hash_text_injective_with_sets (t : Ty) (hc : D03b.capFree t = true) (a b : Payload)
    (ha : D03b.G t a) (hb : D03b.G t b) (na : a.numTextsOk = true) (nb : b.numTextsOk = true)
    (h : Bytes) (h1 : hashBytes ⟨t, a⟩ = .ok h) (h2 : hashBytes ⟨t, b⟩ = .ok h) :
    sameShape (fun _ _ _ => false) (D03b.enc t) (D03b.canon t a) (D03b.canon t b) = true := by
  rw [(hash_with_sets t hc a ha).1] at h1
  rw [(hash_with_sets t hc b hb).1] at h2
  have pl := D03b.enc_plain t hc
  have sf : (D03b.enc t).setFree = true := D03b.setFree_of_plain _ pl
  exact D03b.sameShape_of_hashS_eq _ _ _ sf (D03b.canon_G t a ha).1 (D03b.canon_G t b hb).1
    (D03b.canon_numTextsOk na) (D03b.canon_numTextsOk nb) (by rw [← D03b.hashBytesP_eq]; exact h1)
    (by rw [← D03b.hashBytesP_eq]; exact h2)

/-- **`Less` and the iteration of a set value never fail** on such members (sets of
sets included); `Less` is the specification `lessEnc` on the transliterated
members and the iteration is the stable sort by it. -/
theorem setIter_total_with_sets (e : Ty) (hc : D03b.capFree e = true) (vs : List Payload) (hg : D03b.GAll e vs) :
    setIter e vs = .ok (SetImpl.sortStable (fun x y => D03b.lessEnc e (D03b.canon e x) (D03b.canon e y)) vs) ∧
    ∀ x ∈ vs, ∀ y ∈ vs, setLess e x y = .ok (ctyLessB e x y) ∧
      ctyLessB e x y = D03b.lessEnc e (D03b.canon e x) (D03b.canon e y) :=
  ⟨D03b.setIter_enc hc hg, fun x hx y hy =>
    D03b.ctyLessB_enc hc (D03b.GAll_iff.mp hg x hx) (D03b.GAll_iff.mp hg y hy)⟩

/-- **Less-sorted iteration is a function of the member set** on the carrier where
`Less` is a strict total order (`Payload.lessStrictTotal`, decidable: it runs
`setRules.Less` on all pairs and triples of the members): two set values — of
strings, of tuples, of SETS, of lists of sets … — that hold the same members in any
bucket layout iterate identically, are `RawEquals`, and have the same hash text
and `Hash`. -/
theorem set_value_function_of_members (e : Ty) (hc : D03b.capFree e = true) (ix iy : List Int) (xs ys : List Payload)
    (lx : ix.length = xs.length) (ly : iy.length = ys.length) (gx : D03b.GAll e xs) (hperm : xs.Perm ys)
    (ht : Payload.lessStrictTotal e xs = true) :
    setIter e xs = setIter e ys ∧
    rawEq ⟨.set e, .sset ix xs⟩ ⟨.set e, .sset iy ys⟩ = .ok true ∧
    hashBytes ⟨.set e, .sset ix xs⟩ = hashBytes ⟨.set e, .sset iy ys⟩ ∧
    Value.hash ⟨.set e, .sset ix xs⟩ = Value.hash ⟨.set e, .sset iy ys⟩ := by
  have st := D03b.strictTotalB_spec ht
  have gy : D03b.GAll e ys := D03b.GAll_iff.mpr fun v hv => D03b.GAll_iff.mp gx v (hperm.mem_iff.mpr hv)
  have hcs : D03b.capFree (.set e) = true := hc
  have ga : D03b.G (.set e) (.sset ix xs) :=
    ⟨by simp [Payload.shaped, lx, gx.1], by simpa [Payload.containsMarked] using gx.2.1, by simpa [Payload.quotable] using gx.2.2⟩
  have gb : D03b.G (.set e) (.sset iy ys) :=
    ⟨by simp [Payload.shaped, ly, gy.1], by simpa [Payload.containsMarked] using gy.2.1, by simpa [Payload.quotable] using gy.2.2⟩
  have hcan : D03b.canon (.set e) (.sset ix xs) = D03b.canon (.set e) (.sset iy ys) := by
    have := D03b.canonSet_perm hc gx hperm st
    simpa [D03b.canon, D03b.canonSet] using this
  have hraw : rawEq ⟨.set e, .sset ix xs⟩ ⟨.set e, .sset iy ys⟩ = .ok true := by
    rw [(rawEquals_equiv_with_sets _ hcs _ _ _ ga gb gb).1, hcan,
      rawB_refl _ _ (D03b.enc_plain _ hcs) (D03b.canon_G _ _ gb).1]
  have hbytes : hashBytes ⟨.set e, .sset ix xs⟩ = hashBytes ⟨.set e, .sset iy ys⟩ := by
    rw [(hash_with_sets _ hcs _ ga).1, (hash_with_sets _ hcs _ gb).1, hcan]
  exact ⟨D03b.setIter_perm hc gx hperm st, hraw, hbytes,
    hash_eq_of_hashBytes_eq hbytes (by simp [Value.containsMarked, ga.2.1, gb.2.1])⟩

/-- the carrier is inhabited by a set of sets of strings, a set of lists of sets of
numbers and a set holding an unknown and a null; the tied tuples of
`set_order_counterexample` are outside it -/
example :
    Payload.lessStrictTotal (.set .string)
      [.sset [1, 2] [.s "a", .s "b"], .sset [3] [.s "a"], .sset [] [], .null] = true ∧
    Payload.lessStrictTotal (.list (.set .number))
      [.seq [.sset [5] [.n (Num.ofInt 1 64)]], .seq [.sset [5, 6] [.n (Num.ofInt 1 64), .n (.fin false 1 70 53)]], .seq []] = true ∧
    Payload.lessStrictTotal .string [.s "x", .unk .unref, .null] = true ∧
    Payload.lessStrictTotal w6T [w6a, w6b] = false := by decide +kernel

example : D03b.G (.set (.set .string)) (.sset [7, 8] [.sset [1, 2] [.s "a", .s "b;\""], .sset [3] [.unk (.str .f "p")]]) ∧
    D03b.capFree (.set (.set .string)) = true :=
  ⟨⟨by decide +kernel, by decide +kernel, by decide +kernel⟩, rfl⟩


/-! #### `Equals` on values with sets at any depth

`Value.Equals` on two sets looks every member of either set up in the other with
`Has` (hash bucket, then `Equals` on the members) — a different algorithm from
`RawEquals` (compare the two iteration orders position by position).  On values
all of whose set nodes are well-formed (`Payload.deepMember`, decidable: shaped,
mark-free, quotable, wholly known, integer numbers; at every set node the bucket
ids are the member hashes, no two members are `RawEquals`, and `Less` is a strict
total order on the members) the two coincide — for sets of sets, lists of sets,
objects with set attributes, to any depth (`D03b.equalsFuel_ok'`; the set branch
is `D03b.setEquals_spec` over `D03b.sorted_match`). -/

/-- **`Equals` = `RawEquals` on wholly known values with sets**: the clause "agrees
with raw equality on wholly known values of the same type", beyond set-free types;
in particular `Equals` never fails there and returns a known bool. -/
theorem equals_eq_rawEquals_with_sets (t : Ty) (hc : D03b.capFree t = true) (a b : Payload)
    (ha : a.deepMember t = true) (hb : b.deepMember t = true) :
    equals ⟨t, a⟩ ⟨t, b⟩ = (rawEq ⟨t, a⟩ ⟨t, b⟩).map boolVal ∧
    (equals ⟨t, a⟩ ⟨t, b⟩ = .ok (boolVal true) ↔ rawEq ⟨t, a⟩ ⟨t, b⟩ = .ok true) := by
  have wa := D03b.W.of ha
  have wb := D03b.W.of hb
  rw [D03b.equals_full hc wa wb, (rawEquals_equiv_with_sets t hc a b b wa.m.1 wb.m.1 wb.m.1).1]
  refine ⟨rfl, ?_⟩
  simp only [D03b.R']
  cases rawB (D03b.enc t) (D03b.canon t a) (D03b.canon t b) <;> simp [boolVal]

/-- …so there **`Equals` is reflexive, symmetric and transitive, and `Equals`-true
values have the same hash text and `Hash`** ("any two values that are equal have the
same hash", for values with sets). -/
theorem equals_equiv_with_sets (t : Ty) (hc : D03b.capFree t = true) (a b c : Payload)
    (ha : a.deepMember t = true) (hb : b.deepMember t = true) (hc' : c.deepMember t = true) :
    equals ⟨t, a⟩ ⟨t, a⟩ = .ok (boolVal true) ∧
    equals ⟨t, a⟩ ⟨t, b⟩ = equals ⟨t, b⟩ ⟨t, a⟩ ∧
    (equals ⟨t, a⟩ ⟨t, b⟩ = .ok (boolVal true) → equals ⟨t, b⟩ ⟨t, c⟩ = .ok (boolVal true) →
      equals ⟨t, a⟩ ⟨t, c⟩ = .ok (boolVal true)) ∧
    (equals ⟨t, a⟩ ⟨t, b⟩ = .ok (boolVal true) →
      hashBytes ⟨t, a⟩ = hashBytes ⟨t, b⟩ ∧ Value.hash ⟨t, a⟩ = Value.hash ⟨t, b⟩) := by
  have wa := D03b.W.of ha
  have wb := D03b.W.of hb
  have wc := D03b.W.of hc'
  have q := rawEquals_equiv_with_sets t hc a b c wa.m.1 wb.m.1 wc.m.1
  have eaa := equals_eq_rawEquals_with_sets t hc a a ha ha
  have eab := equals_eq_rawEquals_with_sets t hc a b ha hb
  have eba := equals_eq_rawEquals_with_sets t hc b a hb ha
  have ebc := equals_eq_rawEquals_with_sets t hc b c hb hc'
  have eac := equals_eq_rawEquals_with_sets t hc a c ha hc'
  refine ⟨eaa.2.mpr q.2.1, by rw [eab.1, eba.1, q.2.2.1], fun h1 h2 => eac.2.mpr (q.2.2.2 (eab.2.mp h1) (ebc.2.mp h2)),
    fun h => rawEquals_same_hash_with_sets t hc a b wa.m.1 wb.m.1 wa.m.2.2 wb.m.2.2 (eab.2.mp h)⟩

/-- the admitted members of a set whose element type may itself contain sets -/
def DeepMember (e : Ty) : Type := { p : Payload // p.deepMember e = true }

/-- `setRules{e}` restricted to those members (the very functions of `ctyRules e`) -/
def ctyRulesOnDeep (e : Ty) : Rules (DeepMember e) where
  hash := fun p => (ctyRules e).hash p.1
  equiv := fun a b => (ctyRules e).equiv a.1 b.1
  less := (ctyRules e).less.map fun l a b => l a.1 b.1

/-- **cty's `setRules` meet the contract of `cty/set` for element types that contain
sets** (sets of sets, sets of lists of sets, sets of objects with set attributes …):
`Equivalent` is an equivalence on the admitted members and equivalent members hash
alike. -/
theorem cty_rules_lawful_with_sets (e : Ty) (hc : D03b.capFree e = true) : (ctyRulesOnDeep e).Lawful := by
  have eqv : ∀ a b : DeepMember e, (ctyRulesOnDeep e).equiv a b = true ↔
      equals ⟨e, a.1⟩ ⟨e, b.1⟩ = .ok (boolVal true) := fun a b => by
    have h := D03b.equals_full hc (D03b.W.of a.2) (D03b.W.of b.2)
    simp only [ctyRulesOnDeep, ctyRules, h]
    cases D03b.R' e a.1 b.1 <;> simp [boolVal, Value.isMarked, Payload.isMarked, Value.isTrue]
  refine ⟨fun a => ?_, fun a b h => ?_, fun a b c h1 h2 => ?_, fun a b h => ?_⟩
  · rw [eqv]; exact (equals_equiv_with_sets e hc a.1 a.1 a.1 a.2 a.2 a.2).1
  · rw [eqv] at h ⊢
    rw [← (equals_equiv_with_sets e hc a.1 b.1 b.1 a.2 b.2 b.2).2.1]; exact h
  · rw [eqv] at h1 h2 ⊢
    exact (equals_equiv_with_sets e hc a.1 b.1 c.1 a.2 b.2 c.2).2.2.1 h1 h2
  · rw [eqv] at h
    have := ((equals_equiv_with_sets e hc a.1 b.1 b.1 a.2 b.2 b.2).2.2.2 h).2
    simp only [ctyRulesOnDeep, ctyRules, this]

/-- **The defaults of `ctyRules` are not taken on these members either** (audit item 4,
for element types with sets): `Value.Hash` returns and `ctyRules.hash` is what it
returns; `Equals` returns the known bool `ctyRules.equiv`; `setRules.Less` returns
`ctyRules.less`.  So `Lawful.hash_eq` above is a statement about the real hash. -/
theorem cty_rules_are_the_real_functions_with_sets (e : Ty) (hc : D03b.capFree e = true) (a b : DeepMember e) :
    Value.hash ⟨e, a.1⟩ = .ok ((ctyRules e).hash a.1) ∧
    equals ⟨e, a.1⟩ ⟨e, b.1⟩ = .ok (boolVal ((ctyRules e).equiv a.1 b.1)) ∧
    setLess e a.1 b.1 = .ok (ctyLessB e a.1 b.1) ∧ (ctyRules e).less = some (ctyLessB e) := by
  have wa := D03b.W.of a.2
  have wb := D03b.W.of b.2
  obtain ⟨bs, _, h2⟩ := (hash_with_sets e hc a.1 wa.m.1).2
  have h3 := D03b.equals_full hc wa wb
  refine ⟨by simp only [ctyRules, h2], ?_, (D03b.ctyLessB_enc hc wa.m.1 wb.m.1).1, rfl⟩
  rw [h3]
  simp only [ctyRules, h3]
  cases D03b.R' e a.1 b.1 <;> rfl

/-- **Value sets whose members contain sets refine mathematical sets** (`set_refines`,
`set_inv` at `setRules{e}`): every history keeps the invariant, ends in the
mathematical results and answers every call as the mathematical sets dictate. -/
theorem valueSet_refines_with_sets (e : Ty) (hc : D03b.capFree e = true)
    (ops : List (SetOp (DeepMember e))) (st : List (SetImpl (DeepMember e)))
    (h : ∀ i, SetImpl.Inv (ctyRulesOnDeep e) (SetImpl.getReg st i)) :
    (∀ i, SetImpl.Inv (ctyRulesOnDeep e) (SetImpl.getReg (SetImpl.runRegs (ctyRulesOnDeep e) ops st).1 i)) ∧
    SetImpl.absRegs (ctyRulesOnDeep e) (SetImpl.runRegs (ctyRulesOnDeep e) ops st).1 =
      SetImpl.specRun (ctyRulesOnDeep e) ops (SetImpl.absRegs (ctyRulesOnDeep e) st) ∧
    SetImpl.OutsOk (ctyRulesOnDeep e) (SetImpl.absRegs (ctyRulesOnDeep e) st) ops
      (SetImpl.runRegs (ctyRulesOnDeep e) ops st).2 :=
  have hR := cty_rules_lawful_with_sets e hc
  ⟨set_inv hR ops st h, set_refines hR ops st h⟩

/-- the carrier holds a list of sets, an object with a set attribute and a set of sets -/
example :
    Payload.deepMember (.list (.set .string))
      (.seq [.sset [(ctyRules .string).hash (.s "a"), (ctyRules .string).hash (.s "b")] [.s "a", .s "b"], .sset [] [], .null]) = true ∧
    Payload.deepMember (.object ["s"] [.set .number] [])
      (.smap ["s"] [.sset [(ctyRules .number).hash (.n (.fin false 1 70 53))] [.n (.fin false 1 70 53)]]) = true ∧
    Payload.deepMember (.set (.set .bool))
      (.sset [(ctyRules (.set .bool)).hash (.sset [(ctyRules .bool).hash (.b true)] [.b true])]
        [.sset [(ctyRules .bool).hash (.b true)] [.b true]]) = true := by decide +kernel

/-- well-formed set nodes exist: the two sets `{"a","b"}` built in either order (same
ids, members stored in bucket order), a set of two integers at different
precisions, the empty set; the set holding the two tied tuples of
`set_order_counterexample` is NOT well-formed (its `Less` is not total) -/
example : Payload.setWF .string [(ctyRules .string).hash (.s "a"), (ctyRules .string).hash (.s "b")] [.s "a", .s "b"] = true ∧
    Payload.setWF .number [(ctyRules .number).hash (.n (.fin false 1 70 53)), (ctyRules .number).hash (.n (Num.ofInt 3 64))]
      [.n (.fin false 1 70 53), .n (Num.ofInt 3 64)] = true ∧
    Payload.setWF (.tuple [.string]) [] [] = true ∧
    Payload.setWF w6T [3407990228, 3407990228] [w6a, w6b] = false := by decide +kernel

/-! #### capsule types: the `Equals` / `HashKey` parameters instantiated -/

/-- **`setRules` of a capsule type meet the contract of `cty/set`** whenever the
type's `Equals` (else `RawEquals`, else pointer identity) is an equivalence and
capsules it equates have the same `HashKey` (or there is no `HashKey`) —
`CapsuleOps.rules` follows the capsule branches of `Value.Equals`
(value_ops.go:379) and `appendSetHashBytes` (set_internals.go:255). -/
theorem capsule_rules_lawful (ops : CapsuleOps) (h : ops.Lawful) : ops.rules.Lawful :=
  CapsuleOps.rules_lawful h

/-- …so every history of `ValueSet` calls over capsule values refines mathematical
sets (`set_refines`, `set_inv` at these rules). -/
theorem capsule_valueSet_refines (ops : CapsuleOps) (h : ops.Lawful) (hist : List (SetOp Nat)) (st : List (SetImpl Nat))
    (hi : ∀ i, SetImpl.Inv ops.rules (SetImpl.getReg st i)) :
    (∀ i, SetImpl.Inv ops.rules (SetImpl.getReg (SetImpl.runRegs ops.rules hist st).1 i)) ∧
    SetImpl.absRegs ops.rules (SetImpl.runRegs ops.rules hist st).1 =
      SetImpl.specRun ops.rules hist (SetImpl.absRegs ops.rules st) ∧
    SetImpl.OutsOk ops.rules (SetImpl.absRegs ops.rules st) hist (SetImpl.runRegs ops.rules hist st).2 :=
  have hR := capsule_rules_lawful ops h
  ⟨set_inv hR hist st hi, set_refines hR hist st hi⟩

/-- the two lawful instances: no operations at all (pointer identity, one hash for
every capsule), and `Equals` = "same key" with `HashKey` = that key -/
theorem capsule_lawful_instances (k : Nat → String) :
    CapsuleOps.plainOps.Lawful ∧ CapsuleOps.plainOps.valid = true ∧ (CapsuleOps.keyedOps k).Lawful ∧
      (CapsuleOps.keyedOps k).KeyInjective ∧ (CapsuleOps.keyedOps k).valid = true :=
  ⟨CapsuleOps.plainOps_lawful, rfl, CapsuleOps.keyedOps_lawful k, CapsuleOps.keyedOps_injective k, rfl⟩

/-- **`Less` on capsules is a strict order, total between inequivalent capsules**,
when moreover the hash key separates inequivalent capsules ("`HashKey` injective up
to `Equals`"), `RawEquals` agrees with `Equals`, and the keys are quotable — then a
set of capsules iterates in an order that depends only on its members. -/
theorem capsule_iteration_order_indep (ops : CapsuleOps) (h : ops.Lawful) (hi : ops.KeyInjective)
    (hr : ∀ a b, ops.rawEqv a b = ops.eqv a b) (hq : ∀ a, ∃ x, ops.hashText a = .ok x) {s1 s2 : SetImpl Nat}
    (h1 : SetImpl.Inv ops.rules s1) (hperm : (SetImpl.values s1).Perm (SetImpl.values s2)) :
    SetImpl.StrictTotalOn ops.rules ops.lessB (SetImpl.values s1) ∧
    SetImpl.iter ops.rules s1 = SetImpl.iter ops.rules s2 := by
  have ht := CapsuleOps.less_strictTotal h hi hr hq (SetImpl.values s1)
  refine ⟨ht, ?_⟩
  simp only [SetImpl.iter, CapsuleOps.rules]
  exact values_order_indep_of_total _ h1 hperm ht

/-- the full-strength clauses for capsule types: lawful whatever the callbacks;
iteration order a function of the members -/
def CapsuleRulesLawful : Prop := ∀ ops : CapsuleOps, ops.rules.Lawful
def CapsuleOrderIndependent : Prop :=
  ∀ (ops : CapsuleOps) (l l' : List Nat), ops.Lawful → l.Perm l' →
    SetImpl.iter ops.rules (SetImpl.fromList ops.rules l) = SetImpl.iter ops.rules (SetImpl.fromList ops.rules l')

/-- **What breaks otherwise (1).**  A `HashKey` FINER than `Equals` (every capsule
equal, two different keys): the rules are not lawful, and the set built from
capsules 0 and 1 holds both although they are `Equals`. -/
theorem capsule_hashkey_finer_counterexample :
    let ops := CapsuleOps.finerKeyOps
    ops.valid = true ∧ ops.eqv 0 1 = true ∧ ops.rules.hash 0 ≠ ops.rules.hash 1 ∧
    SetImpl.values (SetImpl.fromList ops.rules [0, 1]) = [1, 0] ∧ ¬ ops.rules.Lawful := by
  refine ⟨rfl, by decide +kernel, by decide +kernel, by decide +kernel, fun h => ?_⟩
  exact absurd (h.hash_eq 0 1 (by decide +kernel)) (by decide +kernel)

theorem capsule_rules_lawful_false : ¬ CapsuleRulesLawful :=
  fun h => capsule_hashkey_finer_counterexample.2.2.2.2 (h _)

/-- **What breaks otherwise (2).**  Without a `HashKey` every capsule has the hash
text `«?»`: the rules are lawful, but `Less` orders no two capsules, all share one
bucket, and iteration order is insertion order (the property statement excludes
capsule members from the iteration-order clause for this reason). -/
theorem capsule_order_counterexample :
    let ops := CapsuleOps.plainOps
    ops.Lawful ∧ ops.lessB 1 2 = false ∧ ops.lessB 2 1 = false ∧
    SetImpl.iter ops.rules (SetImpl.fromList ops.rules [1, 2]) = [1, 2] ∧
    SetImpl.iter ops.rules (SetImpl.fromList ops.rules [2, 1]) = [2, 1] := by
  refine ⟨CapsuleOps.plainOps_lawful, ?_, ?_, ?_, ?_⟩ <;> decide +kernel

theorem capsule_order_independent_false : ¬ CapsuleOrderIndependent := by
  intro h
  have c := capsule_order_counterexample
  have := h CapsuleOps.plainOps [1, 2] [2, 1] c.1 (List.Perm.swap _ _ [])
  rw [c.2.2.2.1, c.2.2.2.2] at this
  cases this

/-- the keyed instance satisfies every hypothesis of `capsule_iteration_order_indep`
(keys "k0", "k1" by parity) -/
example : let ops := CapsuleOps.keyedOps fun a => if a % 2 == 0 then "k0" else "k1"
    ops.Lawful ∧ ops.KeyInjective ∧ (∀ a b, ops.rawEqv a b = ops.eqv a b) ∧ (∀ a, ∃ x, ops.hashText a = .ok x) := by
  refine ⟨CapsuleOps.keyedOps_lawful _, CapsuleOps.keyedOps_injective _, fun a b => rfl, fun a => ?_⟩
  simp only [CapsuleOps.hashText, CapsuleOps.keyedOps]
  by_cases h : (a % 2 == 0) = true
  · rw [if_pos h]; exact app_ok ⟨_, rfl⟩ (app_ok (ok_of_isOk (by decide +kernel)) ⟨_, rfl⟩)
  · rw [if_neg h]; exact app_ok ⟨_, rfl⟩ (app_ok (ok_of_isOk (by decide +kernel)) ⟨_, rfl⟩)

end Values
/-! ######################## end of SECTION «values» ######################## -/

/-! ########################################################################
## SECTION «cty/set, regenerated» — the same clauses about the SOURCE TEXT

`Generated/SetFns.lean` is rewritten from `cty/set/{set,ops,iterator}.go` by
`extract/translate_set.go` on every check; `Lemmas/SetFnsTie.lean` proves each
translated function equal to the `SetImpl` function of section «cty/set».  The
`…_generated` theorems restate the clauses of that section about the generated
definitions: a Go set is its map `vals` (an association list, `s.buckets`) and
its `rules`; `ord` is the order in which Go's `range` visits a map — ANY
function returning a permutation (`MapOrder`), so nothing below depends on it;
`same` is `Rules.SameRules`.  None of the translated functions panics, runs out
of loop fuel or lets a zero value escape on a set satisfying the invariant.
######################################################################## -/
section SetGenerated
open SetImpl SetGo SetFnsTie Generated.SetFns
variable {α : Type} {R : Rules α}

/-- `Has`, as written in ops.go, decides membership in the mathematical set. -/
theorem set_refines_has_generated (hR : R.Lawful) {s : SetImpl α} (h : Inv R s) (x : α) :
    (∃ b, Set_Has s.buckets R x = .ok b) ∧ (Set_Has s.buckets R x = .ok true ↔ abs R s x) := by
  rw [Set_Has_eq]
  exact ⟨⟨_, rfl⟩, by simpa using set_refines_has hR h x⟩

/-- `Add`, `Remove`, `Copy`, as written in ops.go, return (the maps of) sets that satisfy the invariant and
stand for `S ∪ {x}`, `S ∖ {x}`, `S` — `Copy` whatever order `range` visits the buckets in. -/
theorem set_refines_mutators_generated (hR : R.Lawful) {s : SetImpl α} (h : Inv R s)
    (ord : GoMap α → GoMap α) (ho : MapOrder ord) (x y : α) :
    ∃ a r c, Set_Add s.buckets R x = .ok a ∧ Set_Remove s.buckets R x = .ok r ∧
      Set_Copy ord s.buckets R = .ok ⟨c, R⟩ ∧
      Inv R ⟨a⟩ ∧ Inv R ⟨r⟩ ∧ Inv R ⟨c⟩ ∧ c = s.buckets ∧
      (abs R ⟨a⟩ y ↔ abs R s y ∨ R.equiv y x = true) ∧
      (abs R ⟨r⟩ y ↔ abs R s y ∧ ¬ R.equiv y x = true) ∧ (abs R ⟨c⟩ y ↔ abs R s y) :=
  have hi := set_inv_mutators hR h x
  have hr := set_refines_mutators hR h x y
  ⟨_, _, _, Set_Add_eq R s x, Set_Remove_eq R s x, Set_Copy_eq ord ho R s h.asc, hi.1, hi.2.1, hi.2.2,
    by rw [copy_is_snapshot h], hr.1, hr.2.1, hr.2.2.1⟩

/-- `Union`, `Intersection`, `Subtract`, `SymmetricDifference`, as written in ops.go (closures over `EachValue`,
the iterator loop, `Values`, `Has`, `Add`), return sets with the operands' rules that satisfy the invariant and
stand for ∪, ∩, ∖, △ — provided `SameRules` accepts the shared rules; otherwise all four panic. -/
theorem set_refines_algebra_generated (hR : R.Lawful) {s1 s2 : SetImpl α} (h1 : Inv R s1) (h2 : Inv R s2)
    (same : Rules α → Rules α → Bool) (hs : same R R = true) (ord : GoMap α → GoMap α) (ho : MapOrder ord) (y : α) :
    ∃ u i d sd, Set_Union same ord s1.buckets R s2.buckets R = .ok ⟨u, R⟩ ∧
      Set_Intersection same ord s1.buckets R s2.buckets R = .ok ⟨i, R⟩ ∧
      Set_Subtract same ord s1.buckets R s2.buckets R = .ok ⟨d, R⟩ ∧
      Set_SymmetricDifference same ord s1.buckets R s2.buckets R = .ok ⟨sd, R⟩ ∧
      Inv R ⟨u⟩ ∧ Inv R ⟨i⟩ ∧ Inv R ⟨d⟩ ∧ Inv R ⟨sd⟩ ∧
      (abs R ⟨u⟩ y ↔ abs R s1 y ∨ abs R s2 y) ∧ (abs R ⟨i⟩ y ↔ abs R s1 y ∧ abs R s2 y) ∧
      (abs R ⟨d⟩ y ↔ abs R s1 y ∧ ¬ abs R s2 y) ∧
      (abs R ⟨sd⟩ y ↔ (abs R s1 y ∧ ¬ abs R s2 y) ∨ (abs R s2 y ∧ ¬ abs R s1 y)) :=
  have hi := set_inv_algebra hR s1 s2
  have hr := set_refines_algebra hR h1 h2 y
  ⟨_, _, _, _, Set_Union_eq same ord ho R s1 s2 h1.asc h2.asc hs, Set_Intersection_eq same ord ho R s1 s2 h1.asc hs,
    Set_Subtract_eq same ord ho R s1 s2 h1.asc hs, Set_SymmetricDifference_eq same ord ho R s1 s2 h1.asc h2.asc hs,
    hi.1, hi.2.1, hi.2.2.1, hi.2.2.2.1, hr.1, hr.2.1, hr.2.2.1, hr.2.2.2⟩

theorem set_algebra_incompatible_rules_generated (same : Rules α → Rules α → Bool) (ord : GoMap α → GoMap α)
    (R1 R2 : Rules α) (m1 m2 : GoMap α) (hne : same R1 R2 = false) :
    (∃ w, Set_Union same ord m1 R1 m2 R2 = .panic w) ∧ (∃ w, Set_Intersection same ord m1 R1 m2 R2 = .panic w) ∧
    (∃ w, Set_Subtract same ord m1 R1 m2 R2 = .panic w) ∧
    (∃ w, Set_SymmetricDifference same ord m1 R1 m2 R2 = .panic w) :=
  algebra_panics same ord R1 R2 m1 m2 hne

/-- `Length`, as written in ops.go, is the number of classes of the mathematical set, whatever order `range`
visits the buckets in. -/
theorem set_refines_length_generated (hR : R.Lawful) {s : SetImpl α} (h : Inv R s)
    (ord : GoMap α → GoMap α) (ho : MapOrder ord) :
    Set_Length ord s.buckets R = .ok (Int.ofNat (values s).length) ∧
    ∀ reps, Represents R reps (abs R s) → Set_Length ord s.buckets R = .ok (Int.ofNat reps.length) := by
  have hl := set_refines_length hR h
  rw [Set_Length_eq ord ho, hl.1]
  exact ⟨rfl, fun reps hr => by rw [← hl.2.2.1 reps hr, hl.1]⟩

/-- `Values()`, as written in ops.go (collect the bucket ids, `sort.Ints`, concatenate, `sort.SliceStable` under
`OrderedRules`), lists one representative of every class once; `EachValue` — the `Iterator` loop — visits exactly
that list in that order, calling back once per member, and never exhausts the loop bound. -/
theorem set_refines_values_generated (hR : R.Lawful) {s : SetImpl α} (h : Inv R s)
    (ord : GoMap α → GoMap α) (ho : MapOrder ord) :
    ∃ l, Set_Values ord s.buckets R = .ok l ∧ Represents R l (abs R s) ∧ l.Perm (values s) ∧
      ∀ (σ : Type) (cb : σ → α → Res σ) (st : σ), Set_EachValue ord s.buckets R cb st = foldRes cb st l :=
  have hv := set_refines_values hR h
  ⟨_, Set_Values_eq ord ho R s h.asc, hv.1, hv.2, fun _ cb st => Set_EachValue_eq ord ho R s h.asc cb st⟩

/-- **Go's map iteration order is immaterial**: for any two schedules of `range`, every translated function
that ranges over `vals` (directly or through `Values`) returns the same result. -/
theorem map_order_immaterial_generated {s1 s2 : SetImpl α} (h1 : Asc s1.buckets) (h2 : Asc s2.buckets)
    (same : Rules α → Rules α → Bool) (hs : same R R = true)
    (ord ord' : GoMap α → GoMap α) (ho : MapOrder ord) (ho' : MapOrder ord') :
    Set_Copy ord s1.buckets R = Set_Copy ord' s1.buckets R ∧ Set_Length ord s1.buckets R = Set_Length ord' s1.buckets R ∧
    Set_Values ord s1.buckets R = Set_Values ord' s1.buckets R ∧
    Set_Union same ord s1.buckets R s2.buckets R = Set_Union same ord' s1.buckets R s2.buckets R ∧
    Set_Intersection same ord s1.buckets R s2.buckets R = Set_Intersection same ord' s1.buckets R s2.buckets R ∧
    Set_Subtract same ord s1.buckets R s2.buckets R = Set_Subtract same ord' s1.buckets R s2.buckets R ∧
    Set_SymmetricDifference same ord s1.buckets R s2.buckets R =
      Set_SymmetricDifference same ord' s1.buckets R s2.buckets R := by
  rw [Set_Copy_eq ord ho R s1 h1, Set_Copy_eq ord' ho' R s1 h1, Set_Length_eq ord ho, Set_Length_eq ord' ho',
    Set_Values_eq ord ho R s1 h1, Set_Values_eq ord' ho' R s1 h1,
    Set_Union_eq same ord ho R s1 s2 h1 h2 hs, Set_Union_eq same ord' ho' R s1 s2 h1 h2 hs,
    Set_Intersection_eq same ord ho R s1 s2 h1 hs, Set_Intersection_eq same ord' ho' R s1 s2 h1 hs,
    Set_Subtract_eq same ord ho R s1 s2 h1 hs, Set_Subtract_eq same ord' ho' R s1 s2 h1 hs,
    Set_SymmetricDifference_eq same ord ho R s1 s2 h1 h2 hs, Set_SymmetricDifference_eq same ord' ho' R s1 s2 h1 h2 hs]
  exact ⟨rfl, rfl, rfl, rfl, rfl, rfl, rfl⟩

/-- "Holds exactly the distinct values it was built from whatever the insertion order", about
`NewSetFromSlice` as written in set.go. -/
theorem set_built_order_indep_generated (hR : R.Lawful) (l l' : List α) (hp : l.Perm l')
    (ord : GoMap α → GoMap α) (ho : MapOrder ord) :
    ∃ m m', NewSetFromSlice R l = .ok ⟨m, R⟩ ∧ NewSetFromSlice R l' = .ok ⟨m', R⟩ ∧ Inv R ⟨m⟩ ∧
      (∀ y, abs R ⟨m⟩ y ↔ ∃ x ∈ l, R.equiv y x = true) ∧ (∀ y, abs R ⟨m⟩ y ↔ abs R ⟨m'⟩ y) ∧
      Set_Length ord m R = Set_Length ord m' R := by
  have hb := set_built_order_indep hR l l' hp
  refine ⟨_, _, NewSetFromSlice_eq R l, NewSetFromSlice_eq R l', (set_inv_algebra hR empty empty).2.2.2.2 l,
    hb.1, hb.2.1, ?_⟩
  rw [Set_Length_eq ord ho R (fromList R l), Set_Length_eq ord ho R (fromList R l'), hb.2.2]

/-- the hypotheses are satisfiable: two different schedules of `range` -/
example : MapOrder (fun m : GoMap Int => m) ∧ MapOrder (fun m : GoMap Int => m.reverse) :=
  ⟨mapOrder_id, mapOrder_reverse⟩

/-- the generated functions run: the history of the example in section «cty/set», on the source text, with
`range` visiting the buckets in descending order -/
example :
    (do
      let a ← NewSetFromSlice Sample.m3e6 [0, 3, 6, 1]
      let c ← Set_Copy (fun m => m.reverse) a.vals a.rules
      let a1 ← Set_Remove a.vals a.rules 9
      let c1 ← Set_Add c.vals c.rules 4
      let u ← Set_Union (fun _ _ => true) (fun m => m.reverse) a1 a.rules c1 c.rules
      let sd ← Set_SymmetricDifference (fun _ _ => true) (fun m => m.reverse) a1 a.rules c1 c.rules
      let n ← Set_Length (fun m => m.reverse) u.vals u.rules
      let vs ← Set_Values (fun m => m.reverse) sd.vals sd.rules
      pure (a1, c1, u.vals, n, vs) : Res (List (Int × List Int) × List (Int × List Int) × List (Int × List Int) × Int × List Int)) =
    .ok ([(-1, [0]), (0, [1])], [(-1, [0, 3]), (0, [1, 4])], [(-1, [0, 3]), (0, [1, 4])], 4, [3, 4]) := by rfl

end SetGenerated
/-! ################## end of SECTION «cty/set, regenerated» ################## -/

end C03
end CtyModel
