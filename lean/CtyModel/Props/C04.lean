/-
C04 — Marks never change results, are never lost where promised, never invented.

`Op.run` runs one of the eighteen operation methods of `cty.Value` (the
transliterations of Ops.lean / Ops2.lean, mark prologues included) on an operand
tuple; the harness (harness/c04.go) diffs it against /repo on marked operands and
judges the same three clauses on paired marked / unmarked runs of the real code.

`ArgsWF` — every operand has marker layers as the API builds them (`Mark` /
`WithMarks` never leave an empty mark set or a marker directly inside a marker)
and no mark inside a set (`SetVal` hoists them — `setVal_hoists` below).
-/
import CtyModel.Lemmas.MarksOps
namespace CtyModel
namespace C04
open Value

/-- **Non-interference, every operation method.** Running the method on marked
operands and on the same operands with every mark stripped gives the same outcome
class — success or panic, with the same panic even — and, once the result is
unmarked, the same result. -/
theorem op_unmark_commutes (op : Op) (args : List Value) (h : ArgsWF args) :
    (op.run args).map unmarkDeep = op.run (args.map unmarkDeep) :=
  Op.run_commutes op args h

/-- … in particular the outcome class alone. -/
theorem op_outcome_class (op : Op) (args : List Value) (h : ArgsWF args) :
    (op.run args).cls = (op.run (args.map unmarkDeep)).cls := by
  rw [← op_unmark_commutes op args h]
  cases op.run args <;> rfl

/-- **No loss.** Every mark on the top level of any operand is on the result —
for all eighteen methods, whatever the operands are (no hypothesis at all). -/
theorem top_marks_kept (op : Op) (args : List Value) (r : Value) (h : op.run args = .ok r)
    (a : Value) (ha : a ∈ args) (m : String) (hm : m ∈ a.marks) : m ∈ r.marks := by
  obtain ⟨i, hi⟩ := List.getElem?_of_mem ha
  refine Op.run_kept op args r h i a hi m ?_
  cases op <;> (try simp only [Op.promised]) <;> first | exact hm | exact marks_subset_marksDeep hm | skip
  rename_i hsh
  rcases i with _ | _ | i <;> simp only [Op.promised] <;> first | exact hm | exact marks_subset_marksDeep hm

/-- **No loss, where the code promises more.** `Equals` keeps the marks found at
any depth of either operand, `HasElement` those at any depth of the needle. -/
theorem deep_marks_kept (op : Op) (args : List Value) (r : Value) (h : op.run args = .ok r)
    (i : Nat) (a : Value) (hi : args[i]? = some a) (m : String) (hm : m ∈ op.promised i a) : m ∈ r.marks :=
  Op.run_kept op args r h i a hi m hm

theorem equals_keeps_nested_marks (a b r : Value) (h : Op.equals.run [a, b] = .ok r) (m : String)
    (hm : m ∈ a.marksDeep ∨ m ∈ b.marksDeep) : m ∈ r.marks := equals_deep h hm

theorem hasElement_keeps_needle_marks (s e r : Value) (hsh : Option Int) (h : (Op.hasElement hsh).run [s, e] = .ok r)
    (m : String) (hm : m ∈ e.marksDeep) : m ∈ r.marks := hasElement_kept h (.inr hm)

/-- **No invention.** Every mark anywhere in the result — top level or nested — is
somewhere in some operand. -/
theorem no_invention (op : Op) (args : List Value) (r : Value) (h : op.run args = .ok r)
    (m : String) (hm : m ∈ r.marksDeep) : ∃ a ∈ args, m ∈ a.marksDeep :=
  Op.run_noinv op args r h m hm

/-! Non-vacuity: the hypotheses are satisfiable by operands that do carry marks,
nested ones included, and the conclusions are about real results. -/
example : ArgsWF [⟨.list .number, .marked ["m1"] (.seq [.marked ["m2", "m3"] (.n (Num.ofInt 1 64)), .null])⟩,
    ⟨.number, .marked ["m2"] (.n (Num.ofInt 0 64))⟩] := by
  intro a ha
  simp at ha
  rcases ha with rfl | rfl <;> exact ⟨by decide, by decide⟩
example : (Op.index.run [⟨.list .number, .marked ["m1"] (.seq [.marked ["m2", "m3"] (.n (Num.ofInt 1 64)), .null])⟩,
    ⟨.number, .marked ["m4"] (.n (Num.ofInt 0 64))⟩]) =
      .ok ⟨.number, .marked ["m1", "m2", "m3", "m4"] (.n (Num.ofInt 1 64))⟩ := by rfl
example : (Op.equals.run [⟨.list .bool, .seq [.marked ["m2"] (.b true)]⟩, ⟨.list .bool, .seq [.b true]⟩]) =
    .ok ⟨.bool, .marked ["m2"] (.b true)⟩ := by rfl

end C04
end CtyModel
