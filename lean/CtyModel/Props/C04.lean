/-
C04 — Marks never change results, are never lost where promised, never invented.

`Op.run` runs one of the eighteen operation methods of `cty.Value` (the
transliterations of Ops.lean / Ops2.lean, mark prologues included) on an operand
tuple; `Value.mark … Value.setVal`, `convWrap` (CtyModel/MarksOps.lean) are the
marks API, the collection constructors and the conversion wrapper; `Fn.call` is
`function.Function.Call` (CtyModel/Function.lean).  The harness (harness/c04.go)
diffs all of them against /repo on marked inputs and judges the same clauses on
paired marked / unmarked runs of the real code.

Hypotheses used below, all of which every value built through the API satisfies:
`ArgsWF` / `MarksWF` — marker layers are never empty and never directly inside
another marker (`Mark` / `WithMarks` merge), and no member of a set contains a
mark (`setVal_hoists`); `RTwf` adds canonical (sorted) mark sets and distinct keys.
-/
import CtyModel.Lemmas.MarksOps
import CtyModel.Lemmas.MarksPaths
import CtyModel.Lemmas.MarksPrologue
import CtyModel.Lemmas.MarksRebuild
import CtyModel.Lemmas.d04ConvNoInv
import CtyModel.Lemmas.d04Call
import CtyModel.Lemmas.d04RefineNN
import CtyModel.Lemmas.d08bUnmark
import CtyModel.ConvertD08Env
import CtyModel.Lemmas.OpsFnsTie
import CtyModel.Lemmas.MarksFnsTie
namespace CtyModel
namespace C04
open Value

/-! ## Operation methods -/

/-- **Non-interference, every operation method.** Running the method on marked
operands and on the same operands with every mark stripped gives the same outcome
class — success or panic, with the same panic even — and, once the result is
unmarked, the same result. -/
theorem op_unmark_commutes (op : Op) (args : List Value) (h : ArgsWF args) :
    (op.run args).map unmarkDeep = op.run (args.map unmarkDeep) :=
  Op.run_commutes op args h

/-- … in particular the outcome class alone. -/
theorem op_outcome_class (op : Op) (args : List Value) (h : ArgsWF args) :
    (op.run args).cls = (op.run (args.map unmarkDeep)).cls := by
  rw [← op_unmark_commutes op args h]
  cases op.run args <;> rfl

/-- **No loss.** Every mark on the top level of any operand is on the result —
for all eighteen methods, whatever the operands are (no hypothesis at all). -/
theorem top_marks_kept (op : Op) (args : List Value) (r : Value) (h : op.run args = .ok r)
    (a : Value) (ha : a ∈ args) (m : String) (hm : m ∈ a.marks) : m ∈ r.marks := by
  obtain ⟨i, hi⟩ := List.getElem?_of_mem ha
  refine Op.run_kept op args r h i a hi m ?_
  cases op <;> first | exact hm | exact marks_subset_marksDeep hm | skip
  rcases i with _ | _ | i <;> first | exact hm | exact marks_subset_marksDeep hm

/-- **No loss, where the code promises more.** `Equals` keeps the marks found at
any depth of either operand, `HasElement` those at any depth of the needle
(`Op.promised`). -/
theorem deep_marks_kept (op : Op) (args : List Value) (r : Value) (h : op.run args = .ok r)
    (i : Nat) (a : Value) (hi : args[i]? = some a) (m : String) (hm : m ∈ op.promised i a) : m ∈ r.marks :=
  Op.run_kept op args r h i a hi m hm

theorem equals_keeps_nested_marks (a b r : Value) (h : Op.equals.run [a, b] = .ok r) (m : String)
    (hm : m ∈ a.marksDeep ∨ m ∈ b.marksDeep) : m ∈ r.marks := equals_deep h hm

theorem hasElement_keeps_needle_marks (s e r : Value) (hsh : Option Int) (h : (Op.hasElement hsh).run [s, e] = .ok r)
    (m : String) (hm : m ∈ e.marksDeep) : m ∈ r.marks := hasElement_kept h (.inr hm)

/-- **No invention.** Every mark anywhere in the result — top level or nested — is
somewhere in some operand. -/
theorem no_invention (op : Op) (args : List Value) (r : Value) (h : op.run args = .ok r)
    (m : String) (hm : m ∈ r.marksDeep) : ∃ a ∈ args, m ∈ a.marksDeep :=
  Op.run_noinv op args r h m hm

/-- **The source still has the prologue the theorems are about.** For each of the
eighteen methods, the row that `extract/` reads out of cty/value_ops.go on every
check (`Generated/OpPrologue.lean`) is exactly the prologue of the method's shape:
the `IsMarked` / `ContainsMarked` test on exactly these operands, `Unmark` /
`UnmarkDeep` of each, the recursive call, `WithMarks` of all the mark sets
(`Op.shape` lists, per method, these flags next to the Go text they stand for). -/
theorem prologue_table_complete : ∀ op ∈ Op.all, op.sourceRow = some op.shape.entry := by
  intro op h
  simp only [Op.all, List.mem_cons, List.not_mem_nil, or_false] at h
  rcases h with rfl | rfl | rfl | rfl | rfl | rfl | rfl | rfl | rfl | rfl | rfl | rfl | rfl | rfl | rfl | rfl | rfl | rfl <;>
    simp [Op.sourceRow, Generated.opPrologues, Op.shape, Op.Shape.entry]

/-- … and the model is that prologue around the unmarked core of the method. -/
theorem run_is_prologue (op : Op) (hop : op ∈ Op.all) (a b : Value) :
    (op.shape.arg.isSome → op.run [a, b] =
      Op.prologue2 op.shape.recvDeep (op.shape.arg.map (·.2)).get! (op.core2) a b) ∧
    (op.shape.arg.isNone → op.run [a] = Op.prologue1 op.shape.recvDeep op.core1 a) := by
  simp only [Op.all, List.mem_cons, List.not_mem_nil, or_false] at hop
  rcases hop with rfl | rfl | rfl | rfl | rfl | rfl | rfl | rfl | rfl | rfl | rfl | rfl | rfl | rfl | rfl | rfl | rfl | rfl <;>
    first
    | exact ⟨fun _ => rfl, fun h => by simp [Op.shape] at h⟩
    | exact ⟨fun h => by simp [Op.shape] at h, fun _ => rfl⟩

/-- `NotEqual`, `LessThanOrEqualTo` and `GreaterThanOrEqualTo` have no prologue of
their own in the source (they call the methods above), and the model composes
them the same way; every theorem of this section covers them (`Op.notEqual`,
`Op.le`, `Op.ge`), with marks kept at every depth because `Equals` is part of each. -/
theorem composites_have_no_prologue :
    ∀ op ∈ [Op.notEqual, Op.le, Op.ge], (op.sourceRow.map (·.form)) = some "none" := by
  intro op h
  simp only [List.mem_cons, List.not_mem_nil, or_false] at h
  rcases h with rfl | rfl | rfl <;> simp [Op.sourceRow, Generated.opPrologues, Op.shape]

theorem composites_are_compositions (a b : Value) :
    Op.notEqual.run [a, b] = (do let e ← Value.equals a b; Value.not e) ∧
    Op.le.run [a, b] = (do let l ← Value.lessThan a b; let e ← Value.equals a b; Value.or l e) ∧
    Op.ge.run [a, b] = (do let g ← Value.greaterThan a b; let e ← Value.equals a b; Value.or g e) :=
  ⟨rfl, rfl, rfl⟩

/-- **The three composite comparison methods, by name** (audit C04 item 3): `NotEqual`,
`LessThanOrEqualTo`, `GreaterThanOrEqualTo` are members of `Op`, so non-interference, no
loss (at EVERY depth of both operands, because `Equals` is part of each) and no invention
hold of them as of the eighteen methods with a prologue of their own. -/
theorem composites_unmark_commute (op : Op) (_hop : op ∈ [Op.notEqual, Op.le, Op.ge]) (a b : Value)
    (ha : a.MarksWF) (hb : b.MarksWF) :
    (op.run [a, b]).map unmarkDeep = op.run [a.unmarkDeep, b.unmarkDeep] :=
  op_unmark_commutes op [a, b] (by intro x hx; simp at hx; rcases hx with rfl | rfl <;> assumption)

theorem composites_keep_nested_marks (op : Op) (hop : op ∈ [Op.notEqual, Op.le, Op.ge]) (a b r : Value)
    (h : op.run [a, b] = .ok r) (m : String) (hm : m ∈ a.marksDeep ∨ m ∈ b.marksDeep) : m ∈ r.marks := by
  simp only [List.mem_cons, List.not_mem_nil, or_false] at hop
  rcases hm with hm | hm
  · exact deep_marks_kept op [a, b] r h 0 a rfl m (by rcases hop with rfl | rfl | rfl <;> exact hm)
  · exact deep_marks_kept op [a, b] r h 1 b rfl m (by rcases hop with rfl | rfl | rfl <;> exact hm)

theorem composites_invent_nothing (op : Op) (_hop : op ∈ [Op.notEqual, Op.le, Op.ge]) (a b r : Value)
    (h : op.run [a, b] = .ok r) (m : String) (hm : m ∈ r.marksDeep) : m ∈ a.marksDeep ∨ m ∈ b.marksDeep := by
  obtain ⟨x, hx, hmx⟩ := no_invention op [a, b] r h m hm
  simp at hx
  rcases hx with rfl | rfl
  · exact .inl hmx
  · exact .inr hmx

/-! ## Constructors -/

/-- **Marks on members given to a set constructor move to the set**: the set's
marks are exactly the marks found at any depth of any element, and no member of
the set contains a mark. -/
theorem setVal_hoists (vals : List Value) (hashes : List (Option Int)) (r : Value) (h : setVal vals hashes = .ok r) :
    (∀ m, m ∈ r.marks ↔ ∃ v ∈ vals, m ∈ v.marksDeep) ∧
    ((∀ v ∈ vals, v.v.markerWF = true) → r.unmark.containsMarked = false) :=
  setVal_spec h

/-- … and the set itself is the one built from the unmarked elements. -/
theorem setVal_unmark_commutes (vals : List Value) (hashes : List (Option Int))
    (hwf : ∀ v ∈ vals, v.v.markerWF = true) :
    (setVal vals hashes).map unmarkDeep = setVal (vals.map unmarkDeep) hashes :=
  Value.setVal_unmark_commutes vals hashes hwf

/-- `ListVal` / `MapVal` do not touch marks: the collection is unmarked, every
member keeps the payload — marks included — of the element it was built from. -/
theorem listVal_keeps_member_marks (vals : List Value) (r : Value) (h : listVal vals = .ok r) :
    r.isMarked = false ∧ ∃ et, r = ⟨.list et, .seq (payloadsOf vals)⟩ := listVal_spec h

theorem mapVal_keeps_member_marks (keys : List String) (vals : List Value) (r : Value) (h : mapVal keys vals = .ok r) :
    r.isMarked = false ∧ ∃ et, r = ⟨.map et, .smap keys (payloadsOf vals)⟩ := mapVal_spec h

/-! ## Mark / Unmark round trips -/

/-- `Unmark(Mark(v, m)) = (v, {m})` for an unmarked `v` … -/
theorem unmark_mark (v : Value) (h : v.isMarked = false) (m : String) : (v.mark m).unmarkPair = (v, [m]) :=
  unmarkPair_mark_of_unmarked h m

/-- … and in general `Mark` adds the mark to the existing layer. -/
theorem unmark_mark_general (v : Value) (m : String) : (v.mark m).unmarkPair = (v.unmark, insertMark m v.marks) :=
  unmarkPair_mark v m

/-- `Unmark` then `WithMarks` gives the value back. -/
theorem withMarks_unmark (v : Value) (hw : v.v.markerWF = true) (hc : v.v.marksCanon) :
    v.unmarkPair.1.withMarks v.unmarkPair.2 = v := withMarks_unmarkPair hw hc

/-- **`UnmarkDeepWithPaths` then `MarkWithPaths` restores the value**, marks at
every depth included. -/
theorem unmarkDeepWithPaths_markWithPaths (v : Value) (hwf : RTwf v.v) :
    v.unmarkDeepWithPaths.1.markWithPaths v.unmarkDeepWithPaths.2 = .ok v :=
  markWithPaths_unmarkDeepWithPaths v hwf

/-- `UnmarkDeepWithPaths` returns the value `UnmarkDeep` returns, and its records
carry, together, exactly the marks `UnmarkDeep` returns.  (`keysAligned`: every map /
object payload has one key per member, as every payload the wire carries has.) -/
theorem unmarkDeepWithPaths_agrees_unmarkDeep (v : Value) (hs : v.v.setsClean = true) (hk : keysAligned v.v = true) :
    v.unmarkDeepWithPaths.1 = v.unmarkDeepPair.1 ∧
    ∀ m, (∃ e ∈ v.unmarkDeepWithPaths.2, m ∈ e.marks) ↔ m ∈ v.unmarkDeepPair.2 :=
  unmarkDeepWithPaths_agrees v hs hk

/-- **What "the same unmarked result" means for sets.** `UnmarkDeep` (as every
`transform`) REBUILDS each set it passes: the members return to their buckets in
iteration order, not in the order they were once added (`unmarkDeepR`,
diffed against /repo on sets holding crc32-tied members).  The rebuilt value and the
plainly stripped one (`unmarkDeep`, which the theorems of this file are stated
with) have the same buckets with the same members at every depth (`SameSets`) —
`RawEquals`, `Equals` and every accessor read sets through `Values()` and cannot
tell them apart.  The property promises equality of values, not of storage order. -/
theorem unmarkDeep_rebuild_same_members (bytesLess : Ty → Payload → Payload → Bool) (v : Value) :
    SameSets v.unmarkDeep.v (v.unmarkDeepRPair bytesLess).1.v ∧ (v.unmarkDeepRPair bytesLess).2 = v.marksDeep :=
  ⟨sameSets_unmarkDeepR bytesLess v.v v.ty, rfl⟩

/-- `UnmarkDeep` leaves no mark behind (at any depth) and reports none that was not there. -/
theorem unmarkDeep_clean (v : Value) : v.unmarkDeepPair.1.containsMarked = false ∧ v.unmarkDeepPair.1.marksDeep = [] :=
  ⟨containsMarked_unmarkDeep v, marksDeep_unmarkDeep v⟩

/-- `WithSameMarks`: exactly the receiver's own top-level marks plus those of the
sources; the value underneath is untouched. -/
theorem withSameMarks_marks (v : Value) (srcs : List Value) (m : String) :
    m ∈ (v.withSameMarks srcs).marks ↔ m ∈ v.marks ∨ ∃ s ∈ srcs, m ∈ s.marks := mem_marks_withSameMarks

theorem withSameMarks_value (v : Value) (srcs : List Value) : (v.withSameMarks srcs).unmark = v.unmark :=
  unmark_withSameMarks v srcs

/-- `HasSameMarks` decides equality of the two top-level mark sets. -/
theorem hasSameMarks_iff (a b : Value) (ha : a.v.markerWF = true) (hb : b.v.markerWF = true)
    (hca : a.v.marksCanon) (hcb : b.v.marksCanon) : a.hasSameMarks b = true ↔ a.marks = b.marks :=
  Value.hasSameMarks_iff ha hb hca hcb

/-! ## Conversion: the REAL model (`Convert.apply` / `Convert.convert`, every closure
`getConversion` can return — the model `Driver/HConvert.lean` diffs against convert.Convert,
in this check too: `cv.convert` cases on nested-marked inputs) -/

/-- **No invention, every conversion.** Whatever plan is applied to whatever value, every
mark at ANY depth of the result is somewhere in the input — no hypothesis on the
environment, the plan, the value or the fuel (audit C04 item 1: the old statement was
relative to an arbitrary `inner`, which may invent). -/
theorem convert_real_no_invention (E : Convert.Env) (fuel : Nat) (v : Value) (want : Ty) (r : Value)
    (h : Convert.convert E fuel v want = .ok r) (m : String) (hm : m ∈ r.marksDeep) : m ∈ v.marksDeep :=
  D04C.convert_noinv E fuel v want r h m hm

/-- … the same for a conversion obtained from `GetConversion` / `GetConversionUnsafe` and applied. -/
theorem conversion_real_no_invention (E : Convert.Env) (fuel : Nat) (p : Convert.Plan) (v r : Value)
    (h : Convert.apply E fuel p v = .ok r) (m : String) (hm : m ∈ r.marksDeep) : m ∈ v.marksDeep :=
  D04C.apply_noinv E fuel p v r h m hm

/-- **Every mark on a converted value is on the result**, real model. -/
theorem convert_real_top_marks_kept (E : Convert.Env) (fuel : Nat) (v : Value) (want : Ty) (r : Value)
    (h : Convert.convert E fuel v want = .ok r) (m : String) (hm : m ∈ v.marks) : m ∈ r.marks :=
  D04C.convert_top_kept E fuel v want r h m hm

/-- **Deep non-interference, real model** (d08b; the statement and its companions are
`C08.convert_commutes_with_unmarkDeep…`): converting the deeply unmarked value, with the same fuel,
gives the deeply unmarked result — for every environment, target type and fuel, and every value whose
marker layers are as the API builds them. -/
theorem convert_real_commutes_with_unmarkDeep (E : Convert.Env) (fuel : Nat) (v r : Value) (want : Ty)
    (hw : v.MarksWF) (h : Convert.convert E fuel v want = .ok r) :
    Convert.convert E fuel v.unmarkDeep want = .ok r.unmarkDeep := by
  obtain ⟨y, hy, rfl, _⟩ := (D08B.convert_sim E fuel hw want).ok_inv h
  exact hy

/-- **The wrapper theorems below are about the real closure.** On a marked value the closure
`getConversion` returns is `convWrap` around itself (one unit of fuel less): `convert_marks`,
`convert_unmark_commutes`, `convert_no_invention` hold with `inner := Convert.apply E fuel (.wrap out conv)`. -/
theorem convert_real_is_wrapper (E : Convert.Env) (fuel : Nat) (out : Ty) (conv : Convert.Plan) (v : Value)
    (hm : v.isMarked = true) :
    Convert.apply E (fuel + 1) (.wrap out conv) v = convWrap (Convert.apply E fuel (.wrap out conv)) v :=
  D04C.apply_wrap_eq_convWrap E fuel out conv v hm

/-- a non-trivial instance in the environment the driver runs: a marked list with a marked
member and a marked null member, number → string: every mark stays where it was -/
example : Convert.convert Convert.driverEnv 8
    ⟨.list .number, .marked ["m1"] (.seq [.marked ["m2"] (.n (Num.ofInt 1 64)), .marked ["m3"] .null])⟩ (.list .string) =
    .ok ⟨.list .string, .marked ["m1"] (.seq [.marked ["m2"] (.s "1"), .marked ["m3"] .null])⟩ := by rfl

/-! ## Conversion wrapper (for every conversion it wraps) -/

/-- **Every mark on a converted value is on the result.** -/
theorem convert_marks (inner : Value → Res Value) (v r : Value) (h : convWrap inner v = .ok r) (m : String)
    (hm : m ∈ v.marks) : m ∈ r.marks := convWrap_top h hm

/-- The wrapped conversion never sees the top-level marks: converting the marked
and the unmarked value give the same outcome and, unmarked, the same result … -/
theorem convert_unmark_commutes (inner : Value → Res Value) (v : Value) (hw : v.v.markerWF = true) :
    (convWrap inner v).map Value.unmark = (convWrap inner v.unmark).map Value.unmark :=
  convWrap_unmark inner v hw

/-- … and the wrapper invents nothing: the result's marks are those of the inner
result plus the input's. -/
theorem convert_no_invention (inner : Value → Res Value) (v r : Value) (h : convWrap inner v = .ok r) :
    ∃ r0, inner v.unmark = .ok r0 ∧ r.unmark = r0.unmark ∧ ∀ m, m ∈ r.marks ↔ (m ∈ r0.marks ∨ m ∈ v.marks) :=
  convWrap_noinv h

/-! ## Function calls — for every specification and every `Type`, `Impl`, `RefineResult` callback -/

/-- **Every mark anywhere inside an argument whose parameter does not declare
`AllowMarked` is on the result of the call** (`Fn.Unhandled`). -/
theorem call_marks (spec : Fn.Spec) (tf : Fn.TypeFn) (impl : Fn.ImplFn) (args : List Value) (r : Value)
    (h : (Fn.call spec tf impl args).1 = .ok r) (m : String) (hm : Fn.Unhandled spec args m) : m ∈ r.marks := by
  rw [Fn.call_eq] at h
  exact Fn.callTable_marks spec tf impl args r h m hm

/-- **Non-interference of calls.** When no parameter declares `AllowMarked`, the
call on marked arguments IS the call on the deeply unmarked arguments: the
callbacks are handed exactly the same argument lists (same trace), the outcome is
the same, and the result is the unmarked call's result with the arguments' mark
sets added (`WithMarks(resultMarks...)`). -/
theorem call_noninterference (spec : Fn.Spec) (tf : Fn.TypeFn) (impl : Fn.ImplFn) (args : List Value)
    (hs : spec.noneAllowMarked) (hw : ∀ v ∈ args, v.v.markerWF = true) :
    Fn.call spec tf impl args =
      (Fn.Out.map (fun r => Fn.withMarkSets r (Fn.argMarkSets args))
          (Fn.call spec tf impl (args.map unmarkDeep)).1,
        (Fn.call spec tf impl (args.map unmarkDeep)).2) := by
  rw [Fn.call_eq, Fn.call_eq]
  exact Fn.callTable_noAllow spec tf impl args hs hw

/-- **Non-interference of calls, any specification.** For functions that do declare
`AllowMarked` parameters the marked arguments reach the callbacks, so the
statement is relative to them: if `Type`, `Impl` and `RefineResult` do not look
at marks (`TypeBlind`, `ImplBlind`, `RefineBlind`: same outcome class and, after
`UnmarkDeep`, the same result on unmarked arguments), then neither does the call —
same outcome, and the unmarked result is the result on the unmarked arguments. -/
theorem call_noninterference_allowMarked (spec : Fn.Spec) (tf : Fn.TypeFn) (impl : Fn.ImplFn) (args : List Value)
    (htf : Fn.TypeBlind tf) (himpl : Fn.ImplBlind impl) (hr : Fn.RefineBlind spec)
    (hw : ∀ v ∈ args, v.v.markerWF = true) :
    Fn.Out.map unmarkDeep (Fn.call spec tf impl args).1 = (Fn.call spec tf impl (args.map unmarkDeep)).1 := by
  rw [Fn.call_eq, Fn.call_eq]
  exact Fn.callTable_blind spec tf impl args htf himpl hr hw

/-- **The hypothesis `RefineBlind` of the theorem above was not instantiable for the standard
library** (audit C04 item 1, last bullet / missing theorem (b)): it quantifies over every value,
including a marker directly inside a marker, on which `Value.Refine()` is not modelled — it is
FALSE of `refineNonNull`, the `RefineResult` of most stdlib functions. -/
theorem refineBlind_false_of_refineNonNull :
    ¬ Fn.RefineBlind { params := [], refine := some Stdlib.refineNN } :=
  Fn.refineBlind_refineNN_counterexample

/-- **Non-interference of calls, any specification, restated.** `RefineResult` is asked to be
blind only on the values the protocol hands it (`refineWith` calls it on `val.Unmark()`:
top-level unmarked, `Fn.RefineBlindWF`; every `RefineBlind` callback is one). -/
theorem call_noninterference_allowMarked_wf (spec : Fn.Spec) (tf : Fn.TypeFn) (impl : Fn.ImplFn) (args : List Value)
    (htf : Fn.TypeBlind tf) (himpl : Fn.ImplBlind impl) (hr : Fn.RefineBlindWF spec)
    (hw : ∀ v ∈ args, v.v.markerWF = true) :
    Fn.Out.map unmarkDeep (Fn.call spec tf impl args).1 = (Fn.call spec tf impl (args.map unmarkDeep)).1 := by
  rw [Fn.call_eq, Fn.call_eq]
  exact Fn.callTable_blindWF spec tf impl args htf himpl hr hw

/-- **`refineNonNull` is blind where the protocol calls it**, so `RefineBlindWF` holds of every
specification whose `RefineResult` is `refineNonNull` or absent — the hypothesis of
`call_noninterference_allowMarked_wf` is instantiated for the standard library. -/
theorem refineNonNull_blind (spec : Fn.Spec) (h : spec.refine = some Stdlib.refineNN ∨ spec.refine = none) :
    Fn.RefineBlindWF spec := Fn.refineBlindWF_of_refineNN spec h

/-- **`stdlib.LengthFunc` (its parameter is `AllowMarked`) computes the same on marked and on
deeply unmarked arguments**: `Type`, `Impl` (Stdlib/Collection.lean) and `RefineResult` are
blind, no hypothesis beyond proper marker layers on the arguments. -/
theorem call_noninterference_length (args : List Value) (hw : ∀ v ∈ args, v.v.markerWF = true) :
    Fn.Out.map unmarkDeep (Fn.call Stdlib.lengthSpec Stdlib.lengthType Stdlib.lengthImpl args).1 =
      (Fn.call Stdlib.lengthSpec Stdlib.lengthType Stdlib.lengthImpl (args.map unmarkDeep)).1 :=
  call_noninterference_allowMarked_wf _ _ _ args Fn.length_typeBlind Fn.length_implBlind
    (refineNonNull_blind _ (.inl rfl)) hw

/-- … and with no hypothesis left for the protocol + `Type` + `Impl` part (`RefineResult` switched off). -/
theorem call_noninterference_length_unrefined (args : List Value) (hw : ∀ v ∈ args, v.v.markerWF = true) :
    Fn.Out.map unmarkDeep
        (Fn.call { Stdlib.lengthSpec with refine := none } Stdlib.lengthType Stdlib.lengthImpl args).1 =
      (Fn.call { Stdlib.lengthSpec with refine := none } Stdlib.lengthType Stdlib.lengthImpl (args.map unmarkDeep)).1 :=
  call_noninterference_allowMarked_wf _ _ _ args Fn.length_typeBlind Fn.length_implBlind
    (fun r hr => by cases hr) hw

/-- … whose marks are the result's own plus every mark anywhere in any argument. -/
theorem call_noninterference_marks (args : List Value) (r : Value) (m : String) :
    m ∈ (Fn.withMarkSets r (Fn.argMarkSets args)).marks ↔ m ∈ r.marks ∨ ∃ v ∈ args, m ∈ v.marksDeep := by
  rw [Fn.mem_marks_withMarkSets, Fn.mem_argMarkSets]

/-- What the protocol does with the marks of `AllowMarked` arguments when it answers
WITHOUT invoking `Impl` (an unknown or dynamically typed argument short-circuits
the call): they are NOT put on the result — `resultMarks` collects only the marks
of arguments whose parameter lacks `AllowMarked`.  This is intended behaviour,
pinned by cty/function/function_test.go `TestFunctionCallWithUnknownVals`
(`params-partial-marks`: only the mark of the non-`AllowMarked` argument is
expected; also `refined-marked`, `marked-dynamic-not-refined`), and outside the
property, which exempts arguments a function declares it handles itself.
Here: `not(unknown bool marked "m")` with the parameter of `stdlib.NotFunc`
(`AllowMarked` without `AllowUnknown`) is an unmarked unknown. -/
theorem shortCircuit_drops_allowMarked_marks :
    let spec : Fn.Spec := { params := [{ ty := .bool, allowMarked := true }] }
    let arg : Value := ⟨.bool, .marked ["m"] (.unk .unref)⟩
    Fn.call spec (fun _ => .ok .bool) (fun _ _ => .panic "not reached") [arg] =
      (.ok ⟨.bool, .unk .unref⟩, [.type [arg]]) := by
  rfl

/-- … while the marks the protocol is responsible for are on that answer too (`call_marks`). -/
theorem shortCircuit_keeps_unhandled_marks (spec : Fn.Spec) (tf : Fn.TypeFn) (impl : Fn.ImplFn) (args : List Value)
    (r : Value) (h : (Fn.call spec tf impl args).1 = .ok r) (m : String) (hm : Fn.Unhandled spec args m) :
    m ∈ r.marks := call_marks spec tf impl args r h m hm

/-! ## Non-vacuity: the hypotheses are satisfiable by values that do carry marks,
nested ones included, and the conclusions are about real results. -/

example : ArgsWF [⟨.list .number, .marked ["m1"] (.seq [.marked ["m2", "m3"] (.n (Num.ofInt 1 64)), .null])⟩,
    ⟨.number, .marked ["m2"] (.n (Num.ofInt 0 64))⟩] := by
  intro a ha
  simp at ha
  rcases ha with rfl | rfl <;> exact ⟨by decide, by decide⟩
example : (Op.index.run [⟨.list .number, .marked ["m1"] (.seq [.marked ["m2", "m3"] (.n (Num.ofInt 1 64)), .null])⟩,
    ⟨.number, .marked ["m4"] (.n (Num.ofInt 0 64))⟩]) =
      .ok ⟨.number, .marked ["m1", "m2", "m3", "m4"] (.n (Num.ofInt 1 64))⟩ := by rfl
example : (Op.equals.run [⟨.list .bool, .seq [.marked ["m2"] (.b true)]⟩, ⟨.list .bool, .seq [.b true]⟩]) =
    .ok ⟨.bool, .marked ["m2"] (.b true)⟩ := by rfl
example : RTwf (.smap ["a", "b"] [.marked ["m1", "m2"] (.seq [.marked ["m3"] (.b true)]), .sset [7] [.b false]]) := by
  simp [RTwf, RTwfL, MSorted, Payload.isMarked, Payload.containsMarkedL, Payload.containsMarked]
example : (⟨.object ["a"] [.list .bool] [false], .smap ["a"] [.marked ["m1"] (.seq [.marked ["m3"] (.b true)])]⟩ : Value).unmarkDeepWithPaths =
    (⟨.object ["a"] [.list .bool] [false], .smap ["a"] [.seq [.b true]]⟩,
      [⟨[.attr "a"], ["m1"]⟩, ⟨[.attr "a", .idx 0], ["m3"]⟩]) := by rfl
example : setVal [⟨.bool, .marked ["m1"] (.b true)⟩, ⟨.bool, .b false⟩] [some 2, some 1] =
    .ok ⟨.set .bool, .marked ["m1"] (.sset [1, 2] [.b false, .b true])⟩ := by rfl
example : Fn.Spec.noneAllowMarked { params := [{ ty := .string }], varParam := some { ty := .dyn } } :=
  ⟨by intro p hp; simp at hp; subst hp; rfl, by intro p hp; simp at hp; subst hp; rfl⟩
example : Fn.TypeBlind (fun as => .ok ((as.headD Value.dynVal).ty)) := by
  intro as; cases as <;> rfl
example : Fn.ImplBlind (fun as _ => .ok (as.headD Value.dynVal)) := by
  intro as t hw
  cases as with
  | nil => exact ⟨rfl, fun r h => by cases h; rfl⟩
  | cons a as => exact ⟨rfl, fun r h => by cases h; exact hw a (by simp)⟩
example : (Fn.call Stdlib.lengthSpec Stdlib.lengthType Stdlib.lengthImpl
    [⟨.list .bool, .marked ["m1"] (.seq [.marked ["m2"] (.b true)])⟩]).1 =
    .ok ⟨.number, .marked ["m1"] (.n (Num.ofInt 1 64))⟩ := by rfl
example : Fn.Unhandled { params := [{ ty := .dyn }] } [⟨.list .bool, .seq [.marked ["m2"] (.b true)]⟩] "m2" :=
  ⟨0, { ty := .dyn }, _, rfl, rfl, rfl, by decide⟩

/-! ## The same clauses about the REGENERATED operation methods

`OpsFnsTie.genRun` is `Op.run` with the fourteen methods that `extract/translate_ops.go` translates from
cty/value_ops.go on every check (`Generated/OpsFns.lean`: Add … Modulo, Negate, Absolute, Not, And, Or, the four
ordering methods, each WITH its marks prologue as written) in place of the hand-written ones. -/

/-- `op_unmark_commutes` for the translated methods: non-interference of the source text's own prologue. -/
theorem op_unmark_commutes_generated (op : Op) (args : List Value) (h : ArgsWF args) :
    (OpsFnsTie.genRun op args).map unmarkDeep = OpsFnsTie.genRun op (args.map unmarkDeep) := by
  rw [OpsFnsTie.genRun_eq op args (fun a ha => OpsFnsTie.single_of_marksWF (h a ha)),
    OpsFnsTie.genRun_eq op (args.map unmarkDeep) (fun a ha => by
      obtain ⟨b, _, rfl⟩ := List.mem_map.mp ha
      exact OpsFnsTie.single_unmarkDeep b)]
  exact op_unmark_commutes op args h

/-- `top_marks_kept` for the translated methods (operands with a well-formed marker structure). -/
theorem top_marks_kept_generated (op : Op) (args : List Value) (hw : ArgsWF args) (r : Value)
    (h : OpsFnsTie.genRun op args = .ok r) (a : Value) (ha : a ∈ args) (m : String) (hm : m ∈ a.marks) : m ∈ r.marks := by
  rw [OpsFnsTie.genRun_eq op args (fun a ha => OpsFnsTie.single_of_marksWF (hw a ha))] at h
  exact top_marks_kept op args r h a ha m hm

/-- `no_invention` for the translated methods. -/
theorem no_invention_generated (op : Op) (args : List Value) (hw : ArgsWF args) (r : Value)
    (h : OpsFnsTie.genRun op args = .ok r) (m : String) (hm : m ∈ r.marksDeep) : ∃ a ∈ args, m ∈ a.marksDeep := by
  rw [OpsFnsTie.genRun_eq op args (fun a ha => OpsFnsTie.single_of_marksWF (hw a ha))] at h
  exact no_invention op args r h m hm

/-! ## The same clauses about the REGENERATED marks API

`Generated/MarksFns.lean` is written by `extract/translate_marks.go` from cty/marks.go on every check: every function
of that file except `GoString`, statement by statement (`Mark`, `Unmark`, `Marks`, `WithMarks`, `WithSameMarks`,
`HasMark`, `HasSameMarks`, `ValueMarks.Equal`, `NewValueMarks`, `UnmarkDeep`, `UnmarkDeepWithPaths`, `MarkWithPaths`
with the two transformer types).  `Lemmas/MarksFnsTie.lean` proves each equal to the hand-written model the theorems
above are about; the round-trip clauses are restated here about the generated definitions themselves.  `ord` is the
order in which Go ranges over a `ValueMarks` map: any order that lists exactly the keys (`OrdOk`, every permutation). -/

section Generated
open Generated.MarksFns MarksFnsTie MarksGo

/-- `unmark_mark` for the translated `Mark` and `Unmark`. -/
theorem unmark_mark_generated {ord : Ord} (ho : OrdOk ord) (v : Value) (h : v.isMarked = false) (m : String) :
    (Value_Mark ord v (.one m)).bind (Value_Unmark ord) = .ok (v, [m]) := by
  have h0 : v.marks = [] := marks_of_not_marked h
  rw [Mark_tie ho v (by rw [h0]; exact MSorted.nil) m]
  show Value_Unmark ord (v.mark m) = _
  rw [Unmark_tie ho _ (by
    show MSorted (insertMark m v.marks)
    exact insertMark_sorted (by rw [h0]; exact MSorted.nil)), unmark_mark v h m]

/-- `unmark_mark_general` for the translated `Mark` and `Unmark` (canonical mark set on the receiver). -/
theorem unmark_mark_general_generated {ord : Ord} (ho : OrdOk ord) (v : Value) (hc : MSorted v.marks) (m : String) :
    (Value_Mark ord v (.one m)).bind (Value_Unmark ord) = .ok (v.unmark, insertMark m v.marks) := by
  rw [Mark_tie ho v hc m]
  show Value_Unmark ord (v.mark m) = _
  rw [Unmark_tie ho _ (by show MSorted (insertMark m v.marks); exact insertMark_sorted hc), unmark_mark_general v m]

/-- `Mark` refuses a `ValueMarks` as the mark (the panic of the source, read from the source). -/
theorem mark_refuses_valueMarks_generated (ord : Ord) (v : Value) (ms : List String) :
    (Value_Mark ord v (.set ms)).isPanic = true := rfl

/-- `withMarks_unmark` for the translated `Unmark` and `WithMarks`: `v.WithMarks(marks)` of what `v.Unmark()` returned
is `v` again. -/
theorem withMarks_unmark_generated {ord : Ord} (ho : OrdOk ord) (v : Value) (hw : v.v.markerWF = true)
    (hc : v.v.marksCanon) :
    (Value_Unmark ord v).bind (fun q => Value_WithMarks ord q.1 [q.2]) = .ok v := by
  have hs := msorted_marks_of_canon hc
  rw [Unmark_tie ho v hs]
  show Value_WithMarks ord v.unmarkPair.1 [v.unmarkPair.2] = _
  rw [WithMarks_tie ho]
  have h2 : MSorted v.unmarkPair.2 := by
    unfold unmarkPair
    split
    · exact MSorted.nil
    · exact hs
  have : unionAllMarks [v.unmarkPair.2] = v.unmarkPair.2 := unionMarks_nil_right_sorted h2
  simp only [withMarksV, List.length_cons, List.length_nil, this]
  exact congrArg Res.ok (withMarks_unmark v hw hc)

/-- `withSameMarks_marks` and `withSameMarks_value` for the translated `WithSameMarks`. -/
theorem withSameMarks_generated {ord : Ord} (ho : OrdOk ord) (v : Value) (srcs : List Value) :
    ∃ r, Value_WithSameMarks ord v srcs = .ok r ∧ r.unmark = v.unmark ∧
      ∀ m, m ∈ r.marks ↔ m ∈ v.marks ∨ ∃ s ∈ srcs, m ∈ s.marks :=
  ⟨_, WithSameMarks_tie ho v srcs, withSameMarks_value v srcs, fun m => withSameMarks_marks v srcs m⟩

/-- `hasSameMarks_iff` for the translated `HasSameMarks` (and `ValueMarks.Equal`, which it calls). -/
theorem hasSameMarks_iff_generated {ord : Ord} (ho : OrdOk ord) (a b : Value) (ha : a.v.markerWF = true)
    (hb : b.v.markerWF = true) (hca : a.v.marksCanon) (hcb : b.v.marksCanon) :
    Value_HasSameMarks ord a b = .ok true ↔ a.marks = b.marks := by
  rw [HasSameMarks_tie ho, ← hasSameMarks_iff a b ha hb hca hcb]
  constructor
  · intro h; injection h
  · intro h; rw [h]

/-- `WithMarks` merges into the one marker layer: the translated method never nests a marker in a marker it built. -/
theorem withMarks_one_layer_generated {ord : Ord} (ho : OrdOk ord) (v : Value) (mss : List (List String)) :
    ∃ r, Value_WithMarks ord v mss = .ok r ∧ r.unmark = v.unmark :=
  ⟨_, WithMarks_tie ho v mss, unmark_withMarksV v mss⟩

/-- `unmarkDeepWithPaths_markWithPaths` for the translated `UnmarkDeepWithPaths` and `MarkWithPaths`, whose
`TransformWithTransformer` is the hand-written transform model of Walk.lean (C19): on every value that model's
theorems cover (`Walk.Good`) with canonical mark sets, for every set-iteration oracle that is a permutation and every
pair of attribute orders, the records are exactly the marked positions and re-applying them restores the value. -/
theorem unmarkDeepWithPaths_markWithPaths_generated {ord : Ord} (ho : OrdOk ord) {X : SetOracle} (hX : Walk.IterPerm X)
    {σ σ' : Walk.Sched} (hσ : Walk.SchedOk σ) (hσ' : Walk.SchedOk σ') (v : Value) (hg : Walk.Good X v)
    (hcan : ∀ r n, Walk.nodeAt X v r = some n → MSorted n.marks) :
    ∃ pvm, Value_UnmarkDeepWithPaths ord X σ v = .ok (v.unmarkDeep, pvm) ∧
      Value_MarkWithPaths ord X σ' v.unmarkDeep pvm = .ok v := by
  obtain ⟨pvm, h1, _, _, h4⟩ := unmark_remark_generated ho hX hσ hσ' v hg hcan
  exact ⟨pvm, h1, h4⟩

/-- `unmarkDeep_clean` for the translated `UnmarkDeep`: nothing marked is left, and the returned set holds exactly
the marks found at some position of the value. -/
theorem unmarkDeep_clean_generated {ord : Ord} (ho : OrdOk ord) {X : SetOracle} (hX : Walk.IterPerm X)
    {σ : Walk.Sched} (hσ : Walk.SchedOk σ) (v : Value) (hg : Walk.Good X v) :
    ∃ ms, Value_UnmarkDeep ord X σ v = .ok (v.unmarkDeepPair.1, ms) ∧ v.unmarkDeepPair.1.containsMarked = false ∧
      ∀ m, m ∈ ms ↔ ∃ r n, Walk.nodeAt X v r = some n ∧ m ∈ n.marks := by
  obtain ⟨ms, h1, _, h3, h4⟩ := unmarkDeep_generated ho hX hσ v hg
  exact ⟨ms, h1, h3, h4⟩

/-- `unmarkDeepWithPaths_agrees_unmarkDeep` for the translated pair, for EVERY value, set-iteration oracle, attribute
order and map order: `UnmarkDeep` returns the value `UnmarkDeepWithPaths` returns, and as marks the union of the mark
sets in its records.  (Both are the hand-written `Walk.unmarkDeepWithPaths` — `MarksFnsTie.UnmarkDeepWithPaths_eq`,
`UnmarkDeep_eq` — whose transform never fails of its own, `transformFuel_noErr`.) -/
theorem unmarkDeepWithPaths_agrees_unmarkDeep_generated {ord : Ord} (ho : OrdOk ord) (X : SetOracle) (σ : Walk.Sched)
    (v : Value) :
    Value_UnmarkDeep ord X σ v =
      (Value_UnmarkDeepWithPaths ord X σ v).map fun q => (q.1, unionAllMarks (q.2.map (·.2))) :=
  UnmarkDeep_tie ho X σ v

/-- The translated `ContainsMarked` (a closure over `Walk`, the hand-written walk of Walk.lean) decides whether any
value inside carries a mark, on every value of the shape the API builds (`Walk.shapedV`). -/
theorem containsMarked_generated (ord : Ord) {X : SetOracle} (hX : Walk.IterPerm X) (σ : Walk.Sched) (v : Value)
    (hs : Walk.shapedV v = true) : Value_ContainsMarked ord X σ v = .ok v.containsMarked :=
  ContainsMarked_tie ord hX σ v hs

/-- the hypotheses are satisfiable: reversal is an admissible map order, and a marked value round-trips -/
example : OrdOk List.reverse := ordOk_reverse
example : (Value_Mark List.reverse ⟨.bool, .marked ["a", "c"] (.b true)⟩ (.one "b")).bind (Value_Unmark List.reverse) =
    .ok (⟨.bool, .b true⟩, ["a", "b", "c"]) := by rfl
example : Value_WithMarks List.reverse ⟨.bool, .marked ["a"] (.b true)⟩ [["c", "b"], []] =
    .ok ⟨.bool, .marked ["a", "b", "c"] (.b true)⟩ := by rfl

end Generated

end C04
end CtyModel
