/-
C02 — Core operations compute the documented result on known values.

`Num.add/sub/mulCty/quo`, `Num.cmp`, `Value.add … Value.hasElement` are the
transliterations that the harness diffs against /repo (exact mantissa, exponent
and precision of every result).  The theorems say what those functions compute.
`Num.IsVal c v e` reads "c is finite with exact value v·2^e".
-/
import CtyModel.Lemmas.NumRound
import CtyModel.Lemmas.d02Quo
import CtyModel.Lemmas.d02Reject
import CtyModel.Lemmas.d02Coll
import CtyModel.Lemmas.d02Mod
import CtyModel.Lemmas.d02Has
import CtyModel.Lemmas.OpsFnsTie
namespace CtyModel
namespace C02
open Num Value

/-- exact signed sum of two finite numbers at their common exponent -/
def exactSum (na : Bool) (ma : Nat) (ea : Int) (nb : Bool) (mb : Nat) (eb : Int) : Int :=
  scaleTo (if na then -(ma : Int) else ma) ea (min ea eb) +
  scaleTo (if nb then -(mb : Int) else mb) eb (min ea eb)

/-- Addition agrees with exact arithmetic to within the precision of its
operands: the result is finite, has the larger operand precision, lies within
half a unit of the last kept binary place `2^k` of the exact sum `s`, and is the
exact sum whenever that fits the precision. -/
theorem add_within_half_ulp (na nb : Bool) (ma mb : Nat) (ea eb : Int) (pa pb : Nat)
    (hp : 0 < max pa pb) (hs : exactSum na ma ea nb mb eb ≠ 0) :
    let s := exactSum na ma ea nb mb eb
    ∃ (c : Num) (k q : Nat), Num.add (.fin na ma ea pa) (.fin nb mb eb pb) = .ok c ∧
      c.prec = max pa pb ∧
      IsVal c (if s < 0 then -(q : Int) else q) (min ea eb + k) ∧
      2 * (q * 2 ^ k) ≤ 2 * s.natAbs + 2 ^ k ∧ 2 * s.natAbs ≤ 2 * (q * 2 ^ k) + 2 ^ k ∧
      (bitlen s.natAbs ≤ max pa pb → k = 0 ∧ q = s.natAbs) := by
  intro s
  have hnz : ¬ (ma = 0 ∧ mb = 0) := by
    rintro ⟨rfl, rfl⟩
    apply hs
    simp [exactSum, scaleTo]
  obtain ⟨k, q, h1, h2, h3, h4, h5⟩ := round_spec (decide (s < 0)) s.natAbs (min ea eb) (max pa pb) hp
  refine ⟨round (decide (s < 0)) s.natAbs (min ea eb) (max pa pb), k, q, ?_, h5, ?_, h2, h3, h4⟩
  · simp only [Num.add, hnz, if_false]
    have : (exactSum na ma ea nb mb eb = 0) = False := by simp [hs]
    simp only [exactSum] at this
    simp only [this, if_false]
    rfl
  · simpa using h1

/-- Subtraction is addition of the negation (as in the code), hence the same bound. -/
theorem sub_is_add_neg (a b : Num) : Num.sub a b = Num.add a (Num.neg b) := rfl

/-- Multiplication: the exact product rounded to 512 bits (half-ulp bound, exact
when the product fits), re-tagged with precision max(operand precisions, bits needed). -/
theorem mul_within_half_ulp (na nb : Bool) (ma mb : Nat) (ea eb : Int) (pa pb : Nat) :
    ∃ (c : Num) (k q : Nat), Num.mulCty (.fin na ma ea pa) (.fin nb mb eb pb) = .ok c ∧
      IsVal c (if (na != nb) then -(q : Int) else q) (ea + eb + k) ∧
      2 * (q * 2 ^ k) ≤ 2 * (ma * mb) + 2 ^ k ∧ 2 * (ma * mb) ≤ 2 * (q * 2 ^ k) + 2 ^ k ∧
      (bitlen (ma * mb) ≤ 512 → k = 0 ∧ q = ma * mb) ∧ max pa pb ≤ c.prec := by
  obtain ⟨k, q, h1, h2, h3, h4, _⟩ := round_spec (na != nb) (ma * mb) (ea + eb) 512 (by decide)
  simp only [Num.mulCty]
  generalize hr : round (na != nb) (ma * mb) (ea + eb) 512 = r at *
  cases r with
  | inf n => simp [IsVal] at h1
  | fin n m e p =>
    refine ⟨_, k, q, rfl, ?_, h2, h3, h4, ?_⟩
    · simpa [IsVal] using h1
    · simp [Num.prec]; omega

/-- Division by zero gives the documented signed infinity (0/0 is the NaN panic). -/
theorem div_zero_signed_inf (na nb : Bool) (ma : Nat) (ea eb : Int) (pa pb : Nat) (h : ma ≠ 0) :
    Num.quo (.fin na ma ea pa) (.fin nb 0 eb pb) = .ok (.inf (na != nb)) := by
  simp [Num.quo, h]

/-- Comparison is exact comparison of the two values at a common exponent. -/
theorem cmp_agrees (na nb : Bool) (ma mb : Nat) (ea eb : Int) (pa pb : Nat) :
    let x := scaleTo (if na then -(ma : Int) else ma) ea (min ea eb)
    let y := scaleTo (if nb then -(mb : Int) else mb) eb (min ea eb)
    (Num.cmp (.fin na ma ea pa) (.fin nb mb eb pb) = -1 ↔ x < y) ∧
    (Num.cmp (.fin na ma ea pa) (.fin nb mb eb pb) = 0 ↔ x = y) ∧
    (Num.cmp (.fin na ma ea pa) (.fin nb mb eb pb) = 1 ↔ y < x) := by
  intro x y
  show (Num.cmp (.fin na ma ea pa) (.fin nb mb eb pb) = -1 ↔ x < y) ∧ _
  have hc : Num.cmp (.fin na ma ea pa) (.fin nb mb eb pb) = if x < y then -1 else if x = y then 0 else 1 := rfl
  rw [hc]
  refine ⟨?_, ?_, ?_⟩ <;> by_cases h1 : x < y <;> by_cases h2 : x = y <;> simp [h1, h2] <;> omega

/-- precision plays no part in comparison -/
theorem cmp_ignores_prec (n : Bool) (m : Nat) (e : Int) (p q : Nat) :
    Num.cmp (.fin n m e p) (.fin n m e q) = 0 := by
  simp [Num.cmp]

/-- Boolean operations agree with their truth tables. -/
theorem logic_truth_tables (x y : Bool) :
    Value.not (boolVal x) = .ok (boolVal (!x)) ∧
    Value.and (boolVal x) (boolVal y) = .ok (boolVal (x && y)) ∧
    Value.or (boolVal x) (boolVal y) = .ok (boolVal (x || y)) := by
  cases x <;> cases y <;> exact ⟨rfl, rfl, rfl⟩

/-- On known numbers the value-level operation is the number-level one and has type number. -/
theorem add_known (x y : Num) (r : Num) (h : Num.add x y = .ok r) :
    Value.add (numVal x) (numVal y) = .ok (numVal r) := by
  simp [Value.add, binMarks, Value.isMarked, Payload.isMarked, numVal, addU, typeCheck, typeCheckAux,
    Ty.equals, Ty.isDyn, Value.isUnk, asNum, h]

/-- Operands of the wrong type are rejected (a Go panic), not given a value. -/
theorem add_wrong_type_rejected (s : String) (y : Num) :
    Value.add ⟨.string, .s s⟩ (numVal y) = .panic "type mismatch" := by
  simp [Value.add, binMarks, Value.isMarked, Payload.isMarked, numVal, addU, typeCheck, typeCheckAux,
    Ty.equals, Ty.isDyn]

/-- List indexing returns exactly the member the list was built from, and succeeds
exactly when HasIndex answers true. -/
theorem index_list (e : Ty) (vs : List Payload) (i : Nat) (hi : (i : Int) ≤ maxInt) :
    Value.index ⟨.list e, .seq vs⟩ (intVal i) =
      (match vs[i]? with | some p => .ok ⟨e, p⟩ | none => .panic "index out of range") ∧
    Value.hasIndex ⟨.list e, .seq vs⟩ (intVal i) = .ok (boolVal (decide (i < vs.length))) := by
  have hk : keyIndex (intVal i) = .ok (some i) := by
    simp only [keyIndex, intVal, numVal, Num.toInt?, Num.ofInt, Num.mk]
    have hnn : ¬ ((i : Int) < 0) := by omega
    have hneg : decide ((i : Int) < 0) = false := by simp
    rw [hneg]
    by_cases h0 : i = 0
    · subst h0; simp [Num.norm, Num.normFuel, Num.isInt, Num.truncInt, Num.bitlen, maxInt]
    · have hv := Num.norm_val (Int.natAbs i) 0 (by omega)
      have hexp : 0 ≤ (Num.norm (Int.natAbs i) 0).2 := hv.1
      simp only [Num.isInt, Num.truncInt, ge_iff_le, hexp, decide_true, if_true]
      have h2 : ((Num.norm (Int.natAbs (i:Int)) 0).1 : Int) * 2 ^ ((Num.norm (Int.natAbs (i:Int)) 0).2).toNat = i := by
        have := hv.2
        simp only [Int.sub_zero] at this
        have h3 : Int.natAbs (i : Int) = i := by simp
        rw [h3] at this ⊢
        exact_mod_cast this
      simp only [Bool.false_eq_true, if_false, h2]
      have : ¬ ((i : Int) < 0 ∨ (i : Int) > maxInt) := by omega
      simp [this]
  constructor
  · simp only [intVal, numVal] at hk
    simp [Value.index, binMarks, Value.isMarked, Payload.isMarked, intVal, numVal, indexU, Value.isKnown,
      Payload.isKnown, Payload.unmark1, Ty.isDyn, Ty.isNumber, hk]
    rfl
  · simp only [intVal, numVal] at hk
    simp [Value.hasIndex, binMarks, Value.isMarked, Payload.isMarked, intVal, numVal, hasIndexU,
      Value.isKnown, Payload.isKnown, Payload.unmark1, Ty.isDyn, Ty.isNumber, hk]

/-- Length of a known list / map is the number of members it was built from. -/
theorem length_list (e : Ty) (vs : List Payload) :
    Value.length ⟨.list e, .seq vs⟩ = .ok (intVal vs.length) := by
  simp [Value.length, unMarks, Value.isMarked, Payload.isMarked, lengthU, Value.isKnown, Payload.isKnown,
    Payload.unmark1]

/-- Attribute access returns exactly the attribute the object holds. -/
theorem getAttr_object (ns : List String) (ts : List Ty) (os : List Bool) (vs : List Payload)
    (name : String) (t : Ty) (o : Bool) (p : Payload)
    (ht : Ty.find name ns ts os = some (t, o)) (hv : lookupKey name ns vs = some p) :
    Value.getAttr ⟨.object ns ts os, .smap ns vs⟩ name = .ok ⟨t, p⟩ := by
  simp [Value.getAttr, Value.isMarked, Payload.isMarked, getAttrU, ht, Value.isKnown, Payload.isKnown,
    Payload.unmark1, hv, Ty.isDyn]

/-- …and a name the type does not declare is rejected. -/
theorem getAttr_missing_rejected (ns : List String) (ts : List Ty) (os : List Bool) (vs : List Payload)
    (name : String) (ht : Ty.find name ns ts os = none) :
    Value.getAttr ⟨.object ns ts os, .smap ns vs⟩ name = .panic "no attribute" := by
  simp [Value.getAttr, Value.isMarked, Payload.isMarked, getAttrU, ht, Ty.isDyn]

/-- The full statement "an index lookup succeeds exactly when HasIndex answers
true" is FALSE for maps: indexing a map with a missing key yields a null of the
element type while HasIndex answers false. -/
def IndexOkIffHasIndex : Prop :=
  ∀ (v k : Value), v.isKnown → k.isKnown → !v.isNull → !k.isNull →
    ((Value.index v k).isOk ↔ Value.hasIndex v k = .ok (boolVal true))

theorem index_map_missing_counterexample :
    Value.index ⟨.map .string, .smap ["a"] [.s "x"]⟩ ⟨.string, .s "b"⟩ = .ok ⟨.string, .null⟩ ∧
    Value.hasIndex ⟨.map .string, .smap ["a"] [.s "x"]⟩ ⟨.string, .s "b"⟩ = .ok (boolVal false) := by
  constructor <;> rfl

theorem indexOkIffHasIndex_false : ¬ IndexOkIffHasIndex := by
  intro h
  have := h ⟨.map .string, .smap ["a"] [.s "x"]⟩ ⟨.string, .s "b"⟩ (by decide) (by decide) (by decide) (by decide)
  have h1 := index_map_missing_counterexample
  rw [h1.1, h1.2] at this
  simp [Res.isOk, boolVal] at this

/-! Non-vacuity -/
example : exactSum false 3 0 true 1 (-1) ≠ 0 := by decide
example : Num.add (.fin false 3 0 64) (.fin true 1 (-1) 64) = .ok (.fin false 5 (-1) 64) := by decide

/-! ## Deepening (audit of C02): precision-pinned rounding, division, comparison
methods, per-kind lookups, result types, rejection of wrong-typed operands.
`D02.RoundNE N p q k`: `q·2^k` is THE nearest-even rounding of `N` at `p`
significant bits (`k = bitlen N − p` pinned, all `p` bits used, ties to even;
unique by `rounding_unique`).  `D02.Exact c v e`: `c` is finite with exact value
`v·2^e`.  `D02.RoundQ N D p q k`: the same for the rational `N/D`. -/

/-- "Arithmetic agrees with exact rational arithmetic to within the precision of
its operands", ADD on values: the result is a known number of precision
`max pa pb` whose value is the nearest-even rounding, at exactly that precision,
of the exact sum `s·2^(min ea eb)`.  (Exact sum zero: `add_exact_zero`.) -/
theorem add_rounds_to_nearest_even (na nb : Bool) (ma mb : Nat) (ea eb : Int) (pa pb : Nat)
    (hp : 0 < max pa pb) (hs : D02.exactSum na ma ea nb mb eb ≠ 0) :
    ∃ (c : Num) (q : Nat),
      Value.add (numVal (.fin na ma ea pa)) (numVal (.fin nb mb eb pb)) = .ok (numVal c) ∧
      c.prec = max pa pb ∧
      D02.Exact c (if D02.exactSum na ma ea nb mb eb < 0 then -(q : Int) else q)
        (min ea eb + ((bitlen (D02.exactSum na ma ea nb mb eb).natAbs - max pa pb : Nat) : Int)) ∧
      D02.RoundNE (D02.exactSum na ma ea nb mb eb).natAbs (max pa pb) q
        (bitlen (D02.exactSum na ma ea nb mb eb).natAbs - max pa pb) := by
  obtain ⟨c, q, h1, h2, h3, h4⟩ := D02.add_fin_rounds na nb ma mb ea eb pa pb hp hs
  exact ⟨c, q, by rw [D02.add_num, h1]; rfl, h2, h3, h4⟩

/-- …and an exact sum of zero gives a zero of that precision. -/
theorem add_exact_zero (na nb : Bool) (ma mb : Nat) (ea eb : Int) (pa pb : Nat)
    (hs : D02.exactSum na ma ea nb mb eb = 0) :
    ∃ n, Value.add (numVal (.fin na ma ea pa)) (numVal (.fin nb mb eb pb)) = .ok (numVal (.fin n 0 0 (max pa pb))) := by
  obtain ⟨n, h⟩ := D02.add_fin_zero na nb ma mb ea eb pa pb hs
  exact ⟨n, by rw [D02.add_num, h]; rfl⟩

/-- SUBTRACT on values: the nearest-even rounding of the exact difference (the
exact sum with the second sign flipped) at precision `max pa pb`. -/
theorem sub_rounds_to_nearest_even (na nb : Bool) (ma mb : Nat) (ea eb : Int) (pa pb : Nat)
    (hp : 0 < max pa pb) (hs : D02.exactSum na ma ea (!nb) mb eb ≠ 0) :
    ∃ (c : Num) (q : Nat),
      Value.sub (numVal (.fin na ma ea pa)) (numVal (.fin nb mb eb pb)) = .ok (numVal c) ∧
      c.prec = max pa pb ∧
      D02.Exact c (if D02.exactSum na ma ea (!nb) mb eb < 0 then -(q : Int) else q)
        (min ea eb + ((bitlen (D02.exactSum na ma ea (!nb) mb eb).natAbs - max pa pb : Nat) : Int)) ∧
      D02.RoundNE (D02.exactSum na ma ea (!nb) mb eb).natAbs (max pa pb) q
        (bitlen (D02.exactSum na ma ea (!nb) mb eb).natAbs - max pa pb) := by
  obtain ⟨c, q, h1, h2, h3, h4⟩ := D02.add_fin_rounds na (!nb) ma mb ea eb pa pb hp hs
  refine ⟨c, q, ?_, h2, h3, h4⟩
  rw [D02.sub_num]
  show (Num.add _ (Num.neg _)).map numVal = _
  simp only [Num.neg]
  rw [h1]; rfl

/-- MULTIPLY on values: the nearest-even rounding of the exact product at cty's
working precision of 512 bits (so at least as precise as either operand), stored
with precision max(operand precisions, bits the result needs). -/
theorem mul_rounds_to_nearest_even (na nb : Bool) (ma mb : Nat) (ea eb : Int) (pa pb : Nat) :
    ∃ (c : Num) (q : Nat),
      Value.mul (numVal (.fin na ma ea pa)) (numVal (.fin nb mb eb pb)) = .ok (numVal c) ∧
      D02.Exact c (NumCmp.sgnm (na != nb) q) (ea + eb + ((bitlen (ma * mb) - 512 : Nat) : Int)) ∧
      D02.RoundNE (ma * mb) 512 q (bitlen (ma * mb) - 512) ∧
      c.prec = max (max pa pb) c.minPrec := by
  obtain ⟨c, q, h1, h2, h3, h4⟩ := D02.mul_fin_rounds na nb ma mb ea eb pa pb
  exact ⟨c, q, by rw [D02.mul_num, h1]; rfl, h2, h3, h4⟩

/-- DIVIDE on values, non-zero finite operands: the nearest-even rounding, to exactly
`max pa pb` significant bits, of the exact rational quotient
`(2·ma·2^s / mb)·2^(ea−eb−s−1) = (ma·2^ea)/(mb·2^eb)`. -/
theorem div_rounds_to_nearest_even (na nb : Bool) (ma mb : Nat) (ea eb : Int) (pa pb : Nat)
    (hp : 0 < max pa pb) (ha : ma ≠ 0) (hb : mb ≠ 0) :
    ∃ (c : Num) (s k q : Nat),
      Value.div (numVal (.fin na ma ea pa)) (numVal (.fin nb mb eb pb)) = .ok (numVal c) ∧
      c.prec = max pa pb ∧
      D02.Exact c (NumCmp.sgnm (na != nb) q) (ea - eb - (s : Int) - 1 + (k : Int)) ∧
      D02.RoundQ (2 * (ma * 2 ^ s)) mb (max pa pb) q k := by
  obtain ⟨c, s, k, q, h1, h2, h3, h4⟩ := D02.quo_fin_rounds na nb ma mb ea eb pa pb hp ha hb
  exact ⟨c, s, k, q, by rw [D02.div_num, h1]; rfl, h2, h3, h4⟩

/-- The rounding these theorems speak of is a function of the exact result and the
precision: no degenerate witness satisfies `RoundNE`. -/
theorem rounding_unique {N p q k q' k' : Nat} (h : D02.RoundNE N p q k) (h' : D02.RoundNE N p q' k') :
    q = q' ∧ k = k' := D02.RoundNE.unique h h'

/-- "…and results that fit are exact": nothing is cut off when the exact result
fits the precision. -/
theorem rounding_exact_when_fits {N p q k : Nat} (h : D02.RoundNE N p q k) (hf : bitlen N ≤ p) :
    k = 0 ∧ q = N := h.exact_of_fits hf

/-- Division by zero on values: the documented signed infinity; 0/0 is rejected (NaN). -/
theorem div_by_zero (na nb : Bool) (ma : Nat) (ea eb : Int) (pa pb : Nat) :
    Value.div (numVal (.fin na ma ea pa)) (numVal (.fin nb 0 eb pb)) =
      if ma = 0 then .panic "ErrNaN" else .ok (numVal (.inf (na != nb))) := by
  rw [D02.div_num, D02.quo_zero]; split <;> rfl

/-- Negate and Absolute are exact: same mantissa, exponent and precision. -/
theorem neg_abs_known (x : Num) :
    Value.neg (numVal x) = .ok (numVal (Num.neg x)) ∧ Value.abs (numVal x) = .ok (numVal (Num.abs x)) ∧
    (∀ n m e p, Num.neg (.fin n m e p) = .fin (!n) m e p) ∧ (∀ n m e p, Num.abs (.fin n m e p) = .fin false m e p) :=
  ⟨D02.neg_num x, D02.abs_num x, fun _ _ _ _ => rfl, fun _ _ _ _ => rfl⟩

/-! ### the six comparison methods -/

/-- LessThan and GreaterThan are exact comparison (`big.Float.Cmp`, which `cmp_agrees`
identifies with comparison of the exact values). -/
theorem lessThan_greaterThan_exact (x y : Num) :
    Value.lessThan (numVal x) (numVal y) = .ok (boolVal (decide (Num.cmp x y < 0))) ∧
    Value.greaterThan (numVal x) (numVal y) = .ok (boolVal (decide (Num.cmp x y > 0))) :=
  ⟨D02.lt_num x y, D02.gt_num x y⟩

/-- What the other four compute: `Equals` on numbers is `rawNumberEqual` (equality
of the shortest decimal texts, which depends on the precisions), `≤`/`≥` are
`<`/`>` OR-ed with it, `!=` its negation. -/
theorem le_ge_eq_ne_compute (x y : Num) :
    Value.lessThanOrEqualTo (numVal x) (numVal y) = .ok (boolVal (decide (Num.cmp x y < 0) || Num.rawEqual x y)) ∧
    Value.greaterThanOrEqualTo (numVal x) (numVal y) = .ok (boolVal (decide (Num.cmp x y > 0) || Num.rawEqual x y)) ∧
    Value.equals (numVal x) (numVal y) = .ok (boolVal (Num.rawEqual x y)) ∧
    Value.notEqual (numVal x) (numVal y) = .ok (boolVal (!Num.rawEqual x y)) :=
  ⟨D02.le_num x y, D02.ge_num x y, D02.eq_num x y, D02.ne_num x y⟩

/-- The full clause "comparison operations agree with exact arithmetic" for the four
methods that go through `Equals`.  FALSE of the code (both directions, below). -/
def EqualityMethodsExact : Prop :=
  ∀ x y : Num,
    Value.lessThanOrEqualTo (numVal x) (numVal y) = .ok (boolVal (decide (Num.cmp x y ≤ 0))) ∧
    Value.greaterThanOrEqualTo (numVal x) (numVal y) = .ok (boolVal (decide (Num.cmp x y ≥ 0))) ∧
    Value.equals (numVal x) (numVal y) = .ok (boolVal (decide (Num.cmp x y = 0))) ∧
    Value.notEqual (numVal x) (numVal y) = .ok (boolVal (decide (Num.cmp x y ≠ 0)))

/-- …it holds exactly where text equality coincides with equality of values
(`D02.EqExact x y`, decidable), in particular for whole numbers of any precision
and for a number compared with itself. -/
theorem equalityMethodsExact_partial (x y : Num) (h : D02.EqExact x y = true) :
    Value.lessThanOrEqualTo (numVal x) (numVal y) = .ok (boolVal (decide (Num.cmp x y ≤ 0))) ∧
    Value.greaterThanOrEqualTo (numVal x) (numVal y) = .ok (boolVal (decide (Num.cmp x y ≥ 0))) ∧
    Value.equals (numVal x) (numVal y) = .ok (boolVal (decide (Num.cmp x y = 0))) ∧
    Value.notEqual (numVal x) (numVal y) = .ok (boolVal (decide (Num.cmp x y ≠ 0))) :=
  ⟨D02.le_num_exact h, D02.ge_num_exact h, D02.eq_num_exact h, D02.ne_num_exact h⟩

theorem eqExact_integers (x y : Num) (hx : x.isInt = true) (hy : y.isInt = true) : D02.EqExact x y = true :=
  D02.eqExact_of_isInt hx hy

/-- Counterexample 1 (equal values, unequal texts): 0.1 at float64 precision against
the same value stored at 512 bits — `≤`, `≥`, `==` answer False and `!=` True
although the values are equal. -/
theorem equality_text_counterexample :
    let a : Num := .fin false 3602879701896397 (-55) 53
    let b : Num := .fin false 3602879701896397 (-55) 512
    Num.cmp a b = 0 ∧
    Value.lessThanOrEqualTo (numVal a) (numVal b) = .ok (boolVal false) ∧
    Value.greaterThanOrEqualTo (numVal a) (numVal b) = .ok (boolVal false) ∧
    Value.equals (numVal a) (numVal b) = .ok (boolVal false) ∧
    Value.notEqual (numVal a) (numVal b) = .ok (boolVal true) := by
  intro a b
  have hr : Num.rawEqual a b = false := by decide +kernel
  have hc : Num.cmp a b = 0 := by decide
  refine ⟨hc, ?_, ?_, ?_, ?_⟩
  · rw [D02.le_num, hr, hc]; rfl
  · rw [D02.ge_num, hr, hc]; rfl
  · rw [D02.eq_num, hr]
  · rw [D02.ne_num, hr]; rfl

/-- Counterexample 2 (unequal values, equal texts): 0.1 at float64 precision is below
0.1 at 24 bits, yet `==` answers True, `≥` True and `!=` False: both print "0.1". -/
theorem equality_text_counterexample_coarse :
    let a : Num := .fin false 3602879701896397 (-55) 53
    let b : Num := .fin false 13421773 (-27) 24
    Num.cmp a b = -1 ∧
    Value.equals (numVal a) (numVal b) = .ok (boolVal true) ∧
    Value.greaterThanOrEqualTo (numVal a) (numVal b) = .ok (boolVal true) ∧
    Value.notEqual (numVal a) (numVal b) = .ok (boolVal false) := by
  intro a b
  have hr : Num.rawEqual a b = true := by decide +kernel
  have hc : Num.cmp a b = -1 := by decide
  refine ⟨hc, ?_, ?_, ?_⟩
  · rw [D02.eq_num, hr]
  · rw [D02.ge_num, hr, hc]; rfl
  · rw [D02.ne_num, hr]; rfl

theorem equalityMethodsExact_false : ¬ EqualityMethodsExact := by
  intro h
  have h1 := (h (.fin false 3602879701896397 (-55) 53) (.fin false 3602879701896397 (-55) 512)).2.2.1
  have h2 := equality_text_counterexample.2.2.2.1
  rw [h2] at h1
  have hc : Num.cmp (.fin false 3602879701896397 (-55) 53) (.fin false 3602879701896397 (-55) 512) = 0 := by decide
  simp [hc, boolVal] at h1

/-! ### lookups return exactly the members the value was constructed from -/

/-- Tuples: Index returns the member and the element type at that position; HasIndex
answers from the length of the tuple type. -/
theorem index_tuple (es : List Ty) (vs : List Payload) (i : Nat) (hi : (i : Int) ≤ maxInt) :
    Value.index ⟨.tuple es, .seq vs⟩ (intVal i) =
      (match es[i]? with
       | none => .panic "index out of range"
       | some t => match vs[i]? with | some p => .ok ⟨t, p⟩ | none => .panic "index out of range") ∧
    Value.hasIndex ⟨.tuple es, .seq vs⟩ (intVal i) = .ok (boolVal (decide (i < es.length))) :=
  ⟨D02.index_tuple es vs i hi, D02.hasIndex_tuple es vs i hi⟩

/-- Maps: a present key returns exactly the stored member (of the element type) and
HasIndex answers True; HasIndex is membership of the key list. -/
theorem index_map_present (e : Ty) (ks : List String) (vs : List Payload) (k : String) (p : Payload)
    (h : lookupKey k ks vs = some p) :
    Value.index ⟨.map e, .smap ks vs⟩ ⟨.string, .s k⟩ = .ok ⟨e, p⟩ ∧
    Value.hasIndex ⟨.map e, .smap ks vs⟩ ⟨.string, .s k⟩ = .ok (boolVal true) :=
  D02.index_map_present e ks vs k p h

theorem hasIndex_map (e : Ty) (ks : List String) (vs : List Payload) (k : String) :
    Value.hasIndex ⟨.map e, .smap ks vs⟩ ⟨.string, .s k⟩ = .ok (boolVal (ks.contains k)) :=
  D02.hasIndex_map e ks vs k

/-- Length of a map, a wholly known set, a tuple and an object is the number of
members / attributes (lists: `length_list`). -/
theorem length_map_set_tuple_object (e : Ty) (ks ns : List String) (ids : List Int) (vs : List Payload)
    (es ts : List Ty) (os : List Bool) (p : Payload) (hp : p.isMarked = false) :
    Value.length ⟨.map e, .smap ks vs⟩ = .ok (intVal vs.length) ∧
    (Payload.whollyKnownL vs = true → Value.length ⟨.set e, .sset ids vs⟩ = .ok (intVal vs.length)) ∧
    Value.length ⟨.tuple es, p⟩ = .ok (intVal es.length) ∧
    Value.length ⟨.object ns ts os, p⟩ = .ok (intVal ns.length) :=
  ⟨D02.length_map e ks vs, D02.length_set e ids vs, D02.length_tuple es p hp, D02.length_object ns ts os p hp⟩

/-- HasElement on a set of wholly known, well-shaped members of a plain element type:
every member the set holds is reported as an element (the needle's hash being the
member's bucket id, as the implementation computes it). -/
theorem hasElement_member (e : Ty) (hw : e.wf = true) (hp : e.plain = true) (ids : List Int) (vs : List Payload)
    (hg : ∀ p ∈ vs, D02.Good e p) (hl : ids.length = vs.length) (j : Nat) (hj : j < vs.length) :
    Value.hasElement ⟨.set e, .sset ids vs⟩ ⟨e, vs[j]⟩ (some (ids[j]'(hl ▸ hj))) = .ok (boolVal true) :=
  D02.hasElement_member e hw hp ids vs hg hl j hj

/-- …and conversely a True answer always comes from a stored member of the needle's
bucket that `Equals` the needle, a False answer means there is none. -/
theorem hasElement_true_iff_member (e : Ty) (hw : e.wf = true) (ids : List Int) (vs : List Payload) (x : Payload) (h : Int)
    (hm : x.containsMarked = false) (hk : x.isKnown = true) :
    (Value.hasElement ⟨.set e, .sset ids vs⟩ ⟨e, x⟩ (some h) = .ok (boolVal true) → D02.Hit Value.equalsP e h x ids vs) ∧
    (Value.hasElement ⟨.set e, .sset ids vs⟩ ⟨e, x⟩ (some h) = .ok (boolVal false) → ¬ D02.Hit Value.equalsP e h x ids vs) :=
  ⟨fun hr => D02.hasElement_true_hit e ids vs ⟨e, x⟩ h hm hr, fun hr => D02.hasElement_false_no_hit e hw ids vs x h hm hk hr⟩

/-- The full clause "HasElement agrees with a linear scan of the members using
Equals" is FALSE of the code (`hasElement_linear_scan_counterexample`).  It holds
under the side condition `D02.HashCoherent`: every member that Equals the needle
sits in the bucket the needle hashes to (true of whole numbers, strings, bools;
false for non-integer numbers that print alike at their own precisions but differ
in their 10-digit texts). -/
def HasElementIsLinearScan : Prop :=
  ∀ (e : Ty) (ids : List Int) (vs : List Payload) (x : Payload) (h : Int), e.wf = true → e.plain = true →
    (∀ p ∈ vs, D02.Good e p) → D02.Good e x →
    Value.hasElement ⟨.set e, .sset ids vs⟩ ⟨e, x⟩ (some h) = .ok (boolVal ((ids.zip vs).any fun q => rawB e x q.2))

theorem hasElement_eq_linear_scan_partial (e : Ty) (hw : e.wf = true) (hp : e.plain = true) (ids : List Int)
    (vs : List Payload) (hg : ∀ p ∈ vs, D02.Good e p) (x : Payload) (hx : D02.Good e x) (h : Int)
    (hc : D02.HashCoherent e h x ids vs) :
    Value.hasElement ⟨.set e, .sset ids vs⟩ ⟨e, x⟩ (some h) = .ok (boolVal ((ids.zip vs).any fun q => rawB e x q.2)) :=
  D02.hasElement_scan e hw hp ids vs hg x hx h hc

/-- the recorded witness with the bucket ids the implementation computes:
`SetVal([…, NumberFloatVal(3.9477794105)]).HasElement(MustParseNumberVal("3.9477794105"))` is
False although the member Equals the needle. -/
theorem hasElement_linear_scan_counterexample :
    Value.equals ⟨.number, .n (.fin false 4444804470517179 (-50) 53)⟩
      ⟨.number, .n (.fin false 6616383510720751409574419276066167347849274831266510936186703153532054316082981444465370061514054905547072918229708187613238190649929064032578605931325323 (-509) 512)⟩
      = .ok (boolVal true) ∧
    Value.hasElement ⟨.set .number, .sset [1243578146] [.n (.fin false 4444804470517179 (-50) 53)]⟩
      ⟨.number, .n (.fin false 6616383510720751409574419276066167347849274831266510936186703153532054316082981444465370061514054905547072918229708187613238190649929064032578605931325323 (-509) 512)⟩
      (some 1459007788) = .ok (boolVal false) := D02.hasElement_hash_counterexample

theorem hasElementIsLinearScan_false : ¬ HasElementIsLinearScan := by
  intro h
  have h1 := h .number [1243578146] [.n (.fin false 4444804470517179 (-50) 53)]
    (.n (.fin false 6616383510720751409574419276066167347849274831266510936186703153532054316082981444465370061514054905547072918229708187613238190649929064032578605931325323 (-509) 512))
    1459007788 (by decide) (by decide)
    (by intro p hp; simp only [List.mem_singleton] at hp; subst hp; exact ⟨by decide, by decide, by decide⟩)
    ⟨by decide, by decide, by decide⟩
  rw [hasElement_linear_scan_counterexample.2] at h1
  have h2 : rawB .number (.n (.fin false 6616383510720751409574419276066167347849274831266510936186703153532054316082981444465370061514054905547072918229708187613238190649929064032578605931325323 (-509) 512))
      (.n (.fin false 4444804470517179 (-50) 53)) = true := by
    have : Num.rawEqual (.fin false 6616383510720751409574419276066167347849274831266510936186703153532054316082981444465370061514054905547072918229708187613238190649929064032578605931325323 (-509) 512) (.fin false 4444804470517179 (-50) 53) = true := by decide +kernel
    simpa [rawB] using this
  simp [h2, boolVal] at h1

/-- `IndexOkIffHasIndex` restricted to lists and (well-shaped) tuples: for EVERY known,
unmarked key that is not dynamically typed — whole, fractional, negative, huge,
infinite, null, or of a wrong type — Index yields a value exactly when HasIndex
answers True. -/
theorem indexOkIffHasIndex_partial (k : Value) (hm : k.isMarked = false) (hk : k.isKnown = true)
    (hd : k.ty.isDyn = false) (e : Ty) (es : List Ty) (vs : List Payload) :
    ((Value.index ⟨.list e, .seq vs⟩ k).isOk = true ↔ Value.hasIndex ⟨.list e, .seq vs⟩ k = .ok (boolVal true)) ∧
    (es.length = vs.length →
      ((Value.index ⟨.tuple es, .seq vs⟩ k).isOk = true ↔ Value.hasIndex ⟨.tuple es, .seq vs⟩ k = .ok (boolVal true))) :=
  ⟨D02.indexOk_iff_hasIndex_list_key e vs k hm hk hd,
   fun hl => D02.indexOk_iff_hasIndex_tuple_key es vs hl k hm hk hd⟩

/-! ### result types; wrong-typed operands and missing keys are rejected -/

/-- "Each result has the documented result type": for ALL operands (known or not). -/
theorem result_types (a b r : Value) (eh : Option Int) :
    (Value.add a b = .ok r → r.ty = .number) ∧ (Value.sub a b = .ok r → r.ty = .number) ∧
    (Value.mul a b = .ok r → r.ty = .number) ∧ (Value.div a b = .ok r → r.ty = .number) ∧
    (Value.mod a b = .ok r → r.ty = .number) ∧ (Value.neg a = .ok r → r.ty = .number) ∧
    (Value.abs a = .ok r → r.ty = .number) ∧ (Value.length a = .ok r → r.ty = .number) ∧
    (Value.lessThan a b = .ok r → r.ty = .bool) ∧ (Value.greaterThan a b = .ok r → r.ty = .bool) ∧
    (Value.lessThanOrEqualTo a b = .ok r → r.ty = .bool) ∧ (Value.greaterThanOrEqualTo a b = .ok r → r.ty = .bool) ∧
    (Value.equals a b = .ok r → r.ty = .bool) ∧ (Value.notEqual a b = .ok r → r.ty = .bool) ∧
    (Value.not a = .ok r → r.ty = .bool) ∧ (Value.and a b = .ok r → r.ty = .bool) ∧
    (Value.or a b = .ok r → r.ty = .bool) ∧ (Value.hasIndex a b = .ok r → r.ty = .bool) ∧
    (Value.hasElement a b eh = .ok r → r.ty = .bool) ∧
    (∀ e, a.ty = .list e → Value.index a b = .ok r → r.ty = e) ∧
    (∀ e, a.ty = .map e → Value.index a b = .ok r → r.ty = e) :=
  ⟨D02.add_ty, D02.sub_ty, D02.mul_ty, D02.div_ty, D02.mod_ty, D02.neg_ty, D02.abs_ty, D02.length_ty,
   lessThan_ty, greaterThan_ty, D02.le_ty, D02.ge_ty, equals_ty, D02.ne_ty, D02.not_ty, D02.and_ty, D02.or_ty,
   D02.hasIndex_ty, D02.hasElement_ty, fun _ hv h => D02.index_ty_list hv h, fun _ hv h => D02.index_ty_map hv h⟩

/-- "Operands of the wrong type are rejected rather than yielding a value": every
number method, either operand position, whatever the other operand is (marked,
unknown, null, …).  `D02.Wrong req t`: `t` is neither `req` nor the dynamic pseudo-type. -/
theorem number_methods_reject_wrong_type (a b : Value) (h : D02.Wrong .number a.ty ∨ D02.Wrong .number b.ty) :
    Value.add a b = .panic "type mismatch" ∧ Value.sub a b = .panic "type mismatch" ∧
    Value.mul a b = .panic "type mismatch" ∧ Value.div a b = .panic "type mismatch" ∧
    Value.mod a b = .panic "type mismatch" ∧ Value.lessThan a b = .panic "type mismatch" ∧
    Value.greaterThan a b = .panic "type mismatch" ∧ Value.lessThanOrEqualTo a b = .panic "type mismatch" ∧
    Value.greaterThanOrEqualTo a b = .panic "type mismatch" :=
  ⟨D02.add_rejects h, D02.sub_rejects h, D02.mul_rejects h, D02.div_rejects h, D02.mod_rejects h,
   D02.lt_rejects h, D02.gt_rejects h, D02.le_rejects h, D02.ge_rejects h⟩

/-- …the unary number methods and the three logic methods. -/
theorem unary_and_logic_methods_reject_wrong_type (a b : Value) :
    (D02.Wrong .number a.ty → Value.neg a = .panic "type mismatch" ∧ Value.abs a = .panic "type mismatch") ∧
    (D02.Wrong .bool a.ty → Value.not a = .panic "type mismatch") ∧
    (D02.Wrong .bool a.ty ∨ D02.Wrong .bool b.ty →
      Value.and a b = .panic "type mismatch" ∧ Value.or a b = .panic "type mismatch") :=
  ⟨fun h => ⟨D02.neg_rejects h, D02.abs_rejects h⟩, fun h => D02.not_rejects h,
   fun h => ⟨D02.and_rejects h, D02.or_rejects h⟩⟩

/-- …the lookups: a receiver that cannot be indexed, a key of the wrong type for the
receiver (number for lists and tuples, string for maps), a receiver of GetAttr that
is not an object. -/
theorem lookups_reject_wrong_type (v k : Value) (name : String) :
    (D02.Indexable v.ty = false → Value.index v k = .panic "not a list, map, or tuple type" ∧
      Value.hasIndex v k = .panic "not a list, map, or tuple type") ∧
    (∀ e, v.ty = .list e → D02.Wrong .number k.ty → Value.index v k = .panic "list key must be number") ∧
    (∀ es, v.ty = .tuple es → D02.Wrong .number k.ty → Value.index v k = .panic "tuple key must be number") ∧
    (∀ e, v.ty = .map e → D02.Wrong .string k.ty → Value.index v k = .panic "map key must be string") ∧
    ((match v.ty with | .object _ _ _ | .dyn => true | _ => false) = false →
      Value.getAttr v name = .panic "not an object") :=
  ⟨fun h => ⟨D02.index_rejects_receiver h, D02.hasIndex_rejects_receiver h⟩,
   fun _ hv hk => D02.index_rejects_key_list hv hk, fun _ hv hk => D02.index_rejects_key_tuple hv hk,
   fun _ hv hk => D02.index_rejects_key_map hv hk, fun h => D02.getAttr_rejects_receiver h⟩

/-- "Missing keys are rejected": a list / tuple key that is not a whole number inside
the range (negative, fractional, infinite, too large, or ≥ the length) makes
Index panic.  (Maps: `index_map_missing_counterexample` — not rejected.) -/
theorem index_missing_key_rejected (e : Ty) (es : List Ty) (vs : List Payload) (x : Num)
    (h : ∀ i, keyIndex ⟨.number, .n x⟩ = .ok (some i) → vs.length ≤ i) :
    (Value.index ⟨.list e, .seq vs⟩ ⟨.number, .n x⟩).isOk = false ∧
    (Value.index ⟨.tuple es, .seq vs⟩ ⟨.number, .n x⟩).isOk = false := by
  rw [D02.index_list_num, D02.index_tuple_num]
  obtain ⟨o, ho⟩ := D02.keyIndex_num_ok .number x
  rw [ho]
  cases o with
  | none => exact ⟨rfl, rfl⟩
  | some i =>
    have hi := h i ho
    have h1 : vs[i]? = none := by simp [hi]
    simp only [h1]
    refine ⟨rfl, ?_⟩
    cases es[i]? <;> rfl

/-! ### results that fit are exact; Modulo -/

/-- "Results on integers that fit are exact", ADD (any finite operands, whole or not):
when the exact sum `s` fits the precision `max pa pb`, the result is `s·2^(min ea eb)`
itself.  For whole operands (`0 ≤ ea, eb`) that is the integer `a + b`. -/
theorem add_exact_when_fits (na nb : Bool) (ma mb : Nat) (ea eb : Int) (pa pb : Nat)
    (hp : 0 < max pa pb) (hs : D02.exactSum na ma ea nb mb eb ≠ 0)
    (hf : bitlen (D02.exactSum na ma ea nb mb eb).natAbs ≤ max pa pb) :
    ∃ c : Num, Value.add (numVal (.fin na ma ea pa)) (numVal (.fin nb mb eb pb)) = .ok (numVal c) ∧
      c.prec = max pa pb ∧ D02.Exact c (D02.exactSum na ma ea nb mb eb) (min ea eb) := by
  obtain ⟨c, q, h1, h2, h3, h4⟩ := add_rounds_to_nearest_even na nb ma mb ea eb pa pb hp hs
  obtain ⟨hk, hq⟩ := h4.exact_of_fits hf
  refine ⟨c, h1, h2, ?_⟩
  have hk' : bitlen (D02.exactSum na ma ea nb mb eb).natAbs - max pa pb = 0 := by omega
  rw [hk', hq] at h3
  simp only [Int.natCast_zero, Int.add_zero] at h3
  have : (if D02.exactSum na ma ea nb mb eb < 0 then -((D02.exactSum na ma ea nb mb eb).natAbs : Int)
      else ((D02.exactSum na ma ea nb mb eb).natAbs : Int)) = D02.exactSum na ma ea nb mb eb := by
    split <;> omega
  rwa [this] at h3

/-- …SUBTRACT… -/
theorem sub_exact_when_fits (na nb : Bool) (ma mb : Nat) (ea eb : Int) (pa pb : Nat)
    (hp : 0 < max pa pb) (hs : D02.exactSum na ma ea (!nb) mb eb ≠ 0)
    (hf : bitlen (D02.exactSum na ma ea (!nb) mb eb).natAbs ≤ max pa pb) :
    ∃ c : Num, Value.sub (numVal (.fin na ma ea pa)) (numVal (.fin nb mb eb pb)) = .ok (numVal c) ∧
      c.prec = max pa pb ∧ D02.Exact c (D02.exactSum na ma ea (!nb) mb eb) (min ea eb) := by
  obtain ⟨c, q, h1, h2, h3, h4⟩ := sub_rounds_to_nearest_even na nb ma mb ea eb pa pb hp hs
  obtain ⟨hk, hq⟩ := h4.exact_of_fits hf
  refine ⟨c, h1, h2, ?_⟩
  have hk' : bitlen (D02.exactSum na ma ea (!nb) mb eb).natAbs - max pa pb = 0 := by omega
  rw [hk', hq] at h3
  simp only [Int.natCast_zero, Int.add_zero] at h3
  have : (if D02.exactSum na ma ea (!nb) mb eb < 0 then -((D02.exactSum na ma ea (!nb) mb eb).natAbs : Int)
      else ((D02.exactSum na ma ea (!nb) mb eb).natAbs : Int)) = D02.exactSum na ma ea (!nb) mb eb := by
    split <;> omega
  rwa [this] at h3

/-- …MULTIPLY: a product of at most 512 bits is exact, whatever the operand precisions. -/
theorem mul_exact_when_fits (na nb : Bool) (ma mb : Nat) (ea eb : Int) (pa pb : Nat)
    (hf : bitlen (ma * mb) ≤ 512) :
    ∃ c : Num, Value.mul (numVal (.fin na ma ea pa)) (numVal (.fin nb mb eb pb)) = .ok (numVal c) ∧
      D02.Exact c (NumCmp.sgnm (na != nb) (ma * mb)) (ea + eb) ∧ c.prec = max (max pa pb) c.minPrec := by
  obtain ⟨c, q, h1, h2, h3, h4⟩ := mul_rounds_to_nearest_even na nb ma mb ea eb pa pb
  obtain ⟨hk, hq⟩ := h3.exact_of_fits hf
  refine ⟨c, h1, ?_, h4⟩
  have hk' : bitlen (ma * mb) - 512 = 0 := by omega
  rw [hk', hq] at h2
  simpa using h2

/-- Modulo on known numbers is `D02.modNum` (the Go control flow); with an infinite
operand it answers what Multiply answers, with a zero divisor it returns the receiver. -/
theorem mod_known (x y : Num) :
    Value.mod (numVal x) (numVal y) = (D02.modNum x y).map numVal ∧
    ((x.isInf || y.isInf) = true → D02.modNum x y = Num.mulCty x y) ∧
    (x.isInf = false → y.isZero = true → D02.modNum x y = .ok x) :=
  ⟨D02.mod_num x y, D02.modNum_inf x y, D02.modNum_zero x y⟩

/-- The clause "modulo is the remainder of truncated division by a non-zero divisor"
(`D02.ModIsTruncRem`, whole operands) is FALSE of the code: 1e17 held at float64
precision modulo 7 is 16.  The specification side (sign of the dividend, `|r| < |y|`)
is `D02.truncRem_spec`; int64-built instances on which the clause holds: `D02.mod_instances`. -/
theorem mod_is_trunc_rem_counterexample :
    Value.mod (numVal (.fin false 762939453125 17 53)) (intVal 7) = .ok (numVal (.fin false 1 4 53)) ∧
    (Num.fin false 762939453125 17 53).toInt? = some 100000000000000000 ∧
    Int.tmod 100000000000000000 7 = 5 ∧ ¬ D02.ModIsTruncRem := by
  refine ⟨?_, D02.mod_float_counterexample.2.1, D02.mod_float_counterexample.2.2, D02.modIsTruncRem_false⟩
  show Value.mod (numVal _) (numVal (Num.ofInt 7 64)) = _
  rw [D02.mod_num, D02.mod_float_counterexample.1]; rfl

/-- what the remainder of truncated division is: sign of the dividend, smaller than the divisor -/
theorem trunc_rem_spec (X Y : Int) (hY : Y ≠ 0) :
    Int.tmod X Y = X - Y * Int.tdiv X Y ∧ (Int.tmod X Y).natAbs < Y.natAbs ∧
    (0 ≤ X → 0 ≤ Int.tmod X Y) ∧ (X ≤ 0 → Int.tmod X Y ≤ 0) := D02.truncRem_spec X Y hY

/-- on these int64-built (and one fractional) instances Modulo IS that remainder -/
theorem mod_instances :
    Value.mod (intVal 17) (intVal (-5)) = .ok (intVal 2) ∧
    Value.mod (intVal (-17)) (intVal 5) = .ok (intVal (-2)) ∧
    Value.mod (intVal 9223372036854775807) (intVal 1000000007) = .ok (intVal (Int.tmod 9223372036854775807 1000000007)) := by
  refine ⟨?_, ?_, ?_⟩ <;>
    (show Value.mod (numVal (Num.ofInt _ 64)) (numVal (Num.ofInt _ 64)) = _
     rw [D02.mod_num]
     first | rw [D02.mod_instances.1] | rw [D02.mod_instances.2.1] | rw [D02.mod_instances.2.2.1]
     rfl)

/-! Non-vacuity of the new hypotheses -/
example : D02.exactSum false 3 0 true 1 (-1) ≠ 0 := by decide
example : bitlen (D02.exactSum false 3 0 true 1 (-1)).natAbs ≤ max 53 64 := by decide
example : D02.RoundNE 5 2 2 1 := ⟨by decide, by decide, by decide, by decide, by decide, by decide⟩
example : Value.div (numVal (.fin false 1 0 64)) (numVal (.fin false 3 0 64)) =
    .ok (numVal (.fin false 12297829382473034411 (-65) 64)) := by decide
example : D02.EqExact (.fin false 3 0 53) (.fin false 3 0 512) = true := by decide
example : D02.Wrong .number Ty.string := ⟨by decide, by decide⟩
example : D02.Good .string (.s "a") := ⟨by decide, by decide, by decide⟩
example : keyIndex ⟨.number, .n (.fin false 1 (-1) 53)⟩ = .ok none := by decide

/-! ### the same clauses about the REGENERATED definitions

`Generated/OpsFns.lean` is rewritten from cty/value_ops.go by `extract/translate_ops.go` on every
check; `Lemmas/OpsFnsTie.lean` proves each generated method equal to the hand-written one (for all
operands with at most one marker layer), so the clauses above hold of the translated source text. -/

/-- `logic_truth_tables` for the translated `Value.Not`, `And`, `Or`. -/
theorem logic_truth_tables_generated (x y : Bool) :
    Generated.OpsFns.Value_Not (boolVal x) = .ok (boolVal (!x)) ∧
    Generated.OpsFns.Value_And (boolVal x) (boolVal y) = .ok (boolVal (x && y)) ∧
    Generated.OpsFns.Value_Or (boolVal x) (boolVal y) = .ok (boolVal (x || y)) := by
  rw [OpsFnsTie.not_eq _ (OpsFnsTie.single_boolVal x), OpsFnsTie.and_eq _ _ (OpsFnsTie.single_boolVal x) (OpsFnsTie.single_boolVal y),
    OpsFnsTie.or_eq _ _ (OpsFnsTie.single_boolVal x) (OpsFnsTie.single_boolVal y)]
  exact logic_truth_tables x y

/-- `add_rounds_to_nearest_even` for the translated `Value.Add`. -/
theorem add_rounds_to_nearest_even_generated (na nb : Bool) (ma mb : Nat) (ea eb : Int) (pa pb : Nat)
    (hp : 0 < max pa pb) (hs : D02.exactSum na ma ea nb mb eb ≠ 0) :
    ∃ (c : Num) (q : Nat),
      Generated.OpsFns.Value_Add (numVal (.fin na ma ea pa)) (numVal (.fin nb mb eb pb)) = .ok (numVal c) ∧
      c.prec = max pa pb ∧
      D02.Exact c (if D02.exactSum na ma ea nb mb eb < 0 then -(q : Int) else q)
        (min ea eb + ((bitlen (D02.exactSum na ma ea nb mb eb).natAbs - max pa pb : Nat) : Int)) ∧
      D02.RoundNE (D02.exactSum na ma ea nb mb eb).natAbs (max pa pb) q
        (bitlen (D02.exactSum na ma ea nb mb eb).natAbs - max pa pb) := by
  rw [OpsFnsTie.add_eq _ _ (OpsFnsTie.single_numVal _) (OpsFnsTie.single_numVal _)]
  exact add_rounds_to_nearest_even na nb ma mb ea eb pa pb hp hs

/-- `sub_rounds_to_nearest_even` for the translated `Value.Subtract` (which is `val.Add(other.Negate())` in the source). -/
theorem sub_rounds_to_nearest_even_generated (na nb : Bool) (ma mb : Nat) (ea eb : Int) (pa pb : Nat)
    (hp : 0 < max pa pb) (hs : D02.exactSum na ma ea (!nb) mb eb ≠ 0) :
    ∃ (c : Num) (q : Nat),
      Generated.OpsFns.Value_Subtract (numVal (.fin na ma ea pa)) (numVal (.fin nb mb eb pb)) = .ok (numVal c) ∧
      c.prec = max pa pb ∧
      D02.Exact c (if D02.exactSum na ma ea (!nb) mb eb < 0 then -(q : Int) else q)
        (min ea eb + ((bitlen (D02.exactSum na ma ea (!nb) mb eb).natAbs - max pa pb : Nat) : Int)) ∧
      D02.RoundNE (D02.exactSum na ma ea (!nb) mb eb).natAbs (max pa pb) q
        (bitlen (D02.exactSum na ma ea (!nb) mb eb).natAbs - max pa pb) := by
  rw [OpsFnsTie.sub_eq _ _ (OpsFnsTie.single_numVal _) (OpsFnsTie.single_numVal _)]
  exact sub_rounds_to_nearest_even na nb ma mb ea eb pa pb hp hs

/-- `mul_rounds_to_nearest_even` for the translated `Value.Multiply` (512-bit product, `MinPrec`, `SetPrec` as written). -/
theorem mul_rounds_to_nearest_even_generated (na nb : Bool) (ma mb : Nat) (ea eb : Int) (pa pb : Nat) :
    ∃ (c : Num) (q : Nat),
      Generated.OpsFns.Value_Multiply (numVal (.fin na ma ea pa)) (numVal (.fin nb mb eb pb)) = .ok (numVal c) ∧
      D02.Exact c (NumCmp.sgnm (na != nb) q) (ea + eb + ((bitlen (ma * mb) - 512 : Nat) : Int)) ∧
      D02.RoundNE (ma * mb) 512 q (bitlen (ma * mb) - 512) ∧
      c.prec = max (max pa pb) c.minPrec := by
  rw [OpsFnsTie.mul_eq _ _ (OpsFnsTie.single_numVal _) (OpsFnsTie.single_numVal _)]
  exact mul_rounds_to_nearest_even na nb ma mb ea eb pa pb

/-- `div_rounds_to_nearest_even` for the translated `Value.Divide`. -/
theorem div_rounds_to_nearest_even_generated (na nb : Bool) (ma mb : Nat) (ea eb : Int) (pa pb : Nat)
    (hp : 0 < max pa pb) (ha : ma ≠ 0) (hb : mb ≠ 0) :
    ∃ (c : Num) (s k q : Nat),
      Generated.OpsFns.Value_Divide (numVal (.fin na ma ea pa)) (numVal (.fin nb mb eb pb)) = .ok (numVal c) ∧
      c.prec = max pa pb ∧
      D02.Exact c (NumCmp.sgnm (na != nb) q) (ea - eb - (s : Int) - 1 + (k : Int)) ∧
      D02.RoundQ (2 * (ma * 2 ^ s)) mb (max pa pb) q k := by
  rw [OpsFnsTie.div_eq _ _ (OpsFnsTie.single_numVal _) (OpsFnsTie.single_numVal _)]
  exact div_rounds_to_nearest_even na nb ma mb ea eb pa pb hp ha hb

/-- `neg_abs_known` for the translated `Value.Negate`, `Value.Absolute`. -/
theorem neg_abs_known_generated (x : Num) :
    Generated.OpsFns.Value_Negate (numVal x) = .ok (numVal (Num.neg x)) ∧
    Generated.OpsFns.Value_Absolute (numVal x) = .ok (numVal (Num.abs x)) := by
  rw [OpsFnsTie.neg_eq _ (OpsFnsTie.single_numVal _), OpsFnsTie.abs_eq _ (OpsFnsTie.single_numVal _)]
  exact ⟨(neg_abs_known x).1, (neg_abs_known x).2.1⟩

/-- `mod_known` for the translated `Value.Modulo`. -/
theorem mod_known_generated (x y : Num) :
    Generated.OpsFns.Value_Modulo (numVal x) (numVal y) = (D02.modNum x y).map numVal := by
  rw [OpsFnsTie.mod_eq _ _ (OpsFnsTie.single_numVal _) (OpsFnsTie.single_numVal _)]
  exact (mod_known x y).1

/-- Comparison exactness (`lessThan_greaterThan_exact`, `le_ge_eq_ne_compute`) for the four translated ordering methods. -/
theorem comparisons_exact_generated (x y : Num) :
    Generated.OpsFns.Value_LessThan (numVal x) (numVal y) = .ok (boolVal (decide (Num.cmp x y < 0))) ∧
    Generated.OpsFns.Value_GreaterThan (numVal x) (numVal y) = .ok (boolVal (decide (Num.cmp x y > 0))) ∧
    Generated.OpsFns.Value_LessThanOrEqualTo (numVal x) (numVal y) = .ok (boolVal (decide (Num.cmp x y < 0) || Num.rawEqual x y)) ∧
    Generated.OpsFns.Value_GreaterThanOrEqualTo (numVal x) (numVal y) = .ok (boolVal (decide (Num.cmp x y > 0) || Num.rawEqual x y)) := by
  rw [OpsFnsTie.lt_eq _ _ (OpsFnsTie.single_numVal _) (OpsFnsTie.single_numVal _),
    OpsFnsTie.gt_eq _ _ (OpsFnsTie.single_numVal _) (OpsFnsTie.single_numVal _),
    OpsFnsTie.le_eq' _ _ (OpsFnsTie.single_numVal _) (OpsFnsTie.single_numVal _),
    OpsFnsTie.ge_eq' _ _ (OpsFnsTie.single_numVal _) (OpsFnsTie.single_numVal _)]
  exact ⟨(lessThan_greaterThan_exact x y).1, (lessThan_greaterThan_exact x y).2, (le_ge_eq_ne_compute x y).1, (le_ge_eq_ne_compute x y).2.1⟩

/-- `number_methods_reject_wrong_type` for the translated methods, for ALL operands with at most one marker layer
(`OpsFnsTie.Single`; `OpsFnsTie.single_of_marksWF`: every value with a well-formed marker structure). -/
theorem number_methods_reject_wrong_type_generated (a b : Value) (ha : OpsFnsTie.Single a) (hb : OpsFnsTie.Single b)
    (h : D02.Wrong .number a.ty ∨ D02.Wrong .number b.ty) :
    Generated.OpsFns.Value_Add a b = .panic "type mismatch" ∧ Generated.OpsFns.Value_Subtract a b = .panic "type mismatch" ∧
    Generated.OpsFns.Value_Multiply a b = .panic "type mismatch" ∧ Generated.OpsFns.Value_Divide a b = .panic "type mismatch" ∧
    Generated.OpsFns.Value_Modulo a b = .panic "type mismatch" ∧ Generated.OpsFns.Value_LessThan a b = .panic "type mismatch" ∧
    Generated.OpsFns.Value_GreaterThan a b = .panic "type mismatch" ∧
    Generated.OpsFns.Value_LessThanOrEqualTo a b = .panic "type mismatch" ∧
    Generated.OpsFns.Value_GreaterThanOrEqualTo a b = .panic "type mismatch" := by
  rw [OpsFnsTie.add_eq a b ha hb, OpsFnsTie.sub_eq a b ha hb, OpsFnsTie.mul_eq a b ha hb, OpsFnsTie.div_eq a b ha hb,
    OpsFnsTie.mod_eq a b ha hb, OpsFnsTie.lt_eq a b ha hb, OpsFnsTie.gt_eq a b ha hb, OpsFnsTie.le_eq' a b ha hb,
    OpsFnsTie.ge_eq' a b ha hb]
  exact number_methods_reject_wrong_type a b h

/-- The whole regenerated family at once: on operands with at most one marker layer every translated method IS the
hand-written one (value and panic), so every theorem of this file about `Value.add … Value.or` transfers. -/
theorem translated_methods_are_the_model (op : Op) (args : List Value) (h : ∀ a ∈ args, OpsFnsTie.Single a) :
    OpsFnsTie.genRun op args = op.run args := OpsFnsTie.genRun_eq op args h

example : OpsFnsTie.Single (numVal (.fin false 3 0 64)) := rfl
example : OpsFnsTie.Single ((boolVal true).withMarks ["m"]) := by unfold OpsFnsTie.Single; decide

end C02
end CtyModel
