/-
C02 — Core operations compute the documented result on known values.

`Num.add/sub/mulCty/quo`, `Num.cmp`, `Value.add … Value.hasElement` are the
transliterations that the harness diffs against /repo (exact mantissa, exponent
and precision of every result).  The theorems say what those functions compute.
`Num.IsVal c v e` reads "c is finite with exact value v·2^e".
-/
import CtyModel.Lemmas.NumRound
namespace CtyModel
namespace C02
open Num Value

/-- exact signed sum of two finite numbers at their common exponent -/
def exactSum (na : Bool) (ma : Nat) (ea : Int) (nb : Bool) (mb : Nat) (eb : Int) : Int :=
  scaleTo (if na then -(ma : Int) else ma) ea (min ea eb) +
  scaleTo (if nb then -(mb : Int) else mb) eb (min ea eb)

/-- Addition agrees with exact arithmetic to within the precision of its
operands: the result is finite, has the larger operand precision, lies within
half a unit of the last kept binary place `2^k` of the exact sum `s`, and is the
exact sum whenever that fits the precision. -/
theorem add_within_half_ulp (na nb : Bool) (ma mb : Nat) (ea eb : Int) (pa pb : Nat)
    (hp : 0 < max pa pb) (hs : exactSum na ma ea nb mb eb ≠ 0) :
    let s := exactSum na ma ea nb mb eb
    ∃ (c : Num) (k q : Nat), Num.add (.fin na ma ea pa) (.fin nb mb eb pb) = .ok c ∧
      c.prec = max pa pb ∧
      IsVal c (if s < 0 then -(q : Int) else q) (min ea eb + k) ∧
      2 * (q * 2 ^ k) ≤ 2 * s.natAbs + 2 ^ k ∧ 2 * s.natAbs ≤ 2 * (q * 2 ^ k) + 2 ^ k ∧
      (bitlen s.natAbs ≤ max pa pb → k = 0 ∧ q = s.natAbs) := by
  intro s
  have hnz : ¬ (ma = 0 ∧ mb = 0) := by
    rintro ⟨rfl, rfl⟩
    apply hs
    simp [exactSum, scaleTo]
  obtain ⟨k, q, h1, h2, h3, h4, h5⟩ := round_spec (decide (s < 0)) s.natAbs (min ea eb) (max pa pb) hp
  refine ⟨round (decide (s < 0)) s.natAbs (min ea eb) (max pa pb), k, q, ?_, h5, ?_, h2, h3, h4⟩
  · simp only [Num.add, hnz, if_false]
    have : (exactSum na ma ea nb mb eb = 0) = False := by simp [hs]
    simp only [exactSum] at this
    simp only [this, if_false]
    rfl
  · simpa using h1

/-- Subtraction is addition of the negation (as in the code), hence the same bound. -/
theorem sub_is_add_neg (a b : Num) : Num.sub a b = Num.add a (Num.neg b) := rfl

/-- Multiplication: the exact product rounded to 512 bits (half-ulp bound, exact
when the product fits), re-tagged with precision max(operand precisions, bits needed). -/
theorem mul_within_half_ulp (na nb : Bool) (ma mb : Nat) (ea eb : Int) (pa pb : Nat) :
    ∃ (c : Num) (k q : Nat), Num.mulCty (.fin na ma ea pa) (.fin nb mb eb pb) = .ok c ∧
      IsVal c (if (na != nb) then -(q : Int) else q) (ea + eb + k) ∧
      2 * (q * 2 ^ k) ≤ 2 * (ma * mb) + 2 ^ k ∧ 2 * (ma * mb) ≤ 2 * (q * 2 ^ k) + 2 ^ k ∧
      (bitlen (ma * mb) ≤ 512 → k = 0 ∧ q = ma * mb) ∧ max pa pb ≤ c.prec := by
  obtain ⟨k, q, h1, h2, h3, h4, _⟩ := round_spec (na != nb) (ma * mb) (ea + eb) 512 (by decide)
  simp only [Num.mulCty]
  generalize hr : round (na != nb) (ma * mb) (ea + eb) 512 = r at *
  cases r with
  | inf n => simp [IsVal] at h1
  | fin n m e p =>
    refine ⟨_, k, q, rfl, ?_, h2, h3, h4, ?_⟩
    · simpa [IsVal] using h1
    · simp [Num.prec]; omega

/-- Division by zero gives the documented signed infinity (0/0 is the NaN panic). -/
theorem div_zero_signed_inf (na nb : Bool) (ma : Nat) (ea eb : Int) (pa pb : Nat) (h : ma ≠ 0) :
    Num.quo (.fin na ma ea pa) (.fin nb 0 eb pb) = .ok (.inf (na != nb)) := by
  simp [Num.quo, h]

/-- Comparison is exact comparison of the two values at a common exponent. -/
theorem cmp_agrees (na nb : Bool) (ma mb : Nat) (ea eb : Int) (pa pb : Nat) :
    let x := scaleTo (if na then -(ma : Int) else ma) ea (min ea eb)
    let y := scaleTo (if nb then -(mb : Int) else mb) eb (min ea eb)
    (Num.cmp (.fin na ma ea pa) (.fin nb mb eb pb) = -1 ↔ x < y) ∧
    (Num.cmp (.fin na ma ea pa) (.fin nb mb eb pb) = 0 ↔ x = y) ∧
    (Num.cmp (.fin na ma ea pa) (.fin nb mb eb pb) = 1 ↔ y < x) := by
  intro x y
  show (Num.cmp (.fin na ma ea pa) (.fin nb mb eb pb) = -1 ↔ x < y) ∧ _
  have hc : Num.cmp (.fin na ma ea pa) (.fin nb mb eb pb) = if x < y then -1 else if x = y then 0 else 1 := rfl
  rw [hc]
  refine ⟨?_, ?_, ?_⟩ <;> by_cases h1 : x < y <;> by_cases h2 : x = y <;> simp [h1, h2] <;> omega

/-- precision plays no part in comparison -/
theorem cmp_ignores_prec (n : Bool) (m : Nat) (e : Int) (p q : Nat) :
    Num.cmp (.fin n m e p) (.fin n m e q) = 0 := by
  simp [Num.cmp]

/-- Boolean operations agree with their truth tables. -/
theorem logic_truth_tables (x y : Bool) :
    Value.not (boolVal x) = .ok (boolVal (!x)) ∧
    Value.and (boolVal x) (boolVal y) = .ok (boolVal (x && y)) ∧
    Value.or (boolVal x) (boolVal y) = .ok (boolVal (x || y)) := by
  cases x <;> cases y <;> exact ⟨rfl, rfl, rfl⟩

/-- On known numbers the value-level operation is the number-level one and has type number. -/
theorem add_known (x y : Num) (r : Num) (h : Num.add x y = .ok r) :
    Value.add (numVal x) (numVal y) = .ok (numVal r) := by
  simp [Value.add, binMarks, Value.isMarked, Payload.isMarked, numVal, addU, typeCheck, typeCheckAux,
    Ty.equals, Ty.isDyn, Value.isUnk, asNum, h]

/-- Operands of the wrong type are rejected (a Go panic), not given a value. -/
theorem add_wrong_type_rejected (s : String) (y : Num) :
    Value.add ⟨.string, .s s⟩ (numVal y) = .panic "type mismatch" := by
  simp [Value.add, binMarks, Value.isMarked, Payload.isMarked, numVal, addU, typeCheck, typeCheckAux,
    Ty.equals, Ty.isDyn]

/-- List indexing returns exactly the member the list was built from, and succeeds
exactly when HasIndex answers true. -/
theorem index_list (e : Ty) (vs : List Payload) (i : Nat) (hi : (i : Int) ≤ maxInt) :
    Value.index ⟨.list e, .seq vs⟩ (intVal i) =
      (match vs[i]? with | some p => .ok ⟨e, p⟩ | none => .panic "index out of range") ∧
    Value.hasIndex ⟨.list e, .seq vs⟩ (intVal i) = .ok (boolVal (decide (i < vs.length))) := by
  have hk : keyIndex (intVal i) = .ok (some i) := by
    simp only [keyIndex, intVal, numVal, Num.toInt?, Num.ofInt, Num.mk]
    have hnn : ¬ ((i : Int) < 0) := by omega
    have hneg : decide ((i : Int) < 0) = false := by simp
    rw [hneg]
    by_cases h0 : i = 0
    · subst h0; simp [Num.norm, Num.normFuel, Num.isInt, Num.truncInt, Num.bitlen, maxInt]
    · have hv := Num.norm_val (Int.natAbs i) 0 (by omega)
      have hexp : 0 ≤ (Num.norm (Int.natAbs i) 0).2 := hv.1
      simp only [Num.isInt, Num.truncInt, ge_iff_le, hexp, decide_true, if_true]
      have h2 : ((Num.norm (Int.natAbs (i:Int)) 0).1 : Int) * 2 ^ ((Num.norm (Int.natAbs (i:Int)) 0).2).toNat = i := by
        have := hv.2
        simp only [Int.sub_zero] at this
        have h3 : Int.natAbs (i : Int) = i := by simp
        rw [h3] at this ⊢
        exact_mod_cast this
      simp only [Bool.false_eq_true, if_false, h2]
      have : ¬ ((i : Int) < 0 ∨ (i : Int) > maxInt) := by omega
      simp [this]
  constructor
  · simp only [intVal, numVal] at hk
    simp [Value.index, binMarks, Value.isMarked, Payload.isMarked, intVal, numVal, indexU, Value.isKnown,
      Payload.isKnown, Payload.unmark1, Ty.isDyn, Ty.isNumber, hk]
    rfl
  · simp only [intVal, numVal] at hk
    simp [Value.hasIndex, binMarks, Value.isMarked, Payload.isMarked, intVal, numVal, hasIndexU,
      Value.isKnown, Payload.isKnown, Payload.unmark1, Ty.isDyn, Ty.isNumber, hk]

/-- Length of a known list / map is the number of members it was built from. -/
theorem length_list (e : Ty) (vs : List Payload) :
    Value.length ⟨.list e, .seq vs⟩ = .ok (intVal vs.length) := by
  simp [Value.length, unMarks, Value.isMarked, Payload.isMarked, lengthU, Value.isKnown, Payload.isKnown,
    Payload.unmark1]

/-- Attribute access returns exactly the attribute the object holds. -/
theorem getAttr_object (ns : List String) (ts : List Ty) (os : List Bool) (vs : List Payload)
    (name : String) (t : Ty) (o : Bool) (p : Payload)
    (ht : Ty.find name ns ts os = some (t, o)) (hv : lookupKey name ns vs = some p) :
    Value.getAttr ⟨.object ns ts os, .smap ns vs⟩ name = .ok ⟨t, p⟩ := by
  simp [Value.getAttr, Value.isMarked, Payload.isMarked, getAttrU, ht, Value.isKnown, Payload.isKnown,
    Payload.unmark1, hv, Ty.isDyn]

/-- …and a name the type does not declare is rejected. -/
theorem getAttr_missing_rejected (ns : List String) (ts : List Ty) (os : List Bool) (vs : List Payload)
    (name : String) (ht : Ty.find name ns ts os = none) :
    Value.getAttr ⟨.object ns ts os, .smap ns vs⟩ name = .panic "no attribute" := by
  simp [Value.getAttr, Value.isMarked, Payload.isMarked, getAttrU, ht, Ty.isDyn]

/-- The full statement "an index lookup succeeds exactly when HasIndex answers
true" is FALSE for maps: indexing a map with a missing key yields a null of the
element type while HasIndex answers false. -/
def IndexOkIffHasIndex : Prop :=
  ∀ (v k : Value), v.isKnown → k.isKnown → !v.isNull → !k.isNull →
    ((Value.index v k).isOk ↔ Value.hasIndex v k = .ok (boolVal true))

theorem index_map_missing_counterexample :
    Value.index ⟨.map .string, .smap ["a"] [.s "x"]⟩ ⟨.string, .s "b"⟩ = .ok ⟨.string, .null⟩ ∧
    Value.hasIndex ⟨.map .string, .smap ["a"] [.s "x"]⟩ ⟨.string, .s "b"⟩ = .ok (boolVal false) := by
  constructor <;> rfl

theorem indexOkIffHasIndex_false : ¬ IndexOkIffHasIndex := by
  intro h
  have := h ⟨.map .string, .smap ["a"] [.s "x"]⟩ ⟨.string, .s "b"⟩ (by decide) (by decide) (by decide) (by decide)
  have h1 := index_map_missing_counterexample
  rw [h1.1, h1.2] at this
  simp [Res.isOk, boolVal] at this

/-! Non-vacuity -/
example : exactSum false 3 0 true 1 (-1) ≠ 0 := by decide
example : Num.add (.fin false 3 0 64) (.fin true 1 (-1) 64) = .ok (.fin false 5 (-1) 64) := by decide

end C02
end CtyModel
