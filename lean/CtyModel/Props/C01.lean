/-
C01 — Operations on unknown values are sound approximations, never spontaneous.

The functions named here — `Value.equals … Value.hasElement`, `Value.range`,
`Value.includes`, `rangeArith` (lean/CtyModel/Ops.lean, Ops2.lean) — are the
branch-for-branch transliterations of cty/value_ops.go, value_range.go and
helper.go that the correspondence harness diffs against /repo on every run, for
every operation × generated operand tuple × weakened tuple.  `Covers`, `CoversX`,
`Weaken`, `Sound₁/Sound₂` (lean/CtyModel/Covers.lean) are the specification: the
same `Covers` is evaluated by the driver on the real implementation's paired
outputs (`judge.c01.*`).

Reading guide.  `Sound₂ op` says: for wholly known operands `o₁ o₂` and any
`w₁ w₂` that cover them exactly (in particular every weakening, `weaken_covers`),
if `op o₁ o₂` succeeds then `op w₁ w₂` succeeds and its result admits the concrete
result.  `Value.wfc` collects the representation invariants of `cty.Value` the
methods rely on (well-formed type, one marker layer, no known payload of the
placeholder type, lengths within Go's int).

Where the full statement is false of the code as it is, it is kept as a `def … :
Prop`, with the strongest `_partial` theorem (explicit side conditions) and a
`_counterexample` from a concrete witness.  Helper lemmas live in
CtyModel/Lemmas/{CoversBasic,CoversWeaken,OpsLogic,OpsCompare,OpsArith,OpsColl,
OpsEquals,OpsIncludes,OpsAddSub,OpsDerived,OpsSets,OpsMul,OpsKnown,d01Ext,d01Round,d01Arith,d01Range,d01Mul,d01Side,d01Has,d01Len,d01EqObj,d01Fuel,
d01bSets,d01bInf,d01bWhole,d01bSide}.lean.
-/
import CtyModel.Lemmas.OpsEquals
import CtyModel.Lemmas.OpsIncludes
import CtyModel.Lemmas.OpsAddSub
import CtyModel.Lemmas.OpsDerived
import CtyModel.Lemmas.OpsSets
import CtyModel.Lemmas.OpsMul
import CtyModel.Lemmas.d01Mul
import CtyModel.Lemmas.d01Side
import CtyModel.Lemmas.d01Has
import CtyModel.Lemmas.d01Len
import CtyModel.Lemmas.d01EqObj
import CtyModel.Lemmas.d01Fuel
import CtyModel.Lemmas.OpsFnsTieSound
import CtyModel.Lemmas.d01bSets
import CtyModel.Lemmas.d01bInf
import CtyModel.Lemmas.d01bWhole
import CtyModel.Lemmas.d01bSide
namespace CtyModel
namespace C01
open Value

/-! ## The relation -/

/-- Marks play no part in `Covers` (they are property C04's subject). -/
theorem covers_ignores_marks (w o : Value) (ms ms' : List String) :
    Covers (w.withMarks ms) (o.withMarks ms') = Covers w o := by
  rw [covers_withMarks_left, covers_withMarks_right]

/-- Every weakening of the property's quantifier — any subset of sub-values, at any
depth, replaced by unknowns that are true of them, or the operand replaced by
`cty.DynamicVal` — is covered exactly by what it weakens. -/
theorem weaken_covers {o w : Value} (h : Weaken o w) : CoversX w o = true := CtyModel.weaken_covers h

/-- Exact coverage (operands) implies coverage (results). -/
theorem coversX_covers {w o : Value} (h : CoversX w o = true) : Covers w o = true := CtyModel.coversX_covers h

/-- `cty.DynamicVal` admits every value; an unrefined unknown admits every value
its type constraint matches. -/
theorem dynamicVal_covers_everything (o : Value) : Covers dynVal o = true := covers_dynVal o
theorem unknown_covers_matching {t t' : Ty} {p : Payload} (hm : Ty.matches t' t = true) :
    Covers (Value.unknown t') ⟨t, p⟩ = true := covers_unknown hm

/-- Soundness over `Covers` gives soundness over the weakenings of the quantifier. -/
theorem sound₁_weaken {op : Value → Res Value} (h : Sound₁ op) : SoundW₁ op :=
  fun o w r hk ho hw hwk hop => h o w r hk ho hw (weaken_covers hwk) hop
theorem sound₂_weaken {op : Value → Value → Res Value} (h : Sound₂ op) : SoundW₂ op :=
  fun o₁ o₂ w₁ w₂ r hk₁ hk₂ a b c d h₁ h₂ hop => h o₁ o₂ w₁ w₂ r hk₁ hk₂ a b c d (weaken_covers h₁) (weaken_covers h₂) hop

/-! ## Wholly known operands give a wholly known result

FALSE as stated: `cty.NullVal(cty.DynamicPseudoType)` is a wholly known value, but
`typeCheck` and the `val.ty == DynamicPseudoType` shortcuts of GetAttr / Index /
HasIndex look only at its type and answer an unknown. -/

def KnownInKnownOut₁ := CtyModel.KnownInKnownOut₁
def KnownInKnownOut₂ := CtyModel.KnownInKnownOut₂

theorem known_in_known_out_counterexample :
    Value.not ⟨.dyn, .null⟩ = .ok unkBool ∧ Value.neg ⟨.dyn, .null⟩ = .ok unkNumNotNull ∧
    Value.getAttr ⟨.dyn, .null⟩ "a" = .ok dynVal :=
  ⟨not_null_dyn_counterexample, neg_null_dyn_counterexample, getAttr_null_dyn_counterexample⟩

theorem knownInKnownOut_false : ¬ KnownInKnownOut₁ Value.not := knownInKnownOut_not_false

/-- Holds for Equals, NotEqual and Length without any side condition. -/
theorem known_in_known_out_equals : KnownInKnownOut₂ Value.equals ∧ KnownInKnownOut₂ Value.notEqual ∧
    KnownInKnownOut₁ Value.length := ⟨equals_knownInKnownOut, notEqual_knownInKnownOut, length_knownInKnownOut⟩

/-- Logic: wholly known operands of a real type give a wholly known result. -/
theorem known_in_known_out_logic_partial (a b r : Value) (ha : a.whollyKnown = true) (hb : b.whollyKnown = true)
    (hta : a.ty ≠ .dyn) (htb : b.ty ≠ .dyn) :
    (Value.not a = .ok r → r.whollyKnown = true) ∧ (Value.and a b = .ok r → r.whollyKnown = true) ∧
    (Value.or a b = .ok r → r.whollyKnown = true) :=
  ⟨not_known_partial a r ha hta, and_known_partial a b r ha hb hta htb, or_known_partial a b r ha hb hta htb⟩

/-- Comparison. -/
theorem known_in_known_out_comparison_partial (a b r : Value) (ha : a.whollyKnown = true) (hb : b.whollyKnown = true)
    (hta : a.ty ≠ .dyn) (htb : b.ty ≠ .dyn) :
    (Value.lessThan a b = .ok r → r.whollyKnown = true) ∧ (Value.greaterThan a b = .ok r → r.whollyKnown = true) ∧
    (Value.lessThanOrEqualTo a b = .ok r → r.whollyKnown = true) ∧
    (Value.greaterThanOrEqualTo a b = .ok r → r.whollyKnown = true) :=
  ⟨lessThan_known_partial a b r ha hb hta htb, greaterThan_known_partial a b r ha hb hta htb,
   lessThanOrEqualTo_known_partial a b r ha hb hta htb, greaterThanOrEqualTo_known_partial a b r ha hb hta htb⟩

/-- Arithmetic. -/
theorem known_in_known_out_arithmetic_partial (a b r : Value) (ha : a.whollyKnown = true) (hb : b.whollyKnown = true)
    (hta : a.ty ≠ .dyn) (htb : b.ty ≠ .dyn) :
    (Value.add a b = .ok r → r.whollyKnown = true) ∧ (Value.sub a b = .ok r → r.whollyKnown = true) ∧
    (Value.mul a b = .ok r → r.whollyKnown = true) ∧ (Value.div a b = .ok r → r.whollyKnown = true) ∧
    (Value.mod a b = .ok r → r.whollyKnown = true) ∧ (Value.neg a = .ok r → r.whollyKnown = true) ∧
    (Value.abs a = .ok r → r.whollyKnown = true) :=
  ⟨add_known_partial a b r ha hb hta htb, sub_known_partial a b r ha hb hta htb, mul_known_partial a b r ha hb hta htb,
   div_known_partial a b r ha hb hta htb, mod_known_partial a b r ha hb hta htb, neg_known_partial a r ha hta,
   abs_known_partial a r ha hta⟩

/-- Indexing, attribute access, membership: the result is a member of a wholly
known container, or a boolean. -/
theorem known_in_known_out_collections_partial (a b r : Value) (name : String) (eh : Option Int)
    (ha : a.whollyKnown = true) (hb : b.whollyKnown = true) (hta : a.ty ≠ .dyn) (htb : b.ty ≠ .dyn) :
    (Value.index a b = .ok r → r.whollyKnown = true) ∧ (Value.hasIndex a b = .ok r → r.whollyKnown = true) ∧
    (Value.getAttr a name = .ok r → r.whollyKnown = true) ∧ (Value.hasElement a b eh = .ok r → r.whollyKnown = true) :=
  ⟨index_known_partial a b r ha hb hta htb, hasIndex_known_partial a b r ha hb hta htb,
   getAttr_known_partial a name r ha hta, hasElement_known_partial a b r eh ha hb hta htb⟩

/-! ## Arithmetic, comparison, logic, length and membership results are never null -/

theorem never_null_logic (a b r : Value) :
    (Value.not a = .ok r → r.isNull = false) ∧ (Value.and a b = .ok r → r.isNull = false) ∧
    (Value.or a b = .ok r → r.isNull = false) :=
  ⟨not_never_null a r, and_never_null a b r, or_never_null a b r⟩

theorem never_null_comparison (a b r : Value) :
    (Value.equals a b = .ok r → r.isNull = false) ∧ (Value.notEqual a b = .ok r → r.isNull = false) ∧
    (Value.lessThan a b = .ok r → r.isNull = false) ∧ (Value.greaterThan a b = .ok r → r.isNull = false) ∧
    (Value.lessThanOrEqualTo a b = .ok r → r.isNull = false) ∧
    (Value.greaterThanOrEqualTo a b = .ok r → r.isNull = false) :=
  ⟨equals_never_null a b r, notEqual_never_null a b r, lessThan_never_null a b r, greaterThan_never_null a b r,
   lessThanOrEqualTo_never_null a b r, greaterThanOrEqualTo_never_null a b r⟩

theorem never_null_arithmetic (a b r : Value) :
    (Value.add a b = .ok r → r.isNull = false) ∧ (Value.sub a b = .ok r → r.isNull = false) ∧
    (Value.mul a b = .ok r → r.isNull = false) ∧ (Value.div a b = .ok r → r.isNull = false) ∧
    (Value.neg a = .ok r → r.isNull = false) ∧ (Value.abs a = .ok r → r.isNull = false) :=
  ⟨add_never_null a b r, sub_never_null a b r, mul_never_null a b r, div_never_null a b r, neg_never_null a r,
   abs_never_null a r⟩

theorem never_null_length_membership (a b r : Value) (eh : Option Int) :
    (Value.length a = .ok r → r.isNull = false) ∧ (Value.hasIndex a b = .ok r → r.isNull = false) ∧
    (Value.hasElement a b eh = .ok r → r.isNull = false) :=
  ⟨length_never_null a r, hasIndex_never_null a b r, hasElement_never_null a b r eh⟩

/-- FALSE for Modulo: it returns its receiver when the divisor is zero, before
looking at the receiver — a null number modulo zero is null. -/
def ModNeverNull : Prop := CtyModel.ModNeverNull

theorem never_null_mod_partial (a b r : Value) (hf : a.flatMarks = true) (hn : a.isNull = false)
    (h : Value.mod a b = .ok r) : r.isNull = false :=
  mod_never_null_partial a b r (flat_unmark hf) hn h

theorem never_null_mod_counterexample : Value.mod ⟨.number, .null⟩ (intVal 0) = .ok ⟨.number, .null⟩ :=
  mod_null_zero_counterexample

theorem modNeverNull_false : ¬ ModNeverNull := CtyModel.modNeverNull_false

/-! ## Soundness: logic -/

/-- Not / And / Or: weakening an operand never makes the call fail and the weakened
result admits the concrete one (a literal False / True operand still decides). -/
theorem sound_not : Sound₁ Value.not := sound_unMarks notU_sound.toW
theorem sound_and : Sound₂ Value.and := sound_binMarks andU_sound.toW
theorem sound_or : Sound₂ Value.or := sound_binMarks orU_sound.toW

/-! ## Soundness: comparison

The range shortcuts compare bounds strictly, and every admitted value lies
within its bounds whether they are inclusive or not, so a definite answer from
the bounds is the answer for the concrete numbers. -/
theorem sound_lessThan : Sound₂ Value.lessThan := sound_binMarks lessThanU_sound.toW
theorem sound_greaterThan : Sound₂ Value.greaterThan := sound_binMarks greaterThanU_sound.toW

/-! ## Soundness: Negate, Absolute, Divide, Modulo -/
theorem sound_neg : Sound₁ Value.neg := sound_unMarks negU_sound.toW
theorem sound_abs : Sound₁ Value.abs := sound_unMarks absU_sound.toW

/-- What the code returns for an unknown operand, as the soundness proofs use it:
`Negate` of any unknown number (whatever its refinement) and of `DynamicVal` is the
UNREFINED not-null unknown number — the operand's range is dropped, not mirrored;
`Absolute` answers "not null, ≥ 0".  (A mirrored range `[-hi, -lo]` would have to
swap the inclusiveness flags together with the bounds; the seeded change
C01-negate-range-swapped-inclusivity breaks this theorem's correspondence.) -/
theorem neg_abs_of_unknown (t : Ty) (r : Rfn) (ht : t = .number ∨ t = .dyn) :
    Value.neg ⟨t, .unk r⟩ = .ok unkNumNotNull ∧ Value.abs ⟨t, .unk r⟩ = .ok absUnk := by
  rcases ht with rfl | rfl <;> exact ⟨rfl, rfl⟩

/-- … and that answer admits the negation of everything the operand admits, in
particular a number sitting on an inclusive end of a half-open range -/
theorem neg_range_example :
    CoversX ⟨.number, .unk (.num .u (some ⟨Num.ofInt 0, false⟩) (some ⟨Num.ofInt 10, true⟩))⟩ (intVal 10) = true ∧
    Value.neg ⟨.number, .unk (.num .u (some ⟨Num.ofInt 0, false⟩) (some ⟨Num.ofInt 10, true⟩))⟩ = .ok unkNumNotNull ∧
    Value.neg (intVal 10) = .ok (intVal (-10)) ∧ Covers unkNumNotNull (intVal (-10)) = true ∧
    -- the mirrored range with the flags NOT swapped would exclude it
    Covers ⟨.number, .unk (.num .f (some ⟨Num.ofInt (-10), false⟩) (some ⟨Num.ofInt 0, true⟩))⟩ (intVal (-10)) = false :=
  ⟨by decide, by rfl, by rfl, by decide, by decide⟩

theorem sound_div : Sound₂ Value.div :=
  sound_binMarks (fun o₁ o₂ w₁ w₂ r hk₁ hk₂ a b c d _ _ _ _ hc₁ hc₂ ho =>
    divU_sound o₁ o₂ w₁ w₂ r trivial hk₁ hk₂ a b c d hc₁ hc₂ ho)

/-- FALSE for Modulo with a null receiver (`never_null_mod_counterexample`: the
weakened call promises a non-null number). -/
def SoundMod : Prop := Sound₂ Value.mod

theorem sound_mod_partial (o₁ o₂ w₁ w₂ r : Value) (hk₁ : o₁.whollyKnown = true) (hk₂ : o₂.whollyKnown = true)
    (hf₁ : o₁.wfc = true) (hf₂ : o₂.wfc = true) (hg₁ : w₁.wfc = true) (hg₂ : w₂.wfc = true)
    (hnum : ∃ x, o₁.unmark = numVal x)
    (hc₁ : CoversX w₁ o₁ = true) (hc₂ : CoversX w₂ o₂ = true) (ho : Value.mod o₁ o₂ = .ok r) :
    ∃ r', Value.mod w₁ w₂ = .ok r' ∧ Covers r' r = true := by
  have hmo := ho
  unfold Value.mod at ho ⊢
  rw [binMarks_eq] at ho ⊢
  obtain ⟨r0, h0, rfl⟩ := res_map_ok ho
  obtain ⟨r', h1, h2⟩ := modU_sound o₁.unmark o₂.unmark w₁.unmark w₂.unmark r0 hnum
    (by rw [whollyKnown_unmark]; exact hk₁) (by rw [whollyKnown_unmark]; exact hk₂)
    (flat_unmark (wfc_flat hf₁)) (flat_unmark (wfc_flat hf₂)) (flat_unmark (wfc_flat hg₁)) (flat_unmark (wfc_flat hg₂))
    (by rw [coversX_unmark_left, coversX_unmark_right]; exact hc₁)
    (by rw [coversX_unmark_left, coversX_unmark_right]; exact hc₂) h0
  refine ⟨_, by rw [h1]; rfl, ?_⟩
  by_cases ha : (o₁.isMarked || o₂.isMarked) = true <;> by_cases hb : (w₁.isMarked || w₂.isMarked) = true <;>
    simp_all [covers_withMarks_left, covers_withMarks_right]

theorem sound_mod_counterexample :
    Value.mod ⟨.number, .null⟩ (intVal 0) = .ok ⟨.number, .null⟩ ∧
    Value.mod ⟨.number, .null⟩ ⟨.number, .unk .unref⟩ = .ok unkNumNotNull ∧
    CoversX ⟨.number, .unk .unref⟩ (intVal 0) = true ∧ Covers unkNumNotNull ⟨.number, .null⟩ = false :=
  ⟨by rfl, by rfl, by decide, by decide⟩

/-! ## Soundness: GetAttr, Index, HasIndex, Length -/
theorem sound_getAttr (name : String) : Sound₁ (fun v => Value.getAttr v name) :=
  sound_unMarks (getAttrU_sound name)
theorem sound_index : Sound₂ Value.index := sound_binMarks indexU_sound
theorem sound_hasIndex : Sound₂ Value.hasIndex := sound_binMarks hasIndexU_sound

/-- Length of an object is its number of attributes, known or not (repaired in
/repo 003bba8; before, an unknown object made `LengthLowerBound` panic — the former
counterexample, kept as a regression case). -/
theorem length_unknown_object_regression :
    Value.length ⟨.object [] [] [], .smap [] []⟩ = .ok (intVal 0) ∧
    Value.length ⟨.object [] [] [], .unk .unref⟩ = .ok (intVal 0) ∧
    Value.length ⟨.object ["a"] [.string] [false], .unk (.nullable .f)⟩ = .ok (intVal 1) :=
  ⟨by rfl, by rfl, by rfl⟩

/-- Lists, maps, tuples, objects and sets: the length of a weakened operand is the
concrete length, or a range from its length refinement — or, for a set holding
unknowns, the range `[1, number of members]` — that holds it.  `hwdyn`: an operand of
the placeholder type is unknown (`DynamicVal`), not the null of that type.
`SetCountOK` (decidable, `true` for everything but sets): a weakened set ALL of whose
members are wholly known has as many members as the set it stands for — the one fact
about sets that `CoversX` (several members may stand for one) does not give, true of
every set cty builds (no two equivalent members, property C06). -/
theorem sound_length_partial (o w r : Value) (hk : o.whollyKnown = true) (hfo : o.wfc = true) (hfw : w.wfc = true)
    (hwdyn : w.ty = .dyn → w.isKnown = false) (hcount : SetCountOK w.unmark o.unmark = true)
    (hc : CoversX w o = true) (ho : Value.length o = .ok r) :
    ∃ r', Value.length w = .ok r' ∧ Covers r' r = true := by
  unfold Value.length at ho ⊢
  rw [unMarks_eq] at ho ⊢
  obtain ⟨r0, h0, rfl⟩ := res_map_ok ho
  have hwk : w.unmark.ty = .dyn → w.unmark.isKnown = false := by
    intro h
    have := hwdyn h
    have hf := flat_unmark (wfc_flat hfw)
    obtain ⟨t, p⟩ := w
    cases p <;> try (simp_all [Value.unmark, Payload.unmark1, Value.isKnown, Payload.isKnown, Value.isMarked, Payload.isMarked]; done)
    rename_i ms q
    cases q <;> simp_all [Value.unmark, Payload.unmark1, Value.isKnown, Payload.isKnown, Value.isMarked, Payload.isMarked]
  have hcx : CoversX w.unmark o.unmark = true := by rw [coversX_unmark_left, coversX_unmark_right]; exact hc
  have hko : o.unmark.whollyKnown = true := by rw [whollyKnown_unmark]; exact hk
  obtain ⟨r', h1, h2⟩ : ∃ r', lengthU w.unmark = .ok r' ∧ Covers r' r0 = true := by
    by_cases hs : ∃ e, o.unmark.ty = .set e
    · obtain ⟨e, he⟩ := hs
      exact lengthU_sound_set o.unmark w.unmark r0 he hko (flat_unmark (wfc_flat hfo)) (flat_unmark (wfc_flat hfw))
        (wfc_unmark hfo) hcx hwk hcount h0
    · exact lengthU_sound_partial o.unmark w.unmark r0 hko
        (flat_unmark (wfc_flat hfo)) (flat_unmark (wfc_flat hfw)) (wfc_unmark hfo) hcx hwk (fun e h => hs ⟨e, h⟩) h0
  refine ⟨_, by rw [h1]; rfl, ?_⟩
  by_cases ha : o.isMarked = true <;> by_cases hb : w.isMarked = true <;>
    simp [ha, hb, covers_withMarks_left, covers_withMarks_right, h2]

/-- sets: `{1, 2}` as `{unknown ≥ 1, 2}` has a length in `[1, 2]`; as an unknown set of
1 to 3 members a length in `[1, 3]`; both admit 2 -/
theorem length_set_examples :
    Value.length ⟨.set .number, .sset [1, 2] [.n (Num.ofInt 1), .n (Num.ofInt 2)]⟩ = .ok (intVal 2) ∧
    Value.length ⟨.set .number, .sset [0, 2] [.unk (.num .f (some ⟨Num.ofInt 1, true⟩) none), .n (Num.ofInt 2)]⟩
      = .ok ⟨.number, .unk (.num .f (some ⟨Num.ofInt 1, true⟩) (some ⟨Num.ofInt 2, true⟩))⟩ ∧
    CoversX ⟨.set .number, .sset [0, 2] [.unk (.num .f (some ⟨Num.ofInt 1, true⟩) none), .n (Num.ofInt 2)]⟩
      ⟨.set .number, .sset [1, 2] [.n (Num.ofInt 1), .n (Num.ofInt 2)]⟩ = true ∧
    SetCountOK ⟨.set .number, .sset [0, 2] [.unk (.num .f (some ⟨Num.ofInt 1, true⟩) none), .n (Num.ofInt 2)]⟩
      ⟨.set .number, .sset [1, 2] [.n (Num.ofInt 1), .n (Num.ofInt 2)]⟩ = true ∧
    Covers ⟨.number, .unk (.num .f (some ⟨Num.ofInt 1, true⟩) (some ⟨Num.ofInt 2, true⟩))⟩ (intVal 2) = true :=
  ⟨by rfl, by rfl, by decide, by decide, by decide⟩

/-! ## Soundness: Equals -/

/-- The model of `Equals` has one outcome about which `Sound₂` says nothing:
`.unmodelled`.  It arises in two places — equality of capsule values (a callback of the
application: a parameter, not modelled) and exhaustion of the fuel that makes the
recursion structural.  The second NEVER happens: the fuel `Value.equals` picks (nesting
depth + 1) suffices for every pair of types and payloads, known or not.  So an
`.unmodelled` comparison is a comparison of capsules, and the soundness theorems are not
true "for the wrong reason" on anything else (audit C01 item 5). -/
theorem equals_unmodelled_only_for_capsules (a b : Value) (ha : a.v.noCaps = true) (hb : b.v.noCaps = true) :
    Value.equals a b ≠ .unmodelled := equals_ne_unmodelled a b ha hb

/-- FALSE in general: a known list / tuple / object holding `cty.DynamicVal` (so
its type contains the placeholder) compared with an unknown is answered False
(DESIGN §8 #2). -/
def SoundEquals : Prop := Sound₂ Value.equals

theorem sound_equals_counterexample :
    Value.equals ⟨.list .bool, .seq [.b true]⟩ ⟨.list .bool, .seq [.b true]⟩ = .ok (boolVal true) ∧
    Value.equals ⟨.list .dyn, .seq [.unk .unref]⟩ ⟨.list .bool, .unk .unref⟩ = .ok (boolVal false) ∧
    CoversX ⟨.list .dyn, .seq [.unk .unref]⟩ ⟨.list .bool, .seq [.b true]⟩ = true ∧
    CoversX ⟨.list .bool, .unk .unref⟩ ⟨.list .bool, .seq [.b true]⟩ = true ∧
    Covers (boolVal false) (boolVal true) = false :=
  ⟨by rfl, by rfl, by decide, by decide, by decide⟩

theorem soundEquals_false : ¬ SoundEquals := by
  intro h
  obtain ⟨c1, c2, c3, c4, c5⟩ := sound_equals_counterexample
  obtain ⟨r', h1, h2⟩ := h _ _ _ _ _ (by decide) (by decide) (by decide) (by decide) (by decide) (by decide) c3 c4 c1
  rw [c2] at h1
  cases h1
  rw [c5] at h2
  cases h2

/-- Primitives, lists and tuples (nested), operands weakened anywhere to unknowns
with any refinement (nullness, numeric bounds inclusive or exclusive, prefix,
length) or wholly to `cty.DynamicVal`: the weakened comparison answers "unknown"
or exactly the concrete answer.  `EqOperand`: fragment type, payload as the type
dictates, numbers (and numeric bounds) integers — where cty's text-based number
equality coincides with exact comparison.  `EqWeak`: same type as the operand (no
placeholder nested inside a known value), or `cty.DynamicVal`. -/
theorem sound_equals_partial (o₁ o₂ w₁ w₂ r : Value) (hk₁ : o₁.whollyKnown = true) (hk₂ : o₂.whollyKnown = true)
    (hf₁ : EqOperand o₁) (hf₂ : EqOperand o₂) (hw₁ : EqWeak w₁ o₁) (hw₂ : EqWeak w₂ o₂)
    (hc₁ : CoversX w₁ o₁ = true) (hc₂ : CoversX w₂ o₂ = true) (ho : Value.equals o₁ o₂ = .ok r) :
    ∃ r', Value.equals w₁ w₂ = .ok r' ∧ Covers r' r = true :=
  equals_sound_partial o₁ o₂ w₁ w₂ r hk₁ hk₂ hf₁ hf₂ hw₁ hw₂ hc₁ hc₂ ho

/-- Objects and maps (audit C01, missing theorem (c)): two objects of one object type
whose attribute types are in the fragment above, or two maps of one map type whose
element type is, with attributes / elements weakened in place at any depth to unknowns
of any refinement.  The object and map branches of `Equals` do not stop at the first
unknown comparison — Go ranges over a map, so a known-unequal attribute must decide
whichever is visited first — they go on and answer "unknown" only if no attribute is
known to differ; the proof therefore also needs that `Equals` is total on the wholly
known members the concrete call never looked at (`eqF_total`).  `EqObjOperand` /
`EqMapOperand`: well-formed type over the fragment, known non-null payload, members as
the types dictate, numbers integers.  `EqObjWeak` / `EqMapWeak`: same type, a known
payload (the operand replaced as a whole by an unknown is NOT covered here). -/
theorem sound_equals_object_partial (o₁ o₂ w₁ w₂ r : Value) (hk₁ : o₁.whollyKnown = true) (hk₂ : o₂.whollyKnown = true)
    (hf₁ : EqObjOperand o₁) (hf₂ : EqObjOperand o₂) (hty : o₁.ty = o₂.ty) (hw₁ : EqObjWeak w₁ o₁) (hw₂ : EqObjWeak w₂ o₂)
    (hc₁ : CoversX w₁ o₁ = true) (hc₂ : CoversX w₂ o₂ = true) (ho : Value.equals o₁ o₂ = .ok r) :
    ∃ r', Value.equals w₁ w₂ = .ok r' ∧ Covers r' r = true :=
  equals_sound_object o₁ o₂ w₁ w₂ r hk₁ hk₂ hf₁ hf₂ hty hw₁ hw₂ hc₁ hc₂ ho

theorem sound_equals_map_partial (o₁ o₂ w₁ w₂ r : Value) (hk₁ : o₁.whollyKnown = true) (hk₂ : o₂.whollyKnown = true)
    (hf₁ : EqMapOperand o₁) (hf₂ : EqMapOperand o₂) (hty : o₁.ty = o₂.ty) (hw₁ : EqMapWeak w₁ o₁) (hw₂ : EqMapWeak w₂ o₂)
    (hc₁ : CoversX w₁ o₁ = true) (hc₂ : CoversX w₂ o₂ = true) (ho : Value.equals o₁ o₂ = .ok r) :
    ∃ r', Value.equals w₁ w₂ = .ok r' ∧ Covers r' r = true :=
  equals_sound_map o₁ o₂ w₁ w₂ r hk₁ hk₂ hf₁ hf₂ hty hw₁ hw₂ hc₁ hc₂ ho

/-- the instance that shows why the order of the attributes cannot matter: `{a = 1, b = 2}`
against `{a = 1, b = 3}` is False; with `a` weakened to an unknown number on the left the
first comparison is unknown, the second still decides: False (not "unknown") -/
theorem equals_object_examples :
    Value.equals ⟨.object ["a", "b"] [.number, .number] [false, false], .smap ["a", "b"] [.n (Num.ofInt 1), .n (Num.ofInt 2)]⟩
      ⟨.object ["a", "b"] [.number, .number] [false, false], .smap ["a", "b"] [.n (Num.ofInt 1), .n (Num.ofInt 3)]⟩ = .ok (boolVal false) ∧
    Value.equals ⟨.object ["a", "b"] [.number, .number] [false, false], .smap ["a", "b"] [.unk .unref, .n (Num.ofInt 2)]⟩
      ⟨.object ["a", "b"] [.number, .number] [false, false], .smap ["a", "b"] [.n (Num.ofInt 1), .n (Num.ofInt 3)]⟩ = .ok (boolVal false) ∧
    Value.equals ⟨.object ["a", "b"] [.number, .number] [false, false], .smap ["a", "b"] [.unk .unref, .n (Num.ofInt 2)]⟩
      ⟨.object ["a", "b"] [.number, .number] [false, false], .smap ["a", "b"] [.n (Num.ofInt 1), .n (Num.ofInt 2)]⟩ = .ok unkBool ∧
    Value.equals ⟨.map .number, .smap ["k"] [.unk (.num .f (some ⟨Num.ofInt 5, true⟩) none)]⟩
      ⟨.map .number, .smap ["k"] [.n (Num.ofInt 4)]⟩ = .ok (boolVal false) :=
  ⟨by rfl, by rfl, by rfl, by rfl⟩

example : EqObjOperand ⟨.object ["a", "b"] [.number, .list .bool] [false, false], .smap ["a", "b"] [.n (Num.ofInt 1), .seq [.b true]]⟩ :=
  ⟨_, _, _, _, _, rfl, by decide, by decide, rfl, by decide⟩
example : EqObjWeak ⟨.object ["a", "b"] [.number, .list .bool] [false, false], .smap ["a", "b"] [.unk (.num .f none none), .seq [.unk .unref]]⟩
    ⟨.object ["a", "b"] [.number, .list .bool] [false, false], .smap ["a", "b"] [.n (Num.ofInt 1), .seq [.b true]]⟩ :=
  ⟨rfl, _, _, rfl, fun ns ts opt h => by cases h; decide⟩
example : EqMapOperand ⟨.map .number, .smap ["k"] [.n (Num.ofInt 4)]⟩ := ⟨_, _, _, rfl, by decide, rfl, by decide⟩

/-- NotEqual, LessThanOrEqualTo, GreaterThanOrEqualTo are compositions
(`Equals(…).Not()`, `LessThan(…).Or(Equals(…))`): sound on the same fragment. -/
theorem sound_notEqual_partial (o₁ o₂ w₁ w₂ r : Value) (hk₁ : o₁.whollyKnown = true) (hk₂ : o₂.whollyKnown = true)
    (hf₁ : EqOperand o₁) (hf₂ : EqOperand o₂) (hw₁ : EqWeak w₁ o₁) (hw₂ : EqWeak w₂ o₂)
    (hc₁ : CoversX w₁ o₁ = true) (hc₂ : CoversX w₂ o₂ = true) (ho : Value.notEqual o₁ o₂ = .ok r) :
    ∃ r', Value.notEqual w₁ w₂ = .ok r' ∧ Covers r' r = true :=
  notEqual_sound_partial o₁ o₂ w₁ w₂ r hk₁ hk₂ hf₁ hf₂ hw₁ hw₂ hc₁ hc₂ ho

theorem sound_lessThanOrEqualTo_partial (o₁ o₂ w₁ w₂ r : Value) (hk₁ : o₁.whollyKnown = true) (hk₂ : o₂.whollyKnown = true)
    (hf₁ : o₁.wfc = true) (hf₂ : o₂.wfc = true) (hg₁ : w₁.wfc = true) (hg₂ : w₂.wfc = true)
    (he₁ : EqOperand o₁) (he₂ : EqOperand o₂) (hw₁ : EqWeak w₁ o₁) (hw₂ : EqWeak w₂ o₂)
    (hc₁ : CoversX w₁ o₁ = true) (hc₂ : CoversX w₂ o₂ = true) (ho : Value.lessThanOrEqualTo o₁ o₂ = .ok r) :
    ∃ r', Value.lessThanOrEqualTo w₁ w₂ = .ok r' ∧ Covers r' r = true :=
  lessThanOrEqualTo_sound_partial o₁ o₂ w₁ w₂ r hk₁ hk₂ hf₁ hf₂ hg₁ hg₂ he₁ he₂ hw₁ hw₂ hc₁ hc₂ ho

theorem sound_greaterThanOrEqualTo_partial (o₁ o₂ w₁ w₂ r : Value) (hk₁ : o₁.whollyKnown = true) (hk₂ : o₂.whollyKnown = true)
    (hf₁ : o₁.wfc = true) (hf₂ : o₂.wfc = true) (hg₁ : w₁.wfc = true) (hg₂ : w₂.wfc = true)
    (he₁ : EqOperand o₁) (he₂ : EqOperand o₂) (hw₁ : EqWeak w₁ o₁) (hw₂ : EqWeak w₂ o₂)
    (hc₁ : CoversX w₁ o₁ = true) (hc₂ : CoversX w₂ o₂ = true) (ho : Value.greaterThanOrEqualTo o₁ o₂ = .ok r) :
    ∃ r', Value.greaterThanOrEqualTo w₁ w₂ = .ok r' ∧ Covers r' r = true :=
  greaterThanOrEqualTo_sound_partial o₁ o₂ w₁ w₂ r hk₁ hk₂ hf₁ hf₂ hg₁ hg₂ he₁ he₂ hw₁ hw₂ hc₁ hc₂ ho

/-- Sets: while a member of either set is not wholly known — a known container
holding an unknown may turn out equal to a member of the other set — `Equals` on
two sets of the same type never gives a definite answer (repaired in /repo
3501ac3; before, only members that were themselves unknown had this effect). -/
theorem equals_set_never_definite (a b r : Value) {e : Ty} {ix iy : List Int} {xs ys : List Payload}
    (hta : a.ty = .set e) (hte : Ty.equals (.set e) b.ty = true)
    (hpa : a.v.stripMarks = .sset ix xs) (hpb : b.v.stripMarks = .sset iy ys)
    (hlx : ix.length = xs.length) (hly : iy.length = ys.length)
    (hnk : Payload.whollyKnownL xs = false ∨ Payload.whollyKnownL ys = false)
    (h : Value.equals a b = .ok r) : r.isKnown = false :=
  equals_set_unknown a b r hta hte hpa hpb hlx hly hnk h

/-- … and that unknown answer admits whatever `Equals` answers on the sets the two
operands stand for: soundness of `Equals` on two sets of the same type as soon as a
member of either weakened set is not wholly known (no hypothesis on how the weakened
sets relate to the concrete ones is needed). -/
theorem sound_equals_set_unknown_member (w₁ w₂ o₁ o₂ r' r : Value) {e : Ty} {ix iy : List Int} {xs ys : List Payload}
    (hta : w₁.ty = .set e) (hte : Ty.equals (.set e) w₂.ty = true)
    (hpa : w₁.v.stripMarks = .sset ix xs) (hpb : w₂.v.stripMarks = .sset iy ys)
    (hlx : ix.length = xs.length) (hly : iy.length = ys.length)
    (hnk : Payload.whollyKnownL xs = false ∨ Payload.whollyKnownL ys = false)
    (hw : Value.equals w₁ w₂ = .ok r') (ho : Value.equals o₁ o₂ = .ok r) : Covers r' r = true :=
  equals_unknown_covers hw (equals_set_unknown w₁ w₂ r' hta hte hpa hpb hlx hly hnk hw) ho

/-- the former counterexample (a set against a set holding `(unknown)`), now a regression case -/
theorem equals_set_regression :
    Value.equals ⟨.set (.tuple [.bool]), .sset [5] [.seq [.b true]]⟩ ⟨.set (.tuple [.bool]), .sset [5] [.seq [.b true]]⟩
      = .ok (boolVal true) ∧
    Value.equals ⟨.set (.tuple [.bool]), .sset [5] [.seq [.b true]]⟩ ⟨.set (.tuple [.bool]), .sset [5] [.seq [.unk .unref]]⟩
      = .ok unkBool ∧
    Covers unkBool (boolVal true) = true :=
  ⟨by rfl, by rfl, by decide⟩

/-! ## Soundness: HasElement (counterexample for the full statement; sound for operands replaced as a whole) -/

/-- FALSE: a known candidate element holding an unknown is answered False although
the set holds the element it stands for (DESIGN §8 #1). -/
def SoundHasElement (eh : Option Int) : Prop := Sound₂ (fun s e => Value.hasElement s e eh)

theorem sound_hasElement_counterexample :
    Value.hasElement ⟨.set (.list .number), .sset [7] [.seq [.n (Num.ofInt 1)]]⟩ ⟨.list .number, .seq [.n (Num.ofInt 1)]⟩ (some 7)
      = .ok (boolVal true) ∧
    Value.hasElement ⟨.set (.list .number), .sset [7] [.seq [.n (Num.ofInt 1)]]⟩ ⟨.list .number, .seq [.unk .unref]⟩ (some 7)
      = .ok (boolVal false) ∧
    CoversX ⟨.list .number, .seq [.unk .unref]⟩ ⟨.list .number, .seq [.n (Num.ofInt 1)]⟩ = true :=
  ⟨by rfl, by rfl, by decide⟩

/-- The positive part: HasElement is sound when each operand is kept as it is or
replaced AS A WHOLE — the set by any unknown (refined or not) or `DynamicVal`, the
candidate element by an unknown of its own type or by `DynamicVal` (`eh'` is the hash
oracle of the weakened needle: the concrete one when the needle is kept, anything
otherwise).  The weakened call then answers "unknown", or the same definite False
from the type guard.  What is excluded is exactly what is false or unproved: a KNOWN
needle holding an unknown inside and type constraints with the placeholder inside (the
two recorded findings, `sound_hasElement_counterexample`), and members of the set
weakened in place (frontier: searched by the harness, no theorem). -/
theorem sound_hasElement_partial (s e ws we r : Value) (eh eh' : Option Int)
    (hgs : ws.wfc = true) (hge : we.wfc = true)
    (hs : ws = s ∨ ws.isKnown = false)
    (he : (we = e ∧ eh' = eh) ∨ (we.isKnown = false ∧ (we.ty = e.ty ∨ we.ty = .dyn)))
    (ho : Value.hasElement s e eh = .ok r) : ∃ r', Value.hasElement ws we eh' = .ok r' ∧ Covers r' r = true :=
  hasElement_sound_whole s e ws we r eh eh' (wfc_flat hgs) (wfc_flat hge) hs he ho

/-- non-trivial instances: the set `{[1]}` replaced by an unknown set of lists, the
needle `[1]` by an unknown list, by `DynamicVal`; each admits the concrete answer True -/
theorem sound_hasElement_examples :
    Value.hasElement ⟨.set (.list .number), .sset [7] [.seq [.n (Num.ofInt 1)]]⟩ ⟨.list .number, .seq [.n (Num.ofInt 1)]⟩ (some 7)
      = .ok (boolVal true) ∧
    Value.hasElement ⟨.set (.list .number), .unk (.coll .f 1 3)⟩ ⟨.list .number, .seq [.n (Num.ofInt 1)]⟩ (some 7) = .ok unkBool ∧
    Value.hasElement ⟨.set (.list .number), .sset [7] [.seq [.n (Num.ofInt 1)]]⟩ ⟨.list .number, .unk .unref⟩ none = .ok unkBool ∧
    Value.hasElement ⟨.set (.list .number), .sset [7] [.seq [.n (Num.ofInt 1)]]⟩ dynVal none = .ok unkBool ∧
    Covers unkBool (boolVal true) = true := ⟨by rfl, by rfl, by rfl, by rfl, by decide⟩

/-! ## `ValueRange.Includes` answers False only for what the range does not admit -/

/-- FALSE as stated: `Includes` compares with `>=` / `<=` built from cty's
text-based number equality, so a non-integer sitting exactly on an inclusive
bound stored at another precision is reported as outside the range. -/
def IncludesFalseSound : Prop := CtyModel.IncludesFalseSound

/-- Where cty's number equality agrees with exact comparison between the value
and the bounds (`BoundCoherent`; always so for integers, `isInt_coh`), a False
from `Includes` means the range — nullness, type constraint, numeric bounds with
their inclusiveness, byte prefix, length bounds against the possible lengths —
does not admit the value. -/
theorem includes_false_sound_partial (rng : VRange) (v : Value) (hm : v.isMarked = false) (hk : v.isKnown = true)
    (hwr : rng.ty.wf = true) (hwv : v.ty.wf = true)
    (hcoh : ∀ x lo hi nl, v.v = .n x → rng.raw = .num nl lo hi → BoundCoherent lo x ∧ BoundCoherent hi x)
    (h : includes rng v = .ok (some false)) : Covers (unkOf rng) v = false :=
  CtyModel.includes_false_sound_partial rng v hm hk hwr hwv hcoh h

/-- The witness shape: a number equal in value to an inclusive bound that
`rawNumberEqual` does not recognise as equal (e.g. 1e-100 at 53 and at 512 bits;
the harness exhibits it on the real code). -/
theorem includes_false_sound_counterexample (x b : Num) (hc : Num.cmp x b = 0) (hr : Num.rawEqual x b = false) :
    includes ⟨.number, .num .u (some ⟨b, true⟩) none⟩ ⟨.number, .n x⟩ = .ok (some false) ∧
    Covers (unkOf ⟨.number, .num .u (some ⟨b, true⟩) none⟩) ⟨.number, .n x⟩ = true :=
  includes_false_at_bound x b hc hr

/-- The full statement would force `rawNumberEqual` to agree with `big.Float.Cmp`. -/
theorem includesFalseSound_needs_coherence (h : IncludesFalseSound) (x b : Num) (hc : Num.cmp x b = 0) :
    Num.rawEqual x b = true := CtyModel.includesFalseSound_needs_coherence h x b hc

/-! ## Soundness: Add, Subtract -/

/-- FALSE as stated (DESIGN §8 #17): the corners of the result range are computed
with `big.Float.Add` on the BOUNDS, which rounds to the larger precision of the two
bounds; the value an unknown stands for may carry more precision. -/
def SoundAdd : Prop := Sound₂ Value.add
def SoundSub : Prop := Sound₂ Value.sub

/-- unknown ≤ 18446744073709551615 (a 64-bit bound) standing for the 512-bit number
18446744073709551615, plus 0.25: the weakened result is bounded above by
18446744073709551615, the concrete result is 18446744073709551615.25. -/
theorem add_mixed_precision_counterexample :
    Value.add ⟨.number, .n (.fin false 18446744073709551615 0 512)⟩ ⟨.number, .n (.fin false 1 (-2) 53)⟩
      = .ok ⟨.number, .n (.fin false 73786976294838206461 (-2) 512)⟩ ∧
    Value.add ⟨.number, .unk (.num .u none (some ⟨.fin false 18446744073709551615 0 64, true⟩))⟩ ⟨.number, .n (.fin false 1 (-2) 53)⟩
      = .ok ⟨.number, .unk (.num .f none (some ⟨.fin false 18446744073709551615 0 64, true⟩))⟩ ∧
    CoversX ⟨.number, .unk (.num .u none (some ⟨.fin false 18446744073709551615 0 64, true⟩))⟩
      ⟨.number, .n (.fin false 18446744073709551615 0 512)⟩ = true ∧
    Covers ⟨.number, .unk (.num .f none (some ⟨.fin false 18446744073709551615 0 64, true⟩))⟩
      ⟨.number, .n (.fin false 73786976294838206461 (-2) 512)⟩ = false ∧
    CornerExactAdd ⟨.number, .unk (.num .u none (some ⟨.fin false 18446744073709551615 0 64, true⟩))⟩ ⟨.number, .n (.fin false 1 (-2) 53)⟩
      ⟨.number, .n (.fin false 18446744073709551615 0 512)⟩ ⟨.number, .n (.fin false 1 (-2) 53)⟩ = false :=
  ⟨by rfl, by rfl, by decide, by decide, by decide⟩

theorem soundAdd_false : ¬ SoundAdd := by
  intro h
  obtain ⟨c1, c2, c3, c4, _⟩ := add_mixed_precision_counterexample
  obtain ⟨r', h1, h2⟩ := h _ ⟨.number, .n (.fin false 1 (-2) 53)⟩ _ ⟨.number, .n (.fin false 1 (-2) 53)⟩ _
    (by decide) (by decide) (by decide) (by decide) (by decide) (by decide) c3 (by decide) c1
  rw [c2] at h1
  cases h1
  rw [c4] at h2
  cases h2

/-- The mirror image of `add_mixed_precision_counterexample` (same root cause, the
recorded finding range-bound-rounded-at-lower-precision): here the BOUND is the finer
number.  unknown ≥ 1.0000000000000001 (a 512-bit bound, 1+2^-60) standing for the
float64 1+2^-52, plus the float64 1: the concrete sum 2+2^-52 is a tie at 53 bits and
rounds to 2; the corner 1+2^-60+1 is exact at 512 bits, so the weakened result is
bounded BELOW by 2+2^-60 > 2.  Directed rounding of the corners would not help. -/
theorem add_bound_finer_than_value_counterexample :
    Value.add ⟨.number, .n (.fin false 4503599627370497 (-52) 53)⟩ ⟨.number, .n (.fin false 1 0 53)⟩
      = .ok ⟨.number, .n (.fin false 1 1 53)⟩ ∧
    Value.add ⟨.number, .unk (.num .u (some ⟨.fin false 1152921504606846977 (-60) 512, true⟩) none)⟩ ⟨.number, .n (.fin false 1 0 53)⟩
      = .ok ⟨.number, .unk (.num .f (some ⟨.fin false 2305843009213693953 (-60) 512, true⟩) none)⟩ ∧
    CoversX ⟨.number, .unk (.num .u (some ⟨.fin false 1152921504606846977 (-60) 512, true⟩) none)⟩
      ⟨.number, .n (.fin false 4503599627370497 (-52) 53)⟩ = true ∧
    Covers ⟨.number, .unk (.num .f (some ⟨.fin false 2305843009213693953 (-60) 512, true⟩) none)⟩
      ⟨.number, .n (.fin false 1 1 53)⟩ = false ∧
    CornerSafeAdd ⟨.number, .unk (.num .u (some ⟨.fin false 1152921504606846977 (-60) 512, true⟩) none)⟩ ⟨.number, .n (.fin false 1 0 53)⟩
      ⟨.number, .n (.fin false 4503599627370497 (-52) 53)⟩ ⟨.number, .n (.fin false 1 0 53)⟩ = false :=
  ⟨by rfl, by rfl, by decide, by decide, by decide⟩

/-- Add is sound whenever the rounding of a corner cannot overtake the rounding of
the concrete sum: `CornerSafeAdd` (decidable).  `big.Float.Add` rounds to the larger
precision of its two operands; rounding to nearest is monotone, so the lower corner
`l₁+l₂` stays below `x+y` (and `x+y` below `h₁+h₂`) when BOTH SUMS ARE ROUNDED AT THE
SAME PRECISION — whether or not they are rounded (every number parsed from text or
JSON carries 512 bits, so this is the ordinary case) — or when one of the two exact
sums is representable at both precisions, or neither sum is rounded (the former side
condition `CornerExactAdd`: `cornerSafeAdd_of_exact`).  Bounds may be infinite.
Outside `CornerSafeAdd` the statement is false both ways:
`add_mixed_precision_counterexample` (bound coarser than the value),
`add_bound_finer_than_value_counterexample` (bound finer than the value).
Last conjunct of the side condition: a result range that cty collapses to a known
number is one value. -/
theorem sound_add_partial (o₁ o₂ w₁ w₂ r : Value) (hk₁ : o₁.whollyKnown = true) (hk₂ : o₂.whollyKnown = true)
    (hf₁ : o₁.wfc = true) (hf₂ : o₂.wfc = true) (hg₁ : w₁.wfc = true) (hg₂ : w₂.wfc = true)
    (hc₁ : CoversX w₁ o₁ = true) (hc₂ : CoversX w₂ o₂ = true)
    (hside : CornerSafeAdd w₁.unmark w₂.unmark o₁.unmark o₂.unmark = true)
    (ho : Value.add o₁ o₂ = .ok r) : ∃ r', Value.add w₁ w₂ = .ok r' ∧ Covers r' r = true := by
  unfold Value.add at ho ⊢
  rw [binMarks_eq] at ho ⊢
  obtain ⟨r0, h0, rfl⟩ := res_map_ok ho
  obtain ⟨r', h1, h2⟩ := addU_sound_safe o₁.unmark o₂.unmark w₁.unmark w₂.unmark r0
    (by rw [whollyKnown_unmark]; exact hk₁) (by rw [whollyKnown_unmark]; exact hk₂)
    (flat_unmark (wfc_flat hf₁)) (flat_unmark (wfc_flat hf₂)) (flat_unmark (wfc_flat hg₁)) (flat_unmark (wfc_flat hg₂))
    (by rw [coversX_unmark_left, coversX_unmark_right]; exact hc₁)
    (by rw [coversX_unmark_left, coversX_unmark_right]; exact hc₂) hside h0
  refine ⟨_, by rw [h1]; rfl, ?_⟩
  by_cases ha : (o₁.isMarked || o₂.isMarked) = true <;> by_cases hb : (w₁.isMarked || w₂.isMarked) = true <;>
    simp_all [covers_withMarks_left, covers_withMarks_right]

/-- Subtract likewise (lower corner `l₁ − h₂`, upper corner `h₁ − l₂`). -/
theorem sound_sub_partial (o₁ o₂ w₁ w₂ r : Value) (hk₁ : o₁.whollyKnown = true) (hk₂ : o₂.whollyKnown = true)
    (hf₁ : o₁.wfc = true) (hf₂ : o₂.wfc = true) (hg₁ : w₁.wfc = true) (hg₂ : w₂.wfc = true)
    (hc₁ : CoversX w₁ o₁ = true) (hc₂ : CoversX w₂ o₂ = true)
    (hside : CornerSafeSub w₁.unmark w₂.unmark o₁.unmark o₂.unmark = true)
    (ho : Value.sub o₁ o₂ = .ok r) : ∃ r', Value.sub w₁ w₂ = .ok r' ∧ Covers r' r = true := by
  unfold Value.sub at ho ⊢
  rw [binMarks_eq] at ho ⊢
  obtain ⟨r0, h0, rfl⟩ := res_map_ok ho
  obtain ⟨r', h1, h2⟩ := subU_sound_safe o₁.unmark o₂.unmark w₁.unmark w₂.unmark r0
    (by rw [whollyKnown_unmark]; exact hk₁) (by rw [whollyKnown_unmark]; exact hk₂)
    (flat_unmark (wfc_flat hf₁)) (flat_unmark (wfc_flat hf₂)) (flat_unmark (wfc_flat hg₁)) (flat_unmark (wfc_flat hg₂))
    (by rw [coversX_unmark_left, coversX_unmark_right]; exact hc₁)
    (by rw [coversX_unmark_left, coversX_unmark_right]; exact hc₂) hside h0
  refine ⟨_, by rw [h1]; rfl, ?_⟩
  by_cases ha : (o₁.isMarked || o₂.isMarked) = true <;> by_cases hb : (w₁.isMarked || w₂.isMarked) = true <;>
    simp_all [covers_withMarks_left, covers_withMarks_right]

/-- The side condition in plain terms: it holds as soon as the two sums are rounded at
the same precision (`max` of the operand precisions), and it is implied by the former
"nothing is rounded" condition. -/
theorem add_side_condition_cases :
    (∀ u1 u2 x y : Num, max u1.prec u2.prec = max x.prec y.prec → Num.addSafe u1 u2 x y = true) ∧
    (∀ w₁ w₂ o₁ o₂ : Value, CornerExactAdd w₁ w₂ o₁ o₂ = true → CornerSafeAdd w₁ w₂ o₁ o₂ = true) ∧
    (∀ w₁ w₂ o₁ o₂ : Value, CornerExactSub w₁ w₂ o₁ o₂ = true → CornerSafeSub w₁ w₂ o₁ o₂ = true) :=
  ⟨fun _ _ _ _ h => addSafe_of_prec_eq h, fun _ _ _ _ h => cornerSafeAdd_of_exact h, fun _ _ _ _ h => cornerSafeSub_of_exact h⟩

/-- FALSE as stated since /repo 6d2fa5e (before, the zero exit was a pointer
comparison that no value but the package value `cty.Zero` itself could take):
Multiply under the side condition `CohMul` alone.  The corner products of
`numericRangeArithmetic` are calls of `Value.Multiply` on the BOUNDS; the bounds of
a dynamically typed operand are unknown numbers, so such a corner is a short circuit
of its own and now takes the zero exit when the other bound is a zero.  A nullable
unknown number refined to `[0, 0]` next to a dynamically typed operand therefore
multiplies to the known `cty.Zero` — although it may stand for a NULL number, and
`cty.NullVal(cty.DynamicPseudoType).Multiply(cty.NullVal(cty.Number))` is an unknown
number (the null of the dynamic pseudo-type is taken for `DynamicVal`, see
`known_in_known_out_counterexample`; with any other receiver a null operand
panics). -/
def SoundMulCornerExact : Prop :=
  ∀ (o₁ o₂ w₁ w₂ r : Value), o₁.whollyKnown = true → o₂.whollyKnown = true →
    o₁.wfc = true → o₂.wfc = true → w₁.wfc = true → w₂.wfc = true →
    CoversX w₁ o₁ = true → CoversX w₂ o₂ = true →
    CohMul w₁.unmark w₂.unmark = true →
    Value.mul o₁ o₂ = .ok r → ∃ r', Value.mul w₁ w₂ = .ok r' ∧ Covers r' r = true

/-- null of the dynamic pseudo-type times null number is an unknown (non-null) number;
the same receiver times "unknown number in [0, 0], perhaps null" is the known zero. -/
theorem mul_null_zero_bounds_counterexample :
    Value.mul ⟨.dyn, .null⟩ ⟨.number, .null⟩ = .ok unkNumNotNull ∧
    Value.mul ⟨.dyn, .null⟩ ⟨.number, .unk (.num .u (some ⟨Num.ofInt 0, true⟩) (some ⟨Num.ofInt 0, true⟩))⟩ = .ok zeroVal ∧
    CoversX ⟨.number, .unk (.num .u (some ⟨Num.ofInt 0, true⟩) (some ⟨Num.ofInt 0, true⟩))⟩ ⟨.number, .null⟩ = true ∧
    Covers zeroVal unkNumNotNull = false ∧
    CohMul ⟨.dyn, .null⟩ ⟨.number, .unk (.num .u (some ⟨Num.ofInt 0, true⟩) (some ⟨Num.ofInt 0, true⟩))⟩ = true ∧
    ZeroBoundsNumber ⟨.number, .unk (.num .u (some ⟨Num.ofInt 0, true⟩) (some ⟨Num.ofInt 0, true⟩))⟩ ⟨.number, .null⟩ = false :=
  ⟨by rfl, by rfl, by decide, by decide, by decide, by decide⟩

theorem soundMulCornerExact_false : ¬ SoundMulCornerExact := by
  intro h
  obtain ⟨c1, c2, c3, c4, c5, _⟩ := mul_null_zero_bounds_counterexample
  obtain ⟨r', h1, h2⟩ := h ⟨.dyn, .null⟩ ⟨.number, .null⟩ ⟨.dyn, .null⟩ _ _
    (by decide) (by decide) (by decide) (by decide) (by decide) (by decide) (by decide) c3 c5 c1
  rw [c2] at h1
  cases h1
  rw [c4] at h2
  cases h2

/-- Multiply is sound for every weakening — unrefined, half-bounded or two-sided
unknowns, `DynamicVal`, products that are rounded or not — under two decidable side
conditions that exclude exactly what is known to be false or unknown:
`ZeroBoundsNumber` (a weakened operand whose two bounds are zeros stands for a number,
not for a null; it only bites next to an operand of the dynamic pseudo-type, see
`mul_null_zero_bounds_counterexample`) and `CohMul` (a result range that cty collapses
to a known number because its two ends are `rawNumberEqual` is one value; always so
when the ends are integers).  Why no precision condition is needed, unlike Add: cty
multiplies at 512 bits whatever the operands' precisions are and keeps every bit of
that product, so corner products and the concrete product are rounded at the same
precision, and rounding to nearest is monotone (`Num.rndV_mono`).  Infinite bounds:
the product over a box of extended numbers lies between the smallest and the largest
corner product whenever those are defined (`D01.Ext.box_lower/box_upper`; an
undefined corner `0·∞` panics in Go, is caught, and makes the result unbounded).
Both the zero exit of the call itself and the zero exit of its corner products
(/repo 6d2fa5e) are covered. -/
theorem sound_mul_partial (o₁ o₂ w₁ w₂ r : Value) (hk₁ : o₁.whollyKnown = true) (hk₂ : o₂.whollyKnown = true)
    (hf₁ : o₁.wfc = true) (hf₂ : o₂.wfc = true) (hg₁ : w₁.wfc = true) (hg₂ : w₂.wfc = true)
    (hc₁ : CoversX w₁ o₁ = true) (hc₂ : CoversX w₂ o₂ = true)
    (hside : CohMul w₁.unmark w₂.unmark = true)
    (hzb₁ : ZeroBoundsNumber w₁.unmark o₁.unmark = true) (hzb₂ : ZeroBoundsNumber w₂.unmark o₂.unmark = true)
    (ho : Value.mul o₁ o₂ = .ok r) : ∃ r', Value.mul w₁ w₂ = .ok r' ∧ Covers r' r = true := by
  unfold Value.mul at ho ⊢
  rw [binMarks_eq] at ho ⊢
  obtain ⟨r0, h0, rfl⟩ := res_map_ok ho
  obtain ⟨r', h1, h2⟩ := mulU_sound_coh o₁.unmark o₂.unmark w₁.unmark w₂.unmark r0
    (by rw [whollyKnown_unmark]; exact hk₁) (by rw [whollyKnown_unmark]; exact hk₂)
    (flat_unmark (wfc_flat hf₁)) (flat_unmark (wfc_flat hf₂)) (flat_unmark (wfc_flat hg₁)) (flat_unmark (wfc_flat hg₂))
    (by rw [coversX_unmark_left, coversX_unmark_right]; exact hc₁)
    (by rw [coversX_unmark_left, coversX_unmark_right]; exact hc₂) hside hzb₁ hzb₂ h0
  refine ⟨_, by rw [h1]; rfl, ?_⟩
  by_cases ha : (o₁.isMarked || o₂.isMarked) = true <;> by_cases hb : (w₁.isMarked || w₂.isMarked) = true <;>
    simp_all [covers_withMarks_left, covers_withMarks_right]

/-- The "collapsed range is one value" conjunct of `CohMul` / `CornerSafeAdd` is only
about NON-INTEGER ends: for integer ends cty's `rawNumberEqual` is exact comparison, and a
missing or infinite end never collapses. -/
theorem coh_of_integer_ends (m M : Num) (hm : m.isInt = true) (hM : M.isInt = true) :
    cohOK (some m) (some M) = true ∧ cohOK none (some M) = true ∧ cohOK (some m) none = true := by
  refine ⟨?_, rfl, rfl⟩
  simp only [cohOK, isInt_coh hm hM]
  cases (Num.cmp m M == 0) <;> rfl

/-- Without null operands the second side condition is vacuous: `ZeroBoundsNumber`
holds of every weakening of a number. -/
theorem zeroBoundsNumber_of_number (w : Value) (x : Num) : ZeroBoundsNumber w (numVal x) = true := by
  simp [ZeroBoundsNumber, numVal, asNum]

/-- The base case of the property's quantifier — an UNREFINED unknown number (also
`UnknownVal(Number).RefineNotNull()`, and `DynamicVal`) in place of a number, times a
known number: sound with no side condition.  (The result is the unrefined not-null
unknown number, or `cty.Zero` when the known factor is a zero.) -/
theorem sound_mul_unrefined (x y : Num) (w₁ r : Value)
    (hw : w₁ = ⟨.number, .unk .unref⟩ ∨ w₁ = ⟨.number, .unk (.nullable .f)⟩ ∨ w₁ = dynVal)
    (ho : Value.mul (numVal x) (numVal y) = .ok r) :
    ∃ r', Value.mul w₁ (numVal y) = .ok r' ∧ Covers r' r = true := by
  have hc₂ : CoversX (numVal y) (numVal y) = true := by
    simp [CoversX, CoversG, numVal, Ty.matches, Payload.stripMarks, Cov.coversP, Cov.numEq]
  have hwf : ∀ z : Num, (numVal z).wfc = true := fun z => rfl
  rcases hw with rfl | rfl | rfl
  · exact sound_mul_partial (numVal x) (numVal y) _ (numVal y) r rfl rfl (hwf x) (hwf y) (by decide) (hwf y) (by rfl) hc₂
      (cohMul_of_unbounded (by rfl)) (zeroBoundsNumber_of_number _ x) (zeroBoundsNumber_of_number _ y) ho
  · exact sound_mul_partial (numVal x) (numVal y) _ (numVal y) r rfl rfl (hwf x) (hwf y) (by decide) (hwf y) (by rfl) hc₂
      (cohMul_of_unbounded (by rfl)) (zeroBoundsNumber_of_number _ x) (zeroBoundsNumber_of_number _ y) ho
  · exact sound_mul_partial (numVal x) (numVal y) _ (numVal y) r rfl rfl (hwf x) (hwf y) (by decide) (hwf y) (by rfl) hc₂
      (by rfl) (zeroBoundsNumber_of_number _ x) (zeroBoundsNumber_of_number _ y) ho

/-- Multiply with a KNOWN ZERO among the weakened operands needs no side condition:
since /repo 6d2fa5e the short circuit answers `cty.Zero` for every zero operand
(`RawEquals(Zero)`; it was a pointer comparison with the package value before), and
a zero times anything that multiplies without a panic is a zero, so the known
result admits the concrete product — whatever the other operand's bounds are. -/
theorem sound_mul_zero (o₁ o₂ w₁ w₂ r : Value) (hk₁ : o₁.whollyKnown = true) (hk₂ : o₂.whollyKnown = true)
    (hf₁ : o₁.wfc = true) (hf₂ : o₂.wfc = true) (hg₁ : w₁.wfc = true) (hg₂ : w₂.wfc = true)
    (hc₁ : CoversX w₁ o₁ = true) (hc₂ : CoversX w₂ o₂ = true)
    (hz : (rawEqualsZero w₁.unmark || rawEqualsZero w₂.unmark) = true)
    (ho : Value.mul o₁ o₂ = .ok r) : ∃ r', Value.mul w₁ w₂ = .ok r' ∧ Covers r' r = true := by
  unfold Value.mul at ho ⊢
  rw [binMarks_eq] at ho ⊢
  obtain ⟨r0, h0, rfl⟩ := res_map_ok ho
  obtain ⟨r', h1, h2⟩ := mulU_sound_zero o₁.unmark o₂.unmark w₁.unmark w₂.unmark r0
    (by rw [whollyKnown_unmark]; exact hk₁) (by rw [whollyKnown_unmark]; exact hk₂)
    (flat_unmark (wfc_flat hf₁)) (flat_unmark (wfc_flat hf₂)) (flat_unmark (wfc_flat hg₁)) (flat_unmark (wfc_flat hg₂))
    (by rw [coversX_unmark_left, coversX_unmark_right]; exact hc₁)
    (by rw [coversX_unmark_left, coversX_unmark_right]; exact hc₂) hz h0
  refine ⟨_, by rw [h1]; rfl, ?_⟩
  by_cases ha : (o₁.isMarked || o₂.isMarked) = true <;> by_cases hb : (w₁.isMarked || w₂.isMarked) = true <;>
    simp_all [covers_withMarks_left, covers_withMarks_right]

/-- the zero exit as the code has it: a zero held at 64 bits (`NumberIntVal(0)`, not
the package value `cty.Zero`) times an unrefined unknown number, times `DynamicVal`
and times a null of the dynamic pseudo-type is the known `cty.Zero`; so is
`DynamicVal` times an unknown number confined to `[0, 0]` (regression cases of the
harness, `c01.go`) -/
theorem mul_zero_exit_examples :
    Value.mul (intVal 0) ⟨.number, .unk .unref⟩ = .ok zeroVal ∧
    Value.mul ⟨.dyn, .unk .unref⟩ (intVal 0) = .ok zeroVal ∧
    Value.mul (intVal 0) ⟨.dyn, .null⟩ = .ok zeroVal ∧
    -- through the corner products: `DynamicVal` times an unknown confined to [0, 0]
    Value.mul ⟨.dyn, .unk .unref⟩ ⟨.number, .unk (.num .u (some ⟨Num.ofInt 0, true⟩) (some ⟨Num.ofInt 0, true⟩))⟩
      = .ok zeroVal ∧
    -- but not with a number-typed unknown: the corner −∞ · 0 panics and is caught
    Value.mul ⟨.number, .unk .unref⟩ ⟨.number, .unk (.num .u (some ⟨Num.ofInt 0, true⟩) (some ⟨Num.ofInt 0, true⟩))⟩
      = .ok unkNumNotNull := ⟨by rfl, by rfl, by rfl, by rfl, by rfl⟩

/-! ## The scope of the three theorems, as the driver evaluates it

`D01.inScope op o₁ o₂ w₁ w₂` (CtyModel/d01Side.lean, executable, core-only) collects
EVERY hypothesis of `sound_add_partial` / `sound_sub_partial` / `sound_mul_partial`.
The harness asks the driver for it on every paired Add / Subtract / Multiply run
(`judge.c01.scope`): the distribution in/out is part of the evidence, and a run that
is in scope and fails the search predicate on the real code is reported as a
contradiction of the theorem (never matched with a recorded finding). -/
theorem in_scope_sound (o₁ o₂ w₁ w₂ r : Value) :
    (D01.inScope "add" o₁ o₂ w₁ w₂ = some true → Value.add o₁ o₂ = .ok r →
      ∃ r', Value.add w₁ w₂ = .ok r' ∧ Covers r' r = true) ∧
    (D01.inScope "sub" o₁ o₂ w₁ w₂ = some true → Value.sub o₁ o₂ = .ok r →
      ∃ r', Value.sub w₁ w₂ = .ok r' ∧ Covers r' r = true) ∧
    (D01.inScope "mul" o₁ o₂ w₁ w₂ = some true → Value.mul o₁ o₂ = .ok r →
      ∃ r', Value.mul w₁ w₂ = .ok r' ∧ Covers r' r = true) := by
  refine ⟨?_, ?_, ?_⟩ <;> intro h ho <;>
    simp only [D01.inScope, D01.common, Option.some.injEq, Bool.and_eq_true] at h <;>
    obtain ⟨⟨⟨⟨⟨⟨⟨⟨k1, k2⟩, f1⟩, f2⟩, g1⟩, g2⟩, c1⟩, c2⟩, hs⟩ := h
  · rw [D01.sideAdd_eq] at hs
    exact sound_add_partial o₁ o₂ w₁ w₂ r k1 k2 f1 f2 g1 g2 c1 c2 hs ho
  · rw [D01.sideSub_eq] at hs
    exact sound_sub_partial o₁ o₂ w₁ w₂ r k1 k2 f1 f2 g1 g2 c1 c2 hs ho
  · rw [D01.sideMul_eq] at hs
    simp only [Bool.and_eq_true] at hs
    exact sound_mul_partial o₁ o₂ w₁ w₂ r k1 k2 f1 f2 g1 g2 c1 c2 hs.1.1 hs.1.2 hs.2 ho

/-- the same for Length (`judge.c01.scope1 length`) -/
theorem in_scope_length_sound (o w r : Value) (h : D01.inScopeLength o w = true) (ho : Value.length o = .ok r) :
    ∃ r', Value.length w = .ok r' ∧ Covers r' r = true := by
  simp only [D01.inScopeLength, Bool.and_eq_true, Bool.or_eq_true, Bool.not_eq_true'] at h
  obtain ⟨⟨⟨⟨⟨k, f⟩, g⟩, d⟩, c⟩, cx⟩ := h
  rw [D01.setCountOK_eq] at c
  refine sound_length_partial o w r k f g (fun ht => ?_) c cx ho
  rcases d with d | d
  · rw [ht] at d; simp [Ty.isDyn] at d
  · exact d

/-! ## Second deepening (slice d01b): sets with members weakened in place, operands of
object / map type replaced as a whole, the infinite ends of number ranges -/

/-- HasElement, the set's MEMBERS weakened in place (at any depth, to unknowns of any
refinement), the needle kept: the weakened call cannot fail and its answer admits the
concrete one — including weakened sets that store MORE members than the set they stand
for (`CoversX` on sets is a surjection from the stored members onto the concrete
members: several stand-ins may coalesce).  A definite True comes from a stored member
that `Equals` the needle; the member it stands for then `Equals` the needle too.  A
definite False only comes from a wholly known set.  Members of a fragment type (`eqTy`:
primitives, lists, tuples, nested; `wtAll`/`wt`: payloads as the type dictates, numbers
integers).  `D01b.hashCoh` (decidable; the one fact about hashing, property C03's
subject): a member that `Equals` the needle sits in the bucket the needle hashes to —
in the concrete set and in the weakened set. -/
theorem sound_hasElement_members_partial (s el ws r : Value) {e : Ty} {ids ids' : List Int} {vs wvs : List Payload}
    {x : Payload} {h : Int}
    (hs : s.unmark = ⟨.set e, .sset ids vs⟩) (hw : ws.unmark = ⟨.set e, .sset ids' wvs⟩) (hel : el.unmarkDeep = ⟨e, x⟩)
    (he : eqTy e = true) (hvs : wtAll e vs = true) (hws : wtAll e wvs = true) (hx : wt e x = true)
    (kx : x.whollyKnown = true) (kvs : Payload.whollyKnownL vs = true)
    (hl : ids.length = vs.length) (hl' : ids'.length = wvs.length) (hc : CoversX ws s = true)
    (hh : D01b.hashCoh e x h ids vs = true) (hh' : D01b.hashCoh e x h ids' wvs = true)
    (ho : Value.hasElement s el (some h) = .ok r) : ∃ r', Value.hasElement ws el (some h) = .ok r' ∧ Covers r' r = true :=
  D01b.hasElement_sound_members s el ws r hs hw hel he hvs hws hx kx kvs hl hl' hc hh hh' ho

/-- the instance: `{1, 2}` stored as THREE members `{unknown ≥ 1, 2, unknown}` (two
stand-ins coalesce); needle 2 is found (True, as in the concrete set); needle 1 is not
found among the known members, and the answer is "unknown", which admits True.  All
hypotheses of the theorem hold of it. -/
theorem sound_hasElement_members_examples :
    Value.hasElement ⟨.set .number, .sset [1, 2] [.n (Num.ofInt 1), .n (Num.ofInt 2)]⟩ (intVal 2) (some 2) = .ok (boolVal true) ∧
    Value.hasElement ⟨.set .number, .sset [0, 2, 5] [.unk (.num .f (some ⟨Num.ofInt 1, true⟩) none), .n (Num.ofInt 2), .unk .unref]⟩
      (intVal 2) (some 2) = .ok (boolVal true) ∧
    Value.hasElement ⟨.set .number, .sset [0, 2, 5] [.unk (.num .f (some ⟨Num.ofInt 1, true⟩) none), .n (Num.ofInt 2), .unk .unref]⟩
      (intVal 1) (some 1) = .ok unkBool ∧
    CoversX ⟨.set .number, .sset [0, 2, 5] [.unk (.num .f (some ⟨Num.ofInt 1, true⟩) none), .n (Num.ofInt 2), .unk .unref]⟩
      ⟨.set .number, .sset [1, 2] [.n (Num.ofInt 1), .n (Num.ofInt 2)]⟩ = true ∧
    D01b.hashCoh .number (.n (Num.ofInt 2)) 2 [1, 2] [.n (Num.ofInt 1), .n (Num.ofInt 2)] = true ∧
    D01b.hashCoh .number (.n (Num.ofInt 2)) 2 [0, 2, 5] [.unk (.num .f (some ⟨Num.ofInt 1, true⟩) none), .n (Num.ofInt 2), .unk .unref] = true ∧
    wtAll .number [.unk (.num .f (some ⟨Num.ofInt 1, true⟩) none), .n (Num.ofInt 2), .unk .unref] = true :=
  ⟨by rfl, by rfl, by rfl, by decide, by decide, by decide, by decide⟩

/-- Equals on two sets of one type whose MEMBERS are weakened in place (stand-ins that
coalesce included): the weakened call cannot fail, and — each weakened set being the set
itself or holding a member that is not wholly known — its answer ("unknown" in the
second case, `equals_set_never_definite`) admits the concrete answer.  A weakened set
ALL of whose members are wholly known is the concrete set in every case cty can build
(a set holds no two equivalent members, property C06); that case is the hypothesis
`w = o`. -/
theorem sound_equals_set_partial (o₁ o₂ w₁ w₂ r : Value) {e : Ty} {ix iy jx jy : List Int} {xs ys xs0 ys0 : List Payload}
    (hk₁ : o₁.whollyKnown = true) (hk₂ : o₂.whollyKnown = true)
    (he : eqTy e = true) (ht₁ : w₁.ty = .set e) (ht₂ : w₂.ty = .set e)
    (hp₁ : w₁.v.stripMarks = .sset ix xs) (hp₂ : w₂.v.stripMarks = .sset iy ys)
    (hq₁ : o₁.v.stripMarks = .sset jx xs0) (hq₂ : o₂.v.stripMarks = .sset jy ys0)
    (hl₁ : ix.length = xs.length) (hl₂ : iy.length = ys.length)
    (hwx : wtAll e xs = true) (hwy : wtAll e ys = true) (hwx0 : wtAll e xs0 = true) (hwy0 : wtAll e ys0 = true)
    (hk : (w₁ = o₁ ∧ w₂ = o₂) ∨ Payload.whollyKnownL xs = false ∨ Payload.whollyKnownL ys = false)
    (hc₁ : CoversX w₁ o₁ = true) (hc₂ : CoversX w₂ o₂ = true) (ho : Value.equals o₁ o₂ = .ok r) :
    ∃ r', Value.equals w₁ w₂ = .ok r' ∧ Covers r' r = true := by
  have k1 : Payload.whollyKnownL xs0 = true := by
    have : o₁.v.stripMarks.whollyKnown = true := by rw [wk_stripMarks]; exact hk₁
    rw [hq₁] at this; simpa [Payload.whollyKnown] using this
  have k2 : Payload.whollyKnownL ys0 = true := by
    have : o₂.v.stripMarks.whollyKnown = true := by rw [wk_stripMarks]; exact hk₂
    rw [hq₂] at this; simpa [Payload.whollyKnown] using this
  simp only [CoversX, CoversG, Bool.and_eq_true, hp₁, hp₂, hq₁, hq₂, Cov.coversP] at hc₁ hc₂
  exact D01b.equals_sound_sets o₁ o₂ w₁ w₂ r he ht₁ ht₂ hp₁ hp₂ hl₁ hl₂ ⟨hwx, hwx0, k1, hc₁.2⟩ ⟨hwy, hwy0, k2, hc₂.2⟩ hk ho

/-- the instance: `{1, 2}` against `{1, 2}` is True; with the first set stored as three
members, two of them unknown, the answer is "unknown" -/
theorem sound_equals_set_examples :
    Value.equals ⟨.set .number, .sset [1, 2] [.n (Num.ofInt 1), .n (Num.ofInt 2)]⟩
      ⟨.set .number, .sset [1, 2] [.n (Num.ofInt 1), .n (Num.ofInt 2)]⟩ = .ok (boolVal true) ∧
    Value.equals ⟨.set .number, .sset [0, 2, 5] [.unk (.num .f (some ⟨Num.ofInt 1, true⟩) none), .n (Num.ofInt 2), .unk .unref]⟩
      ⟨.set .number, .sset [1, 2] [.n (Num.ofInt 1), .n (Num.ofInt 2)]⟩ = .ok unkBool :=
  ⟨by rfl, by rfl⟩

/-- Equals with an operand of OBJECT type replaced AS A WHOLE by an unknown of its type
(unrefined, or refined with nullness: `D01b.EqObjWhole`) — either operand or both, the
other kept, weakened in place (`EqObjWeak`) or replaced as well: the answer is
"unknown".  (Lists and tuples replaced as a whole are inside `sound_equals_partial`.) -/
theorem sound_equals_object_whole_partial (o₁ o₂ w₁ w₂ r : Value) (hk₁ : o₁.whollyKnown = true) (hk₂ : o₂.whollyKnown = true)
    (hf₁ : EqObjOperand o₁) (hf₂ : EqObjOperand o₂) (hty : o₁.ty = o₂.ty)
    (hw₁ : EqObjWeak w₁ o₁ ∨ D01b.EqObjWhole w₁ o₁) (hw₂ : EqObjWeak w₂ o₂ ∨ D01b.EqObjWhole w₂ o₂)
    (hc₁ : CoversX w₁ o₁ = true) (hc₂ : CoversX w₂ o₂ = true) (ho : Value.equals o₁ o₂ = .ok r) :
    ∃ r', Value.equals w₁ w₂ = .ok r' ∧ Covers r' r = true :=
  D01b.equals_sound_object_whole o₁ o₂ w₁ w₂ r hk₁ hk₂ hf₁ hf₂ hty hw₁ hw₂ hc₁ hc₂ ho

/-- … of MAP type, where the unknown may also carry length bounds
(`D01b.EqMapWhole`): the answer is "unknown", or False when the bounds exclude the
length of the other map — and then the two concrete maps differ in length. -/
theorem sound_equals_map_whole_partial (o₁ o₂ w₁ w₂ r : Value) (hk₁ : o₁.whollyKnown = true) (hk₂ : o₂.whollyKnown = true)
    (hf₁ : EqMapOperand o₁) (hf₂ : EqMapOperand o₂) (hty : o₁.ty = o₂.ty)
    (hw₁ : EqMapWeak w₁ o₁ ∨ D01b.EqMapWhole w₁ o₁) (hw₂ : EqMapWeak w₂ o₂ ∨ D01b.EqMapWhole w₂ o₂)
    (hc₁ : CoversX w₁ o₁ = true) (hc₂ : CoversX w₂ o₂ = true) (ho : Value.equals o₁ o₂ = .ok r) :
    ∃ r', Value.equals w₁ w₂ = .ok r' ∧ Covers r' r = true :=
  D01b.equals_sound_map_whole o₁ o₂ w₁ w₂ r hk₁ hk₂ hf₁ hf₂ hty hw₁ hw₂ hc₁ hc₂ ho

/-- instances: an object against an unknown object; a map of one element against "an
unknown map of 2 to 3 elements" (False, and the map it stands for has two) -/
theorem sound_equals_whole_examples :
    Value.equals ⟨.object ["a"] [.number] [false], .smap ["a"] [.n (Num.ofInt 1)]⟩
      ⟨.object ["a"] [.number] [false], .unk (.nullable .f)⟩ = .ok unkBool ∧
    Value.equals ⟨.map .number, .smap ["k"] [.n (Num.ofInt 4)]⟩ ⟨.map .number, .unk (.coll .f 2 3)⟩ = .ok (boolVal false) ∧
    Value.equals ⟨.map .number, .smap ["k"] [.n (Num.ofInt 4)]⟩
      ⟨.map .number, .smap ["j", "k"] [.n (Num.ofInt 4), .n (Num.ofInt 4)]⟩ = .ok (boolVal false) ∧
    CoversX ⟨.map .number, .unk (.coll .f 2 3)⟩ ⟨.map .number, .smap ["j", "k"] [.n (Num.ofInt 4), .n (Num.ofInt 4)]⟩ = true :=
  ⟨by rfl, by rfl, by rfl, by decide⟩
example : D01b.EqMapWhole ⟨.map .number, .unk (.coll .f 2 3)⟩ ⟨.map .number, .smap ["j", "k"] [.n (Num.ofInt 4), .n (Num.ofInt 4)]⟩ :=
  ⟨rfl, _, rfl, rfl⟩
example : D01b.EqObjWhole ⟨.object ["a"] [.number] [false], .unk (.nullable .f)⟩
    ⟨.object ["a"] [.number] [false], .smap ["a"] [.n (Num.ofInt 1)]⟩ := ⟨rfl, _, rfl, rfl⟩

/-- The infinite ends of number ranges: an unknown number refined WITHOUT a lower bound
admits −∞ (and one without an upper bound +∞) — `ValueRange.Includes` does not answer
False for it, `Equals` against it (either way round) is "unknown", and the specification
`Covers` agrees.  `otherEndAbove` / `otherEndBelow` (decidable): the other end is absent
or a bound the infinity does not reach — every finite bound.  (An absent bound reported
as an EXCLUSIVE infinity would answer False: the seeded change
C01-unbounded-number-range-end-reported-exclusive.) -/
theorem absent_bound_admits_infinity (nl : Tri) (b : Option Bound) (hnl : nl ≠ .t) :
    (D01b.otherEndAbove b = true →
      includes ⟨.number, .num nl none b⟩ ⟨.number, .n (.inf true)⟩ = .ok none ∧
      Covers ⟨.number, .unk (.num nl none b)⟩ ⟨.number, .n (.inf true)⟩ = true ∧
      Value.equals ⟨.number, .unk (.num nl none b)⟩ ⟨.number, .n (.inf true)⟩ = .ok unkBool ∧
      Value.equals ⟨.number, .n (.inf true)⟩ ⟨.number, .unk (.num nl none b)⟩ = .ok unkBool) ∧
    (D01b.otherEndBelow b = true →
      includes ⟨.number, .num nl b none⟩ ⟨.number, .n (.inf false)⟩ = .ok none ∧
      Covers ⟨.number, .unk (.num nl b none)⟩ ⟨.number, .n (.inf false)⟩ = true ∧
      Value.equals ⟨.number, .unk (.num nl b none)⟩ ⟨.number, .n (.inf false)⟩ = .ok unkBool ∧
      Value.equals ⟨.number, .n (.inf false)⟩ ⟨.number, .unk (.num nl b none)⟩ = .ok unkBool) := by
  refine ⟨fun h => ?_, fun h => ?_⟩
  · have hi := D01b.includes_no_lower_bound nl b hnl h
    have he := D01b.equals_unknown_number_of_includes (.num nl none b) (.inf true) (by simp) hi
    exact ⟨hi, D01b.covers_no_lower_bound nl b hnl h, he.1, he.2⟩
  · have hi := D01b.includes_no_upper_bound nl b hnl h
    have he := D01b.equals_unknown_number_of_includes (.num nl b none) (.inf false) (by simp) hi
    exact ⟨hi, D01b.covers_no_upper_bound nl b hnl h, he.1, he.2⟩

/-- instances: "a number ≤ 5" against −∞ and "a number > 0" against +∞ are unknown; a
range that HAS the bound on that side still excludes the infinity -/
theorem absent_bound_examples :
    D01b.otherEndAbove (some ⟨Num.ofInt 5, true⟩) = true ∧ D01b.otherEndBelow (some ⟨Num.ofInt 0, false⟩) = true ∧
    Value.equals ⟨.number, .unk (.num .u none (some ⟨Num.ofInt 5, true⟩))⟩ ⟨.number, .n (.inf true)⟩ = .ok unkBool ∧
    Value.equals ⟨.number, .unk (.num .f (some ⟨Num.ofInt 0, false⟩) none)⟩ ⟨.number, .n (.inf false)⟩ = .ok unkBool ∧
    Value.equals ⟨.number, .unk (.num .f (some ⟨Num.ofInt 0, false⟩) none)⟩ ⟨.number, .n (.inf true)⟩ = .ok (boolVal false) :=
  ⟨by decide, by decide, by rfl, by rfl, by rfl⟩

/-- the same for HasElement with the needle kept (`judge.c01.scopeHas`):
`D01b.inScopeHasMembers` (CtyModel/d01bSide.lean, executable, core-only) collects EVERY
hypothesis of `sound_hasElement_members_partial`; the harness asks the driver for it on
every paired HasElement run whose needle is kept and that is outside
`sound_hasElement_partial`. -/
theorem in_scope_hasElement_members_sound (s el ws r : Value) (eh : Option Int)
    (h : D01b.inScopeHasMembers s el ws eh = true) (ho : Value.hasElement s el eh = .ok r) :
    ∃ r', Value.hasElement ws el eh = .ok r' ∧ Covers r' r = true :=
  D01b.inScopeHasMembers_sound s el ws r eh h ho

/-- the predicate holds of the three-member stand-in for `{1, 2}` above -/
example : D01b.inScopeHasMembers ⟨.set .number, .sset [1, 2] [.n (Num.ofInt 1), .n (Num.ofInt 2)]⟩ (intVal 2)
    ⟨.set .number, .sset [0, 2, 5] [.unk (.num .f (some ⟨Num.ofInt 1, true⟩) none), .n (Num.ofInt 2), .unk .unref]⟩ (some 2) = true := by
  decide

/-! ## Non-vacuity -/
example : Weaken ⟨.number, .n (Num.ofInt 5)⟩ ⟨.number, .unk (.num .f (some ⟨Num.ofInt 5, true⟩) none)⟩ :=
  .inside (.toUnk (by
    refine ⟨by decide, Num.ofInt 5, rfl, ?_, ?_⟩
    · intro b hb; cases hb; decide
    · intro b hb; cases hb))
example : CoversX ⟨.list .number, .seq [.unk (.num .f (some ⟨Num.ofInt 1, false⟩) none), .n (Num.ofInt 2)]⟩
    ⟨.list .number, .seq [.n (Num.ofInt 2), .n (Num.ofInt 2)]⟩ = true := by decide
example : EqOperand ⟨.tuple [.number, .list .bool], .seq [.n (Num.ofInt 3), .seq [.b true]]⟩ := ⟨by decide, by decide⟩
example : (⟨.list .number, .seq [.n (Num.ofInt 2)]⟩ : Value).wfc = true := by decide
/-- the side condition of `sound_add_partial` holds for ordinary bounds: unknown in [1, 5] plus 2 -/
example : CornerSafeAdd ⟨.number, .unk (.num .f (some ⟨Num.ofInt 1, true⟩) (some ⟨Num.ofInt 5, false⟩))⟩ (intVal 2)
    (intVal 3) (intVal 2) = true := by decide
/-- … and for sums that ARE rounded, all at one precision: unknown ≥ 0.1₅₃ standing for 0.1₅₃, plus 0.5₅₃
(the former side condition `CornerExactAdd` fails here: audit C01 item 2) -/
example : CornerSafeAdd ⟨.number, .unk (.num .f (some ⟨.fin false 3602879701896397 (-55) 53, true⟩) none)⟩
      ⟨.number, .n (.fin false 1 (-1) 53)⟩ ⟨.number, .n (.fin false 3602879701896397 (-55) 53)⟩ ⟨.number, .n (.fin false 1 (-1) 53)⟩ = true ∧
    CornerExactAdd ⟨.number, .unk (.num .f (some ⟨.fin false 3602879701896397 (-55) 53, true⟩) none)⟩
      ⟨.number, .n (.fin false 1 (-1) 53)⟩ ⟨.number, .n (.fin false 3602879701896397 (-55) 53)⟩ ⟨.number, .n (.fin false 1 (-1) 53)⟩ = false := by
  decide
/-- … and of `sound_mul_partial`: unknown in [-3, 5] times unknown in [2, 4]; unknown ≥ 1 times 2; an unrefined
unknown times 2 (where the former side condition `CornerExactMul` fails: audit C01 item 1) -/
example : CohMul ⟨.number, .unk (.num .f (some ⟨Num.ofInt (-3), true⟩) (some ⟨Num.ofInt 5, true⟩))⟩
      ⟨.number, .unk (.num .f (some ⟨Num.ofInt 2, true⟩) (some ⟨Num.ofInt 4, false⟩))⟩ = true ∧
    CohMul ⟨.number, .unk (.num .u (some ⟨Num.ofInt 1, true⟩) none)⟩ (intVal 2) = true ∧
    CohMul ⟨.number, .unk .unref⟩ (intVal 2) = true ∧
    CornerExactMul ⟨.number, .unk .unref⟩ (intVal 2) (intVal 3) (intVal 2) = false := by decide
/-- … with its second side condition (an unknown in [0, 0] standing for the zero it must be) -/
example : ZeroBoundsNumber ⟨.number, .unk (.num .u (some ⟨Num.ofInt 0, true⟩) (some ⟨Num.ofInt 0, true⟩))⟩ (intVal 0) = true ∧
    zeroBounded ⟨.number, .unk (.num .u (some ⟨Num.ofInt 0, true⟩) (some ⟨Num.ofInt 0, true⟩))⟩ = true := by decide
/-- … and of `sound_mul_zero`: 0 (at 64 bits) times an unknown number standing for -7 -/
example : (rawEqualsZero (intVal 0).unmark || rawEqualsZero (⟨.number, .unk .unref⟩ : Value).unmark) = true ∧
    CoversX ⟨.number, .unk .unref⟩ (intVal (-7)) = true := by decide

/-! ## The same soundness statements about the REGENERATED operation methods

`Generated/OpsFns.lean` is rewritten from cty/value_ops.go by `extract/translate_ops.go` on every check (marks prologue,
`typeCheck` short circuit, range shortcuts of `LessThan` / `GreaterThan`, the unknown results of `Negate` / `Absolute` /
`Divide` as written in the source); `Lemmas/OpsFnsTie.lean` proves each translated method equal to the hand-written one. -/

/-- `sound_not … sound_div` for the translated methods. -/
theorem sound_generated :
    Sound₁ Generated.OpsFns.Value_Not ∧ Sound₂ Generated.OpsFns.Value_And ∧ Sound₂ Generated.OpsFns.Value_Or ∧
    Sound₂ Generated.OpsFns.Value_LessThan ∧ Sound₂ Generated.OpsFns.Value_GreaterThan ∧
    Sound₁ Generated.OpsFns.Value_Negate ∧ Sound₁ Generated.OpsFns.Value_Absolute ∧ Sound₂ Generated.OpsFns.Value_Divide :=
  ⟨OpsFnsTie.sound₁_transfer OpsFnsTie.not_eq sound_not, OpsFnsTie.sound₂_transfer OpsFnsTie.and_eq sound_and,
   OpsFnsTie.sound₂_transfer OpsFnsTie.or_eq sound_or, OpsFnsTie.sound₂_transfer OpsFnsTie.lt_eq sound_lessThan,
   OpsFnsTie.sound₂_transfer OpsFnsTie.gt_eq sound_greaterThan, OpsFnsTie.sound₁_transfer OpsFnsTie.neg_eq sound_neg,
   OpsFnsTie.sound₁_transfer OpsFnsTie.abs_eq sound_abs, OpsFnsTie.sound₂_transfer OpsFnsTie.div_eq sound_div⟩

end C01
end CtyModel
