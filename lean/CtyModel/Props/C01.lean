/-
C01 — Operations on unknown values are sound approximations, never spontaneous.
(work in progress: theorems are added family by family)
-/
import CtyModel.Lemmas.CoversBasic
namespace CtyModel
namespace C01
open Value

/-- Marks play no part in `Covers` (they are property C04's subject). -/
theorem covers_ignores_marks (w o : Value) (ms ms' : List String) :
    Covers (w.withMarks ms) (o.withMarks ms') = Covers w o := by
  rw [covers_withMarks_left, covers_withMarks_right]

end C01
end CtyModel
