/-
C05 — Refinements only narrow, are faithful, and prefixes are continuation-safe.

Property theorems only; helper lemmas live in `CtyModel/Lemmas/Refine*.lean`.
Every statement is about `Refine.init`, `Refine.step`, `Refine.run`,
`Refine.newValue`, `Refine.range` and `Refine.safeKnownPrefix` — the
transliterations of `Value.Refine`, the `RefinementBuilder` methods, `NewValue`,
`Value.Range` and `ctystrings.SafeKnownPrefix` that the correspondence harness
diffs against /repo on every run — and about the SPECIFICATION written next to
them in plain set vocabulary:

* `Conc`   a concrete value as far as a refinement can tell values apart
           (null, a number, a string, a collection of some length, anything else);
* `γ t r`  the concrete values an unknown value of type `t` with refinement `r` admits;
           `γB b` for a builder, `γV v` for a value (a known value admits itself);
* `den c`  ⟦c⟧, the concrete values that satisfy one stated constraint.

The theorems hold for ALL receivers, ALL call sequences (induction over
`List RefineCall`), all numbers (any precision, ±∞).  `Res.ok` is "the Go call
returned"; a Go panic is `Res.panic`.

THE EQUALITY ORACLE.  The builder compares numbers with `Value.Equals`, which for
two non-integers compares math/big's shortest decimal texts.  The model takes the
answer from a parameter `[EqOracle]`:

* theorems without an oracle hypothesis (`[EqOracle]` only) hold for every oracle,
  in particular for `textOracle` = the code as it is;
* theorems with `[ExactOracle]` need the oracle to be exact wherever it answers
  (`ExactOracle.exact`, a law as a structure field, no axiom).  `partialOracle`
  (exact comparison; no answer for two non-integers of the same sign and
  different precision) is an instance, and is diffed against the code too;
* `textOracle` is NOT exact: `…_text_counterexample` theorems show the full
  statements fail for it — the recorded finding `builder-number-compare
  [inexact-number-equals]` (0.1 held at two precisions prints as "0.1" twice).

* THE BRIDGE (section "THE BRIDGE" below): on integers and infinities of any precisions
  `rawNumberEqual` never consults the text and IS exact comparison; there `run`, `newValue`,
  `refine` give the same outcome under `textOracle`, `partialOracle` and the total exact
  oracle `D05.idealOracle`, so the `[ExactOracle]` theorems hold FOR THE CODE'S ORACLE
  (`…_code_integers`); the harness diffs the code against the model under `idealOracle`
  on exactly those inputs (`rfn.runi`).  For two non-integers of equal precision the partial
  oracle answers too, but the agreement with the code there is searched (`rfn.runx`), not proved.

Full statements that are false of the code are kept as `def … : Prop` with a
`…_partial` theorem and `…_counterexample` theorems (witnesses = replays of the
recorded findings).
-/
import CtyModel.Lemmas.RefineBase
import CtyModel.Lemmas.RefinePrefix
import CtyModel.Generated.Delims
import CtyModel.Lemmas.RefineFnsTie
import CtyModel.Lemmas.d05Bridge
import CtyModel.Lemmas.d05Chain
import CtyModel.Lemmas.d05Prefix
import CtyModel.Lemmas.d05Range
import CtyModel.Lemmas.d05With
import CtyModel.Lemmas.d05bBridge
import CtyModel.Lemmas.d05bLen
import CtyModel.Lemmas.d05bInf
import CtyModel.Lemmas.d05bKnownChain
import CtyModel.Lemmas.d05bNull
namespace CtyModel
namespace C05
open Refine

/-! ## "never changes its type" -/

/-- Refining a value never changes its type — for every receiver, every call
sequence and every equality oracle (so: for the code as it is). -/
theorem type_preserved [EqOracle] (v w : Value) (cs : List RefineCall) (h : refine v cs = .ok w) :
    w.ty = v.ty := by
  obtain ⟨b, b', hi, hr, hn⟩ := refine_ok_any h
  obtain ⟨ho, _, _, _, _⟩ := init_ok hi
  rw [newValue_ty_any hn, (run_base_any hr).1.1, ho]; rfl

/-- … and no accepted call touches the value being refined or its marks. -/
theorem step_keeps_receiver [EqOracle] (b b' : Builder) (cs : List RefineCall) (h : run b cs = .ok b') :
    b'.orig = b.orig ∧ b'.marks = b.marks := (run_base_any h).1

/-! ## "never widens its range" -/

/-- FULL STATEMENT: γ after ⊆ γ before, for every call sequence on every builder. -/
def Narrows (O : EqOracle) : Prop :=
  ∀ (b b' : Builder) (cs : List RefineCall), @run O b cs = .ok b' → ∀ x, γB b' x = true → γB b x = true

/-- It holds whenever number equality is exact: a concrete value excluded before
stays excluded. -/
theorem narrows_partial [E : ExactOracle] : Narrows E.toEqOracle :=
  fun _ _ _ h x hx => (run_base h).2.2 x hx

/-- It fails for the code's text-based equality: with `x < 0.1₈` recorded (0.1 held
at 8 bits = 0.10009765625), `NumberRangeUpperBound(0.1₄, false)` (0.1 held at 4 bits
= 0.1015625, a LOOSER bound) replaces it, because both print as "0.1" — and 0.1₈
itself, excluded before, is admitted after.  Finding `builder-number-compare
[inexact-number-equals]`; on the real code e.g.
`UnknownVal(Number).Refine().NumberRangeUpperBound(ParseNumberVal("0.1"), false).NewValue()
 .Refine().NumberRangeUpperBound(NumberFloatVal(0.1), false)`. -/
theorem narrows_text_counterexample : ¬ Narrows textOracle := by
  intro h
  have := h ⟨⟨.number, .unk .unref⟩, [], .num .u none (some ⟨.fin false 205 (-11) 8, false⟩)⟩
    ⟨⟨.number, .unk .unref⟩, [], .num .u none (some ⟨.fin false 13 (-7) 4, false⟩)⟩
    [.numUpper (.known (.fin false 13 (-7) 4)) false] (by rfl) (.num (.fin false 205 (-11) 8)) (by decide)
  revert this
  decide

/-- The same between the value refined and the value returned by `NewValue`, for
every receiver (unknown, already refined, known, marked, `cty.DynamicVal`). -/
theorem refine_narrows [ExactOracle] (v w : Value) (cs : List RefineCall) (h : refine v cs = .ok w) (x : Conc)
    (hx : γV w x = true) : γV v x = true := by
  obtain ⟨b, b', hi, hr, hn⟩ := refine_ok h
  obtain ⟨ho, _, hwf, hm, _⟩ := init_ok hi
  obtain ⟨hs, hw', hnar⟩ := run_base hr
  have hm' : b'.orig.v.isMarked = false := by rw [hs.1]; exact hm
  by_cases hk : b'.orig.isKnown = true
  · -- known receiver: the value itself comes back
    rw [newValue_known hk] at hn; simp at hn; subst hn
    rw [γV_withMarks hm', hs.1, ho, γV_unmark] at hx; exact hx
  · by_cases hd : b'.isDyn = true
    · rw [newValue_dyn hd] at hn; simp at hn; subst hn
      rw [γV_withMarks hm', hs.1, ho, γV_unmark] at hx; exact hx
    · have hk' : b'.orig.isKnown = false := by simpa using hk
      rw [(newValue_exact (hw' hwf) hk' (by simpa using hd) hn).2] at hx
      exact init_γ_le hi (by rw [← ho, ← hs.1]; exact hk') x (hnar x hx)

/-! ## "a value satisfying every constraint stated so far stays admitted; the
reported range is exactly what the stated constraints imply" -/

/-- FULL STATEMENT: every accepted call turns the admitted set into exactly
`γ b ∩ ⟦c⟧`.  (`cty.DynamicVal` is excluded by the property itself, see
`dynamic_ignores`.)  False for every oracle: see `exact_counterexample`. -/
def Exact (O : EqOracle) : Prop :=
  ∀ (b b' : Builder) (c : RefineCall), b.isDyn = false → @step O b c = .ok b' →
    ∀ x, γB b' x = (γB b x && den c x)

/-- The strongest part that holds, when number equality is exact:
`γ (step b c) = γ b ∩ ⟦c⟧` at every concrete value except the single point where
a *dropped* bound bites (`RefineCall.droppedAt`: the call is
`NumberRangeLowerBound(cty.NegativeInfinity, false)` and the value is −∞, or the
mirror image). -/
theorem exact_partial [ExactOracle] (b b' : Builder) (c : RefineCall) (hd : b.isDyn = false)
    (h : step b c = .ok b') (x : Conc) (hx : c.droppedAt x = false) : γB b' x = (γB b x && den c x) := by
  have e := (step_effect hd h).2.2.2
  split at e
  · rename_i hdrop
    rw [e x, den_dropped hdrop hx, Bool.and_true]
  · exact e x

/-- … in particular for every call that is not of the dropped shape. -/
theorem exact_of_not_dropped [ExactOracle] (b b' : Builder) (c : RefineCall) (hd : b.isDyn = false)
    (hc : c.dropped = false) (h : step b c = .ok b') (x : Conc) : γB b' x = (γB b x && den c x) :=
  exact_partial b b' c hd h x (by
    cases hx : c.droppedAt x
    · rfl
    · rw [droppedAt_dropped hx] at hc; cases hc)

/-- The recorded finding `exact [exclusive-singleton-infinity-dropped]`, for every oracle:
`cty.UnknownVal(cty.Number).Refine().NumberRangeLowerBound(cty.NegativeInfinity, false)`
is accepted and records nothing, although the constraint excludes −∞. -/
theorem exact_counterexample (O : EqOracle) : ¬ Exact O := by
  intro h
  have := h ⟨⟨.number, .unk .unref⟩, [], .num .u none none⟩ ⟨⟨.number, .unk .unref⟩, [], .num .u none none⟩
    (.numLower .negInf false) rfl rfl (.num (.inf true))
  revert this
  decide

/-- Whole call sequences: when no call has the dropped shape (and equality is exact),
the admitted set is exactly what the receiver admitted intersected with every
stated constraint. -/
theorem run_exact_partial [ExactOracle] (b b' : Builder) (cs : List RefineCall) (hd : b.isDyn = false)
    (hc : cs.all (fun c => !c.dropped) = true) (h : run b cs = .ok b') (x : Conc) :
    γB b' x = (γB b x && cs.all (fun c => den c x)) := (run_effect hd h).2.2.2.2 hc x

/-- End to end, on values: refining an unknown value (refined or not) returns a
value that admits exactly the concrete values the receiver admitted which satisfy
every stated constraint — be the result unknown or collapsed to a known value.
(`x.fits`: a concrete collection has at most `math.MaxInt` elements.) -/
theorem refine_exact_partial [ExactOracle] (v w : Value) (cs : List RefineCall)
    (hk : v.unmark.isKnown = false) (hd : isDynVal v.unmark = false)
    (hc : cs.all (fun c => !c.dropped) = true) (h : refine v cs = .ok w) (x : Conc) (hx : x.fits = true) :
    γV w x = (γV v x && cs.all (fun c => den c x)) := by
  obtain ⟨b, b', hi, hr, hn⟩ := refine_ok h
  obtain ⟨ho, _, hwf, _, _⟩ := init_ok hi
  have hd' : b.isDyn = false := by unfold Builder.isDyn; rw [ho]; exact hd
  obtain ⟨hs, hw', _, _, hex⟩ := run_effect hd' hr
  rw [(newValue_exact (hw' hwf) (by rw [hs.1, ho]; exact hk)
    (by rw [Builder.isDyn_congr hs]; exact hd') hn).2, hex hc x, init_γ hi hk x hx]

/-- END TO END, in one statement: what a caller reads off `Range()` of the value returned by
`v.Refine().<calls>.NewValue()` — be it still unknown, collapsed to a known value, or null — admits exactly the
concrete values the receiver admitted that satisfy every stated constraint: `γV v ∩ ⋂ ⟦c⟧`.
(`ValueRange.admitsN` = the accessors `CouldBeNull`, `NumberLowerBound`/`UpperBound`, `StringPrefix`,
`LengthLowerBound`/`UpperBound`, and "definitely null" as `Includes` reads it; exact number equality; no call of
the dropped shape.) -/
theorem refine_range_exact [ExactOracle] (v w : Value) (cs : List RefineCall)
    (hk : v.unmark.isKnown = false) (hd : isDynVal v.unmark = false)
    (hc : cs.all (fun c => !c.dropped) = true) (h : refine v cs = .ok w) :
    ∃ vr, range w.unmark = .ok vr ∧ vr.ty = v.ty ∧
      ∀ x, x.fits = true → vr.admitsN x = (γV v x && cs.all (fun c => den c x)) := by
  obtain ⟨b, b', hi, hr, hn⟩ := refine_ok h
  obtain ⟨ho, _, hwf, _, _⟩ := init_ok hi
  have hd' : b.isDyn = false := by unfold Builder.isDyn; rw [ho]; exact hd
  obtain ⟨hs, hw', _, _, hex⟩ := run_effect hd' hr
  obtain ⟨vr, h1, h2, h3⟩ := D05.newValue_range_exact (hw' hwf) (by rw [hs.1, ho]; exact hk)
    (by rw [Builder.isDyn_congr hs]; exact hd') hn
  refine ⟨vr, h1, by rw [h2, hs.1, ho]; rfl, fun x hx => ?_⟩
  rw [h3 x hx, hex hc x, init_γ hi hk x hx]

/-- `Range()` reports exactly what was recorded, for every oracle: the accessors of
the returned value's range (`CouldBeNull`, `NumberLowerBound`/`UpperBound` with
inclusiveness, `StringPrefix`, `LengthLowerBound`/`UpperBound`) admit exactly the
concrete values the builder's record admits.  An absent bound is reported as an
inclusive infinity (repairs bb8bc8c, bc44d9b). -/
theorem range_reports_exact [EqOracle] (b : Builder) (w : Value) (hw : b.wf = true)
    (hk : b.orig.isKnown = false) (hd : b.isDyn = false) (h : newValue b = .ok w) (hu : w.isKnown = false) :
    ∃ vr, range w.unmark = .ok vr ∧ vr.ty = b.orig.ty ∧ ∀ x, x.fits = true → vr.admits x = γB b x := by
  have hkind : kindOk b.orig.ty b.wip = true := by
    unfold Builder.wf at hw
    simp only [Bool.and_eq_true, Bool.or_eq_true, hk, Bool.false_eq_true, false_or] at hw
    exact hw.2
  obtain ⟨hunm, hnn⟩ := newValue_unknown_any hk hd h hu
  obtain ⟨vr, h1, h2, h3⟩ := range_admits hkind hnn
  exact ⟨vr, by rw [hunm]; exact h1, h2, fun x hx => h3 x hx⟩

/-! ## "a constraint that contradicts … earlier constraints is rejected rather than accepted" -/

/-- FULL STATEMENT: a range constraint (anything but `NotNull`/`Null`) that leaves
no non-null value, where the receiver admitted one, is not accepted.  False for
every oracle: see the counterexamples. -/
def RejectsContradiction (O : EqOracle) : Prop :=
  ∀ (b : Builder) (c : RefineCall), b.wf = true → b.wip.lenOk = true → c.isRange = true →
    (∃ x, x ≠ .null ∧ γB b x = true) → (∀ x, x ≠ .null → (γB b x && den c x) = false) →
    ∀ b', @step O b c ≠ .ok b'

/-- The strongest part that holds, when number equality is exact: every
contradiction is rejected (the call panics — or the oracle gives no answer) unless
the new constraint is an *exclusive* bound at an infinity
(`RefineCall.exclusiveInfinite`).  Covers exclusive-versus-inclusive ties, the
empty open interval `5 < x < 5`, incompatible prefixes, crossing length bounds,
and both halves of `NumberRangeInclusive` / `CollectionLength`. -/
theorem rejects_contradiction_partial [ExactOracle] (b : Builder) (c : RefineCall) (hw : b.wf = true)
    (hl : b.wip.lenOk = true) (hr : c.isRange = true) (hx : c.exclusiveInfinite = false)
    (h1 : ∃ x, x ≠ .null ∧ γB b x = true) (h2 : ∀ x, x ≠ .null → (γB b x && den c x) = false)
    (b' : Builder) : step b c ≠ .ok b' := step_rejects hw hl hr hx h1 h2 b'

/-- The recorded finding `rejects-contradiction [exclusive-infinite-bound]`, for every oracle:
`cty.UnknownVal(cty.Number).Refine().NumberRangeUpperBound(cty.NegativeInfinity, false)`
(x < −∞) is accepted although no number satisfies it. -/
theorem rejects_contradiction_counterexample (O : EqOracle) : ¬ RejectsContradiction O := by
  intro h
  refine h ⟨⟨.number, .unk .unref⟩, [], .num .u none none⟩ (.numUpper .negInf false) rfl rfl rfl
    ⟨.num (.inf true), by decide, by decide⟩ ?_
    ⟨⟨.number, .unk .unref⟩, [], .num .u none (some ⟨.inf true, false⟩)⟩ rfl
  intro x _
  cases x with
  | num y =>
    have : belowUpper (some ⟨.inf true, false⟩) y = false := by
      cases hb : belowUpper (some ⟨.inf true, false⟩) y
      · rfl
      · exact absurd (Le.negInf y) (belowUpper_excl.mp hb).not_le
    simp [den, argUpper, this]
  | null => exact absurd rfl ‹_›
  | _ => rfl

/-- The same finding seen through the dropped bound (`exact
[exclusive-singleton-infinity-dropped]`): after `x ≤ −∞` the constraint
`x > cty.NegativeInfinity` is accepted, because it is never recorded. -/
theorem rejects_contradiction_counterexample_dropped (O : EqOracle) : ¬ RejectsContradiction O := by
  intro h
  refine h ⟨⟨.number, .unk .unref⟩, [], .num .u none (some ⟨.inf true, true⟩)⟩ (.numLower .negInf false) rfl rfl rfl
    ⟨.num (.inf true), by decide, by decide⟩ ?_
    ⟨⟨.number, .unk .unref⟩, [], .num .u none (some ⟨.inf true, true⟩)⟩ rfl
  intro x _
  cases x with
  | num y =>
    cases hb : belowUpper (some ⟨.inf true, true⟩) y
    · simp [γB, γ, rangeOk, hb]
    · have hy : y = .inf true := by
        have h1 := belowUpper_incl.mp hb
        have h2 := Le.negInf y
        exact (NumCmp.cmp_negInf_eq y).mp (le_antisymm_iff.mpr ⟨h1, h2⟩)
      subst hy
      decide
  | null => exact absurd rfl ‹_›
  | _ => rfl

/-- Repair 04d8485 in the form of a theorem, for every oracle: after `x > m` (and no
upper bound yet) the constraint `x < m` is not accepted — it used to be (finding #8
of the design document: `5 < x < 5`). -/
theorem open_point_interval_rejected [EqOracle] (b b' : Builder) (n : Tri) (m : Num)
    (hw : b.wip = .num n (some ⟨m, false⟩) none) (hd : b.isDyn = false) :
    step b (.numUpper (.known m) false) ≠ .ok b' := by
  intro h
  unfold step at h
  rw [hd] at h
  simp only [Bool.false_eq_true, if_false, hw, reduceCtorEq, step1] at h
  obtain ⟨n', lo', hi', hw', hcase⟩ := stepNumUpper_ok h
  rw [hw] at hw'; cases hw'
  rcases hcase with ⟨hu, _⟩ | ⟨m', hm', hcore⟩
  · cases hu
  · simp only [NumArg.num?, Option.some.injEq] at hm'; subst hm'
    obtain ⟨_, hc⟩ := upperCore_ok hcore
    rcases hc with ⟨_, ht⟩ | ⟨_, _, hcons⟩
    · simp [upperTighter?] at ht
    · have : (NumArg.known m != NumArg.posInf) = true := rfl
      rw [this] at hcons
      simp [consistent?] at hcons
      exact Lt.irrefl m (lt_iff.mp hcons)

/-- `Null()` on a receiver that does not admit null is not accepted … -/
theorem rejects_null_contradiction [ExactOracle] (b b' : Builder) (hd : b.isDyn = false)
    (h : γB b .null = false) : step b .null ≠ .ok b' := step_null_rejects hd h b'

/-- … and `NotNull()` on a receiver that admits no non-null value although its
recorded range is satisfiable (that is: a receiver that is definitely null) is
not accepted. -/
theorem rejects_notNull_contradiction [ExactOracle] (b b' : Builder) (hd : b.isDyn = false)
    (h1 : ∃ x, x ≠ .null ∧ Conc.kindOk b.orig.ty x = true ∧ rangeOk b.wip x = true)
    (h2 : ∀ x, x ≠ .null → γB b x = false) : step b .notNull ≠ .ok b' :=
  step_notNull_rejects hd h1 h2 b'

/-- Both nullness contradictions FOR EVERY ORACLE (so for the code as it is), and with the stronger conclusion: the
call PANICS.  (Neither call compares numbers; the `[ExactOracle]` of the two theorems above is not needed.) -/
theorem nullness_contradiction_panics [EqOracle] (b : Builder) (hd : b.isDyn = false) :
    (γB b .null = false → ∃ w, step b .null = .panic w) ∧
    ((∃ x, x ≠ .null ∧ Conc.kindOk b.orig.ty x = true ∧ rangeOk b.wip x = true) →
      (∀ x, x ≠ .null → γB b x = false) → ∃ w, step b .notNull = .panic w) :=
  ⟨D05b.step_null_panics hd, D05b.step_notNull_panics hd⟩

/-! ## "the result becomes a known value only if that value admits exactly what
the refinement admitted" -/

/-- FULL STATEMENT: whatever `NewValue` returns for an unknown receiver admits exactly
the concrete values the record admitted. -/
def NewValueExact (O : EqOracle) : Prop :=
  ∀ (b : Builder) (w : Value), b.wf = true → b.orig.isKnown = false → b.isDyn = false →
    @newValue O b = .ok w → ∀ x, γV w x = γB b x

/-- It holds when number equality is exact: an unknown value carrying the record, or
a known value (null; the number of two equal inclusive bounds; the empty
list/set/map; a list of n unknown elements; a set of one unknown element) — each
admits exactly what the record admitted. -/
theorem newValue_known_exact [E : ExactOracle] : NewValueExact E.toEqOracle :=
  fun _ _ hw hk hd h x => (newValue_exact hw hk hd h).2 x

/-- It fails for the code's text-based equality: the record `0.1₄ ≤ x ≤ 0.1₈`, not
null, admits nothing (0.1₄ = 0.1015625 > 0.1₈ = 0.10009765625), yet `NewValue`
returns the known number 0.1₄, because the bounds print alike.  (Such a record
arises on the real code: the consistency check uses the same equality.)  Finding
`builder-number-compare [inexact-number-equals]`. -/
theorem newValue_text_counterexample : ¬ NewValueExact textOracle := by
  intro h
  have := h ⟨⟨.number, .unk .unref⟩, [],
      .num .f (some ⟨.fin false 13 (-7) 4, true⟩) (some ⟨.fin false 205 (-11) 8, true⟩)⟩
    ⟨.number, .n (.fin false 13 (-7) 4)⟩ rfl rfl rfl (by rfl) (.num (.fin false 13 (-7) 4))
  revert this
  decide

/-- The collapses the code performs, for every oracle.  Definitely null → the null value. -/
theorem newValue_null [EqOracle] (b : Builder) (hk : b.orig.isKnown = false) (hd : b.isDyn = false)
    (hn : b.wip.nullness = .t) : newValue b = .ok ((Value.null b.orig.ty).withMarks b.marks) := by
  unfold newValue
  simp only [hk, hd, Bool.or_self, Bool.false_eq_true, if_false]
  cases hw : b.wip <;> rw [hw] at hn <;> simp [Rfn.nullness] at hn <;> simp [Rfn.nullness, hn]

/-- Not null, inclusive bounds that `Equals` calls equal → the lower bound. -/
theorem newValue_point [EqOracle] (b : Builder) (m m' : Num) (hk : b.orig.isKnown = false)
    (hd : b.isDyn = false) (hw : b.wip = .num .f (some ⟨m, true⟩) (some ⟨m', true⟩))
    (he : numEq? m m' = some true) :
    newValue b = .ok ((⟨b.orig.ty, .n m⟩ : Value).withMarks b.marks) := by
  unfold newValue
  simp [hk, hd, hw, Rfn.nullness, collapse, he]

/-- Not null, length exactly n ≥ 0, a list → the list of n unknown elements (empty for n = 0). -/
theorem newValue_list_length [EqOracle] (b : Builder) (e : Ty) (n : Nat) (hk : b.orig.isKnown = false)
    (hd : b.isDyn = false) (ht : b.orig.ty = .list e) (hw : b.wip = .coll .f n n) :
    newValue b = .ok ((⟨.list e, .seq (List.replicate n (.unk .unref))⟩ : Value).withMarks b.marks) := by
  unfold newValue
  cases n with
  | zero => simp [hk, hd, hw, ht, Rfn.nullness, collapse]
  | succ k =>
    have h1 : ((k : Int) + 1 = 0) = False := by simp; omega
    have h2 : ((k : Int) + 1 < 0) = False := by simp; omega
    simp [hk, hd, hw, ht, Rfn.nullness, collapse, h1, h2]

/-- Not null, length exactly 0 or 1, a set → the empty set / the set of one unknown element;
not null, length exactly 0, a map → the empty map. -/
theorem newValue_set_map_length [EqOracle] (b : Builder) (e : Ty) (hk : b.orig.isKnown = false)
    (hd : b.isDyn = false) :
    (b.orig.ty = .set e → b.wip = .coll .f 0 0 →
      newValue b = .ok ((⟨.set e, .sset [] []⟩ : Value).withMarks b.marks)) ∧
    (b.orig.ty = .set e → b.wip = .coll .f 1 1 →
      newValue b = .ok ((⟨.set e, .sset [unknownBucket] [.unk .unref]⟩ : Value).withMarks b.marks)) ∧
    (b.orig.ty = .map e → b.wip = .coll .f 0 0 →
      newValue b = .ok ((⟨.map e, .smap [] []⟩ : Value).withMarks b.marks)) := by
  refine ⟨fun ht hw => ?_, fun ht hw => ?_, fun ht hw => ?_⟩ <;>
    (unfold newValue; simp [hk, hd, hw, ht, Rfn.nullness, collapse])

/-! ## "the type-unknown dynamic value ignores refinement" -/

/-- Refining `cty.DynamicVal` — marked or not, with any calls, also calls that would
panic on every other receiver, whatever the oracle — returns `cty.DynamicVal` with the
same marks; and every single call leaves the builder as it was. -/
theorem dynamic_ignores [EqOracle] (v : Value) (cs : List RefineCall) (hd : isDynVal v.unmark = true) :
    refine v cs = .ok (v.unmark.withMarks v.marks) ∧
    ∀ (b : Builder) (c : RefineCall), b.isDyn = true → step b c = .ok b :=
  ⟨refine_dyn_any v cs hd, fun _ c hb => step_dyn_any hb c⟩

/-! ## "a constraint that contradicts a known value … is rejected rather than accepted" -/

/-- FULL STATEMENT: refining a known value — if the call sequence is accepted, the
receiver comes back (its marks restored) and every call of the sequence holds of
it.  `x` is the concrete value the receiver stands for (a set with unknown members
stands for none). -/
def KnownIsAssertion (O : EqOracle) : Prop :=
  ∀ (v w : Value) (cs : List RefineCall) (x : Conc), v.unmark.isKnown = true → concOf v.unmark = some x →
    @refine O v cs = .ok w → w = v.unmark.withMarks v.marks ∧ cs.all (fun c => den c x) = true

/-- It holds when number equality is exact. -/
theorem known_is_assertion [E : ExactOracle] : KnownIsAssertion E.toEqOracle :=
  fun _ _ _ _ hk hx h => refine_known hk hx h

/-- It fails for the code's text-based equality: the known number 0.1₈ (0.10009765625
held at 8 bits) accepts the assertion `x > 0.10009765625` stated with the same number
held at 12 bits — the two print differently ("0.1" / "0.1001"), so `Equals` says they
differ and `>=` is not "known true".  Finding `builder-number-compare
[inexact-number-equals]`. -/
theorem known_is_assertion_text_counterexample : ¬ KnownIsAssertion textOracle := by
  intro h
  have := (h ⟨.number, .n (.fin false 205 (-11) 8)⟩ ⟨.number, .n (.fin false 205 (-11) 8)⟩
    [.numLower (.known (.fin false 3280 (-15) 12)) false] (.num (.fin false 205 (-11) 8)) rfl rfl (by rfl)).2
  revert this
  decide

/-- The part that holds for every oracle: an accepted sequence returns the receiver itself. -/
theorem known_returned_unchanged [EqOracle] (v w : Value) (cs : List RefineCall) (hk : v.unmark.isKnown = true)
    (hm : v.v.isMarked = true → v.marks ≠ []) (h : refine v cs = .ok w) : w = v := by
  obtain ⟨b, b', hi, hr, hn⟩ := refine_ok_any h
  obtain ⟨ho, hmk, _, hmm, _⟩ := init_ok hi
  obtain ⟨hs, _, _⟩ := run_base_any hr
  rw [newValue_known_any (by rw [hs.1, ho]; exact hk)] at hn
  simp at hn
  rw [← hn, hs.1, hs.2, ho, hmk]
  exact withMarks_unmark_self (by rw [← ho]; exact hmm) hm

/-- The contrapositive of `known_is_assertion`: a sequence containing a call the known
value violates is not accepted (it panics at or before that call).  With repair 3781f27
this includes a prefix longer than the known string. -/
theorem known_violation_rejected [ExactOracle] (v : Value) (cs : List RefineCall) (x : Conc)
    (hk : v.unmark.isKnown = true) (hx : concOf v.unmark = some x)
    (hv : cs.any (fun c => !den c x) = true) (w : Value) : refine v cs ≠ .ok w := by
  intro h
  have := (refine_known hk hx h).2
  simp only [List.any_eq_true, List.all_eq_true, Bool.not_eq_eq_eq_not, Bool.not_true] at hv this
  obtain ⟨c, hc, hf⟩ := hv
  rw [this c hc] at hf; cases hf

/-- The converse ("a call that holds of the known value is accepted") is NOT part of
the property and is false for every oracle: a range call on a known *null* number
panics (`min.GreaterThan(null)`), although range constraints say nothing about null. -/
theorem known_assertion_converse_counterexample (O : EqOracle) :
    ¬ (∀ (v : Value) (cs : List RefineCall) (x : Conc), v.unmark.isKnown = true → concOf v.unmark = some x →
        cs.all (fun c => den c x) = true → (@refine O v cs).isPanic = false) := by
  intro h
  have := h ⟨.number, .null⟩ [.numLower (.known (.fin false 0 0 64)) true] .null rfl rfl rfl
  have hp : (@refine O ⟨.number, .null⟩ [.numLower (.known (.fin false 0 0 64)) true]).isPanic = true := rfl
  rw [hp] at this
  cases this

/-! ## "a string prefix recorded through the safe constructor is a byte prefix of the
normalized form of every string that extends the given prefix" -/

/-- Structural, for any delimiter table and any answers of the Unicode libraries:
`SafeKnownPrefix(p)` is a byte prefix of NFC(p) … -/
theorem safePrefix_is_prefix (delims nfc : List UInt8) (lastBoundary : Int) (advances : List Nat) :
    safeKnownPrefix delims nfc lastBoundary advances <+: nfc :=
  safeKnownPrefix_prefix delims nfc lastBoundary advances

/-- … and never extends beyond the last normalisation boundary, when there is one. -/
theorem safePrefix_le_lastBoundary (delims nfc : List UInt8) (lastBoundary : Int) (advances : List Nat)
    (h : 0 ≤ lastBoundary) :
    (safeKnownPrefix delims nfc lastBoundary advances).length ≤ lastBoundary.toNat :=
  safeKnownPrefix_length_le delims nfc lastBoundary advances h

/-- Hence, under the streaming law of normalisation `E.lastBoundary_stable` (a field of
`Ext`, probed against x/text on every run): the safe prefix of `p` is a byte prefix of
NFC(p ++ c) for EVERY continuation `c`.  (When NFC(p) has no normalisation boundary at all,
`lastBoundary = −1`, this law says nothing; see `safePrefix_noBoundary_shape` and
`safePrefix_continuation_safe_all` below for that case.) -/
theorem safePrefix_continuation_safe (E : Ext) (delims p c : List UInt8)
    (h : 0 ≤ E.lastBoundary (E.nfc p)) : E.safe delims p <+: E.nfc (p ++ c) :=
  E.safe_continuation delims p c h

/-- In the vocabulary of refinements: the constraint `StringPrefix(p)` records holds of
every string that extends `p`. -/
theorem safePrefix_constraint_holds (E : Ext) (delims p c : List UInt8) (s : String)
    (hs : bytes s = E.safe delims p) (h : 0 ≤ E.lastBoundary (E.nfc p)) :
    den (.stringPrefix s) (.str (E.nfc (p ++ c))) = true := by
  simp only [den, hs]
  exact List.isPrefixOf_iff_prefix.mpr (E.safe_continuation delims p c h)

/-! ### … also when the prefix has no normalisation boundary at all (`LastBoundary = −1`)

A prefix made only of characters that may combine backwards (combining marks, Hangul vowel / trailing jamo, …) — the
alphabet the property singles out.  The boundary cut is skipped and only the grapheme scan decides. -/

/-- Structural, for any ASCII delimiter table and any scanner answers: on a normalised prefix without ASCII bytes
the delimiter exception cannot fire; the result is the text before the LAST cluster the scanner reported, and
nothing at all when it reported a single one. -/
theorem safePrefix_noBoundary_shape (delims nfc : List UInt8) (advances : List Nat)
    (hd : ∀ d ∈ delims, d < 128) (hn : ∀ b ∈ nfc, 128 ≤ b) :
    safeKnownPrefix delims nfc (-1) advances = nfc.take (scanLoop advances nfc.length 0 0).1 ∧
    ((scanLoop advances nfc.length 0 0).1 = 0 → safeKnownPrefix delims nfc (-1) advances = []) :=
  ⟨D05.safeKnownPrefix_noBoundary delims nfc advances hd hn,
   D05.safeKnownPrefix_noBoundary_single delims nfc advances hd hn⟩

/-- What holds in the no-boundary case WITHOUT any law of the Unicode libraries: when the scanner reports the whole
prefix as ONE grapheme cluster (a base-less run of combining marks, a lone Hangul vowel/trailing jamo sequence, …)
nothing is recorded, and the empty prefix is a prefix of every string: continuation safety is unconditional there.
With two or more clusters and no normalisation boundary the recorded prefix is the text before the last cluster
(`safePrefix_noBoundary_shape`), and its safety rests on the probed laws `D05.ExtNB.lastClusterStart_stable` and `noBoundary_nonascii`
(`safePrefix_continuation_safe_all`) — that case is searched (probed on every run), not proved. -/
theorem safePrefix_noBoundary_single_cluster_safe (delims nfc : List UInt8) (advances : List Nat)
    (hd : ∀ d ∈ delims, d < 128) (hn : ∀ b ∈ nfc, 128 ≤ b) (h1 : (scanLoop advances nfc.length 0 0).1 = 0)
    (t : List UInt8) : safeKnownPrefix delims nfc (-1) advances <+: t := by
  rw [(safePrefix_noBoundary_shape delims nfc advances hd hn).2 h1]
  exact List.nil_prefix

/-- Continuation safety for EVERY prefix and every continuation — boundary or not — for the delimiter table of the
source, under the laws of `D05.ExtNB`: the streaming law (as before), "an ASCII byte is a normalisation boundary",
and "without a normalisation boundary, the text before the last scanned grapheme cluster is stable" (all three
fields, probed against x/text and textseg on every run; satisfiable with the no-boundary case occurring:
`D05.ExtNB.toy`). -/
theorem safePrefix_continuation_safe_all (E : D05.ExtNB) (p c : List UInt8) :
    E.toExt.safe delimiters p <+: E.nfc (p ++ c) :=
  E.safe_continuation_all delimiters (by decide) p c

/-- In the vocabulary of refinements, without the side condition of `safePrefix_constraint_holds`: the constraint
that `StringPrefix(p)` records holds of every string that extends `p`. -/
theorem safePrefix_constraint_holds_all (E : D05.ExtNB) (p c : List UInt8) (s : String)
    (hs : bytes s = E.toExt.safe delimiters p) : den (.stringPrefix s) (.str (E.nfc (p ++ c))) = true := by
  simp only [den, hs]
  exact List.isPrefixOf_iff_prefix.mpr (safePrefix_continuation_safe_all E p c)

/-- The caller's prefix, end to end (audit item: `⟦StringPrefix⟧` is defined on the string that was RECORDED): after
an accepted `StringPrefix(p)` — recording `s = SafeKnownPrefix(p)` — every string `NFC(p ++ c)` that extends the
caller's prefix and was admitted before is still admitted. -/
theorem stringPrefix_keeps_every_continuation [ExactOracle] (E : D05.ExtNB) (b b' : Builder) (p c : List UInt8)
    (s : String) (hs : bytes s = E.toExt.safe delimiters p) (hd : b.isDyn = false)
    (h : step b (.stringPrefix s) = .ok b') (hx : γB b (.str (E.nfc (p ++ c))) = true) :
    γB b' (.str (E.nfc (p ++ c))) = true := by
  rw [exact_partial b b' _ hd h _ rfl, hx, safePrefix_constraint_holds_all E p c s hs]; rfl

-- non-vacuity: in the toy instance the prefix [200, 201] has no boundary, and a non-empty safe prefix
example : D05.ExtNB.toy.lastBoundary (D05.ExtNB.toy.nfc [200, 201]) = -1 ∧
    D05.ExtNB.toy.toExt.safe delimiters [200, 201] = [200] := by decide

/-! ## Non-vacuity: the hypotheses used above are satisfiable by non-trivial values -/

/-- an unknown number already refined to `[1, +∞)` -/
def sampleNum : Builder := ⟨⟨.number, .unk .unref⟩, ["m"], .num .u (some ⟨.fin false 1 0 64, true⟩) none⟩
/-- an unknown list of strings refined to length ≥ 2 -/
def sampleList : Builder := ⟨⟨.list .string, .unk .unref⟩, [], .coll .u 2 maxInt⟩

example : sampleNum.wf = true ∧ sampleNum.isDyn = false ∧ sampleNum.orig.isKnown = false ∧
    sampleList.wf = true ∧ sampleList.wip.lenOk = true := by decide

-- an exact oracle exists and answers on integers, on equal precisions and on infinities
example : (exactPartialOracle.eq (.fin false 3 0 64) (.fin false 3 0 512)) = some true ∧
    (exactPartialOracle.eq (.fin false 1 (-1) 53) (.fin false 3 (-2) 53)) = some false := by decide

-- `exact_partial`, `narrows_partial`: an accepted, non-dropped call
example : (RefineCall.numUpper (.known (.fin false 3 0 64)) false).dropped = false ∧
    @step exactPartialOracle.toEqOracle sampleNum (.numUpper (.known (.fin false 3 0 64)) false) =
      .ok { sampleNum with wip := .num .u (some ⟨.fin false 1 0 64, true⟩) (some ⟨.fin false 3 0 64, false⟩) } :=
  ⟨rfl, rfl⟩

-- `rejects_contradiction_partial`: length ≥ 2 recorded, `CollectionLengthUpperBound(1)` leaves nothing
example : (RefineCall.lenUpper 1).isRange = true ∧ (RefineCall.lenUpper 1).exclusiveInfinite = false ∧
    (∃ x, x ≠ .null ∧ γB sampleList x = true) ∧
    (∀ x, x ≠ .null → (γB sampleList x && den (.lenUpper 1) x) = false) := by
  refine ⟨rfl, rfl, ⟨.coll 2, by decide, by decide⟩, fun x _ => ?_⟩
  cases x with
  | coll k =>
    simp [γB, γ, sampleList, rangeOk, den, Conc.kindOk, nullOk]
    omega
  | null => exact absurd rfl ‹_›
  | _ => rfl

-- `range_reports_exact`, `newValue_known_exact`: `NewValue` returns, and the result is unknown
example : ∃ w, @newValue textOracle sampleNum = .ok w ∧ w.isKnown = false := ⟨_, rfl, rfl⟩

-- `refine_range_exact`: an unknown number; a chain that collapses to the known number 2 (the bounds held at 64 and
-- 512 bits), and one that stays unknown — both accepted, no call of the dropped shape
example : @refine exactPartialOracle.toEqOracle ⟨.number, .unk .unref⟩
      [.notNull, .numRangeInclusive (.known (.fin false 1 1 64)) (.known (.fin false 1 1 512))] =
      .ok ⟨.number, .n (.fin false 1 1 64)⟩ ∧
    (@refine exactPartialOracle.toEqOracle ⟨.number, .unk .unref⟩
      [.numLower (.known (.fin false 1 1 64)) false]).isOk = true := ⟨rfl, rfl⟩

-- `known_is_assertion`: the known number 2 with two assertions that hold of it
example : concOf ⟨.number, .n (.fin false 1 1 64)⟩ = some (.num (.fin false 1 1 64)) ∧
    (@refine exactPartialOracle.toEqOracle ⟨.number, .n (.fin false 1 1 64)⟩
      [.numLower (.known (.fin false 1 0 64)) false, .notNull]).isOk = true := by
  decide

-- `rejects_null_contradiction`, `rejects_notNull_contradiction`: a receiver that is definitely not null / definitely null
-- (recorded range satisfiable) — the hypotheses hold and the calls panic under the code's oracle
/-- an unknown number known to be null -/
def sampleNull : Builder := ⟨⟨.number, .unk .unref⟩, [], .num .t none none⟩
example : γB { sampleNum with wip := .num .f none none } .null = false ∧
    (@step textOracle { sampleNum with wip := .num .f none none } .null).isPanic = true := by decide
example : (∃ x, x ≠ .null ∧ Conc.kindOk sampleNull.orig.ty x = true ∧ rangeOk sampleNull.wip x = true) ∧
    (∀ x, x ≠ .null → γB sampleNull x = false) ∧ (@step textOracle sampleNull .notNull).isPanic = true := by
  refine ⟨⟨.num (.fin false 0 0 64), by decide, by decide, by decide⟩, fun x hx => ?_, by decide⟩
  cases x <;> first | exact absurd rfl hx | rfl

-- `known_violation_rejected`: the known number 2 violates `x ≥ 3`; the chain panics
example : concOf ⟨.number, .n (.fin false 1 1 64)⟩ = some (.num (.fin false 1 1 64)) ∧
    [RefineCall.notNull, .numLower (.known (.fin false 3 0 64)) true].any (fun c => !den c (.num (.fin false 1 1 64))) = true ∧
    (@refine textOracle ⟨.number, .n (.fin false 1 1 64)⟩ [.notNull, .numLower (.known (.fin false 3 0 64)) true]).isPanic = true := by
  decide

-- the streaming law is satisfiable, with a boundary present
example : 0 ≤ Ext.inert.lastBoundary (Ext.inert.nfc [97, 45]) := by decide


/-! ## THE BRIDGE: the theorems above, for the code's own number equality

The theorems marked `[ExactOracle]` are about an idealised equality.  The code's `Value.Equals` on numbers is
`rawNumberEqual` (`textOracle`), which consults math/big's shortest decimal text only for two non-integers of the
same sign.  On integers and infinities — of ANY precisions, mixed freely — it never does, and there it IS exact
comparison (`code_equality_exact_on_integers`); the whole builder then behaves identically under the code's oracle,
the partial oracle and the total exact oracle `D05.idealOracle` (`run_code_eq_exact`, `refine_code_eq_exact`:
same value, same panic), so every `[ExactOracle]` theorem transfers to what the driver actually runs
(`rfn.run`; the harness also diffs the code against `rfn.runi`, the model under `idealOracle`, on exactly these
inputs).  `D05.builderOk P b` / `D05.callOk P c` / `D05.valueOk P v`: every number the builder, the call, the value
carries satisfies `P`.  The general form, for any class `P` of numbers on which `rawNumberEqual` is exact
(`D05.TextExactOn P`), is `D05.run_congr` … in `Lemmas/d05Bridge.lean`. -/
section Bridge
open D05

/-- The audit's missing lemma, on integers and infinities: the code's equality is exact comparison, and it is the
answer of the partial oracle (which does answer there: `needsText = false`). -/
theorem code_equality_exact_on_integers (a b : Num) (ha : intLike a = true) (hb : intLike b = true) :
    textOracle.eq a b = some (Num.cmp a b == 0) ∧ needsText a b = false ∧ textOracle.eq a b = numEqPartial a b :=
  ⟨agree_text_ideal intLike_textExact a b ha hb, intLike_needsText ha,
   agree_text_partial intLike_textExact (fun _ _ h _ => intLike_needsText h) a b ha hb⟩

/-- FULL STATEMENT of the bridge as the audit put it: wherever the partial oracle answers, the code's equality gives
the same answer.  Not proved and not refuted for numbers in normal form (two non-integers of equal precision and
sign: it would need "math/big's shortest decimal text is injective at a fixed precision"); FALSE of the model on a
mantissa that is not in normal form, which the wire codec never delivers — see the counterexample. -/
def OracleBridge : Prop := ∀ a b, needsText a b = false → textOracle.eq a b = numEqPartial a b

/-- the model's `isInt` reads the exponent, so 2 written as 4·2⁻¹ is "not an integer" for `rawEqual` (an artefact of
the representation, not of the code: `Num.mk` and the codec deliver odd mantissas) -/
theorem oracle_bridge_counterexample : ¬ OracleBridge := by
  intro h
  have := h (.fin false 4 (-1) 53) (.fin false 1 1 64) (by decide)
  revert this
  decide

/-- The strongest part proved: the bridge on integers and infinities (`code_equality_exact_on_integers`), i.e. for
every pair the text is not consulted for. -/
theorem oracle_bridge_partial (a b : Num) (ha : intLike a = true) (hb : intLike b = true) :
    needsText a b = false ∧ textOracle.eq a b = numEqPartial a b :=
  (code_equality_exact_on_integers a b ha hb).2

/-- Agreement of whole chains: on integer inputs the code's oracle, the partial oracle and the total exact oracle
give the SAME outcome of `run` — accepted builder, panic, everything. -/
theorem run_code_eq_exact (b : Builder) (cs : List RefineCall) (hb : builderOk intLike b = true)
    (hc : cs.all (callOk intLike) = true) :
    @run textOracle b cs = @run idealOracle b cs ∧ @run textOracle b cs = @run partialOracle b cs :=
  ⟨run_congr (agree_text_ideal intLike_textExact) hb hc,
   run_congr (agree_text_partial intLike_textExact (fun _ _ h _ => intLike_needsText h)) hb hc⟩

/-- … and of `v.Refine().<calls>.NewValue()`. -/
theorem refine_code_eq_exact (v : Value) (cs : List RefineCall) (hv : valueOk intLike v = true)
    (hc : cs.all (callOk intLike) = true) :
    @refine textOracle v cs = @refine idealOracle v cs ∧ @refine textOracle v cs = @refine partialOracle v cs :=
  ⟨refine_congr (agree_text_ideal intLike_textExact) hv hc,
   refine_congr (agree_text_partial intLike_textExact (fun _ _ h _ => intLike_needsText h)) hv hc⟩

/-- Accepted calls keep the builder's numbers integers (so the hypothesis of the theorems below is about the
receiver and the arguments only). -/
theorem run_keeps_integers [EqOracle] (b b' : Builder) (cs : List RefineCall) (h : run b cs = .ok b')
    (hb : builderOk intLike b = true) (hc : cs.all (callOk intLike) = true) : builderOk intLike b' = true :=
  run_numsOk h hb hc

/-- "never widens its range" FOR THE CODE'S ORACLE on integer inputs: `Narrows textOracle`, which is false in
general (`narrows_text_counterexample`), holds for every builder and call sequence whose numbers are integers or
infinities, of any precisions. -/
theorem narrows_code_integers (b b' : Builder) (cs : List RefineCall) (hb : builderOk intLike b = true)
    (hc : cs.all (callOk intLike) = true) (h : @run textOracle b cs = .ok b') (x : Conc)
    (hx : γB b' x = true) : γB b x = true :=
  @narrows_partial exactIdealOracle b b' cs ((run_code_eq_exact b cs hb hc).1 ▸ h) x hx

/-- … between the value refined and the value returned. -/
theorem refine_narrows_code_integers (v w : Value) (cs : List RefineCall) (hv : valueOk intLike v = true)
    (hc : cs.all (callOk intLike) = true) (h : @refine textOracle v cs = .ok w) (x : Conc)
    (hx : γV w x = true) : γV v x = true :=
  @refine_narrows exactIdealOracle v w cs ((refine_code_eq_exact v cs hv hc).1 ▸ h) x hx

/-- `γ (step b c) = γ b ∩ ⟦c⟧` FOR THE CODE'S ORACLE on integer inputs (at every concrete value `x`, integer or
not, except where a dropped bound bites). -/
theorem exact_code_integers (b b' : Builder) (c : RefineCall) (hd : b.isDyn = false)
    (hb : builderOk intLike b = true) (hc : callOk intLike c = true) (h : @step textOracle b c = .ok b') (x : Conc)
    (hx : c.droppedAt x = false) : γB b' x = (γB b x && den c x) :=
  @exact_partial exactIdealOracle b b' c hd
    ((step_congr (agree_text_ideal intLike_textExact) hb hc) ▸ h) x hx

/-- End to end FOR THE CODE'S ORACLE on integer inputs: the value returned admits exactly what the receiver admitted
intersected with every stated constraint. -/
theorem refine_exact_code_integers (v w : Value) (cs : List RefineCall) (hk : v.unmark.isKnown = false)
    (hd : isDynVal v.unmark = false) (hdr : cs.all (fun c => !c.dropped) = true)
    (hv : valueOk intLike v = true) (hc : cs.all (callOk intLike) = true)
    (h : @refine textOracle v cs = .ok w) (x : Conc) (hx : x.fits = true) :
    γV w x = (γV v x && cs.all (fun c => den c x)) :=
  @refine_exact_partial exactIdealOracle v w cs hk hd hdr ((refine_code_eq_exact v cs hv hc).1 ▸ h) x hx

/-- The end-to-end statement FOR THE CODE'S ORACLE on integer inputs: `Range()` of the value the code returns
admits exactly `γV v ∩ ⋂ ⟦c⟧`. -/
theorem refine_range_exact_code_integers (v w : Value) (cs : List RefineCall) (hk : v.unmark.isKnown = false)
    (hd : isDynVal v.unmark = false) (hdr : cs.all (fun c => !c.dropped) = true)
    (hv : valueOk intLike v = true) (hc : cs.all (callOk intLike) = true)
    (h : @refine textOracle v cs = .ok w) :
    ∃ vr, range w.unmark = .ok vr ∧ vr.ty = v.ty ∧
      ∀ x, x.fits = true → vr.admitsN x = (γV v x && cs.all (fun c => den c x)) :=
  @refine_range_exact exactIdealOracle v w cs hk hd hdr ((refine_code_eq_exact v cs hv hc).1 ▸ h)

/-- "a constraint that contradicts earlier constraints is rejected" FOR THE CODE'S ORACLE on integer inputs:
`RejectsContradiction textOracle` restricted to integer bounds and inclusive-or-finite new bounds.  The text
oracle always answers, so "not accepted" here means: the call PANICS. -/
theorem rejects_contradiction_code_integers (b : Builder) (c : RefineCall) (hw : b.wf = true)
    (hl : b.wip.lenOk = true) (hr : c.isRange = true) (hx : c.exclusiveInfinite = false)
    (hb : builderOk intLike b = true) (hc : callOk intLike c = true)
    (h1 : ∃ x, x ≠ .null ∧ γB b x = true) (h2 : ∀ x, x ≠ .null → (γB b x && den c x) = false)
    (b' : Builder) : @step textOracle b c ≠ .ok b' := fun h =>
  @rejects_contradiction_partial exactIdealOracle b c hw hl hr hx h1 h2 b'
    ((step_congr (agree_text_ideal intLike_textExact) hb hc) ▸ h)

/-- "becomes a known value only if that value admits exactly what the refinement admitted" FOR THE CODE'S ORACLE
when the recorded bounds are integers. -/
theorem newValue_known_exact_code_integers (b : Builder) (w : Value) (hw : b.wf = true)
    (hk : b.orig.isKnown = false) (hd : b.isDyn = false) (hb : builderOk intLike b = true)
    (h : @newValue textOracle b = .ok w) (x : Conc) : γV w x = γB b x :=
  @newValue_known_exact exactIdealOracle b w hw hk hd
    ((newValue_congr (agree_text_ideal intLike_textExact) hb) ▸ h) x

/-- "a constraint that contradicts a known value is rejected" FOR THE CODE'S ORACLE: a known integer (or any
non-number) and integer bounds. -/
theorem known_is_assertion_code_integers (v w : Value) (cs : List RefineCall) (x : Conc)
    (hk : v.unmark.isKnown = true) (hx : concOf v.unmark = some x) (hv : valueOk intLike v = true)
    (hc : cs.all (callOk intLike) = true) (h : @refine textOracle v cs = .ok w) :
    w = v.unmark.withMarks v.marks ∧ cs.all (fun c => den c x) = true :=
  @known_is_assertion exactIdealOracle v w cs x hk hx ((refine_code_eq_exact v cs hv hc).1 ▸ h)

-- non-vacuity: a receiver already refined to [1 (64 bit), +∞), a bound 3 held at 512 bits (mixed precisions),
-- accepted by the CODE'S oracle; a contradiction (x ≤ 0 after x ≥ 1) that the code's oracle rejects
example : builderOk intLike sampleNum = true ∧
    callOk intLike (.numUpper (.known (.fin false 3 0 512)) false) = true ∧
    @step textOracle sampleNum (.numUpper (.known (.fin false 3 0 512)) false) =
      .ok { sampleNum with wip := .num .u (some ⟨.fin false 1 0 64, true⟩) (some ⟨.fin false 3 0 512, false⟩) } :=
  ⟨rfl, rfl, rfl⟩
example : callOk intLike (.numUpper (.known (.fin false 0 0 53)) true) = true ∧
    (@step textOracle sampleNum (.numUpper (.known (.fin false 0 0 53)) true)).isPanic = true := ⟨rfl, rfl⟩
example : valueOk intLike ⟨.number, .marked ["m"] (.unk (.num .u (some ⟨.fin false 1 0 64, true⟩) none))⟩ = true :=
  rfl

end Bridge

/-! ## "a constraint that contradicts … earlier constraints is rejected": nullness within ONE builder chain

`NotNull()` / `Null()` check the contradiction against the BUILDER'S work-in-progress record (`b.wip.null()`), so it
is caught when both are stated in one chain — `v.Refine().Null()…NotNull()` — although the range of the value
being refined (`b.orig.Range()`) knows nothing of the first call.  For every oracle, every receiver other than
`cty.DynamicVal`, any accepted calls in between. -/

/-- `Null()`, then any accepted calls, then `NotNull()`: the `NotNull()` panics; the chain is never accepted. -/
theorem null_then_notNull_panics [EqOracle] (b : Builder) (hd : b.isDyn = false) (mid rest : List RefineCall) :
    (∀ b2, run b (.null :: mid) = .ok b2 → ∃ w, step b2 .notNull = .panic w) ∧
    ∀ b', run b (.null :: (mid ++ .notNull :: rest)) ≠ .ok b' := D05.null_then_notNull hd mid rest

/-- `NotNull()`, then any accepted calls, then `Null()`: the `Null()` panics; the chain is never accepted. -/
theorem notNull_then_null_panics [EqOracle] (b : Builder) (hd : b.isDyn = false) (mid rest : List RefineCall) :
    (∀ b2, run b (.notNull :: mid) = .ok b2 → ∃ w, step b2 .null = .panic w) ∧
    ∀ b', run b (.notNull :: (mid ++ .null :: rest)) ≠ .ok b' := D05.notNull_then_null hd mid rest

/-- The invariant behind both: once nullness is decided in a chain, every accepted call keeps it in the builder's
own record. -/
theorem nullness_is_kept [EqOracle] (b b' : Builder) (cs : List RefineCall) (hd : b.isDyn = false)
    (hn : b.wip.nullness ≠ .u) (h : run b cs = .ok b') : b'.wip.nullness = b.wip.nullness :=
  D05.run_keeps_nullness hd hn h

-- non-vacuity: on the unknown list, `Null()` is accepted, so is a length bound after it, and then `NotNull()` panics
example : (@run textOracle sampleList [.null, .lenLower 3]).isOk = true ∧
    (@run textOracle sampleList [.null, .lenLower 3, .notNull]).isPanic = true := ⟨rfl, rfl⟩

/-! ## the other entry points: `RefineWith`, `RefineNotNull`

`Value.RefineWith(refiners...)` and `Value.RefineNotNull()` (modelled after the Go control flow in
`CtyModel/RefineWith.lean`, diffed against the code as `rfn.with` / `rfn.nn`) are the builder chain in other
clothes, for every oracle — so every theorem above about `refine v cs` is a theorem about them. -/

/-- `RefineWith` with refiners that return the builder they were given is `Refine()`, all their calls in order,
`NewValue()`; with no refiner at all the receiver itself comes back; a refiner that returns another builder is
never accepted. -/
theorem refineWith_is_refine [EqOracle] (v : Value) (rs : List D05.Refiner) :
    (rs ≠ [] → rs.all (·.same) = true → D05.refineWith v rs = refine v (rs.flatMap (·.calls))) ∧
    D05.refineWith v [] = .ok v ∧
    (rs.any (fun r => !r.same) = true → ∀ w, D05.refineWith v rs ≠ .ok w) :=
  ⟨D05.refineWith_same, rfl, fun h _ => D05.refineWith_different h⟩

/-- `RefineNotNull()` is `Refine().NotNull().NewValue()`. -/
theorem refineNotNull_is_refine [EqOracle] (v : Value) : D05.refineNotNull v = refine v [.notNull] :=
  D05.refineNotNull_eq v

/-- e.g. "never changes its type, never widens its range" for `RefineWith`, for exact number equality. -/
theorem refineWith_narrows [ExactOracle] (v w : Value) (rs : List D05.Refiner)
    (h : D05.refineWith v rs = .ok w) : w.ty = v.ty ∧ ∀ x, γV w x = true → γV v x = true := by
  by_cases hne : rs = []
  · subst hne
    have : w = v := by simpa [D05.refineWith] using h.symm
    subst this
    exact ⟨rfl, fun _ hx => hx⟩
  · cases hany : rs.any (fun r => !r.same) with
    | true => exact absurd h (D05.refineWith_different hany)
    | false =>
      have hs : rs.all (·.same) = true := by
        rw [List.all_eq_true]
        intro r hr
        have := List.any_eq_false.mp hany r hr
        simpa using this
      rw [D05.refineWith_same hne hs] at h
      exact ⟨type_preserved v w _ h, fun x hx => refine_narrows v w _ h x hx⟩

-- non-vacuity: two refiners on an unknown number, accepted under the code's oracle
example : (@D05.refineWith textOracle ⟨.number, .unk .unref⟩
    [⟨[.notNull], true⟩, ⟨[.numLower (.known (.fin false 1 0 64)) true], true⟩]).isOk = true := rfl


/-! ## slice d05b — THE BRIDGE beyond integers: a decidable side condition on the numbers of the input

`D05b.textFree v cs` (resp. `D05b.textFreeB b cs` for a builder in mid-chain) collects the numbers the receiver and
the calls carry and checks, pair by pair, that the code's `rawNumberEqual` answers as exact comparison does.  It is a
closed Boolean computation on the input (`by decide` on a literal), the harness evaluates the same condition on the
real code (`Equals(a, b) == (Cmp(a, b) == 0)` for every pair, `c05TextAgrees`) and diffs the code against the model
under the total exact oracle on exactly those inputs (`rfn.runi`).  When it holds, the builder AS THE CODE RUNS IT
(`textOracle`) satisfies the narrowing / exactness / contradiction / collapse / assertion theorems.  Integers at mixed
precisions are an instance (`textFree_of_integers`); so are non-integers at one precision, and at several precisions
when their shortest decimal texts separate them as their values do.  The recorded finding `builder-number-compare
[inexact-number-equals]` is precisely an input where the condition is `false` (`textFree_fails_on_finding`).
What is NOT proved: that the condition holds for EVERY input at one precision (it would need "math/big's shortest
decimal text is injective at a fixed precision"); it is decided input by input. -/
section BridgeTextFree
open D05 D05b

/-- On a text-free list of numbers the code's equality IS exact comparison. -/
theorem code_equality_exact_on_textfree (L : List Num) (h : textFreeList L = true) (a b : Num) (ha : a ∈ L)
    (hb : b ∈ L) : textOracle.eq a b = some (Num.cmp a b == 0) :=
  agree_of_textFree h a b (inList_iff.mpr ha) (inList_iff.mpr hb)

/-- integers and infinities, of any precisions, are text-free: slice d05's class is an instance -/
theorem textFree_of_integers (L : List Num) (h : L.all intLike = true) : textFreeList L = true :=
  textFreeList_of_intLike h

/-- Agreement of the whole builder on a text-free input: the code's oracle and the total exact oracle give the SAME
outcome of `v.Refine().<calls>.NewValue()` and of a chain on a builder — accepted value, panic, everything. -/
theorem refine_code_eq_exact_textfree (v : Value) (b : Builder) (cs : List RefineCall) :
    (textFree v cs = true → @refine textOracle v cs = @refine idealOracle v cs) ∧
    (textFreeB b cs = true → @run textOracle b cs = @run idealOracle b cs) :=
  ⟨refine_textFree, run_textFree⟩

/-- "never widens its range" FOR THE CODE'S ORACLE on a text-free input. -/
theorem narrows_code_textfree (b b' : Builder) (cs : List RefineCall) (htf : textFreeB b cs = true)
    (h : @run textOracle b cs = .ok b') (x : Conc) (hx : γB b' x = true) : γB b x = true :=
  @narrows_partial exactIdealOracle b b' cs (run_textFree htf ▸ h) x hx

/-- … between the value refined and the value returned. -/
theorem refine_narrows_code_textfree (v w : Value) (cs : List RefineCall) (htf : textFree v cs = true)
    (h : @refine textOracle v cs = .ok w) (x : Conc) (hx : γV w x = true) : γV v x = true :=
  @refine_narrows exactIdealOracle v w cs (refine_textFree htf ▸ h) x hx

/-- `γ (step b c) = γ b ∩ ⟦c⟧` FOR THE CODE'S ORACLE on a text-free input (at every concrete value `x`, whatever its
precision, except where a dropped bound bites). -/
theorem exact_code_textfree (b b' : Builder) (c : RefineCall) (hd : b.isDyn = false)
    (htf : textFreeB b [c] = true) (h : @step textOracle b c = .ok b') (x : Conc)
    (hx : c.droppedAt x = false) : γB b' x = (γB b x && den c x) :=
  @exact_partial exactIdealOracle b b' c hd (step_textFree htf ▸ h) x hx

/-- End to end FOR THE CODE'S ORACLE on a text-free input. -/
theorem refine_exact_code_textfree (v w : Value) (cs : List RefineCall) (hk : v.unmark.isKnown = false)
    (hd : isDynVal v.unmark = false) (hdr : cs.all (fun c => !c.dropped) = true) (htf : textFree v cs = true)
    (h : @refine textOracle v cs = .ok w) (x : Conc) (hx : x.fits = true) :
    γV w x = (γV v x && cs.all (fun c => den c x)) :=
  @refine_exact_partial exactIdealOracle v w cs hk hd hdr (refine_textFree htf ▸ h) x hx

/-- `Range()` of the value the code returns admits exactly `γV v ∩ ⋂ ⟦c⟧`, on a text-free input. -/
theorem refine_range_exact_code_textfree (v w : Value) (cs : List RefineCall) (hk : v.unmark.isKnown = false)
    (hd : isDynVal v.unmark = false) (hdr : cs.all (fun c => !c.dropped) = true) (htf : textFree v cs = true)
    (h : @refine textOracle v cs = .ok w) :
    ∃ vr, range w.unmark = .ok vr ∧ vr.ty = v.ty ∧
      ∀ x, x.fits = true → vr.admitsN x = (γV v x && cs.all (fun c => den c x)) :=
  @refine_range_exact exactIdealOracle v w cs hk hd hdr (refine_textFree htf ▸ h)

/-- "a constraint that contradicts earlier constraints is rejected" FOR THE CODE'S ORACLE on a text-free input: the
call is not accepted — and since the text oracle always answers, that means it PANICS. -/
theorem rejects_contradiction_code_textfree (b : Builder) (c : RefineCall) (hw : b.wf = true)
    (hl : b.wip.lenOk = true) (hr : c.isRange = true) (hx : c.exclusiveInfinite = false)
    (htf : textFreeB b [c] = true)
    (h1 : ∃ x, x ≠ .null ∧ γB b x = true) (h2 : ∀ x, x ≠ .null → (γB b x && den c x) = false)
    (b' : Builder) : @step textOracle b c ≠ .ok b' := fun h =>
  @rejects_contradiction_partial exactIdealOracle b c hw hl hr hx h1 h2 b' (step_textFree htf ▸ h)

/-- "becomes a known value only if that value admits exactly what the refinement admitted" FOR THE CODE'S ORACLE when
the recorded bounds are text-free. -/
theorem newValue_known_exact_code_textfree (b : Builder) (w : Value) (hw : b.wf = true)
    (hk : b.orig.isKnown = false) (hd : b.isDyn = false) (htf : textFreeB b [] = true)
    (h : @newValue textOracle b = .ok w) (x : Conc) : γV w x = γB b x :=
  @newValue_known_exact exactIdealOracle b w hw hk hd (newValue_textFree htf ▸ h) x

/-- "a constraint that contradicts a known value is rejected" FOR THE CODE'S ORACLE on a text-free input. -/
theorem known_is_assertion_code_textfree (v w : Value) (cs : List RefineCall) (x : Conc)
    (hk : v.unmark.isKnown = true) (hx : concOf v.unmark = some x) (htf : textFree v cs = true)
    (h : @refine textOracle v cs = .ok w) :
    w = v.unmark.withMarks v.marks ∧ cs.all (fun c => den c x) = true :=
  @known_is_assertion exactIdealOracle v w cs x hk hx (refine_textFree htf ▸ h)

/-- an unknown number already refined to `[0.5, +∞)`, the bound held at 53 bits: NOT an integer input -/
def sampleHalf : Builder := ⟨⟨.number, .unk .unref⟩, [], .num .u (some ⟨.fin false 1 (-1) 53, true⟩) none⟩

-- non-vacuity: non-integers at two precisions (0.5 at 53 bits, 2.5 at 24 bits, 0.75 at 53 bits) are text-free, the
-- code's oracle accepts the chain; and a contradiction (x ≤ 0.25 after x ≥ 0.5) is text-free and rejected
example : textFreeB sampleHalf [.numUpper (.known (.fin false 5 (-1) 24)) false,
      .numLower (.known (.fin false 3 (-2) 53)) true] = true ∧
    (@run textOracle sampleHalf [.numUpper (.known (.fin false 5 (-1) 24)) false,
      .numLower (.known (.fin false 3 (-2) 53)) true]).isOk = true := by decide
example : textFreeB sampleHalf [.numUpper (.known (.fin false 1 (-2) 24)) true] = true ∧
    (@step textOracle sampleHalf (.numUpper (.known (.fin false 1 (-2) 24)) true)).isPanic = true := by decide
example : textFree ⟨.number, .unk (.num .u (some ⟨.fin false 1 (-1) 53, true⟩) none)⟩
    [.numUpper (.known (.fin false 5 (-1) 24)) false] = true := by decide

/-- The recorded finding is exactly an input that is NOT text-free: 0.1 held at 8 bits and 0.1 held at 4 bits print
alike and differ in value (cf. `narrows_text_counterexample`). -/
theorem textFree_fails_on_finding :
    textFreeB ⟨⟨.number, .unk .unref⟩, [], .num .u none (some ⟨.fin false 205 (-11) 8, false⟩)⟩
      [.numUpper (.known (.fin false 13 (-7) 4)) false] = false := by decide

-- inputs that carry NO number (strings, collections, nullable kinds) are text-free by computation, so the theorems
-- above are about the code as it runs for every such input: e.g. an incompatible prefix after a recorded one, and a
-- length bound below the recorded one, are contradictions the code's builder rejects (by
-- `rejects_contradiction_code_textfree`)
example : textFreeB ⟨⟨.string, .unk .unref⟩, [], .str .u "ab"⟩ [.stringPrefixFull "ax"] = true ∧
    textFreeB sampleList [.lenUpper 1] = true ∧ (@step textOracle sampleList (.lenUpper 1)).isPanic = true :=
  ⟨rfl, rfl, rfl⟩

end BridgeTextFree

/-! ## slice d05b — "a constraint that contradicts a known value is rejected": a known collection whose length is
not one number

`KnownIsAssertion` speaks about receivers that stand for ONE concrete value.  A known set that holds an unknown member
next to other members stands for several lengths: `Length()` is an unknown number refined to `1 … stored members`
(`knownLength`, the range the code computes; `γV` admits exactly those lengths).  The clause for such a receiver: a
length constraint that excludes EVERY possible length is rejected — the seeded change
`C05-known-set-unknown-length-bound-check-skipped` makes the builder skip that test.  For every oracle. -/
section KnownLength
open D05b

/-- `D05b.admitsSomeLength c least most` is "some possible length satisfies ⟦c⟧", in the specification's words -/
theorem admitsSomeLength_spec (c : RefineCall) (hc : isLenCall c = true) (least most : Nat) (hlm : least ≤ most) :
    admitsSomeLength c least most = true ↔ ∃ l : Nat, least ≤ l ∧ l ≤ most ∧ den c (.coll l) = true :=
  admitsSomeLength_iff c hc least most hlm

/-- A length constraint (`CollectionLengthLowerBound`, `…UpperBound`, `CollectionLength`) that excludes every
possible length `least … most` of the known receiver PANICS, whatever has been recorded so far … -/
theorem known_length_excluded_panics [EqOracle] (b : Builder) (c : RefineCall) (least most : Nat)
    (hd : b.isDyn = false) (hk : b.orig.isKnown = true) (hl : knownLength b.orig = .ok (least, most))
    (hc : isLenCall c = true) (hex : ∀ l : Nat, least ≤ l → l ≤ most → den c (.coll l) = false) :
    ∃ w, step b c = .panic w := by
  refine step_len_excluded_panics hd hk hl hc ?_
  cases had : admitsSomeLength c least most
  · rfl
  · obtain ⟨l, h1, h2, h3⟩ := (admitsSomeLength_iff c hc least most (knownLength_le hl)).mp had
    rw [hex l h1 h2] at h3; cases h3

/-- … and wherever it stands in a chain on the value, the chain is never accepted. -/
theorem known_length_excluded_rejected [EqOracle] (v w : Value) (c : RefineCall) (least most : Nat)
    (hd : isDynVal v.unmark = false) (hk : v.unmark.isKnown = true)
    (hl : knownLength v.unmark = .ok (least, most)) (hc : isLenCall c = true)
    (hex : ∀ l : Nat, least ≤ l → l ≤ most → den c (.coll l) = false) (pre post : List RefineCall) :
    refine v (pre ++ c :: post) ≠ .ok w := by
  intro h
  obtain ⟨b, b', hi, hr, _⟩ := refine_ok_any h
  obtain ⟨ho, _, _, _, _⟩ := init_ok hi
  refine run_len_excluded_rejected (b := b) (by unfold Builder.isDyn; rw [ho]; exact hd) (by rw [ho]; exact hk)
    (by rw [ho]; exact hl) hc ?_ pre post b' hr
  cases had : admitsSomeLength c least most
  · rfl
  · obtain ⟨l, h1, h2, h3⟩ := (admitsSomeLength_iff c hc least most (by rw [← ho] at hl; exact knownLength_le hl)).mp had
    rw [hex l h1 h2] at h3; cases h3

/-- EXACTLY the excluded constraints are rejected: on the builder `Refine()` returns for a known collection (nothing
recorded yet), a length constraint is accepted iff some possible length satisfies it, and panics iff none does. -/
theorem known_length_rejects_exactly [EqOracle] (b : Builder) (c : RefineCall) (least most : Nat) (nl : Tri)
    (hd : b.isDyn = false) (hk : b.orig.isKnown = true) (hl : knownLength b.orig = .ok (least, most))
    (hw : b.wip = .coll nl 0 maxInt) (hfit : (most : Int) ≤ maxInt) (hc : isLenCall c = true) :
    ((∃ b', step b c = .ok b') ↔ ∃ l : Nat, least ≤ l ∧ l ≤ most ∧ den c (.coll l) = true) ∧
    ((∃ w, step b c = .panic w) ↔ ∀ l : Nat, least ≤ l → l ≤ most → den c (.coll l) = false) := by
  obtain ⟨h1, h2⟩ := step_len_fresh_iff hd hk hl hw hfit hc
  have hs := admitsSomeLength_iff c hc least most (knownLength_le hl)
  refine ⟨h1.trans hs, h2.trans ⟨fun hf l a b' => ?_, fun hall => ?_⟩⟩
  · cases hden : den c (.coll l)
    · rfl
    · rw [hs.mpr ⟨l, a, b', hden⟩] at hf; cases hf
  · cases had : admitsSomeLength c least most
    · rfl
    · obtain ⟨l, a, b', hden⟩ := hs.mp had
      rw [hall l a b'] at hden; cases hden

/-- the known set `{unknown string, "a"}`: two stored members, one of them unknown -/
def sampleSet : Value := ⟨.set .string, .sset [1, 2] [.unk .unref, .s "a"]⟩

-- non-vacuity: its possible lengths are 1 … 2; `CollectionLengthLowerBound(3)`, `CollectionLengthUpperBound(0)`,
-- `CollectionLength(3)` and `CollectionLength(0)` panic; `…LowerBound(2)`, `…UpperBound(1)`, `CollectionLength(1)` are
-- accepted and return the set itself (under the code's oracle)
example : sampleSet.unmark.isKnown = true ∧ isDynVal sampleSet.unmark = false ∧
    knownLength sampleSet.unmark = .ok (1, 2) ∧ concOf sampleSet = none := by decide
example : (@refine textOracle sampleSet [.lenLower 3]).isPanic = true ∧
    (@refine textOracle sampleSet [.lenUpper 0]).isPanic = true ∧
    (@refine textOracle sampleSet [.collectionLength 3]).isPanic = true ∧
    (@refine textOracle sampleSet [.notNull, .collectionLength 0]).isPanic = true ∧
    @refine textOracle sampleSet [.lenLower 2] = .ok sampleSet ∧
    @refine textOracle sampleSet [.lenUpper 1] = .ok sampleSet ∧
    @refine textOracle sampleSet [.collectionLength 1] = .ok sampleSet := ⟨rfl, rfl, rfl, rfl, rfl, rfl, rfl⟩
example : ∀ l : Nat, 1 ≤ l → l ≤ 2 → den (.lenLower 3) (.coll l) = false := by
  intro l _ h2; simp only [den, decide_eq_false_iff_not]; omega

/-- `KnownIsAssertion` FOR A RECEIVER THAT STANDS FOR SEVERAL VALUES, whole chains, every oracle: if a chain on a
known list, map or set is accepted, SOME concrete value the receiver stands for (`γV v x`: a collection of one of its
possible lengths) satisfies EVERY call of the chain — jointly, not only call by call.  (For an exact-length receiver
this is `known_is_assertion` restricted to collections, but without any oracle hypothesis.) -/
theorem known_collection_is_assertion [EqOracle] (v w : Value) (cs : List RefineCall) (least most : Nat)
    (hl : knownLength v.unmark = .ok (least, most)) (hfit : (most : Int) ≤ maxInt) (h : refine v cs = .ok w) :
    ∃ l : Nat, least ≤ l ∧ l ≤ most ∧ γV v (.coll l) = true ∧ cs.all (fun c => den c (.coll l)) = true := by
  obtain ⟨l, h1, h2, h3⟩ := refine_known_collection hl hfit h
  exact ⟨l, h1, h2, by rw [← γV_unmark]; exact γV_of_knownLength hl l h1 h2, h3⟩

/-- EXACTLY, for whole chains, every oracle: a chain of `NotNull()` and length constraints on a known list, map or set
is accepted IFF some possible length of the receiver satisfies every call of it — and then the receiver itself comes
back.  (Any other call on such a receiver panics: `Null()` contradicts a known non-null value, number and prefix
calls do not apply to a collection.) -/
theorem known_collection_chain_iff [EqOracle] (v : Value) (cs : List RefineCall) (least most : Nat)
    (hl : knownLength v.unmark = .ok (least, most)) (hfit : (most : Int) ≤ maxInt)
    (hm : v.unmark.v.isMarked = false) (hc : cs.all isLenOrNotNull = true) :
    ((∃ w, refine v cs = .ok w) ↔ ∃ l : Nat, least ≤ l ∧ l ≤ most ∧ cs.all (fun c => den c (.coll l)) = true) ∧
    ∀ w, refine v cs = .ok w → w = v.unmark.withMarks v.marks := by
  refine ⟨⟨fun ⟨w, h⟩ => refine_known_collection hl hfit h, fun ⟨l, h1, h2, h3⟩ =>
    ⟨_, refine_known_collection_accepts hl hfit hm hc h1 h2 h3⟩⟩, fun w h => ?_⟩
  obtain ⟨l, h1, h2, h3⟩ := refine_known_collection hl hfit h
  rw [refine_known_collection_accepts hl hfit hm hc h1 h2 h3] at h
  exact (Res.ok.inj h).symm

-- jointly, not call by call: on {unknown, "a"} "length ≥ 2" and "length ≤ 1" are each accepted, together they panic
example : (@refine textOracle sampleSet [.lenLower 2]).isOk = true ∧ (@refine textOracle sampleSet [.lenUpper 1]).isOk = true ∧
    (@refine textOracle sampleSet [.lenLower 2, .lenUpper 1]).isPanic = true ∧
    (@refine textOracle sampleSet [.lenUpper 1, .notNull, .collectionLength 2]).isPanic = true := ⟨rfl, rfl, rfl, rfl⟩

end KnownLength

/-! ## slice d05b — infinite bounds: only the NEAR-side singleton is "no bound"

`NumberRangeLowerBound` skips recording only for the singleton `cty.NegativeInfinity`, `NumberRangeUpperBound` only
for `cty.PositiveInfinity`.  A lower bound of +∞ / an upper bound of −∞ (singleton or computed) is recorded and
excludes every finite number — the seeded change `C05-infinite-bound-of-either-sign-treated-as-no-bound` drops it.
For every oracle, so for the code's own number equality; every receiver but `cty.DynamicVal`, every earlier record. -/
section InfiniteBounds
open D05b

/-- After an accepted `NumberRangeLowerBound(+∞, incl)` the record carries +∞ as its lower bound and the builder
admits no number other than +∞ itself: every finite number (and −∞) is excluded. -/
theorem far_lower_infinity_recorded [EqOracle] (b b' : Builder) (a : NumArg) (incl : Bool) (hd : b.isDyn = false)
    (ha : a = .posInf ∨ a = .known (.inf false)) (h : step b (.numLower a incl) = .ok b') :
    (∃ i, lowerOf b'.wip = some ⟨.inf false, i⟩) ∧ ∀ x, x ≠ .inf false → γB b' (.num x) = false := by
  have ha' : a.num? = some (.inf false) := by rcases ha with rfl | rfl <;> rfl
  exact ⟨far_lower_recorded hd ha' h, far_lower_excludes hd ha' h⟩

/-- The mirror image: after an accepted `NumberRangeUpperBound(−∞, incl)`. -/
theorem far_upper_infinity_recorded [EqOracle] (b b' : Builder) (a : NumArg) (incl : Bool) (hd : b.isDyn = false)
    (ha : a = .negInf ∨ a = .known (.inf true)) (h : step b (.numUpper a incl) = .ok b') :
    (∃ i, upperOf b'.wip = some ⟨.inf true, i⟩) ∧ ∀ x, x ≠ .inf true → γB b' (.num x) = false := by
  have ha' : a.num? = some (.inf true) := by rcases ha with rfl | rfl <;> rfl
  exact ⟨far_upper_recorded hd ha' h, far_upper_excludes hd ha' h⟩

/-- Only the near-side singleton is "no bound": `NumberRangeLowerBound(cty.NegativeInfinity, _)` and
`NumberRangeUpperBound(cty.PositiveInfinity, _)`, when they return, leave the record exactly as it was. -/
theorem near_infinity_is_no_bound [EqOracle] (b b' : Builder) (incl : Bool) :
    (step b (.numLower .negInf incl) = .ok b' → b'.wip = b.wip) ∧
    (step b (.numUpper .posInf incl) = .ok b' → b'.wip = b.wip) :=
  ⟨near_lower_not_recorded, near_upper_not_recorded⟩

-- non-vacuity, under the code's oracle: on the unknown number already refined to [1, +∞) both far-side calls are
-- accepted and recorded; a later finite bound on the other side then contradicts and panics
example : @step textOracle sampleNum (.numLower .posInf true) =
      .ok { sampleNum with wip := .num .u (some ⟨.inf false, true⟩) none } ∧
    (@run textOracle sampleNum [.numLower .posInf true, .numUpper (.known (.fin false 5 0 64)) true]).isPanic = true ∧
    (@step textOracle ⟨⟨.number, .unk .unref⟩, [], .num .u none none⟩ (.numUpper (.known (.inf true)) true)).isOk = true :=
  ⟨rfl, rfl, rfl⟩

end InfiniteBounds

/-! ### the delimiter table is the one in the source (regenerated on every check) -/

/-- The model's delimiter table is, entry for entry and in order, the rune list of
`ctystrings.sequenceMustEndGraphemeCluster` as the CURRENT source states it
(`Generated.safeDelims` is re-extracted from cty/ctystrings/prefix.go on every check), and
every entry is one byte — which is what `mustEndCluster` relies on.  A source edit to that
switch re-decides this obligation. -/
theorem delimiter_table_is_source :
    delimiters.map (·.toNat) = Generated.safeDelims ∧ ∀ d ∈ Generated.safeDelims, d < 128 := by
  decide

/-! ### the REGENERATED model: the theorems above, about the source text itself

`extract/translate_rfn.go` translates `Value.Refine`, every `RefinementBuilder` method, `NewValue` and the
methods of the four refinement structs from cty/unknown_refinement.go into Lean on every check
(`Generated/RefineFns.lean`).  The `generated_*_eq` theorems say that what the source text computes — on the
model's reading of a `cty.Value`, with the `Value` operations it calls taken as given (`CtyModel/RefineGo.lean`) —
is what the hand-written model computes, up to the text of a panic (`er`); `ext` applies
`cty.NormalizeString` / `ctystrings.SafeKnownPrefix` (parameters, `[Strings]`) to a call's argument as the source
does.  The `*_generated` corollaries state the property clauses directly about the translated source.  A source
edit that changes the meaning makes these proofs fail; an edit that leaves the translated fragment makes the
extractor fail. -/
section Regenerated
open RefineGo RefineFnsTie
variable [Strings]

/-- `Value.Refine` as written in the source is the model's `init`, on every modelled value -/
theorem generated_init_eq (v : Value) (h : Modelled v) : Generated.RefineFns.init v = init v := init_eq v h

/-- every builder method as written in the source is the model's `step` (every builder, every argument) -/
theorem generated_step_eq [EqOracle] (b : Builder) (c : RefineCall) :
    er (Generated.RefineFns.step b c) = er (step b (ext c)) := step_eq b c

theorem generated_run_eq [EqOracle] (b : Builder) (cs : List RefineCall) :
    er (Generated.RefineFns.run b cs) = er (run b (cs.map ext)) := run_eq cs b

/-- `NewValue` as written in the source is the model's `newValue`, on every well-formed builder -/
theorem generated_newValue_eq [EqOracle] (b : Builder) (hw : b.wf = true) :
    er (Generated.RefineFns.newValue b) = er (newValue b) := newValue_eq b hw

theorem generated_refine_eq [EqOracle] (v : Value) (cs : List RefineCall) (h : Modelled v) :
    er (Generated.RefineFns.refine v cs) = er (refine v (cs.map ext)) := refine_eq v cs h

/-- `rawEqual` of the four refinement structs as written in the source is the model's `rfnRawEq` -/
theorem generated_rawEqual_eq (a b : Rfn) (ha : a ≠ .unref) :
    Generated.RefineFns.rawEqual a b = .ok (rfnRawEq a b) := rawEqual_eq a b ha

/-- an accepted outcome of the translated source is the same accepted outcome of the model -/
theorem ok_of_generated {α} {g m : Res α} (h : er g = er m) {a : α} (hg : g = .ok a) : m = .ok a := by
  rw [hg, er_ok] at h; exact er_eq_ok.mp h.symm

/-- "never changes its type", about the translated source -/
theorem type_preserved_generated [EqOracle] (v w : Value) (cs : List RefineCall) (hm : Modelled v)
    (h : Generated.RefineFns.refine v cs = .ok w) : w.ty = v.ty :=
  type_preserved v w (cs.map ext) (ok_of_generated (refine_eq v cs hm) h)

theorem step_keeps_receiver_generated [EqOracle] (b b' : Builder) (cs : List RefineCall)
    (h : Generated.RefineFns.run b cs = .ok b') : b'.orig = b.orig ∧ b'.marks = b.marks :=
  step_keeps_receiver b b' (cs.map ext) (ok_of_generated (run_eq cs b) h)

/-- "never widens its range", about the translated source (exact number equality) -/
theorem narrows_generated [ExactOracle] (b b' : Builder) (cs : List RefineCall)
    (h : Generated.RefineFns.run b cs = .ok b') (x : Conc) (hx : γB b' x = true) : γB b x = true :=
  narrows_partial b b' (cs.map ext) (ok_of_generated (run_eq cs b) h) x hx

theorem refine_narrows_generated [ExactOracle] (v w : Value) (cs : List RefineCall) (hm : Modelled v)
    (h : Generated.RefineFns.refine v cs = .ok w) (x : Conc) (hx : γV w x = true) : γV v x = true :=
  refine_narrows v w (cs.map ext) (ok_of_generated (refine_eq v cs hm) h) x hx

/-- "a value satisfying every constraint stated so far stays admitted": `γ (step b c) = γ b ∩ ⟦c⟧`, about
the translated source -/
theorem exact_generated [ExactOracle] (b b' : Builder) (c : RefineCall) (hd : b.isDyn = false)
    (h : Generated.RefineFns.step b c = .ok b') (x : Conc) (hx : (ext c).droppedAt x = false) :
    γB b' x = (γB b x && den (ext c) x) :=
  exact_partial b b' (ext c) hd (ok_of_generated (step_eq b c) h) x hx

theorem refine_exact_generated [ExactOracle] (v w : Value) (cs : List RefineCall) (hm : Modelled v)
    (hk : v.unmark.isKnown = false) (hd : isDynVal v.unmark = false)
    (hc : (cs.map ext).all (fun c => !c.dropped) = true) (h : Generated.RefineFns.refine v cs = .ok w) (x : Conc)
    (hx : x.fits = true) : γV w x = (γV v x && (cs.map ext).all (fun c => den c x)) :=
  refine_exact_partial v w (cs.map ext) hk hd hc (ok_of_generated (refine_eq v cs hm) h) x hx

/-- "a constraint that contradicts earlier constraints is rejected", about the translated source -/
theorem rejects_contradiction_generated [ExactOracle] (b : Builder) (c : RefineCall) (hw : b.wf = true)
    (hl : b.wip.lenOk = true) (hr : (ext c).isRange = true) (hx : (ext c).exclusiveInfinite = false)
    (h1 : ∃ x, x ≠ .null ∧ γB b x = true) (h2 : ∀ x, x ≠ .null → (γB b x && den (ext c) x) = false)
    (b' : Builder) : Generated.RefineFns.step b c ≠ .ok b' := fun h =>
  rejects_contradiction_partial b (ext c) hw hl hr hx h1 h2 b' (ok_of_generated (step_eq b c) h)

/-- "the result becomes a known value only if that value admits exactly what the refinement admitted",
about the translated `NewValue` -/
theorem newValue_known_exact_generated [ExactOracle] (b : Builder) (w : Value) (hw : b.wf = true)
    (hk : b.orig.isKnown = false) (hd : b.isDyn = false) (h : Generated.RefineFns.newValue b = .ok w) (x : Conc) :
    γV w x = γB b x :=
  newValue_known_exact b w hw hk hd (ok_of_generated (newValue_eq b hw) h) x

/-- "the type-unknown dynamic value ignores refinement", about the translated source: every call leaves the
builder of `cty.DynamicVal` as it was -/
theorem dynamic_ignores_generated [EqOracle] (b : Builder) (c : RefineCall) (hb : b.isDyn = true) :
    Generated.RefineFns.step b c = .ok b := by
  have h := step_eq b c
  rw [(dynamic_ignores Value.dynVal [] rfl).2 b (ext c) hb, er_ok] at h
  exact er_eq_ok.mp h

/-- "a constraint that contradicts a known value is rejected", about the translated source -/
theorem known_is_assertion_generated [ExactOracle] (v w : Value) (cs : List RefineCall) (x : Conc) (hm : Modelled v)
    (hk : v.unmark.isKnown = true) (hx : concOf v.unmark = some x) (h : Generated.RefineFns.refine v cs = .ok w) :
    w = v.unmark.withMarks v.marks ∧ (cs.map ext).all (fun c => den c x) = true :=
  known_is_assertion v w (cs.map ext) x hk hx (ok_of_generated (refine_eq v cs hm) h)

-- the hypotheses are satisfiable: a marked, already refined unknown number is modelled, and the translated
-- source accepts a call on it
example : Modelled ⟨.number, .marked ["m"] (.unk (.num .u (some ⟨.fin false 1 0 64, true⟩) none))⟩ := by
  intro h; have := congrArg Res.isOk h; revert this; decide
example : @Generated.RefineFns.step textOracle ⟨id, id⟩ sampleList (.lenLower 3) =
    .ok { sampleList with wip := .coll .u 3 maxInt } := by rfl


/-! #### the bridge and the one-chain nullness clause, about the translated source -/
section RegeneratedBridge
open D05

/-- `ext` touches string arguments only -/
theorem callOk_ext (P : Num → Bool) (cs : List RefineCall) :
    (cs.map ext).all (callOk P) = cs.all (callOk P) := by
  induction cs with
  | nil => rfl
  | cons c cs ih =>
    simp only [List.map, List.all_cons, ih]
    cases c <;> rfl

omit [Strings] in
/-- a panic of the model is a panic of the translated source -/
theorem panic_of_generated {α} {g m : Res α} (h : er g = er m) {w : String} (hm : m = .panic w) :
    g.isPanic = true := by
  rw [hm] at h
  cases g <;> simp [er] at h ⊢
  rfl

/-- "never widens its range", about the translated source run under THE CODE'S number equality, on integer inputs -/
theorem narrows_code_integers_generated (b b' : Builder) (cs : List RefineCall) (hb : builderOk intLike b = true)
    (hc : cs.all (callOk intLike) = true) (h : @Generated.RefineFns.run textOracle _ b cs = .ok b') (x : Conc)
    (hx : γB b' x = true) : γB b x = true :=
  narrows_code_integers b b' (cs.map ext) hb (by rw [callOk_ext]; exact hc)
    (ok_of_generated (@run_eq textOracle _ cs b) h) x hx

/-- end-to-end exactness, about the translated source under THE CODE'S number equality, on integer inputs -/
theorem refine_exact_code_integers_generated (v w : Value) (cs : List RefineCall) (hm : Modelled v)
    (hk : v.unmark.isKnown = false) (hd : isDynVal v.unmark = false)
    (hdr : (cs.map ext).all (fun c => !c.dropped) = true) (hv : valueOk intLike v = true)
    (hc : cs.all (callOk intLike) = true) (h : @Generated.RefineFns.refine textOracle _ v cs = .ok w) (x : Conc)
    (hx : x.fits = true) : γV w x = (γV v x && (cs.map ext).all (fun c => den c x)) :=
  refine_exact_code_integers v w (cs.map ext) hk hd hdr hv (by rw [callOk_ext]; exact hc)
    (ok_of_generated (@refine_eq textOracle _ v cs hm) h) x hx

/-- the end-to-end `Range()` statement, about the translated source under THE CODE'S number equality -/
theorem refine_range_exact_code_integers_generated (v w : Value) (cs : List RefineCall) (hm : Modelled v)
    (hk : v.unmark.isKnown = false) (hd : isDynVal v.unmark = false)
    (hdr : (cs.map ext).all (fun c => !c.dropped) = true) (hv : valueOk intLike v = true)
    (hc : cs.all (callOk intLike) = true) (h : @Generated.RefineFns.refine textOracle _ v cs = .ok w) :
    ∃ vr, range w.unmark = .ok vr ∧ vr.ty = v.ty ∧
      ∀ x, x.fits = true → vr.admitsN x = (γV v x && (cs.map ext).all (fun c => den c x)) :=
  refine_range_exact_code_integers v w (cs.map ext) hk hd hdr hv (by rw [callOk_ext]; exact hc)
    (ok_of_generated (@refine_eq textOracle _ v cs hm) h)

/-- … and under any exact oracle -/
theorem refine_range_exact_generated [ExactOracle] (v w : Value) (cs : List RefineCall) (hm : Modelled v)
    (hk : v.unmark.isKnown = false) (hd : isDynVal v.unmark = false)
    (hdr : (cs.map ext).all (fun c => !c.dropped) = true) (h : Generated.RefineFns.refine v cs = .ok w) :
    ∃ vr, range w.unmark = .ok vr ∧ vr.ty = v.ty ∧
      ∀ x, x.fits = true → vr.admitsN x = (γV v x && (cs.map ext).all (fun c => den c x)) :=
  refine_range_exact v w (cs.map ext) hk hd hdr (ok_of_generated (refine_eq v cs hm) h)

/-- contradictions are rejected — the translated source PANICS — under THE CODE'S number equality, on integer inputs -/
theorem rejects_contradiction_code_integers_generated (b : Builder) (c : RefineCall) (hw : b.wf = true)
    (hl : b.wip.lenOk = true) (hr : (ext c).isRange = true) (hx : (ext c).exclusiveInfinite = false)
    (hb : builderOk intLike b = true) (hc : callOk intLike c = true)
    (h1 : ∃ x, x ≠ .null ∧ γB b x = true) (h2 : ∀ x, x ≠ .null → (γB b x && den (ext c) x) = false)
    (b' : Builder) : @Generated.RefineFns.step textOracle _ b c ≠ .ok b' := fun h =>
  rejects_contradiction_code_integers b (ext c) hw hl hr hx hb
    (by have := callOk_ext intLike [c]; simp only [List.map, List.all_cons, List.all_nil, Bool.and_true] at this
        rw [this]; exact hc) h1 h2 b'
    (ok_of_generated (@step_eq textOracle _ b c) h)

/-- `Null()`, accepted calls, `NotNull()` in ONE chain of the translated source: the `NotNull()` panics and the
chain is never accepted — the translated `NotNull` reads the builder's `wip`, not `orig.Range()` -/
theorem null_then_notNull_panics_generated [EqOracle] (b : Builder) (hd : b.isDyn = false)
    (mid rest : List RefineCall) :
    (∀ b2, Generated.RefineFns.run b (.null :: mid) = .ok b2 →
      (Generated.RefineFns.step b2 .notNull).isPanic = true) ∧
    ∀ b', Generated.RefineFns.run b (.null :: (mid ++ .notNull :: rest)) ≠ .ok b' := by
  obtain ⟨k1, k2⟩ := null_then_notNull_panics b hd (mid.map ext) (rest.map ext)
  refine ⟨fun b2 h => ?_, fun b' h => ?_⟩
  · obtain ⟨w, hw⟩ := k1 b2 (ok_of_generated (run_eq (.null :: mid) b) h)
    exact panic_of_generated (step_eq b2 .notNull) hw
  · refine k2 b' ?_
    have := ok_of_generated (run_eq (.null :: (mid ++ .notNull :: rest)) b) h
    simpa [ext] using this

/-- the mirror image: `NotNull()`, accepted calls, `Null()` -/
theorem notNull_then_null_panics_generated [EqOracle] (b : Builder) (hd : b.isDyn = false)
    (mid rest : List RefineCall) :
    (∀ b2, Generated.RefineFns.run b (.notNull :: mid) = .ok b2 →
      (Generated.RefineFns.step b2 .null).isPanic = true) ∧
    ∀ b', Generated.RefineFns.run b (.notNull :: (mid ++ .null :: rest)) ≠ .ok b' := by
  obtain ⟨k1, k2⟩ := notNull_then_null_panics b hd (mid.map ext) (rest.map ext)
  refine ⟨fun b2 h => ?_, fun b' h => ?_⟩
  · obtain ⟨w, hw⟩ := k1 b2 (ok_of_generated (run_eq (.notNull :: mid) b) h)
    exact panic_of_generated (step_eq b2 .null) hw
  · refine k2 b' ?_
    have := ok_of_generated (run_eq (.notNull :: (mid ++ .null :: rest)) b) h
    simpa [ext] using this

-- the translated source, run under the code's oracle: `Null()` then a length bound is accepted, then `NotNull()` panics
example : (@Generated.RefineFns.run textOracle ⟨id, id⟩ sampleList [.null, .lenLower 3]).isOk = true ∧
    (@Generated.RefineFns.run textOracle ⟨id, id⟩ sampleList [.null, .lenLower 3, .notNull]).isPanic = true := by
  decide

end RegeneratedBridge

/-! #### slice d05b: the text-free bridge, known-collection lengths and infinite bounds, about the translated source -/
section RegeneratedD05b
open D05 D05b

/-- end-to-end exactness, about the translated source under THE CODE'S number equality, on a text-free input -/
theorem refine_exact_code_textfree_generated (v w : Value) (cs : List RefineCall) (hm : Modelled v)
    (hk : v.unmark.isKnown = false) (hd : isDynVal v.unmark = false)
    (hdr : (cs.map ext).all (fun c => !c.dropped) = true) (htf : textFree v (cs.map ext) = true)
    (h : @Generated.RefineFns.refine textOracle _ v cs = .ok w) (x : Conc) (hx : x.fits = true) :
    γV w x = (γV v x && (cs.map ext).all (fun c => den c x)) :=
  refine_exact_code_textfree v w (cs.map ext) hk hd hdr htf (ok_of_generated (@refine_eq textOracle _ v cs hm) h) x hx

/-- "never widens its range", about the translated source under THE CODE'S number equality, on a text-free input -/
theorem narrows_code_textfree_generated (b b' : Builder) (cs : List RefineCall)
    (htf : textFreeB b (cs.map ext) = true) (h : @Generated.RefineFns.run textOracle _ b cs = .ok b') (x : Conc)
    (hx : γB b' x = true) : γB b x = true :=
  narrows_code_textfree b b' (cs.map ext) htf (ok_of_generated (@run_eq textOracle _ cs b) h) x hx

/-- contradictions are rejected by the translated source under THE CODE'S number equality, on a text-free input -/
theorem rejects_contradiction_code_textfree_generated (b : Builder) (c : RefineCall) (hw : b.wf = true)
    (hl : b.wip.lenOk = true) (hr : (ext c).isRange = true) (hx : (ext c).exclusiveInfinite = false)
    (htf : textFreeB b [ext c] = true)
    (h1 : ∃ x, x ≠ .null ∧ γB b x = true) (h2 : ∀ x, x ≠ .null → (γB b x && den (ext c) x) = false)
    (b' : Builder) : @Generated.RefineFns.step textOracle _ b c ≠ .ok b' := fun h =>
  rejects_contradiction_code_textfree b (ext c) hw hl hr hx htf h1 h2 b'
    (ok_of_generated (@step_eq textOracle _ b c) h)

/-- `ext` leaves every call that is not a string prefix alone -/
theorem ext_of_lenCall (c : RefineCall) (hc : isLenCall c = true) : ext c = c := by
  cases c <;> simp [isLenCall] at hc <;> rfl

/-- a length constraint that excludes every possible length of the known receiver: the translated
`CollectionLengthLowerBound` / `…UpperBound` / `CollectionLength` PANIC (they compare with `b.orig.Length()` and test
that the ANSWER is known, not that the length is) -/
theorem known_length_excluded_panics_generated [EqOracle] (b : Builder) (c : RefineCall) (least most : Nat)
    (hd : b.isDyn = false) (hk : b.orig.isKnown = true) (hl : knownLength b.orig = .ok (least, most))
    (hc : isLenCall c = true) (hex : ∀ l : Nat, least ≤ l → l ≤ most → den c (.coll l) = false) :
    (Generated.RefineFns.step b c).isPanic = true := by
  obtain ⟨w, hw⟩ := known_length_excluded_panics b c least most hd hk hl hc hex
  have h := step_eq b c
  rw [ext_of_lenCall c hc] at h
  exact panic_of_generated h hw

/-- … and a constraint that admits some possible length is accepted by the translated source, on the builder
`Refine()` returns -/
theorem known_length_admitted_accepted_generated [EqOracle] (b : Builder) (c : RefineCall) (least most : Nat)
    (nl : Tri) (hd : b.isDyn = false) (hk : b.orig.isKnown = true)
    (hl : knownLength b.orig = .ok (least, most)) (hw : b.wip = .coll nl 0 maxInt) (hfit : (most : Int) ≤ maxInt)
    (hc : isLenCall c = true) (l : Nat) (h1 : least ≤ l) (h2 : l ≤ most) (h3 : den c (.coll l) = true) :
    (Generated.RefineFns.step b c).isOk = true := by
  obtain ⟨b', hb'⟩ := ((known_length_rejects_exactly b c least most nl hd hk hl hw hfit hc).1).mpr ⟨l, h1, h2, h3⟩
  have h := step_eq b c
  rw [ext_of_lenCall c hc, hb', er_ok] at h
  rw [er_eq_ok.mp h]; rfl

/-- an accepted chain of the translated source on a known collection holds jointly of some possible length -/
theorem known_collection_is_assertion_generated [EqOracle] (v w : Value) (cs : List RefineCall) (least most : Nat)
    (hm : Modelled v) (hl : knownLength v.unmark = .ok (least, most)) (hfit : (most : Int) ≤ maxInt)
    (h : Generated.RefineFns.refine v cs = .ok w) :
    ∃ l : Nat, least ≤ l ∧ l ≤ most ∧ γV v (.coll l) = true ∧ (cs.map ext).all (fun c => den c (.coll l)) = true :=
  known_collection_is_assertion v w (cs.map ext) least most hl hfit (ok_of_generated (refine_eq v cs hm) h)

/-- both nullness contradictions make the translated `Null()` / `NotNull()` PANIC, for every oracle -/
theorem nullness_contradiction_panics_generated [EqOracle] (b : Builder) (hd : b.isDyn = false) :
    (γB b .null = false → (Generated.RefineFns.step b .null).isPanic = true) ∧
    ((∃ x, x ≠ .null ∧ Conc.kindOk b.orig.ty x = true ∧ rangeOk b.wip x = true) →
      (∀ x, x ≠ .null → γB b x = false) → (Generated.RefineFns.step b .notNull).isPanic = true) := by
  refine ⟨fun h => ?_, fun h1 h2 => ?_⟩
  · obtain ⟨w, hw⟩ := (nullness_contradiction_panics b hd).1 h
    exact panic_of_generated (step_eq b .null) hw
  · obtain ⟨w, hw⟩ := (nullness_contradiction_panics b hd).2 h1 h2
    exact panic_of_generated (step_eq b .notNull) hw

/-- `ext` leaves a chain of `NotNull()` and length constraints alone -/
theorem map_ext_lenOrNotNull (cs : List RefineCall) (hc : cs.all isLenOrNotNull = true) : cs.map ext = cs := by
  induction cs with
  | nil => rfl
  | cons c cs ih =>
    simp only [List.all_cons, Bool.and_eq_true] at hc
    simp only [List.map, ih hc.2]
    cases c <;> simp [isLenOrNotNull, isLenCall] at hc <;> rfl

/-- EXACTLY, for whole chains of the translated source on a known collection: accepted iff some possible length
satisfies every call -/
theorem known_collection_chain_iff_generated [EqOracle] (v : Value) (cs : List RefineCall) (least most : Nat)
    (hmod : Modelled v) (hl : knownLength v.unmark = .ok (least, most)) (hfit : (most : Int) ≤ maxInt)
    (hm : v.unmark.v.isMarked = false) (hc : cs.all isLenOrNotNull = true) :
    (∃ w, Generated.RefineFns.refine v cs = .ok w) ↔
      ∃ l : Nat, least ≤ l ∧ l ≤ most ∧ cs.all (fun c => den c (.coll l)) = true := by
  have he := refine_eq v cs hmod
  rw [map_ext_lenOrNotNull cs hc] at he
  rw [← (known_collection_chain_iff v cs least most hl hfit hm hc).1]
  constructor
  · intro ⟨w, h⟩; exact ⟨w, ok_of_generated he h⟩
  · intro ⟨w, h⟩
    rw [h, er_ok] at he
    exact ⟨w, er_eq_ok.mp he⟩

/-- a lower bound of +∞ is recorded by the translated `NumberRangeLowerBound` and excludes every finite number -/
theorem far_lower_infinity_recorded_generated [EqOracle] (b b' : Builder) (a : NumArg) (incl : Bool)
    (hd : b.isDyn = false) (ha : a = .posInf ∨ a = .known (.inf false))
    (h : Generated.RefineFns.step b (.numLower a incl) = .ok b') :
    (∃ i, lowerOf b'.wip = some ⟨.inf false, i⟩) ∧ ∀ x, x ≠ .inf false → γB b' (.num x) = false :=
  far_lower_infinity_recorded b b' a incl hd ha (ok_of_generated (step_eq b (.numLower a incl)) h)

/-- an upper bound of −∞ is recorded by the translated `NumberRangeUpperBound` and excludes every finite number -/
theorem far_upper_infinity_recorded_generated [EqOracle] (b b' : Builder) (a : NumArg) (incl : Bool)
    (hd : b.isDyn = false) (ha : a = .negInf ∨ a = .known (.inf true))
    (h : Generated.RefineFns.step b (.numUpper a incl) = .ok b') :
    (∃ i, upperOf b'.wip = some ⟨.inf true, i⟩) ∧ ∀ x, x ≠ .inf true → γB b' (.num x) = false :=
  far_upper_infinity_recorded b b' a incl hd ha (ok_of_generated (step_eq b (.numUpper a incl)) h)

/-- only the near-side singleton is "no bound" in the translated source -/
theorem near_infinity_is_no_bound_generated [EqOracle] (b b' : Builder) (incl : Bool) :
    (Generated.RefineFns.step b (.numLower .negInf incl) = .ok b' → b'.wip = b.wip) ∧
    (Generated.RefineFns.step b (.numUpper .posInf incl) = .ok b' → b'.wip = b.wip) :=
  ⟨fun h => (near_infinity_is_no_bound b b' incl).1 (ok_of_generated (step_eq b (.numLower .negInf incl)) h),
   fun h => (near_infinity_is_no_bound b b' incl).2 (ok_of_generated (step_eq b (.numUpper .posInf incl)) h)⟩

-- the translated source run under the code's oracle: the known set {unknown, "a"} refuses length ≥ 3 and accepts
-- length ≥ 2; the unknown number records a lower bound of +∞
example : (@Generated.RefineFns.refine textOracle ⟨id, id⟩ sampleSet [.lenLower 3]).isPanic = true ∧
    (@Generated.RefineFns.refine textOracle ⟨id, id⟩ sampleSet [.lenLower 2]).isOk = true ∧
    @Generated.RefineFns.step textOracle ⟨id, id⟩ sampleNum (.numLower .posInf true) =
      .ok { sampleNum with wip := .num .u (some ⟨.inf false, true⟩) none } := ⟨by decide, by decide, by rfl⟩

end RegeneratedD05b

end Regenerated

end C05
end CtyModel
