/-
C05 — Refinements only narrow, are faithful, and prefixes are continuation-safe.

Property theorems only; helper lemmas live in `CtyModel/Lemmas/Refine*.lean`.
Every statement is about `Refine.init`, `Refine.step`, `Refine.run`,
`Refine.newValue`, `Refine.range` and `Refine.safeKnownPrefix` — the
transliterations of `Value.Refine`, the `RefinementBuilder` methods, `NewValue`,
`Value.Range` and `ctystrings.SafeKnownPrefix` that the correspondence harness
diffs against /repo on every run — and about the SPECIFICATION written next to
them in plain set vocabulary:

* `Conc`   a concrete value as far as a refinement can tell values apart
           (null, a number, a string, a collection of some length, anything else);
* `γ t r`  the concrete values an unknown value of type `t` with refinement `r` admits;
           `γB b` for a builder, `γV v` for a value (a known value admits itself);
* `den c`  ⟦c⟧, the concrete values that satisfy one stated constraint.

The theorems hold for ALL receivers, ALL call sequences (induction over
`List RefineCall`), all numbers (exact comparison, any precision, ±∞).
`Res.ok` is "the Go call returned"; a Go panic is `Res.panic`; `Res.unmodelled`
marks the comparisons of two non-integers of different precision whose answer
depends on math/big's shortest decimal text (the model then answers nothing).
-/
import CtyModel.Lemmas.RefineEnds
import CtyModel.Lemmas.RefinePrefix
namespace CtyModel
namespace C05
open Refine

/-! ## "never changes its type" -/

/-- Refining a value never changes its type (nor, one call at a time, the value
being refined and its marks). -/
theorem type_preserved (v w : Value) (cs : List RefineCall) (h : refine v cs = .ok w) : w.ty = v.ty := by
  obtain ⟨b, b', hi, hr, hn⟩ := refine_ok h
  obtain ⟨ho, _, hwf, _, _⟩ := init_ok hi
  obtain ⟨hs, hw', _⟩ := run_base hr
  rw [newValue_ty (hw' hwf) hn, hs.1, ho]; rfl

/-- … step by step: an accepted call leaves the receiver and its marks alone. -/
theorem step_keeps_receiver (b b' : Builder) (cs : List RefineCall) (h : run b cs = .ok b') :
    b'.orig = b.orig ∧ b'.marks = b.marks := (run_base h).1

/-! ## "never widens its range" -/

/-- γ after ⊆ γ before, for every call sequence on every builder: a concrete value
excluded before stays excluded. -/
theorem narrows (b b' : Builder) (cs : List RefineCall) (h : run b cs = .ok b') (x : Conc)
    (hx : γB b' x = true) : γB b x = true := (run_base h).2.2 x hx

/-- The same between the value refined and the value returned by `NewValue`, for
every receiver (unknown, already refined, known, marked, `cty.DynamicVal`). -/
theorem refine_narrows (v w : Value) (cs : List RefineCall) (h : refine v cs = .ok w) (x : Conc)
    (hx : γV w x = true) : γV v x = true := by
  obtain ⟨b, b', hi, hr, hn⟩ := refine_ok h
  obtain ⟨ho, _, hwf, hm, _⟩ := init_ok hi
  obtain ⟨hs, hw', hnar⟩ := run_base hr
  have hm' : b'.orig.v.isMarked = false := by rw [hs.1]; exact hm
  by_cases hk : b'.orig.isKnown = true
  · -- known receiver: the value itself comes back
    rw [newValue_known hk] at hn; simp at hn; subst hn
    rw [γV_withMarks hm', hs.1, ho, γV_unmark] at hx; exact hx
  · by_cases hd : b'.isDyn = true
    · rw [newValue_dyn hd] at hn; simp at hn; subst hn
      rw [γV_withMarks hm', hs.1, ho, γV_unmark] at hx; exact hx
    · have hk' : b'.orig.isKnown = false := by simpa using hk
      rw [(newValue_exact (hw' hwf) hk' (by simpa using hd) hn).2] at hx
      exact init_γ_le hi (by rw [← ho, ← hs.1]; exact hk') x (hnar x hx)

/-! ## "a value satisfying every constraint stated so far stays admitted; the
reported range is exactly what the stated constraints imply" -/

/-- FULL STATEMENT: every accepted call turns the admitted set into exactly
`γ b ∩ ⟦c⟧`.  (`cty.DynamicVal` is excluded by the property itself, see
`dynamic_ignores`.)  False of the code: see `exact_counterexample`. -/
def Exact : Prop :=
  ∀ (b b' : Builder) (c : RefineCall), b.isDyn = false → step b c = .ok b' →
    ∀ x, γB b' x = (γB b x && den c x)

/-- The strongest part that holds: `γ (step b c) = γ b ∩ ⟦c⟧` at every concrete
value except the single point where a *dropped* bound bites
(`RefineCall.droppedAt`: the call is `NumberRangeLowerBound(cty.NegativeInfinity,
false)` and the value is −∞, or the mirror image). -/
theorem exact_partial (b b' : Builder) (c : RefineCall) (hd : b.isDyn = false) (h : step b c = .ok b')
    (x : Conc) (hx : c.droppedAt x = false) : γB b' x = (γB b x && den c x) := by
  have e := (step_effect hd h).2.2.2
  split at e
  · rename_i hdrop
    rw [e x, den_dropped hdrop hx, Bool.and_true]
  · exact e x

/-- … in particular for every call that is not of the dropped shape. -/
theorem exact_of_not_dropped (b b' : Builder) (c : RefineCall) (hd : b.isDyn = false) (hc : c.dropped = false)
    (h : step b c = .ok b') (x : Conc) : γB b' x = (γB b x && den c x) :=
  exact_partial b b' c hd h x (by
    cases hx : c.droppedAt x
    · rfl
    · rw [droppedAt_dropped hx] at hc; cases hc)

/-- The recorded finding `exact [exclusive-singleton-infinity-dropped]`:
`cty.UnknownVal(cty.Number).Refine().NumberRangeLowerBound(cty.NegativeInfinity, false)`
is accepted and records nothing, although the constraint excludes −∞. -/
theorem exact_counterexample : ¬ Exact := by
  intro h
  have := h ⟨⟨.number, .unk .unref⟩, [], .num .u none none⟩ ⟨⟨.number, .unk .unref⟩, [], .num .u none none⟩
    (.numLower .negInf false) rfl rfl (.num (.inf true))
  revert this
  decide

/-- Whole call sequences: when no call has the dropped shape, the admitted set is
exactly what the receiver admitted intersected with every stated constraint. -/
theorem run_exact_partial (b b' : Builder) (cs : List RefineCall) (hd : b.isDyn = false)
    (hc : cs.all (fun c => !c.dropped) = true) (h : run b cs = .ok b') (x : Conc) :
    γB b' x = (γB b x && cs.all (fun c => den c x)) := (run_effect hd h).2.2.2.2 hc x

/-- End to end, on values: refining an unknown value (refined or not) returns a
value that admits exactly the concrete values the receiver admitted which satisfy
every stated constraint — be the result unknown or collapsed to a known value.
(`x.fits`: a concrete collection has at most `math.MaxInt` elements.) -/
theorem refine_exact_partial (v w : Value) (cs : List RefineCall)
    (hk : v.unmark.isKnown = false) (hd : isDynVal v.unmark = false)
    (hc : cs.all (fun c => !c.dropped) = true) (h : refine v cs = .ok w) (x : Conc) (hx : x.fits = true) :
    γV w x = (γV v x && cs.all (fun c => den c x)) := by
  obtain ⟨b, b', hi, hr, hn⟩ := refine_ok h
  obtain ⟨ho, _, hwf, _, _⟩ := init_ok hi
  have hd' : b.isDyn = false := by unfold Builder.isDyn; rw [ho]; exact hd
  obtain ⟨hs, hw', _, _, hex⟩ := run_effect hd' hr
  rw [(newValue_exact (hw' hwf) (by rw [hs.1, ho]; exact hk)
    (by rw [Builder.isDyn_congr hs]; exact hd') hn).2, hex hc x, init_γ hi hk x hx]

/-- `Range()` reports exactly what was recorded: the accessors of the returned
value's range (`CouldBeNull`, `NumberLowerBound`/`UpperBound` with inclusiveness,
`StringPrefix`, `LengthLowerBound`/`UpperBound`) admit exactly the concrete values
the builder's record admits.  An absent bound is reported as an inclusive infinity. -/
theorem range_reports_exact (b : Builder) (w : Value) (hw : b.wf = true) (hk : b.orig.isKnown = false)
    (hd : b.isDyn = false) (h : newValue b = .ok w) (hu : w.isKnown = false) :
    ∃ vr, range w.unmark = .ok vr ∧ vr.ty = b.orig.ty ∧ ∀ x, x.fits = true → vr.admits x = γB b x := by
  obtain ⟨hkind, hunm, hnn⟩ := newValue_unknown hw hk hd h hu
  obtain ⟨vr, h1, h2, h3⟩ := range_admits hkind hnn
  exact ⟨vr, by rw [hunm]; exact h1, h2, fun x hx => h3 x hx⟩

/-! ## "a constraint that contradicts … earlier constraints is rejected rather than accepted" -/

/-- FULL STATEMENT: a range constraint (anything but `NotNull`/`Null`) that leaves
no non-null value, where the receiver admitted one, is not accepted.  False of the
code: see `rejects_contradiction_counterexample`. -/
def RejectsContradiction : Prop :=
  ∀ (b : Builder) (c : RefineCall), b.wf = true → b.wip.lenOk = true → c.isRange = true →
    (∃ x, x ≠ .null ∧ γB b x = true) → (∀ x, x ≠ .null → (γB b x && den c x) = false) →
    ∀ b', step b c ≠ .ok b'

/-- The strongest part that holds: every contradiction is rejected (the call
panics — or, for two non-integers of different precision, the model gives no
answer) unless the new constraint is an *exclusive* bound at an infinity
(`RefineCall.exclusiveInfinite`).  Covers exclusive-versus-inclusive ties, the
empty open interval `5 < x < 5`, incompatible prefixes, crossing length bounds,
and both halves of `NumberRangeInclusive` / `CollectionLength`. -/
theorem rejects_contradiction_partial (b : Builder) (c : RefineCall) (hw : b.wf = true)
    (hl : b.wip.lenOk = true) (hr : c.isRange = true) (hx : c.exclusiveInfinite = false)
    (h1 : ∃ x, x ≠ .null ∧ γB b x = true) (h2 : ∀ x, x ≠ .null → (γB b x && den c x) = false)
    (b' : Builder) : step b c ≠ .ok b' := step_rejects hw hl hr hx h1 h2 b'

/-- The recorded finding `rejects-contradiction [exclusive-infinite-bound]`:
`cty.UnknownVal(cty.Number).Refine().NumberRangeUpperBound(cty.NegativeInfinity, false)`
(x < −∞) is accepted although no number satisfies it. -/
theorem rejects_contradiction_counterexample : ¬ RejectsContradiction := by
  intro h
  refine h ⟨⟨.number, .unk .unref⟩, [], .num .u none none⟩ (.numUpper .negInf false) rfl rfl rfl
    ⟨.num (.inf true), by decide, by decide⟩ ?_
    ⟨⟨.number, .unk .unref⟩, [], .num .u none (some ⟨.inf true, false⟩)⟩ rfl
  intro x _
  cases x with
  | num y =>
    have : belowUpper (some ⟨.inf true, false⟩) y = false := by
      cases hb : belowUpper (some ⟨.inf true, false⟩) y
      · rfl
      · exact absurd (Le.negInf y) (belowUpper_excl.mp hb).not_le
    simp [den, argUpper, this]
  | null => exact absurd rfl ‹_›
  | _ => rfl

/-- The same finding seen through the dropped bound (`exact
[exclusive-singleton-infinity-dropped]`): after `x ≤ −∞` the constraint
`x > cty.NegativeInfinity` is accepted, because it is never recorded. -/
theorem rejects_contradiction_counterexample_dropped : ¬ RejectsContradiction := by
  intro h
  refine h ⟨⟨.number, .unk .unref⟩, [], .num .u none (some ⟨.inf true, true⟩)⟩ (.numLower .negInf false) rfl rfl rfl
    ⟨.num (.inf true), by decide, by decide⟩ ?_
    ⟨⟨.number, .unk .unref⟩, [], .num .u none (some ⟨.inf true, true⟩)⟩ rfl
  intro x _
  cases x with
  | num y =>
    cases hb : belowUpper (some ⟨.inf true, true⟩) y
    · simp [γB, γ, rangeOk, hb]
    · have hy : y = .inf true := by
        have h1 := belowUpper_incl.mp hb
        have h2 := Le.negInf y
        exact (NumCmp.cmp_negInf_eq y).mp (le_antisymm_iff.mpr ⟨h1, h2⟩)
      subst hy
      decide
  | null => exact absurd rfl ‹_›
  | _ => rfl

/-- Repair 04d8485 in the form of a theorem: after `x > m` (and no upper bound yet)
the constraint `x < m` is not accepted — it used to be (finding #8 of the design
document: `5 < x < 5`). -/
theorem open_point_interval_rejected (b b' : Builder) (n : Tri) (m : Num)
    (hw : b.wip = .num n (some ⟨m, false⟩) none) (hd : b.isDyn = false) :
    step b (.numUpper (.known m) false) ≠ .ok b' := by
  intro h
  unfold step at h
  rw [hd] at h
  simp only [Bool.false_eq_true, if_false, hw, reduceCtorEq, step1] at h
  obtain ⟨n', lo', hi', hw', hcase⟩ := stepNumUpper_ok h
  rw [hw] at hw'; cases hw'
  rcases hcase with ⟨hu, _⟩ | ⟨m', hm', hcore⟩
  · cases hu
  · simp only [NumArg.num?, Option.some.injEq] at hm'; subst hm'
    obtain ⟨_, hc⟩ := upperCore_ok hcore
    rcases hc with ⟨_, ht⟩ | ⟨_, _, hcons⟩
    · simp [upperTighter?] at ht
    · have : (NumArg.known m != NumArg.posInf) = true := rfl
      rw [this] at hcons
      simp [consistent?] at hcons
      exact Lt.irrefl m (lt_iff.mp hcons)

/-- `Null()` on a receiver that does not admit null is not accepted … -/
theorem rejects_null_contradiction (b b' : Builder) (hd : b.isDyn = false) (h : γB b .null = false) :
    step b .null ≠ .ok b' := step_null_rejects hd h b'

/-- … and `NotNull()` on a receiver that admits no non-null value although its
recorded range is satisfiable (that is: a receiver that is definitely null) is
not accepted. -/
theorem rejects_notNull_contradiction (b b' : Builder) (hd : b.isDyn = false)
    (h1 : ∃ x, x ≠ .null ∧ Conc.kindOk b.orig.ty x = true ∧ rangeOk b.wip x = true)
    (h2 : ∀ x, x ≠ .null → γB b x = false) : step b .notNull ≠ .ok b' :=
  step_notNull_rejects hd h1 h2 b'

/-! ## "the result becomes a known value only if that value admits exactly what
the refinement admitted" -/

/-- Whatever `NewValue` returns for an unknown receiver — an unknown value carrying
the record, or a known value (null; the number of two equal inclusive bounds; the
empty list/set/map; a list of n unknown elements; a set of one unknown element) —
admits exactly the concrete values the record admitted. -/
theorem newValue_known_exact (b : Builder) (w : Value) (hw : b.wf = true) (hk : b.orig.isKnown = false)
    (hd : b.isDyn = false) (h : newValue b = .ok w) (x : Conc) : γV w x = γB b x :=
  (newValue_exact hw hk hd h).2 x

/-- The collapses the code performs.  Definitely null → the null value. -/
theorem newValue_null (b : Builder) (hk : b.orig.isKnown = false) (hd : b.isDyn = false)
    (hn : b.wip.nullness = .t) : newValue b = .ok ((Value.null b.orig.ty).withMarks b.marks) := by
  unfold newValue
  simp only [hk, hd, Bool.or_self, Bool.false_eq_true, if_false]
  cases hw : b.wip <;> rw [hw] at hn <;> simp [Rfn.nullness] at hn <;> simp [Rfn.nullness, hn]

/-- Not null, equal inclusive bounds → that number. -/
theorem newValue_point (b : Builder) (m m' : Num) (hk : b.orig.isKnown = false) (hd : b.isDyn = false)
    (hw : b.wip = .num .f (some ⟨m, true⟩) (some ⟨m', true⟩)) (he : numEq? m m' = some true) :
    newValue b = .ok ((⟨b.orig.ty, .n m⟩ : Value).withMarks b.marks) := by
  unfold newValue
  simp [hk, hd, hw, Rfn.nullness, collapse, he]

/-- Not null, length exactly n ≥ 0, a list → the list of n unknown elements (empty for n = 0). -/
theorem newValue_list_length (b : Builder) (e : Ty) (n : Nat) (hk : b.orig.isKnown = false)
    (hd : b.isDyn = false) (ht : b.orig.ty = .list e) (hw : b.wip = .coll .f n n) :
    newValue b = .ok ((⟨.list e, .seq (List.replicate n (.unk .unref))⟩ : Value).withMarks b.marks) := by
  unfold newValue
  cases n with
  | zero => simp [hk, hd, hw, ht, Rfn.nullness, collapse]
  | succ k =>
    have h1 : ((k : Int) + 1 = 0) = False := by simp; omega
    have h2 : ((k : Int) + 1 < 0) = False := by simp; omega
    simp [hk, hd, hw, ht, Rfn.nullness, collapse, h1, h2]

/-- Not null, length exactly 0 or 1, a set → the empty set / the set of one unknown element;
not null, length exactly 0, a map → the empty map. -/
theorem newValue_set_map_length (b : Builder) (e : Ty) (hk : b.orig.isKnown = false) (hd : b.isDyn = false) :
    (b.orig.ty = .set e → b.wip = .coll .f 0 0 →
      newValue b = .ok ((⟨.set e, .sset [] []⟩ : Value).withMarks b.marks)) ∧
    (b.orig.ty = .set e → b.wip = .coll .f 1 1 →
      newValue b = .ok ((⟨.set e, .sset [unknownBucket] [.unk .unref]⟩ : Value).withMarks b.marks)) ∧
    (b.orig.ty = .map e → b.wip = .coll .f 0 0 →
      newValue b = .ok ((⟨.map e, .smap [] []⟩ : Value).withMarks b.marks)) := by
  refine ⟨fun ht hw => ?_, fun ht hw => ?_, fun ht hw => ?_⟩ <;>
    (unfold newValue; simp [hk, hd, hw, ht, Rfn.nullness, collapse])

/-! ## "the type-unknown dynamic value ignores refinement" -/

/-- Refining `cty.DynamicVal` — marked or not, with any calls, also calls that would
panic on every other receiver — returns `cty.DynamicVal` with the same marks; and
every single call leaves the builder as it was. -/
theorem dynamic_ignores (v : Value) (cs : List RefineCall) (hd : isDynVal v.unmark = true) :
    refine v cs = .ok (v.unmark.withMarks v.marks) ∧
    ∀ (b : Builder) (c : RefineCall), b.isDyn = true → step b c = .ok b :=
  ⟨refine_dyn v cs hd, fun _ c hb => step_dyn hb c⟩

/-! ## "a constraint that contradicts a known value … is rejected rather than accepted" -/

/-- Refining a known value: if the call sequence is accepted, the receiver comes
back (its marks restored) and every call of the sequence holds of it.  `x` is the
concrete value the receiver stands for (a set with unknown members stands for none). -/
theorem known_is_assertion (v w : Value) (cs : List RefineCall) (x : Conc) (hk : v.unmark.isKnown = true)
    (hx : concOf v.unmark = some x) (h : refine v cs = .ok w) :
    w = v.unmark.withMarks v.marks ∧ cs.all (fun c => den c x) = true := refine_known hk hx h

/-- … and "its marks restored" is the receiver itself. -/
theorem known_returned_unchanged (v w : Value) (cs : List RefineCall) (hk : v.unmark.isKnown = true)
    (hm : v.v.isMarked = true → v.marks ≠ []) (h : refine v cs = .ok w) : w = v := by
  obtain ⟨b, b', hi, hr, hn⟩ := refine_ok h
  obtain ⟨ho, hmk, _, hmm, _⟩ := init_ok hi
  obtain ⟨hs, _, _⟩ := run_base hr
  rw [newValue_known (by rw [hs.1, ho]; exact hk)] at hn
  simp at hn
  rw [← hn, hs.1, hs.2, ho, hmk]
  exact withMarks_unmark_self (by rw [← ho]; exact hmm) hm

/-- The contrapositive: a sequence containing a call the known value violates is not
accepted (it panics at or before that call).  With repair 3781f27 this includes a
prefix longer than the known string. -/
theorem known_violation_rejected (v : Value) (cs : List RefineCall) (x : Conc) (hk : v.unmark.isKnown = true)
    (hx : concOf v.unmark = some x) (hv : cs.any (fun c => !den c x) = true) (w : Value) :
    refine v cs ≠ .ok w := by
  intro h
  have := (refine_known hk hx h).2
  simp only [List.any_eq_true, List.all_eq_true, Bool.not_eq_eq_eq_not, Bool.not_true] at hv this
  obtain ⟨c, hc, hf⟩ := hv
  rw [this c hc] at hf; cases hf

/-- The converse ("a call that holds of the known value is accepted") is NOT part of
the property and is false of the code: a range call on a known *null* number panics
(`min.GreaterThan(null)`), although range constraints say nothing about null. -/
theorem known_assertion_converse_counterexample :
    ¬ (∀ (v : Value) (cs : List RefineCall) (x : Conc), v.unmark.isKnown = true → concOf v.unmark = some x →
        cs.all (fun c => den c x) = true → (refine v cs).isPanic = false) := by
  intro h
  have := h ⟨.number, .null⟩ [.numLower (.known (.fin false 0 0 64)) true] .null rfl rfl rfl
  revert this
  decide

/-! ## "a string prefix recorded through the safe constructor is a byte prefix of the
normalized form of every string that extends the given prefix" -/

/-- Structural, for any delimiter table and any answers of the Unicode libraries:
`SafeKnownPrefix(p)` is a byte prefix of NFC(p) … -/
theorem safePrefix_is_prefix (delims nfc : List UInt8) (lastBoundary : Int) (advances : List Nat) :
    safeKnownPrefix delims nfc lastBoundary advances <+: nfc :=
  safeKnownPrefix_prefix delims nfc lastBoundary advances

/-- … and never extends beyond the last normalisation boundary, when there is one. -/
theorem safePrefix_le_lastBoundary (delims nfc : List UInt8) (lastBoundary : Int) (advances : List Nat)
    (h : 0 ≤ lastBoundary) :
    (safeKnownPrefix delims nfc lastBoundary advances).length ≤ lastBoundary.toNat :=
  safeKnownPrefix_length_le delims nfc lastBoundary advances h

/-- Hence, under the streaming law of normalisation `E.lastBoundary_stable` (a field of
`Ext`, probed against x/text on every run): the safe prefix of `p` is a byte prefix of
NFC(p ++ c) for EVERY continuation `c`.  (When NFC(p) has no normalisation boundary at all,
`lastBoundary = −1`, the law says nothing; that case is covered by search only.) -/
theorem safePrefix_continuation_safe (E : Ext) (delims p c : List UInt8)
    (h : 0 ≤ E.lastBoundary (E.nfc p)) : E.safe delims p <+: E.nfc (p ++ c) :=
  E.safe_continuation delims p c h

/-- In the vocabulary of refinements: the constraint `StringPrefix(p)` records holds of
every string that extends `p`. -/
theorem safePrefix_constraint_holds (E : Ext) (delims p c : List UInt8) (s : String)
    (hs : bytes s = E.safe delims p) (h : 0 ≤ E.lastBoundary (E.nfc p)) :
    den (.stringPrefix s) (.str (E.nfc (p ++ c))) = true := by
  simp only [den, hs]
  exact List.isPrefixOf_iff_prefix.mpr (E.safe_continuation delims p c h)

/-! ## Non-vacuity: the hypotheses used above are satisfiable by non-trivial values -/

/-- an unknown number already refined to `[1, +∞)` -/
def sampleNum : Builder := ⟨⟨.number, .unk .unref⟩, ["m"], .num .u (some ⟨.fin false 1 0 64, true⟩) none⟩
/-- an unknown list of strings refined to length ≥ 2 -/
def sampleList : Builder := ⟨⟨.list .string, .unk .unref⟩, [], .coll .u 2 maxInt⟩

example : sampleNum.wf = true ∧ sampleNum.isDyn = false ∧ sampleNum.orig.isKnown = false ∧
    sampleList.wf = true ∧ sampleList.wip.lenOk = true := by decide

-- `exact_partial`, `narrows`: an accepted, non-dropped call
example : (RefineCall.numUpper (.known (.fin false 3 0 64)) false).dropped = false ∧
    step sampleNum (.numUpper (.known (.fin false 3 0 64)) false) =
      .ok { sampleNum with wip := .num .u (some ⟨.fin false 1 0 64, true⟩) (some ⟨.fin false 3 0 64, false⟩) } :=
  ⟨rfl, rfl⟩

-- `rejects_contradiction_partial`: length ≥ 2 recorded, `CollectionLengthUpperBound(1)` leaves nothing
example : (RefineCall.lenUpper 1).isRange = true ∧ (RefineCall.lenUpper 1).exclusiveInfinite = false ∧
    (∃ x, x ≠ .null ∧ γB sampleList x = true) ∧
    (∀ x, x ≠ .null → (γB sampleList x && den (.lenUpper 1) x) = false) := by
  refine ⟨rfl, rfl, ⟨.coll 2, by decide, by decide⟩, fun x _ => ?_⟩
  cases x with
  | coll k =>
    simp [γB, γ, sampleList, rangeOk, den, Conc.kindOk, nullOk]
    omega
  | null => exact absurd rfl ‹_›
  | _ => rfl

-- `range_reports_exact`, `newValue_known_exact`: `NewValue` returns, and the result is unknown
example : ∃ w, newValue sampleNum = .ok w ∧ w.isKnown = false := ⟨_, rfl, rfl⟩

-- `known_is_assertion`: the known number 2 with two assertions that hold of it
example : concOf ⟨.number, .n (.fin false 1 1 64)⟩ = some (.num (.fin false 1 1 64)) ∧
    (refine ⟨.number, .n (.fin false 1 1 64)⟩ [.numLower (.known (.fin false 1 0 64)) false, .notNull]).isOk = true := by
  decide

-- the streaming law is satisfiable, with a boundary present
example : 0 ≤ Ext.inert.lastBoundary (Ext.inert.nfc [97, 45]) := by decide

end C05
end CtyModel
