/-
C10 — The function-call protocol enforces every declared parameter contract.

Property theorems only; helper lemmas live in `CtyModel/Lemmas/FnCall.lean` and
`FnCall2.lean`.  Every statement is about `Fn.call`, `Fn.callUnrefined`,
`Fn.returnTypeForValuesPub`, `Fn.returnType`, `Fn.proxy`, `Fn.Spec.withNewDescriptions` —
the transliterations of `Function.Call`, `Function.ReturnTypeForValues`,
`Function.ReturnType`, `Function.Proxy`, `Function.WithNewDescriptions`
(cty/function/function.go) that the correspondence harness diffs against /repo
on every run — for ALL specifications `spec` (any number of positional
parameters, optional variadic parameter, every flag combination, optional
`RefineResult`), ALL callbacks `tf` (`Spec.Type`), `impl` (`Spec.Impl`) and
`spec.refine` (arbitrary functions answering ok / error / panic) and ALL argument
lists `args`.

Second component of `call …`: the trace of callback invocations, in order, with
the argument lists the callbacks were handed (`Event.type`, `.impl`, `.refine`).
"`Impl` ran" is `Event.impl as rt ∈ (call …).2`.

Vocabulary (Lemmas/FnCall.lean, FnCall2.lean):
  `spec.paramFor i`      the parameter governing argument `i` (the variadic one for the tail)
  `spec.countOK n`       `n` arguments are acceptable by number
  `p.check v = none`     argument `v` passes the per-argument checks of parameter `p`
                         (`arg_checks_meaning` below says what that means)
  `FirstFailAt spec args k f`  `k` is the LEAST position whose argument fails, for reason `f`
  `AllPass spec args`    no position fails
  `SomeUnknownBlocked`   some argument is unknown and its parameter lacks `AllowUnknown`
  `Unhandled spec args m` mark `m` occurs at some depth of an argument whose parameter lacks `AllowMarked`
  `WithUnhandled spec args v u`  `u` is `v` with exactly the unhandled marks added at the top
  `typeArgs` / `implArgs` the argument lists handed to `Type` / `Impl`
  `typed v`              `v.IsKnown() || v.Type() != DynamicPseudoType` (what the refinement applies to)
  `finish spec o`        the deferred `RefineResult` step applied to outcome `o`
  `CallCase … k o`       the decision table of `Call` (one constructor per row)

Two hypotheses are representation invariants of Go values, not restrictions on
the quantifier: `ArgsWF` (marker layers as `Mark`/`WithMarks` build them: never
an empty mark set, never a marker directly inside a marker) and `TypeFnWF` (the
`Type` callback answers a `cty.Type`: `Ty.wf`, C07 — object attribute names
distinct).  They appear exactly where needed.
-/
import CtyModel.Lemmas.FnCall2
import CtyModel.Lemmas.FnCallTie
import CtyModel.Lemmas.d10FnNotNull
namespace CtyModel
namespace C10
open Fn
open Fn.D10 (Func Wrapper Entry Ans wrap run wrapRun unpredictableImpl notNull refinePanics toRefineFn
  RefinePayloadUnmarked NullOrDefinitelyNull wrappersOK)

/-- marker layers as cty's constructors build them -/
def ArgsWF (args : List Value) : Prop := ∀ v ∈ args, v.v.markerWF = true

/-- the `Type` callback answers well-formed types -/
def TypeFnWF (tf : TypeFn) : Prop := ∀ as t, tf as = .ok t → Ty.wf t = true

/-! ### what the per-argument checks mean -/

/-- The per-argument checks of `returnTypeForValues`, in plain words: an argument passes iff
it is non-null unless `AllowNull`, not dynamically typed unless `AllowDynamicType`, and
(unless dynamically typed) of a type conforming to the parameter's constraint; and it
fails for the reason `null` / `dynamic` / `nonconforming` exactly in source order. -/
theorem arg_checks_meaning (p : Param) (v : Value) :
    (p.check v = none ↔
      (v.isNull = true → p.allowNull = true) ∧ (v.ty.isDyn = true → p.allowDynamic = true) ∧
      (v.ty.isDyn = false → Ty.conformErrs p.ty v.ty = 0)) ∧
    (p.check v = some .null ↔ v.isNull = true ∧ p.allowNull = false) ∧
    (p.check v = some .dynamic ↔
      ¬ (v.isNull = true ∧ p.allowNull = false) ∧ v.ty.isDyn = true ∧ p.allowDynamic = false) ∧
    (p.check v = some .nonconforming ↔
      ¬ (v.isNull = true ∧ p.allowNull = false) ∧ v.ty.isDyn = false ∧ Ty.conformErrs p.ty v.ty ≠ 0) := by
  unfold Param.check
  cases v.isNull <;> cases p.allowNull <;> cases v.ty.isDyn <;> cases p.allowDynamic <;>
    by_cases h : Ty.conformErrs p.ty v.ty = 0 <;> simp [h]

/-! ### the trace -/

/-- One `Call` invokes `Type` at most once and first, then `Impl` at most once, then
`RefineResult` at most once — and nothing else, in no other order. -/
theorem trace_shape (spec : Spec) (tf : TypeFn) (impl : ImplFn) (args : List Value) :
    (call spec tf impl args).2 = [] ∨
    (call spec tf impl args).2 = [.type (typeArgs spec args)] ∨
    (∃ v, (call spec tf impl args).2 = [.type (typeArgs spec args), .refine v]) ∨
    (∃ rt, (call spec tf impl args).2 = [.type (typeArgs spec args), .impl (implArgs spec args) rt]) ∨
    (∃ rt v, (call spec tf impl args).2 =
      [.type (typeArgs spec args), .impl (implArgs spec args) rt, .refine v]) := by
  rw [call_eq_finish]
  obtain ⟨k, o, ho, hk⟩ := callUnrefined_case' spec tf impl args
  rw [ho]
  rcases finish_trace' spec o with e | ⟨u, hu, ht, e⟩
  · rw [e]; cases hk <;> simp
  · rw [e]
    cases hk with
    | dynShort k' u' hc hat hwu =>
      simp only [Out.ok.injEq] at hu; subst hu
      rw [not_typed_of_unknown_dyn hwu] at ht; simp at ht
    | _ => simp at hu ⊢

/-! ### clause 1: "the implementation callback runs only after the type-check callback accepted the same arguments" -/

/-- If `Impl` ran — with arguments `as` and return type `rt` — then the `Type` callback had
been invoked before it, immediately before and as the first callback of the call, on
`typeArgs spec args`; it answered `ok rt` (the very type `Impl` is handed); only a
`RefineResult` invocation can follow; and the two callbacks saw the same arguments, which
are the caller's: equal up to (deep) unmarking in general, and literally the same list
for values whose marker layers are built by cty's constructors. -/
theorem impl_only_after_type (spec : Spec) (tf : TypeFn) (impl : ImplFn) (args as : List Value) (rt : Ty)
    (h : Event.impl as rt ∈ (call spec tf impl args).2) :
    tf (typeArgs spec args) = .ok rt ∧
    (∃ tail, (call spec tf impl args).2 = .type (typeArgs spec args) :: .impl as rt :: tail ∧
      (tail = [] ∨ ∃ v, tail = [.refine v])) ∧
    as.map Value.unmarkDeep = (typeArgs spec args).map Value.unmarkDeep ∧
    as.map Value.unmarkDeep = args.map Value.unmarkDeep ∧
    (ArgsWF args → as = typeArgs spec args) := by
  rw [call_eq_finish] at h ⊢
  obtain ⟨k, hk⟩ := callUnrefined_case spec tf impl args
  obtain ⟨hc, _, _, ht, rfl, htr⟩ := hk.impl_event (mem_finish_trace_impl.mp h)
  refine ⟨ht, ?_, ?_, implArgs_unmarkDeep hc, fun hw => (typeArgs_eq_implArgs spec args hw).symm⟩
  · rcases finish_trace' spec (callUnrefined spec tf impl args) with e | ⟨u, _, _, e⟩
    · exact ⟨[], by rw [e, htr], Or.inl rfl⟩
    · exact ⟨[.refine u.unmark], by rw [e, htr]; rfl, Or.inr ⟨_, rfl⟩⟩
  · rw [implArgs_unmarkDeep hc, typeArgs_unmarkDeep hc]

/-- No callback runs unless the argument count is acceptable and EVERY argument passes the
per-argument checks; `Impl` moreover only if no argument is unknown without `AllowUnknown`. -/
theorem callbacks_only_for_acceptable_args (spec : Spec) (tf : TypeFn) (impl : ImplFn) (args : List Value) :
    (∀ as, Event.type as ∈ (call spec tf impl args).2 →
      spec.countOK args.length = true ∧ AllPass spec args ∧ as = typeArgs spec args) ∧
    (∀ as rt, Event.impl as rt ∈ (call spec tf impl args).2 →
      spec.countOK args.length = true ∧ AllPass spec args ∧ ¬ SomeUnknownBlocked spec args ∧
      as = implArgs spec args) := by
  rw [call_eq_finish]
  obtain ⟨k, hk⟩ := callUnrefined_case spec tf impl args
  constructor
  · intro as h
    obtain ⟨hc, hap, e, _⟩ := hk.type_event (mem_finish_trace_type.mp h)
    exact ⟨hc, hap, e⟩
  · intro as rt h
    obtain ⟨hc, hap, hnb, _, e, _⟩ := hk.impl_event (mem_finish_trace_impl.mp h)
    exact ⟨hc, hap, hnb, e⟩

/-! ### clause 2: "and only with arguments that satisfy the declared contract" -/

/-- If `Impl` ran, it was handed exactly one argument per argument of the call, and the
argument in each position `i` satisfies the contract declared by the parameter governing
`i` (the variadic parameter for the tail): its type conforms to the parameter's constraint
(unless it is dynamically typed, which requires `AllowDynamicType`); it is null only with
`AllowNull`, unknown only with `AllowUnknown`, dynamically typed only with
`AllowDynamicType`; and without `AllowMarked` it contains no mark at any depth.
(`isNull`, `isKnown` are Go's `IsNull`/`IsKnown` of the argument itself — what `AllowNull` and
`AllowUnknown` are documented to govern; marks are excluded at EVERY depth: `containsMarked`,
`marksDeep` are `ContainsMarked` and the mark set of `UnmarkDeep`.) -/
theorem impl_args_satisfy_contract (spec : Spec) (tf : TypeFn) (impl : ImplFn) (args as : List Value) (rt : Ty)
    (hw : ArgsWF args) (h : Event.impl as rt ∈ (call spec tf impl args).2) :
    as.length = args.length ∧
    ∀ i a, as[i]? = some a → ∃ p, spec.paramFor i = some p ∧
      (a.ty.isDyn = false → Ty.conformErrs p.ty a.ty = 0) ∧
      (a.isNull = true → p.allowNull = true) ∧
      (a.isKnown = false → p.allowUnknown = true) ∧
      (a.ty.isDyn = true → p.allowDynamic = true) ∧
      (p.allowMarked = false → a.containsMarked = false ∧ a.marksDeep = []) := by
  obtain ⟨hc, hap, hnb, rfl⟩ := (callbacks_only_for_acceptable_args spec tf impl args).2 as rt h
  refine ⟨implArgs_length hc, fun i a ha => ?_⟩
  obtain ⟨p, v, hp, hv, rfl⟩ := implArgs_get hc ha
  exact ⟨p, hp, callArg_contract (hw v (List.mem_of_getElem? hv)) (hap i p v hp hv)
    (blocksUnknown_of_not_some hnb hp hv)⟩

/-- The same for the `Type` callback, except that it is handed unknown arguments by design
(function.go: "AllowUnknown is ignored for type-checking"). -/
theorem type_args_satisfy_contract (spec : Spec) (tf : TypeFn) (impl : ImplFn) (args as : List Value)
    (hw : ArgsWF args) (h : Event.type as ∈ (call spec tf impl args).2) :
    as.length = args.length ∧
    ∀ i a, as[i]? = some a → ∃ p, spec.paramFor i = some p ∧
      (a.ty.isDyn = false → Ty.conformErrs p.ty a.ty = 0) ∧
      (a.isNull = true → p.allowNull = true) ∧
      (a.ty.isDyn = true → p.allowDynamic = true) ∧
      (p.allowMarked = false → a.containsMarked = false ∧ a.marksDeep = []) := by
  obtain ⟨hc, hap, rfl⟩ := (callbacks_only_for_acceptable_args spec tf impl args).1 as h
  refine ⟨typeArgs_length hc, fun i a ha => ?_⟩
  obtain ⟨p, v, hp, hv, rfl⟩ := typeArgs_get hc ha
  exact ⟨p, hp, typeArg_contract (hw v (List.mem_of_getElem? hv)) (hap i p v hp hv)⟩

/-! ### clauses 3–7 together: the outcome classification -/

/-- `Call` is the declared refinement (`finish spec`) applied to an outcome `o` that falls
into a row of the decision table `CallCase` (Lemmas/FnCall2.lean; one constructor per row,
giving the conditions on the inputs, the outcome and the trace):
* wrong number of arguments → a plain error, no callback invoked;
* `argError`: the first failing argument `k` fails as null / non-conforming →
  `ArgError{Index: k}`, `k` the ABSOLUTE index (also in the variadic tail), no callback invoked;
* `shortCircuit`: the first failing argument is dynamically typed without `AllowDynamicType`
  (→ unknown of type `DynamicPseudoType`, no callback invoked), or all pass, `Type` answers `rt`
  and some argument is unknown without `AllowUnknown` (→ unknown of type `rt`, `Impl` not invoked);
  in both cases carrying exactly the unhandled marks;
* `callbackError`: the error of `Type` or of `Impl`, unchanged;
* `panicError`: a panic of `Type` or `Impl`, or a value of `Impl` that does not conform to `rt`;
* `value`: `Impl`'s value `v`, conforming to `rt`, with exactly the unhandled marks added. -/
theorem outcome_classification (spec : Spec) (tf : TypeFn) (impl : ImplFn) (args : List Value) :
    ∃ k o, CallCase spec tf impl args k o ∧
      callUnrefined spec tf impl args = o ∧ call spec tf impl args = finish spec o := by
  obtain ⟨k, hk⟩ := callUnrefined_case spec tf impl args
  exact ⟨k, _, hk, rfl, call_eq_finish spec tf impl args⟩

/-- … exactly one: the rows exclude each other — the class is a function of the inputs. -/
theorem outcome_class_unique (spec : Spec) (tf : TypeFn) (impl : ImplFn) (args : List Value)
    (k k' : Kind) (o o' : Out Value × List Event)
    (h : CallCase spec tf impl args k o) (h' : CallCase spec tf impl args k' o') :
    k = k' ∧ k = kindOf spec tf impl args := ⟨h.kind_unique h', h.kind_eq⟩

/-! ### clause 3: "Otherwise the call returns an argument error naming the offending argument" -/

/-- `Call` answers `ArgError{Index: k}` exactly when the argument count is acceptable and `k`
is the FIRST (least) position whose argument fails its checks, failing as a null without
`AllowNull` or as a non-conforming type.  `k` is the absolute position in `args`. -/
theorem arg_error_names_first_offender (spec : Spec) (tf : TypeFn) (impl : ImplFn) (args : List Value) (k : Nat) :
    (call spec tf impl args).1 = .err (.arg k) ↔
      spec.countOK args.length = true ∧ ∃ f, f ≠ .dynamic ∧ FirstFailAt spec args k f := by
  rw [call_eq_finish, finish_err_iff]
  constructor
  · intro h
    obtain ⟨k', o, ho, hk⟩ := callUnrefined_case' spec tf impl args
    rw [ho] at h
    cases hk with
    | argError k'' f hc hat hne =>
      simp only [Out.err.injEq, CallErr.arg.injEq] at h; subst h; exact ⟨hc, f, hne, hat⟩
    | _ => simp at h
  · rintro ⟨hc, f, hne, hat⟩
    rw [callUnrefined_eq]
    cases f with
    | dynamic => exact absurd rfl hne
    | null => simp only [hc, if_true, firstFail_of_at hc hat]
    | nonconforming => simp only [hc, if_true, firstFail_of_at hc hat]

/-- "Otherwise": when the count is acceptable but the arguments do not satisfy the contract —
some argument fails its checks, or some argument is unknown without `AllowUnknown` — `Impl` is not
invoked, and the call ends as an argument error, or as a short circuit to an unknown value, or
(all arguments having passed the checks) with the `Type` callback's own error or panic. -/
theorem otherwise_arg_error_or_shortcircuit (spec : Spec) (tf : TypeFn) (impl : ImplFn) (args : List Value)
    (hc : spec.countOK args.length = true) (h : ¬ AllPass spec args ∨ SomeUnknownBlocked spec args) :
    (∀ as rt, Event.impl as rt ∉ (call spec tf impl args).2) ∧
    ((∃ k, (call spec tf impl args).1 = .err (.arg k)) ∨
     (∃ u, (callUnrefined spec tf impl args).1 = .ok u ∧ u.isKnown = false) ∨
     (AllPass spec args ∧ ∃ e, (∀ t, tf (typeArgs spec args) ≠ .ok t) ∧ (call spec tf impl args).1 = .err e) ∨
     (tf (typeArgs spec args) = .unmodelled ∧ (call spec tf impl args).1 = .unmodelled)) := by
  constructor
  · intro as rt hm
    obtain ⟨_, hap, hnb, _⟩ := (callbacks_only_for_acceptable_args spec tf impl args).2 as rt hm
    rcases h with h | h
    · exact h hap
    · exact hnb h
  · rw [call_eq_finish]
    obtain ⟨k, o, ho, hk⟩ := callUnrefined_case' spec tf impl args
    rw [ho]
    have hcontra : ∀ {P : Prop}, AllPass spec args → ¬ SomeUnknownBlocked spec args → P :=
      fun hap hnb => by rcases h with h | h; exact absurd hap h; exact absurd h hnb
    cases hk with
    | count hc' => rw [hc] at hc'; simp at hc'
    | argError k' f _ hat hne => exact Or.inl ⟨k', by rw [finish_err]⟩
    | dynShort k' u _ hat hwu => exact Or.inr (Or.inl ⟨u, rfl, (withUnhandled_unknown hwu).2.2.1⟩)
    | typeErr c _ hap ht => exact Or.inr (Or.inr (Or.inl ⟨hap, _, by simp [ht], by rw [finish_err]⟩))
    | typePanic w _ hap ht => exact Or.inr (Or.inr (Or.inl ⟨hap, _, by simp [ht], by rw [finish_err]⟩))
    | typeUnmodelled _ hap ht => exact Or.inr (Or.inr (Or.inr ⟨ht, by rw [finish_unmodelled]⟩))
    | unkShort rt u _ hap ht hb hwu => exact Or.inr (Or.inl ⟨u, rfl, (withUnhandled_unknown hwu).2.2.1⟩)
    | implErr rt c _ hap ht hnb hi => exact hcontra hap hnb
    | implPanic rt w _ hap ht hnb hi => exact hcontra hap hnb
    | implUnmodelled rt _ hap ht hnb hi => exact hcontra hap hnb
    | nonconforming rt v w _ hap ht hnb hi hcf => exact hcontra hap hnb
    | value rt v u _ hap ht hnb hi hcf hwu => exact hcontra hap hnb

/-- What an argument error says about the named argument and those before it, in plain words. -/
theorem arg_error_offender (spec : Spec) (tf : TypeFn) (impl : ImplFn) (args : List Value) (k : Nat)
    (h : (call spec tf impl args).1 = .err (.arg k)) :
    ∃ p v, spec.paramFor k = some p ∧ args[k]? = some v ∧
      ((v.isNull = true ∧ p.allowNull = false) ∨ (v.ty.isDyn = false ∧ Ty.conformErrs p.ty v.ty ≠ 0)) ∧
      ∀ j p' v', j < k → spec.paramFor j = some p' → args[j]? = some v' →
        (v'.isNull = true → p'.allowNull = true) ∧ (v'.ty.isDyn = true → p'.allowDynamic = true) ∧
        (v'.ty.isDyn = false → Ty.conformErrs p'.ty v'.ty = 0) := by
  obtain ⟨_, f, hne, ⟨p, v, hp, hv, hpv⟩, hlt⟩ := (arg_error_names_first_offender spec tf impl args k).mp h
  refine ⟨p, v, hp, hv, ?_, fun j p' v' hj hp' hv' => Param.check_none (hlt j p' v' hj hp' hv')⟩
  cases f with
  | null => exact Or.inl (Param.check_some_null hpv)
  | dynamic => exact absurd rfl hne
  | nonconforming => exact Or.inr (Param.check_some_nonconforming hpv)

/-! ### clause 4: "or short-circuits to an unknown value of the checked return type carrying every mark …" -/

/-- If `Call` succeeds without running `Impl`, then — before the declared refinement — the
result `u` is an unknown value whose type is the checked return type (what
`ReturnTypeForValues` answers for the same arguments), its top-level marks are exactly the
marks occurring at any depth of the arguments whose parameter lacks `AllowMarked`, and the
short circuit has a cause: the first failing argument is dynamically typed without
`AllowDynamicType`, or some argument is unknown without `AllowUnknown`. -/
theorem shortcircuit_unknown_checked_type_all_marks (spec : Spec) (tf : TypeFn) (impl : ImplFn)
    (args : List Value) (u : Value)
    (h : (callUnrefined spec tf impl args).1 = .ok u)
    (hno : ∀ as rt, Event.impl as rt ∉ (callUnrefined spec tf impl args).2) :
    ∃ t, (returnTypeForValuesPub spec tf args).1 = .ok t ∧
      u.ty = t ∧ u.unmark = Value.unknown t ∧ u.isKnown = false ∧
      (∀ m, m ∈ u.marks ↔ Unhandled spec args m) ∧
      ((∃ k, FirstFailAt spec args k .dynamic) ∨ SomeUnknownBlocked spec args) := by
  obtain ⟨k, o, ho, hk⟩ := callUnrefined_case' spec tf impl args
  rw [ho] at h hno
  cases hk with
  | dynShort k' u' hc hat hwu =>
    simp only [Out.ok.injEq] at h; subst h
    obtain ⟨a, b, c, d⟩ := withUnhandled_unknown hwu
    exact ⟨.dyn, by rw [rtfvPub_fail tf hc hat], a, b, c, d, Or.inl ⟨k', hat⟩⟩
  | unkShort rt u' hc hap ht hb hwu =>
    simp only [Out.ok.injEq] at h; subst h
    obtain ⟨a, b, c, d⟩ := withUnhandled_unknown hwu
    exact ⟨rt, by rw [rtfvPub_pass tf hc hap, ht], a, b, c, d, Or.inr hb⟩
  | value rt v u' hc hap ht hnb hi hcf hwu => exact absurd (by simp) (hno (implArgs spec args) rt)
  | _ => simp at h

/-- Every successful result of `Call` — short circuit or `Impl`'s value, refined or not —
carries every mark that occurs at any depth of an argument the function does not handle itself. -/
theorem result_carries_unhandled_marks (spec : Spec) (tf : TypeFn) (impl : ImplFn) (args : List Value)
    (v : Value) (m : String) (h : (call spec tf impl args).1 = .ok v) (hm : Unhandled spec args m) :
    m ∈ v.marks := by
  rw [call_eq_finish] at h
  obtain ⟨k, o, ho, hk⟩ := callUnrefined_case' spec tf impl args
  rw [ho] at h
  cases hk with
  | dynShort k' u hc hat hwu => exact (finish_ok_val h).2 m ((hwu.2.2 m).mpr (Or.inr hm))
  | unkShort rt u hc hap ht hb hwu => exact (finish_ok_val h).2 m ((hwu.2.2 m).mpr (Or.inr hm))
  | value rt v0 u hc hap ht hnb hi hcf hwu => exact (finish_ok_val h).2 m ((hwu.2.2 m).mpr (Or.inr hm))
  | _ => simp [finish_err, finish_unmodelled] at h

/-! ### clause 5: "callback panics come back as errors" -/

/-- Whenever a callback invoked by `Call` panics — `Type` or `Impl`, with whatever panic value —
`Call` returns a `function.PanicError` for that panic (so no Go panic escapes, and no value is returned). -/
theorem panics_become_errors (spec : Spec) (tf : TypeFn) (impl : ImplFn) (args : List Value) :
    (∀ as w, Event.type as ∈ (call spec tf impl args).2 → tf as = .panic w →
      (call spec tf impl args).1 = .err (.panicError w)) ∧
    (∀ as rt w, Event.impl as rt ∈ (call spec tf impl args).2 → impl as rt = .panic w →
      (call spec tf impl args).1 = .err (.panicError w)) := by
  rw [call_eq_finish]
  obtain ⟨k, o, ho, hk⟩ := callUnrefined_case' spec tf impl args
  rw [ho]
  constructor
  · intro as w h hp
    obtain ⟨_, _, rfl, _⟩ := hk.type_event (mem_finish_trace_type.mp h)
    rw [finish_err_iff]
    cases hk <;> simp_all
  · intro as rt w h hp
    obtain ⟨_, _, _, ht, rfl, _⟩ := hk.impl_event (mem_finish_trace_impl.mp h)
    rw [finish_err_iff]
    cases hk <;> simp_all

/-- The same for `ReturnTypeForValues` / `ReturnType`: a panic of `Type` comes back as a
`PanicError`, and these entry points never let a Go panic escape (they run neither `Impl`
nor `RefineResult`). -/
theorem rtfv_panics_become_errors (spec : Spec) (tf : TypeFn) (args : List Value) :
    (∀ why, (returnTypeForValuesPub spec tf args).1 ≠ .panic why) ∧
    (∀ e ∈ (returnTypeForValuesPub spec tf args).2, e = Event.type (typeArgs spec args)) ∧
    (∀ w, Event.type (typeArgs spec args) ∈ (returnTypeForValuesPub spec tf args).2 →
      tf (typeArgs spec args) = .panic w → (returnTypeForValuesPub spec tf args).1 = .err (.panicError w)) := by
  rw [rtfvPub_eq]
  by_cases hc : spec.countOK args.length = true
  · simp only [hc, if_true]
    cases hf : firstFail (spec.expand args.length) args with
    | some kf => obtain ⟨k, f⟩ := kf; cases f <;> simp
    | none => cases ht : tf (typeArgs spec args) <;> simp
  · simp [hc]

/-! ### clause 7: "a result that does not conform to the checked return type is never returned" -/

/-- Every value `Call` returns conforms to the checked return type — the type
`ReturnTypeForValues` answers for the same arguments (`DynamicPseudoType` when a
dynamically-typed argument short-circuits the call before `Type` is asked). -/
theorem nonconforming_never_returned (spec : Spec) (tf : TypeFn) (impl : ImplFn) (args : List Value)
    (hT : TypeFnWF tf) (v : Value) (h : (call spec tf impl args).1 = .ok v) :
    ∃ t, (returnTypeForValuesPub spec tf args).1 = .ok t ∧ Ty.conformErrs t v.ty = 0 := by
  rw [call_eq_finish] at h
  obtain ⟨k, o, ho, hk⟩ := callUnrefined_case' spec tf impl args
  rw [ho] at h
  cases hk with
  | dynShort k' u hc hat hwu =>
    exact ⟨.dyn, by rw [rtfvPub_fail tf hc hat], conform_dyn _⟩
  | unkShort rt u hc hap ht hb hwu =>
    refine ⟨rt, by rw [rtfvPub_pass tf hc hap, ht], ?_⟩
    rw [(finish_ok_val h).1, hwu.1]
    exact conform_refl rt (hT _ _ ht)
  | value rt v0 u hc hap ht hnb hi hcf hwu =>
    refine ⟨rt, by rw [rtfvPub_pass tf hc hap, ht], ?_⟩
    rw [(finish_ok_val h).1, hwu.1]
    exact hcf
  | _ => simp [finish_err, finish_unmodelled] at h

/-- … and a non-conforming value of `Impl` is turned into a `PanicError`. -/
theorem nonconforming_becomes_panic_error (spec : Spec) (tf : TypeFn) (impl : ImplFn) (args as : List Value)
    (rt : Ty) (v : Value) (h : Event.impl as rt ∈ (call spec tf impl args).2)
    (hi : impl as rt = .ok v) (hn : Ty.conformErrs rt v.ty ≠ 0) :
    ∃ w, (call spec tf impl args).1 = .err (.panicError w) := by
  rw [call_eq_finish] at h ⊢
  obtain ⟨k, o, ho, hk⟩ := callUnrefined_case' spec tf impl args
  rw [ho] at h ⊢
  obtain ⟨_, _, _, ht, rfl, _⟩ := hk.impl_event (mem_finish_trace_impl.mp h)
  cases hk <;> simp_all [finish_err_iff]

/-! ### clause 6: "declared result refinements are applied to every typed result" -/

/-- With `RefineResult` declared (`spec.refine = some rf`): whenever the call — before the
deferred refinement — yields a value `pre` that is typed (known, or of a type other than
`DynamicPseudoType`), short circuit or `Impl`'s value alike, `RefineResult` is invoked,
last, on a builder for `pre` without its top-level marks, and `Call` returns what the
builder makes of it: the value of `pre`'s type with the payload the builder determined
and `pre`'s marks — or, if the builder refuses (the declaration is false of `pre`), its
Go panic.  Untyped values, errors, and calls without a declaration are returned as they are. -/
theorem refinement_applied (spec : Spec) (tf : TypeFn) (impl : ImplFn) (args : List Value) :
    (∀ rf pre, spec.refine = some rf → (callUnrefined spec tf impl args).1 = .ok pre → typed pre = true →
      call spec tf impl args =
        (refineWith rf pre, (callUnrefined spec tf impl args).2 ++ [.refine pre.unmark]) ∧
      (∀ p, rf pre.unmark = some p →
        (call spec tf impl args).1 = .ok ((⟨pre.ty, p⟩ : Value).withMarks pre.marks)) ∧
      (rf pre.unmark = none → ∃ why, (call spec tf impl args).1 = .panic why)) ∧
    (∀ pre, (callUnrefined spec tf impl args).1 = .ok pre → typed pre = false →
      call spec tf impl args = callUnrefined spec tf impl args) ∧
    (∀ e, (callUnrefined spec tf impl args).1 = .err e →
      call spec tf impl args = callUnrefined spec tf impl args) ∧
    (spec.refine = none → call spec tf impl args = callUnrefined spec tf impl args) := by
  rw [call_eq_finish]
  generalize callUnrefined spec tf impl args = o
  obtain ⟨r, tr⟩ := o
  refine ⟨?_, ?_, ?_, fun hr => finish_none hr _⟩
  · intro rf pre hr hpre ht
    simp only at hpre; subst hpre
    have e : finish spec (.ok pre, tr) = (refineWith rf pre, tr ++ [.refine pre.unmark]) := by
      rw [finish_ok]; simp [hr, ht]
    rw [e]
    refine ⟨rfl, fun p hp => ?_, fun hn => ?_⟩
    · simp [refineWith, hp]
    · exact ⟨"refinement builder", by simp [refineWith, hn]⟩
  · intro pre hpre ht
    simp only at hpre; subst hpre
    rw [finish_ok]; cases spec.refine <;> simp [ht]
  · intro e he
    simp only at he; subst he
    exact finish_err spec e tr

/-! ### no Go panic escapes — under the function author's documented obligation -/

/-- The documented obligation of the function author (function.go, comment above the deferred
`RefineWith`): the declared refinement is true of every result, i.e. the refinement builder
does not refuse the typed value the call yields. -/
def RefinerValid (spec : Spec) (tf : TypeFn) (impl : ImplFn) (args : List Value) : Prop :=
  ∀ rf pre, spec.refine = some rf → (callUnrefined spec tf impl args).1 = .ok pre → typed pre = true →
    rf pre.unmark ≠ none

/-- A Go panic escapes `Call` EXACTLY when a refinement is declared and the builder refuses the
typed value the call yields.  (In particular: never because of `Type` or `Impl`.) -/
theorem go_panic_iff (spec : Spec) (tf : TypeFn) (impl : ImplFn) (args : List Value) :
    (∃ why, (call spec tf impl args).1 = .panic why) ↔
      ∃ rf pre, spec.refine = some rf ∧ (callUnrefined spec tf impl args).1 = .ok pre ∧ typed pre = true ∧
        rf pre.unmark = none := by
  rw [call_eq_finish]
  obtain ⟨k, hk⟩ := callUnrefined_case spec tf impl args
  have hnp := hk.no_panic
  generalize callUnrefined spec tf impl args = o at hnp
  obtain ⟨r, tr⟩ := o
  cases r with
  | err e => simp [finish_err]
  | unmodelled => simp [finish_unmodelled]
  | panic w => exact absurd rfl (hnp w)
  | ok u =>
    rw [finish_ok]
    cases hr : spec.refine with
    | none => simp
    | some rf =>
      by_cases ht : typed u = true
      · rcases refineWith_cases rf u with ⟨hn, e⟩ | ⟨p, hp, e⟩
        · simp [ht, e, hn]
        · simp [ht, e, hp]
      · simp [ht]

/-- Under `RefinerValid`, `Call` never lets a Go panic escape — whatever the callbacks do. -/
theorem no_go_panic (spec : Spec) (tf : TypeFn) (impl : ImplFn) (args : List Value)
    (hv : RefinerValid spec tf impl args) (why : String) : (call spec tf impl args).1 ≠ .panic why := by
  intro h
  obtain ⟨rf, pre, hr, hpre, ht, hn⟩ := (go_panic_iff spec tf impl args).mp ⟨why, h⟩
  exact hv rf pre hr hpre ht hn

/-- The full-strength statement (no hypothesis on the refiner) … -/
def NoGoPanic : Prop :=
  ∀ (spec : Spec) (tf : TypeFn) (impl : ImplFn) (args : List Value), (call spec tf impl args).1.isPanic = false

/-- the witness of known finding C10 / refine-builder-panic-escapes (DESIGN §8 #18):
no parameters, `Type` answers `string`, `RefineResult = NotNull`, `Impl` returns a null string -/
def panicSpec : Spec :=
  { params := [], refine := some fun v => match v.v with | .null => none | p => some p }
def panicTf : TypeFn := fun _ => .ok .string
def panicImpl : ImplFn := fun _ _ => .ok (Value.null .string)

/-- … is false of the code as it exists: the builder's panic escapes `Call`. -/
theorem no_go_panic_counterexample : ¬ NoGoPanic := by
  intro h
  have := h panicSpec panicTf panicImpl []
  revert this
  decide

/-! ### the other entry points -/

/-- `Call` starts with `ReturnTypeForValues`: whenever that fails, `Call` fails with the same
error and the same (at most one) callback invocation. -/
theorem call_fails_as_rtfv (spec : Spec) (tf : TypeFn) (impl : ImplFn) (args : List Value) (e : CallErr)
    (h : (returnTypeForValuesPub spec tf args).1 = .err e) :
    call spec tf impl args = (.err e, (returnTypeForValuesPub spec tf args).2) := by
  unfold call
  unfold returnTypeForValuesPub at h ⊢
  cases hr : returnTypeForValues spec tf args with
  | mk r tr =>
    rw [hr] at h
    cases r with
    | ok x => obtain ⟨t, d⟩ := x; simp at h
    | err e' => simp at h; subst h; rfl
    | panic w => simp at h
    | unmodelled => simp at h

/-- `ReturnType` is `ReturnTypeForValues` on unknown values of the given types. -/
theorem returnType_is_rtfv_of_unknowns (spec : Spec) (tf : TypeFn) (tys : List Ty) :
    returnType spec tf tys = returnTypeForValuesPub spec tf (tys.map Value.unknown) := rfl

/-- `Proxy()(args...)` is `Call(args)`. -/
theorem proxy_is_call (spec : Spec) (tf : TypeFn) (impl : ImplFn) (args : List Value) :
    proxy spec tf impl args = call spec tf impl args := rfl

/-- `WithNewDescriptions` returns a function that runs the same protocol (same parameters,
flags, callbacks, refinement: descriptions are not part of it) — or panics, exactly when the
number of parameter descriptions is neither the number of positional parameters nor, for a
variadic function, one more. -/
theorem redescribed_same_protocol (spec : Spec) (n : Nat) :
    (∀ s', spec.withNewDescriptions n = .ok s' → s' = spec) ∧
    ((∃ why, spec.withNewDescriptions n = .panic why) ↔
      ¬ (n = spec.params.length ∨ (spec.varParam.isSome = true ∧ n = spec.params.length + 1))) ∧
    (∀ e, spec.withNewDescriptions n ≠ .err e) := by
  unfold Spec.withNewDescriptions
  cases spec.varParam with
  | none =>
    by_cases h : n = spec.params.length <;> simp [h]
  | some vp =>
    by_cases h : n = spec.params.length <;> by_cases h' : n = spec.params.length + 1 <;> simp [h, h']

/-! ### exact results -/

/-- `Call`'s value, exactly: when every argument passes, none is unknown without
`AllowUnknown`, `Type` answers `rt` and `Impl` a value `v` conforming to `rt`, then `Call`
(before the declared refinement) returns `v.WithMarks(resultMarks...)` — `v` itself when
there are no unhandled marks. -/
theorem call_value_exact (spec : Spec) (tf : TypeFn) (impl : ImplFn) (args : List Value) (rt : Ty) (v : Value)
    (hc : spec.countOK args.length = true) (hap : AllPass spec args) (hnb : ¬ SomeUnknownBlocked spec args)
    (ht : tf (typeArgs spec args) = .ok rt) (hi : impl (implArgs spec args) rt = .ok v)
    (hcf : Ty.conformErrs rt v.ty = 0) :
    callUnrefined spec tf impl args =
      (.ok (withUnhandled spec args v), [.type (typeArgs spec args), .impl (implArgs spec args) rt]) ∧
    WithUnhandled spec args v (withUnhandled spec args v) := by
  refine ⟨?_, withUnhandled_spec hc v⟩
  have hu : (pass2 (spec.expand args.length) args).unknown = false := by
    cases hu : (pass2 (spec.expand args.length) args).unknown with
    | false => rfl
    | true => exact absurd ((someUnknownBlocked_iff hc).mp hu) hnb
  rw [callUnrefined_eq]
  simp [hc, firstFail_of_allPass hc hap, ht, hu, hi, hcf]

/-- For arguments that carry no marks (in particular: plain wholly-known values) the callbacks
see the caller's own list and `Call` returns `Impl`'s value unchanged. -/
theorem call_unmarked_exact (spec : Spec) (tf : TypeFn) (impl : ImplFn) (args : List Value) (rt : Ty) (v : Value)
    (hm : ∀ a ∈ args, a.containsMarked = false)
    (hc : spec.countOK args.length = true) (hap : AllPass spec args) (hnb : ¬ SomeUnknownBlocked spec args)
    (ht : tf args = .ok rt) (hi : impl args rt = .ok v) (hcf : Ty.conformErrs rt v.ty = 0)
    (hr : spec.refine = none) :
    call spec tf impl args = (.ok v, [.type args, .impl args rt]) := by
  obtain ⟨e1, e2, e3⟩ := unmarked_args hc hm
  rw [call_eq_finish, finish_none hr,
    (call_value_exact spec tf impl args rt v hc hap hnb (by rw [e1]; exact ht) (by rw [e2]; exact hi) hcf).1,
    e1, e2]
  simp [withUnhandled, e3]

/-! ### slice d10 — every entry point, through every wrapper

`Func` is a `function.Function` (its spec and callbacks); `wrap f ws` applies a chain of the
constructors `WithNewDescriptions` / `function.Unpredictable` (CtyModel/FnD10.lean, following
cty/function/function.go and unpredictable.go); `run f' e args` is entry point `e` — `Call`, `Proxy()(…)`,
`ReturnTypeForValues`, `ReturnType` (which sees unknown values of the argument types: `e.argsSeen`).
The correspondence op `fn.wrap` diffs `wrapRun` against the real constructors and entry points. -/

/-- What a chain of wrappers makes: the same parameters, flags, `RefineResult` and `Type` callback;
`Impl` is `unpredictableImpl` iff `Unpredictable` occurs in the chain, and the original's otherwise;
the constructors panic exactly when some `WithNewDescriptions` is handed an inadmissible number of
descriptions, and never return an error. -/
theorem wrappers_keep_protocol (f : Func) (ws : List Wrapper) :
    (∀ f', wrap f ws = .ok f' → f'.spec = f.spec ∧ f'.tf = f.tf ∧
      f'.impl = (if ws.contains .unpredictable then unpredictableImpl else f.impl)) ∧
    ((∃ f', wrap f ws = .ok f') ↔ wrappersOK f.spec ws = true) ∧
    ((∃ w, wrap f ws = .panic w) ↔ wrappersOK f.spec ws = false) ∧
    (∀ e, wrap f ws ≠ .err e) := by
  refine ⟨fun f' h => ⟨(D10.wrap_ok h).1, (D10.wrap_ok h).2.1, (D10.wrap_ok h).2.2.1⟩, ?_, ?_, ?_⟩ <;>
    rw [D10.wrap_eq] <;> cases wrappersOK f.spec ws <;> simp

/-- clause 5 at EVERY entry point: for every function `f`, every chain of wrappers `ws` around it
and every entry point `e` — `Call`, `Proxy`, `ReturnTypeForValues`, `ReturnType` — if the `Type`
callback was invoked and panicked, the entry point returns the `function.PanicError` for that panic
(so: no Go panic, no value). -/
theorem type_panic_is_error_at_every_entry (f f' : Func) (ws : List Wrapper) (e : Entry)
    (args as : List Value) (w : String) (hw : wrap f ws = .ok f')
    (h : Event.type as ∈ (run f' e args).2) (hp : f.tf as = .panic w) :
    (run f' e args).1 = .err (.panicError w) :=
  D10.run_type_event_panic e args as w hw h hp

/-- … and `Type` IS invoked (once, and nothing after it) whenever the arguments the entry point checks
are acceptable: acceptable arguments + a panicking `Type` callback = `PanicError`, at every entry
point of every wrapped function. -/
theorem type_panic_is_error_at_every_entry_exact (f f' : Func) (ws : List Wrapper) (e : Entry)
    (args : List Value) (w : String) (hw : wrap f ws = .ok f')
    (hc : f.spec.countOK (e.argsSeen args).length = true) (hap : AllPass f.spec (e.argsSeen args))
    (ht : f.tf (typeArgs f.spec (e.argsSeen args)) = .panic w) :
    run f' e args = (.err (.panicError w), [.type (typeArgs f.spec (e.argsSeen args))]) :=
  D10.run_type_panic e hw hc hap ht

/-- The type-level entry points of any wrapped function never let a Go panic escape. -/
theorem type_entries_never_panic (f : Func) (args : List Value) (w : String) :
    (run f .rtfv args).1 ≠ .panic w ∧ (run f .rt args).1 ≠ .panic w :=
  D10.run_type_entries_no_panic f args w

/-- The value-level entry points of a wrapped function let a Go panic escape only as `Call` of the
function the wrappers made does (`go_panic_iff`: a declared refinement the builder refuses). -/
theorem value_entries_are_call (f : Func) (args : List Value) :
    run f .proxy args = run f .call args ∧
    ∀ w, (run f .call args).1 = .panic w ↔ (call f.spec f.tf f.impl args).1 = .panic w :=
  ⟨rfl, fun w => by rw [D10.run_call]; exact D10.mapOut_panic_iff _ _ w⟩

/-- `Unpredictable(f)` "retains the same arguments and type checking behavior": its type-level entry
points are `f`'s, literally. -/
theorem unpredictable_same_type_checking (f : Func) (args : List Value) :
    run f.unpredictable .rtfv args = run f .rtfv args ∧ run f.unpredictable .rt args = run f .rt args :=
  ⟨rfl, rfl⟩

/-- `Unpredictable(f)` "… but will return an unknown value when called": `Call` fails exactly as
`f.ReturnTypeForValues` fails for the same arguments, and where that answers a type `t` it returns —
before the declared refinement — an unknown value of type `t` with exactly the unhandled marks. -/
theorem unpredictable_returns_unknown (spec : Spec) (tf : TypeFn) (args : List Value) (hT : TypeFnWF tf) :
    (∀ e, (callUnrefined spec tf unpredictableImpl args).1 = .err e ↔
      (returnTypeForValuesPub spec tf args).1 = .err e) ∧
    (∀ u, (callUnrefined spec tf unpredictableImpl args).1 = .ok u ↔
      ∃ t, (returnTypeForValuesPub spec tf args).1 = .ok t ∧
        u = withMarkSets (Value.unknown t) (unhandledMarkSets spec args)) ∧
    (∀ u, (callUnrefined spec tf unpredictableImpl args).1 = .ok u → spec.countOK args.length = true →
      u.isKnown = false ∧ ∀ m, m ∈ u.marks ↔ Unhandled spec args m) := by
  have key := D10.callUnrefined_unpredictable spec tf args hT
  refine ⟨fun e => by rw [key, D10.mapOut_err_iff], fun u => ?_, fun u hu hc => ?_⟩
  · rw [key, D10.mapOut_ok_iff]
    exact ⟨fun ⟨t, h1, h2⟩ => ⟨t, h1, h2.symm⟩, fun ⟨t, h1, h2⟩ => ⟨t, h1, h2.symm⟩⟩
  · rw [key, D10.mapOut_ok_iff] at hu
    obtain ⟨t, _, rfl⟩ := hu
    obtain ⟨_, _, c, d⟩ := withUnhandled_unknown (withUnhandled_withMarkSets hc (Value.unknown t))
    exact ⟨c, d⟩

/-! ### slice d10 — `Call` continues `ReturnTypeForValues` (the checked return type, as an equation) -/

/-- The type `Call` works with IS the answer of `ReturnTypeForValues` on the same arguments: when that
fails, `Call` fails with the same error after the same callback invocations; when it answers `t`, the
trace of `Call` starts with the trace of `ReturnTypeForValues`, `Type` is not asked again, `Impl` — if
invoked — is handed exactly `t`, and a failure of `Call` can then only come from `Impl`. -/
theorem call_continues_rtfv (spec : Spec) (tf : TypeFn) (impl : ImplFn) (args : List Value) :
    (∀ e, (returnTypeForValuesPub spec tf args).1 = .err e →
      call spec tf impl args = (.err e, (returnTypeForValuesPub spec tf args).2)) ∧
    (∀ t, (returnTypeForValuesPub spec tf args).1 = .ok t →
      ∃ rest, (call spec tf impl args).2 = (returnTypeForValuesPub spec tf args).2 ++ rest ∧
        (∀ as, Event.type as ∉ rest) ∧ (∀ as rt, Event.impl as rt ∈ rest → rt = t) ∧
        (∀ e, (call spec tf impl args).1 = .err e → ∃ as rt, Event.impl as rt ∈ rest)) :=
  D10.call_continues_rtfv spec tf impl args

/-- When a dynamically-typed argument without `AllowDynamicType` short-circuits the call (it is the
first argument to fail its checks), NO callback is invoked — neither by `ReturnTypeForValues`, which
answers the placeholder type, nor by `Call`, whatever `RefineResult` declares. -/
theorem dyn_shortcircuit_invokes_nothing (spec : Spec) (tf : TypeFn) (impl : ImplFn) (args : List Value) (k : Nat)
    (hc : spec.countOK args.length = true) (hat : FirstFailAt spec args k .dynamic) :
    returnTypeForValuesPub spec tf args = (.ok .dyn, []) ∧ (call spec tf impl args).2 = [] ∧
    ∃ u, (call spec tf impl args).1 = .ok u ∧ u.ty = .dyn ∧ u.isKnown = false := by
  refine ⟨by rw [rtfvPub_fail tf hc hat], ?_⟩
  rw [call_eq_finish, callUnrefined_eq]
  simp only [hc, if_true, firstFail_of_at hc hat]
  rw [finish_ok]
  have ht := typed_unknown_dyn (unhandledMarkSets spec args)
  have hk : (withMarkSets (Value.unknown .dyn) (unhandledMarkSets spec args)).isKnown = false := by
    rw [isKnown_withMarkSets]; rfl
  have hty : (Value.unknown Ty.dyn).ty = Ty.dyn := rfl
  cases spec.refine <;> simp [ht, withMarkSets_ty, hk, hty]

/-- The `Type` callback is invoked by `Call` exactly when the argument count is acceptable and every
argument passes its checks (and then on `typeArgs`, first). -/
theorem type_invoked_iff (spec : Spec) (tf : TypeFn) (impl : ImplFn) (args : List Value) :
    (∃ as, Event.type as ∈ (call spec tf impl args).2) ↔ spec.countOK args.length = true ∧ AllPass spec args := by
  constructor
  · rintro ⟨as, h⟩
    obtain ⟨hc, hap, _⟩ := (callbacks_only_for_acceptable_args spec tf impl args).1 as h
    exact ⟨hc, hap⟩
  · rintro ⟨hc, hap⟩
    refine ⟨typeArgs spec args, ?_⟩
    have h1 : (returnTypeForValuesPub spec tf args).2 = [.type (typeArgs spec args)] := by
      rw [rtfvPub_pass tf hc hap]; cases tf (typeArgs spec args) <;> rfl
    cases hr : (returnTypeForValuesPub spec tf args).1 with
    | err e => rw [(call_continues_rtfv spec tf impl args).1 e hr, h1]; simp
    | ok t =>
      obtain ⟨rest, h2, _⟩ := (call_continues_rtfv spec tf impl args).2 t hr
      rw [h2, h1]; simp
    | panic w => exact absurd hr (D10.rtfv_no_panic spec tf args w)
    | unmodelled =>
      rw [call_eq_finish, callUnrefined_eq]
      rw [rtfvPub_pass tf hc hap] at hr
      simp only [hc, if_true, firstFail_of_allPass hc hap]
      cases ht : tf (typeArgs spec args) <;> rw [ht] at hr <;> simp at hr
      simp [finish_unmodelled]

/-! ### slice d10 — clause 6 under a placeholder checked type -/

/-- "declared result refinements are applied to every typed result" ALSO when the checked return type
is the placeholder: if `Type` answers `DynamicPseudoType` (a `jsondecode`/`lookup`-style function) and
`Impl` returns a typed value `v` (known, or of a concrete type), `RefineResult` is invoked on `v` without
its top-level marks, last, and `Call` returns what the builder makes of `v` with the unhandled marks. What
decides is the type of the RESULT, not the checked type. -/
theorem refinement_applied_under_placeholder_type (spec : Spec) (tf : TypeFn) (impl : ImplFn) (args : List Value)
    (rf : RefineFn) (v : Value) (hr : spec.refine = some rf)
    (hc : spec.countOK args.length = true) (hap : AllPass spec args) (hnb : ¬ SomeUnknownBlocked spec args)
    (ht : tf (typeArgs spec args) = .ok .dyn) (hi : impl (implArgs spec args) .dyn = .ok v)
    (hty : typed v = true) :
    call spec tf impl args =
      (refineWith rf (withUnhandled spec args v),
        [.type (typeArgs spec args), .impl (implArgs spec args) .dyn, .refine v.unmark]) ∧
    Event.refine v.unmark ∈ (call spec tf impl args).2 := by
  have h := D10.call_placeholder_refined hr hc hap hnb ht hi hty
  exact ⟨h, by rw [h]; simp⟩

/-- The refinement is skipped only for a result that is BOTH unknown and of the placeholder type (and
for errors): for a declared `RefineResult`, a `refine` event is in the trace iff the call yields a typed value. -/
theorem refine_invoked_iff (spec : Spec) (tf : TypeFn) (impl : ImplFn) (args : List Value) (rf : RefineFn)
    (hr : spec.refine = some rf) :
    (∃ u, Event.refine u ∈ (call spec tf impl args).2) ↔
      ∃ pre, (callUnrefined spec tf impl args).1 = .ok pre ∧ typed pre = true := by
  obtain ⟨k, hk⟩ := callUnrefined_case spec tf impl args
  have hnr := hk.no_refine_event
  rw [call_eq_finish]
  generalize callUnrefined spec tf impl args = o at hnr
  obtain ⟨r, tr⟩ := o
  cases r with
  | ok u =>
    rw [finish_ok]
    by_cases ht : typed u = true
    · simp [hr, ht]
    · simp only [hr, ht, Bool.false_eq_true, if_false]
      constructor
      · rintro ⟨x, hx⟩; exact absurd hx (hnr x)
      · rintro ⟨pre, h1, h2⟩; simp only [Out.ok.injEq] at h1; subst h1; exact absurd h2 ht
  | err e => rw [finish_err]; simp; intro x hx; exact hnr x hx
  | panic w => rw [finish_panic]; simp; intro x hx; exact hnr x hx
  | unmodelled => rw [finish_unmodelled]; simp; intro x hx; exact hnr x hx

/-! ### slice d10 — clause 4 after the refinement: the mark set, exactly -/

/-- Representation invariant of `Impl`'s values (as `ArgsWF` for arguments): marker layers as cty's
constructors build them. -/
def ImplFnWF (impl : ImplFn) : Prop := ∀ as rt v, impl as rt = .ok v → v.v.markerWF = true

/-- Representation invariant of the refinement builder: for a value without marks it hands back a
value without marks (`NewValue` re-applies the marks the builder set aside — the model's `refineWith`
does that). -/
def RefinerWF (spec : Spec) : Prop := ∀ rf, spec.refine = some rf → RefinePayloadUnmarked rf

/-- The top-level marks of EVERY successful result of `Call` — after the declared refinement — are
exactly: the marks `Impl` put on its value (none for a short circuit) and the marks occurring at any
depth of an argument whose parameter lacks `AllowMarked`.  Nothing is lost and nothing is invented. -/
theorem result_marks_exact (spec : Spec) (tf : TypeFn) (impl : ImplFn) (args : List Value) (v : Value)
    (hI : ImplFnWF impl) (hR : RefinerWF spec) (h : (call spec tf impl args).1 = .ok v) :
    ((∀ as rt, Event.impl as rt ∉ (call spec tf impl args).2) ∧ ∀ m, m ∈ v.marks ↔ Unhandled spec args m) ∨
    (∃ rt iv, Event.impl (implArgs spec args) rt ∈ (call spec tf impl args).2 ∧
      impl (implArgs spec args) rt = .ok iv ∧ ∀ m, m ∈ v.marks ↔ (m ∈ iv.marks ∨ Unhandled spec args m)) := by
  rw [call_eq_finish] at h ⊢
  obtain ⟨k, o, ho, hk⟩ := callUnrefined_case' spec tf impl args
  rw [ho] at h ⊢
  cases hk with
  | dynShort k' u hc hat hwu =>
    refine Or.inl ⟨fun as rt hm => by simpa using mem_finish_trace_impl.mp hm, fun m => ?_⟩
    rw [D10.finish_ok_marks hR (by rw [hwu.2.1]; rfl) h m]
    exact (withUnhandled_unknown hwu).2.2.2 m
  | unkShort rt u hc hap ht hb hwu =>
    refine Or.inl ⟨fun as rt hm => by simpa using mem_finish_trace_impl.mp hm, fun m => ?_⟩
    rw [D10.finish_ok_marks hR (by rw [hwu.2.1]; rfl) h m]
    exact (withUnhandled_unknown hwu).2.2.2 m
  | value rt v0 u hc hap ht hnb hi hcf hwu =>
    refine Or.inr ⟨rt, v0, mem_finish_trace_impl.mpr (by simp), hi, fun m => ?_⟩
    rw [D10.finish_ok_marks hR (by rw [hwu.2.1]; exact D10.unmark_not_marked_of_markerWF (hI _ _ _ hi)) h m]
    exact hwu.2.2 m
  | _ => simp [finish_err, finish_unmodelled] at h

/-- The two invariants hold of everything the driver runs: its `RefineResult` menu (`b.NotNull()` as
the builder performs it; a callback that panics) hands back unmarked payloads … -/
theorem refinerWF_of_driver_menu (spec : Spec)
    (h : spec.refine = none ∨ spec.refine = some (toRefineFn notNull) ∨ spec.refine = some (toRefineFn refinePanics)) :
    RefinerWF spec := by
  intro rf hr
  rcases h with h | h | h <;> rw [h] at hr
  · cases hr
  · cases hr; exact D10.refinePayloadUnmarked_notNull
  · cases hr; exact D10.refinePayloadUnmarked_panics

/-- … and a constant `Impl` (the driver's `(ok val)` menu entry, `val` checked for `markerWF` like every
value the harness sends) answers marker-well-formed values. -/
theorem implFnWF_const (v : Value) (h : v.v.markerWF = true) : ImplFnWF (fun _ _ => .ok v) := by
  intro as rt v' hv; simp only [Res.ok.injEq] at hv; subst hv; exact h

/-! ### slice d10 — `RefinerValid` for `NotNull` (stdlib's `refineNonNull`): "Impl never returns null" -/

/-- For a function that declares `RefineResult = func(b) { return b.NotNull() }` (what every stdlib
function with a refinement but `coalesce`-style inline ones declares: `Generated.refineNonNullBody`,
C11) the function author's obligation `RefinerValid` is, exactly: `Impl` does not return a typed value
that is null (or an unknown value whose refinement says "definitely null", which cty's constructors
never build).  A short circuit never violates it.  (`hmod`: the driver's transliteration of `NewValue`
stays inside the modelled fragment — it answers `unmodelled` only for the one-element-set collapse,
and the harness then does not compare.) -/
theorem refinerValid_notNull_iff (spec : Spec) (tf : TypeFn) (impl : ImplFn) (args : List Value)
    (hr : spec.refine = some (toRefineFn notNull))
    (hmod : ∀ pre, (callUnrefined spec tf impl args).1 = .ok pre → notNull pre.unmark ≠ .unmodelled) :
    RefinerValid spec tf impl args ↔
      ∀ rt iv, Event.impl (implArgs spec args) rt ∈ (callUnrefined spec tf impl args).2 →
        impl (implArgs spec args) rt = .ok iv → Ty.conformErrs rt iv.ty = 0 → typed iv = true →
        ¬ NullOrDefinitelyNull iv.unmark := by
  unfold RefinerValid
  obtain ⟨k, o, ho, hk⟩ := callUnrefined_case' spec tf impl args
  rw [ho] at hmod ⊢
  constructor
  · intro hv rt iv hev hi hcf hty hnull
    cases hk with
    | value rt' v0 u hc hap ht hnb hi' hcf' hwu =>
      simp only [List.mem_cons, Event.impl.injEq, List.not_mem_nil, or_false, reduceCtorEq, false_or] at hev
      obtain ⟨_, rfl⟩ := hev
      rw [hi'] at hi; simp only [Res.ok.injEq] at hi; subst hi
      have hpre : typed u = true := by rw [D10.typed_of_withUnhandled hwu]; exact hty
      refine hv _ u hr rfl hpre ?_
      rw [D10.toRefineFn_notNull_none_iff, hwu.2.1]
      exact Or.inl hnull
    | implErr rt' c _ _ _ _ hi' =>
      simp only [List.mem_cons, Event.impl.injEq, List.not_mem_nil, or_false, reduceCtorEq, false_or] at hev
      obtain ⟨_, rfl⟩ := hev; rw [hi'] at hi; cases hi
    | implPanic rt' w _ _ _ _ hi' =>
      simp only [List.mem_cons, Event.impl.injEq, List.not_mem_nil, or_false, reduceCtorEq, false_or] at hev
      obtain ⟨_, rfl⟩ := hev; rw [hi'] at hi; cases hi
    | implUnmodelled rt' _ _ _ _ hi' =>
      simp only [List.mem_cons, Event.impl.injEq, List.not_mem_nil, or_false, reduceCtorEq, false_or] at hev
      obtain ⟨_, rfl⟩ := hev; rw [hi'] at hi; cases hi
    | nonconforming rt' v' w _ _ _ _ hi' hcf' =>
      simp only [List.mem_cons, Event.impl.injEq, List.not_mem_nil, or_false, reduceCtorEq, false_or] at hev
      obtain ⟨_, rfl⟩ := hev; rw [hi'] at hi; simp only [Res.ok.injEq] at hi; subst hi; exact absurd hcf hcf'
    | _ => simp at hev
  · intro h rf pre hrf hpre hty hnone
    rw [hr] at hrf; simp only [Option.some.injEq] at hrf; subst hrf
    rw [D10.toRefineFn_notNull_none_iff] at hnone
    rcases hnone with hnull | hun
    · cases hk with
      | dynShort k' u hc hat hwu =>
        simp only [Out.ok.injEq] at hpre; subst hpre
        rw [hwu.2.1] at hnull; exact D10.notNull_unknown _ hnull
      | unkShort rt u hc hap ht hb hwu =>
        simp only [Out.ok.injEq] at hpre; subst hpre
        rw [hwu.2.1] at hnull; exact D10.notNull_unknown _ hnull
      | value rt v0 u hc hap ht hnb hi hcf hwu =>
        simp only [Out.ok.injEq] at hpre; subst hpre
        have hty0 : typed v0 = true := by rw [← D10.typed_of_withUnhandled hwu]; exact hty
        rw [hwu.2.1] at hnull
        exact h rt v0 (by simp) hi hcf hty0 hnull
      | _ => simp at hpre
    · exact hmod pre hpre hun


/-! ### The regenerated model

`extract/translate_fn.go` translates the bodies of `Function.returnTypeForValues`,
`Function.ReturnTypeForValues`, `Function.ReturnType` and `Function.Call` from
cty/function/function.go into Lean on every check (`Generated/FnCall.lean`, statement by
statement; the given API — `cty.Value` methods, `TestConformance`, `RefineWith`, the error
constructors, the two `recover` wrappers — is `CtyModel/FnGo.lean`).  The three `generated_*_eq`
theorems say that what the source text computes is what the hand-written model computes:
the same outcome AND the same trace of callback invocations, for all specs, callbacks and
argument lists (in particular no slice operation of the Go text panics and the code wrapped by
the deferred `RefineResult` closure cannot panic).  So every theorem above holds of the
translated source; the `*_generated` corollaries state the main clauses directly about it.  A
source edit that changes the meaning makes these proofs fail; an edit that leaves the
translated fragment makes the extractor fail.

`argsNil` is Go's "the slice `args` is nil" (the source compares a sub-slice of it with `nil`);
`GoSlice` is the representation invariant that a nil slice is empty. -/

/-- a nil slice has no elements -/
def GoSlice (args : List Value) (argsNil : Bool) : Prop := argsNil = true → args = []

/-- `Function.Call` as written in the source is the model's `call` (outcome and trace) -/
theorem generated_call_eq (spec : Spec) (tf : TypeFn) (impl : ImplFn) (args : List Value) (argsNil : Bool)
    (hs : GoSlice args argsNil) :
    Generated.FnCall.call spec tf impl args argsNil = call spec tf impl args :=
  FnCallTie.call_eq' spec tf impl args argsNil hs

/-- `Function.ReturnTypeForValues` as written in the source is the model's `returnTypeForValuesPub` -/
theorem generated_returnTypeForValues_eq (spec : Spec) (tf : TypeFn) (args : List Value) (argsNil : Bool)
    (hs : GoSlice args argsNil) :
    Generated.FnCall.returnTypeForValuesPub spec tf args argsNil = returnTypeForValuesPub spec tf args :=
  FnCallTie.returnTypeForValuesPub_eq spec tf args argsNil hs

/-- `Function.ReturnType` as written in the source is the model's `returnType` -/
theorem generated_returnType_eq (spec : Spec) (tf : TypeFn) (tys : List Ty) :
    Generated.FnCall.returnType spec tf tys = returnType spec tf tys :=
  FnCallTie.returnType_eq' spec tf tys

/-- clause 1, about the translated source -/
theorem impl_only_after_type_generated (spec : Spec) (tf : TypeFn) (impl : ImplFn) (args as : List Value) (rt : Ty)
    (argsNil : Bool) (hs : GoSlice args argsNil)
    (h : Event.impl as rt ∈ (Generated.FnCall.call spec tf impl args argsNil).2) :
    tf (typeArgs spec args) = .ok rt ∧
    (∃ tail, (Generated.FnCall.call spec tf impl args argsNil).2 = .type (typeArgs spec args) :: .impl as rt :: tail ∧
      (tail = [] ∨ ∃ v, tail = [.refine v])) ∧
    as.map Value.unmarkDeep = args.map Value.unmarkDeep ∧
    (ArgsWF args → as = typeArgs spec args) := by
  rw [generated_call_eq spec tf impl args argsNil hs] at h ⊢
  obtain ⟨h1, h2, _, h4, h5⟩ := impl_only_after_type spec tf impl args as rt h
  exact ⟨h1, h2, h4, h5⟩

/-- clause 2, about the translated source: the arguments `Impl` is handed satisfy every declared contract -/
theorem impl_args_satisfy_contract_generated (spec : Spec) (tf : TypeFn) (impl : ImplFn) (args as : List Value)
    (rt : Ty) (argsNil : Bool) (hs : GoSlice args argsNil) (hw : ArgsWF args)
    (h : Event.impl as rt ∈ (Generated.FnCall.call spec tf impl args argsNil).2) :
    as.length = args.length ∧
    ∀ i a, as[i]? = some a → ∃ p, spec.paramFor i = some p ∧
      (a.ty.isDyn = false → Ty.conformErrs p.ty a.ty = 0) ∧
      (a.isNull = true → p.allowNull = true) ∧
      (a.isKnown = false → p.allowUnknown = true) ∧
      (a.ty.isDyn = true → p.allowDynamic = true) ∧
      (p.allowMarked = false → a.containsMarked = false ∧ a.marksDeep = []) := by
  rw [generated_call_eq spec tf impl args argsNil hs] at h
  exact impl_args_satisfy_contract spec tf impl args as rt hw h

/-- clauses 3–7, about the translated source: the outcome falls into exactly the row of the decision
table `CallCase` that the inputs select, then the declared refinement is applied -/
theorem outcome_classification_generated (spec : Spec) (tf : TypeFn) (impl : ImplFn) (args : List Value)
    (argsNil : Bool) (hs : GoSlice args argsNil) :
    ∃ k o, CallCase spec tf impl args k o ∧
      Generated.FnCall.call { spec with refine := none } tf impl args argsNil = o ∧
      Generated.FnCall.call spec tf impl args argsNil = finish spec o := by
  obtain ⟨k, o, hk, ho, hc⟩ := outcome_classification spec tf impl args
  refine ⟨k, o, hk, ?_, ?_⟩
  · rw [generated_call_eq _ tf impl args argsNil hs]; exact ho
  · rw [generated_call_eq spec tf impl args argsNil hs]; exact hc

/-- clause 3, about the translated source: an `ArgError` names the first offender, by absolute index -/
theorem arg_error_names_first_offender_generated (spec : Spec) (tf : TypeFn) (impl : ImplFn) (args : List Value)
    (k : Nat) (argsNil : Bool) (hs : GoSlice args argsNil) :
    (Generated.FnCall.call spec tf impl args argsNil).1 = .err (.arg k) ↔
      spec.countOK args.length = true ∧ ∃ f, f ≠ .dynamic ∧ FirstFailAt spec args k f := by
  rw [generated_call_eq spec tf impl args argsNil hs]
  exact arg_error_names_first_offender spec tf impl args k

/-- clause 5, about the translated source: callback panics come back as `PanicError`s -/
theorem panics_become_errors_generated (spec : Spec) (tf : TypeFn) (impl : ImplFn) (args : List Value)
    (argsNil : Bool) (hs : GoSlice args argsNil) :
    (∀ as w, Event.type as ∈ (Generated.FnCall.call spec tf impl args argsNil).2 → tf as = .panic w →
      (Generated.FnCall.call spec tf impl args argsNil).1 = .err (.panicError w)) ∧
    (∀ as rt w, Event.impl as rt ∈ (Generated.FnCall.call spec tf impl args argsNil).2 → impl as rt = .panic w →
      (Generated.FnCall.call spec tf impl args argsNil).1 = .err (.panicError w)) := by
  rw [generated_call_eq spec tf impl args argsNil hs]
  exact panics_become_errors spec tf impl args

/-- … and `ReturnTypeForValues` as written never lets a Go panic escape -/
theorem rtfv_panics_become_errors_generated (spec : Spec) (tf : TypeFn) (args : List Value)
    (argsNil : Bool) (hs : GoSlice args argsNil) :
    (∀ why, (Generated.FnCall.returnTypeForValuesPub spec tf args argsNil).1 ≠ .panic why) ∧
    (∀ w, Event.type (typeArgs spec args) ∈ (Generated.FnCall.returnTypeForValuesPub spec tf args argsNil).2 →
      tf (typeArgs spec args) = .panic w →
      (Generated.FnCall.returnTypeForValuesPub spec tf args argsNil).1 = .err (.panicError w)) := by
  rw [generated_returnTypeForValues_eq spec tf args argsNil hs]
  exact ⟨(rtfv_panics_become_errors spec tf args).1, (rtfv_panics_become_errors spec tf args).2.2⟩

/-- clause 7, about the translated source: a returned value conforms to the type
`ReturnTypeForValues` (as written) answers for the same arguments -/
theorem nonconforming_never_returned_generated (spec : Spec) (tf : TypeFn) (impl : ImplFn) (args : List Value)
    (argsNil : Bool) (hs : GoSlice args argsNil) (hT : TypeFnWF tf) (v : Value)
    (h : (Generated.FnCall.call spec tf impl args argsNil).1 = .ok v) :
    ∃ t, (Generated.FnCall.returnTypeForValuesPub spec tf args argsNil).1 = .ok t ∧ Ty.conformErrs t v.ty = 0 := by
  rw [generated_call_eq spec tf impl args argsNil hs] at h
  rw [generated_returnTypeForValues_eq spec tf args argsNil hs]
  exact nonconforming_never_returned spec tf impl args hT v h

/-- clause 6, about the translated source: with `RefineResult` declared, every typed result the call
yields before the deferred refinement is handed to the builder, last, and `Call` returns what the
builder makes of it -/
theorem refinement_applied_generated (spec : Spec) (tf : TypeFn) (impl : ImplFn) (args : List Value)
    (argsNil : Bool) (hs : GoSlice args argsNil) (rf : RefineFn) (pre : Value) (hr : spec.refine = some rf)
    (hp : (Generated.FnCall.call { spec with refine := none } tf impl args argsNil).1 = .ok pre)
    (ht : typed pre = true) :
    Generated.FnCall.call spec tf impl args argsNil =
      (refineWith rf pre,
        (Generated.FnCall.call { spec with refine := none } tf impl args argsNil).2 ++ [.refine pre.unmark]) := by
  rw [generated_call_eq { spec with refine := none } tf impl args argsNil hs] at hp ⊢
  rw [generated_call_eq spec tf impl args argsNil hs]
  exact ((refinement_applied spec tf impl args).1 rf pre hr hp ht).1

/-- no Go panic escapes `Call` as written, under the function author's documented obligation -/
theorem no_go_panic_generated (spec : Spec) (tf : TypeFn) (impl : ImplFn) (args : List Value)
    (argsNil : Bool) (hs : GoSlice args argsNil) (hv : RefinerValid spec tf impl args) (why : String) :
    (Generated.FnCall.call spec tf impl args argsNil).1 ≠ .panic why := by
  rw [generated_call_eq spec tf impl args argsNil hs]
  exact no_go_panic spec tf impl args hv why

/-- The wrappers are not in the translated fragment; their source text is regenerated on every check
and pinned here: `Proxy()` is `f.Call(args)`, `Unpredictable` replaces `Impl` in a shallow copy of the
spec, `unpredictableImpl` answers `cty.UnknownVal(retType)` — what `Fn.proxy`, `Func.unpredictable` and
`unpredictableImpl` of the model say (any edit of these three bodies makes this theorem fail). -/
theorem wrappers_source_pinned :
    Generated.FnCall.proxyBody = "{ return func(args ...cty.Value) (cty.Value, error) { return f.Call(args) } }" ∧
    Generated.FnCall.unpredictableBody =
      "{ newSpec := *f.spec newSpec.Impl = unpredictableImpl return New(&newSpec) }" ∧
    Generated.FnCall.unpredictableImplBody = "{ return cty.UnknownVal(retType), nil }" := by decide

/-- clause 5 about the translated source, at the three translated entry points: with acceptable
arguments, a panic of the `Type` callback comes back as its `PanicError` from `Call`, from
`ReturnTypeForValues` and from `ReturnType` as written (the seeded change that moved the `recover`
into the public `ReturnTypeForValues` breaks the first equation) -/
theorem type_panic_is_error_generated (spec : Spec) (tf : TypeFn) (impl : ImplFn) (args : List Value)
    (argsNil : Bool) (hs : GoSlice args argsNil) (w : String)
    (hc : spec.countOK args.length = true) (hap : AllPass spec args)
    (ht : tf (typeArgs spec args) = .panic w) :
    Generated.FnCall.call spec tf impl args argsNil = (.err (.panicError w), [.type (typeArgs spec args)]) ∧
    Generated.FnCall.returnTypeForValuesPub spec tf args argsNil =
      (.err (.panicError w), [.type (typeArgs spec args)]) := by
  rw [generated_call_eq spec tf impl args argsNil hs, generated_returnTypeForValues_eq spec tf args argsNil hs]
  exact ⟨D10.call_type_panic impl hc hap ht, D10.rtfv_type_panic hc hap ht⟩

/-- … and `ReturnType` as written -/
theorem type_panic_is_error_returnType_generated (spec : Spec) (tf : TypeFn) (tys : List Ty) (w : String)
    (hc : spec.countOK (tys.map Value.unknown).length = true) (hap : AllPass spec (tys.map Value.unknown))
    (ht : tf (typeArgs spec (tys.map Value.unknown)) = .panic w) :
    Generated.FnCall.returnType spec tf tys =
      (.err (.panicError w), [.type (typeArgs spec (tys.map Value.unknown))]) := by
  rw [generated_returnType_eq]
  exact D10.rtfv_type_panic hc hap ht

/-- clause 6 about the translated source, under a placeholder checked type: the declared refinement is
applied to a typed value of `Impl` although `Type` answered `DynamicPseudoType` (the seeded change that
gated the refinement on the checked type breaks this) -/
theorem refinement_applied_under_placeholder_type_generated (spec : Spec) (tf : TypeFn) (impl : ImplFn)
    (args : List Value) (argsNil : Bool) (hs : GoSlice args argsNil)
    (rf : RefineFn) (v : Value) (hr : spec.refine = some rf)
    (hc : spec.countOK args.length = true) (hap : AllPass spec args) (hnb : ¬ SomeUnknownBlocked spec args)
    (ht : tf (typeArgs spec args) = .ok .dyn) (hi : impl (implArgs spec args) .dyn = .ok v)
    (hty : typed v = true) :
    Generated.FnCall.call spec tf impl args argsNil =
      (refineWith rf (withUnhandled spec args v),
        [.type (typeArgs spec args), .impl (implArgs spec args) .dyn, .refine v.unmark]) := by
  rw [generated_call_eq spec tf impl args argsNil hs]
  exact (refinement_applied_under_placeholder_type spec tf impl args rf v hr hc hap hnb ht hi hty).1

/-! ### Non-vacuity: concrete, non-trivial instances of the hypotheses used above -/

/-- one positional `string` parameter allowing marks, and a variadic `list(dynamic)` parameter
allowing unknowns; `RefineResult` = NotNull -/
def sampleSpec : Spec :=
  { params := [{ ty := .string, allowMarked := true }]
    varParam := some { ty := .list .dyn, allowUnknown := true }
    refine := some fun v => match v.v with | .null => none | p => some p }
def sampleTf : TypeFn := fun as => .ok (.tuple (as.map (·.ty)))
def sampleImpl : ImplFn := fun as rt => .ok ⟨rt, .seq (as.map (·.v))⟩
/-- `("a" marked x, [1 marked y], unknown list(bool))` -/
def sampleArgs : List Value :=
  [⟨.string, .marked ["x"] (.s "a")⟩, ⟨.list .number, .seq [.marked ["y"] (.n (.fin false 1 0 64))]⟩,
   ⟨.list .bool, .unk .unref⟩]

example : ArgsWF sampleArgs := by unfold ArgsWF; decide
example : TypeFnWF (fun _ => .ok (.object ["a", "b"] [.string, .dyn] [false, false])) := by
  intro as t h; simp only [Res.ok.injEq] at h; subst h; decide
example : sampleSpec.countOK sampleArgs.length = true := by decide
/-- `Type`, `Impl` and `RefineResult` all run on the sample (so the hypotheses
`Event.impl … ∈ trace` are satisfiable); `Impl` sees the nested mark stripped from the variadic
argument but kept on the `AllowMarked` one, and the result carries the stripped mark -/
example : (call sampleSpec sampleTf sampleImpl sampleArgs).2.length = 3 := by decide
example : (call sampleSpec sampleTf sampleImpl sampleArgs).2.any (fun e =>
    match e with
    | .impl as _ => as.map Value.containsMarked == [true, false, false]
    | _ => false) = true := by decide
example : (match (call sampleSpec sampleTf sampleImpl sampleArgs).1 with
    | .ok v => v.marks == ["y"] && v.isKnown
    | _ => false) = true := by decide
example : RefinerValid sampleSpec sampleTf sampleImpl sampleArgs := by
  intro rf pre hr hpre ht hn
  obtain ⟨why, h⟩ := (go_panic_iff sampleSpec sampleTf sampleImpl sampleArgs).mpr ⟨rf, pre, hr, hpre, ht, hn⟩
  have : (call sampleSpec sampleTf sampleImpl sampleArgs).1.isPanic = false := by decide
  rw [h] at this; simp [Out.isPanic] at this
/-- an argument error in the variadic tail names the absolute index -/
example : (call sampleSpec sampleTf sampleImpl
    [⟨.string, .s "a"⟩, ⟨.list .number, .seq []⟩, ⟨.bool, .b true⟩]).1.argIndex? = some 2 := by decide
/-- a short circuit: unknown first argument without `AllowUnknown`, marks of the second collected -/
example : (match (callUnrefined sampleSpec sampleTf sampleImpl
    [⟨.string, .unk .unref⟩, ⟨.list .number, .marked ["z"] (.seq [])⟩]).1 with
    | .ok u => !u.isKnown && u.marks == ["z"]
    | _ => false) = true := by decide
example : (call panicSpec panicTf panicImpl []).1.isPanic = true := by decide
/-- the translated source, evaluated: the same three callback invocations on the sample; a nil `args` is fine -/
example : GoSlice sampleArgs false ∧ GoSlice [] true := ⟨(by intro h; cases h), fun _ => rfl⟩
example : (Generated.FnCall.call sampleSpec sampleTf sampleImpl sampleArgs false).2.length = 3 := by decide
example : (Generated.FnCall.call panicSpec panicTf panicImpl [] true).1.isPanic = true := by decide

/-! slice d10: instances -/

/-- a `jsondecode`-style function: one `string` parameter, `Type` answers the placeholder, `Impl` a
known string, `RefineResult` = `b.NotNull()` as the driver runs it -/
def dynSpec : Spec := { params := [{ ty := .string }], refine := some (toRefineFn notNull) }
def dynTf : TypeFn := fun _ => .ok .dyn
def dynImpl : ImplFn := fun _ _ => .ok ⟨.string, .s "decoded"⟩
def dynArgs : List Value := [⟨.string, .marked ["secret"] (.s "\"decoded\"")⟩]
/-- a `Type` callback that panics -/
def boomTf : TypeFn := fun _ => .panic "boom"

/-- the hypotheses of `refinement_applied_under_placeholder_type` are jointly satisfiable, and its
conclusion evaluated: three callback invocations, the last one `RefineResult`; the result keeps the
argument's mark -/
example : dynSpec.countOK dynArgs.length = true ∧ dynTf (typeArgs dynSpec dynArgs) = .ok .dyn ∧
    typed ⟨.string, .s "decoded"⟩ = true := ⟨by decide, rfl, by decide⟩
example : (call dynSpec dynTf dynImpl dynArgs).2.length = 3 ∧
    (match (call dynSpec dynTf dynImpl dynArgs).2.getLast? with
     | some (.refine _) => true
     | _ => false) = true ∧
    (match (call dynSpec dynTf dynImpl dynArgs).1 with
     | .ok v => v.marks == ["secret"] && v.isKnown
     | _ => false) = true := by decide
/-- the same function whose `Impl` returns null: the builder refuses (the recorded finding), so
`RefinerValid` fails exactly as `refinerValid_notNull_iff` says -/
example : (call dynSpec dynTf (fun _ _ => .ok (Value.null .string)) dynArgs).1.isPanic = true := by decide
example : NullOrDefinitelyNull (Value.null .string).unmark := Or.inl rfl
example : RefinerWF dynSpec := refinerWF_of_driver_menu dynSpec (Or.inr (Or.inl rfl))
example : ImplFnWF dynImpl := implFnWF_const _ (by decide)
/-- a panicking `Type` callback behind `Unpredictable` and `WithNewDescriptions`, at all four entry points -/
def isPanicError {α} : Out α → Bool
  | .err (.panicError _) => true
  | _ => false
example : [Entry.call, .proxy, .rtfv, .rt].all (fun e =>
    isPanicError (wrapRun ⟨dynSpec, boomTf, dynImpl⟩ [.unpredictable, .redesc 1] e dynArgs).1) = true := by
  decide
example : wrappersOK dynSpec [.unpredictable, .redesc 1] = true ∧ wrappersOK dynSpec [.redesc 2] = false := by decide
example : (wrapRun ⟨dynSpec, dynTf, dynImpl⟩ [.redesc 2] .call dynArgs).1.isPanic = true := by decide
/-- `Unpredictable`: an unknown value of the checked type with the argument's mark -/
example : (match (wrapRun ⟨dynSpec, fun _ => .ok .string, dynImpl⟩ [.unpredictable] .call dynArgs).1 with
    | .ok (.val v) => !v.isKnown && (match v.ty with | .string => true | _ => false) && v.marks == ["secret"]
    | _ => false) = true := by decide
/-- the translated source on the placeholder instance: `RefineResult` invoked -/
example : (Generated.FnCall.call dynSpec dynTf dynImpl dynArgs false).2.length = 3 := by decide
example : (Generated.FnCall.call dynSpec boomTf dynImpl dynArgs false).1.isOk = false ∧
    (Generated.FnCall.call dynSpec boomTf dynImpl dynArgs false).1.isPanic = false := by decide

end C10
end CtyModel
