/-
C17 — decoders are safe on arbitrary input: the JSON HALF (cty/json `Unmarshal`,
`ImpliedType`; `cty.Type.UnmarshalJSON`).  The MessagePack half is `Props/C17.lean`.

Property theorems only; lemmas live in `CtyModel/Lemmas/C17Json*.lean`.  Every statement is about
`JsonVal.unmarshalTop` / `JsonVal.unmarshal` (the public `Unmarshal` and the recursive function
behind it), `JsonVal.impliedType`, `Ty.ofJson` — the transliterations of cty/json/unmarshal.go,
value.go, type_implied.go and cty/json.go that the correspondence harness diffs against /repo on
every run — and quantifies over EVERY token tree (`Json`: what `encoding/json`'s lexer delivers;
bytes the lexer rejects are answered with its error before any cty code looks at them, and are
exercised on the real code by the harness) and EVERY requested type that satisfies the
representation invariant `Ty.wf` (names strictly ascending, parallel lists of equal length: what
any `cty.Type` is mapped to).

Oracles (fields of `JEnv`, nothing is an axiom): `env.norm` = `cty.NormalizeString`, `env.hkey` =
the set hash.  The safety clauses (no panic; the result conforms) need NO assumption about them.
The well-formedness clause is relative to `C17Json.Laws env`: `norm` idempotent and the identity on
"true"/"false"; members the set rules call `Equivalent` hash alike and `Equivalent` is symmetric,
on decoder-built members the hash oracle answers for.

`.unmodelled` outcomes (capsule types; two map keys with one normal form; a set member the hash
oracle has no row for; exponents beyond the modelled range) are outside the statements: the
harness never compares them and counts them.
-/
import CtyModel.Lemmas.C17JsonNodes
namespace CtyModel
namespace C17
open Ty JsonVal C17Json

/-- an environment for concrete instances: every string already normalised, no set hashes -/
def jenv0 : JEnv := { norm := id, hkey := fun _ _ => none }

/-- … and one with a hash oracle (every member in bucket 7; fine for one-member sets) -/
def jenv7 : JEnv := { norm := id, hkey := fun _ _ => some (7, "h") }

/-! ## Clause 1 — never a panic -/

/-- The JSON value decoder never panics: for every oracle environment (no law assumed), every
token tree and every requested type.  (Before /repo e63bbcc and 4e1e2c6 this was false: members of
different types under a dynamic element type, and a too-short tuple, reached panicking
constructors; both are now the errors of `json_repaired_panics_are_errors`.) -/
theorem json_never_panics (env : JEnv) (j : Json) (ty : Ty) (hty : Ty.wf ty = true) (w : String) :
    unmarshalTop env j ty ≠ .panic w :=
  (unmarshalTop_sat env j ty hty).not_panic w

/-- the same for the recursive `unmarshal` (what `unmarshalDynamic` and the per-kind functions
call), without the stripping of annotations -/
theorem json_unmarshal_never_panics (env : JEnv) (j : Json) (ty : Ty) (hty : Ty.wf ty = true) (w : String) :
    unmarshal env j ty ≠ .panic w :=
  (unmarshal_sat env j ty hty).not_panic w

/-- `json.ImpliedType` never panics, on every token tree -/
theorem json_implied_never_panics (env : JEnv) (j : Json) (w : String) : impliedType env j ≠ .panic w :=
  (implied_sat env j).not_panic w

/-- `Type.UnmarshalJSON` / `json.UnmarshalType` never panics, on every token tree, whatever `norm` is -/
theorem typejson_never_panics (norm : String → String) (j : Json) (w : String) : Ty.ofJson norm j ≠ .panic w :=
  (ofJson_sat norm j).not_panic w

/-- REGRESSION (repaired by /repo e63bbcc, 4e1e2c6, 5020d30): the recorded witnesses are errors.
`[1,"a"]`-style members of different types under `List(Dynamic)`; `[]` for a one-element tuple (at
top level, inside a list, inside a dynamic wrapper); an optional attribute the object type does not
declare. -/
theorem json_repaired_panics_are_errors :
    (match unmarshalTop jenv0 (.arr [.obj ["value", "type"] [.num "1", .str "number"],
        .obj ["value", "type"] [.str "a", .str "string"]]) (.list .dyn) with | .err _ => true | _ => false) = true ∧
    (match unmarshalTop jenv0 (.arr []) (.tuple [.string]) with | .err _ => true | _ => false) = true ∧
    (match unmarshalTop jenv0 (.arr [.arr []]) (.list (.tuple [.string])) with | .err _ => true | _ => false) = true ∧
    (match unmarshalTop jenv0 (.obj ["value", "type"] [.arr [], .arr [.str "tuple", .arr [.str "string"]]]) .dyn with
      | .err _ => true | _ => false) = true ∧
    (match Ty.ofJson id (.arr [.str "object", .obj ["a"] [.str "string"], .arr [.str "b"]]) with
      | .err _ => true | _ => false) = true := by decide +kernel

/-! ## Clause 2 — a returned result is well-formed and conforms -/

/-- A value the decoder returns has a type that CONFORMS to the requested type — C07's relation:
`TestConformance` reports no error (`Ty.conformErrs ty v.ty = 0`) — and, since /repo afdc0a2,
carries no optional-attribute annotation. -/
theorem json_ok_conforms (env : JEnv) (j : Json) (ty : Ty) (v : Value) (hty : Ty.wf ty = true)
    (h : unmarshalTop env j ty = .ok v) :
    Ty.conformErrs ty v.ty = 0 ∧ Ty.matches ty v.ty = true ∧ Ty.hasOpt v.ty = false ∧ Ty.wf v.ty = true := by
  obtain ⟨hp, hm, ho⟩ := (unmarshalTop_sat env j ty hty).of_ok h
  exact ⟨(Ty.conform_iff ty v.ty hty hp.1.wfTy).mpr hm, hm, ho, hp.1.wfTy⟩

/-- … and the value is one `Equals`/`SetVal` can work with: its payload has the shape its type
dictates at every depth (constructor kinds, tuple lengths, attribute sets, ascending map keys, one
bucket id per set member), is wholly known and carries no mark.  No assumption on the oracles. -/
theorem json_ok_shaped (env : JEnv) (j : Json) (ty : Ty) (v : Value) (hty : Ty.wf ty = true)
    (h : unmarshalTop env j ty = .ok v) :
    v.v.shaped v.ty = true ∧ v.v.whollyKnown = true ∧ v.v.containsMarked = false := by
  obtain ⟨hp, _, _⟩ := (unmarshalTop_sat env j ty hty).of_ok h
  exact ⟨hp.1.dec.shaped, hp.1.dec.known, hp.1.dec.clean⟩

/-- A value the decoder returns is WELL-FORMED in the sense of C06 (`Value.WF`, with "NFC" read as
"fixed point of `norm`"): relative to the laws of the oracles, and for a requested type whose
attribute names are normalised (as the type constructors make them). -/
theorem json_ok_wellformed (env : JEnv) (hl : Laws env) (j : Json) (ty : Ty) (v : Value) (hty : Ty.wf ty = true)
    (hn : Ty.namesAll (nfcOf env.norm) ty = true) (h : unmarshalTop env j ty = .ok v) :
    v.WF (nfcOf env.norm) = true := by
  obtain ⟨hp, _, ho⟩ := (unmarshalTop_sat env j ty hty).of_ok h
  have hf := hp.2 hl (namesAll_strip _ _ hn)
  simp [Value.WF, Ty.ok, hp.1.wfTy, ho, hf.names, hf.wfp]

/-- the laws are satisfiable (with the empty hash oracle the set laws are vacuous: the model then
answers `.unmodelled` for a non-empty set) … -/
example : Laws jenv0 :=
  { norm_idem := fun _ => rfl, norm_true := rfl, norm_false := rfl,
    hash_coherent := fun _ _ _ _ _ _ _ _ _ h => by simp [jenv0] at h,
    equiv_symm := fun _ _ _ _ _ _ _ _ _ h => by simp [jenv0] at h }

/-- … and the conclusion is reached on documents with every kind of node, a set included: an
object with a missing attribute, a tuple, a map with unsorted duplicate keys, a dynamic wrapper,
numbers given as strings -/
example :
    (match unmarshalTop jenv7 (.obj ["m", "t", "s"]
        [.obj ["b", "a", "b"] [.num "1", .str "2", .num "3"],
         .arr [.bool true, .obj ["type", "value"] [.arr [.str "list", .str "string"], .arr [.str "x", .num "1"]]],
         .arr [.str "only"]])
        (.object ["m", "o", "s", "t"] [.map .number, .string, .set .string, .tuple [.string, .dyn]]
          [false, true, false, false]) with
      | .ok v => v.WF (nfcOf jenv7.norm) && (Ty.conformErrs
          (.object ["m", "o", "s", "t"] [.map .number, .string, .set .string, .tuple [.string, .dyn]]
            [false, true, false, false]) v.ty == 0)
      | _ => false) = true := by decide +kernel

/-- A type `json.ImpliedType` returns is well-formed, has no optional-attribute annotation, and
(for idempotent `norm`) normalised attribute names. -/
theorem json_implied_ok_wf (env : JEnv) (j : Json) (t : Ty) (h : impliedType env j = .ok t) :
    Ty.wf t = true ∧ Ty.hasOpt t = false ∧
    ((∀ s, env.norm (env.norm s) = env.norm s) → Ty.namesAll (nfcOf env.norm) t = true) := by
  obtain ⟨⟨h1, h2⟩, h3⟩ := (implied_sat env j).of_ok h
  exact ⟨h1, h3, h2⟩

example : (match impliedType jenv0 (.obj ["b", "a", "b"] [.null, .arr [.num "1", .obj [] []], .null]) with
    | .ok t => t.equals (.object ["a", "b"] [.tuple [.number, .object [] [] []], .dyn] [false, false])
    | _ => false) = true := by decide +kernel

/-- A type `Type.UnmarshalJSON` returns satisfies the representation invariant — attribute names
strictly ascending (no duplicates), one type and one optional flag per name: since /repo 5020d30 the
optional attributes are a subset of the declared ones — and (for idempotent `norm`) its attribute
names are normalised. -/
theorem typejson_ok_wf (norm : String → String) (j : Json) (t : Ty) (h : Ty.ofJson norm j = .ok t) :
    Ty.wf t = true ∧ ((∀ s, norm (norm s) = norm s) → Ty.namesAll (nfcOf norm) t = true) :=
  (ofJson_sat norm j).of_ok h

example : (match Ty.ofJson id (.arr [.str "object",
      .obj ["b", "a", "b"] [.str "bool", .arr [.str "set", .str "dynamic"], .str "string"], .arr [.str "a"]]) with
    | .ok t => t.equals (.object ["a", "b"] [.set .dyn, .string] [true, false])
    | _ => false) = true := by decide +kernel

/-! ## Clause 3 — allocation

The decoders recurse structurally on the token tree (the model's recursion is structural: Lean
accepted it without fuel), so the nesting of calls is bounded by the depth of the tree and the
number of calls by `Json.size`.  `encoding/json`'s buffering — and the re-buffering of the rest of
the document that cty/json does at every nesting level (`readRawValue` + a fresh `json.Decoder`),
measured by the harness — is outside the model.  What the model can say is how much is CONSTRUCTED. -/

/-- THE FULL STATEMENT, at a given constant: the decoded value has at most `K` payload nodes per
token of the document.  FALSE of the code for every `K` (the witness family scales: see
`json_nodes_within_counterexample`); kept visible. -/
def json_nodes_within (K : Nat) : Prop :=
  ∀ (env : JEnv) (j : Json) (ty : Ty), Ty.wf ty = true →
    (match unmarshalTop env j ty with
     | .ok v => decide (v.v.nodes ≤ K * j.size)
     | _ => true) = true

/-- COUNTEREXAMPLE (`K = 4`; for `K` take `k > 25·K/(9−K)`-many empty objects, and a wider type
beyond `K = 8`): `{"type":["list",["object",{a…h:"bool"}]],"value":[{},…,{}]}` with 24 empty
objects has 49 tokens and decodes to a list of 24 objects of 8 null attributes each — 217 payload
nodes.  Every attribute the document does not mention becomes a `null` ("make sure we have a value
for every attribute", unmarshal.go): `k` members × `w` attributes from `k + 2w + O(1)` tokens.
The harness replays the family on the real code (w = 1000, k = 1000: ~20 kB in, > 10^8 bytes
allocated). -/
theorem json_nodes_within_counterexample : ¬ json_nodes_within 4 := fun h =>
  absurd (h jenv0 (bombDoc 24) .dyn rfl) (by decide +kernel)

/-- the witness decodes (the counterexample is not an error path): 217 nodes from 49 tokens -/
example : (match unmarshalTop jenv0 (bombDoc 24) .dyn with
    | .ok v => v.v.nodes == 217 && (bombDoc 24).size == 49
    | _ => false) = true := by decide +kernel

/-- PARTIAL — the strongest bound that holds: against a requested type WITHOUT the placeholder the
decoded value has at most `1 + width ty` payload nodes per token of the document, `width ty` being
the largest attribute count of an object type inside `ty` (the nulls supplied for unmentioned
attributes are the only nodes no token pays for).  The multiple is fixed by the TYPE, not by the
document; with the placeholder the type — and so the multiple — comes from the document itself. -/
theorem json_nodes_partial (env : JEnv) (j : Json) (ty : Ty) (v : Value) (hty : Ty.wf ty = true)
    (hd : Ty.hasDyn ty = false) (h : unmarshalTop env j ty = .ok v) :
    v.v.nodes ≤ j.size * (1 + ty.width) :=
  unmarshalTop_nodes env j ty v hty hd h

/-- the side condition is met by ordinary types, and the bound is attained up to the constant:
24 empty objects against a list of objects with 8 attributes — 25 tokens, 217 nodes ≤ 25·9 -/
example : Ty.wf (.list (.object ["a", "b", "c", "d", "e", "f", "g", "h"] (List.replicate 8 .bool) (List.replicate 8 false))) = true ∧
    Ty.hasDyn (.list (.object ["a", "b", "c", "d", "e", "f", "g", "h"] (List.replicate 8 .bool) (List.replicate 8 false))) = false ∧
    (match unmarshalTop jenv0 (.arr (empties 24))
        (.list (.object ["a", "b", "c", "d", "e", "f", "g", "h"] (List.replicate 8 .bool) (List.replicate 8 false))) with
     | .ok v => v.v.nodes == 217 && (Json.arr (empties 24)).size == 25
     | _ => false) = true := by decide +kernel

end C17
end CtyModel
