/-
C12 — Standard functions treat unknown arguments soundly.

Property theorems only.  The relation "the abstract value admits the concrete one"
is `Covers` of CtyModel/Covers.lean (the C01 relation: type constraint matched wherever
it is not the placeholder, nullness, numeric and length bounds, string prefix, every
known part) — the SAME executable definition the driver evaluates on the real
functions' outputs for the search half of this property (`judge.c12`,
harness/c12.go).

What is proved here is the part of the property that is the call FRAMEWORK's doing,
for every stdlib spec (parameter tables regenerated from the built code on every
check) and for ARBITRARY callbacks: whenever weakening arguments makes `Call`
short-circuit — an argument became unknown and its parameter does not declare
`AllowUnknown` — the unknown it returns admits the concrete result, under the
obligation that the function's `Type` callback is monotone (unconditional for the
statically typed functions) and, where a `RefineResult` is declared, that the
refinement it adds is true of the concrete result.  For functions that DO accept
unknown arguments the soundness is the function's own code: proved where the Impl is
modelled (C13/C14: short-circuit branches inside the callbacks), searched on the real
code otherwise — every exported function x weakenings of arguments and nested
members to typed unknowns true of the replaced part.
-/
import CtyModel.Props.C11
import CtyModel.Lemmas.CoversWeaken
namespace CtyModel
namespace C12
open Fn Std

/-- A `Type` callback is monotone w.r.t. weakening: on an argument list that admits the
concrete one it does not fail and its answer admits the concrete answer. -/
def TypeMonoW (tf : TypeFn) : Prop :=
  ∀ os ws t, coversAll ws os = true → tf os = .ok t → ∃ t', tf ws = .ok t' ∧ C11.Admits t' t

/-- `function.StaticReturnType(T)` is monotone. -/
theorem static_typeMonoW (T : Ty) : TypeMonoW (C11.staticType T) :=
  fun _ _ t _ h => ⟨t, h, fun _ hc => hc⟩

theorem coversAll_length : ∀ (ws os : List Value), coversAll ws os = true → ws.length = os.length
  | [], [], _ => rfl
  | [], _ :: _, h => by simp [coversAll] at h
  | _ :: _, [], h => by simp [coversAll] at h
  | _ :: ws, _ :: os, h => by
    simp only [coversAll, Bool.and_eq_true] at h
    simp [coversAll_length ws os h.2]

/-- The unknown that a short-circuiting call returns admits a value `r` as soon as the type
it carries is matched by `r`'s type: an unrefined unknown excludes nothing else, and the
marks the call adds play no part in `Covers`. -/
theorem shortcircuit_result_covers (spec : Spec) (tf : TypeFn) (impl : ImplFn) (ws : List Value)
    (u r : Value)
    (hu : (callUnrefined spec tf impl ws).1 = .ok u)
    (hno : ∀ as rt, Event.impl as rt ∉ (callUnrefined spec tf impl ws).2)
    (hm : Ty.matches u.ty r.ty = true) : Covers u r = true := by
  obtain ⟨t, _, hty, hun, _, _, _⟩ := C10.shortcircuit_unknown_checked_type_all_marks spec tf impl ws u hu hno
  rw [← covers_unmark_left, hun]
  subst hty
  cases r with
  | mk rt rp => exact covers_unknown hm

/-- **Framework short-circuit is sound.**  Let the concrete call (arguments `os`, none of a
placeholder type, no marks) return `r`, and let `ws` admit `os` argument-wise.  If the call
on `ws` short-circuits (no `Impl` run) to `u`, then `u` admits `r` — provided the `Type`
callback is monotone under weakening and answers well-formed types.  For ALL specs and
callbacks. -/
theorem framework_shortcircuit_sound (spec : Spec) (tf : TypeFn) (impl : ImplFn) (os ws : List Value)
    (r u : Value) (hT : C10.TypeFnWF tf) (hm : TypeMonoW tf)
    (hmo : ∀ a ∈ os, a.containsMarked = false) (hmw : ∀ a ∈ ws, a.containsMarked = false)
    (hdyn : ∀ a ∈ os, a.ty.isDyn = false)
    (hcov : coversAll ws os = true) (hrwf : Ty.wf r.ty = true)
    (hr : (callUnrefined spec tf impl os).1 = .ok r)
    (hu : (callUnrefined spec tf impl ws).1 = .ok u)
    (hno : ∀ as rt, Event.impl as rt ∉ (callUnrefined spec tf impl ws).2) :
    Covers u r = true := by
  apply shortcircuit_result_covers spec tf impl ws u r hu hno
  -- the type the weakened call carries
  obtain ⟨t', hrt', hty', _, _, _, _⟩ := C10.shortcircuit_unknown_checked_type_all_marks spec tf impl ws u hu hno
  -- the type the concrete call was checked against
  have hr' : (call { spec with refine := none } tf impl os).1 = .ok r := hr
  obtain ⟨t, hrt, hconf⟩ := C10.nonconforming_never_returned _ tf impl os hT r hr'
  have hlen : ws.length = os.length := coversAll_length ws os hcov
  rw [hty']
  -- unfold both predictions through the closed form of ReturnTypeForValues
  have hs : ({ spec with refine := none } : Spec).countOK = spec.countOK := rfl
  rw [rtfvPub_eq] at hrt hrt'
  by_cases hc : spec.countOK os.length = true
  · have hc' : spec.countOK ws.length = true := by rw [hlen]; exact hc
    have hco : ({ spec with refine := none } : Spec).countOK os.length = true := hc
    simp only [hco, if_true] at hrt
    simp only [hc', if_true] at hrt'
    -- the concrete arguments all pass (none is dynamically typed, and there was no ArgError)
    cases hfo : firstFail (({ spec with refine := none } : Spec).expand os.length) os with
    | some kf =>
      obtain ⟨k, f⟩ := kf
      rw [hfo] at hrt
      cases f
      · simp at hrt
      · -- a dynamically typed concrete argument: excluded by `hdyn`
        exfalso
        obtain ⟨⟨p, v, _, hv, hpv⟩, _⟩ := firstFail_some hfo
        have hvm : v ∈ os := List.mem_of_getElem? hv
        have := hdyn v hvm
        unfold Param.check at hpv
        split at hpv
        · simp at hpv
        · rw [this] at hpv; simp at hpv
      · simp at hrt
    | none =>
      rw [hfo] at hrt
      have hta : typeArgs { spec with refine := none } os = os := (unmarked_args hco hmo).1
      rw [hta] at hrt
      cases hto : tf os with
      | ok t0 =>
        rw [hto] at hrt
        simp only [Out.ok.injEq] at hrt
        subst hrt
        cases hfw : firstFail (spec.expand ws.length) ws with
        | some kf =>
          obtain ⟨k, f⟩ := kf
          rw [hfw] at hrt'
          cases f
          · simp at hrt'
          · simp only [Out.ok.injEq] at hrt'
            subst hrt'
            rfl
          · simp at hrt'
        | none =>
          rw [hfw] at hrt'
          have htw : typeArgs spec ws = ws := (unmarked_args hc' hmw).1
          rw [htw] at hrt'
          obtain ⟨t1, ht1, had⟩ := hm os ws t0 hcov hto
          rw [ht1] at hrt'
          simp only [Out.ok.injEq] at hrt'
          subst hrt'
          have hc0 := had _ hconf
          exact (Ty.conform_iff t1 r.ty (hT ws t1 ht1) hrwf).mp hc0
      | err c => rw [hto] at hrt; simp at hrt
      | panic w => rw [hto] at hrt; simp at hrt
      | unmodelled => rw [hto] at hrt; simp at hrt
  · have hco : ¬ ({ spec with refine := none } : Spec).countOK os.length = true := hc
    simp [hco] at hrt

/-- Instance for the stdlib: every function of the regenerated parameter table whose source
says `Type: function.StaticReturnType(T)` — whatever its `Impl` does. -/
theorem stdlib_static_shortcircuit_sound (s : Generated.StdSpec) (_hs : s ∈ Generated.stdlibSpecs)
    (T : Ty) (hw : Ty.wf T = true) (impl : ImplFn) (os ws : List Value) (r u : Value)
    (hmo : ∀ a ∈ os, a.containsMarked = false) (hmw : ∀ a ∈ ws, a.containsMarked = false)
    (hdyn : ∀ a ∈ os, a.ty.isDyn = false) (hcov : coversAll ws os = true) (hrwf : Ty.wf r.ty = true)
    (hr : (callUnrefined (toSpec s) (C11.staticType T) impl os).1 = .ok r)
    (hu : (callUnrefined (toSpec s) (C11.staticType T) impl ws).1 = .ok u)
    (hno : ∀ as rt, Event.impl as rt ∉ (callUnrefined (toSpec s) (C11.staticType T) impl ws).2) :
    Covers u r = true :=
  framework_shortcircuit_sound _ _ impl os ws r u (fun _ t ht => by cases ht; exact hw)
    (static_typeMonoW T) hmo hmw hdyn hcov hrwf hr hu hno

/-- The stdlib's `refineNonNull` on top of the short-circuit: an unknown refined "not null"
still admits every KNOWN, non-null concrete result of a matching type whose refinement kind
carries no further constraint (`.nullable`: bool, tuples, objects, …; the number / string /
collection kinds are the C05 builder's and are covered by the search). -/
theorem notNull_unknown_covers (t : Ty) (r : Value) (hm : Ty.matches t r.ty = true)
    (hk : r.v.stripMarks.isKnown = true) (hn : r.v.stripMarks.isNull = false)
    (hnm : r.v.stripMarks.isMarked = false) (hb : ∀ w, r.v.stripMarks ≠ .bad w) :
    Covers ⟨t, .unk (.nullable .f)⟩ r = true := by
  cases r with
  | mk rt rp =>
    simp only [Covers, CoversG, hm, Payload.stripMarks, Cov.coversP, Bool.true_and]
    generalize rp.stripMarks = q at hk hn hnm hb
    cases q <;> simp_all [Cov.admits, Cov.rfnAdmitsKnown, Rfn.nullness, Payload.isKnown, Payload.isNull,
      Payload.unmark1, Payload.isMarked] <;> decide

/-- "When all arguments are wholly known the result is wholly known" — the framework half:
wholly known arguments never short-circuit on unknown-ness, so a successful call with
concretely typed arguments returns what `Impl` returned (plus marks). -/
theorem known_args_reach_impl (spec : Spec) (tf : TypeFn) (impl : ImplFn) (args : List Value)
    (hk : ∀ a ∈ args, a.isKnown = true) : ¬ SomeUnknownBlocked spec args := by
  rintro ⟨i, p, v, _, hv, hb⟩
  have hvm : v ∈ args := List.mem_of_getElem? hv
  have := hk v hvm
  simp [Param.blocksUnknown, this] at hb

/-! ### the hypotheses are satisfiable -/

example : TypeMonoW (C11.staticType (.list .string)) := static_typeMonoW _
example : coversAll [Value.unknown .number, ⟨.string, .s "a"⟩] [⟨.number, .n (.fin false 1 0 64)⟩, ⟨.string, .s "a"⟩] = true := by
  decide
example : Covers ⟨.bool, .unk (.nullable .f)⟩ ⟨.bool, .b true⟩ = true :=
  notNull_unknown_covers .bool ⟨.bool, .b true⟩ (by decide) (by decide) (by decide) (by decide) (by intro w h; cases h)

end C12
end CtyModel
