/-
C12 — Standard functions treat unknown arguments soundly.

Property theorems only.  The relation "the abstract value admits the concrete one"
is `Covers` of CtyModel/Covers.lean (the C01 relation: type constraint matched wherever
it is not the placeholder, nullness, numeric and length bounds, string prefix, every
known part) — the SAME executable definition the driver evaluates on the real
functions' outputs for the search half of this property (`judge.c12`,
harness/c12.go).

What is proved here:

(1) the part of the property that is the call FRAMEWORK's doing, for every stdlib spec (parameter tables
regenerated from the built code on every check) and for ARBITRARY callbacks: whenever weakening arguments
makes `Call` short-circuit — an argument became unknown and its parameter does not declare `AllowUnknown` —
the unknown it returns admits the concrete result, under the obligation that the function's `Type` callback
is monotone (unconditional for the statically typed functions) and, where a `RefineResult` is declared, that
the refinement it adds is true of the concrete result; no failure before `Impl`; wholly known in, wholly
known out through `Call`;

(2) (slice d12b) the COMPOSITION theorem `impl_soundness_lifts_to_call`: soundness of an `Impl` callback on a
pair of argument lists (`ImplSoundAt`) gives "the weakened `Call` succeeds and its result admits the concrete
result", for all specs; and the obligation discharged, function by function, for the modelled callbacks of
Stdlib/Collection.lean, Sequence.lean and d12bStrlen.lean — the SAME definitions the C12/C13 correspondence
diffs against the real functions on weakened arguments: `sound_length`, `sound_compact`, `sound_distinct`,
`sound_coalescelist`, `sound_coalesce`, `sound_keys`, `sound_values`, `sound_reverse`, `sound_element`,
`sound_sort` (length bounds), `sound_strlen` (prefix-derived lower bound), `sound_zipmap`,
`sound_hasindex`, `sound_index`, `sound_contains_partial`, `sound_lookup_map_partial`, `sound_lookup_object`,
`sound_concat_partial`, and the full-strength statement
that is FALSE of the code as `SoundSetProduct` / `SoundSetHasElement` with `sound_setproduct_counterexample` /
`sound_sethaselement_counterexample` (the recorded findings, as theorems about the model).
Functions of primitive arguments that refuse unknowns (`upper`, `lower`, `substr`, `trim*`, `range`, …) are
covered for ARBITRARY `Impl` by `sound_leaf_arguments` / `stdlib_static_leaf_functions_sound` (over the tables).
Side conditions are explicit and decidable on instances; each theorem has a joint witness at the end of the
file.  External libraries enter as parameters with named laws (`EnvConvertSound`, the segmentation law of
`sound_strlen`), probed on the real library by the harness.

For every other function that looks inside partly-unknown arguments itself the soundness is searched on the
real code — every exported function x weakenings of arguments and nested members to typed unknowns true of
the replaced part.
-/
import CtyModel.Props.C11
import CtyModel.Lemmas.CoversWeaken
import CtyModel.Lemmas.C12Funcs
import CtyModel.Lemmas.d12bLeaf
import CtyModel.Lemmas.d12cCall
namespace CtyModel
namespace C12
open Fn Std

/-- A `Type` callback is monotone w.r.t. weakening: on an argument list that admits the
concrete one it does not fail and its answer admits the concrete answer. -/
def TypeMonoW (tf : TypeFn) : Prop := C12L.TypeMonoW tf

/-- `function.StaticReturnType(T)` is monotone. -/
theorem static_typeMonoW (T : Ty) : TypeMonoW (C11.staticType T) :=
  fun _ _ t _ h => ⟨t, h, fun _ hc => hc⟩

theorem coversAll_length : ∀ (ws os : List Value), coversAll ws os = true → ws.length = os.length
  | [], [], _ => rfl
  | [], _ :: _, h => by simp [coversAll] at h
  | _ :: _, [], h => by simp [coversAll] at h
  | _ :: ws, _ :: os, h => by
    simp only [coversAll, Bool.and_eq_true] at h
    simp [coversAll_length ws os h.2]

/-- The unknown that a short-circuiting call returns admits a value `r` as soon as the type
it carries is matched by `r`'s type: an unrefined unknown excludes nothing else, and the
marks the call adds play no part in `Covers`. -/
theorem shortcircuit_result_covers (spec : Spec) (tf : TypeFn) (impl : ImplFn) (ws : List Value)
    (u r : Value)
    (hu : (callUnrefined spec tf impl ws).1 = .ok u)
    (hno : ∀ as rt, Event.impl as rt ∉ (callUnrefined spec tf impl ws).2)
    (hm : Ty.matches u.ty r.ty = true) : Covers u r = true := by
  obtain ⟨t, _, hty, hun, _, _, _⟩ := C10.shortcircuit_unknown_checked_type_all_marks spec tf impl ws u hu hno
  rw [← covers_unmark_left, hun]
  subst hty
  cases r with
  | mk rt rp => exact covers_unknown hm

/-- **Framework short-circuit is sound.**  Let the concrete call (arguments `os`, none of a
placeholder type, no marks) return `r`, and let `ws` admit `os` argument-wise.  If the call
on `ws` short-circuits (no `Impl` run) to `u`, then `u` admits `r` — provided the `Type`
callback is monotone under weakening and answers well-formed types.  For ALL specs and
callbacks. -/
theorem framework_shortcircuit_sound (spec : Spec) (tf : TypeFn) (impl : ImplFn) (os ws : List Value)
    (r u : Value) (hT : C10.TypeFnWF tf) (hm : TypeMonoW tf)
    (hmo : ∀ a ∈ os, a.containsMarked = false) (hmw : ∀ a ∈ ws, a.containsMarked = false)
    (hdyn : ∀ a ∈ os, a.ty.isDyn = false)
    (hcov : coversAll ws os = true) (hrwf : Ty.wf r.ty = true)
    (hr : (callUnrefined spec tf impl os).1 = .ok r)
    (hu : (callUnrefined spec tf impl ws).1 = .ok u)
    (hno : ∀ as rt, Event.impl as rt ∉ (callUnrefined spec tf impl ws).2) :
    Covers u r = true := by
  apply shortcircuit_result_covers spec tf impl ws u r hu hno
  -- the type the weakened call carries
  obtain ⟨t', hrt', hty', _, _, _, _⟩ := C10.shortcircuit_unknown_checked_type_all_marks spec tf impl ws u hu hno
  -- the type the concrete call was checked against
  have hr' : (call { spec with refine := none } tf impl os).1 = .ok r := hr
  obtain ⟨t, hrt, hconf⟩ := C10.nonconforming_never_returned _ tf impl os hT r hr'
  have hlen : ws.length = os.length := coversAll_length ws os hcov
  rw [hty']
  -- unfold both predictions through the closed form of ReturnTypeForValues
  have hs : ({ spec with refine := none } : Spec).countOK = spec.countOK := rfl
  rw [rtfvPub_eq] at hrt hrt'
  by_cases hc : spec.countOK os.length = true
  · have hc' : spec.countOK ws.length = true := by rw [hlen]; exact hc
    have hco : ({ spec with refine := none } : Spec).countOK os.length = true := hc
    simp only [hco, if_true] at hrt
    simp only [hc', if_true] at hrt'
    -- the concrete arguments all pass (none is dynamically typed, and there was no ArgError)
    cases hfo : firstFail (({ spec with refine := none } : Spec).expand os.length) os with
    | some kf =>
      obtain ⟨k, f⟩ := kf
      rw [hfo] at hrt
      cases f
      · simp at hrt
      · -- a dynamically typed concrete argument: excluded by `hdyn`
        exfalso
        obtain ⟨⟨p, v, _, hv, hpv⟩, _⟩ := firstFail_some hfo
        have hvm : v ∈ os := List.mem_of_getElem? hv
        have := hdyn v hvm
        unfold Param.check at hpv
        split at hpv
        · simp at hpv
        · rw [this] at hpv; simp at hpv
      · simp at hrt
    | none =>
      rw [hfo] at hrt
      have hta : typeArgs { spec with refine := none } os = os := (unmarked_args hco hmo).1
      rw [hta] at hrt
      cases hto : tf os with
      | ok t0 =>
        rw [hto] at hrt
        simp only [Out.ok.injEq] at hrt
        subst hrt
        cases hfw : firstFail (spec.expand ws.length) ws with
        | some kf =>
          obtain ⟨k, f⟩ := kf
          rw [hfw] at hrt'
          cases f
          · simp at hrt'
          · simp only [Out.ok.injEq] at hrt'
            subst hrt'
            rfl
          · simp at hrt'
        | none =>
          rw [hfw] at hrt'
          have htw : typeArgs spec ws = ws := (unmarked_args hc' hmw).1
          rw [htw] at hrt'
          obtain ⟨t1, ht1, had⟩ := hm os ws t0 hcov hto
          rw [ht1] at hrt'
          simp only [Out.ok.injEq] at hrt'
          subst hrt'
          have hc0 := had _ hconf
          exact (Ty.conform_iff t1 r.ty (hT ws t1 ht1) hrwf).mp hc0
      | err c => rw [hto] at hrt; simp at hrt
      | panic w => rw [hto] at hrt; simp at hrt
      | unmodelled => rw [hto] at hrt; simp at hrt
  · have hco : ¬ ({ spec with refine := none } : Spec).countOK os.length = true := hc
    simp [hco] at hrt

/-- Instance for the stdlib, quantified over the regenerated TABLES: every entry of the syntax table whose
source says `Type: function.StaticReturnType(e)` — with its parameter declarations from the parameter table,
the declared type `T` read off `e` and the `Type` callback `Std.tfOf` assigns to the entry — whatever its
`Impl` does.  (A function added to or changed in cty/function/stdlib changes what this says; the hypotheses
`s ∈ stdlibSpecs`, `sy.var = s.var` can be met for every entry: C11 `every_syntax_entry_has_spec`.) -/
theorem stdlib_static_shortcircuit_sound (sy : Generated.StdSyntax) (hsy : sy ∈ Generated.stdlibSyntax)
    (s : Generated.StdSpec) (_hs : s ∈ Generated.stdlibSpecs) (_hv : sy.var = s.var)
    (e : String) (he : sy.staticType = some e) (E : Stdlib.Env)
    (impl : ImplFn) (os ws : List Value) (r u : Value)
    (hmo : ∀ a ∈ os, a.containsMarked = false) (hmw : ∀ a ∈ ws, a.containsMarked = false)
    (hdyn : ∀ a ∈ os, a.ty.isDyn = false) (hcov : coversAll ws os = true) (hrwf : Ty.wf r.ty = true) :
    ∃ T tf, staticTy? e = some T ∧ tfOf E sy = some tf ∧
      ((callUnrefined (toSpec s) tf impl os).1 = .ok r → (callUnrefined (toSpec s) tf impl ws).1 = .ok u →
       (∀ as rt, Event.impl as rt ∉ (callUnrefined (toSpec s) tf impl ws).2) → Covers u r = true) := by
  obtain ⟨T, hT, htf⟩ := C11.tfOf_static E sy hsy e he
  refine ⟨T, C11.staticType T, hT, htf, fun hr hu hno => ?_⟩
  have hw := C11.staticTy_wf e T hT
  exact framework_shortcircuit_sound _ _ impl os ws r u (fun _ t ht => by cases ht; exact hw)
    (static_typeMonoW T) hmo hmw hdyn hcov hrwf hr hu hno

/-- The stdlib's `refineNonNull` on top of the short-circuit: an unknown refined "not null"
still admits every KNOWN, non-null concrete result of a matching type whose refinement kind
carries no further constraint (`.nullable`: bool, tuples, objects, …; the number / string /
collection kinds are the C05 builder's and are covered by the search). -/
theorem notNull_unknown_covers (t : Ty) (r : Value) (hm : Ty.matches t r.ty = true)
    (hk : r.v.stripMarks.isKnown = true) (hn : r.v.stripMarks.isNull = false)
    (hnm : r.v.stripMarks.isMarked = false) (hb : ∀ w, r.v.stripMarks ≠ .bad w) :
    Covers ⟨t, .unk (.nullable .f)⟩ r = true := by
  cases r with
  | mk rt rp =>
    simp only [Covers, CoversG, hm, Payload.stripMarks, Cov.coversP, Bool.true_and]
    generalize rp.stripMarks = q at hk hn hnm hb
    cases q <;> simp_all [Cov.admits, Cov.rfnAdmitsKnown, Rfn.nullness, Payload.isKnown, Payload.isNull,
      Payload.unmark1, Payload.isMarked] <;> decide

/-- "When all arguments are wholly known the result is wholly known" — the framework half:
wholly known arguments never short-circuit on unknown-ness, so a successful call with
concretely typed arguments returns what `Impl` returned (plus marks). -/
theorem known_args_reach_impl (spec : Spec) (tf : TypeFn) (impl : ImplFn) (args : List Value)
    (hk : ∀ a ∈ args, a.isKnown = true) : ¬ SomeUnknownBlocked spec args := by
  rintro ⟨i, p, v, _, hv, hb⟩
  have hvm : v ∈ args := List.mem_of_getElem? hv
  have := hk v hvm
  simp [Param.blocksUnknown, this] at hb

/-! ### clause 1: weakening cannot turn a successful call into a failure (framework half) -/

/-- every weakened argument keeps the type of the argument it weakens or is typed by the placeholder
(`cty.DynamicVal`) — what the weakenings of the property's quantifier (`Weaken`) do -/
def TyKept := C12L.TyKept

/-- `Impl` was invoked on `(as, rt)` and did not hand back a value conforming to `rt` -/
def ImplFailsAt := C12L.ImplFailsAt

/-- **No failure before `Impl`** — for ALL specs and callbacks.  The concrete call succeeded; the
weakened arguments admit the concrete ones (`coversAll`), keep their types or take the placeholder
(`TyKept`), nothing is marked, and the `Type` callback is monotone.  Then the weakened call is not an
argument-count error, not an `ArgError`, not an error or panic of `Type`: it returns a value — unless
`Impl` itself is reached, on exactly the weakened arguments, and fails there. -/
theorem no_failure_before_impl (spec : Spec) (tf : TypeFn) (impl : ImplFn) (os ws : List Value) (r : Value)
    (hm : TypeMonoW tf)
    (hmo : ∀ a ∈ os, a.containsMarked = false) (hmw : ∀ a ∈ ws, a.containsMarked = false)
    (hcov : coversAll ws os = true) (hty : TyKept ws os)
    (hr : (callUnrefined spec tf impl os).1 = .ok r) :
    (∃ r', (callUnrefined spec tf impl ws).1 = .ok r') ∨
    (∃ rt, tf ws = .ok rt ∧ Event.impl ws rt ∈ (callUnrefined spec tf impl ws).2 ∧ ImplFailsAt impl ws rt) :=
  C12L.no_failure_unrefined spec tf impl os ws r hm hmo hmw hcov hty hr

/-- the weakenings of the quantifier satisfy `TyKept`, position by position -/
theorem weaken_keeps_type {o w : Value} (h : Weaken o w) : w.ty = o.ty ∨ w.ty.isDyn = true :=
  C12L.weaken_tyKept h

/-- Instance for the stdlib, quantified over the regenerated tables (as `stdlib_static_shortcircuit_sound`):
every statically typed entry, whatever its `Impl` does. -/
theorem stdlib_static_no_failure (sy : Generated.StdSyntax) (hsy : sy ∈ Generated.stdlibSyntax)
    (s : Generated.StdSpec) (_hs : s ∈ Generated.stdlibSpecs) (_hv : sy.var = s.var)
    (e : String) (he : sy.staticType = some e) (E : Stdlib.Env)
    (impl : ImplFn) (os ws : List Value) (r : Value)
    (hmo : ∀ a ∈ os, a.containsMarked = false) (hmw : ∀ a ∈ ws, a.containsMarked = false)
    (hcov : coversAll ws os = true) (hty : TyKept ws os) :
    ∃ T tf, staticTy? e = some T ∧ tfOf E sy = some tf ∧
      ((callUnrefined (toSpec s) tf impl os).1 = .ok r →
        (∃ r', (callUnrefined (toSpec s) tf impl ws).1 = .ok r') ∨
        (∃ rt, Event.impl ws rt ∈ (callUnrefined (toSpec s) tf impl ws).2 ∧ ImplFailsAt impl ws rt)) := by
  obtain ⟨T, hT, htf⟩ := C11.tfOf_static E sy hsy e he
  refine ⟨T, C11.staticType T, hT, htf, fun hr => ?_⟩
  rcases no_failure_before_impl _ _ impl os ws r (static_typeMonoW T) hmo hmw hcov hty hr with h | ⟨rt, _, h2, h3⟩
  · exact Or.inl h
  · exact Or.inr ⟨rt, h2, h3⟩

/-! ### clause 2 through the declared refinement: `RefineResult: refineNonNull` keeps soundness -/

/-- the top of the payload has the Go kind its type prescribes and collection lengths fit a Go `int`
(representation invariants of `cty.Value`; property C06) -/
def fitsTop := C12L.fitsTop

/-- **All refinement kinds.**  If the unknown `⟨t, ρ⟩` — `ρ` a nullable, string-prefix, numeric-bounds or
length-bounds refinement, or none — admits the known, non-null, mark-free value `r`, then so does what
`refineNonNull` makes of it, including the collapses of `NewValue` (equal inclusive bounds → the number;
length 0 → the empty collection; a list of known length → a list of unknowns; a set of length 1). -/
theorem notNull_unknown_covers_all_kinds (t : Ty) (ρ : Rfn) (r : Value) (w : Payload)
    (h : Stdlib.refineNN ⟨t, .unk ρ⟩ = some w) (hcl : r.containsMarked = false) (hfit : fitsTop r.ty r.v = true)
    (hc : Covers ⟨t, .unk ρ⟩ r = true) : Covers ⟨t, w⟩ r = true :=
  C12L.covers_refineNN_unk t ρ r w h hcl hfit hc

/-- `val.RefineWith(refineNonNull)` keeps `Covers`, whatever `val` is (known or unknown) -/
theorem refineNonNull_keeps_covers (u r w : Value) (hum : u.v.isMarked = false)
    (hud : u.ty.isDyn = false ∨ u.isKnown = false)
    (hcl : r.containsMarked = false) (hfit : fitsTop r.ty r.v = true)
    (hc : Covers u r = true) (hw : refineWith Stdlib.refineNN u = .ok w) : Covers w r = true :=
  C12L.refineWith_covers u r w hum hud hcl hfit hc hw

/-- **Post-refinement soundness through `Call`.**  A function declaring `RefineResult: refineNonNull`:
if before the refinement the weakened outcome `u` admits the concrete outcome `r` (known, not null),
then `Call` on the concrete arguments returns `r` and every value `Call` returns on the weakened
arguments admits it. -/
theorem call_refined_covers (spec : Spec) (tf : TypeFn) (impl : ImplFn) (os ws : List Value) (r u : Value)
    (hrf : spec.refine = some Stdlib.refineNN)
    (ho : (callUnrefined spec tf impl os).1 = .ok r) (hu : (callUnrefined spec tf impl ws).1 = .ok u)
    (hum : u.v.isMarked = false) (hud : u.ty.isDyn = false ∨ u.isKnown = false)
    (hcl : r.containsMarked = false) (hfit : fitsTop r.ty r.v = true) (hd : r.ty.isDyn = false)
    (hc : Covers u r = true) :
    (call spec tf impl os).1 = .ok r ∧ ∀ w, (call spec tf impl ws).1 = .ok w → Covers w r = true :=
  C12L.call_refined_covers spec tf impl os ws r u hrf ho hu hum hud hcl hfit hd hc

/-- the short-circuit and the refinement together: the framework's unknown, refined not-null, admits the
concrete result of a function declaring `refineNonNull` -/
theorem framework_shortcircuit_refined_sound (spec : Spec) (tf : TypeFn) (impl : ImplFn) (os ws : List Value)
    (r u : Value) (hrf : spec.refine = some Stdlib.refineNN) (hT : C10.TypeFnWF tf) (hm : TypeMonoW tf)
    (hmo : ∀ a ∈ os, a.containsMarked = false) (hmw : ∀ a ∈ ws, a.containsMarked = false)
    (hdyn : ∀ a ∈ os, a.ty.isDyn = false)
    (hcov : coversAll ws os = true) (hrwf : Ty.wf r.ty = true)
    (hr : (callUnrefined spec tf impl os).1 = .ok r)
    (hu : (callUnrefined spec tf impl ws).1 = .ok u)
    (hno : ∀ as rt, Event.impl as rt ∉ (callUnrefined spec tf impl ws).2)
    (hum : u.v.isMarked = false) (hud : u.ty.isDyn = false ∨ u.isKnown = false)
    (hcl : r.containsMarked = false) (hfit : fitsTop r.ty r.v = true) (hd : r.ty.isDyn = false) :
    (call spec tf impl os).1 = .ok r ∧ ∀ w, (call spec tf impl ws).1 = .ok w → Covers w r = true :=
  call_refined_covers spec tf impl os ws r u hrf hr hu hum hud hcl hfit hd
    (framework_shortcircuit_sound spec tf impl os ws r u hT hm hmo hmw hdyn hcov hrwf hr hu hno)

/-! ### unknown branches of the modelled `Impl`s (tied to the code by the C12 correspondence) -/

/-- `compact`: a list argument that is not wholly known is answered by the unknown of the result type,
which admits every concrete result of a matching type. (`_partial`: the branch condition is explicit.) -/
theorem sound_compact_partial (E : Stdlib.Env) (w : Value) (rest : List Value) (rt : Ty) (r : Value)
    (hw : w.whollyKnown = false) (hm : Ty.matches rt r.ty = true) :
    ∃ r', Stdlib.compactImpl E (w :: rest) rt = .ok r' ∧ Covers r' r = true :=
  ⟨_, C12L.compact_unknown_branch E w rest rt hw, C12L.unknown_covers_of_matches rt r hm⟩

/-- `reverse` of a set that holds an unknown member (/repo 54de46d): unknown of the result type -/
theorem sound_reverse_set_partial (E : Stdlib.Env) (e : Ty) (p : Payload) (rest : List Value) (rt : Ty) (r : Value)
    (hpm : p.isMarked = false) (hw : p.whollyKnown = false) (hm : Ty.matches rt r.ty = true) :
    ∃ r', Stdlib.reverseImpl E (⟨.set e, p⟩ :: rest) rt = .ok r' ∧ Covers r' r = true :=
  ⟨_, C12L.reverse_set_unknown_branch E e p rest rt hpm hw, C12L.unknown_covers_of_matches rt r hm⟩

/-- `coalesce` / `coalescelist`: an unknown first argument is answered by the unknown of the result type -/
theorem sound_coalesce_partial (E : Stdlib.Env) (w : Value) (rest : List Value) (rt : Ty) (r : Value)
    (hw : w.isKnown = false) (hm : Ty.matches rt r.ty = true) :
    (∃ r', Stdlib.coalesceImpl E (w :: rest) rt = .ok r' ∧ Covers r' r = true) ∧
    (∃ r', Stdlib.coalesceListImpl (w :: rest) rt = .ok r' ∧ Covers r' r = true) :=
  ⟨⟨_, C12L.coalesce_unknown_branch E w rest rt hw, C12L.unknown_covers_of_matches rt r hm⟩,
   ⟨_, C12L.coalescelist_unknown_branch w rest rt hw, C12L.unknown_covers_of_matches rt r hm⟩⟩

/-! ### wholly known in, wholly known out -/

/-- **Through `Call`, for all specs and callbacks**: wholly known, mark-free arguments reach `Impl`
untouched and what `Call` returns (before the declared refinement) is what `Impl` returned — or it is
`cty.DynamicVal`, which happens only for an argument of the placeholder type (the null of that type is
"wholly known": the recorded C01 finding null-of-dynamic-type-operand). -/
theorem known_args_impl_value (spec : Spec) (tf : TypeFn) (impl : ImplFn) (args : List Value) (r : Value)
    (hk : ∀ a ∈ args, a.whollyKnown = true) (hm : ∀ a ∈ args, a.containsMarked = false)
    (hr : (callUnrefined spec tf impl args).1 = .ok r) :
    r = Value.unknown .dyn ∨ ∃ rt, tf args = .ok rt ∧ impl args rt = .ok r :=
  C12L.known_args_impl_value spec tf impl args r hk hm hr

/-- so an `Impl` that keeps wholly-known-ness gives a `Call` that does -/
theorem known_in_known_out (spec : Spec) (tf : TypeFn) (impl : ImplFn) (args : List Value) (r : Value)
    (hi : C12L.ImplKnownOut impl)
    (hk : ∀ a ∈ args, a.whollyKnown = true) (hm : ∀ a ∈ args, a.containsMarked = false)
    (hr : (callUnrefined spec tf impl args).1 = .ok r) :
    r.whollyKnown = true ∨ r = Value.unknown .dyn := by
  rcases known_args_impl_value spec tf impl args r hk hm hr with h | ⟨rt, _, h⟩
  · exact Or.inr h
  · exact Or.inl (hi args rt r hk h)

/-- `hasindex` (a wrapper of `Value.HasIndex`, C01): wholly known in, wholly known out -/
theorem known_in_known_out_hasindex (c k r : Value) (hc : c.whollyKnown = true) (hk : k.whollyKnown = true)
    (hmc : c.containsMarked = false) (hmk : k.containsMarked = false) (htc : c.ty ≠ .dyn) (htk : k.ty ≠ .dyn)
    (hr : (callUnrefined Stdlib.hasIndexSpec Stdlib.hasIndexType Stdlib.hasIndexImpl [c, k]).1 = .ok r) :
    r.whollyKnown = true ∨ r = Value.unknown .dyn := by
  rcases known_args_impl_value _ _ _ [c, k] r (by intro a ha; simp at ha; rcases ha with rfl | rfl <;> assumption)
    (by intro a ha; simp at ha; rcases ha with rfl | rfl <;> assumption) hr with h | ⟨rt, _, h⟩
  · exact Or.inr h
  · left
    exact hasIndex_known_partial c k r hc hk htc htk h

/-! ### per-function soundness (slice d12b): from `Impl` to `Call`, then function by function

The part of the property that is each function's own doing.  `ImplSoundAt tf impl os ws` is the obligation on
the callback; `impl_soundness_lifts_to_call` is the composition with the framework (for ALL specs); the
`sound_<fn>` theorems discharge the obligation for the modelled callbacks (Stdlib/Collection.lean — the
same definitions the C12/C13 correspondence diffs against the real functions on weakened arguments) and
state the clause "the weakened call does not fail and its result admits the concrete result" about
`Function.Call` itself (before the declared `refineNonNull`, which `call_refined_covers` adds). -/

/-- the obligation on an `Impl` callback, relative to its `Type` callback, on one pair of argument lists -/
def ImplSoundAt := D12b.ImplSoundAt
/-- the weakened arguments pass the per-argument checks of `returnTypeForValues` -/
def Passes := D12b.Passes
/-- no weakened argument is an unknown its parameter refuses -/
def ReachesImpl := D12b.ReachesImpl
/-- the `Type` callback does not fail on the weakened arguments and its answer admits the concrete answer -/
def TypeMonoAt := D12b.TypeMonoAt

/-- **From `Impl` to `Call`, for all specs and callbacks** (clauses 1 and 2 of the property together).
Concrete arguments known at the top, nothing marked, the weakened arguments admit the concrete ones and keep
their types or take the placeholder.  If `Type` is monotone on this pair and `Impl` is sound on it — both
only asked for when the weakened arguments get that far — the weakened `Call` SUCCEEDS and its result
admits the concrete result.  `hrwf`, `hrefl`: the concrete result has a well-formed type and admits itself
(true of every value cty builds: `covers_refl`). -/
theorem impl_soundness_lifts_to_call (spec : Spec) (tf : TypeFn) (impl : ImplFn) (os ws : List Value) (r : Value)
    (hm : Passes spec ws → TypeMonoAt tf os ws) (hTw : ∀ t, tf ws = .ok t → Ty.wf t = true)
    (hko : ∀ a ∈ os, a.isKnown = true)
    (hmo : ∀ a ∈ os, a.containsMarked = false) (hmw : ∀ a ∈ ws, a.containsMarked = false)
    (hcov : coversAll ws os = true) (hty : TyKept ws os) (hrwf : Ty.wf r.ty = true) (hrefl : Covers r r = true)
    (hi : Passes spec ws → ReachesImpl spec ws → ImplSoundAt tf impl os ws)
    (hr : (callUnrefined spec tf impl os).1 = .ok r) :
    ∃ r', (callUnrefined spec tf impl ws).1 = .ok r' ∧ Covers r' r = true :=
  D12b.call_sound_of_impl spec tf impl os ws r hm hTw hko hmo hmw hcov hty hrwf hrefl hi hr

/-- `Covers` is reflexive on values without a `.bad` payload node (a Go kind the type cannot have: C06) -/
theorem covers_refl (r : Value) (h : D12b.okP r.v.stripMarks = true) : Covers r r = true := D12b.covers_refl r h

/-- a weakening that is itself wholly known IS the value it weakens (same type, nothing marked, no set inside):
what makes the `if !arg.IsWhollyKnown() { return cty.UnknownVal(retType) }` guards sound -/
theorem wholly_known_weakening_is_identity {w o : Value} (hty : w.ty = o.ty) (hmw : w.containsMarked = false)
    (hmo : o.containsMarked = false) (hk : w.whollyKnown = true) (hs : D12b.noSet w.v = true)
    (hc : CoversX w o = true) : w = o := D12b.coversX_wk_eq hty hmw hmo hk hs hc

theorem one_arg_cover {w o : Value} (hc : CoversX w o = true) : coversAll [w] [o] = true := by
  simp [coversAll, hc]

/-- **`length`** (`LengthFunc`: `Impl` is `Value.Length`; the parameter accepts unknown and dynamically
typed arguments, so `Impl` sees every weakening).  The weakened call succeeds and answers the concrete
length, or — for an unknown collection — the range of its length refinement, or — for a set holding
unknowns — `[1, number of members]`: each admits the concrete length.  Side conditions are those of
C01 `sound_length_partial` (`hwdyn`: a weakening of the placeholder type is unknown; `SetCountOK`: a weakened
set all of whose members are known has as many members as the set it stands for). -/
theorem sound_length (o w r : Value) (hk : o.whollyKnown = true) (hfo : o.wfc = true) (hfw : w.wfc = true)
    (hmo : o.containsMarked = false) (hmw : w.containsMarked = false)
    (hwdyn : w.ty = .dyn → w.isKnown = false) (hcount : SetCountOK w.unmark o.unmark = true)
    (hty : w.ty = o.ty ∨ w.ty.isDyn = true) (hc : CoversX w o = true) (hrefl : Covers r r = true)
    (hr : (callUnrefined Stdlib.lengthSpec Stdlib.lengthType Stdlib.lengthImpl [o]).1 = .ok r) :
    ∃ r', (callUnrefined Stdlib.lengthSpec Stdlib.lengthType Stdlib.lengthImpl [w]).1 = .ok r' ∧ Covers r' r = true := by
  have hrwf : Ty.wf r.ty = true := by
    rcases known_args_impl_value _ _ _ [o] r (by simpa using hk) (by simpa using hmo) hr with h | ⟨rt, _, h⟩
    · rw [h]; rfl
    · simp only [Stdlib.lengthImpl] at h
      rw [D12b.length_ty h]; rfl
  exact impl_soundness_lifts_to_call _ _ _ [o] [w] r (fun _ => D12b.lengthType_mono hty)
    (fun t ht => by rw [D12b.lengthType_number ht]; rfl)
    (by simpa using C12L.whollyKnown_isKnown hk) (by simpa using hmo) (by simpa using hmw)
    (one_arg_cover hc) ⟨hty, trivial⟩ hrwf hrefl
    (fun _ _ => D12b.length_implSound o w hk hfo hfw hwdyn hcount hc) hr

/-- **`compact`** (guard `if !listVal.IsWhollyKnown() { return cty.UnknownVal(retType) }`): a list with an
unknown element is answered by the unknown list of strings; a wholly known weakening is the list itself. -/
theorem sound_compact (E : Stdlib.Env) (o w r : Value) (hk : o.whollyKnown = true)
    (hmo : o.containsMarked = false) (hmw : w.containsMarked = false) (hs : D12b.noSet w.v = true)
    (hty : w.ty = o.ty ∨ w.ty.isDyn = true) (hc : CoversX w o = true)
    (hrwf : Ty.wf r.ty = true) (hrefl : Covers r r = true)
    (hr : (callUnrefined Stdlib.compactSpec Stdlib.compactType (Stdlib.compactImpl E) [o]).1 = .ok r) :
    ∃ r', (callUnrefined Stdlib.compactSpec Stdlib.compactType (Stdlib.compactImpl E) [w]).1 = .ok r' ∧
      Covers r' r = true :=
  impl_soundness_lifts_to_call _ _ _ [o] [w] r (fun _ => D12b.typeMonoAt_of_eq rfl)
    (fun t ht => by cases ht; rfl)
    (by simpa using C12L.whollyKnown_isKnown hk) (by simpa using hmo) (by simpa using hmw)
    (one_arg_cover hc) ⟨hty, trivial⟩ hrwf hrefl
    (fun hp _ => D12b.compact_implSound E o w (D12b.ty_kept_of_passes_nodyn (spec := Stdlib.compactSpec) rfl hp hty) hmw hmo hs hc) hr

/-- **`distinct`** (same guard) -/
theorem sound_distinct (E : Stdlib.Env) (o w r : Value) (hk : o.whollyKnown = true) (hwf : Ty.wf o.ty = true)
    (hmo : o.containsMarked = false) (hmw : w.containsMarked = false) (hs : D12b.noSet w.v = true)
    (hty : w.ty = o.ty ∨ w.ty.isDyn = true) (hc : CoversX w o = true)
    (hrwf : Ty.wf r.ty = true) (hrefl : Covers r r = true)
    (hr : (callUnrefined Stdlib.distinctSpec Stdlib.distinctType (Stdlib.distinctImpl E) [o]).1 = .ok r) :
    ∃ r', (callUnrefined Stdlib.distinctSpec Stdlib.distinctType (Stdlib.distinctImpl E) [w]).1 = .ok r' ∧
      Covers r' r = true :=
  impl_soundness_lifts_to_call _ _ _ [o] [w] r
    (fun hp => D12b.typeMonoAt_of_eq (by
      simp [Stdlib.distinctType, D12b.ty_kept_of_passes_nodyn (spec := Stdlib.distinctSpec) rfl hp hty]))
    (fun t ht => by
      simp only [Stdlib.distinctType] at ht
      cases ht
      rcases hty with h | h
      · rw [h]; exact hwf
      · cases hw : w.ty <;> simp_all [Ty.isDyn, Ty.wf])
    (by simpa using C12L.whollyKnown_isKnown hk) (by simpa using hmo) (by simpa using hmw)
    (one_arg_cover hc) ⟨hty, trivial⟩ hrwf hrefl
    (fun hp _ => D12b.distinct_implSound E o w (D12b.ty_kept_of_passes_nodyn (spec := Stdlib.distinctSpec) rfl hp hty) hmw hmo hs hc) hr

/-- same type, or `cty.DynamicVal` (an UNKNOWN of the placeholder type), position by position — the two
constructors of `Weaken` (`TyKept` also lets the known null of the placeholder type through) -/
def TyKeptU := D12b.TyKeptU

/-- **`coalescelist`** (variadic, `AllowUnknown`, `AllowDynamicType`, `AllowNull`): the first non-empty list or
tuple; an unknown argument met first gives the unknown of the predicted type (the placeholder when argument
types differ or an argument is unknown); an argument known at the top is returned with its unknown members. -/
theorem sound_coalescelist (os ws : List Value) (r : Value) (hk : ∀ a ∈ os, a.whollyKnown = true)
    (hmo : ∀ a ∈ os, a.containsMarked = false) (hmw : ∀ a ∈ ws, a.containsMarked = false)
    (hwf : ∀ a ∈ ws, Ty.wf a.ty = true)
    (hcov : coversAll ws os = true) (hty : TyKeptU ws os) (hrwf : Ty.wf r.ty = true) (hrefl : Covers r r = true)
    (hr : (callUnrefined Stdlib.coalesceListSpec Stdlib.coalesceListType Stdlib.coalesceListImpl os).1 = .ok r) :
    ∃ r', (callUnrefined Stdlib.coalesceListSpec Stdlib.coalesceListType Stdlib.coalesceListImpl ws).1 = .ok r' ∧
      Covers r' r = true :=
  have hko : ∀ a ∈ os, a.isKnown = true := fun a ha => C12L.whollyKnown_isKnown (hk a ha)
  impl_soundness_lifts_to_call _ _ _ os ws r
    (fun _ => D12b.coalesceListType_mono hko hty (coversAll_length ws os hcov))
    (fun _ ht => D12b.coalesceListType_wf hwf ht) hko hmo hmw hcov (D12b.TyKeptU.toTyKept hty) hrwf hrefl
    (fun _ _ => D12b.coalescelist_implSound os ws hcov hty hko hmo hmw) hr

/-- **`keys`** (`AllowUnknown`): an object's keys come from its type, known or not; a known map keeps its keys
under weakening of its elements; an unknown map gives the unknown list of strings. -/
theorem sound_keys (o w r : Value) (hk : o.whollyKnown = true)
    (hmo : o.containsMarked = false) (hmw : w.containsMarked = false)
    (hty : w.ty = o.ty ∨ w.ty.isDyn = true) (hc : CoversX w o = true)
    (hrwf : Ty.wf r.ty = true) (hrefl : Covers r r = true)
    (hr : (callUnrefined Stdlib.keysSpec Stdlib.keysType Stdlib.keysImpl [o]).1 = .ok r) :
    ∃ r', (callUnrefined Stdlib.keysSpec Stdlib.keysType Stdlib.keysImpl [w]).1 = .ok r' ∧ Covers r' r = true :=
  impl_soundness_lifts_to_call _ _ _ [o] [w] r
    (fun hp => D12b.typeMonoAt_of_eq
      (D12b.keysType_eq (D12b.ty_kept_of_passes_nodyn (spec := Stdlib.keysSpec) rfl hp hty)))
    (fun _ ht => D12b.keysType_wf ht)
    (by simpa using C12L.whollyKnown_isKnown hk) (by simpa using hmo) (by simpa using hmw)
    (one_arg_cover hc) ⟨hty, trivial⟩ hrwf hrefl
    (fun hp _ => D12b.keys_implSound o w (D12b.ty_kept_of_passes_nodyn (spec := Stdlib.keysSpec) rfl hp hty)
      hmw hmo (C12L.whollyKnown_isKnown hk) hc) hr

/-- what `coalesce` needs of `convert.Convert` (a parameter of the model, `Env.convert`): converting a
weakening (same type) of a value succeeds when converting the value does, to a result of the same type that
admits the concrete one (what property C08 states of the conversion model) -/
def EnvConvertSound := D12b.EnvConvertSound
/-- every weakened argument has the type of the argument it weakens -/
def TyKeptS := D12b.TyKeptS

/-- **`coalesce`** (variadic, `AllowUnknown`, `AllowDynamicType`, `AllowNull`): the first non-null argument
converted to the unified type; an unknown argument met first gives the unknown of that type; a known argument
of the unified type is returned with its unknown members.  `TyKeptS`: argument types kept (`cty.DynamicVal`
changes the input of `convert.UnifyUnsafe`, which is a parameter here: searched). -/
theorem sound_coalesce (E : Stdlib.Env) (hE : EnvConvertSound E) (os ws : List Value) (r : Value)
    (hk : ∀ a ∈ os, a.whollyKnown = true)
    (hmo : ∀ a ∈ os, a.containsMarked = false) (hmw : ∀ a ∈ ws, a.containsMarked = false)
    (hTw : ∀ t, Stdlib.coalesceType E ws = .ok t → Ty.wf t = true)
    (hcov : coversAll ws os = true) (hty : TyKeptS ws os) (hrwf : Ty.wf r.ty = true) (hrefl : Covers r r = true)
    (hr : (callUnrefined Stdlib.coalesceSpec (Stdlib.coalesceType E) (Stdlib.coalesceImpl E) os).1 = .ok r) :
    ∃ r', (callUnrefined Stdlib.coalesceSpec (Stdlib.coalesceType E) (Stdlib.coalesceImpl E) ws).1 = .ok r' ∧
      Covers r' r = true :=
  impl_soundness_lifts_to_call _ _ _ os ws r
    (fun _ => D12b.typeMonoAt_of_eq (D12b.coalesceType_eq E hty)) hTw
    (fun a ha => C12L.whollyKnown_isKnown (hk a ha)) hmo hmw hcov
    (D12b.TyKeptU.toTyKept (D12b.TyKeptS.toU hty)) hrwf hrefl
    (fun _ _ => D12b.coalesce_implSound E hE os ws hcov hty hmo hmw) hr

/-- **`reverse`**: a list or tuple known at the top whose members are weakened is reversed member by member; a
set holding an unknown member has no iteration order yet and the answer is the unknown list (/repo 54de46d).
(`hset`: a set argument is weakened in a member, or not at all.) -/
theorem sound_reverse (E : Stdlib.Env) (o w r : Value) (hk : o.whollyKnown = true) (hwf : Ty.wf w.ty = true)
    (hmo : o.containsMarked = false) (hmw : w.containsMarked = false)
    (hty : w.ty = o.ty ∨ w.ty.isDyn = true) (hc : CoversX w o = true)
    (hset : Stdlib.isSetTy o.ty = true → w.whollyKnown = false ∨ w = o)
    (hrwf : Ty.wf r.ty = true) (hrefl : Covers r r = true)
    (hr : (callUnrefined Stdlib.reverseSpec Stdlib.reverseType (Stdlib.reverseImpl E) [o]).1 = .ok r) :
    ∃ r', (callUnrefined Stdlib.reverseSpec Stdlib.reverseType (Stdlib.reverseImpl E) [w]).1 = .ok r' ∧
      Covers r' r = true :=
  impl_soundness_lifts_to_call _ _ _ [o] [w] r
    (fun hp => D12b.typeMonoAt_of_eq
      (D12b.reverseType_eq (D12b.ty_kept_of_passes_nodyn (spec := Stdlib.reverseSpec) rfl hp hty)))
    (fun _ ht => D12b.reverseType_wf hwf ht)
    (by simpa using C12L.whollyKnown_isKnown hk) (by simpa using hmo) (by simpa using hmw)
    (one_arg_cover hc) ⟨hty, trivial⟩ hrwf hrefl
    (fun hp hri => D12b.reverse_implSound E o w (D12b.ty_kept_of_passes_nodyn (spec := Stdlib.reverseSpec) rfl hp hty)
      hmw hmo (D12b.known_of_reaches1 (spec := Stdlib.reverseSpec) rfl hri) hc hset) hr

/-- **`values`**: the element values of a map or object known at the top, weakened or not, in key order -/
theorem sound_values (E : Stdlib.Env) (o w r : Value) (hk : o.whollyKnown = true) (hwf : Ty.wf w.ty = true)
    (hmo : o.containsMarked = false) (hmw : w.containsMarked = false)
    (hty : w.ty = o.ty ∨ w.ty.isDyn = true) (hc : CoversX w o = true)
    (hrwf : Ty.wf r.ty = true) (hrefl : Covers r r = true)
    (hr : (callUnrefined Stdlib.valuesSpec Stdlib.valuesType (Stdlib.valuesImpl E) [o]).1 = .ok r) :
    ∃ r', (callUnrefined Stdlib.valuesSpec Stdlib.valuesType (Stdlib.valuesImpl E) [w]).1 = .ok r' ∧
      Covers r' r = true :=
  impl_soundness_lifts_to_call _ _ _ [o] [w] r
    (fun hp => D12b.typeMonoAt_of_eq
      (D12b.valuesType_eq (D12b.ty_kept_of_passes_nodyn (spec := Stdlib.valuesSpec) rfl hp hty)))
    (fun _ ht => D12b.valuesType_wf hwf ht)
    (by simpa using C12L.whollyKnown_isKnown hk) (by simpa using hmo) (by simpa using hmw)
    (one_arg_cover hc) ⟨hty, trivial⟩ hrwf hrefl
    (fun hp hri => D12b.values_implSound E o w (D12b.ty_kept_of_passes_nodyn (spec := Stdlib.valuesSpec) rfl hp hty)
      hmw hmo (D12b.known_of_reaches1 (spec := Stdlib.valuesSpec) rfl hri) hc) hr

/-- `Equals` of the concrete / weakened needle with a concrete / weakened element: both answer and the weakened
answer admits the concrete one (C01 `sound_equals_partial`, `sound_equals_object_partial`, … give this) -/
def EqAt := D12b.EqAt
/-- … for the elements of the two haystacks, in iteration order -/
def EqPairs := D12b.EqPairs

/-- **`contains`**, `_partial` in that the soundness of `Equals` on the visited pairs is a hypothesis (`EqPairs`;
`Equals` itself is only partially sound: C01 `sound_equals_counterexample`).  Given that, the search loop is
sound: a definite answer of the concrete call is the weakened call's answer too, unless some comparison on
the way was unknown — then the weakened answer is unknown.  No other route to a definite answer exists in
the modelled callback; the seeded changes `C12-contains-set-hash-lookup-fast-path` (a definite False from a
hash lookup for a needle with an unknown inside) and `C12-contains-rawequals-fast-path…` contradict this
theorem on their witnesses, and the correspondence sees them as model / code mismatches. -/
theorem sound_contains_partial (E : Stdlib.Env) (oa wa on wn r : Value)
    (hka : oa.whollyKnown = true) (hkn : on.whollyKnown = true)
    (hmoa : oa.containsMarked = false) (hmwa : wa.containsMarked = false)
    (hmon : on.containsMarked = false) (hmwn : wn.containsMarked = false)
    (hca : CoversX wa oa = true) (hcn : CoversX wn on = true)
    (hta : wa.ty = oa.ty) (htn : wn.ty = on.ty ∨ wn.ty.isDyn = true)
    (hnull : wa.isNull = oa.isNull)
    (hlen : ∀ l, Stdlib.lengthInt oa = .ok l → ∃ l', Stdlib.lengthInt wa = .ok l' ∧ ((l' == 0) = (l == 0)))
    (hel : ∀ eo, Stdlib.elems E oa = .ok eo → ∃ ew, Stdlib.elems E wa = .ok ew ∧ EqPairs on wn eo ew ∧
      (∀ a ∈ eo, a.containsMarked = false) ∧ (∀ a ∈ ew, a.containsMarked = false))
    (hrwf : Ty.wf r.ty = true) (hrefl : Covers r r = true)
    (hr : (callUnrefined Stdlib.containsSpec Stdlib.containsType (Stdlib.containsImpl E) [oa, on]).1 = .ok r) :
    ∃ r', (callUnrefined Stdlib.containsSpec Stdlib.containsType (Stdlib.containsImpl E) [wa, wn]).1 = .ok r' ∧
      Covers r' r = true :=
  impl_soundness_lifts_to_call _ _ _ [oa, on] [wa, wn] r (fun _ => D12b.typeMonoAt_of_eq rfl)
    (fun t ht => by cases ht; rfl)
    (by intro a ha; simp at ha; rcases ha with rfl | rfl <;> exact C12L.whollyKnown_isKnown (by assumption))
    (by intro a ha; simp at ha; rcases ha with rfl | rfl <;> assumption)
    (by intro a ha; simp at ha; rcases ha with rfl | rfl <;> assumption)
    (by simp [coversAll, hca, hcn]) ⟨Or.inl hta, htn, trivial⟩ hrwf hrefl
    (fun _ _ => D12b.contains_implSound E oa wa on wn hta hmon hmwn (C12L.whollyKnown_isKnown hka)
      (C12L.whollyKnown_isKnown hkn) hnull hlen hel) hr

/-- the haystack left as it is (a list, tuple or SET), the needle weakened — the scenario of the seeded
hash-lookup change: what is needed is `Equals` sound on (needle, element) for the elements of the haystack -/
theorem sound_contains_needle (E : Stdlib.Env) (oa on wn r : Value)
    (hka : oa.whollyKnown = true) (hkn : on.whollyKnown = true)
    (hmoa : oa.containsMarked = false) (hmon : on.containsMarked = false) (hmwn : wn.containsMarked = false)
    (hca : CoversX oa oa = true) (hcn : CoversX wn on = true) (htn : wn.ty = on.ty ∨ wn.ty.isDyn = true)
    (hEq : ∀ eo, Stdlib.elems E oa = .ok eo → ∀ v ∈ eo, EqAt on wn v v)
    (hrwf : Ty.wf r.ty = true) (hrefl : Covers r r = true)
    (hr : (callUnrefined Stdlib.containsSpec Stdlib.containsType (Stdlib.containsImpl E) [oa, on]).1 = .ok r) :
    ∃ r', (callUnrefined Stdlib.containsSpec Stdlib.containsType (Stdlib.containsImpl E) [oa, wn]).1 = .ok r' ∧
      Covers r' r = true :=
  sound_contains_partial E oa oa on wn r hka hkn hmoa hmoa hmon hmwn hca hcn rfl htn rfl
    (fun l hl => ⟨l, hl, rfl⟩)
    (fun eo he => ⟨eo, he, D12b.eqPairs_refl_of eo (hEq eo he), D12b.elems_clean_all E hmoa he,
      D12b.elems_clean_all E hmoa he⟩) hrwf hrefl hr

/-- **`element`** (`list[index mod length]`): the list or tuple is known at the top with weakened members, the
index is a known number (both parameters refuse unknowns, so anything else is the framework's short-circuit);
the member picked is the weakening of the concrete member — through C01 `sound_index`. -/
theorem sound_element (o w oi wi r : Value) (hk : o.whollyKnown = true) (hki : oi.whollyKnown = true)
    (hfo : o.wfc = true) (hfw : w.wfc = true)
    (hmo : o.containsMarked = false) (hmw : w.containsMarked = false)
    (hmoi : oi.containsMarked = false) (hmwi : wi.containsMarked = false) (hleaf : oi.v.isLeaf = true)
    (hty : w.ty = o.ty ∨ w.ty.isDyn = true) (htyi : wi.ty = oi.ty ∨ wi.ty.isDyn = true)
    (hc : CoversX w o = true) (hci : CoversX wi oi = true)
    (hTw : ∀ t, Stdlib.elementType [w, wi] = .ok t → Ty.wf t = true)
    (hrwf : Ty.wf r.ty = true) (hrefl : Covers r r = true)
    (hr : (callUnrefined Stdlib.elementSpec Stdlib.elementType Stdlib.elementImpl [o, oi]).1 = .ok r) :
    ∃ r', (callUnrefined Stdlib.elementSpec Stdlib.elementType Stdlib.elementImpl [w, wi]).1 = .ok r' ∧
      Covers r' r = true := by
  refine impl_soundness_lifts_to_call _ _ _ [o, oi] [w, wi] r ?_ hTw
    (by intro a ha; simp at ha; rcases ha with rfl | rfl <;> exact C12L.whollyKnown_isKnown (by assumption))
    (by intro a ha; simp at ha; rcases ha with rfl | rfl <;> assumption)
    (by intro a ha; simp at ha; rcases ha with rfl | rfl <;> assumption)
    (by simp [coversAll, hc, hci]) ⟨hty, htyi, trivial⟩ hrwf hrefl ?_ hr
  · intro hp
    obtain ⟨h1, h2⟩ := D12b.two_args_pass (spec := Stdlib.elementSpec) rfl rfl rfl hp hty htyi
    by_cases hkwi : wi.isKnown = true
    · exact D12b.elementType_mono h1 (Or.inl (D12b.leaf_eq hmwi hmoi h2 hci hkwi hleaf))
    · exact D12b.elementType_mono h1 (Or.inr (by simpa using hkwi))
  · intro hp hri
    obtain ⟨h1, h2⟩ := D12b.two_args_pass (spec := Stdlib.elementSpec) rfl rfl rfl hp hty htyi
    obtain ⟨hkw, hkwi⟩ := D12b.two_args_known (spec := Stdlib.elementSpec) rfl rfl rfl hri
    have := D12b.leaf_eq hmwi hmoi h2 hci hkwi hleaf
    subst this
    exact D12b.element_implSound o w wi h1 hk hfo hfw hmo hmw hkw hc

/-- **`sort`** (`AllowUnknown`): a list of strings that is not wholly known is answered by the unknown list of
strings refined with the LENGTH BOUNDS of the argument's range — the number of members of a list known at
the top, the bounds of an unknown list's own refinement, `[0, MaxInt]` otherwise; sorting keeps the length,
so the concrete result lies within them. -/
theorem sound_sort (E : Stdlib.Env) (o w r : Value) (hlt : o.ty = .list .string) (hk : o.whollyKnown = true)
    (hmo : o.containsMarked = false) (hmw : w.containsMarked = false) (hs : D12b.noSet w.v = true)
    (hfo : o.lenFits = true)
    (hty : w.ty = o.ty ∨ w.ty.isDyn = true) (hc : CoversX w o = true)
    (hrwf : Ty.wf r.ty = true) (hrefl : Covers r r = true)
    (hr : (callUnrefined Stdlib.sortSpec Stdlib.sortType (Stdlib.sortImpl E) [o]).1 = .ok r) :
    ∃ r', (callUnrefined Stdlib.sortSpec Stdlib.sortType (Stdlib.sortImpl E) [w]).1 = .ok r' ∧ Covers r' r = true :=
  impl_soundness_lifts_to_call _ _ _ [o] [w] r (fun _ => D12b.typeMonoAt_of_eq rfl)
    (fun t ht => by cases ht; rfl)
    (by simpa using C12L.whollyKnown_isKnown hk) (by simpa using hmo) (by simpa using hmw)
    (one_arg_cover hc) ⟨hty, trivial⟩ hrwf hrefl
    (fun hp _ => D12b.sort_implSound E o w hlt (D12b.ty_kept_of_passes_nodyn (spec := Stdlib.sortSpec) rfl hp hty)
      hk hmw hmo hs hfo hc) hr

/-- the full-strength statement for `setproduct` — FALSE of the code (recorded finding
`result-not-covered:length-lower-bound-excludes-result:SetProductFunc`) -/
def SoundSetProduct : Prop :=
  ∀ (E : Stdlib.Env) (os ws : List Value) (r : Value), (∀ a ∈ os, a.whollyKnown = true) →
    (∀ a ∈ os, a.containsMarked = false) → (∀ a ∈ ws, a.containsMarked = false) → coversAll ws os = true → TyKeptS ws os →
    (callUnrefined Stdlib.setProductSpec (Stdlib.setProductType E) (Stdlib.setProductImpl E) os).1 = .ok r →
    ∃ r', (callUnrefined Stdlib.setProductSpec (Stdlib.setProductType E) (Stdlib.setProductImpl E) ws).1 = .ok r' ∧ Covers r' r = true

def spOs : List Value := [⟨.set .number, .sset [1] [.n (.fin false 1 0 64)]⟩, ⟨.set .bool, .sset [] []⟩]
def spWs : List Value := [⟨.set .number, .unk (.coll .f 1 1)⟩, ⟨.set .bool, .unk (.coll .f 0 2)⟩]

/-- `setproduct({1}, {})` is the empty set; with both sets unknown (1 member; 0 to 2 members) the answer is an
unknown set refined `CollectionLengthLowerBound(1)`: the second set may be empty, the bound is wrong -/
theorem sound_setproduct_counterexample :
    (∀ a ∈ spOs, a.whollyKnown = true) ∧ coversAll spWs spOs = true ∧ TyKeptS spWs spOs ∧
    (callUnrefined Stdlib.setProductSpec (Stdlib.setProductType {}) (Stdlib.setProductImpl {}) spOs).1 =
      .ok ⟨.set (.tuple [.number, .bool]), .sset [] []⟩ ∧
    (callUnrefined Stdlib.setProductSpec (Stdlib.setProductType {}) (Stdlib.setProductImpl {}) spWs).1 =
      .ok ⟨.set (.tuple [.number, .bool]), .unk (.coll .u 1 2)⟩ ∧
    Covers ⟨.set (.tuple [.number, .bool]), .unk (.coll .u 1 2)⟩ ⟨.set (.tuple [.number, .bool]), .sset [] []⟩ = false :=
  ⟨by decide, by decide, ⟨rfl, rfl, trivial⟩, by rfl, by rfl, by decide⟩

theorem soundSetProduct_false : ¬ SoundSetProduct := by
  intro h
  obtain ⟨h1, h2, h3, h4, h5, h6⟩ := sound_setproduct_counterexample
  obtain ⟨r', hr', hc⟩ := h {} spOs spWs _ h1 (by decide) (by decide) h2 h3 h4
  rw [h5] at hr'
  cases hr'
  rw [h6] at hc
  cases hc

/-- **`lookup(map, key, default)`**, `_partial`: the first argument is a MAP (for an object the `Type` callback
reads the attribute's type off `GetAttr` of the VALUE: searched).  A map that is not wholly known — an element
value unknown — gives the unknown of the element type; a wholly known weakening is the map itself; the
default, weakened or not, is returned (converted: `EnvConvertSound`) only when the key is absent. -/
theorem sound_lookup_map_partial (E : Stdlib.Env) (hE : EnvConvertSound E) (om wm ok wk od wd r : Value) (e : Ty)
    (hm : om.ty = .map e) (hwfe : Ty.wf e = true)
    (hkm : om.whollyKnown = true) (hkk : ok.whollyKnown = true) (hkd : od.whollyKnown = true)
    (hmom : om.containsMarked = false) (hmwm : wm.containsMarked = false)
    (hmok : ok.containsMarked = false) (hmwk : wk.containsMarked = false)
    (hmod : od.containsMarked = false) (hmwd : wd.containsMarked = false)
    (hleaf : ok.v.isLeaf = true) (hs : D12b.noSet wm.v = true)
    (htm : wm.ty = om.ty ∨ wm.ty.isDyn = true) (htk : wk.ty = ok.ty ∨ wk.ty.isDyn = true)
    (htd : wd.ty = od.ty ∨ wd.ty.isDyn = true)
    (hcm : CoversX wm om = true) (hck : CoversX wk ok = true) (hcd : CoversX wd od = true)
    (hrwf : Ty.wf r.ty = true) (hrefl : Covers r r = true)
    (hr : (callUnrefined Stdlib.lookupSpec (Stdlib.lookupType E) (Stdlib.lookupImpl E) [om, ok, od]).1 = .ok r) :
    ∃ r', (callUnrefined Stdlib.lookupSpec (Stdlib.lookupType E) (Stdlib.lookupImpl E) [wm, wk, wd]).1 = .ok r' ∧
      Covers r' r = true := by
  have hkept : Passes Stdlib.lookupSpec [wm, wk, wd] → wm.ty = om.ty ∧ wk.ty = ok.ty ∧ wd.ty = od.ty := by
    intro hp
    obtain ⟨h1, h2, h3, _⟩ := D12b.firstFail_none_tyKeptS _ [wm, wk, wd] [om, ok, od] hp rfl
      (by intro p hp; simp [Stdlib.lookupSpec, Spec.expand] at hp; rcases hp with rfl | rfl | rfl <;> rfl)
      ⟨htm, htk, htd, trivial⟩
    exact ⟨h1, h2, h3⟩
  have hknown : ReachesImpl Stdlib.lookupSpec [wm, wk, wd] → wm.isKnown = true ∧ wk.isKnown = true ∧ wd.isKnown = true := by
    intro hri
    have := D12b.pass2_all_known _ [wm, wk, wd] hri rfl
      (by intro p hp; simp [Stdlib.lookupSpec, Spec.expand] at hp; rcases hp with rfl | rfl | rfl <;> rfl)
    exact ⟨this wm (by simp), this wk (by simp), this wd (by simp)⟩
  refine impl_soundness_lifts_to_call _ _ _ [om, ok, od] [wm, wk, wd] r ?_ ?_
    (by intro a ha; simp at ha; rcases ha with rfl | rfl | rfl <;> exact C12L.whollyKnown_isKnown (by assumption))
    (by intro a ha; simp at ha; rcases ha with rfl | rfl | rfl <;> assumption)
    (by intro a ha; simp at ha; rcases ha with rfl | rfl | rfl <;> assumption)
    (by simp [coversAll, hcm, hck, hcd]) ⟨htm, htk, htd, trivial⟩ hrwf hrefl ?_ hr
  · -- the `Type` callback: the element type, whatever the (possibly unknown) key and default are
    intro hp
    obtain ⟨h1, _, h3⟩ := hkept hp
    intro t ht
    rw [D12b.lookupType_map E hm] at ht
    rw [D12b.lookupType_map E (h1.trans hm)]
    cases hcv : Stdlib.convertTo E od e with
    | ok c =>
      rw [hcv] at ht
      simp only [Res.ok.injEq] at ht
      subst ht
      obtain ⟨c', hc', _, _⟩ := D12b.convertTo_sound E hE e h3 hcd hcv
      rw [hc']
      exact ⟨e, rfl, fun _ hc => hc⟩
    | err c => rw [hcv] at ht; cases ht
    | panic c => rw [hcv] at ht; simp [Stdlib.Res.cast] at ht
    | unmodelled => rw [hcv] at ht; simp [Stdlib.Res.cast] at ht
  · intro t ht
    rcases htm with h | h
    · rw [D12b.lookupType_map E (h.trans hm)] at ht
      cases hcv : Stdlib.convertTo E wd e <;> rw [hcv] at ht <;> simp [Stdlib.Res.cast] at ht
      rw [← ht]; exact hwfe
    · have : wm.ty = .dyn := by cases hw : wm.ty <;> simp_all [Ty.isDyn]
      simp [Stdlib.lookupType, this] at ht
  · intro hp hri
    obtain ⟨h1, h2, h3⟩ := hkept hp
    obtain ⟨_, hk2, _⟩ := hknown hri
    have := D12b.leaf_eq hmwk hmok h2 hck hk2 hleaf
    subst this
    exact D12b.lookup_map_implSound E hE om wm wk od wd hm h1 h3 hmom hmwm hmwk hs hcm hcd

/-! ### clause 3, function by function: wholly known in, wholly known out (through `Call`) -/

/-- `length` (the exception of C01 — the null of the placeholder type — is refused by the parameter) -/
theorem known_in_known_out_length (c r : Value) (hk : c.whollyKnown = true) (hm : c.containsMarked = false)
    (hd : c.ty ≠ .dyn)
    (hr : (callUnrefined Stdlib.lengthSpec Stdlib.lengthType Stdlib.lengthImpl [c]).1 = .ok r) :
    r.whollyKnown = true ∨ r = Value.unknown .dyn := by
  rcases known_args_impl_value _ _ _ [c] r (by simpa using hk) (by simpa using hm) hr with h | ⟨rt, _, h⟩
  · exact Or.inr h
  · exact Or.inl (length_known_partial c r hk hd h)

/-- `coalescelist` and `keys`: the obligation `ImplKnownOut` of `known_in_known_out` holds of the callbacks -/
theorem known_in_known_out_coalescelist (args : List Value) (r : Value)
    (hk : ∀ a ∈ args, a.whollyKnown = true) (hm : ∀ a ∈ args, a.containsMarked = false)
    (hr : (callUnrefined Stdlib.coalesceListSpec Stdlib.coalesceListType Stdlib.coalesceListImpl args).1 = .ok r) :
    r.whollyKnown = true ∨ r = Value.unknown .dyn :=
  known_in_known_out _ _ _ args r D12b.knownOut_coalescelist hk hm hr

theorem known_in_known_out_keys (args : List Value) (r : Value)
    (hk : ∀ a ∈ args, a.whollyKnown = true) (hm : ∀ a ∈ args, a.containsMarked = false)
    (hr : (callUnrefined Stdlib.keysSpec Stdlib.keysType Stdlib.keysImpl args).1 = .ok r) :
    r.whollyKnown = true ∨ r = Value.unknown .dyn :=
  known_in_known_out _ _ _ args r D12b.knownOut_keys hk hm hr

/-- `reverse`, `values`: every member of the result is a member of the argument -/
theorem known_in_known_out_reverse_values (E : Stdlib.Env) (v r : Value) (hk : v.whollyKnown = true)
    (hm : v.containsMarked = false) :
    ((callUnrefined Stdlib.reverseSpec Stdlib.reverseType (Stdlib.reverseImpl E) [v]).1 = .ok r →
      r.whollyKnown = true ∨ r = Value.unknown .dyn) ∧
    ((callUnrefined Stdlib.valuesSpec Stdlib.valuesType (Stdlib.valuesImpl E) [v]).1 = .ok r →
      r.whollyKnown = true ∨ r = Value.unknown .dyn) := by
  constructor
  · intro hr
    rcases known_args_impl_value _ _ _ [v] r (by simpa using hk) (by simpa using hm) hr with h | ⟨rt, _, h⟩
    · exact Or.inr h
    · exact Or.inl (D12b.knownOut_reverse E v r rt hm hk h)
  · intro hr
    rcases known_args_impl_value _ _ _ [v] r (by simpa using hk) (by simpa using hm) hr with h | ⟨rt, _, h⟩
    · exact Or.inr h
    · exact Or.inl (D12b.knownOut_values E v r rt hm hk h)

/-- **`strlen`** (`AllowUnknown`, `AllowDynamicType`; model with the unknown branch: Stdlib/d12bStrlen.lean, tied to
`StrlenFunc.Call` on unknown arguments).  An unknown string with the refined prefix `p` gives an unknown number
with the inclusive lower bound "grapheme clusters of `p`"; `cty.DynamicVal` gives the unknown number.  `hlaw` is
the one thing asked of the external segmentation library (`clusters` is a parameter): a prefix the unknown can
carry has at most as many clusters as the string — probed on every generated pair
(`textseg:clusters-of-range-prefix-at-most-clusters-of-string`). -/
theorem sound_strlen (clusters : String → List String) (s : String) (w r : Value) (hmw : w.containsMarked = false)
    (hty : w.ty = .string ∨ (w.ty = .dyn ∧ w.isKnown = false)) (hc : CoversX w ⟨.string, .s s⟩ = true)
    (hlaw : ∀ p, (p = "" ∨ Value.hasPrefix s p = true) →
      Stdlib.clusterCount (clusters p) ≤ Stdlib.clusterCount (clusters s))
    (hrwf : Ty.wf r.ty = true) (hrefl : Covers r r = true)
    (hr : (callUnrefined Stdlib.strlenSpec Stdlib.strlenType (Stdlib.strlenImplU clusters) [⟨.string, .s s⟩]).1 = .ok r) :
    ∃ r', (callUnrefined Stdlib.strlenSpec Stdlib.strlenType (Stdlib.strlenImplU clusters) [w]).1 = .ok r' ∧
      Covers r' r = true :=
  impl_soundness_lifts_to_call _ _ _ [⟨.string, .s s⟩] [w] r (fun _ => D12b.typeMonoAt_of_eq rfl)
    (fun t ht => by cases ht; rfl) (by simp [Value.isKnown, Payload.isKnown, Payload.unmark1])
    (by simp [Value.containsMarked, Payload.containsMarked]) (by simpa using hmw)
    (one_arg_cover hc) ⟨hty.elim Or.inl (fun h => Or.inr (by rw [h.1]; rfl)), trivial⟩ hrwf hrefl
    (fun _ _ => D12b.strlen_implSound clusters s w hty hmw hc hlaw) hr

/-- **`zipmap(keys, values)`**: the keys are guarded (a keys list that is not wholly known gives the unknown of the
predicted type — a map type for a list of values, the placeholder for a tuple, whose object type depends on the
keys); the values, a list or tuple known at the top, may hold unknown members, which are stored under their keys
as they are (`values.Index(i)`: C01 `sound_index`), a later duplicate key overriding an earlier one alike. -/
theorem sound_zipmap (E : Stdlib.Env) (ok wk ov wv r : Value)
    (hkk : ok.whollyKnown = true) (hkv : ov.whollyKnown = true) (hfo : ov.wfc = true) (hfw : wv.wfc = true)
    (hmok : ok.containsMarked = false) (hmwk : wk.containsMarked = false)
    (hmov : ov.containsMarked = false) (hmwv : wv.containsMarked = false) (hsk : D12b.noSet wk.v = true)
    (htk : wk.ty = ok.ty ∨ wk.ty.isDyn = true) (htv : wv.ty = ov.ty ∨ wv.ty.isDyn = true)
    (hck : CoversX wk ok = true) (hcv : CoversX wv ov = true)
    (hTw : ∀ t, Stdlib.zipmapType E [wk, wv] = .ok t → Ty.wf t = true)
    (hrwf : Ty.wf r.ty = true) (hrefl : Covers r r = true)
    (hr : (callUnrefined Stdlib.zipmapSpec (Stdlib.zipmapType E) (Stdlib.zipmapImpl E) [ok, ov]).1 = .ok r) :
    ∃ r', (callUnrefined Stdlib.zipmapSpec (Stdlib.zipmapType E) (Stdlib.zipmapImpl E) [wk, wv]).1 = .ok r' ∧
      Covers r' r = true := by
  refine impl_soundness_lifts_to_call _ _ _ [ok, ov] [wk, wv] r ?_ hTw
    (by intro a ha; simp at ha; rcases ha with rfl | rfl <;> exact C12L.whollyKnown_isKnown (by assumption))
    (by intro a ha; simp at ha; rcases ha with rfl | rfl <;> assumption)
    (by intro a ha; simp at ha; rcases ha with rfl | rfl <;> assumption)
    (by simp [coversAll, hck, hcv]) ⟨htk, htv, trivial⟩ hrwf hrefl ?_ hr
  · intro hp
    obtain ⟨h1, h2⟩ := D12b.two_args_pass (spec := Stdlib.zipmapSpec) rfl rfl rfl hp htk htv
    by_cases hkw : wk.whollyKnown = true
    · exact D12b.zipmapType_mono E h2 (Or.inl (D12b.coversX_wk_eq h1 hmwk hmok hkw hsk hck))
    · exact D12b.zipmapType_mono E h2 (Or.inr (by simpa using hkw))
  · intro hp hri
    obtain ⟨h1, h2⟩ := D12b.two_args_pass (spec := Stdlib.zipmapSpec) rfl rfl rfl hp htk htv
    obtain ⟨_, hkwv⟩ := D12b.two_args_known (spec := Stdlib.zipmapSpec) rfl rfl rfl hri
    exact D12b.zipmap_implSound E ok wk ov wv h1 h2 hmok hmwk hmov hmwv hsk hck hkv hfo hfw hkwv hcv

/-- **`concat`**, `_partial`: lists / tuples known at the top (the parameter refuses unknowns: an unknown argument
is the framework's short-circuit, to the predicted type — the same type, or the placeholder when the tuple way
of the `Type` callback meets an unknown list) whose MEMBERS are weakened are concatenated member by member.
`hsame` (decidable): when the result is a list, every argument already has that list type, so that no
`convert.Convert` — a parameter of the model — is involved.  `hns`: no argument is a set (`concat` refuses sets). -/
theorem sound_concat_partial (E : Stdlib.Env) (os ws : List Value) (r : Value)
    (hk : ∀ a ∈ os, a.whollyKnown = true)
    (hmo : ∀ a ∈ os, a.containsMarked = false) (hmw : ∀ a ∈ ws, a.containsMarked = false)
    (hns : ∀ a ∈ os, Stdlib.isSetTy a.ty = false)
    (hsame : ∀ e, Stdlib.concatType E os = .ok (.list e) → ∀ a ∈ os, a.ty.equals (Ty.list e).stripOpt = true)
    (hTw : ∀ t, Stdlib.concatType E ws = .ok t → Ty.wf t = true)
    (hcov : coversAll ws os = true) (hty : TyKept ws os) (hrwf : Ty.wf r.ty = true) (hrefl : Covers r r = true)
    (hr : (callUnrefined Stdlib.concatSpec (Stdlib.concatType E) (Stdlib.concatImpl E) os).1 = .ok r) :
    ∃ r', (callUnrefined Stdlib.concatSpec (Stdlib.concatType E) (Stdlib.concatImpl E) ws).1 = .ok r' ∧
      Covers r' r = true := by
  have hko : ∀ a ∈ os, a.isKnown = true := fun a ha => C12L.whollyKnown_isKnown (hk a ha)
  have hpair : Passes Stdlib.concatSpec ws → D12b.PairArgs ws os := by
    intro hp
    unfold Passes D12b.Passes at hp
    rw [D12b.concatSpec_expand] at hp
    exact D12b.pairArgs_of (D12b.firstFail_none_tyKeptS _ ws os hp (by simp)
      (fun p hp' => by rw [List.eq_of_mem_replicate hp']) hty) hmw hmo hcov
  refine impl_soundness_lifts_to_call _ _ _ os ws r ?_ hTw hko hmo hmw hcov hty hrwf hrefl ?_ hr
  · intro hp t ht
    rcases D12b.concatType_weaken E ws os (hpair hp) hko ht with h | ⟨_, h⟩
    · exact ⟨t, h, fun _ hc => hc⟩
    · exact ⟨.dyn, h, D12b.admits_dyn' t⟩
  · intro hp hri
    have hkw : ∀ a ∈ ws, a.isKnown = true := by
      unfold ReachesImpl D12b.ReachesImpl at hri
      rw [D12b.concatSpec_expand] at hri
      exact D12b.pass2_all_known _ ws hri (by simp) (fun p hp' => by rw [List.eq_of_mem_replicate hp'])
    exact D12b.concat_implSound E os ws (hpair hp) hko hkw hns hsame

/-- **Through the declared `refineNonNull`, to `Function.Call` itself.**  For a function declaring
`RefineResult: refineNonNull` (every `sound_<fn>` above but `lookup` / `element`, which declare none, and
`strlen`, which adds a lower bound of its own): under the hypotheses of `impl_soundness_lifts_to_call`, the
concrete `Call` returns `r` and EVERY value the weakened `Call` returns admits it — provided what the weakened
call yields before the refinement is unmarked at the top and is not a known value of the placeholder type
(`hu`: true of a mark-free call of every modelled callback), and `r` is known, non-null, mark-free, of a proper
type with the payload kind the type prescribes (`fitsTop`: C06). -/
theorem impl_soundness_lifts_to_refined_call (spec : Spec) (tf : TypeFn) (impl : ImplFn) (os ws : List Value) (r : Value)
    (hrf : spec.refine = some Stdlib.refineNN)
    (hm : Passes spec ws → TypeMonoAt tf os ws) (hTw : ∀ t, tf ws = .ok t → Ty.wf t = true)
    (hko : ∀ a ∈ os, a.isKnown = true)
    (hmo : ∀ a ∈ os, a.containsMarked = false) (hmw : ∀ a ∈ ws, a.containsMarked = false)
    (hcov : coversAll ws os = true) (hty : TyKept ws os) (hrwf : Ty.wf r.ty = true) (hrefl : Covers r r = true)
    (hi : Passes spec ws → ReachesImpl spec ws → ImplSoundAt tf impl os ws)
    (hu : ∀ u, (callUnrefined spec tf impl ws).1 = .ok u → u.v.isMarked = false ∧ (u.ty.isDyn = false ∨ u.isKnown = false))
    (hcl : r.containsMarked = false) (hfit : fitsTop r.ty r.v = true) (hd : r.ty.isDyn = false)
    (hr : (callUnrefined spec tf impl os).1 = .ok r) :
    (call spec tf impl os).1 = .ok r ∧ (∃ u, (callUnrefined spec tf impl ws).1 = .ok u) ∧
      ∀ w, (call spec tf impl ws).1 = .ok w → Covers w r = true := by
  obtain ⟨u, hu1, hu2⟩ := impl_soundness_lifts_to_call spec tf impl os ws r hm hTw hko hmo hmw hcov hty hrwf hrefl hi hr
  obtain ⟨h1, h2⟩ := call_refined_covers spec tf impl os ws r u hrf hr hu1 (hu u hu1).1 (hu u hu1).2 hcl hfit hd hu2
  exact ⟨h1, ⟨u, hu1⟩, h2⟩

/-- **`length` through `Function.Call` itself** (declared refinement included): every hypothesis of
`impl_soundness_lifts_to_refined_call` discharged.  The concrete call returns the length `r`; the weakened call
gets to a value before the refinement, and whatever `Call` then returns admits `r`. -/
theorem sound_length_call (o w r : Value) (hk : o.whollyKnown = true) (hfo : o.wfc = true) (hfw : w.wfc = true)
    (hmo : o.containsMarked = false) (hmw : w.containsMarked = false)
    (hwdyn : w.ty = .dyn → w.isKnown = false) (hcount : SetCountOK w.unmark o.unmark = true)
    (hty : w.ty = o.ty ∨ w.ty.isDyn = true) (hc : CoversX w o = true)
    (hr : (callUnrefined Stdlib.lengthSpec Stdlib.lengthType Stdlib.lengthImpl [o]).1 = .ok r)
    (hrk : r.v.isLeaf = true ∧ r.containsMarked = false ∧ fitsTop r.ty r.v = true ∧ Covers r r = true) :
    (call Stdlib.lengthSpec Stdlib.lengthType Stdlib.lengthImpl [o]).1 = .ok r ∧
    (∃ u, (callUnrefined Stdlib.lengthSpec Stdlib.lengthType Stdlib.lengthImpl [w]).1 = .ok u) ∧
    ∀ x, (call Stdlib.lengthSpec Stdlib.lengthType Stdlib.lengthImpl [w]).1 = .ok x → Covers x r = true := by
  have hrt : r = Value.unknown .dyn ∨ r.ty = .number := by
    rcases known_args_impl_value _ _ _ [o] r (by simpa using hk) (by simpa using hmo) hr with h | ⟨rt, _, h⟩
    · exact Or.inl h
    · simp only [Stdlib.lengthImpl] at h
      exact Or.inr (D12b.length_ty h)
  have hrn : r.ty = .number := by
    rcases hrt with h | h
    · rw [h] at hrk; exact absurd hrk.2.2.1 (by decide)
    · exact h
  refine impl_soundness_lifts_to_refined_call _ _ _ [o] [w] r rfl (fun _ => D12b.lengthType_mono hty)
    (fun t ht => by rw [D12b.lengthType_number ht]; rfl)
    (by simpa using C12L.whollyKnown_isKnown hk) (by simpa using hmo) (by simpa using hmw)
    (one_arg_cover hc) ⟨hty, trivial⟩ (by rw [hrn]; rfl) hrk.2.2.2
    (fun _ _ => D12b.length_implSound o w hk hfo hfw hwdyn hcount hc) ?_ hrk.2.1 hrk.2.2.1 (by rw [hrn]; rfl) hr
  intro u hu
  rcases D12b.callUnrefined_result_cases _ _ _ [w] u (by simpa using hmw) hu with h | ⟨rt, _, h⟩ | ⟨rt, hrt', h⟩
  · subst h; exact ⟨rfl, Or.inr rfl⟩
  · subst h; exact ⟨rfl, Or.inr rfl⟩
  · simp only [Stdlib.lengthImpl] at h
    have hnm : w.isMarked = false := D12b.clean_not_marked hmw
    have hl : Value.lengthU w = .ok u := by
      simpa [Value.length, Value.unMarks, hnm] using h
    exact ⟨D12b.lengthU_unmarked hl, Or.inl (by rw [D12b.lengthU_ty hl]; rfl)⟩

/-- **`hasindex`**: `Impl` is `Value.HasIndex` (C01 `sound_hasIndex`); a collection known at the top with unknown
members answers from its shape, `cty.DynamicVal` for either argument gives the unknown boolean. -/
theorem sound_hasindex (o w ok wk r : Value) (hk : o.whollyKnown = true) (hkk : ok.whollyKnown = true)
    (hfo : o.wfc = true) (hfk : ok.wfc = true) (hfw : w.wfc = true) (hfwk : wk.wfc = true)
    (hmo : o.containsMarked = false) (hmok : ok.containsMarked = false)
    (hmw : w.containsMarked = false) (hmwk : wk.containsMarked = false)
    (hty : w.ty = o.ty ∨ w.ty.isDyn = true) (htk : wk.ty = ok.ty ∨ wk.ty.isDyn = true)
    (hc : CoversX w o = true) (hck : CoversX wk ok = true)
    (hrwf : Ty.wf r.ty = true) (hrefl : Covers r r = true)
    (hr : (callUnrefined Stdlib.hasIndexSpec Stdlib.hasIndexType Stdlib.hasIndexImpl [o, ok]).1 = .ok r) :
    ∃ r', (callUnrefined Stdlib.hasIndexSpec Stdlib.hasIndexType Stdlib.hasIndexImpl [w, wk]).1 = .ok r' ∧
      Covers r' r = true :=
  impl_soundness_lifts_to_call _ _ _ [o, ok] [w, wk] r (fun _ => D12b.hasIndexType_mono hty)
    (fun t ht => by rw [D12b.hasIndexType_bool ht]; rfl)
    (by intro a ha; simp at ha; rcases ha with rfl | rfl <;> exact C12L.whollyKnown_isKnown (by assumption))
    (by intro a ha; simp at ha; rcases ha with rfl | rfl <;> assumption)
    (by intro a ha; simp at ha; rcases ha with rfl | rfl <;> assumption)
    (by simp [coversAll, hc, hck]) ⟨hty, htk, trivial⟩ hrwf hrefl
    (fun _ _ => D12b.hasindex_implSound o w ok wk hk hkk hfo hfk hfw hfwk hmw hmwk hc hck) hr

/-- **`index`** (the function): `Impl` asks the nested `HasIndexFunc.Call` first and goes on to `Value.Index` on a
definite True.  A collection known at the top keeps its shape under weakening of its members, so the nested
call answers the same; `Value.Index` is C01 `sound_index`.  An unknown key (or `cty.DynamicVal` for it) is the
framework's short-circuit: to the element type of a list or map, to the placeholder for a tuple. -/
theorem sound_index (o w ok wk r : Value) (hk : o.whollyKnown = true) (hkk : ok.whollyKnown = true)
    (hkd : ok.ty.isDyn = false) (hleaf : ok.v.isLeaf = true)
    (hfo : o.wfc = true) (hfw : w.wfc = true) (hfk : ok.wfc = true)
    (hmo : o.containsMarked = false) (hmok : ok.containsMarked = false)
    (hmw : w.containsMarked = false) (hmwk : wk.containsMarked = false)
    (hty : w.ty = o.ty ∨ w.ty.isDyn = true) (htk : wk.ty = ok.ty ∨ wk.ty.isDyn = true)
    (hc : CoversX w o = true) (hck : CoversX wk ok = true) (hckk : CoversX ok ok = true)
    (hwkd : wk.ty.isDyn = true → wk.isKnown = false)
    (hTw : ∀ t, Stdlib.indexType [w, wk] = .ok t → Ty.wf t = true)
    (hrwf : Ty.wf r.ty = true) (hrefl : Covers r r = true)
    (hr : (callUnrefined Stdlib.indexSpec Stdlib.indexType Stdlib.indexImpl [o, ok]).1 = .ok r) :
    ∃ r', (callUnrefined Stdlib.indexSpec Stdlib.indexType Stdlib.indexImpl [w, wk]).1 = .ok r' ∧
      Covers r' r = true := by
  have hkey : wk.isKnown = true → wk = ok := by
    intro hkw
    have hty' : wk.ty = ok.ty := by
      rcases htk with h | h
      · exact h
      · rw [hwkd h] at hkw; cases hkw
    exact D12b.leaf_eq hmwk hmok hty' hck hkw hleaf
  refine impl_soundness_lifts_to_call _ _ _ [o, ok] [w, wk] r ?_ hTw
    (by intro a ha; simp at ha; rcases ha with rfl | rfl <;> exact C12L.whollyKnown_isKnown (by assumption))
    (by intro a ha; simp at ha; rcases ha with rfl | rfl <;> assumption)
    (by intro a ha; simp at ha; rcases ha with rfl | rfl <;> assumption)
    (by simp [coversAll, hc, hck]) ⟨hty, htk, trivial⟩ hrwf hrefl ?_ hr
  · intro hp
    have h1 := D12b.first_arg_kept (spec := Stdlib.indexSpec) (o1 := o) rfl rfl hp hty
    by_cases hkw : wk.isKnown = true
    · exact D12b.indexType_mono h1 (Or.inl (hkey hkw))
    · exact D12b.indexType_mono h1 (Or.inr ⟨by simpa using hkw, htk⟩)
  · intro hp hri
    have h1 := D12b.first_arg_kept (spec := Stdlib.indexSpec) (o1 := o) rfl rfl hp hty
    obtain ⟨hkw, hkwk⟩ := D12b.two_args_known (spec := Stdlib.indexSpec) rfl rfl rfl hri
    have := hkey hkwk
    subst this
    exact D12b.index_implSound o w wk h1 hk hkk hkd hfo hfw hfk hmo hmw hmwk hkw hc hckk

/-- **`lookup(object, key, default)`**: the `Type` callback reads the attribute's type off `GetAttr` of the VALUE —
which depends on the object TYPE only, so a weakening of the object (or of the default) gets the same type; an
unknown key gets the placeholder.  `Impl` as for maps: an object that is not wholly known gives the unknown of
that type, a wholly known weakening is the object itself, the default is converted (`EnvConvertSound`) only
when the attribute is absent. -/
theorem sound_lookup_object (E : Stdlib.Env) (hE : EnvConvertSound E) (om wm ok wk od wd r : Value)
    (ns : List String) (ts : List Ty) (os : List Bool) (hobj : om.ty = .object ns ts os)
    (hkm : om.whollyKnown = true) (hkk : ok.whollyKnown = true) (hkd : od.whollyKnown = true)
    (hmom : om.containsMarked = false) (hmwm : wm.containsMarked = false)
    (hmok : ok.containsMarked = false) (hmwk : wk.containsMarked = false)
    (hmod : od.containsMarked = false) (hmwd : wd.containsMarked = false)
    (hleaf : ok.v.isLeaf = true) (hs : D12b.noSet wm.v = true)
    (htm : wm.ty = om.ty ∨ wm.ty.isDyn = true) (htk : wk.ty = ok.ty ∨ wk.ty.isDyn = true)
    (htd : wd.ty = od.ty ∨ wd.ty.isDyn = true)
    (hcm : CoversX wm om = true) (hck : CoversX wk ok = true) (hcd : CoversX wd od = true)
    (hTw : ∀ t, Stdlib.lookupType E [wm, wk, wd] = .ok t → Ty.wf t = true)
    (hrwf : Ty.wf r.ty = true) (hrefl : Covers r r = true)
    (hr : (callUnrefined Stdlib.lookupSpec (Stdlib.lookupType E) (Stdlib.lookupImpl E) [om, ok, od]).1 = .ok r) :
    ∃ r', (callUnrefined Stdlib.lookupSpec (Stdlib.lookupType E) (Stdlib.lookupImpl E) [wm, wk, wd]).1 = .ok r' ∧
      Covers r' r = true := by
  have hkept : Passes Stdlib.lookupSpec [wm, wk, wd] → wm.ty = om.ty ∧ wk.ty = ok.ty ∧ wd.ty = od.ty := by
    intro hp
    obtain ⟨h1, h2, h3, _⟩ := D12b.firstFail_none_tyKeptS _ [wm, wk, wd] [om, ok, od] hp rfl
      (by intro p hp; simp [Stdlib.lookupSpec, Spec.expand] at hp; rcases hp with rfl | rfl | rfl <;> rfl)
      ⟨htm, htk, htd, trivial⟩
    exact ⟨h1, h2, h3⟩
  refine impl_soundness_lifts_to_call _ _ _ [om, ok, od] [wm, wk, wd] r ?_ hTw
    (by intro a ha; simp at ha; rcases ha with rfl | rfl | rfl <;> exact C12L.whollyKnown_isKnown (by assumption))
    (by intro a ha; simp at ha; rcases ha with rfl | rfl | rfl <;> assumption)
    (by intro a ha; simp at ha; rcases ha with rfl | rfl | rfl <;> assumption)
    (by simp [coversAll, hcm, hck, hcd]) ⟨htm, htk, htd, trivial⟩ hrwf hrefl ?_ hr
  · intro hp
    obtain ⟨h1, h2, h3⟩ := hkept hp
    intro t ht
    by_cases hkw : wk.isKnown = true
    · have := D12b.leaf_eq hmwk hmok h2 hck hkw hleaf
      subst this
      exact ⟨t, D12b.lookupType_obj_eq E hobj h1 h3 hmom hmwm hcm ht, fun _ hc => hc⟩
    · exact ⟨.dyn, D12b.lookupType_obj_unknown_key E (h1.trans hobj) (by simpa using hkw), D12b.admits_dyn' t⟩
  · intro hp hri
    obtain ⟨h1, h2, h3⟩ := hkept hp
    have hkn := D12b.pass2_all_known _ [wm, wk, wd] hri rfl
      (by intro p hp; simp [Stdlib.lookupSpec, Spec.expand] at hp; rcases hp with rfl | rfl | rfl <;> rfl)
    have := D12b.leaf_eq hmwk hmok h2 hck (hkn wk (by simp)) hleaf
    subst this
    exact D12b.lookup_obj_implSound E hE om wm wk od wd hobj h1 h3 hmom hmwm hmwk hs hcm hcd

/-- the full-strength statement for `sethaselement` — FALSE of the code (recorded finding
`result-not-covered:haselement-false-for-partly-unknown-element:SetHasElementFunc`, a consequence of the C01
finding about `Value.HasElement`).  What holds instead: C01 `sound_hasElement_partial` (set and needle kept or
replaced as a whole) — at the level of `Call` that is the framework's short-circuit, both parameters refusing
unknown arguments. -/
def SoundSetHasElement : Prop :=
  ∀ (E : Stdlib.Env) (os ws : List Value) (r : Value), (∀ a ∈ os, a.whollyKnown = true) →
    (∀ a ∈ os, a.containsMarked = false) → (∀ a ∈ ws, a.containsMarked = false) → coversAll ws os = true → TyKeptS ws os →
    (callUnrefined Stdlib.setHasElementSpec Stdlib.setHasElementType (Stdlib.setHasElementImpl E) os).1 = .ok r →
    ∃ r', (callUnrefined Stdlib.setHasElementSpec Stdlib.setHasElementType (Stdlib.setHasElementImpl E) ws).1 = .ok r' ∧
      Covers r' r = true

/-- a hash oracle under which a partly unknown value hashes differently from every wholly known one (as the real
`Value.Hash` does: the hash text of an unknown member is `?`) -/
def sheEnv : Stdlib.Env := { hash := fun _ p => if p.whollyKnown then some 1 else some 2 }
def sheSet : Value := ⟨.set (.list .number), .sset [1] [.seq [.n (.fin false 1 1 64), .n (.fin false 0 0 64)]]⟩
def sheNeedle : Value := ⟨.list .number, .seq [.n (.fin false 1 1 64), .n (.fin false 0 0 64)]⟩
def sheNeedleW : Value := ⟨.list .number, .seq [.unk .unref, .n (.fin false 0 0 64)]⟩

/-- `sethaselement({[2,0]}, [2,0])` is True; with the first member of the needle unknown the answer is a definite
False: the needle is looked up by its hash -/
theorem sound_sethaselement_counterexample :
    coversAll [sheSet, sheNeedleW] [sheSet, sheNeedle] = true ∧
    (callUnrefined Stdlib.setHasElementSpec Stdlib.setHasElementType (Stdlib.setHasElementImpl sheEnv) [sheSet, sheNeedle]).1 =
      .ok (Value.boolVal true) ∧
    (callUnrefined Stdlib.setHasElementSpec Stdlib.setHasElementType (Stdlib.setHasElementImpl sheEnv) [sheSet, sheNeedleW]).1 =
      .ok (Value.boolVal false) ∧
    Covers (Value.boolVal false) (Value.boolVal true) = false :=
  ⟨by decide, by rfl, by rfl, by decide⟩

theorem soundSetHasElement_false : ¬ SoundSetHasElement := by
  intro h
  obtain ⟨h1, h2, h3, h4⟩ := sound_sethaselement_counterexample
  obtain ⟨r', hr', hc⟩ := h sheEnv [sheSet, sheNeedle] [sheSet, sheNeedleW] _ (by decide) (by decide) (by decide) h1
    ⟨rfl, rfl, trivial⟩ h2
  rw [h3] at hr'
  cases hr'
  rw [h4] at hc
  cases hc

/-- **Functions of primitive arguments that refuse unknowns** — for ALL specs and callbacks: if every parameter
says no `AllowUnknown` and the concrete arguments are strings, numbers or booleans (`isLeaf`), a weakened
argument either is unknown, and the framework short-circuits, or IS the concrete argument: `Impl` never sees
anything but the concrete argument list, and the call is sound whatever `Impl` does (`upper`, `lower`,
`substr`, `trim*`, `range`, `abs`, `ceil`, …: most string, number and boolean functions of the stdlib). -/
theorem sound_leaf_arguments (spec : Spec) (tf : TypeFn) (impl : ImplFn) (os ws : List Value) (r : Value)
    (hm : Passes spec ws → TypeMonoAt tf os ws) (hTw : ∀ t, tf ws = .ok t → Ty.wf t = true)
    (hk : ∀ a ∈ os, a.whollyKnown = true) (hleaf : ∀ a ∈ os, a.v.isLeaf = true)
    (hmo : ∀ a ∈ os, a.containsMarked = false) (hmw : ∀ a ∈ ws, a.containsMarked = false)
    (hcov : coversAll ws os = true) (hty : TyKeptU ws os)
    (hnu : ∀ p ∈ spec.expand ws.length, p.allowUnknown = false) (hlen : (spec.expand ws.length).length = ws.length)
    (hrwf : Ty.wf r.ty = true) (hrefl : Covers r r = true)
    (hr : (callUnrefined spec tf impl os).1 = .ok r) :
    ∃ r', (callUnrefined spec tf impl ws).1 = .ok r' ∧ Covers r' r = true :=
  impl_soundness_lifts_to_call spec tf impl os ws r hm hTw (fun a ha => C12L.whollyKnown_isKnown (hk a ha)) hmo hmw hcov
    (D12b.TyKeptU.toTyKept hty) hrwf hrefl
    (fun _ hri => by
      have hkn := D12b.pass2_all_known _ ws hri hlen hnu
      rw [D12b.leaf_list_eq ws os hcov hty hkn hmw hmo hleaf]
      exact D12b.implSoundAt_refl tf impl os) hr

/-- … instantiated on the regenerated tables: every statically typed entry of the syntax table whose parameter
declarations (parameter table) all refuse unknown arguments, called on primitive arguments — whatever its `Impl` -/
theorem stdlib_static_leaf_functions_sound (sy : Generated.StdSyntax) (hsy : sy ∈ Generated.stdlibSyntax)
    (s : Generated.StdSpec) (_hs : s ∈ Generated.stdlibSpecs) (_hv : sy.var = s.var)
    (e : String) (he : sy.staticType = some e) (E : Stdlib.Env) (impl : ImplFn) (os ws : List Value) (r : Value)
    (hk : ∀ a ∈ os, a.whollyKnown = true) (hleaf : ∀ a ∈ os, a.v.isLeaf = true)
    (hmo : ∀ a ∈ os, a.containsMarked = false) (hmw : ∀ a ∈ ws, a.containsMarked = false)
    (hcov : coversAll ws os = true) (hty : TyKeptU ws os)
    (hnu : ∀ p ∈ (toSpec s).expand ws.length, p.allowUnknown = false)
    (hlen : ((toSpec s).expand ws.length).length = ws.length)
    (hrwf : Ty.wf r.ty = true) (hrefl : Covers r r = true) :
    ∃ T tf, staticTy? e = some T ∧ tfOf E sy = some tf ∧
      ((callUnrefined (toSpec s) tf impl os).1 = .ok r →
        ∃ r', (callUnrefined (toSpec s) tf impl ws).1 = .ok r' ∧ Covers r' r = true) := by
  obtain ⟨T, hT, htf⟩ := C11.tfOf_static E sy hsy e he
  refine ⟨T, C11.staticType T, hT, htf, fun hr => ?_⟩
  exact sound_leaf_arguments _ _ impl os ws r (fun _ => D12b.typeMonoAt_of_eq rfl)
    (fun t ht => by cases ht; exact C11.staticTy_wf e T hT) hk hleaf hmo hmw hcov hty hnu hlen hrwf hrefl hr

/-! ### slice d12c: the per-function statements carried THROUGH the declared `refineNonNull`, to `Function.Call` itself

`call_refined_covers` asks of the value the weakened call yields before the refinement that it be unmarked at the
top and not a known value of the placeholder type.  That is a fact about the callback: `ImplTopClean`, proved of the
modelled `Impl`s on mark-free arguments (Lemmas/d12cCall.lean).  So the corollaries below have no hypothesis about
the weakened outcome; what they ask of the CONCRETE result `r` (known, non-null, mark-free, of a proper type with
the payload kind the type prescribes) is decidable and discharged on the instances at the end of the file. -/

/-- what the deferred refinement needs of a callback: every value it returns on `ws` is unmarked at the top and is
not a known value of the placeholder type -/
def ImplTopClean := D12c.ImplTopClean

/-- the concrete result is a value `RefineNotNull` hands back as it is (clause 2 is stated about successful
calls returning known values) -/
def ConcreteResultOK (r : Value) : Prop :=
  r.containsMarked = false ∧ fitsTop r.ty r.v = true ∧ r.ty.isDyn = false

/-- **Clause 1 and 2 through `Function.Call`, for ALL specs declaring `refineNonNull`**: the unrefined statement
(the conclusion of every `sound_<fn>`) plus `ImplTopClean` give: the concrete `Call` returns `r`, the weakened
call gets to a value, and EVERY value the weakened `Call` returns — after `RefineResult` — admits `r`. -/
theorem sound_lifts_to_refined_call (spec : Spec) (tf : TypeFn) (impl : ImplFn) (os ws : List Value) (r : Value)
    (hrf : spec.refine = some Stdlib.refineNN) (hmw : ∀ a ∈ ws, a.containsMarked = false)
    (hI : ImplTopClean tf impl ws)
    (hs : ∃ u, (callUnrefined spec tf impl ws).1 = .ok u ∧ Covers u r = true)
    (hrk : ConcreteResultOK r) (hr : (callUnrefined spec tf impl os).1 = .ok r) :
    (call spec tf impl os).1 = .ok r ∧ (∃ u, (callUnrefined spec tf impl ws).1 = .ok u) ∧
      ∀ x, (call spec tf impl ws).1 = .ok x → Covers x r = true :=
  D12c.refined_call_of_sound spec tf impl os ws r hrf hmw hI hs hrk.1 hrk.2.1 hrk.2.2 hr

/-- **`keys` through `Function.Call`** (declared refinement included) -/
theorem sound_keys_call (o w r : Value) (hk : o.whollyKnown = true)
    (hmo : o.containsMarked = false) (hmw : w.containsMarked = false)
    (hty : w.ty = o.ty ∨ w.ty.isDyn = true) (hc : CoversX w o = true)
    (hrwf : Ty.wf r.ty = true) (hrefl : Covers r r = true) (hrk : ConcreteResultOK r)
    (hr : (callUnrefined Stdlib.keysSpec Stdlib.keysType Stdlib.keysImpl [o]).1 = .ok r) :
    (call Stdlib.keysSpec Stdlib.keysType Stdlib.keysImpl [o]).1 = .ok r ∧
    (∃ u, (callUnrefined Stdlib.keysSpec Stdlib.keysType Stdlib.keysImpl [w]).1 = .ok u) ∧
    ∀ x, (call Stdlib.keysSpec Stdlib.keysType Stdlib.keysImpl [w]).1 = .ok x → Covers x r = true :=
  sound_lifts_to_refined_call _ _ _ [o] [w] r rfl (by simpa using hmw)
    (D12c.keys_topClean [w] (by simpa using hmw)) (sound_keys o w r hk hmo hmw hty hc hrwf hrefl hr) hrk hr

/-- **`values` through `Function.Call`** -/
theorem sound_values_call (E : Stdlib.Env) (o w r : Value) (hk : o.whollyKnown = true) (hwf : Ty.wf w.ty = true)
    (hmo : o.containsMarked = false) (hmw : w.containsMarked = false)
    (hty : w.ty = o.ty ∨ w.ty.isDyn = true) (hc : CoversX w o = true)
    (hrwf : Ty.wf r.ty = true) (hrefl : Covers r r = true) (hrk : ConcreteResultOK r)
    (hr : (callUnrefined Stdlib.valuesSpec Stdlib.valuesType (Stdlib.valuesImpl E) [o]).1 = .ok r) :
    (call Stdlib.valuesSpec Stdlib.valuesType (Stdlib.valuesImpl E) [o]).1 = .ok r ∧
    (∃ u, (callUnrefined Stdlib.valuesSpec Stdlib.valuesType (Stdlib.valuesImpl E) [w]).1 = .ok u) ∧
    ∀ x, (call Stdlib.valuesSpec Stdlib.valuesType (Stdlib.valuesImpl E) [w]).1 = .ok x → Covers x r = true :=
  sound_lifts_to_refined_call _ _ _ [o] [w] r rfl (by simpa using hmw)
    (D12c.values_topClean E [w] (by simpa using hmw)) (sound_values E o w r hk hwf hmo hmw hty hc hrwf hrefl hr) hrk hr

/-- **`reverse` through `Function.Call`** (the unknown list a set with an unknown member is answered by becomes,
refined, the non-null unknown list: still admits the reversed concrete members) -/
theorem sound_reverse_call (E : Stdlib.Env) (o w r : Value) (hk : o.whollyKnown = true) (hwf : Ty.wf w.ty = true)
    (hmo : o.containsMarked = false) (hmw : w.containsMarked = false)
    (hty : w.ty = o.ty ∨ w.ty.isDyn = true) (hc : CoversX w o = true)
    (hset : Stdlib.isSetTy o.ty = true → w.whollyKnown = false ∨ w = o)
    (hrwf : Ty.wf r.ty = true) (hrefl : Covers r r = true) (hrk : ConcreteResultOK r)
    (hr : (callUnrefined Stdlib.reverseSpec Stdlib.reverseType (Stdlib.reverseImpl E) [o]).1 = .ok r) :
    (call Stdlib.reverseSpec Stdlib.reverseType (Stdlib.reverseImpl E) [o]).1 = .ok r ∧
    (∃ u, (callUnrefined Stdlib.reverseSpec Stdlib.reverseType (Stdlib.reverseImpl E) [w]).1 = .ok u) ∧
    ∀ x, (call Stdlib.reverseSpec Stdlib.reverseType (Stdlib.reverseImpl E) [w]).1 = .ok x → Covers x r = true :=
  sound_lifts_to_refined_call _ _ _ [o] [w] r rfl (by simpa using hmw)
    (D12c.reverse_topClean E [w] (by simpa using hmw))
    (sound_reverse E o w r hk hwf hmo hmw hty hc hset hrwf hrefl hr) hrk hr

/-- **`compact` through `Function.Call`** -/
theorem sound_compact_call (E : Stdlib.Env) (o w r : Value) (hk : o.whollyKnown = true)
    (hmo : o.containsMarked = false) (hmw : w.containsMarked = false) (hs : D12b.noSet w.v = true)
    (hty : w.ty = o.ty ∨ w.ty.isDyn = true) (hc : CoversX w o = true)
    (hrwf : Ty.wf r.ty = true) (hrefl : Covers r r = true) (hrk : ConcreteResultOK r)
    (hr : (callUnrefined Stdlib.compactSpec Stdlib.compactType (Stdlib.compactImpl E) [o]).1 = .ok r) :
    (call Stdlib.compactSpec Stdlib.compactType (Stdlib.compactImpl E) [o]).1 = .ok r ∧
    (∃ u, (callUnrefined Stdlib.compactSpec Stdlib.compactType (Stdlib.compactImpl E) [w]).1 = .ok u) ∧
    ∀ x, (call Stdlib.compactSpec Stdlib.compactType (Stdlib.compactImpl E) [w]).1 = .ok x → Covers x r = true :=
  sound_lifts_to_refined_call _ _ _ [o] [w] r rfl (by simpa using hmw)
    (D12c.compact_topClean E [w]) (sound_compact E o w r hk hmo hmw hs hty hc hrwf hrefl hr) hrk hr

/-- **`distinct` through `Function.Call`** -/
theorem sound_distinct_call (E : Stdlib.Env) (o w r : Value) (hk : o.whollyKnown = true) (hwf : Ty.wf o.ty = true)
    (hmo : o.containsMarked = false) (hmw : w.containsMarked = false) (hs : D12b.noSet w.v = true)
    (hty : w.ty = o.ty ∨ w.ty.isDyn = true) (hc : CoversX w o = true)
    (hrwf : Ty.wf r.ty = true) (hrefl : Covers r r = true) (hrk : ConcreteResultOK r)
    (hr : (callUnrefined Stdlib.distinctSpec Stdlib.distinctType (Stdlib.distinctImpl E) [o]).1 = .ok r) :
    (call Stdlib.distinctSpec Stdlib.distinctType (Stdlib.distinctImpl E) [o]).1 = .ok r ∧
    (∃ u, (callUnrefined Stdlib.distinctSpec Stdlib.distinctType (Stdlib.distinctImpl E) [w]).1 = .ok u) ∧
    ∀ x, (call Stdlib.distinctSpec Stdlib.distinctType (Stdlib.distinctImpl E) [w]).1 = .ok x → Covers x r = true :=
  sound_lifts_to_refined_call _ _ _ [o] [w] r rfl (by simpa using hmw)
    (D12c.distinct_topClean E [w]) (sound_distinct E o w r hk hwf hmo hmw hs hty hc hrwf hrefl hr) hrk hr

/-- clause 3 for `compact`: the list it returns holds members of the argument only -/
theorem known_in_known_out_compact (E : Stdlib.Env) (args : List Value) (r : Value)
    (hk : ∀ a ∈ args, a.whollyKnown = true) (hm : ∀ a ∈ args, a.containsMarked = false)
    (hr : (callUnrefined Stdlib.compactSpec Stdlib.compactType (Stdlib.compactImpl E) args).1 = .ok r) :
    r.whollyKnown = true ∨ r = Value.unknown .dyn :=
  known_in_known_out _ _ _ args r (D12c.knownOut_compact E) hk hm hr

/-! ### the hypotheses are satisfiable -/

example : TypeMonoW (C11.staticType (.list .string)) := static_typeMonoW _
example : coversAll [Value.unknown .number, ⟨.string, .s "a"⟩] [⟨.number, .n (.fin false 1 0 64)⟩, ⟨.string, .s "a"⟩] = true := by
  decide
example : Covers ⟨.bool, .unk (.nullable .f)⟩ ⟨.bool, .b true⟩ = true :=
  notNull_unknown_covers .bool ⟨.bool, .b true⟩ (by decide) (by decide) (by decide) (by decide) (by intro w h; cases h)

/-! A joint witness: ALL hypotheses of `no_failure_before_impl` at once, with a spec that has a parameter
refusing unknowns and one accepting them, a dynamically typed parameter, and a `Type` callback; the
weakened call short-circuits (first argument unknown). -/
def exSpec : Spec :=
  { params := [{ ty := .number }, { ty := .list .bool, allowUnknown := true }],
    varParam := some { ty := .dyn, allowDynamic := true, allowUnknown := true } }
def exImpl : ImplFn := fun as _ => .ok ⟨.bool, .b (as.length == 3)⟩
def exOs : List Value :=
  [⟨.number, .n (.fin false 1 0 64)⟩, ⟨.list .bool, .seq [.b true]⟩, ⟨.list .bool, .seq [.b true, .b false]⟩]
def exWs : List Value :=
  [Value.unknown .number, ⟨.list .bool, .unk (.coll .f 1 3)⟩, ⟨.list .bool, .seq [.unk .unref, .b false]⟩]

example :
    TypeMonoW (C11.staticType .bool) ∧
    (∀ a ∈ exOs, a.containsMarked = false) ∧ (∀ a ∈ exWs, a.containsMarked = false) ∧
    coversAll exWs exOs = true ∧ TyKept exWs exOs ∧
    (callUnrefined exSpec (C11.staticType .bool) exImpl exOs).1 = .ok ⟨.bool, .b true⟩ ∧
    (∃ r', (callUnrefined exSpec (C11.staticType .bool) exImpl exWs).1 = .ok r') := by
  refine ⟨static_typeMonoW _, by decide, by decide, by decide, ⟨Or.inl rfl, Or.inl rfl, Or.inl rfl, trivial⟩, by rfl, ⟨_, rfl⟩⟩

/-- and one in which `Impl` IS reached on partly unknown arguments (both parameters accept unknowns) -/
example :
    (callUnrefined { exSpec with params := [{ ty := .number, allowUnknown := true }, { ty := .list .bool, allowUnknown := true }] }
      (C11.staticType .bool) exImpl exWs).1 = .ok ⟨.bool, .b true⟩ := by rfl

example : Covers ⟨.list .bool, .unk (.coll .u 1 3)⟩ ⟨.list .bool, .seq [.b true, .b false]⟩ = true ∧
    Stdlib.refineNN ⟨.list .bool, .unk (.coll .u 1 3)⟩ = some (.unk (.coll .f 1 3)) ∧
    fitsTop (.list .bool) (.seq [.b true, .b false]) = true := by
  refine ⟨by decide, by rfl, by decide⟩

/-- a numeric collapse: bounds `[2, 2]` become the known number 2, which still admits 2 -/
example : Stdlib.refineNN ⟨.number, .unk (.num .u (some ⟨.fin false 2 0 64, true⟩) (some ⟨.fin false 2 0 64, true⟩))⟩ =
    some (.n (.fin false 2 0 64)) := by rfl

/-! ### d12b: joint witnesses for the per-function theorems (every hypothesis discharged on a concrete,
non-trivial pair; the conclusion is then an instance of the theorem) -/

def exL : Value := ⟨.list .string, .seq [.s "a", .s "b"]⟩
/-- `["a", "b"]` with the first element unknown -/
def exLw : Value := ⟨.list .string, .seq [.unk .unref, .s "b"]⟩
/-- `["a", "b"]` as an unknown list of 1 to 3 elements -/
def exLu : Value := ⟨.list .string, .unk (.coll .f 1 3)⟩
def exM : Value := ⟨.map .number, .smap ["k", "l"] [.n (.fin false 1 0 64), .n (.fin false 1 1 64)]⟩
def exMw : Value := ⟨.map .number, .smap ["k", "l"] [.unk (.num .f (some ⟨.fin false 1 0 64, true⟩) none), .n (.fin false 1 1 64)]⟩
def exS : Value := ⟨.set .number, .sset [1, 2] [.n (.fin false 1 0 64), .n (.fin false 1 1 64)]⟩
def exSw : Value := ⟨.set .number, .sset [0, 2] [.unk .unref, .n (.fin false 1 1 64)]⟩

example : ∃ r', (callUnrefined Stdlib.lengthSpec Stdlib.lengthType Stdlib.lengthImpl [exLw]).1 = .ok r' ∧
    Covers r' (Value.intVal 2) = true :=
  sound_length exL exLw (Value.intVal 2) (by decide) (by decide) (by decide) (by decide) (by decide)
    (by intro h; cases h) (by decide) (Or.inl rfl) (by decide) (by decide) (by rfl)
example : ∃ r', (callUnrefined Stdlib.lengthSpec Stdlib.lengthType Stdlib.lengthImpl [exLu]).1 = .ok r' ∧
    Covers r' (Value.intVal 2) = true :=
  sound_length exL exLu (Value.intVal 2) (by decide) (by decide) (by decide) (by decide) (by decide)
    (by intro h; cases h) (by decide) (Or.inl rfl) (by decide) (by decide) (by rfl)
/-- a set holding an unknown member: the length is the range `[1, 2]` -/
example : ∃ r', (callUnrefined Stdlib.lengthSpec Stdlib.lengthType Stdlib.lengthImpl [exSw]).1 = .ok r' ∧
    Covers r' (Value.intVal 2) = true :=
  sound_length exS exSw (Value.intVal 2) (by decide) (by decide) (by decide) (by decide) (by decide)
    (by intro h; cases h) (by decide) (Or.inl rfl) (by decide) (by decide) (by rfl)
/-- `cty.DynamicVal` for the list -/
example : ∃ r', (callUnrefined Stdlib.lengthSpec Stdlib.lengthType Stdlib.lengthImpl [Value.dynVal]).1 = .ok r' ∧
    Covers r' (Value.intVal 2) = true :=
  sound_length exL Value.dynVal (Value.intVal 2) (by decide) (by decide) (by decide) (by decide) (by decide)
    (by intro _; rfl) (by decide) (Or.inr rfl) (by decide) (by decide) (by rfl)

example : ∃ r', (callUnrefined Stdlib.compactSpec Stdlib.compactType (Stdlib.compactImpl {}) [exLw]).1 = .ok r' ∧
    Covers r' exL = true :=
  sound_compact {} exL exLw exL (by decide) (by decide) (by decide) (by decide) (Or.inl rfl) (by decide)
    (by decide) (by decide) (by rfl)
example : ∃ r', (callUnrefined Stdlib.distinctSpec Stdlib.distinctType (Stdlib.distinctImpl {}) [exLw]).1 = .ok r' ∧
    Covers r' exL = true :=
  sound_distinct {} exL exLw exL (by decide) (by decide) (by decide) (by decide) (by decide) (Or.inl rfl) (by decide)
    (by decide) (by decide) (by rfl)

/-- `coalescelist([], ["a","b"])` with the second list partly unknown, and with the first list unknown -/
example : ∃ r', (callUnrefined Stdlib.coalesceListSpec Stdlib.coalesceListType Stdlib.coalesceListImpl
      [⟨.list .string, .seq []⟩, exLw]).1 = .ok r' ∧ Covers r' exL = true :=
  sound_coalescelist [⟨.list .string, .seq []⟩, exL] [⟨.list .string, .seq []⟩, exLw] exL (by decide) (by decide) (by decide)
    (by decide) (by decide) ⟨Or.inl rfl, Or.inl rfl, trivial⟩ (by decide) (by decide) (by rfl)
example : ∃ r', (callUnrefined Stdlib.coalesceListSpec Stdlib.coalesceListType Stdlib.coalesceListImpl
      [⟨.list .string, .unk (.coll .f 0 0)⟩, exL]).1 = .ok r' ∧ Covers r' exL = true :=
  sound_coalescelist [⟨.list .string, .seq []⟩, exL] [⟨.list .string, .unk (.coll .f 0 0)⟩, exL] exL (by decide) (by decide)
    (by decide) (by decide) (by decide) ⟨Or.inl rfl, Or.inl rfl, trivial⟩ (by decide) (by decide) (by rfl)

/-- `keys` of a map with an unknown element value, and of an unknown map -/
example : ∃ r', (callUnrefined Stdlib.keysSpec Stdlib.keysType Stdlib.keysImpl [exMw]).1 = .ok r' ∧
    Covers r' ⟨.list .string, .seq [.s "k", .s "l"]⟩ = true :=
  sound_keys exM exMw ⟨.list .string, .seq [.s "k", .s "l"]⟩ (by decide) (by decide) (by decide) (Or.inl rfl)
    (by decide) (by decide) (by decide) (by rfl)
example : ∃ r', (callUnrefined Stdlib.keysSpec Stdlib.keysType Stdlib.keysImpl [⟨.map .number, .unk (.coll .f 2 2)⟩]).1 = .ok r' ∧
    Covers r' ⟨.list .string, .seq [.s "k", .s "l"]⟩ = true :=
  sound_keys exM ⟨.map .number, .unk (.coll .f 2 2)⟩ ⟨.list .string, .seq [.s "k", .s "l"]⟩ (by decide) (by decide)
    (by decide) (Or.inl rfl) (by decide) (by decide) (by decide) (by rfl)

/-- `values` of the map with an unknown (bounded) element -/
example : ∃ r', (callUnrefined Stdlib.valuesSpec Stdlib.valuesType (Stdlib.valuesImpl {}) [exMw]).1 = .ok r' ∧
    Covers r' ⟨.list .number, .seq [.n (.fin false 1 0 64), .n (.fin false 1 1 64)]⟩ = true :=
  sound_values {} exM exMw ⟨.list .number, .seq [.n (.fin false 1 0 64), .n (.fin false 1 1 64)]⟩ (by decide) (by decide)
    (by decide) (by decide) (Or.inl rfl) (by decide) (by decide) (by decide) (by rfl)

/-- `reverse` of the partly unknown list, and of a set holding an unknown member -/
example : ∃ r', (callUnrefined Stdlib.reverseSpec Stdlib.reverseType (Stdlib.reverseImpl {}) [exLw]).1 = .ok r' ∧
    Covers r' ⟨.list .string, .seq [.s "b", .s "a"]⟩ = true :=
  sound_reverse {} exL exLw ⟨.list .string, .seq [.s "b", .s "a"]⟩ (by decide) (by decide) (by decide) (by decide) (Or.inl rfl)
    (by decide) (by intro h; cases h) (by decide) (by decide) (by rfl)

/-- the conversion law holds of an environment that converts nothing (`coalesce` of arguments of one type
never converts) -/
example : EnvConvertSound {} := by intro o w t r _ _ h; cases h
example : ∃ r', (callUnrefined Stdlib.coalesceSpec (Stdlib.coalesceType { unify := fun ts => .ok ts.head? })
      (Stdlib.coalesceImpl { unify := fun ts => .ok ts.head? }) [⟨.list .string, .null⟩, exLw]).1 = .ok r' ∧ Covers r' exL = true :=
  sound_coalesce { unify := fun ts => .ok ts.head? } (by intro o w t r _ _ h; cases h)
    [⟨.list .string, .null⟩, exL] [⟨.list .string, .null⟩, exLw] exL (by decide) (by decide) (by decide)
    (by intro t h; cases h; rfl) (by decide) ⟨rfl, rfl, trivial⟩ (by decide) (by decide) (by rfl)

/-- the scenario of the seeded change `C12-contains-set-hash-lookup-fast-path`: a wholly known SET of tuples,
the needle a tuple with an unknown inside; the concrete call finds it -/
def exHay : Value := ⟨.set (.tuple [.number, .string]), .sset [1] [.seq [.n (.fin false 1 1 64), .s "b"]]⟩
def exNeedle : Value := ⟨.tuple [.number, .string], .seq [.n (.fin false 1 1 64), .s "b"]⟩
def exNeedleW : Value := ⟨.tuple [.number, .string], .seq [.unk .unref, .s "b"]⟩

example : ∃ r', (callUnrefined Stdlib.containsSpec Stdlib.containsType (Stdlib.containsImpl {}) [exHay, exNeedleW]).1 = .ok r' ∧
    Covers r' (Value.boolVal true) = true :=
  sound_contains_needle {} exHay exNeedle exNeedleW (Value.boolVal true) (by decide) (by decide) (by decide) (by decide)
    (by decide) (by decide) (by decide) (Or.inl rfl)
    (by
      intro eo he
      have h : Stdlib.elems {} exHay = .ok [⟨.tuple [.number, .string], .seq [.n (.fin false 1 1 64), .s "b"]⟩] := by rfl
      rw [h] at he
      cases he
      intro v hv
      simp only [List.mem_cons, List.not_mem_nil, or_false] at hv
      subst hv
      exact ⟨_, _, by rfl, by rfl, by decide⟩)
    (by decide) (by decide) (by rfl)

/-- and what the model answers there: unknown, not False -/
example : (callUnrefined Stdlib.containsSpec Stdlib.containsType (Stdlib.containsImpl {}) [exHay, exNeedleW]).1 =
    .ok (Value.unknown .bool) := by rfl
/-- `element(["a","b"], 2)` (index 2 mod 2 = 0) with the first element unknown: the unknown string -/
example : ∃ r', (callUnrefined Stdlib.elementSpec Stdlib.elementType Stdlib.elementImpl [exLw, Value.intVal 2]).1 = .ok r' ∧
    Covers r' ⟨.string, .s "a"⟩ = true :=
  sound_element exL exLw (Value.intVal 2) (Value.intVal 2) ⟨.string, .s "a"⟩ (by decide) (by decide) (by decide) (by decide)
    (by decide) (by decide) (by decide) (by decide) (by decide) (Or.inl rfl) (Or.inl rfl) (by decide) (by decide)
    (by intro t h; have e : Stdlib.elementType [exLw, Value.intVal 2] = .ok .string := rfl; rw [e] at h; cases h; rfl)
    (by decide) (by decide) (by rfl)

/-- `sort(["a"])` with the list unknown of 1 to 3 members, and with its member unknown: an unknown list whose
length range holds 1 -/
example : ∃ r', (callUnrefined Stdlib.sortSpec Stdlib.sortType (Stdlib.sortImpl {}) [⟨.list .string, .unk (.coll .f 1 3)⟩]).1 = .ok r' ∧
    Covers r' ⟨.list .string, .seq [.s "a"]⟩ = true :=
  sound_sort {} ⟨.list .string, .seq [.s "a"]⟩ ⟨.list .string, .unk (.coll .f 1 3)⟩ ⟨.list .string, .seq [.s "a"]⟩ rfl (by decide)
    (by decide) (by decide) (by decide) (by decide) (Or.inl rfl) (by decide) (by decide) (by decide) (by rfl)
example : ∃ r', (callUnrefined Stdlib.sortSpec Stdlib.sortType (Stdlib.sortImpl {}) [⟨.list .string, .seq [.unk .unref]⟩]).1 = .ok r' ∧
    Covers r' ⟨.list .string, .seq [.s "a"]⟩ = true :=
  sound_sort {} ⟨.list .string, .seq [.s "a"]⟩ ⟨.list .string, .seq [.unk .unref]⟩ ⟨.list .string, .seq [.s "a"]⟩ rfl (by decide)
    (by decide) (by decide) (by decide) (by decide) (Or.inl rfl) (by decide) (by decide) (by decide) (by rfl)

/-- `lookup({k = 1, l = 2}, "k", 0)` with the value at `k` unknown: the unknown number; and with an unknown default -/
example : ∃ r', (callUnrefined Stdlib.lookupSpec (Stdlib.lookupType {}) (Stdlib.lookupImpl {})
      [exMw, ⟨.string, .s "k"⟩, Value.intVal 0]).1 = .ok r' ∧ Covers r' ⟨.number, .n (.fin false 1 0 64)⟩ = true :=
  sound_lookup_map_partial {} (by intro o w t r _ _ h; cases h) exM exMw ⟨.string, .s "k"⟩ ⟨.string, .s "k"⟩ (Value.intVal 0)
    (Value.intVal 0) ⟨.number, .n (.fin false 1 0 64)⟩ .number rfl rfl (by decide) (by decide) (by decide) (by decide) (by decide)
    (by decide) (by decide) (by decide) (by decide) (by decide) (by decide) (Or.inl rfl) (Or.inl rfl) (Or.inl rfl)
    (by decide) (by decide) (by decide) (by decide) (by decide) (by rfl)
example : ∃ r', (callUnrefined Stdlib.lookupSpec (Stdlib.lookupType {}) (Stdlib.lookupImpl {})
      [exM, ⟨.string, .s "k"⟩, Value.unknown .number]).1 = .ok r' ∧ Covers r' ⟨.number, .n (.fin false 1 0 64)⟩ = true :=
  sound_lookup_map_partial {} (by intro o w t r _ _ h; cases h) exM exM ⟨.string, .s "k"⟩ ⟨.string, .s "k"⟩ (Value.intVal 0)
    (Value.unknown .number) ⟨.number, .n (.fin false 1 0 64)⟩ .number rfl rfl (by decide) (by decide) (by decide) (by decide) (by decide)
    (by decide) (by decide) (by decide) (by decide) (by decide) (by decide) (Or.inl rfl) (Or.inl rfl) (Or.inl rfl)
    (by decide) (by decide) (by decide) (by decide) (by decide) (by rfl)


/-- `strlen("ab")` with the string unknown (not null), and as `cty.DynamicVal` -/
example : ∃ r', (callUnrefined Stdlib.strlenSpec Stdlib.strlenType (Stdlib.strlenImplU fun _ => ["x"]) [⟨.string, .unk (.nullable .f)⟩]).1 = .ok r' ∧
    Covers r' (Value.intVal 1) = true :=
  sound_strlen (fun _ => ["x"]) "ab" ⟨.string, .unk (.nullable .f)⟩ (Value.intVal 1) (by decide) (Or.inl rfl) (by decide)
    (fun _ _ => Nat.le_refl _) (by decide) (by decide) (by rfl)
example : ∃ r', (callUnrefined Stdlib.strlenSpec Stdlib.strlenType (Stdlib.strlenImplU fun _ => ["x"]) [Value.dynVal]).1 = .ok r' ∧
    Covers r' (Value.intVal 1) = true :=
  sound_strlen (fun _ => ["x"]) "ab" Value.dynVal (Value.intVal 1) (by decide) (Or.inr ⟨rfl, rfl⟩) (by decide)
    (fun _ _ => Nat.le_refl _) (by decide) (by decide) (by rfl)
/-- what the model answers for a refined prefix: the lower bound is the number of clusters of the prefix -/
example : (callUnrefined Stdlib.strlenSpec Stdlib.strlenType (Stdlib.strlenImplU fun _ => ["a", "b"]) [⟨.string, .unk (.str .f "ab")⟩]).1 =
    .ok ⟨.number, .unk (.num .u (some ⟨Num.ofInt 2 64, true⟩) none)⟩ := by rfl


/-- `zipmap(["k","l"], [1, 2])` with the first value unknown, and with a key unknown -/
example : ∃ r', (callUnrefined Stdlib.zipmapSpec (Stdlib.zipmapType {}) (Stdlib.zipmapImpl {})
      [⟨.list .string, .seq [.s "k", .s "l"]⟩, ⟨.list .number, .seq [.unk .unref, .n (.fin false 1 1 64)]⟩]).1 = .ok r' ∧
    Covers r' exM = true :=
  sound_zipmap {} ⟨.list .string, .seq [.s "k", .s "l"]⟩ ⟨.list .string, .seq [.s "k", .s "l"]⟩
    ⟨.list .number, .seq [.n (.fin false 1 0 64), .n (.fin false 1 1 64)]⟩ ⟨.list .number, .seq [.unk .unref, .n (.fin false 1 1 64)]⟩ exM
    (by decide) (by decide) (by decide) (by decide) (by decide) (by decide) (by decide) (by decide) (by decide)
    (Or.inl rfl) (Or.inl rfl) (by decide) (by decide)
    (by intro t h; have e : Stdlib.zipmapType {} [⟨.list .string, .seq [.s "k", .s "l"]⟩, ⟨.list .number, .seq [.unk .unref, .n (.fin false 1 1 64)]⟩] = .ok (.map .number) := rfl
        rw [e] at h; cases h; rfl)
    (by decide) (by decide) (by rfl)
example : ∃ r', (callUnrefined Stdlib.zipmapSpec (Stdlib.zipmapType {}) (Stdlib.zipmapImpl {})
      [⟨.list .string, .seq [.unk .unref, .s "l"]⟩, ⟨.list .number, .seq [.n (.fin false 1 0 64), .n (.fin false 1 1 64)]⟩]).1 = .ok r' ∧
    Covers r' exM = true :=
  sound_zipmap {} ⟨.list .string, .seq [.s "k", .s "l"]⟩ ⟨.list .string, .seq [.unk .unref, .s "l"]⟩
    ⟨.list .number, .seq [.n (.fin false 1 0 64), .n (.fin false 1 1 64)]⟩ ⟨.list .number, .seq [.n (.fin false 1 0 64), .n (.fin false 1 1 64)]⟩ exM
    (by decide) (by decide) (by decide) (by decide) (by decide) (by decide) (by decide) (by decide) (by decide)
    (Or.inl rfl) (Or.inl rfl) (by decide) (by decide)
    (by intro t h; have e : Stdlib.zipmapType {} [⟨.list .string, .seq [.unk .unref, .s "l"]⟩, ⟨.list .number, .seq [.n (.fin false 1 0 64), .n (.fin false 1 1 64)]⟩] = .ok (.map .number) := rfl
        rw [e] at h; cases h; rfl)
    (by decide) (by decide) (by rfl)

def exEnvU : Stdlib.Env := { unify := fun ts => .ok ts.head? }
/-- `concat(["a","b"], ["b"])` with a member of the first list unknown; and of tuples -/
example : ∃ r', (callUnrefined Stdlib.concatSpec (Stdlib.concatType exEnvU) (Stdlib.concatImpl exEnvU)
      [exLw, ⟨.list .string, .seq [.s "b"]⟩]).1 = .ok r' ∧ Covers r' ⟨.list .string, .seq [.s "a", .s "b", .s "b"]⟩ = true :=
  sound_concat_partial exEnvU [exL, ⟨.list .string, .seq [.s "b"]⟩] [exLw, ⟨.list .string, .seq [.s "b"]⟩]
    ⟨.list .string, .seq [.s "a", .s "b", .s "b"]⟩ (by decide) (by decide) (by decide) (by decide)
    (by
      intro e h a ha
      have e1 : Stdlib.concatType exEnvU [exL, ⟨.list .string, .seq [.s "b"]⟩] = .ok (.list .string) := rfl
      rw [e1] at h
      cases h
      simp only [List.mem_cons, List.not_mem_nil, or_false] at ha
      rcases ha with rfl | rfl <;> rfl)
    (by
      intro t h
      have e1 : Stdlib.concatType exEnvU [exLw, ⟨.list .string, .seq [.s "b"]⟩] = .ok (.list .string) := rfl
      rw [e1] at h; cases h; rfl)
    (by decide) ⟨Or.inl rfl, Or.inl rfl, trivial⟩ (by decide) (by decide) (by rfl)
example : ∃ r', (callUnrefined Stdlib.concatSpec (Stdlib.concatType {}) (Stdlib.concatImpl {})
      [⟨.tuple [.number, .string], .seq [.unk .unref, .s "b"]⟩, ⟨.tuple [.bool], .seq [.b true]⟩]).1 = .ok r' ∧
    Covers r' ⟨.tuple [.number, .string, .bool], .seq [.n (.fin false 1 1 64), .s "b", .b true]⟩ = true :=
  sound_concat_partial {} [exNeedle, ⟨.tuple [.bool], .seq [.b true]⟩]
    [⟨.tuple [.number, .string], .seq [.unk .unref, .s "b"]⟩, ⟨.tuple [.bool], .seq [.b true]⟩]
    ⟨.tuple [.number, .string, .bool], .seq [.n (.fin false 1 1 64), .s "b", .b true]⟩ (by decide) (by decide) (by decide) (by decide)
    (by
      intro e h
      have e1 : Stdlib.concatType {} [exNeedle, ⟨.tuple [.bool], .seq [.b true]⟩] = .ok (.tuple [.number, .string, .bool]) := rfl
      rw [e1] at h
      cases h)
    (by
      intro t h
      have e1 : Stdlib.concatType {} [⟨.tuple [.number, .string], .seq [.unk .unref, .s "b"]⟩, ⟨.tuple [.bool], .seq [.b true]⟩] =
        .ok (.tuple [.number, .string, .bool]) := rfl
      rw [e1] at h; cases h; rfl)
    (by decide) ⟨Or.inl rfl, Or.inl rfl, trivial⟩ (by decide) (by decide) (by rfl)


/-- `length` through `Call` with its `refineNonNull`: a set holding an unknown member -/
example : (call Stdlib.lengthSpec Stdlib.lengthType Stdlib.lengthImpl [exS]).1 = .ok (Value.intVal 2) ∧
    (∃ u, (callUnrefined Stdlib.lengthSpec Stdlib.lengthType Stdlib.lengthImpl [exSw]).1 = .ok u) ∧
    ∀ x, (call Stdlib.lengthSpec Stdlib.lengthType Stdlib.lengthImpl [exSw]).1 = .ok x → Covers x (Value.intVal 2) = true :=
  sound_length_call exS exSw (Value.intVal 2) (by decide) (by decide) (by decide) (by decide) (by decide)
    (by intro h; cases h) (by decide) (Or.inl rfl) (by decide) (by rfl) ⟨by decide, by decide, by decide, by decide⟩


/-- `hasindex(["a","b"], 1)` with a member unknown (still True: the shape is known), and with `cty.DynamicVal` as the list -/
example : ∃ r', (callUnrefined Stdlib.hasIndexSpec Stdlib.hasIndexType Stdlib.hasIndexImpl [exLw, Value.intVal 1]).1 = .ok r' ∧
    Covers r' (Value.boolVal true) = true :=
  sound_hasindex exL exLw (Value.intVal 1) (Value.intVal 1) (Value.boolVal true) (by decide) (by decide) (by decide) (by decide)
    (by decide) (by decide) (by decide) (by decide) (by decide) (by decide) (Or.inl rfl) (Or.inl rfl) (by decide) (by decide)
    (by decide) (by decide) (by rfl)
example : ∃ r', (callUnrefined Stdlib.hasIndexSpec Stdlib.hasIndexType Stdlib.hasIndexImpl [Value.dynVal, Value.intVal 1]).1 = .ok r' ∧
    Covers r' (Value.boolVal true) = true :=
  sound_hasindex exL Value.dynVal (Value.intVal 1) (Value.intVal 1) (Value.boolVal true) (by decide) (by decide) (by decide) (by decide)
    (by decide) (by decide) (by decide) (by decide) (by decide) (by decide) (Or.inr rfl) (Or.inl rfl) (by decide) (by decide)
    (by decide) (by decide) (by rfl)


/-- a non-vacuous instance of the conversion law: an environment in which conversion to the placeholder type is
the identity (what `convert.Convert(v, cty.DynamicPseudoType)` does) and nothing else is answered -/
example : EnvConvertSound { convert := fun v t => if t = .dyn then .ok v else .unmodelled } := by
  intro o w t r hc hty h
  by_cases ht : t = .dyn
  · simp only [ht, if_true, Res.ok.injEq] at h ⊢
    subst h
    exact ⟨w, rfl, hty, coversX_covers hc⟩
  · simp [ht] at h


/-- `index(["a","b"], 0)` with that member unknown, and `index({k = 1, l = 2}, "l")` with the other element unknown -/
example : ∃ r', (callUnrefined Stdlib.indexSpec Stdlib.indexType Stdlib.indexImpl [exLw, Value.intVal 0]).1 = .ok r' ∧
    Covers r' ⟨.string, .s "a"⟩ = true :=
  sound_index exL exLw (Value.intVal 0) (Value.intVal 0) ⟨.string, .s "a"⟩ (by decide) (by decide) (by decide) (by decide)
    (by decide) (by decide) (by decide) (by decide) (by decide) (by decide) (by decide) (Or.inl rfl) (Or.inl rfl)
    (by decide) (by decide) (by decide) (by intro h; cases h)
    (by intro t h; have e : Stdlib.indexType [exLw, Value.intVal 0] = .ok .string := rfl; rw [e] at h; cases h; rfl)
    (by decide) (by decide) (by rfl)

def exObj : Value := ⟨.object ["a", "b"] [.number, .string] [false, false], .smap ["a", "b"] [.n (.fin false 1 0 64), .s "x"]⟩
def exObjW : Value := ⟨.object ["a", "b"] [.number, .string] [false, false], .smap ["a", "b"] [.unk .unref, .s "x"]⟩
/-- `lookup({a = 1, b = "x"}, "b", "d")` with the OTHER attribute unknown: the unknown string (the object is not
wholly known) -/
example : ∃ r', (callUnrefined Stdlib.lookupSpec (Stdlib.lookupType {}) (Stdlib.lookupImpl {})
      [exObjW, ⟨.string, .s "b"⟩, ⟨.string, .s "d"⟩]).1 = .ok r' ∧ Covers r' ⟨.string, .s "x"⟩ = true :=
  sound_lookup_object {} (by intro o w t r _ _ h; cases h) exObj exObjW ⟨.string, .s "b"⟩ ⟨.string, .s "b"⟩ ⟨.string, .s "d"⟩
    ⟨.string, .s "d"⟩ ⟨.string, .s "x"⟩ _ _ _ rfl (by decide) (by decide) (by decide) (by decide) (by decide) (by decide) (by decide)
    (by decide) (by decide) (by decide) (by decide) (Or.inl rfl) (Or.inl rfl) (Or.inl rfl) (by decide) (by decide) (by decide)
    (by intro t h; have e : Stdlib.lookupType {} [exObjW, ⟨.string, .s "b"⟩, ⟨.string, .s "d"⟩] = .ok .string := rfl
        rw [e] at h; cases h; rfl)
    (by decide) (by decide) (by rfl)

/-- a one-string function that refuses unknowns (the shape of `upper`, `lower`, `trimspace`, …), any `Impl`:
the argument weakened to an unknown string -/
example : ∃ r', (callUnrefined { params := [{ ty := .string }] } (C11.staticType .string)
      (fun as _ => .ok (as.headD ⟨.string, .s ""⟩)) [⟨.string, .unk (.nullable .f)⟩]).1 = .ok r' ∧
    Covers r' ⟨.string, .s "ab"⟩ = true :=
  sound_leaf_arguments { params := [{ ty := .string }] } (C11.staticType .string) (fun as _ => .ok (as.headD ⟨.string, .s ""⟩))
    [⟨.string, .s "ab"⟩] [⟨.string, .unk (.nullable .f)⟩] ⟨.string, .s "ab"⟩ (fun _ => D12b.typeMonoAt_of_eq rfl)
    (fun t ht => by cases ht; rfl) (by decide) (by decide) (by decide) (by decide) (by decide) ⟨Or.inl rfl, trivial⟩
    (by decide) rfl (by decide) (by decide) (by rfl)

/-! ### d12c: joint witnesses for the `_call` corollaries — every hypothesis discharged on a real weakened
argument list, and the refined outcome of `Function.Call` computed -/

def exKeysR : Value := ⟨.list .string, .seq [.s "k", .s "l"]⟩
/-- `keys` of a map with an unknown element value; of an UNKNOWN map (refined: the non-null unknown list) -/
example : ∀ x, (call Stdlib.keysSpec Stdlib.keysType Stdlib.keysImpl [exMw]).1 = .ok x → Covers x exKeysR = true :=
  (sound_keys_call exM exMw exKeysR (by decide) (by decide) (by decide) (Or.inl rfl)
    (by decide) (by decide) (by decide) ⟨by decide, by decide, by decide⟩ (by rfl)).2.2
example : ∀ x, (call Stdlib.keysSpec Stdlib.keysType Stdlib.keysImpl [⟨.map .number, .unk (.coll .f 2 2)⟩]).1 = .ok x →
    Covers x exKeysR = true :=
  (sound_keys_call exM ⟨.map .number, .unk (.coll .f 2 2)⟩ exKeysR (by decide) (by decide)
    (by decide) (Or.inl rfl) (by decide) (by decide) (by decide) ⟨by decide, by decide, by decide⟩ (by rfl)).2.2
/-- the conclusion is about a call that does return: the refined outcome on the unknown map -/
example : (call Stdlib.keysSpec Stdlib.keysType Stdlib.keysImpl [⟨.map .number, .unk (.coll .f 2 2)⟩]).1 =
    .ok ⟨.list .string, .unk (.coll .f 0 9223372036854775807)⟩ := by rfl

example : ∀ x, (call Stdlib.valuesSpec Stdlib.valuesType (Stdlib.valuesImpl {}) [exMw]).1 = .ok x →
    Covers x ⟨.list .number, .seq [.n (.fin false 1 0 64), .n (.fin false 1 1 64)]⟩ = true :=
  (sound_values_call {} exM exMw ⟨.list .number, .seq [.n (.fin false 1 0 64), .n (.fin false 1 1 64)]⟩ (by decide) (by decide)
    (by decide) (by decide) (Or.inl rfl) (by decide) (by decide) (by decide) ⟨by decide, by decide, by decide⟩ (by rfl)).2.2

example : ∀ x, (call Stdlib.reverseSpec Stdlib.reverseType (Stdlib.reverseImpl {}) [exLw]).1 = .ok x →
    Covers x ⟨.list .string, .seq [.s "b", .s "a"]⟩ = true :=
  (sound_reverse_call {} exL exLw ⟨.list .string, .seq [.s "b", .s "a"]⟩ (by decide) (by decide) (by decide) (by decide)
    (Or.inl rfl) (by decide) (by intro h; cases h) (by decide) (by decide) ⟨by decide, by decide, by decide⟩ (by rfl)).2.2

example : ∀ x, (call Stdlib.compactSpec Stdlib.compactType (Stdlib.compactImpl {}) [exLw]).1 = .ok x → Covers x exL = true :=
  (sound_compact_call {} exL exLw exL (by decide) (by decide) (by decide) (by decide) (Or.inl rfl) (by decide)
    (by decide) (by decide) ⟨by decide, by decide, by decide⟩ (by rfl)).2.2
/-- `compact` of the partly unknown list through `Call`: the unknown list of strings, refined not-null -/
example : (call Stdlib.compactSpec Stdlib.compactType (Stdlib.compactImpl {}) [exLw]).1 =
    .ok ⟨.list .string, .unk (.coll .f 0 9223372036854775807)⟩ := by rfl

example : ∀ x, (call Stdlib.distinctSpec Stdlib.distinctType (Stdlib.distinctImpl {}) [exLw]).1 = .ok x → Covers x exL = true :=
  (sound_distinct_call {} exL exLw exL (by decide) (by decide) (by decide) (by decide) (by decide) (Or.inl rfl) (by decide)
    (by decide) (by decide) ⟨by decide, by decide, by decide⟩ (by rfl)).2.2

example : ((callUnrefined Stdlib.compactSpec Stdlib.compactType (Stdlib.compactImpl {}) [exL]).1 = .ok exL) ∧
    exL.whollyKnown = true := ⟨by rfl, by decide⟩

end C12
end CtyModel
