/-
C14 — number, string, encoding and date functions of the stdlib compute the
documented result.

The functions named here (`StdNum.ceilImpl`, `substrClusters`, `upperImpl`, …) are
the transliterations of the `Impl` callbacks that the harness diffs against
/repo on every run (`std.num`, `std.glue`, … ops).  A finite number
`.fin n m e p` has the exact value `sval n m · 2^e`; `Num.IsVal r k 0` reads "r is
finite and its exact value is the integer k"; `Normal x` is the form of every
number that reaches the model (odd mantissa that fits the precision).
The Go standard library, NFC normalisation and grapheme segmentation are the
parameter `L : Lib` / `nfc` / `clusters` of the theorems: every statement holds for
ALL library behaviours (two theorems assume a named law about a library answer —
`IdxOK` for regexp's index lists, the field-count promise of encoding/csv — and the
harness probes those laws on the real library on every run).
Sections: numbers · strings on clusters · library glue (incl. indent) · format (scanner =
grammar, saturating numbers, argument bookkeeping, limits, dispatch, totality) · formatdate ·
formatlist · jsonencode/jsondecode on top of C15 · regex · non-vacuity examples.
-/
import CtyModel.Lemmas.StdNumStr
import CtyModel.Lemmas.StdNumMisc
import CtyModel.Lemmas.StdNumFmt
import CtyModel.Lemmas.d14Fmt
import CtyModel.Lemmas.d14Str
import CtyModel.Lemmas.d14FormatList
import CtyModel.Lemmas.d14Date
import CtyModel.Lemmas.d14Regex
import CtyModel.Lemmas.d14Json
import CtyModel.Lemmas.d14Glue
import CtyModel.Lemmas.d14Dispatch
import CtyModel.Lemmas.d14bRef
import CtyModel.Lemmas.d14bJoin
import CtyModel.Lemmas.d14bDuration
import CtyModel.Lemmas.d14bTimestamp
import CtyModel.Lemmas.d14bRegexAll
import CtyModel.Props.C02
namespace CtyModel
namespace C14
open Num Value StdNum NumCmp

/-! ## Numbers -/

/-- `ceil` agrees with exact arithmetic: for a finite `x = sval n m · 2^e` the
result is a whole number `k`, represented exactly (the rounding of `SetInt` at
the argument's precision never bites), with `k − 1 < x ≤ k`. -/
theorem ceil_spec (n : Bool) (m : Nat) (e : Int) (p : Nat) (hN : Normal (.fin n m e p)) :
    ∃ k : Int, ceilImpl [numVal (.fin n m e p)] = .ok (numVal (setIntP k p)) ∧
      IsVal (setIntP k p) k 0 ∧
      (k - 1) * 2 ^ (-e).toNat < sval n m * 2 ^ e.toNat ∧ sval n m * 2 ^ e.toNat ≤ k * 2 ^ (-e).toNat :=
  ceil_fin n m e p hN

/-- `floor`: a whole number `k`, exact, with `k ≤ x < k + 1`. -/
theorem floor_spec (n : Bool) (m : Nat) (e : Int) (p : Nat) (hN : Normal (.fin n m e p)) :
    ∃ k : Int, floorImpl [numVal (.fin n m e p)] = .ok (numVal (setIntP k p)) ∧
      IsVal (setIntP k p) k 0 ∧
      k * 2 ^ (-e).toNat ≤ sval n m * 2 ^ e.toNat ∧ sval n m * 2 ^ e.toNat < (k + 1) * 2 ^ (-e).toNat :=
  floor_fin n m e p hN

/-- `ceil` and `floor` leave ±infinity fixed. -/
theorem ceil_floor_inf (n : Bool) :
    ceilImpl [numVal (.inf n)] = .ok (numVal (.inf n)) ∧ floorImpl [numVal (.inf n)] = .ok (numVal (.inf n)) := by
  constructor <;> simp [ceilImpl, floorImpl, Num.isInf]

/-- `int` is the identity on whole numbers (the argument itself is returned). -/
theorem int_identity_on_integers (x : Num) (h : x.isInt = true) : intImpl [numVal x] = .ok (numVal x) :=
  int_whole x h

/-- `int` truncates a non-integer toward zero: the result is exactly `sval n q`
where `q` is the integer part of the magnitude (`q·2^-e < m < (q+1)·2^-e`), i.e.
sign kept, magnitude rounded down. -/
theorem int_truncates_toward_zero (n : Bool) (m : Nat) (e : Int) (p : Nat) (hN : Normal (.fin n m e p)) (he : e < 0) :
    ∃ q : Nat, intImpl [numVal (.fin n m e p)] = .ok (numVal (setIntP (sval n q) 0)) ∧
      IsVal (setIntP (sval n q) 0) (sval n q) 0 ∧
      q * 2 ^ (-e).toNat < m ∧ m < (q + 1) * 2 ^ (-e).toNat :=
  int_frac n m e p hN he

/-- `int` rejects ±infinity — EVERY infinity, whatever `big.Float` carries it — with a
plain error, as documented for `Int` ("If an infinity is passed to Int, an error is
returned"): an infinity is outside the function's domain (/repo f991adf; before it
the infinity came back, before e69819b the call panicked) … -/
theorem int_inf_error (n : Bool) : ∃ msg, intImpl [numVal (.inf n)] = .err msg :=
  int_inf n

/-- … it fails ONLY there ("they fail only outside their documented domain"): `int`
succeeds exactly on the finite numbers … -/
theorem int_ok_iff_finite (x : Num) : (intImpl [numVal x]).isOk = true ↔ x.isInf = false := by
  cases x with
  | inf n => obtain ⟨msg, h⟩ := int_inf n; rw [h]; simp [Res.isOk, Num.isInf]
  | fin n m e p =>
    by_cases hi : (Num.fin n m e p).isInt = true
    · rw [int_whole _ hi]; simp [Res.isOk, Num.isInf]
    · simp [intImpl, hi, Num.truncInt, Num.isInf, Res.isOk]

/-- … and never panics on a number. -/
theorem int_never_panics (x : Num) : (intImpl [numVal x]).isPanic = false := by
  cases x with
  | inf n => obtain ⟨msg, h⟩ := int_inf n; rw [h]; rfl
  | fin n m e p =>
    by_cases hi : (Num.fin n m e p).isInt = true
    · rw [int_whole _ hi]; rfl
    · simp [intImpl, hi, Num.truncInt, Num.isInf, Res.isPanic]

/-- `signum` returns the sign of ANY number — fractions, numbers outside int64 and
±infinity included: −1 / 0 / 1 as `big.Float.Sign` reports it. -/
theorem signum_by_sign (x : Num) : signumImpl [numVal x] = .ok (intVal x.sign) := by
  simp [signumImpl]

/-- the three values of the sign -/
theorem sign_values (x : Num) : x.sign = -1 ∨ x.sign = 0 ∨ x.sign = 1 := by
  cases x with
  | inf n => cases n <;> simp [Num.sign]
  | fin n m e p =>
    cases m with
    | zero => simp [Num.sign]
    | succ k => cases n <;> simp [Num.sign]

/-- `abs` clears the sign and nothing else: the result is the argument or its negation. -/
theorem abs_spec (x : Num) :
    absoluteImpl [numVal x] = .ok (numVal x.abs) ∧ x.abs.signbit = false ∧ (x.abs = x ∨ x.abs = x.neg) := by
  refine ⟨by simp [absoluteImpl, abs_num], ?_, ?_⟩
  · cases x <;> rfl
  · cases x with
    | fin n m e p => cases n <;> simp [Num.abs, Num.neg]
    | inf n => cases n <;> simp [Num.abs, Num.neg]

/-- `min` returns one of its arguments, and it bounds all of them from below. -/
theorem min_spec (xs : List Num) (h : xs ≠ []) :
    ∃ r, minImpl (xs.map numVal) = .ok (numVal r) ∧ r ∈ xs ∧ ∀ x ∈ xs, Num.cmp r x ≤ 0 := by
  refine ⟨minNum xs (.inf false), ?_, ?_, (minNum_le xs _).2⟩
  · have hl : ((xs.map numVal).length == 0) = false := by
      cases xs with
      | nil => contradiction
      | cons a t => simp
    simp only [minImpl, hl, Bool.false_eq_true, if_false]
    exact minLoop_num xs (.inf false)
  · rcases minNum_mem xs (.inf false) with hm | hm
    · cases xs with
      | nil => contradiction
      | cons a t =>
        have h1 := (minNum_le (a :: t) (.inf false)).2 a List.mem_cons_self
        rw [hm] at h1
        have h2 := cmp_posInf a
        have h3 : Num.cmp a (.inf false) = 0 := by rw [cmp_swap (.inf false) a] at *; omega
        rw [hm, ← (cmp_posInf_eq a).mp h3]
        exact List.mem_cons_self
    · exact hm

/-- `max` returns one of its arguments, and it bounds all of them from above. -/
theorem max_spec (xs : List Num) (h : xs ≠ []) :
    ∃ r, maxImpl (xs.map numVal) = .ok (numVal r) ∧ r ∈ xs ∧ ∀ x ∈ xs, Num.cmp x r ≤ 0 := by
  refine ⟨maxNum xs (.inf true), ?_, ?_, (maxNum_ge xs _).2⟩
  · have hl : ((xs.map numVal).length == 0) = false := by
      cases xs with
      | nil => contradiction
      | cons a t => simp
    simp only [maxImpl, hl, Bool.false_eq_true, if_false]
    exact maxLoop_num xs (.inf true)
  · rcases maxNum_mem xs (.inf true) with hm | hm
    · cases xs with
      | nil => contradiction
      | cons a t =>
        have h1 := (maxNum_ge (a :: t) (.inf true)).2 a List.mem_cons_self
        rw [hm] at h1
        have h2 := cmp_negInf a
        have h3 : Num.cmp a (.inf true) = 0 := by omega
        rw [hm, ← (cmp_negInf_eq a).mp h3]
        exact List.mem_cons_self
    · exact hm

/-- … and without arguments both are the documented error. -/
theorem min_max_empty : minImpl [] = .err "must pass at least one number" ∧ maxImpl [] = .err "must pass at least one number" :=
  ⟨rfl, rfl⟩

/-- `parseint`, digits → value: a non-empty string of digits of a base ≤ 62, with an
optional sign, parses to the value the digits denote (most significant first). -/
theorem parseint_digits (base : Nat) (hb : base ≤ 62) (body : List Char) (hne : body ≠ [])
    (hall : ∀ c ∈ body, digitVal base c < base) :
    setString body base = some (digitsVal base body : Int) ∧
    setString ('+' :: body) base = some (digitsVal base body : Int) ∧
    setString ('-' :: body) base = some (-(digitsVal base body : Int)) := by
  obtain ⟨h1, h2, h3⟩ := (scan_body base body).1 ⟨hne, hall⟩
  have hs := StdNum.scanSign_digits base hb body hall
  refine ⟨?_, ?_, ?_⟩
  · simp [setString, hs, h1, h2, h3]
  · simp [setString, StdNum.scanSign, h1, h2, h3]
  · simp [setString, StdNum.scanSign, h1, h2, h3]

/-- `parseint`, rejects exactly the non-digits: if, after the optional sign, nothing
is left or some character is not a digit of the base, the string is rejected. -/
theorem parseint_rejects (base : Nat) (s : List Char)
    (h : (StdNum.scanSign s).2 = [] ∨ ∃ c ∈ (StdNum.scanSign s).2, digitVal base c ≥ base) : setString s base = none := by
  rcases (scan_body base (StdNum.scanSign s).2).2 h with h0 | h1
  · simp [setString, h0]
  · simp only [setString]
    split
    · rfl
    · have : (scanDigits base (StdNum.scanSign s).2 0 0).2.2.isEmpty = false := by
        cases hx : (scanDigits base (StdNum.scanSign s).2 0 0).2.2 with
        | nil => exact absurd hx h1
        | cons a t => rfl
      simp [this]

/-- `parseint` at the value level: the base is decoded as a Go int and must lie in
2..62; the result is the parsed integer, represented exactly. -/
theorem parseint_value (s : String) (baseV : Value) (base : Int) (hb : fromCtyInt baseV = .ok base)
    (h2 : 2 ≤ base) (h62 : base ≤ 62) :
    parseIntImpl [⟨.string, .s s⟩, baseV] =
      (match setString s.toList base.toNat with
       | none => .err "cannot parse"
       | some v => .ok (numVal (setIntP v 0))) ∧
    ∀ v : Int, IsVal (setIntP v 0) v 0 := by
  constructor
  · have hr : ¬ (base < 2 ∨ base > 62) := by omega
    simp only [parseIntImpl, arg0, arg1, Res.bind_ok, Ty.isString, Bool.not_true, Bool.false_eq_true, if_false,
      fromCtyString, hb, hr]
    cases setString s.toList base.toNat <;> rfl
  · intro v
    exact setIntP_exact v 0 v.natAbs 0 (by simp) (Or.inl rfl)

/-- a base outside 2..62 is rejected -/
theorem parseint_bad_base (s : String) (baseV : Value) (base : Int) (hb : fromCtyInt baseV = .ok base)
    (h : base < 2 ∨ base > 62) :
    parseIntImpl [⟨.string, .s s⟩, baseV] = .err "base must be a whole number between 2 and 62 inclusive" := by
  simp [parseIntImpl, Ty.isString, fromCtyString, hb, h]

/-- The arithmetic, comparison and logic functions ARE the C02 operation methods
(under a `recover` that turns `big.ErrNaN` into an error for the arithmetic ones). -/
theorem wrappers_are_operations (a b : Value) :
    addImpl [a, b] = recoverNaN (Value.add a b) ∧ subtractImpl [a, b] = recoverNaN (Value.sub a b) ∧
    multiplyImpl [a, b] = recoverNaN (Value.mul a b) ∧ divideImpl [a, b] = recoverNaN (Value.div a b) ∧
    moduloImpl [a, b] = recoverNaN (Value.mod a b) ∧ negateImpl [a] = Value.neg a ∧ absoluteImpl [a] = Value.abs a ∧
    lessThanImpl [a, b] = Value.lessThan a b ∧ greaterThanImpl [a, b] = Value.greaterThan a b ∧
    notImpl [a] = Value.not a ∧ andImpl [a, b] = Value.and a b ∧ orImpl [a, b] = Value.or a b ∧
    equalImpl [a, b] = Value.equals a b :=
  ⟨rfl, rfl, rfl, rfl, rfl, rfl, rfl, rfl, rfl, rfl, rfl, rfl, rfl⟩

/-- The NaN cases of big.Float arithmetic come back as errors, never as panics. -/
theorem nan_is_an_error (r : Res Value) : recoverNaN r ≠ .panic "ErrNaN" := by
  cases r with
  | panic w =>
    simp only [recoverNaN]
    split
    · simp
    · rename_i h; intro heq; cases heq; simp at h
  | _ => simp [recoverNaN]

/-- On known numbers the sum is the C02 sum (`C02.add_within_half_ulp` says what that is). -/
theorem add_known (x y r : Num) (h : Num.add x y = .ok r) :
    addImpl [numVal x, numVal y] = .ok (numVal r) := by
  rw [(wrappers_are_operations _ _).1, C02.add_known x y r h]; rfl

/-- Comparison functions on known numbers are exact comparison. -/
theorem compare_known (x y : Num) :
    lessThanImpl [numVal x, numVal y] = .ok (boolVal (decide (Num.cmp x y < 0))) ∧
    greaterThanImpl [numVal x, numVal y] = .ok (boolVal (decide (Num.cmp x y > 0))) := by
  constructor
  · exact lessThan_num x y
  · exact greaterThan_num x y

/-- Boolean functions agree with their truth tables. -/
theorem logic_truth_tables (x y : Bool) :
    notImpl [boolVal x] = .ok (boolVal (!x)) ∧ andImpl [boolVal x, boolVal y] = .ok (boolVal (x && y)) ∧
    orImpl [boolVal x, boolVal y] = .ok (boolVal (x || y)) :=
  C02.logic_truth_tables x y

/-- `coalesce` returns the first argument that is not null (arguments of one type). -/
theorem coalesce_first_non_null (t : Ty) (nulls : List Value) (v : Value) (rest : List Value)
    (hn : ∀ n ∈ nulls, n.isKnown = true ∧ n.isNull = true) (hk : v.isKnown = true) (hv : v.isNull = false) :
    coalesceLoop t (nulls ++ v :: rest) = .ok v ∧ coalesceLoop t nulls = .err "no non-null arguments" := by
  constructor
  · rw [coalesceLoop_skip t nulls _ hn]; simp [coalesceLoop, hk, hv]
  · have := coalesceLoop_skip t nulls [] hn
    rw [List.append_nil] at this
    rw [this]; rfl

/-- `log` / `pow` return `NumberFloatVal` of the library's float64 answer; a NaN
answer (log of a negative number, 0/0, a negative base with a fractional
exponent) is an ordinary error. -/
theorem log_pow_glue (lib : Num → Num → F64) (a b x y : Num)
    (ha : fromCtyFloat (numVal a) = .ok x) (hb : fromCtyFloat (numVal b) = .ok y) :
    (∀ r, lib x y = .num r →
      logImpl lib [numVal a, numVal b] = .ok (numVal r) ∧ powImpl lib [numVal a, numVal b] = .ok (numVal r)) ∧
    (lib x y = .nan →
      logImpl lib [numVal a, numVal b] = .err "the logarithm is not a real number" ∧
      powImpl lib [numVal a, numVal b] = .err "the power is not a real number") := by
  constructor
  · intro r hr; simp [logImpl, powImpl, ha, hb, hr, numberFloatVal]
  · intro hr; simp [logImpl, powImpl, ha, hb, hr]

/-- `log` / `pow` never panic, whatever the math library answers. -/
theorem log_pow_never_panic (lib : Num → Num → F64) (a b : Num) :
    (logImpl lib [numVal a, numVal b]).isPanic = false ∧ (powImpl lib [numVal a, numVal b]).isPanic = false := by
  have hf : ∀ v : Num, (∃ z, fromCtyFloat (numVal v) = .ok z) ∨ (∃ c, fromCtyFloat (numVal v) = .err c) := by
    intro v
    simp only [fromCtyFloat, numVal, Gocty.fromNumFloat]
    split <;> simp
  constructor
  · rcases hf a with ⟨x, hx⟩ | ⟨c, hx⟩
    · rcases hf b with ⟨y, hy⟩ | ⟨c', hy⟩
      · simp only [logImpl, arg0, arg1, Res.bind_ok, hx, hy]
        cases lib x y <;> rfl
      · simp [logImpl, hx, hy, Res.isPanic]
    · simp [logImpl, hx, Res.isPanic]
  · rcases hf a with ⟨x, hx⟩ | ⟨c, hx⟩
    · rcases hf b with ⟨y, hy⟩ | ⟨c', hy⟩
      · simp only [powImpl, arg0, arg1, Res.bind_ok, hx, hy]
        cases lib x y <;> rfl
      · simp [powImpl, hx, hy, Res.isPanic]
    · simp [powImpl, hx, Res.isPanic]

/-! ## Strings on grapheme clusters -/

/-- `strlen` is the number of grapheme clusters. -/
theorem strlen_is_cluster_count (clusters : String → List String) (s : String) :
    strlenImpl clusters [⟨.string, .s s⟩] = .ok (intVal ((clusters s).length : Nat)) := by
  simp [strlenImpl, asString, Value.isKnown, Payload.isKnown, Payload.unmark1, Value.isMarked, Payload.isMarked,
    Ty.isString, strlenClusters_eq]

/-- `reverse` is `List.reverse` on the cluster list (then re-normalised by StringVal). -/
theorem reverse_is_cluster_reverse (nfc : String → String) (clusters : String → List String) (s : String) :
    reverseImpl nfc clusters [⟨.string, .s s⟩] = .ok (stringVal nfc (String.join (clusters s).reverse)) := by
  simp [reverseImpl, asString, Value.isMarked, Payload.isMarked, Ty.isString, reverseLoop_eq]

/-- `substr` is take/drop on the cluster list: `take length ∘ drop offset`, a negative
offset counting from the end (clamped at the start), a negative length meaning
"to the end" — for every offset and length. -/
theorem substr_is_take_drop (cs : List String) (offset length : Int) :
    substrClusters cs offset length = substrSpec cs offset length :=
  substrClusters_eq cs offset length

/-- `substr` never splits a cluster: for EVERY offset and length the result is a
contiguous run of whole clusters of the input. -/
theorem substr_never_splits_a_cluster (cs : List String) (offset length : Int) :
    substrClusters cs offset length <:+: cs := by
  rw [substrClusters_eq]; exact substrSpec_infix cs offset length

/-- `substr` at the value level: offset and length are decoded as Go ints (anything
else is an error), and the result is the joined clusters, re-normalised. -/
theorem substr_value (nfc : String → String) (clusters : String → List String) (s : String) (ov lv : Value)
    (o l : Int) (ho : fromCtyInt ov = .ok o) (hl : fromCtyInt lv = .ok l) :
    substrImpl nfc clusters [⟨.string, .s s⟩, ov, lv] =
      .ok (stringVal nfc (String.join (substrClusters (clusters s) o l))) := by
  simp [substrImpl, asString, Value.isMarked, Payload.isMarked, Ty.isString, ho, hl]

/-! ## Library glue -/

/-- What each glue function does: which library call, with which argument order,
and `cty.StringVal` (NFC) / list construction around it. -/
theorem glue_eq (L : Lib) (a b c : String) :
    upperImpl L [sv a] = .ok (stringVal L.nfc (L.toUpper a)) ∧
    lowerImpl L [sv a] = .ok (stringVal L.nfc (L.toLower a)) ∧
    titleImpl L [sv a] = .ok (stringVal L.nfc (L.title a)) ∧
    trimSpaceImpl L [sv a] = .ok (stringVal L.nfc (L.trimSpace a)) ∧
    trimImpl L [sv a, sv b] = .ok (stringVal L.nfc (L.trim a b)) ∧
    trimPrefixImpl L [sv a, sv b] = .ok (stringVal L.nfc (L.trimPrefix a b)) ∧
    trimSuffixImpl L [sv a, sv b] = .ok (stringVal L.nfc (L.trimSuffix a b)) ∧
    replaceImpl L [sv a, sv b, sv c] = .ok (stringVal L.nfc (L.replaceAll a b c)) ∧
    splitImpl L [sv a, sv b] = .ok ⟨.list .string, .seq ((L.split b a).map fun s => .s (L.nfc s))⟩ ∧
    regexReplaceImpl L [sv a, sv b, sv c] =
      (match L.regexCompile b with
       | none => .err "regexp.Compile"
       | some _ => .ok (stringVal L.nfc (L.regexReplaceAll b a c))) ∧
    chompImpl L.nfc [sv a] = .ok (stringVal L.nfc (String.ofList (chompChars a.toList))) := by
  refine ⟨?_, ?_, ?_, ?_, ?_, ?_, ?_, ?_, ?_, ?_, ?_⟩ <;>
    simp [upperImpl, lowerImpl, titleImpl, trimSpaceImpl, trimImpl, trimPrefixImpl, trimSuffixImpl, replaceImpl,
      splitImpl, regexReplaceImpl, chompImpl]
  cases L.regexCompile b <;> rfl

/-- `join` concatenates the members of a list of known strings with the separator
(`strings.Join`), then re-normalises. -/
theorem join_spec (L : Lib) (sep : String) (xs : List String) :
    joinImpl L [sv sep, ⟨.list .string, .seq (xs.map Payload.s)⟩] = .ok (stringVal L.nfc (sep.intercalate xs)) := by
  simp [joinImpl, joinCollect, joinItems_strings, Value.whollyKnown, Payload.whollyKnown, whollyKnownL_strings,
    Value.isNull, Payload.isNull, Payload.unmark1, Res.map]

/-- … and a null member is the documented error. -/
theorem join_null_member (L : Lib) (sep : String) (xs ys : List String) :
    joinImpl L [sv sep, ⟨.list .string, .seq (xs.map Payload.s ++ Payload.null :: ys.map Payload.s)⟩] =
      .err "element is null; cannot concatenate null values" := by
  have hj : ∀ xs : List String, joinItems (xs.map Payload.s ++ Payload.null :: ys.map Payload.s) = none := by
    intro xs
    induction xs with
    | nil => rfl
    | cons x xs ih => simp [joinItems, ih]
  have hw : ∀ xs : List String, Payload.whollyKnownL (xs.map Payload.s ++ Payload.null :: ys.map Payload.s) = true := by
    intro xs
    induction xs with
    | nil => simp [Payload.whollyKnownL, Payload.whollyKnown, whollyKnownL_strings]
    | cons x xs ih => simp [Payload.whollyKnownL, Payload.whollyKnown, ih]
  simp [joinImpl, joinCollect, hj, Value.whollyKnown, Payload.whollyKnown, hw, Value.isNull, Payload.isNull,
    Payload.unmark1]

/-- `glue_total`: on known, unmarked, non-null string arguments (what `Function.Call` hands to
these `Impl`s: none of their parameters allows null, unknown or marked values) the cty layer of
these functions adds no panic, whatever the libraries answer.  The functions that index or slice
a library answer, or take other argument types, have their own totality theorems:
`regex_never_panics` and `csvdecode_never_panics` (under a probed law about the library),
`format_never_panics`, `formatlist_never_panics`, `indent_never_panics`, `substr_never_panics`.
`regexall` and `join`/`split` on non-string lists are covered by correspondence only. -/
theorem glue_total (L : Lib) (a b c : String) :
    (upperImpl L [sv a]).isPanic = false ∧ (lowerImpl L [sv a]).isPanic = false ∧
    (titleImpl L [sv a]).isPanic = false ∧ (trimSpaceImpl L [sv a]).isPanic = false ∧
    (trimImpl L [sv a, sv b]).isPanic = false ∧ (trimPrefixImpl L [sv a, sv b]).isPanic = false ∧
    (trimSuffixImpl L [sv a, sv b]).isPanic = false ∧ (replaceImpl L [sv a, sv b, sv c]).isPanic = false ∧
    (splitImpl L [sv a, sv b]).isPanic = false ∧ (regexReplaceImpl L [sv a, sv b, sv c]).isPanic = false ∧
    (chompImpl L.nfc [sv a]).isPanic = false ∧ (strlenImpl L.clusters [sv a]).isPanic = false ∧
    (reverseImpl L.nfc L.clusters [sv a]).isPanic = false ∧
    (formatDateImpl L [sv a, sv b]).isPanic = false ∧ (timeAddImpl L [sv a, sv b]).isPanic = false := by
  obtain ⟨h1, h2, h3, h4, h5, h6, h7, h8, h9, h10, h11⟩ := glue_eq L a b c
  refine ⟨by rw [h1]; rfl, by rw [h2]; rfl, by rw [h3]; rfl, by rw [h4]; rfl, by rw [h5]; rfl, by rw [h6]; rfl,
    by rw [h7]; rfl, by rw [h8]; rfl, by rw [h9]; rfl, ?_, by rw [h11]; rfl, ?_, ?_, ?_, ?_⟩
  · rw [h10]; split <;> rfl
  · rw [strlen_is_cluster_count]; rfl
  · rw [reverse_is_cluster_reverse]; rfl
  · simp only [formatDateImpl, arg0, arg1, Res.bind_ok, asString_sv]
    split
    · rfl
    · rename_i t _
      have h := formatTokens_no_panic t (tokenize (a.length + 1) a.toList) ""
      cases hx : formatTokens t (tokenize (a.length + 1) a.toList) "" with
      | ok s => rfl
      | err c => rfl
      | panic w => rw [hx] at h; simp [Res.isPanic] at h
      | unmodelled => rfl
  · simp only [timeAddImpl, arg0, arg1, Res.bind_ok, asString_sv]
    split
    · rfl
    · split <;> rfl

/-- `indent` rejects a negative number of spaces with an error (it does not reach
`strings.Repeat`, which would panic) … -/
theorem indent_negative_is_error (nfc : String → String) (spaces : Value) (s : String) (k : Int)
    (hk : fromCtyInt spaces = .ok k) (h0 : k < 0) :
    indentImpl nfc [spaces, sv s] = .err "the number of spaces must not be negative" := by
  simp [indentImpl, hk, h0]

/-- … so `glue_total` holds for `indent` too: no panic for any count, however large
(since /repo d4d90b0 the padding is not built when there is no line break, and a result
beyond `math.MaxInt32` bytes is refused before `strings.Repeat` is reached). -/
theorem indent_never_panics (nfc : String → String) (x : Num) (s : String) :
    (indentImpl nfc [numVal x, sv s]).isPanic = false := by
  rcases fromCtyInt_cases x with ⟨k, hk⟩ | ⟨c, hk⟩
  · simp only [indentImpl, arg0, arg1, Res.bind_ok, hk]
    split
    · rfl
    · simp only [asString_sv, Res.bind_ok]
      split
      · rfl
      · split <;> rfl
  · simp [indentImpl, hk, Res.isPanic]

/-- `indent` inserts exactly `k` spaces after every newline (`indentChars`) — for EVERY count
`k ≥ 0` for which the result (`len(s) + k · lines` bytes) is not longer than `math.MaxInt32`;
no cap of the model's own. -/
theorem indent_structure (nfc : String → String) (spaces : Value) (s : String) (k : Int)
    (hk : fromCtyInt spaces = .ok k) (h0 : 0 ≤ k)
    (hfit : s.utf8ByteSize + k.toNat * countNewlines s.toList ≤ 2147483647) :
    indentImpl nfc [spaces, sv s] = .ok (stringVal nfc (String.ofList (indentChars k.toNat s.toList))) := by
  have h1 : ¬ k < 0 := by omega
  simp only [indentImpl, arg0, arg1, Res.bind_ok, hk, h1, if_false, asString_sv]
  split
  · rename_i hl
    have hl' : countNewlines s.toList = 0 := by simpa using hl
    rw [indentChars_no_newline _ _ hl']
    simp [String.ofList_toList]
  · rename_i hl
    have hl' : 0 < countNewlines s.toList := by
      have : countNewlines s.toList ≠ 0 := by simpa using hl
      omega
    have h2 : ¬ k > Int.tdiv (goMaxInt32 - (s.utf8ByteSize : Int)) (countNewlines s.toList : Int) := by
      have hk' : k = (k.toNat : Int) := by omega
      have hnn : (0 : Int) ≤ goMaxInt32 - (s.utf8ByteSize : Int) := by simp only [goMaxInt32]; omega
      rw [Int.tdiv_eq_ediv_of_nonneg hnn]
      have : (k.toNat : Int) * (countNewlines s.toList : Int) ≤ goMaxInt32 - (s.utf8ByteSize : Int) := by
        have : ((k.toNat * countNewlines s.toList : Nat) : Int) ≤ 2147483647 - (s.utf8ByteSize : Int) := by omega
        simpa [goMaxInt32] using this
      have := Int.le_ediv_of_mul_le (by omega : (0 : Int) < (countNewlines s.toList : Int)) this
      omega
    simp [h2]

/-- … a result that would be longer is refused with an error (not attempted) … -/
theorem indent_too_long_is_error (nfc : String → String) (spaces : Value) (s : String) (k : Int)
    (hk : fromCtyInt spaces = .ok k) (h0 : 0 ≤ k) (hl : 0 < countNewlines s.toList)
    (hsz : s.utf8ByteSize ≤ 2147483647)
    (hbig : s.utf8ByteSize + k.toNat * countNewlines s.toList > 2147483647) :
    indentImpl nfc [spaces, sv s] =
      .err "the number of spaces is too large: the resulting string would be too long" := by
  have h1 : ¬ k < 0 := by omega
  have hl' : (countNewlines s.toList == 0) = false := by simp; omega
  have h2 : k > Int.tdiv (goMaxInt32 - (s.utf8ByteSize : Int)) (countNewlines s.toList : Int) := by
    have hnn : (0 : Int) ≤ goMaxInt32 - (s.utf8ByteSize : Int) := by simp only [goMaxInt32]; omega
    rw [Int.tdiv_eq_ediv_of_nonneg hnn]
    have hk' : k = (k.toNat : Int) := by omega
    have hlt : goMaxInt32 - (s.utf8ByteSize : Int) < (k.toNat : Int) * (countNewlines s.toList : Int) := by
      have : (2147483647 : Int) - (s.utf8ByteSize : Int) < ((k.toNat * countNewlines s.toList : Nat) : Int) := by omega
      simpa [goMaxInt32] using this
    have := Int.ediv_lt_of_lt_mul (by omega : (0 : Int) < (countNewlines s.toList : Int)) hlt
    omega
  have hl2 : ¬ countNewlines s.toList = 0 := by omega
  simp [indentImpl, hk, h1, hl2, h2]

/-- … and a string without a line break comes back unchanged for ANY count ≥ 0 (2^62 included). -/
theorem indent_no_line_break (nfc : String → String) (spaces : Value) (s : String) (k : Int)
    (hk : fromCtyInt spaces = .ok k) (h0 : 0 ≤ k) (hl : countNewlines s.toList = 0) :
    indentImpl nfc [spaces, sv s] = .ok (stringVal nfc s) := by
  have h1 : ¬ k < 0 := by omega
  simp [indentImpl, hk, h1, hl]

/-- "changes nothing else": deleting the `k` characters after every newline of the indented
text gives the original back, and the text grew by exactly `k` per line break. -/
theorem indent_changes_nothing_else (k : Nat) (cs : List Char) :
    unindentChars k (indentChars k cs) = cs ∧ (indentChars k cs).length = cs.length + k * countNewlines cs :=
  ⟨unindent_indent k cs, indentChars_length k cs⟩

/-- Result types: the regex family returns a string, a tuple of strings or an object
of strings according to the capture groups of the pattern; mixing named and
unnamed groups is an error. -/
theorem regex_result_type (names : List String) (t : Ty) (h : regexResultType names = .ok t) :
    t = .string ∨ (∃ k, t = .tuple (List.replicate k .string)) ∨
    (∃ ns, t = .object ns (ns.map fun _ => .string) (ns.map fun _ => false)) := by
  unfold regexResultType at h
  simp only [] at h
  split at h
  · cases h; left; rfl
  · split at h
    · cases h
    · split at h
      · cases h; right; left; exact ⟨_, rfl⟩
      · cases h; right; right; exact ⟨_, rfl⟩

/-- `csvdecode` fails on a missing header line, an unreadable header and on a
duplicate column name, and otherwise returns a list of objects whose attributes
are the (normalised, sorted) header names, all of type string. -/
theorem csvdecode_result_type (L : Lib) (s : String) (v : Value) (h : csvDecodeImpl L [sv s] = .ok v) :
    ∃ headers, L.csvHeader s = some (some headers) ∧ hasDup headers = false ∧
      v.ty = .list (.object (Gocty.sortNames (headers.map L.nfc))
        ((Gocty.sortNames (headers.map L.nfc)).map fun _ => .string)
        ((Gocty.sortNames (headers.map L.nfc)).map fun _ => false)) := by
  simp only [csvDecodeImpl, arg0, Res.bind_ok, asString_sv] at h
  split at h
  · cases h
  · cases h
  · rename_i headers hh
    refine ⟨headers, hh, ?_⟩
    split at h
    · cases h
    · rename_i hd
      refine ⟨by simpa using hd, ?_⟩
      split at h
      · cases h
      · split at h
        · cases h
        · cases hx : csvRows L (Gocty.sortNames (headers.map L.nfc)) _ _ with
          | ok ps => rw [hx] at h; cases h; rfl
          | err c => rw [hx] at h; cases h
          | panic w => rw [hx] at h; cases h
          | unmodelled => rw [hx] at h; cases h

/-- `glue_total` for `csvdecode`: `headers[i]` is never out of range, given what csv.Reader
promises — with `FieldsPerRecord = n` every delivered record has `n` fields (probed on the real
library on every run: `csv-fields-per-record`). -/
theorem csvdecode_never_panics (L : Lib) (s : String)
    (hlaw : ∀ n, ∀ r ∈ (L.csvAll s n).records, r.length = n) :
    (csvDecodeImpl L [sv s]).isPanic = false :=
  csvDecodeImpl_no_panic L s hlaw

/-- `glue_total` for `substr`: no panic for any string and any two numbers (fractions and
numbers outside `int` are errors of the argument conversion). -/
theorem substr_never_panics (nfc : String → String) (clusters : String → List String) (s : String) (x y : Num) :
    (substrImpl nfc clusters [sv s, numVal x, numVal y]).isPanic = false :=
  substrImpl_no_panic nfc clusters s x y

/-! ## format: verb scanner, argument bookkeeping, width / precision on clusters -/

/-- Width is measured in grapheme clusters: a field at least as wide as the width is
left alone, a narrower one is padded to exactly the missing number of clusters —
on the left, or on the right with the `-` flag; with zeros when the `0` flag is set and the
`-` flag is not (zeros are never appended: `%-05v` of 42 is `42   `, as in Go's fmt; the code as found
wrote `42000` — found here, repaired in /repo). -/
theorem format_width_on_clusters (clusters : String → List String) (v : Verb) (s : String) (h : v.hasWidth = true) :
    ((clusters s).length ≥ v.width → padWidth clusters v s = s) ∧
    ((clusters s).length < v.width →
      padWidth clusters v s =
        (let pads := String.ofList (List.replicate (v.width - (clusters s).length) (if v.zero && !v.minus then '0' else ' '))
         if v.minus then s ++ pads else pads ++ s)) :=
  ⟨padWidth_wide clusters v s h, padWidth_pads clusters v s h⟩

/-- For strings, precision limits the input to that many whole clusters — for every
precision, zero included (`%.0s` prints nothing). -/
theorem format_string_precision (clusters : String → List String) (v : Verb) (s : String) (h : v.hasPrec = true) :
    precCut clusters v s = String.join ((clusters s).take v.prec) :=
  precCut_has clusters v s h

/-- A verb that asks for an argument beyond the ones given is an error. -/
theorem format_not_enough_arguments (L : Lib) (v : Verb) (args : List Value) (h : args.length < v.argNum) :
    formatAppend L v args = .err "not enough arguments" :=
  formatAppend_missing L v args h

/-- The documented verb grammar: flags, width, precision, `[n]`, letter — examples of
what the scanner accepts and rejects (the argument number defaults to the next one,
`[n]` overrides it). -/
theorem format_scanner_examples :
    (scanVerb ['-', '5', '.', '2', '[', '3', ']', 'd', '!'] 7 1).map
      (fun r => (r.1.argNum, r.1.hasWidth, r.1.width, r.1.hasPrec, r.1.prec, r.1.minus, r.1.mode, r.2)) =
      some (3, true, 5, true, 2, true, 'd', ['!']) ∧
    (scanVerb ['s'] 0 4).map (fun r => (r.1.argNum, r.1.hasWidth, r.1.hasPrec, r.1.mode)) = some (4, false, false, 's') ∧
    (scanVerb ['0', '8', '.', 'f'] 0 1).map (fun r => (r.1.zero, r.1.width, r.1.hasPrec, r.1.prec)) = some (true, 8, true, 0) ∧
    scanVerb ['5'] 0 1 = none ∧ scanVerb ['[', '0', ']', 'd'] 0 1 = none ∧ scanVerb ['.', '2'] 0 1 = none ∧
    scanVerb ['[', '1', 'd'] 0 1 = none ∧ scanVerb ['$'] 0 1 = none :=
  ⟨rfl, rfl, rfl, rfl, rfl, rfl, rfl, rfl⟩

/-- **The scanner is the documented grammar** `'%' flags* width? ('.' digit*)? ('[' num ']')? letter`
(`num = [1-9][0-9]*`, flags `0 # - + space`): `scanVerb` accepts `cs`, leaving `rest`, IFF `cs`
is the spelling of a sentence `g` of that grammar followed by `rest`; the verb it returns is
the one `g` denotes.  (Everything else — an unknown character, a premature end, `[0]`,
a width with a leading zero that is not a flag — is "invalid format string".) -/
theorem format_scanner_is_the_grammar (cs : List Char) (offset nextArg : Nat) (v : Verb) (rest : List Char) :
    scanVerb cs offset nextArg = some (v, rest) ↔
      ∃ g : VerbSyn, g.wf = true ∧ cs = g.text ++ rest ∧ v = g.verb offset nextArg :=
  scanVerb_iff cs offset nextArg v rest

/-- … with the parsed fields equal to the denoted numbers: width / precision / `[n]` are the
saturating decimal values of their digit strings, an absent `[n]` means "the next argument",
`.` without digits is precision 0, the raw text is the sentence itself … -/
theorem format_parsed_fields (g : VerbSyn) (offset nextArg : Nat) :
    (g.verb offset nextArg).hasWidth = g.width.isSome ∧
    (g.verb offset nextArg).width = (g.width.map satNum).getD 0 ∧
    (g.verb offset nextArg).hasPrec = g.prec.isSome ∧
    (g.verb offset nextArg).prec = (g.prec.map satNum).getD 0 ∧
    (g.verb offset nextArg).argNum = (g.idx.map satNum).getD nextArg ∧
    (g.verb offset nextArg).mode = g.mode ∧
    (g.verb offset nextArg).offset = offset ∧
    (g.verb offset nextArg).raw = '%' :: g.text :=
  verb_fields g offset nextArg

/-- … and each flag set iff its character occurs among the flags. -/
theorem format_parsed_flags (g : VerbSyn) (hg : g.wf = true) (offset nextArg : Nat) :
    (g.verb offset nextArg).zero = g.flags.contains '0' ∧ (g.verb offset nextArg).sharp = g.flags.contains '#' ∧
    (g.verb offset nextArg).minus = g.flags.contains '-' ∧ (g.verb offset nextArg).plus = g.flags.contains '+' ∧
    (g.verb offset nextArg).space = g.flags.contains ' ' :=
  verb_flags g hg offset nextArg

/-- The numbers of a verb never wrap around (`formatArgNumAppendDigit`, /repo 721dbdb 84cbc5e):
a digit string denotes its decimal value below 9223372036854775800 and the largest `int`
from there on. -/
theorem format_numbers_saturate (ds : List Char) (hd : ∀ c ∈ ds, isDigit c = true) :
    satNum ds = if decVal ds < 9223372036854775800 then decVal ds else 9223372036854775807 :=
  satNum_eq ds hd

/-- **An explicit argument number beyond the arguments given is an error, whatever its
size** (the defect repaired by /repo 721dbdb: `%[18446744073709551617]d` used to wrap
around to argument 1): at a verb `%…[i]…` whose index denotes more than `len(args)`, the
whole call ends with "not enough arguments".  `args.length < maxInt` holds of every Go slice. -/
theorem format_explicit_index_beyond_count_is_error (L : Lib) (args : List Value) (fuel : Nat) (g : VerbSyn)
    (hg : g.wf = true) (i : List Char) (hi : g.idx = some i) (hlen : args.length < 9223372036854775807)
    (hb : args.length < decVal i) (rest : List Char) (offset nextArg highest : Nat) (buf : String) :
    fsmLoop L args (fuel + 1) ('%' :: (g.text ++ rest)) offset nextArg highest buf = .err "not enough arguments" := by
  rw [fsmLoop_verb L args fuel g hg rest, formatAppend_index_beyond L g hg offset nextArg i hi args hlen hb]

/-- The same for a verb without `[n]` when the running argument number is beyond the arguments. -/
theorem format_not_enough_arguments_implicit (L : Lib) (args : List Value) (fuel : Nat) (g : VerbSyn)
    (hg : g.wf = true) (hi : g.idx = none) (rest : List Char) (offset nextArg highest : Nat) (buf : String)
    (hb : args.length < nextArg) :
    fsmLoop L args (fuel + 1) ('%' :: (g.text ++ rest)) offset nextArg highest buf = .err "not enough arguments" := by
  rw [fsmLoop_verb L args fuel g hg rest, formatAppend_missing]
  rw [(verb_fields g offset nextArg).2.2.2.2.1, hi]
  simpa using hb

/-- **Width and precision beyond 1000000 are an error, whatever their size** (/repo 84cbc5e;
before it `%18446744073709551617d` wrapped around to width 1 and `%9999999999d` ran out of
memory): when the verb's argument exists, a width whose digits denote more than 1000000 ends
the call with an error, and so does such a precision. -/
theorem format_width_precision_limit (L : Lib) (args : List Value) (g : VerbSyn) (hg : g.wf = true)
    (offset nextArg : Nat) (a : Value) (h0 : (g.verb offset nextArg).argNum ≠ 0)
    (ha : args[(g.verb offset nextArg).argNum - 1]? = some a) :
    (∀ w, g.width = some w → 1000000 < decVal w →
      formatAppend L (g.verb offset nextArg) args = .err "unsupported width") ∧
    (∀ p, g.width = none → g.prec = some p → 1000000 < decVal p →
      formatAppend L (g.verb offset nextArg) args = .err "unsupported precision") := by
  simp only [VerbSyn.wf, Bool.and_eq_true] at hg
  constructor
  · intro w hw hbig
    have hwf : wfNumOpt g.width = true := hg.1.1.1.2
    rw [hw] at hwf
    refine formatAppend_width_limit L _ args a h0 ha ?_ ?_
    · rw [(verb_fields g offset nextArg).1, hw]; rfl
    · rw [(verb_fields g offset nextArg).2.1, hw]
      have := satNum_ge w (isNum_digits hwf) 1000001 hbig (by decide)
      simp only [Option.map_some, Option.getD_some, formatMaxWidthPrec]; omega
  · intro p hw hp hbig
    have hpf : wfDigitsOpt g.prec = true := hg.1.1.2
    rw [hp] at hpf
    have hpd : ∀ d ∈ p, isDigit d = true := by simpa [wfDigitsOpt, List.all_eq_true] using hpf
    refine formatAppend_prec_limit L _ args a h0 ha ?_ ?_ ?_
    · left; rw [(verb_fields g offset nextArg).1, hw]; rfl
    · rw [(verb_fields g offset nextArg).2.2.1, hp]; rfl
    · rw [(verb_fields g offset nextArg).2.2.2.1, hp]
      have := satNum_ge p hpd 1000001 hbig (by decide)
      simp only [Option.map_some, Option.getD_some, formatMaxWidthPrec]; omega

/-- **Per-verb dispatch, numeric verbs**: what `format` asks Go's fmt. `%b %d %o %x %X` on a
whole number: `fmt.Sprintf(<the verb without its [n]>, *big.Int)`; on a fraction: the "an integer
is required" error. `%e %E %f %g %G`: `fmt.Sprintf(<the verb without its [n]>, *big.Float)`.
(That fmt itself is right is outside any proof: it is the reference of the property.) -/
theorem format_numeric_dispatch (L : Lib) (v : Verb) (args : List Value) (x : Num) (h0 : v.argNum ≠ 0)
    (ha : args[v.argNum - 1]? = some (numVal x))
    (hw : (v.hasWidth && decide (v.width > formatMaxWidthPrec)) = false)
    (hp : (v.hasPrec && decide (v.prec > formatMaxWidthPrec)) = false) :
    ((v.mode = 'b' ∨ v.mode = 'd' ∨ v.mode = 'o' ∨ v.mode = 'x' ∨ v.mode = 'X') →
      (∀ i, (x.isInt || x.isZero) = true → x.truncInt = some i →
        formatAppend L v args = .ok (L.fmtInt (String.ofList (stripIndex v.raw)) i)) ∧
      ((x.isInt || x.isZero) = false → formatAppend L v args = .err "an integer is required")) ∧
    ((v.mode = 'e' ∨ v.mode = 'E' ∨ v.mode = 'f' ∨ v.mode = 'g' ∨ v.mode = 'G') →
      formatAppend L v args = .ok (L.fmtFloat (String.ofList (stripIndex v.raw)) x)) :=
  ⟨fun hm => formatAppend_integer L v args x h0 ha hw hp hm, fun hm => formatAppend_float L v args x h0 ha hw hp hm⟩

/-- … where "the verb without its `[n]`" is exact: `formatStripIndexSegment` of a scanned verb is
the same sentence (`%`, flags, width, precision, letter) with the index segment removed, and
the sentence itself when it has none. -/
theorem format_strip_index_segment (g : VerbSyn) (hg : g.wf = true) (offset nextArg : Nat) :
    stripIndex (g.verb offset nextArg).raw = g.head ++ [g.mode] :=
  stripIndex_verb g hg offset nextArg

/-- **Per-verb dispatch, string verbs**: `%s` cuts the string to the precision and pads it to the
width, both counted in grapheme clusters; `%q` JSON-quotes the cut, re-normalised string and
then pads. -/
theorem format_string_dispatch (L : Lib) (v : Verb) (args : List Value) (s : String) (h0 : v.argNum ≠ 0)
    (ha : args[v.argNum - 1]? = some (sv s))
    (hw : (v.hasWidth && decide (v.width > formatMaxWidthPrec)) = false)
    (hp : (v.hasPrec && decide (v.prec > formatMaxWidthPrec)) = false) :
    (v.mode = 's' → formatAppend L v args = .ok (padWidth L.clusters v (precCut L.clusters v s))) ∧
    (v.mode = 'q' → formatAppend L v args =
      .ok (padWidth L.clusters v (L.jsonStr (L.nfc (precCut L.clusters v s))))) :=
  formatAppend_string L v args s h0 ha hw hp

/-- **Argument bookkeeping.** At `%` + a sentence of the grammar the verb is rendered at once;
its error ends the call (so an error of an earlier verb wins over a syntax error further
right); otherwise the next implicit argument number becomes the verb's own number + 1 — `[n]`
overrides the running number and "subsequent verbs without an explicit index proceed with
n+1" — and the highest number used is remembered for the final "too many arguments" test. -/
theorem format_argument_bookkeeping (L : Lib) (args : List Value) (fuel : Nat) (g : VerbSyn) (hg : g.wf = true)
    (rest : List Char) (offset nextArg highest : Nat) (buf : String) :
    fsmLoop L args (fuel + 1) ('%' :: (g.text ++ rest)) offset nextArg highest buf =
      (match formatAppend L (g.verb offset nextArg) args with
       | .ok s => fsmLoop L args fuel rest (offset + (g.text.length + 1)) ((g.verb offset nextArg).argNum + 1)
           (max highest (g.verb offset nextArg).argNum) (buf ++ s)
       | .err e => .err e
       | .panic w => .panic w
       | .unmodelled => .unmodelled) :=
  fsmLoop_verb L args fuel g hg rest offset nextArg highest buf

/-- Literal characters are copied, `%%` is a percent sign that consumes no argument, and at the
end arguments beyond the highest number used are the "too many arguments" error. -/
theorem format_literals_and_end (L : Lib) (args : List Value) (fuel : Nat) (rest : List Char)
    (offset nextArg highest : Nat) (buf : String) :
    (∀ c, c ≠ '%' → fsmLoop L args (fuel + 1) (c :: rest) offset nextArg highest buf =
      fsmLoop L args fuel rest (offset + c.utf8Size) nextArg highest (buf.push c)) ∧
    fsmLoop L args (fuel + 1) ('%' :: '%' :: rest) offset nextArg highest buf =
      fsmLoop L args fuel rest (offset + 2) nextArg highest (buf.push '%') ∧
    fsmLoop L args (fuel + 1) [] offset nextArg highest buf =
      (if highest < args.length then .err "too many arguments" else .ok buf) :=
  ⟨fun c hc => fsmLoop_literal L args fuel c hc rest offset nextArg highest buf,
   fsmLoop_percent L args fuel rest offset nextArg highest buf, fsmLoop_end L args fuel offset nextArg highest buf⟩

/-- The fuel of the model's loop never runs out (it is only there to make the recursion
structural): any two fuels above the length of the format string give the same result, so
`.unmodelled` is never returned for lack of fuel. -/
theorem format_fuel_is_immaterial (L : Lib) (args : List Value) (fuel fuel' : Nat) (cs : List Char)
    (offset nextArg highest : Nat) (buf : String) (h : cs.length < fuel) (h' : cs.length < fuel') :
    fsmLoop L args fuel cs offset nextArg highest buf = fsmLoop L args fuel' cs offset nextArg highest buf :=
  fsmLoop_fuel L args fuel fuel' cs offset nextArg highest buf h h'

/-- `format` never panics — for ANY format string and ANY arguments: the `args[argIdx]` of
`formatAppend` is never reached with index −1 (scanned argument numbers are ≥ 1) and an index
beyond the arguments is caught first. -/
theorem format_never_panics (L : Lib) (f : String) (args : List Value) :
    (formatImpl L (sv f :: args)).isPanic = false := by
  simp only [formatImpl, arg0, Res.bind_ok, List.drop_succ_cons, List.drop_zero]
  split
  · rfl
  · simp only [asString_sv, Res.bind_ok]
    have h := fsmLoop_no_panic L args (f.length + 1) f.toList 0 1 0 "" (Nat.le_refl 1)
    cases hx : fsmLoop L args (f.length + 1) f.toList 0 1 0 "" with
    | ok s => rfl
    | err c => rfl
    | panic w => rw [hx] at h; simp [Res.isPanic] at h
    | unmodelled => rfl

/-! ## jsonencode / jsondecode (on top of C15) -/

/-- `jsonencode` on a wholly known value IS C15's `Marshal(val, val.Type())` (null → `null`), and
`jsondecode` IS C15's implied type + `Unmarshal` with it (`simpleUnmarshal`): every C15 theorem
about those functions is a theorem about the two stdlib functions. -/
theorem json_functions_are_the_codec (env : JsonVal.JEnv) (v : Value) (d : Json) :
    (v.isNull = false → jsonEncodeTree env v = JsonVal.marshal env v v.ty) ∧
    (v.isNull = true → jsonEncodeTree env v = .ok .null) ∧
    jsonDecodeTree env d = JsonVal.simpleUnmarshal env d := by
  refine ⟨fun h => by simp [jsonEncodeTree, h], fun h => by simp [jsonEncodeTree, h], rfl⟩

/-- **Encoding inverts decoding**: for every document with distinct ascending key normal forms
and representable numbers, `jsondecode` returns a value of the document's structural type and
`jsonencode` of it gives the document back (up to key / string normal form and number spelling). -/
theorem jsonencode_inverts_jsondecode (env : JsonVal.JEnv) (d : Json) (h : JsonVal.docOK env d = true) :
    ∃ v, jsonDecodeTree env d = .ok v ∧ v.ty = JsonVal.structTy env.norm d ∧
      (v.isNull = false → ∃ d', jsonEncodeTree env v = .ok d' ∧ JsonVal.jsonNormEq env.norm d' d = true) :=
  StdNum.jsonencode_inverts_jsondecode env d h

/-- THE FULL STATEMENT "decoding is the inverse of encoding" through the two stdlib functions:
`jsondecode(jsonencode(v))` has `v`'s type.  FALSE — and documented to be ("applying JSONDecode to
the result of JSONEncode may not produce an identically-typed result", json.go): `jsondecode`
works with the IMPLIED type, so a list comes back as a tuple and a map as an object.  Not a
finding. -/
def jsondecode_inverts_jsonencode : Prop :=
  ∀ (env : JsonVal.JEnv) (v : Value), JsonVal.rtHyps env v v.ty = true → JsonVal.setFree v.ty = true →
    jsonRoundTripTyped env v = true

theorem jsondecode_inverts_jsonencode_counterexample : ¬ jsondecode_inverts_jsonencode := fun h =>
  absurd (h C15.env0 ⟨.list .string, .seq [.s "a"]⟩ (by decide +kernel) (by decide)) (by decide +kernel)

/-- The strongest version that holds: decoding WITH THE VALUE'S OWN TYPE (`json.Unmarshal(buf,
v.Type())`, what a caller who knows the type does) inverts `jsonencode` for every set-free wholly
known value, nulls and empty collections at any depth included (C15.mirror). -/
theorem jsondecode_inverts_jsonencode_partial (env : JsonVal.JEnv) (v : Value)
    (h : JsonVal.rtHyps env v v.ty = true) (hs : JsonVal.setFree v.ty = true) (hn : v.isNull = false) :
    ∃ j v', jsonEncodeTree env v = .ok j ∧ JsonVal.unmarshalTop env j v.ty = .ok v' ∧ v'.ty = v.ty ∧
      JsonVal.sameP v'.v v.v = true :=
  unmarshal_own_type_inverts_jsonencode env v h hs hn

/-! ## regex -/

/-- **`regex` never panics** although it SLICES the subject by the index lists of the regexp
package (`str[idx[2i]:idx[2i+1]]`) and INDEXES those lists: under the shape regexp documents for
`FindStringSubmatchIndex` (`IdxOK`: one pair per group incl. the whole match; every pair
(−1, −1) or 0 ≤ a ≤ b ≤ len(str); the whole match present) — probed on the real library on every
run (`regexp-submatch-index-shape`) — no slice and no index expression of `regexPatternResult`
is out of range, for every pattern and subject. -/
theorem regex_never_panics (L : Lib) (pat str : String)
    (hk : ∀ names idxs, L.regexCompile pat = some names → L.regexFind pat str = some idxs →
      IdxOK str.utf8ByteSize names.length idxs) :
    (regexImpl L [sv pat, sv str]).isPanic = false :=
  regexImpl_no_panic L pat str hk

/-- Values of `regex`: without capture groups the result is the matched part of the subject
(`str[idx[0]:idx[1]]`, re-normalised); an invalid pattern and "no match" are the documented errors. -/
theorem regex_value_and_errors (L : Lib) (pat str : String) :
    (∀ idxs a b m, L.regexCompile pat = some [] → L.regexFind pat str = some idxs → idxs[0]? = some a →
      idxs[1]? = some b → sliceBytes str a b = .ok m → regexImpl L [sv pat, sv str] = .ok (stringVal L.nfc m)) ∧
    (L.regexCompile pat = none → regexImpl L [sv pat, sv str] = .err "invalid regexp pattern") ∧
    (∀ names t, L.regexCompile pat = some names → regexResultType names = .ok t → L.regexFind pat str = none →
      regexImpl L [sv pat, sv str] = .err "pattern did not match any part of the given string") :=
  ⟨fun idxs a b m hc hf ha hb hs => regexImpl_whole_match L pat str idxs a b m hc hf ha hb hs,
   (regexImpl_errors L pat str).1, (regexImpl_errors L pat str).2⟩

/-! ## formatdate -/

/-- The tokenizer of `formatdate` (`splitDateFormat`) loses nothing: the tokens, concatenated,
are the format string (the fuel the model passes always suffices) … -/
theorem formatdate_tokenizer_loses_nothing (format : String) :
    (tokenize (format.length + 1) format.toList).flatten = format.toList :=
  tokenize_flatten _ _ (by rw [String.length_toList]; omega)

/-- … and every token is a quoted literal (starts with `'`), a run of ONE letter (a verb), or
literal text holding neither a letter nor a quote after its first character. -/
theorem formatdate_token_kinds (c : Char) (rest : List Char) :
    (c = '\'') ∨
    (isVerbStart c = true ∧ ∃ k, (nextToken (c :: rest)).1 = List.replicate (k + 1) c) ∨
    (∀ d ∈ (nextToken (c :: rest)).1.drop 1, (d == '\'' || isVerbStart d) = false) :=
  nextToken_kind c rest

/-- **12-hour clock** (a seeded change made noon "AM"): for every hour 0…23, `H`/`HH` show
the clock-face hour — 12 at midnight and at noon, `hour mod 12` otherwise — and `AA`/`aa` say
AM exactly before noon and PM from 12:00 on. -/
theorem formatdate_clock12 (t : Time) (h24 : t.hour < 24) :
    verbText t 'H' 1 = .ok (toString (hour12 t.hour)) ∧ verbText t 'H' 2 = .ok (pad2 (hour12 t.hour)) ∧
    verbText t 'A' 2 = .ok (if t.hour < 12 then "AM" else "PM") ∧
    verbText t 'a' 2 = .ok (if t.hour < 12 then "am" else "pm") ∧
    1 ≤ hour12 t.hour ∧ hour12 t.hour ≤ 12 ∧ hour12 t.hour % 12 = t.hour % 12 := by
  obtain ⟨h1, h2, h3, h4⟩ := clock12 t h24
  exact ⟨h1, h2, h3, h4, hour12_range t.hour⟩

/-- **Zone offsets with minutes** (a seeded change lost the sign of the minutes of a negative
offset): `ZZZZ` / `ZZZZZ` render an offset of ±(h hours, m minutes) as sign, two-digit hours,
(colon,) two-digit minutes — `-03:30` stays `-03:30`. -/
theorem formatdate_zone_offsets (neg : Bool) (h m : Nat) (hm : m < 60)
    (hnz : neg = true → 0 < h * 3600 + m * 60) (colon : Bool) :
    zoneNum (if neg then -((h * 3600 + m * 60 : Nat) : Int) else ((h * 3600 + m * 60 : Nat) : Int)) colon =
      (if neg then "-" else "+") ++ pad2 h ++ (if colon then ":" else "") ++ pad2 m :=
  zoneNum_spec neg h m hm hnz colon

/-- The verbs render the field they name (on the parsed timestamp the `time` package
delivered), two-digit fields being exactly two decimal digits. -/
theorem formatdate_verbs (t : Time) :
    (verbText t 'Y' 4 = .ok (pad4 t.year) ∧ verbText t 'Y' 2 = .ok (pad2 (t.year % 100)) ∧
     verbText t 'M' 2 = .ok (pad2 t.month) ∧ verbText t 'M' 1 = .ok (toString t.month) ∧
     verbText t 'M' 4 = .ok (monthName t.month) ∧
     verbText t 'D' 2 = .ok (pad2 t.day) ∧ verbText t 'D' 1 = .ok (toString t.day) ∧
     verbText t 'E' 4 = .ok (dayName t.weekday) ∧
     verbText t 'h' 2 = .ok (pad2 t.hour) ∧ verbText t 'h' 1 = .ok (toString t.hour) ∧
     verbText t 'm' 2 = .ok (pad2 t.minute) ∧ verbText t 'm' 1 = .ok (toString t.minute) ∧
     verbText t 's' 2 = .ok (pad2 t.second) ∧ verbText t 's' 1 = .ok (toString t.second) ∧
     verbText t 'Z' 4 = .ok (zoneNum t.offset false) ∧ verbText t 'Z' 5 = .ok (zoneNum t.offset true) ∧
     verbText t 'Z' 1 = .ok (if t.offset == 0 then "Z" else zoneNum t.offset true)) ∧
    (∀ n, n < 100 → (pad2 n).toList = [Nat.digitChar (n / 10), Nat.digitChar (n % 10)]) :=
  ⟨verb_table t, pad2_spec⟩

/-- A letter that is no verb is an error, and so is a verb repeated an unsupported number of
times — `formatdate` fails on a bad token, it does not skip it. -/
theorem formatdate_bad_verbs (t : Time) :
    (∀ c n, (c ≠ 'Y' ∧ c ≠ 'M' ∧ c ≠ 'D' ∧ c ≠ 'E' ∧ c ≠ 'h' ∧ c ≠ 'H' ∧ c ≠ 'A' ∧ c ≠ 'a' ∧ c ≠ 'm' ∧ c ≠ 's' ∧
        c ≠ 'Z') → verbText t c n = .err "invalid date format verb") ∧
    (verbText t 'Y' 3 = .err "year" ∧ verbText t 'Y' 1 = .err "year" ∧ verbText t 'M' 5 = .err "month" ∧
     verbText t 'D' 3 = .err "day" ∧ verbText t 'E' 2 = .err "weekday" ∧ verbText t 'h' 3 = .err "hour" ∧
     verbText t 'H' 3 = .err "hour" ∧ verbText t 'A' 1 = .err "AA" ∧ verbText t 'a' 3 = .err "aa" ∧
     verbText t 'm' 3 = .err "minute" ∧ verbText t 's' 3 = .err "second" ∧ verbText t 'Z' 2 = .err "timezone") :=
  ⟨fun c n h => verbText_unknown t c n h, verb_bad_counts t⟩

/-- A timestamp the strict RFC 3339 parser refuses is an error of `formatdate` and of `timeadd`. -/
theorem date_bad_timestamp (L : Lib) (a b : String) (h : L.parseTimestamp b = none) :
    formatDateImpl L [sv a, sv b] = .err "not a valid RFC3339 timestamp" ∧
    timeAddImpl L [sv b, sv a] = .err "not a valid RFC3339 timestamp" := by
  simp [formatDateImpl, timeAddImpl, h]

/-! ## formatlist -/

/-- the arguments the model of `formatlist` speaks about: wholly known, unmarked, sets only of
primitives (their iteration order is `setRules.Less`) -/
def FlKnown (rest : List Value) : Prop :=
  (rest.any fun a => !a.whollyKnown || a.containsMarked || !flSetOK a) = false

/-- `format` on wholly known arguments is `formatFSM` on the format string + `cty.StringVal` … -/
theorem format_is_formatFSM_on_known (L : Lib) (f : String) (row : List Value)
    (hk : ∀ a ∈ row, a.whollyKnown = true) :
    formatImpl L (sv f :: row) =
      (match rowRes L f row with
       | .ok s => .ok (stringVal L.nfc s)
       | .err e => .err e
       | .panic w => .panic w
       | .unmodelled => .unmodelled) :=
  formatImpl_known L f row hk

/-- … and **`formatlist` is the element-wise `format`**: with `n` the common length of the
iterated arguments (non-null lists, sets, tuples; `n = 1` when there is none), the result is
the list of `formatFSM(f, row i)` for `i = 0 … n−1`, where row `i` holds the i-th member of
every iterated argument and every other argument itself; the first row that fails ends the
call with an error. -/
theorem formatlist_is_pointwise_format (L : Lib) (f : String) (rest : List Value) (it : Option Nat)
    (hk : FlKnown rest) (hne : rest ≠ []) (hl : flLen rest none = .ok it) (h0 : it ≠ some 0) :
    formatListImpl L (sv f :: rest) =
      (match collectRows L ((List.range (it.getD 1)).map fun i => rowRes L f (flArgsAt rest i)) with
       | .ok ps => .ok ⟨.list .string, .seq ps⟩
       | .err e => .err e
       | .panic w => .panic w
       | .unmodelled => .unmodelled) := by
  have hlen : (rest.length == 0) = false := by
    cases rest with
    | nil => exact absurd rfl hne
    | cons a t => rfl
  have h0' : (it == some 0) = false := by simpa using h0
  unfold FlKnown at hk
  simp only [formatListImpl, arg0, Res.bind_ok, List.drop_succ_cons, List.drop_zero, hk, hlen, Bool.false_eq_true,
    if_false, asString_sv, hl, h0', flIter_eq]
  cases collectRows L ((List.range (it.getD 1)).map fun i => rowRes L f (flArgsAt rest i)) <;> rfl

/-- **The length rule**: two iterated arguments of different lengths are the documented error … -/
theorem formatlist_inconsistent_lengths_is_error (L : Lib) (f : String) (rest : List Value) (hk : FlKnown rest)
    (a b : Value) (ha : a ∈ rest) (hb : b ∈ rest) (x y : List Value) (hx : flSeq a = some x) (hy : flSeq b = some y)
    (hne : x.length ≠ y.length) :
    formatListImpl L (sv f :: rest) = .err "inconsistent argument lengths" := by
  have hlen : (rest.length == 0) = false := by
    cases rest with
    | nil => cases ha
    | cons a t => rfl
  unfold FlKnown at hk
  simp only [formatListImpl, arg0, Res.bind_ok, List.drop_succ_cons, List.drop_zero, hk, hlen, Bool.false_eq_true,
    if_false, asString_sv, flLen_inconsistent rest a b ha hb x y hx hy hne]

/-- … otherwise the number of rows IS the length of every iterated argument, and one row when
no argument is iterated. -/
theorem formatlist_row_count (rest : List Value) (it : Option Nat) (hl : flLen rest none = .ok it) :
    (∀ a ∈ rest, ∀ els, flSeq a = some els → it = some els.length) ∧
    ((∀ a ∈ rest, flSeq a = none) → it = none) := by
  refine ⟨(flLen_ok rest none it hl).2, ?_⟩
  intro h
  have := flLen_none_of_no_seq rest h
  rw [hl] at this
  cases this; rfl

/-- Empty sequences give the empty list — without the format string being looked at. -/
theorem formatlist_empty_sequences (L : Lib) (f : String) (rest : List Value) (hk : FlKnown rest) (hne : rest ≠ [])
    (hl : flLen rest none = .ok (some 0)) :
    formatListImpl L (sv f :: rest) = .ok ⟨.list .string, .seq []⟩ := by
  have hlen : (rest.length == 0) = false := by
    cases rest with
    | nil => exact absurd rfl hne
    | cons a t => rfl
  unfold FlKnown at hk
  simp [formatListImpl, hk, hlen, hl]

/-- Without arguments `formatlist(f)` is the one-element list of `format(f)`. -/
theorem formatlist_no_arguments (L : Lib) (f : String) :
    formatListImpl L [sv f] =
      (match formatImpl L [sv f] with
       | .ok r => .ok ⟨.list .string, .seq [r.v]⟩
       | .err e => .err e
       | .panic w => .panic w
       | .unmodelled => .unmodelled) := by
  simp only [formatListImpl, arg0, Res.bind_ok, List.drop_succ_cons, List.drop_zero, List.any_nil, List.length_nil,
    beq_self_eq_true, Bool.false_eq_true, if_false, if_true]
  cases formatImpl L [sv f] <;> rfl

/-- `formatlist` never panics, whatever the format string and the arguments. -/
theorem formatlist_never_panics (L : Lib) (f : String) (rest : List Value) :
    (formatListImpl L (sv f :: rest)).isPanic = false := by
  simp only [formatListImpl, arg0, Res.bind_ok, List.drop_succ_cons, List.drop_zero]
  split
  · rfl
  · split
    · have := format_never_panics L f []
      cases hx : formatImpl L [sv f] with
      | ok r => rfl
      | err e => rfl
      | panic w => rw [hx] at this; simp [Res.isPanic] at this
      | unmodelled => rfl
    · simp only [asString_sv, Res.bind_ok]
      rcases flLen_total rest none with ⟨r, hr⟩ | he
      · rw [hr]
        simp only
        split
        · rfl
        · rw [flIter_eq]
          have := collectRows_no_panic L ((List.range (r.getD 1)).map fun i => rowRes L f (flArgsAt rest i))
            (by
              intro x hx
              obtain ⟨i, _, rfl⟩ := List.mem_map.mp hx
              exact rowRes_no_panic L f _)
          cases hc : collectRows L ((List.range (r.getD 1)).map fun i => rowRes L f (flArgsAt rest i)) with
          | ok ps => rfl
          | err e => rfl
          | panic w => rw [hc] at this; simp [Res.isPanic] at this
          | unmodelled => rfl
      · rw [he]; rfl

/-! ## Non-vacuity -/
example : Normal (.fin true 5 (-1) 53) := by unfold Normal; decide
example : ceilImpl [numVal (.fin true 5 (-1) 53)] = .ok (numVal (.fin true 1 1 53)) := rfl   -- ceil(-2.5) = -2
example : floorImpl [numVal (.fin true 5 (-1) 53)] = .ok (numVal (.fin true 3 0 53)) := rfl  -- floor(-2.5) = -3
example : intImpl [numVal (.fin true 5 (-1) 53)] = .ok (numVal (.fin true 1 1 64)) := rfl    -- int(-2.5) = -2
-- witnesses of repaired defects (3f9a6a5, 2a9c93a, d93e8c0): must keep holding
example : signumImpl [numVal (.fin false 1 (-1) 53)] = .ok (intVal 1) := rfl              -- signum(0.5) = 1
example : signumImpl [numVal (.inf true)] = .ok (intVal (-1)) := rfl
example : (intImpl [numVal (.inf false)]).isOk = false := rfl                            -- int(+inf): the documented error (f991adf)
example : (intImpl [numVal (.inf true)]).isPanic = false := rfl
example : substrClusters ["a"] (-1) 0 = [] := by decide                                    -- substr("a", -1, 0) = ""
example : precCut (fun s => [s]) { raw := [], offset := 0, argNum := 1, hasPrec := true, prec := 0 } "a" = "" := by decide
example : fromCtyInt (intVal 16) = .ok 16 := by decide
example : setString "-fF".toList 16 = some (-255) := by decide
example : setString "Zz".toList 62 = some 3817 := by decide
example : setString "1_0".toList 10 = none := by decide
example : substrClusters ["a", "é", "c"] (-2) 1 = ["é"] := by decide
example : ¬ ((-2 : Int) < 0 ∧ (1 : Int) = 0) := by decide
-- the grammar theorems speak of real sentences: "%-5.2[3]d" and the wrap-around witness of 721dbdb
def exSyn : VerbSyn := { flags := ['-'], width := some ['5'], prec := some ['2'], idx := some ['3'], mode := 'd' }
example : exSyn.wf = true := by decide
example : exSyn.text = "-5.2[3]d".toList := by decide
example : scanVerb ("-5.2[3]d!".toList) 7 1 = some (exSyn.verb 7 1, ['!']) := by decide
def exHuge : VerbSyn := { flags := [], width := none, prec := none, idx := some "18446744073709551617".toList, mode := 's' }
example : exHuge.wf = true := by decide
example : decVal "18446744073709551617".toList = 18446744073709551617 := by decide
example : satNum "18446744073709551617".toList = 9223372036854775807 := by decide
example : satNum "9223372036854775800".toList = 9223372036854775807 ∧ satNum "9223372036854775799".toList = 9223372036854775799 := by decide
example : (exHuge.verb 0 1).argNum = 9223372036854775807 := by decide
example : stripIndex (exSyn.verb 7 1).raw = "%-5.2d".toList := by decide
-- "%18446744073709551617d" (the width that wrapped to 1 before 84cbc5e) is refused when its argument exists
def exLib : Lib :=
  { nfc := id, clusters := fun s => s.toList.map String.singleton, toUpper := id, toLower := id, title := id,
    trimSpace := id, trim := fun a _ => a, trimPrefix := fun a _ => a, trimSuffix := fun a _ => a,
    replaceAll := fun a _ _ => a, split := fun a _ => [a], regexCompile := fun _ => some [],
    regexReplaceAll := fun _ a _ => a, regexFind := fun _ _ => none, regexFindAll := fun _ _ => [],
    parseTimestamp := fun _ => none, parseDuration := fun _ => false, timeAdd := fun a _ => a,
    csvHeader := fun _ => none, csvAll := fun _ _ => ⟨[], false⟩, fmtInt := fun _ i => toString i,
    fmtFloat := fun _ _ => "", textG := fun _ => "", jsonStr := id }
def exWide : VerbSyn := { flags := [], width := some "18446744073709551617".toList, prec := none, idx := none, mode := 'd' }
example : formatAppend exLib (exWide.verb 0 1) [intVal 1] = .err "unsupported width" := by decide
-- json: the hypotheses hold of C15's nested sample value; a list comes back as a tuple of the same members
example : JsonVal.rtHyps C15.env0 C15.sampleV C15.sampleV.ty = true ∧ JsonVal.setFree C15.sampleV.ty = true ∧
    C15.sampleV.isNull = false := by decide +kernel
example : JsonVal.docOK C15.env0 (.obj ["a", "b"] [.arr [.str "x", .null], .num "1.5"]) = true := by decide +kernel
example : (match jsonDecodeTree C15.env0 (.arr [.str "a"]) with
    | .ok v' => v'.ty.equals (.tuple [.string]) && JsonVal.sameP v'.v (.seq [.s "a"])
    | _ => false) = true := by decide +kernel
-- regex: the index-list law is satisfiable by a match with an unmatched group ("a(b)?" on "xa")
example : IdxOK 2 1 [1, 2, -1, -1] := by
  refine ⟨rfl, ?_, ?_⟩
  · intro i hi a b ha hb
    have : i = 0 ∨ i = 1 := by omega
    rcases this with rfl | rfl
    · simp at ha hb; subst ha hb; right; omega
    · simp at ha hb; subst ha hb; left; omega
  · intro a ha; simp at ha; omega
-- formatdate: noon and midnight, a negative offset with minutes
def exNoon : Time := ⟨2021, 6, 13, 0, 12, 7, 9, -12600⟩
example : verbText exNoon 'H' 1 = .ok "12" ∧ verbText exNoon 'A' 2 = .ok "PM" := by decide
example : verbText { exNoon with hour := 0 } 'H' 2 = .ok "12" ∧ verbText { exNoon with hour := 0 } 'a' 2 = .ok "am" := by decide
example : verbText exNoon 'Z' 5 = .ok "-03:30" := by decide
example : tokenize 7 ['h', 'h', '-', '\'', 'a', '\''] = [['h', 'h'], ['-'], ['\'', 'a', '\'']] := by decide
-- formatlist: a list, a tuple and a single value; two rows
def exFl : List Value := [⟨.list .string, .seq [.s "a", .s "b"]⟩, ⟨.tuple [.number, .bool], .seq [.n (.fin false 1 0 64), .b true]⟩, sv "z"]
example : FlKnown exFl := by unfold FlKnown; decide
example : flLen exFl none = .ok (some 2) := by decide
example : flArgsAt exFl 1 = [sv "b", ⟨.bool, .b true⟩, sv "z"] := by decide
example : flLen [sv "x", intVal 3] none = .ok none := by decide
-- indent: the side conditions are satisfiable, and 2^40 spaces on a string without a line break are fine
example : countNewlines "a\nb\n".toList = 2 := by decide
example : indentChars 2 "a\nb".toList = "a\n  b".toList := by decide

/-! ## d14b — the strings package behind split / trim, and the error domain of log / pow

`D14b.goSplit`, `goTrimPrefix`, `goTrimSuffix`, `goTrimSpace`, `goTrim` transliterate
strings.Split, TrimPrefix, TrimSuffix, TrimSpace, Trim on code points; `D14b.refLib L`
answers the five library calls with them, and the op `std.glue.ref` diffs the real
`SplitFunc`, `TrimPrefixFunc`, … against `splitImpl (refLib L)`, … with only NFC recorded.
`D14b.logNaN` / `powNaN` say from the arguments alone when package math answers NaN;
`std.dom` diffs the ok/err class of the real `LogFunc` / `PowFunc` against them. -/

open D14b in
/-- `split(sep, str)` is the list of the NFC forms of the pieces of `strings.Split(str, sep)`
(note the argument order), with the strings package transliterated, not an oracle. -/
theorem split_reference (L : Lib) (sep str : String) :
    splitImpl (refLib L) [sv sep, sv str] =
      .ok ⟨.list .string, .seq (((goSplit str.toList sep.toList).map String.ofList).map fun s => .s (L.nfc s))⟩ :=
  splitImpl_ref L sep str

open D14b in
/-- `split` agrees with Go: `strings.Join(strings.Split(s, sep), sep) == s` — the pieces, in
order, with the separator between them, are the string; for EVERY separator (the empty one too). -/
theorem split_join_inverse (s sep : List Char) : goJoin sep (goSplit s sep) = s := goJoin_goSplit s sep

open D14b in
/-- … and the pieces are cut at the FIRST occurrence each time: the first piece is what
precedes the first occurrence of a non-empty separator (`strings.Index`), the others are
the split of what follows it; without an occurrence the string comes back whole. Together
with `split_join_inverse` this determines `strings.Split` for a non-empty separator. -/
theorem split_cuts_at_first_occurrence (s sep : List Char) (hsep : sep ≠ []) :
    (∀ i, goIndex sep s = some i → goSplit s sep = s.take i :: goSplit (s.drop (i + sep.length)) sep) ∧
    (goIndex sep s = none → goSplit s sep = [s]) :=
  ⟨fun _ h => goSplit_step hsep h, goSplit_absent hsep⟩

open D14b in
/-- `strings.Index` reports a position where the separator really stands. -/
theorem index_is_an_occurrence (s sep : List Char) (i : Nat) (h : goIndex sep s = some i) :
    s = s.take i ++ sep ++ s.drop (i + sep.length) := goIndex_some h

open D14b in
/-- The corner cases as Go defines them: an empty separator explodes the string into its
code points (so `split("", "")` is the empty list), and an empty string with a non-empty
separator gives the list of one empty string. -/
theorem split_corner_cases (s sep : List Char) :
    goSplit s [] = s.map ([·]) ∧ goSplit [] [] = [] ∧ (sep ≠ [] → goSplit [] sep = [[]]) :=
  ⟨rfl, rfl, goSplit_nil⟩

open D14b in
/-- The loop bound of the model is immaterial (Go bounds the loop by `Count(s, sep)`; the
model by any number above the length). -/
theorem split_fuel_immaterial (sep : List Char) (hsep : sep ≠ []) (f g : Nat) (s : List Char)
    (hf : s.length < f) (hg : s.length < g) : splitLoop sep f s = splitLoop sep g s :=
  splitLoop_fuel hsep f g s hf hg

open D14b in
/-- `trimprefix`, `trimsuffix`, `trimspace`, `trim` are NFC of the transliterated
strings.TrimPrefix / TrimSuffix / TrimSpace / Trim. -/
theorem trim_family_reference (L : Lib) (a b : String) :
    trimPrefixImpl (refLib L) [sv a, sv b] = .ok (stringVal L.nfc (String.ofList (goTrimPrefix a.toList b.toList))) ∧
    trimSuffixImpl (refLib L) [sv a, sv b] = .ok (stringVal L.nfc (String.ofList (goTrimSuffix a.toList b.toList))) ∧
    trimSpaceImpl (refLib L) [sv a] = .ok (stringVal L.nfc (String.ofList (goTrimSpace a.toList))) ∧
    trimImpl (refLib L) [sv a, sv b] = .ok (stringVal L.nfc (String.ofList (goTrim a.toList b.toList))) :=
  trimImpls_ref L a b

open D14b in
/-- `trimprefix` removes the prefix once when the string starts with it and changes nothing otherwise;
`trimsuffix` likewise at the end. -/
theorem trimprefix_trimsuffix_spec (p t s : List Char) :
    goTrimPrefix (p ++ t) p = t ∧ (¬ p <+: s → goTrimPrefix s p = s) ∧
    goTrimSuffix (t ++ p) p = t ∧ (¬ p <:+ s → goTrimSuffix s p = s) :=
  ⟨goTrimPrefix_append p t, goTrimPrefix_not, goTrimSuffix_append t p, goTrimSuffix_not⟩

open D14b in
/-- `trimspace` returns the middle of "white space · m · white space" whenever `m` neither
starts nor ends with white space (`unicode.IsSpace`), and what it removes on either side is
white space only. -/
theorem trimspace_spec (l m r s : List Char)
    (hl : ∀ c ∈ l, goIsSpace c = true) (hr : ∀ c ∈ r, goIsSpace c = true)
    (hm1 : ∀ c, m.head? = some c → goIsSpace c = false) (hm2 : ∀ c, m.getLast? = some c → goIsSpace c = false) :
    goTrimSpace (l ++ m ++ r) = m ∧
    ∃ l' r', s = l' ++ goTrimSpace s ++ r' ∧ (∀ c ∈ l', goIsSpace c = true) ∧ (∀ c ∈ r', goIsSpace c = true) :=
  ⟨trimBoth_middle _ l m r hl hr hm1 hm2, trimBoth_decomp _ s⟩

open D14b in
/-- … and conversely the result of `trimspace` (of `trim`: read "in the cutset") neither starts nor
ends with white space: with `trimspace_spec` it is THE middle part of the string. -/
theorem trimspace_result_has_no_outer_space (s : List Char) :
    (∀ c, (goTrimSpace s).head? = some c → goIsSpace c = false) ∧
    (∀ c, (goTrimSpace s).getLast? = some c → goIsSpace c = false) := trimBoth_ends goIsSpace s

open D14b in
/-- `trim(str, cutset)` likewise with "occurs in the cutset" for white space (an empty
string or cutset returns the string, as in Go). -/
theorem trim_cutset_spec (cut l m r : List Char) (hne : (l ++ m ++ r) ≠ []) (hcut : cut ≠ [])
    (hl : ∀ c ∈ l, cut.contains c = true) (hr : ∀ c ∈ r, cut.contains c = true)
    (hm1 : ∀ c, m.head? = some c → cut.contains c = false) (hm2 : ∀ c, m.getLast? = some c → cut.contains c = false) :
    goTrim (l ++ m ++ r) cut = m ∧ goTrim [] cut = [] ∧ goTrim m [] = m := by
  refine ⟨?_, by simp [goTrim], by simp [goTrim]⟩
  have h1 : (l ++ m ++ r).isEmpty = false := by cases h : (l ++ m ++ r) <;> simp_all
  have h2 : cut.isEmpty = false := by cases cut <;> simp_all
  simp only [goTrim, h1, h2, Bool.or_self, Bool.false_eq_true, if_false]
  exact trimBoth_middle _ l m r hl hr hm1 hm2

open D14b in
/-- The exact error domain of `log` and `pow` on arguments inside float64: they fail iff the
math package answers NaN, and — under the law about package math that `std.dom` probes on the
real functions on every run — iff `logNaN` / `powNaN` holds of the float64 arguments: a negative
number or base, `log(1, 1)`, both of number and base in `{0, +Inf}`; a finite negative base with a
finite non-integer power. -/
theorem log_pow_error_domain (llib plib : Num → Num → F64) (a b x y : Num)
    (hl : NaNLaw llib logNaN) (hp : NaNLaw plib powNaN)
    (ha : fromCtyFloat (numVal a) = .ok x) (hb : fromCtyFloat (numVal b) = .ok y) :
    ((∃ m, logImpl llib [numVal a, numVal b] = .err m) ↔ logNaN x y = true) ∧
    ((∃ m, powImpl plib [numVal a, numVal b] = .err m) ↔ powNaN x y = true) :=
  ⟨(logImpl_err_iff llib a b x y ha hb).trans (hl x y), (powImpl_err_iff plib a b x y ha hb).trans (hp x y)⟩

open D14b in
/-- Consequences read off the rule: a whole-number power never fails, whatever the base; a
non-negative base never fails; `log` of positive arguments fails only for `log(1, 1)`-like and
`Inf/Inf` quotients. -/
theorem pow_total_on_integer_power_or_nonnegative_base (x y : Num) (h : y.isInt = true ∨ x.sign ≠ -1) :
    powNaN x y = false := by
  rcases h with h | h
  · simp [powNaN, h]
  · simp [powNaN, h]

open D14b in
/-- No piece of a split contains the (non-empty) separator: with `split_join_inverse` this is
the full reference statement of `strings.Split` — the only list of separator-free pieces that
joins back to the string. -/
theorem split_pieces_free_of_separator (s sep : List Char) (hsep : sep ≠ []) :
    ∀ p ∈ goSplit s sep, goIndex sep p = none := goSplit_pieces hsep s

open D14b in
/-- `join` over any number of lists of known strings is `strings.Join` of all their members in
order (`String.intercalate` IS the transliterated `strings.Join`), re-normalised; with no list at
all it is the documented error (a null member: `join_null_member`). -/
theorem join_reference (L : Lib) (sep : String) (xss : List (List String)) (h : xss ≠ []) :
    joinImpl L (sv sep :: xss.map strList) = .ok (stringVal L.nfc (sep.intercalate xss.flatten)) ∧
    (sep.intercalate xss.flatten).toList = goJoin sep.toList (xss.flatten.map String.toList) ∧
    joinImpl L [sv sep] = .err "at least one list is required" :=
  ⟨joinImpl_strLists L sep xss h, intercalate_toList sep _, joinImpl_no_list L sep⟩

open D14b in
/-- `join(sep, split(sep, s)) = s` through the two `Impl`s, for every separator, whenever the
pieces are in normal form (NFC leaves substrings of a normalised string alone; the harness
observes every result to be a fixed point of NFC). -/
theorem join_inverts_split (L : Lib) (sep s : String) (r : Value)
    (hp : ∀ p ∈ (goSplit s.toList sep.toList).map String.ofList, L.nfc p = p)
    (hr : splitImpl (refLib L) [sv sep, sv s] = .ok r) :
    joinImpl L [sv sep, r] = .ok (stringVal L.nfc s) := join_split_roundtrip L sep s r hp hr

open D14b in
/-- `chomp` removes exactly the trailing run of CR / LF characters: from "m · run" with `m` not
ending in one, `m` is left. -/
theorem chomp_spec (m r : List Char) (hr : ∀ c ∈ r, isNewline c = true)
    (hm : ∀ c, m.getLast? = some c → isNewline c = false) : chompChars (m ++ r) = m :=
  dropRight_middle isNewline m r hr hm

open D14b in
example : joinImpl ⟨id, fun _ => [], id, id, id, id, fun a _ => a, fun a _ => a, fun a _ => a, fun a _ _ => a, fun _ _ => [],
    fun _ => none, fun _ a _ => a, fun _ _ => none, fun _ _ => [], fun _ => none, fun _ => false, fun a _ => a, fun _ => none,
    fun _ _ => ⟨[], false⟩, fun v _ => v, fun v _ => v, fun _ => "", id⟩ [sv "-", strList ["a", "b"], strList [], strList ["c"]] =
    .ok (sv "a-b-c") := by decide
example : chompChars "ab\r\n\n\r".toList = "ab".toList ∧ chompChars "a\nb".toList = "a\nb".toList := by decide

open D14b in
/-- `timeadd` fails exactly when the timestamp is not RFC 3339 or `time.ParseDuration` refuses the
duration — the verdict computed by the transliteration `durAccepts` (grammar, unit table, "0",
every overflow test), not recorded from the library — and otherwise returns the library's sum. -/
theorem timeadd_error_domain (L : Lib) (ts d : String) :
    timeAddImpl (refLibDur L) [sv ts, sv d] =
      (match L.parseTimestamp ts with
       | none => .err "not a valid RFC3339 timestamp"
       | some _ =>
         if (durAccepts d.toList).getD false = false then .err "time.ParseDuration"
         else .ok (stringVal L.nfc (L.timeAdd ts d))) := timeAddImpl_ref L ts d

open D14b in
/-- The duration grammar, part 1: a duration must start, after an optional sign, with a digit or a
period; and the units are exactly ns, us, µs (U+00B5), μs (U+03BC), ms, s, m, h. -/
theorem duration_start_and_units (c : Char) (cs u : List Char) (k : Nat) :
    (c ≠ '-' → c ≠ '+' → c ≠ '.' → isDig c = false → durAccepts (c :: cs) = some false) ∧
    (unitOf u = some k →
      (u, k) ∈ [(['n', 's'], 1), (['u', 's'], 1000), (['µ', 's'], 1000), (['μ', 's'], 1000), (['m', 's'], 1000000),
        (['s'], 1000000000), (['m'], 60000000000), (['h'], 3600000000000)]) :=
  ⟨durAccepts_bad_start c cs, unitOf_some u k⟩

open D14b in
/-- The duration grammar, part 2 — the corner cases of the Go code, evaluated: the bare "0" with
any sign is a duration, the empty string and a bare sign are not; a number needs a unit and digits
(".s", "1", "1h1"); several terms and fractions are fine; the range is that of int64 nanoseconds,
asymmetric (−2^63 is a duration, 2^63 is not), for one term and for a sum. -/
theorem duration_corner_cases :
    (["0", "+0", "-0", "1h", "-1h30m", "+1.5h", ".5s", "1.s", "1µs", "1μs", "1.5h30.25m",
      "9223372036854775807ns", "-9223372036854775808ns", "2562047h47m16s854ms775us807ns",
      "-2562047h47m16s854ms775us808ns"].all fun s => durAccepts s.toList == some true) = true ∧
    (["", "-", "+", "00", "1", ".s", "-.s", "1x", "1hh", "1h1", "1h.", "1.0.5s", "1e3s", " 1s", "1s ", "1H", "1d",
      "9223372036854775808ns", "-9223372036854775809ns", "92233720368547758080ns", "2562048h",
      "2562047h47m16s854ms775us808ns", "2562047h2562047h"].all fun s => durAccepts s.toList == some false) = true := by
  decide

open D14b in
/-- The RFC 3339 parser (`parseRFC3339` transliterated) only accepts timestamps whose every field is
in its calendar range — month 1..12, day within the month (leap years by the Gregorian rule), hour ≤ 23,
minute and second ≤ 59 (no leap second), zone offset strictly inside ±24 h — and reports the weekday of
that date. -/
theorem timestamp_fields_in_range (s : List Char) (t : Time) (h : goParseRFC3339 s = some t) :
    t.year ≤ 9999 ∧ 1 ≤ t.month ∧ t.month ≤ 12 ∧ 1 ≤ t.day ∧ t.day ≤ daysIn t.month t.year ∧
    t.hour ≤ 23 ∧ t.minute ≤ 59 ∧ t.second ≤ 59 ∧ t.weekday = weekdayOf t.year t.month t.day ∧
    -86400 < t.offset ∧ t.offset < 86400 := goParseRFC3339_ranges h

open D14b in
/-- With the parser transliterated, `formatdate` depends on no recorded library answer except NFC:
tokenizer, verbs, parser, calendar and weekday are all inside the model that is diffed against /repo. -/
theorem formatdate_depends_only_on_nfc (L L' : Lib) (h : L.nfc = L'.nfc) (args : List Value) :
    formatDateImpl (refLibTs L) args = formatDateImpl (refLibTs L') args := formatDateImpl_only_nfc L L' h args

open D14b in
/-- The strictness of the parser, evaluated: leap days by the Gregorian rule (2020 and 2000 yes, 2021 and
1900 no), no hour 24, no second 60, upper-case `T` and `Z` only, a period must be followed by a digit,
offsets up to ±23:59, nothing before or after. -/
theorem timestamp_corner_cases :
    (["2021-06-13T12:07:09Z", "2020-02-29T23:59:59.123+05:30", "2000-02-29T00:00:00Z", "0000-01-01T00:00:00-23:59",
      "9999-12-31T23:59:59.999999999999Z"].all fun s => (goParseRFC3339 s.toList).isSome) = true ∧
    (["2021-02-29T00:00:00Z", "1900-02-29T00:00:00Z", "2021-06-13T24:07:09Z", "2021-06-13T12:07:60Z", "2021-06-13t12:07:09Z",
      "2021-06-13T12:07:09z", "2021-06-13T12:07:09.Z", "2021-06-13T12:07:09,5Z", "2021-06-13T12:07:09+24:00",
      "2021-06-13T12:07:09+05:60", "2021-06-13T12:07:09", "2021-06-13T12:07:09ZZ", " 2021-06-13T12:07:09Z", "2021-13-01T00:00:00Z",
      "2021-04-31T00:00:00Z", "2021-06-13T3:07:09Z", "21-06-13T12:07:09Z", "2021-06-13 12:07:09Z", "2021-06-13T12:07:09+0530"].all
        fun s => (goParseRFC3339 s.toList).isNone) = true ∧
    (goParseRFC3339 "2021-06-13T12:07:09-03:30".toList = some ⟨2021, 6, 13, 0, 12, 7, 9, -12600⟩) := by
  decide

open D14b in
/-- **`regexall` never panics** under the same index-list law as `regex_never_panics`, asked of every
match that `FindAllStringSubmatchIndex` reports: no slice or index expression is out of range, and the
elements agree in type, so `cty.ListVal` does not panic either. -/
theorem regexall_never_panics (L : Lib) (pat str : String)
    (hk : ∀ names, L.regexCompile pat = some names → ∀ idxs ∈ L.regexFindAll pat str,
      IdxOK str.utf8ByteSize names.length idxs) :
    (regexAllImpl L [sv pat, sv str]).isPanic = false := regexAllImpl_no_panic L pat str hk

-- d14b examples: the hypotheses are jointly satisfiable, and the functions compute
open D14b in
example : goSplit "a,b,,c".toList ",".toList = ["a".toList, "b".toList, [], "c".toList] := by decide
open D14b in
example : goSplit "aaa".toList "aa".toList = [[], "a".toList] ∧ goSplit "abc".toList [] = [['a'], ['b'], ['c']] := by decide
open D14b in
example : goIndex "aa".toList "baaa".toList = some 1 ∧ goIndex "x".toList "abc".toList = none := by decide
open D14b in
example : goTrimSpace " \t\u00a0x y\u3000\u2028\n".toList = "x y".toList ∧ goTrimSpace "\u200bx\u001f".toList = "\u200bx\u001f".toList := by decide
open D14b in
example : goTrim "xxhixyx".toList "xy".toList = "hi".toList ∧ goTrimPrefix "aab".toList "a".toList = "ab".toList := by decide
open D14b in
example : NaNLaw (domLib logNaN) logNaN ∧ NaNLaw (domLib powNaN) powNaN := ⟨domLib_law _, domLib_law _⟩
example : fromCtyFloat (numVal (Num.ofInt (-8) 64)) = .ok (Num.ofInt (-8) 53) ∧
    fromCtyFloat (numVal (.fin false 1 (-1) 64)) = .ok (.fin false 1 (-1) 53) := by decide
open D14b in
example : logNaN (Num.ofInt (-1) 53) (Num.ofInt 2 53) = true ∧ logNaN (Num.ofInt 1 53) (Num.ofInt 1 53) = true ∧
    logNaN (Num.ofInt 0 53) (.inf false) = true ∧ logNaN (Num.ofInt 8 53) (Num.ofInt 2 53) = false ∧
    powNaN (Num.ofInt (-8) 53) (.fin false 1 (-1) 53) = true ∧ powNaN (Num.ofInt (-8) 53) (Num.ofInt 3 53) = false ∧
    powNaN (.inf true) (.fin false 1 (-1) 53) = false := by decide

end C14
end CtyModel
