/-
C11 — Standard functions are total and their predicted types are sound.

Property theorems only (helper lemmas: `Lemmas/StdProto.lean`, `Lemmas/FnCall*.lean`).

What is proved here, and about what.  Every stdlib function is a `function.Spec`:
parameter declarations + three callbacks (`Type`, `Impl`, `RefineResult`).  The
parameter declarations of ALL exported stdlib functions are regenerated from the
built go-cty code on every check (`Generated.stdlibSpecs`); whether `Type` is
`function.StaticReturnType(T)` and which `RefineResult` is declared is regenerated
from the source text (`Generated.stdlibSyntax`).  The theorems below hold for every
one of those specs and for ARBITRARY callbacks (`tf`, `impl` : any Lean functions,
including ones that fail, panic or return junk) — so they cover the functions whose
callbacks are not modelled, too — and then become unconditional for the functions
whose `Type` callback is the constant one.  What remains per function (that its own
`Type`/`Impl` code never panics, and that a dynamic `Type` callback is monotone) is
proved where the callbacks are modelled (C13, C14) and otherwise only searched by the
harness (`harness/c11.go`), which says so in the evidence.

END-TO-END totality (`call_total_<f>`: `Fn.Call` on ANY list of well-formed values returns a value
or an ordinary error) is proved for 43 functions: `hasindex` (slice d11) and, in slice d11b, `keys`,
`values`, `reverse`, `coalescelist`, `compact`, `chunklist`, `index`, `range`, `assertnotnull`, the 16 number / bool
functions of `D11b.table`, the 15 string / time functions of `D11b.glueTable` (for every library) and `log`, `pow`
(for every answer of the math library).
`merge` is a counterexample (`call_total_merge_counterexample`).  For all other functions the
clause is searched by the harness only.
-/
import CtyModel.Lemmas.StdProto
import CtyModel.Lemmas.StdOblType
import CtyModel.Lemmas.StdOblTable
import CtyModel.Lemmas.d11Alloc
import CtyModel.Lemmas.d11Table
import CtyModel.Lemmas.d11Total
import CtyModel.Lemmas.d11bColl
import CtyModel.Lemmas.d11bNum
import CtyModel.Lemmas.d11bSeq
import CtyModel.Lemmas.d11bStr
import CtyModel.Lemmas.d11bIndex
import CtyModel.Lemmas.d11bMisc
import CtyModel.Props.C10
namespace CtyModel
namespace C11
open Fn Std

/-- `t'` is at least as permissive a type constraint as `t`: whatever conforms to `t`
conforms to `t'`. -/
def Admits (t' t : Ty) : Prop := ∀ c, Ty.conformErrs t c = 0 → Ty.conformErrs t' c = 0

/-- A `Type` callback is *monotone* when replacing the arguments it sees by unknown
placeholders of the same types cannot make it fail and can only widen its answer.  This
is the obligation under which a type checker working with placeholders never contradicts
evaluation. -/
def TypeMono (tf : TypeFn) : Prop :=
  ∀ as t, tf as = .ok t → ∃ t', tf (as.map unkOf) = .ok t' ∧ Admits t' t

/-- `function.StaticReturnType(T)` -/
def staticType (T : Ty) : TypeFn := fun _ => .ok T

/-- The constant callback is monotone. -/
theorem static_typeMono (T : Ty) : TypeMono (staticType T) :=
  fun _ t h => ⟨t, h, fun _ hc => hc⟩

/-! ### clause: "its result's type conforms … to the one predicted from the argument values" -/

/-- For ANY function specification — in particular `toSpec s rf` for every entry `s` of the
regenerated parameter table — and whatever its callbacks do: a successful call's result conforms
to what `ReturnTypeForValues` answers for the same arguments (and that prediction exists).
(The protocol's doing: `C10.nonconforming_never_returned`.) -/
theorem result_conforms_value_prediction (spec : Spec) (tf : TypeFn) (impl : ImplFn) (args : List Value)
    (hT : C10.TypeFnWF tf) (v : Value) (h : (call spec tf impl args).1 = .ok v) :
    ∃ t, (returnTypeForValuesPub spec tf args).1 = .ok t ∧ Ty.conformErrs t v.ty = 0 :=
  C10.nonconforming_never_returned _ tf impl args hT v h

/-! ### clauses: "… conforms to the return type predicted from the argument types alone", and
"whenever evaluation … succeeds the type-only prediction did not reject the call" -/

/-- For ANY spec and callbacks with a monotone `Type` callback: if the call succeeds then
`ReturnType(types of the arguments)` succeeds too and the result conforms to it.  (Holds
for all argument lists, known or not.) -/
theorem type_only_prediction_sound (spec : Spec) (tf : TypeFn) (impl : ImplFn) (args : List Value)
    (hT : C10.TypeFnWF tf) (hm : TypeMono tf) (v : Value) (h : (call spec tf impl args).1 = .ok v) :
    ∃ t', (returnType spec tf (args.map (·.ty))).1 = .ok t' ∧ Ty.conformErrs t' v.ty = 0 := by
  rw [C10.returnType_is_rtfv_of_unknowns, map_unknown_ty]
  obtain ⟨t, ht, hc⟩ := C10.nonconforming_never_returned spec tf impl args hT v h
  rcases call_ok_pass1 h with hd | ⟨T, t0, hp, ht0⟩
  · -- an argument short-circuited as dynamically typed: both predictions are the dynamic type
    rw [rtfvPub_of_pass1_dyn hd] at ht
    refine ⟨.dyn, rtfvPub_of_pass1_dyn (pass1_unkOf_dyn hd), ?_⟩
    cases ht; exact hc
  · rw [rtfvPub_of_pass1_ok hp ht0] at ht
    cases ht
    obtain ⟨t', ht', had⟩ := hm T _ ht0
    exact ⟨t', rtfvPub_of_pass1_ok (pass1_unkOf_ok hp) ht', had _ hc⟩

/-! ### the bridge from the regenerated tables to the callbacks

`Generated.stdlibSyntax` says, per exported function, whether its `Type` is
`function.StaticReturnType(e)` (and prints the Go expression `e`) or a callback.  `Std.staticTy?`
(Lemmas/StdOblTable.lean) interprets those expressions; `Std.tfOf` is the `Type` callback the
theorems use for a table entry:
the constant one for a static entry, the C13 model (by name) for a dynamic one, `none` where the
callback is not modelled.  The theorems below quantify over the TABLE (`∀ sy ∈ stdlibSyntax`), so
a function added to or changed in cty/function/stdlib changes what they say. -/

/-- every static return type of the regenerated table is recognised by `Std.staticTy?` (a new
expression in the source makes this theorem fail: the tie breaks closed) -/
theorem static_types_recognised :
    ∀ sy ∈ Generated.stdlibSyntax, ∀ e, sy.staticType = some e → (staticTy? e).isSome = true :=
  Std.static_types_recognised

/-- … and `Bytes` is the capsule type of the `bytes*` functions' parameters -/
theorem bytes_capsule_is_parameter_type :
    ((Std.find? "BytesLenFunc").bind (·.params.head?)).map (·.ty.equals (.capsule 3)) = some true :=
  Std.bytes_capsule_is_parameter_type

theorem staticTy_wf (e : String) (T : Ty) (h : staticTy? e = some T) : Ty.wf T = true := Std.staticTy_wf e T h

/-- every statically typed entry has a callback, and it is the constant one of its declared type -/
theorem tfOf_static (E : Stdlib.Env) (sy : Generated.StdSyntax) (hsy : sy ∈ Generated.stdlibSyntax) (e : String)
    (he : sy.staticType = some e) : ∃ T, staticTy? e = some T ∧ tfOf E sy = some (staticType T) :=
  Std.tfOf_static E sy hsy e he

/-- the model table agrees with the syntax table on which functions are static: where the source
says `StaticReturnType(e)` and C13 models the function, the model's `Type` callback IS that constant -/
theorem model_static_callbacks_agree (E : Stdlib.Env) :
    ∀ sy ∈ Generated.stdlibSyntax, ∀ e T n f, sy.staticType = some e → staticTy? e = some T →
      modelName? sy.var = some n → Stdlib.byName n = some f → f.tf E = staticType T :=
  Std.model_static_callbacks_agree E

/-- **Every statically-typed stdlib function** (quantified over the regenerated syntax table, with
its parameter declarations from the regenerated parameter table): for every successful call both
predictions exist and are the same type — the declared type `T`, or the placeholder when a
dynamically typed argument short-circuits the call — and the result conforms to it, whatever
`Impl` does. -/
theorem static_functions_predictions_agree (sy : Generated.StdSyntax) (hsy : sy ∈ Generated.stdlibSyntax)
    (s : Generated.StdSpec) (_hs : s ∈ Generated.stdlibSpecs) (_hv : sy.var = s.var)
    (e : String) (he : sy.staticType = some e) (E : Stdlib.Env)
    (rf : Option RefineFn) (impl : ImplFn) (args : List Value) (v : Value) :
    ∃ T tf, staticTy? e = some T ∧ tfOf E sy = some tf ∧
      ((call (toSpec s rf) tf impl args).1 = .ok v →
        ∃ t, (t = T ∨ t = .dyn) ∧
          (returnTypeForValuesPub (toSpec s rf) tf args).1 = .ok t ∧ Ty.conformErrs t v.ty = 0 ∧
          (returnType (toSpec s rf) tf (args.map (·.ty))).1 = .ok t) := by
  obtain ⟨T, hT, htf⟩ := tfOf_static E sy hsy e he
  refine ⟨T, staticType T, hT, htf, fun h => ?_⟩
  have hw := staticTy_wf e T hT
  have hTf : C10.TypeFnWF (staticType T) := fun _ t ht => by cases ht; exact hw
  obtain ⟨t, ht, hc⟩ := C10.nonconforming_never_returned _ _ impl args hTf v h
  rw [C10.returnType_is_rtfv_of_unknowns, map_unknown_ty]
  rcases call_ok_pass1 h with hd | ⟨A, t0, hp, ht0⟩
  · rw [rtfvPub_of_pass1_dyn hd] at ht
    cases ht
    exact ⟨.dyn, .inr rfl, rtfvPub_of_pass1_dyn hd, hc, rtfvPub_of_pass1_dyn (pass1_unkOf_dyn hd)⟩
  · cases ht0
    rw [rtfvPub_of_pass1_ok hp rfl] at ht
    cases ht
    exact ⟨T, .inl rfl, rtfvPub_of_pass1_ok hp rfl, hc, rtfvPub_of_pass1_ok (pass1_unkOf_ok hp) rfl⟩

/-! ### clause: "never a Go panic and never an error reporting an internal panic" — the part
that is the protocol's doing -/

/-- For ANY specification (in particular every `toSpec s rf` of the regenerated table) and all
callbacks: a Go panic escapes `Call` exactly when the declared `RefineResult` refuses the typed
result (never because `Type` or `Impl` panicked); for the stdlib's `refineNonNull` that is:
`Impl` returned null.  (`C10.go_panic_iff`; discharged per function by `call_total_<f>` below.) -/
theorem go_panic_only_from_refinement (spec : Spec) (tf : TypeFn) (impl : ImplFn) (args : List Value) :
    (∃ why, (call spec tf impl args).1 = .panic why) ↔
      ∃ r pre, spec.refine = some r ∧ (callUnrefined spec tf impl args).1 = .ok pre ∧
        typed pre = true ∧ r pre.unmark = none :=
  C10.go_panic_iff _ tf impl args

/-- For ANY spec: if neither callback panics on the argument lists the protocol hands them
and `Impl` only returns values conforming to the type it was given, the call never reports an
internal panic (`PanicError`).  Contrapositive: a `PanicError` from a stdlib call is always a
defect of that function's own callbacks — which is what the harness searches for. -/
theorem no_panic_error_of_total_callbacks (spec : Spec) (tf : TypeFn) (impl : ImplFn) (args : List Value)
    (htf : ∀ w, tf (typeArgs spec args) ≠ .panic w)
    (himpl : ∀ rt w, impl (implArgs spec args) rt ≠ .panic w)
    (hconf : ∀ rt v, impl (implArgs spec args) rt = .ok v → Ty.conformErrs rt v.ty = 0)
    (w : String) : (call spec tf impl args).1 ≠ .err (.panicError w) := by
  rw [call_eq_finish, Ne, finish_err_iff]
  obtain ⟨k, o, ho, hk⟩ := callUnrefined_case' spec tf impl args
  rw [ho]
  cases hk with
  | typePanic w' _ _ h => exact absurd h (htf w')
  | implPanic rt w' _ _ _ _ h => exact absurd h (himpl rt w')
  | nonconforming rt v w' _ _ _ _ hi hn => exact absurd (hconf rt v hi) hn
  | _ => simp

/-- The same for `ReturnTypeForValues` / `ReturnType`: never a Go panic; a `PanicError` only
if the `Type` callback itself panicked — with that very message. -/
theorem prediction_never_panics (spec : Spec) (tf : TypeFn) (args : List Value) :
    (∀ why, (returnTypeForValuesPub spec tf args).1 ≠ .panic why) ∧
    (∀ w, (returnTypeForValuesPub spec tf args).1 = .err (.panicError w) →
      tf (typeArgs spec args) = .panic w) := by
  refine ⟨(C10.rtfv_panics_become_errors spec tf args).1, ?_⟩
  intro w h
  unfold returnTypeForValuesPub returnTypeForValues at h
  cases hp : pass1 spec args with
  | countErr => simp [hp] at h
  | argErr i => simp [hp] at h
  | dyn => simp [hp] at h
  | ok T =>
    simp only [hp] at h
    have hT : T = typeArgs spec args := by
      have := pass1_eq spec args
      rw [hp] at this
      by_cases hc : spec.countOK args.length = true
      · simp only [hc, if_true] at this
        cases hf : firstFail (spec.expand args.length) args with
        | none => rw [hf] at this; simpa [typeArgs] using this
        | some kf => obtain ⟨k, f⟩ := kf; rw [hf] at this; cases f <;> simp [Pass1.ofFail] at this
      · simp [hc] at this
    subst hT
    cases ht : tf (typeArgs spec args) with
    | ok t => simp [ht] at h
    | err c => simp [ht] at h
    | panic w' => simp [ht] at h; rw [h]
    | unmodelled => simp [ht] at h

/-! ### the regenerated tables say what the theorems assume -/

/-- stdlib's `refineNonNull` helper is still `b.NotNull()` and nothing else. -/
theorem refineNonNull_is_notNull : Generated.refineNonNullBody = "b.NotNull()" := by decide

/-- `function.StaticReturnType(ty)` is still the constant callback `staticType` models. -/
theorem staticReturnType_is_constant :
    Generated.staticReturnTypeBody = "{ return func([]cty.Value) (cty.Type, error) { return ty, nil } }" := by decide

/-- Every `RefineResult` declared in cty/function/stdlib is either `refineNonNull` or written
inline (the extractor fails closed on any other shape). -/
theorem refine_declarations_recognised :
    ∀ s ∈ Generated.stdlibSyntax, s.refine = "none" ∨ s.refine = "refineNonNull" ∨ s.refine = "inline" := by
  decide

/-- The two regenerated tables list the same functions in the same order (one comes from the
source text, the other from the built code through a table generated from the source). -/
theorem tables_agree :
    Generated.stdlibSyntax.map (·.var) = Generated.stdlibSpecs.map (·.var) ∧
    ∀ p ∈ Generated.stdlibSyntax.zip Generated.stdlibSpecs,
      p.1.nparams = p.2.params.length ∧ p.1.hasVarParam = p.2.varParam.isSome := by
  refine ⟨by decide, ?_⟩
  decide

/-! ## Per-function obligations, discharged for the modelled callbacks (C13 models, `Stdlib/*.lean`)

`typeMono_<f>`: the `Type` callback of `<f>` AS WRITTEN (including its looks at known-ness,
null-ness, lengths and keys of the argument values) is monotone — for ALL argument lists, also
ones the protocol would never hand it.  Where that is false of the code the full statement is a
`def … : Prop` with a `_partial` theorem (explicit side condition) and a `_counterexample`. -/

open Stdlib in
/-- `pass1` hands the `Type` callback exactly `typeArgs` -/
theorem pass1_ok_typeArgs {spec : Spec} {args T : List Value} (hp : pass1 spec args = .ok T) :
    T = typeArgs spec args := by
  have := pass1_eq spec args
  rw [hp] at this
  by_cases hc : spec.countOK args.length = true
  · simp only [hc, if_true] at this
    cases hf : firstFail (spec.expand args.length) args with
    | none => rw [hf] at this; simpa [typeArgs] using this
    | some kf => obtain ⟨k, f⟩ := kf; rw [hf] at this; cases f <;> simp [Pass1.ofFail] at this
  · simp [hc] at this

/-- `C10.nonconforming_never_returned` needing well-formedness of the `Type` callback's answer
only for THIS call's arguments. -/
theorem result_conforms_value_prediction_at (spec : Spec) (tf : TypeFn) (impl : ImplFn) (args : List Value)
    (hwf : ∀ t, tf (typeArgs spec args) = .ok t → Ty.wf t = true)
    (v : Value) (h : (call spec tf impl args).1 = .ok v) :
    ∃ t, (returnTypeForValuesPub spec tf args).1 = .ok t ∧ Ty.conformErrs t v.ty = 0 := by
  rw [call_eq_finish] at h
  obtain ⟨k, o, ho, hk⟩ := callUnrefined_case' spec tf impl args
  rw [ho] at h
  cases hk with
  | dynShort k' u hc hat hwu =>
    exact ⟨.dyn, by rw [rtfvPub_fail tf hc hat], conform_dyn _⟩
  | unkShort rt u hc hap ht hb hwu =>
    refine ⟨rt, by rw [rtfvPub_pass tf hc hap, ht], ?_⟩
    rw [(finish_ok_val h).1, hwu.1]
    exact conform_refl rt (hwf _ ht)
  | value rt v0 u hc hap ht hnb hi hcf hwu =>
    refine ⟨rt, by rw [rtfvPub_pass tf hc hap, ht], ?_⟩
    rw [(finish_ok_val h).1, hwu.1]
    exact hcf
  | _ => simp [finish_err, finish_unmodelled] at h

/-- `type_only_prediction_sound` with both obligations (well-formed answer, monotonicity) asked
only at the argument list the `Type` callback is handed in THIS call — the form the `_partial`
monotonicity theorems instantiate. -/
theorem type_only_prediction_sound_at (spec : Spec) (tf : TypeFn) (impl : ImplFn) (args : List Value)
    (hwf : ∀ t, tf (typeArgs spec args) = .ok t → Ty.wf t = true)
    (hm : ∀ t, tf (typeArgs spec args) = .ok t →
      ∃ t', tf ((typeArgs spec args).map unkOf) = .ok t' ∧ Admits t' t)
    (v : Value) (h : (call spec tf impl args).1 = .ok v) :
    ∃ t', (returnType spec tf (args.map (·.ty))).1 = .ok t' ∧ Ty.conformErrs t' v.ty = 0 := by
  rw [C10.returnType_is_rtfv_of_unknowns, map_unknown_ty]
  obtain ⟨t, ht, hc⟩ := result_conforms_value_prediction_at spec tf impl args hwf v h
  rcases call_ok_pass1 h with hd | ⟨T, t0, hp, ht0⟩
  · rw [rtfvPub_of_pass1_dyn hd] at ht
    refine ⟨.dyn, rtfvPub_of_pass1_dyn (pass1_unkOf_dyn hd), ?_⟩
    cases ht; exact hc
  · rw [rtfvPub_of_pass1_ok hp ht0] at ht
    cases ht
    have hT := pass1_ok_typeArgs hp
    subst hT
    obtain ⟨t', ht', had⟩ := hm _ ht0
    exact ⟨t', rtfvPub_of_pass1_ok (pass1_unkOf_ok hp) ht', had _ hc⟩

/-! ### clause "never a Go panic and never an error reporting an internal panic", from the
per-function obligations

`TypeArgsOK nfc spec as` / `ImplArgsOK nfc spec as` (Lemmas/StdOblBase.lean) say that `as` is an
argument list the protocol may hand to the callback: the right number of arguments, each
well-formed (`Value.WF`, property C06), of a type conforming to its parameter, null / unknown /
dynamically typed / marked only where the parameter allows it — exactly what
`C10.type_args_satisfy_contract` and `C10.impl_args_satisfy_contract` establish. -/

/-- **Totality from obligations.**  If, on every argument list satisfying the protocol's
contract, (1) `Type` does not panic, (2) `Impl` does not panic when handed the type `Type`
answered, (3) `Impl`'s value conforms to that type, and (4) the declared `RefineResult` accepts
`Impl`'s value and the unknown of the answered type — then `Call` on well-formed arguments
returns a value or an ordinary error: no Go panic, no `PanicError`. -/
theorem call_total_of_obligations (nfc : String → Bool) (spec : Spec) (tf : TypeFn) (impl : ImplFn)
    (htf : ∀ as w, TypeArgsOK nfc spec as → tf as ≠ .panic w)
    (himpl : ∀ as rt w, ImplArgsOK nfc spec as → tf as = .ok rt → impl as rt ≠ .panic w)
    (hconf : ∀ as rt v, ImplArgsOK nfc spec as → tf as = .ok rt → impl as rt = .ok v →
      Ty.conformErrs rt v.ty = 0)
    (href : ∀ rf, spec.refine = some rf →
      (∀ as rt v, ImplArgsOK nfc spec as → tf as = .ok rt → impl as rt = .ok v → rf v.unmark ≠ none) ∧
      (∀ as rt, TypeArgsOK nfc spec as → tf as = .ok rt → rt.isDyn = false → rf (Value.unknown rt) ≠ none))
    (args : List Value) (hargs : ∀ a ∈ args, a.WF nfc = true) :
    (∀ w, (call spec tf impl args).1 ≠ .panic w) ∧
    (∀ w, (call spec tf impl args).1 ≠ .err (.panicError w)) :=
  Fn.call_total_of_obligations nfc spec tf impl htf himpl hconf href args hargs

section PerFunction
open Stdlib

theorem typeMono_length : TypeMono lengthType := Stdlib.typeMono_length
theorem typeMono_hasindex : TypeMono hasIndexType := Stdlib.typeMono_hasIndex
/-- `index` looks at the VALUE of a tuple key; on a placeholder key it answers the placeholder type -/
theorem typeMono_index : TypeMono indexType := Stdlib.typeMono_index
/-- `element` looks at the VALUE of the index for tuples; placeholder index ↦ placeholder type -/
theorem typeMono_element : TypeMono elementType := Stdlib.typeMono_element
theorem typeMono_coalescelist : TypeMono coalesceListType := Stdlib.typeMono_coalesceList
/-- for every answer of `convert.UnifyUnsafe` -/
theorem typeMono_coalesce (E : Env) : TypeMono (coalesceType E) := Stdlib.typeMono_coalesce E
theorem typeMono_compact : TypeMono compactType := static_typeMono _
theorem typeMono_contains : TypeMono containsType := static_typeMono _
theorem typeMono_sort : TypeMono sortType := static_typeMono _
theorem typeMono_range : TypeMono rangeType := static_typeMono _
theorem typeMono_sethaselement : TypeMono setHasElementType := static_typeMono _
theorem typeMono_distinct : TypeMono distinctType := Stdlib.typeMono_distinct
theorem typeMono_chunklist : TypeMono chunklistType := Stdlib.typeMono_chunklist
/-- `flatten` walks the VALUE; anything not wholly known ↦ placeholder type -/
theorem typeMono_flatten (E : Env) : TypeMono (flattenType E) := Stdlib.typeMono_flatten E
theorem typeMono_keys : TypeMono keysType := Stdlib.typeMono_keys
theorem typeMono_values : TypeMono valuesType := Stdlib.typeMono_values
theorem typeMono_reverse : TypeMono reverseType := Stdlib.typeMono_reverse
/-- `zipmap` reads the key VALUES when the values are a tuple; keys not wholly known ↦ placeholder type -/
theorem typeMono_zipmap (E : Env) : TypeMono (zipmapType E) := Stdlib.typeMono_zipmap E
/-- `slice` reads the index VALUES and the list length; placeholders ↦ placeholder type (tuples) or
the list type itself -/
theorem typeMono_slice : TypeMono sliceType := Stdlib.typeMono_slice
/-- for every answer of `convert.UnifyUnsafe` -/
theorem typeMono_setproduct (E : Env) : TypeMono (setProductType E) := Stdlib.typeMono_setProduct E
/-- `concat` reads known-ness and length of list arguments; for every answer of `convert.UnifyUnsafe` -/
theorem typeMono_concat (E : Env) : TypeMono (concatType E) := Stdlib.typeMono_concat E
/-- `lookup` asks `convert.Convert(default, elementType)`: monotone for every `Convert` that succeeds
on the placeholder of a value it converts (`EnvConvertMono`, a fact about package convert: C08) -/
theorem typeMono_lookup (E : Env) (hE : EnvConvertMono E) : TypeMono (lookupType E) :=
  Stdlib.typeMono_lookup E hE

/-- `merge`: the full statement — FALSE of the code (recorded finding
`result-not-conforming-to-type-prediction:MergeFunc:null-argument`). -/
def TypeMonoMerge : Prop := TypeMono mergeType

/-- `merge` is monotone on every argument list without a NULL OBJECT argument (null maps,
unknown maps, marks, dynamically typed arguments are all fine). -/
theorem typeMono_merge_partial (as : List Value) (t : Ty)
    (hn : ∀ a ∈ as, isObjectTy a.ty = true → a.unmark.isNull = false) (h : mergeType as = .ok t) :
    ∃ t', mergeType (as.map unkOf) = .ok t' ∧ Admits t' t :=
  Stdlib.typeMono_merge_partial as t hn h

/-- the witness: `merge(null object{z}, {a = true})` — value-based prediction `object{a}`,
type-only prediction `object{a,z}`, which `object{a}` does not conform to -/
theorem typeMono_merge_counterexample :
    mergeType mergeCexArgs = .ok (.object ["a"] [.bool] [false]) ∧
    mergeType (mergeCexArgs.map unkOf) = .ok (.object ["a", "z"] [.bool, .bool] [false, false]) ∧
    Ty.conformErrs (.object ["a"] [.bool] [false]) (.object ["a"] [.bool] [false]) = 0 ∧
    Ty.conformErrs (.object ["a", "z"] [.bool, .bool] [false, false]) (.object ["a"] [.bool] [false]) ≠ 0 :=
  Stdlib.typeMono_merge_counterexample

theorem typeMonoMerge_false : ¬ TypeMonoMerge := Stdlib.typeMonoMerge_false

/-- the set algebra functions (`setunion`, `setintersection`, `setsubtract`,
`setsymmetricdifference` share `setOperationReturnType`): the full statement — FALSE of the code
(recorded finding `…:empty-dynamic-collection`). -/
def TypeMonoSetOp : Prop := ∀ E : Env, TypeMono (setOpType E)

/-- monotone on every argument list without a KNOWN EMPTY `set(dynamic)` argument, for every
answer of `convert.UnifyUnsafe` -/
theorem typeMono_setop_partial (E : Env) (as : List Value) (t : Ty)
    (hs : ∀ a ∈ as, skippedBySetOp a = false) (h : setOpType E as = .ok t) :
    ∃ t', setOpType E (as.map unkOf) = .ok t' ∧ Admits t' t :=
  Stdlib.typeMono_setOp_partial E as t hs h

/-- the witness of the finding: `(set(list(number)){}, set(dynamic){}, set(tuple[string]){})`
with the real `UnifyUnsafe` answers on the two type lists -/
theorem typeMono_setop_counterexample :
    setOpType setOpCexEnv setOpCexArgs = .ok (.set (.list .string)) ∧
    setOpType setOpCexEnv (setOpCexArgs.map unkOf) = .ok (.set (.list .number)) ∧
    Ty.conformErrs (.set (.list .string)) (.set (.list .string)) = 0 ∧
    Ty.conformErrs (.set (.list .number)) (.set (.list .string)) ≠ 0 :=
  Stdlib.typeMono_setOp_counterexample

theorem typeMonoSetOp_false : ¬ TypeMonoSetOp := Stdlib.typeMonoSetOp_false

/-- **Table-wide monotonicity.**  For EVERY entry of the regenerated syntax table whose `Type`
callback the theorems have (`tfOf`: all statically typed functions, and every dynamically typed
function modelled in C13), except the five recorded exceptions, the callback is monotone — for
every answer of package convert satisfying `EnvConvertMono` (needed by `lookup` only). -/
theorem stdlib_type_callbacks_monotone (E : Env) (hE : EnvConvertMono E) :
    ∀ sy ∈ Generated.stdlibSyntax, ∀ tf, tfOf E sy = some tf → sy.var ∉ typeMonoExceptions → TypeMono tf := by
  intro sy _ tf htf hex
  unfold tfOf at htf
  split at htf
  · simp only [Option.map_eq_some_iff] at htf
    obtain ⟨T, _, rfl⟩ := htf
    exact static_typeMono T
  · simp only [Option.bind_eq_some_iff, Option.map_eq_some_iff] at htf
    obtain ⟨n, hn, f, hf, rfl⟩ := htf
    unfold modelName? at hn
    split at hn <;> cases hn <;> simp only [byName, Option.some.injEq] at hf <;> subst hf <;>
      first
      | exact typeMono_length | exact typeMono_hasindex | exact typeMono_index | exact typeMono_element
      | exact typeMono_coalescelist | exact typeMono_coalesce E | exact typeMono_compact | exact typeMono_contains
      | exact typeMono_distinct | exact typeMono_chunklist | exact typeMono_flatten E | exact typeMono_keys
      | exact typeMono_values | exact typeMono_lookup E hE | exact typeMono_reverse | exact typeMono_slice
      | exact typeMono_zipmap E | exact typeMono_sort | exact typeMono_setproduct E | exact typeMono_concat E
      | exact typeMono_range | exact typeMono_sethaselement
      | (rename_i heq; exact absurd (by simp [typeMonoExceptions, heq]) hex)

/-- **Table-wide: a type checker working with placeholders never contradicts evaluation.**  For
every entry of the table with a callback (`tfOf`) outside the recorded exceptions, with the
parameter declarations of the regenerated parameter table: if a call succeeds, `ReturnType` of the
argument types succeeds and the result conforms to it.  (`hwf`: the callback's answer for THIS
call is a well-formed type — automatic for static entries.) -/
theorem stdlib_type_only_prediction_sound (E : Env) (hE : EnvConvertMono E)
    (sy : Generated.StdSyntax) (hsy : sy ∈ Generated.stdlibSyntax)
    (s : Generated.StdSpec) (_hs : s ∈ Generated.stdlibSpecs) (_hv : sy.var = s.var)
    (tf : TypeFn) (htf : tfOf E sy = some tf) (hex : sy.var ∉ typeMonoExceptions)
    (rf : Option RefineFn) (impl : ImplFn) (args : List Value)
    (hwf : ∀ t, tf (typeArgs (toSpec s rf) args) = .ok t → Ty.wf t = true)
    (v : Value) (h : (call (toSpec s rf) tf impl args).1 = .ok v) :
    ∃ t', (returnType (toSpec s rf) tf (args.map (·.ty))).1 = .ok t' ∧ Ty.conformErrs t' v.ty = 0 :=
  type_only_prediction_sound_at _ tf impl args hwf
    (fun t ht => stdlib_type_callbacks_monotone E hE sy hsy tf htf hex _ t ht) v h

end PerFunction


/-! ## The quantifier "every exported standard-library function", as facts about the tables -/

/-- every entry of the syntax table has its parameter declarations in the parameter table: the
hypotheses `s ∈ stdlibSpecs`, `sy.var = s.var` of the table-wide theorems above can be met for
EVERY exported function -/
theorem every_syntax_entry_has_spec :
    ∀ sy ∈ Generated.stdlibSyntax, ∃ s ∈ Generated.stdlibSpecs, sy.var = s.var := by
  intro sy hsy
  have hm : sy.var ∈ Generated.stdlibSyntax.map (·.var) := List.mem_map.mpr ⟨sy, hsy, rfl⟩
  rw [tables_agree.1] at hm
  obtain ⟨s, hs, he⟩ := List.mem_map.mp hm
  exact ⟨s, hs, he.symm⟩

/-- `tfOf` has a callback exactly for the entries `hasTf` says (a decidable test on the table) -/
theorem tfOf_isSome (E : Stdlib.Env) (sy : Generated.StdSyntax) : (tfOf E sy).isSome = hasTf sy :=
  Std.tfOf_isSome E sy

/-- **What is NOT covered by the type-prediction theorems**: of the 80 exported functions, 28 are
dynamically typed, and exactly these six have no modelled `Type` callback — for them "a type
checker working with placeholders never contradicts evaluation" is searched by the harness only.
(Regenerated: a new dynamically typed function, or a new model, changes this list and fails the
theorem until it is updated.) -/
theorem unmodelled_type_callbacks :
    unmodelledTypeCallbacks =
      ["AssertNotNullFunc", "CSVDecodeFunc", "JSONDecodeFunc", "ParseIntFunc", "RegexAllFunc", "RegexFunc"] ∧
    Generated.stdlibSyntax.length = 80 ∧ dynamicallyTyped.length = 28 := by decide

/-! ## Clause "never a Go panic and never an error reporting an internal panic": the allocation drivers

Three functions turn a number the caller controls into the size of an allocation
(`Stdlib/d11Alloc.lean`, following the Go control flow with Go's wrapping `int` arithmetic,
truncating division and the runtime's `maxAlloc`; tied to the code by the `c11.alloc`
correspondence).  For each the full statement was FALSE of the code as found (the former
`_counterexample` theorems of this section: `indent(2^62, s)`, `format("%9223372036854775807s", "a")`,
seven lists of 512 elements) and is a THEOREM since the repairs /repo d4d90b0, 84cbc5e, 490ecb9,
which the model follows; the former witnesses are regression cases of the harness
(harness/c11gen.go, `c11AllocWitnesses`) and of the `example`s below. -/

/-- **`indent` never panics** — for every number of spaces (negative, fractional, infinite, beyond
the `int` range: ordinary errors), every string length and every number of line breaks -/
theorem indent_total (spaces : Value) (dataLen lines : Int) (hc : ∀ w, Stdlib.fromCtyInt spaces ≠ .panic w)
    (hd : 0 ≤ dataLen) (hl : 0 ≤ lines) : (D11.indentPad spaces dataLen lines).isPanic = false :=
  D11.indentPad_total spaces dataLen lines hc hd hl

/-- when `indent` builds a padding, it is exactly the number of spaces asked for and the whole
result, `len(data) + lines * spaces` bytes, is within `math.MaxInt32` -/
theorem indent_ok_bound {spaces : Value} {dataLen lines n : Int} (hd : 0 ≤ dataLen) (hd2 : dataLen ≤ D11.maxInt32)
    (hl : 0 < lines) (h : D11.indentPad spaces dataLen lines = .ok n) :
    Stdlib.fromCtyInt spaces = .ok n ∧ 0 ≤ n ∧ dataLen + lines * n ≤ D11.maxInt32 :=
  D11.indentPad_ok_bound hd hd2 hl h

/-- a string without a line break is returned as it is: no padding is built, whatever the number of spaces -/
theorem indent_no_newline (spaces : Value) (dataLen k : Int) (hk : Stdlib.fromCtyInt spaces = .ok k) (h0 : 0 ≤ k) :
    D11.indentPad spaces dataLen 0 = .ok 0 := D11.indentPad_no_newline spaces dataLen k hk h0

/-- the former witness `indent(2^62, "a")` and its variant with a line break: fine, resp. an ordinary error -/
theorem indent_former_counterexample :
    Stdlib.fromCtyInt D11.indentCex = .ok 4611686018427387904 ∧
    D11.indentPad D11.indentCex 1 0 = .ok 0 ∧ D11.isErr (D11.indentPad D11.indentCex 3 1) = true := by
  decide

/-- non-trivial instances -/
example : D11.indentPad (Value.intVal 300) 3 1 = .ok 300 ∧ D11.indentPad (Value.intVal 2147483644) 3 1 = .ok 2147483644 ∧
    D11.isErr (D11.indentPad (Value.intVal 2147483645) 3 1) = true := by decide

/-- **`format`: padding never panics**, whatever digits the verb spells -/
theorem format_pad_total (ds : List Nat) (g : Int) (hg : 0 ≤ g) : (D11.formatPadOfDigits ds g).isPanic = false :=
  D11.formatPadOfDigits_total ds g hg

/-- **`format`: the scanner reads the width / precision that is written**: a literal up to the
limit of 10^6 is read exactly … -/
theorem width_reads_literal (ds : List Nat) (h : D11.litValue ds ≤ D11.formatMaxWidthPrec) :
    D11.accDigits ds = D11.litValue ds := D11.accDigits_eq_lit ds h

/-- … a literal beyond it is an error, never another width: the closed form of the padding -/
theorem format_pad_closed_form (ds : List Nat) (g : Int) :
    D11.formatPadOfDigits ds g =
      if D11.litValue ds > D11.formatMaxWidthPrec then .err "unsupported width" else D11.formatPad (D11.litValue ds) g :=
  D11.formatPadOfDigits_eq ds g

set_option maxRecDepth 8192 in
/-- the former witnesses `format("%9223372036854775807s", "a")` (panicked) and
`format("%18446744073709551621s", "a")` (padded to 5): ordinary errors -/
theorem format_pad_former_counterexamples :
    D11.isErr (D11.formatPadOfDigits D11.maxIntDigits 1) = true ∧ D11.isErr (D11.formatPadOfDigits D11.wrapDigits 1) = true ∧
    D11.litValue D11.wrapDigits = 18446744073709551621 := by decide

example : D11.formatPadOfDigits [1, 0] 3 = .ok 7 ∧ D11.formatPadOfDigits [1, 0, 0, 0, 0, 0, 0] 0 = .ok 1000000 ∧
    D11.isErr (D11.formatPadOfDigits [1, 0, 0, 0, 0, 0, 1] 0) = true := by decide

/-- **`setproduct`: the allocation never panics**, whatever the lengths of the arguments -/
theorem setproduct_alloc_total (ls : List Int) (hl : ∀ l ∈ ls, 0 ≤ l) : (D11.setProductAlloc ls).isPanic = false :=
  D11.setProductAlloc_total ls hl

/-- **`setproduct` answers a number of tuples only if it is the true product of the lengths**
(every argument non-empty): no wrap-around to an empty or short result -/
theorem setproduct_ok_is_product (ls : List Int) (hl : ∀ l ∈ ls, 1 ≤ l) (n : Int) (h : D11.setProductAlloc ls = .ok n) :
    n = D11.prodLen ls := D11.setProductAlloc_ok_is_product ls hl n h

/-- … in particular the result is empty only if some argument is -/
theorem setproduct_nonempty (ls : List Int) (hl : ∀ l ∈ ls, 1 ≤ l) : D11.setProductAlloc ls ≠ .ok 0 := fun h => by
  have h1 := D11.setProductAlloc_ok_is_product ls hl 0 h
  have h2 : 1 ≤ D11.prodLen ls := D11.le_prodFold ls 1 (by omega) hl
  omega

/-- the former witnesses: seven lists of 512 elements (2^63), six of 1024 (2^60) — both panicked —
and eight of 256 (2^64 wrapped to 0: a silently EMPTY result): ordinary errors -/
theorem setproduct_former_counterexamples :
    D11.isErr (D11.setProductAlloc [512, 512, 512, 512, 512, 512, 512]) = true ∧
    D11.isErr (D11.setProductAlloc [1024, 1024, 1024, 1024, 1024, 1024]) = true ∧
    D11.isErr (D11.setProductAlloc [256, 256, 256, 256, 256, 256, 256, 256]) = true := by decide

example : D11.setProductAlloc [2, 3] = .ok 6 ∧ D11.setProductAlloc [5, 0, 7] = .ok 0 ∧
    D11.setProductAlloc [32768, 16384] = .ok 536870912 ∧ D11.isErr (D11.setProductAlloc [32768, 32768]) = true ∧
    D11.setProductAlloc [1024, 1024, 1024, 1024, 1024, 1024, 0] = .ok 0 := by decide


/-! ## Clause "never a Go panic and never an error reporting an internal panic", per function

`call_total_of_obligations` instantiated: all four hypotheses are PROVED for the modelled callbacks
of the function, over every argument list the protocol may hand them (null, unknown, marked,
dynamically typed arguments and arguments of unrelated types included — the protocol's answers to
those are part of the statement). -/

/-- **`hasindex` is total** (collection.go `HasIndexFunc`, as modelled in Stdlib/Collection.lean and
compared with the code by the `std.call` correspondence): `HasIndexFunc.Call(args)` on well-formed
values — ANY number of them, of any type, null, unknown, marked or dynamically typed — returns a
value or an ordinary error: never a Go panic, never a `PanicError`. -/
theorem call_total_hasindex (nfc : String → Bool) (args : List Value) (hargs : ∀ a ∈ args, a.WF nfc = true) :
    (∀ w, (call Stdlib.hasIndexSpec Stdlib.hasIndexType Stdlib.hasIndexImpl args).1 ≠ .panic w) ∧
    (∀ w, (call Stdlib.hasIndexSpec Stdlib.hasIndexType Stdlib.hasIndexImpl args).1 ≠ .err (.panicError w)) :=
  Stdlib.call_total_hasIndex args hargs

/-- … and the model's parameter declarations are those of the regenerated table -/
theorem hasindex_spec_is_table_entry :
    (Std.find? "HasIndexFunc").map (fun s =>
      s.params.map (fun p => [p.ty.equals .dyn, p.allowNull, p.allowUnknown, p.allowDynamic, p.allowMarked]) ++ [[s.varParam.isSome]]) =
    some (Stdlib.hasIndexSpec.params.map (fun p => [p.ty.equals .dyn, p.allowNull, p.allowUnknown, p.allowDynamic, p.allowMarked]) ++
      [[Stdlib.hasIndexSpec.varParam.isSome]]) := by decide

/-- the hypothesis is met by non-trivial argument lists: a list and an index, and a marked unknown
next to a null (which the protocol refuses without reaching the callbacks) -/
example : ∀ a ∈ [(⟨.list .string, .seq [.s "a"]⟩ : Value), Value.intVal 0], a.WF (fun _ => true) = true := by decide
example : (match (call Stdlib.hasIndexSpec Stdlib.hasIndexType Stdlib.hasIndexImpl
    [(⟨.list .string, .seq [.s "a"]⟩ : Value), Value.intVal 0]).1 with
    | .ok v => (match v.v with | .b true => true | _ => false)
    | _ => false) = true := by decide


/-! ### more functions, end to end (second deepening, lemmas in `Lemmas/d11b*.lean`)

Each theorem below is `call_total_of_obligations` with all four hypotheses PROVED for the function's
modelled callbacks (`Stdlib/Collection.lean`, tied to the code by the `std.call`/`std.callm`
correspondence of C13 and by the `d11b.call` correspondence of this check on C11's own argument
generator): `XFunc.Call(args)` on well-formed values — ANY number of them, of any type, null, unknown,
marked (at any depth) or dynamically typed — returns a value or an ordinary error; never a Go panic,
never a `PanicError`.  `E` is the environment of answers from other packages (set iteration order,
`convert`): the theorems hold for EVERY environment. -/

/-- **`keys` is total** (collection.go `KeysFunc`) -/
theorem call_total_keys (nfc : String → Bool) (args : List Value) (hargs : ∀ a ∈ args, a.WF nfc = true) :
    (∀ w, (call Stdlib.keysSpec Stdlib.keysType Stdlib.keysImpl args).1 ≠ .panic w) ∧
    (∀ w, (call Stdlib.keysSpec Stdlib.keysType Stdlib.keysImpl args).1 ≠ .err (.panicError w)) :=
  Stdlib.call_total_keys args hargs

/-- **`values` is total** (collection.go `ValuesFunc`) -/
theorem call_total_values (nfc : String → Bool) (E : Stdlib.Env) (args : List Value) (hargs : ∀ a ∈ args, a.WF nfc = true) :
    (∀ w, (call Stdlib.valuesSpec Stdlib.valuesType (Stdlib.valuesImpl E) args).1 ≠ .panic w) ∧
    (∀ w, (call Stdlib.valuesSpec Stdlib.valuesType (Stdlib.valuesImpl E) args).1 ≠ .err (.panicError w)) :=
  Stdlib.call_total_values E args hargs

/-- **`reverse` is total** (collection.go `ReverseListFunc`; lists, sets — also sets that are not wholly
known — and tuples) -/
theorem call_total_reverse (nfc : String → Bool) (E : Stdlib.Env) (args : List Value) (hargs : ∀ a ∈ args, a.WF nfc = true) :
    (∀ w, (call Stdlib.reverseSpec Stdlib.reverseType (Stdlib.reverseImpl E) args).1 ≠ .panic w) ∧
    (∀ w, (call Stdlib.reverseSpec Stdlib.reverseType (Stdlib.reverseImpl E) args).1 ≠ .err (.panicError w)) :=
  Stdlib.call_total_reverse E args hargs

/-- **`coalescelist` is total** (collection.go `CoalesceListFunc`, variadic: any number of arguments,
null / unknown / dynamically typed ones allowed by the parameter).  The `Type` callback stops at the
first unknown argument WITHOUT having looked at the later ones; `Impl` is safe all the same because it
stops there too (`Stdlib.clPre`). -/
theorem call_total_coalescelist (nfc : String → Bool) (args : List Value) (hargs : ∀ a ∈ args, a.WF nfc = true) :
    (∀ w, (call Stdlib.coalesceListSpec Stdlib.coalesceListType Stdlib.coalesceListImpl args).1 ≠ .panic w) ∧
    (∀ w, (call Stdlib.coalesceListSpec Stdlib.coalesceListType Stdlib.coalesceListImpl args).1 ≠ .err (.panicError w)) :=
  Stdlib.call_total_coalesceList args hargs

/-- **`compact` is total** (collection.go `CompactFunc`; nulls and empty strings inside the list, a list
that is not wholly known) -/
theorem call_total_compact (nfc : String → Bool) (E : Stdlib.Env) (args : List Value) (hargs : ∀ a ∈ args, a.WF nfc = true) :
    (∀ w, (call Stdlib.compactSpec Stdlib.compactType (Stdlib.compactImpl E) args).1 ≠ .panic w) ∧
    (∀ w, (call Stdlib.compactSpec Stdlib.compactType (Stdlib.compactImpl E) args).1 ≠ .err (.panicError w)) :=
  Stdlib.call_total_compact E args hargs

/-- **`chunklist` is total** (collection.go `ChunklistFunc`: marked list and size, negative / zero / fractional /
huge sizes, empty lists).  The final `cty.ListVal(output)` would panic on an empty slice: it never is, because
the last element always closes a chunk (`Stdlib.chunkLoop_good`). -/
theorem call_total_chunklist (nfc : String → Bool) (E : Stdlib.Env) (args : List Value) (hargs : ∀ a ∈ args, a.WF nfc = true) :
    (∀ w, (call Stdlib.chunklistSpec Stdlib.chunklistType (Stdlib.chunklistImpl E) args).1 ≠ .panic w) ∧
    (∀ w, (call Stdlib.chunklistSpec Stdlib.chunklistType (Stdlib.chunklistImpl E) args).1 ≠ .err (.panicError w)) :=
  Stdlib.call_total_chunklist E args hargs

/-- **`index` is total** (collection.go `IndexFunc`; declares no `RefineResult`).  Its `Impl` makes a NESTED protocol
call — `HasIndex(args[0], args[1])` is `HasIndexFunc.Call` — and reads the answer with `.True()`, which panics on an
unknown or marked boolean: the nested call answers a KNOWN boolean on the arguments `index` is handed
(`Stdlib.hasIndex_call_known_d11b`, `Stdlib.hasIndexU_unk`), `Index` is then applied only where `HasIndex` said true, and
its result has the type the `Type` callback predicted from the VALUE of the key (`gocty.FromCtyValue` and the key
arithmetic of `Index` read the same whole number: `Stdlib.keyIndex_of_fromCtyInt`). -/
theorem call_total_index (nfc : String → Bool) (args : List Value) (hargs : ∀ a ∈ args, a.WF nfc = true) :
    (∀ w, (call Stdlib.indexSpec Stdlib.indexType Stdlib.indexImpl args).1 ≠ .panic w) ∧
    (∀ w, (call Stdlib.indexSpec Stdlib.indexType Stdlib.indexImpl args).1 ≠ .err (.panicError w)) :=
  Stdlib.call_total_index args hargs

/-- **`range` is total** (sequence.go `RangeFunc`: one, two or three numbers; zero, infinite, fractional steps;
infinite start or end; more than 1024 values — ordinary errors or a list) -/
theorem call_total_range (nfc : String → Bool) (E : Stdlib.Env) (args : List Value) (hargs : ∀ a ∈ args, a.WF nfc = true) :
    (∀ w, (call Stdlib.rangeSpec Stdlib.rangeType (Stdlib.rangeImpl E) args).1 ≠ .panic w) ∧
    (∀ w, (call Stdlib.rangeSpec Stdlib.rangeType (Stdlib.rangeImpl E) args).1 ≠ .err (.panicError w)) :=
  Stdlib.call_total_range E args hargs

/-- … and the fuel that makes the model's generating loop structurally recursive is never used up: started
as `Impl` starts it the loop answers a list or the "more than 1024 values" error, never `.unmodelled` — the
theorem above is not true for the wrong reason -/
theorem range_fuel_suffices (down : Bool) (stop step x : Num) (hf : Stdlib.isFin step = true) :
    Stdlib.rangeLoop down (Value.numVal stop) (Value.numVal step) 1025 (Value.numVal x) [] ≠ .unmodelled := by
  simpa using Stdlib.rangeLoop_fuel_suffices down stop step hf 1025 x [] (by simp) (by simp)

/-- **The string functions that are `cty.StringVal ∘ library` are total, for EVERY library**: `upper`, `lower`,
`reverse` (of a string), `title`, `trimspace`, `chomp`, `trim`, `trimprefix`, `trimsuffix`, `replace`,
`regex_replace`, `split`, `indent`, `substr`, `timeadd` (string.go, string_replace.go, regexp.go, datetime.go; protocol instances over
the `Impl` models of C14, `D11b.glueTable`).  `L` stands for the Go standard library, x/text's NFC and the
grapheme-cluster scanner: no law of the library is assumed — whatever strings it returns, `Call` on
well-formed arguments of any kind returns a value or an ordinary error.  (That the LIBRARY call itself does
not panic on the arguments cty passes is not part of this statement: `strings.Repeat` in `indent` is covered
by `indent_total` above, the others take arbitrary strings.) -/
theorem call_total_string_functions (nfc : String → Bool) :
    ∀ e ∈ D11b.glueTable, ∀ (L : StdNum.Lib) (E : Stdlib.Env) (args : List Value), (∀ a ∈ args, a.WF nfc = true) →
      (∀ w, (call (e.2.2.2 L).spec ((e.2.2.2 L).tf E) ((e.2.2.2 L).impl E) args).1 ≠ .panic w) ∧
      (∀ w, (call (e.2.2.2 L).spec ((e.2.2.2 L).tf E) ((e.2.2.2 L).impl E) args).1 ≠ .err (.panicError w)) :=
  fun e he L => D11b.callTotal_glueTable e he L

/-- **`log` and `pow` are total, whatever the math library answers** (number.go `LogFunc`, `PowFunc`; `lib` stands for
`math.Log(num)/math.Log(base)` resp. `math.Pow`, a float64 that may be NaN: a NaN answer is an ordinary error, an
argument outside float64 is an ordinary error, `cty.NumberFloatVal` is never handed a NaN) -/
theorem call_total_log_pow (nfc : String → Bool) :
    ∀ e ∈ D11b.mathTable, ∀ (lib : Num → Num → StdNum.F64) (E : Stdlib.Env) (args : List Value), (∀ a ∈ args, a.WF nfc = true) →
      (∀ w, (call (e.2.2 lib).spec ((e.2.2 lib).tf E) ((e.2.2 lib).impl E) args).1 ≠ .panic w) ∧
      (∀ w, (call (e.2.2 lib).spec ((e.2.2 lib).tf E) ((e.2.2 lib).impl E) args).1 ≠ .err (.panicError w)) :=
  fun e he lib => D11b.callTotal_mathTable e he lib

/-- **`assertnotnull` is total** (conversion.go `AssertNotNullFunc`; `Type` answers the argument's type, `Impl` the
argument, the protocol refuses null) … -/
theorem call_total_assertnotnull (nfc : String → Bool) (args : List Value) (hargs : ∀ a ∈ args, a.WF nfc = true) :
    (∀ w, (call D11b.assertNotNullF.spec D11b.assertNotNullType D11b.assertNotNullImpl args).1 ≠ .panic w) ∧
    (∀ w, (call D11b.assertNotNullF.spec D11b.assertNotNullType D11b.assertNotNullImpl args).1 ≠ .err (.panicError w)) :=
  D11b.callTotal_assertNotNull {} args hargs

/-- … and its `Type` callback — one of the six that `unmodelled_type_callbacks` lists as not covered by the
table-wide monotonicity theorem — is monotone: with `type_only_prediction_sound`, a type checker working with
placeholders never contradicts `assertnotnull` -/
theorem typeMono_assertnotnull : TypeMono D11b.assertNotNullType := D11b.typeMono_assertNotNull

theorem string_functions_listed :
    D11b.glueTable.map (·.2.1) = ["UpperFunc", "LowerFunc", "ReverseFunc", "TitleFunc", "TrimSpaceFunc", "ChompFunc",
      "TrimFunc", "TrimPrefixFunc", "TrimSuffixFunc", "ReplaceFunc", "RegexReplaceFunc", "SplitFunc", "IndentFunc",
      "SubstrFunc", "TimeAddFunc"] := by decide

theorem string_functions_static :
    ∀ e ∈ D11b.glueTable, ∃ T, staticTy? e.2.2.1 = some T ∧ ∀ L E as, (e.2.2.2 L).tf E as = .ok T := D11b.glueTable_static

/-- **The statically typed number and bool functions `signum`, `ceil`, `floor`, `int`, `abs` (`AbsoluteFunc`),
`neg` (`NegateFunc`), `min`, `max`, `not`, `and`, `or`, `add`, `subtract`, `multiply`, `divide`, `modulo`
are total** (number.go, bool.go; the protocol
instances of `Stdlib/d11bFuncs.lean` over the `Impl` models of C14, compared with the code by the
`d11b.call` correspondence): for every entry of `D11b.table`, `Call` on well-formed values — any
number of them, of any type, null, unknown, marked or dynamically typed — returns a value or an
ordinary error.  (`min()` / `max()` without arguments, `int(±Inf)`, and the `big.ErrNaN` cases of the
arithmetic — `Inf - Inf`, `0 * Inf`, `0 / 0`, `Inf / Inf`, `Inf % 0` — are ordinary errors; `modulo` never asks
`Int` of an infinite quotient.) -/
theorem call_total_number_bool_functions (nfc : String → Bool) :
    ∀ e ∈ D11b.table, ∀ (E : Stdlib.Env) (args : List Value), (∀ a ∈ args, a.WF nfc = true) →
      (∀ w, (call e.2.2.2.spec (e.2.2.2.tf E) (e.2.2.2.impl E) args).1 ≠ .panic w) ∧
      (∀ w, (call e.2.2.2.spec (e.2.2.2.tf E) (e.2.2.2.impl E) args).1 ≠ .err (.panicError w)) :=
  fun e he => D11b.callTotal_table e he

/-- … which functions these are -/
theorem number_bool_functions_listed :
    D11b.table.map (·.2.1) = ["SignumFunc", "CeilFunc", "FloorFunc", "IntFunc", "AbsoluteFunc", "NegateFunc",
      "MinFunc", "MaxFunc", "NotFunc", "AndFunc", "OrFunc", "AddFunc", "SubtractFunc", "MultiplyFunc", "DivideFunc",
      "ModuloFunc"] := by decide

/-- … one of them spelled out: `min` -/
theorem call_total_min (nfc : String → Bool) (args : List Value) (hargs : ∀ a ∈ args, a.WF nfc = true) :
    (∀ w, (call (D11b.specVar D11b.pNumD) (D11b.staticTf .number) (D11b.implOf StdNum.minImpl) args).1 ≠ .panic w) ∧
    (∀ w, (call (D11b.specVar D11b.pNumD) (D11b.staticTf .number) (D11b.implOf StdNum.minImpl) args).1 ≠ .err (.panicError w)) :=
  D11b.callTotal_table ("min", "MinFunc", "cty.Number", D11b.minF)
    (by unfold D11b.table; repeat (first | exact List.Mem.head _ | apply List.Mem.tail)) {} args hargs

/-- their `Type` callback is the constant one of the static type the SOURCE declares (regenerated
syntax table) -/
theorem number_bool_functions_static :
    ∀ e ∈ D11b.table, ∃ T, staticTy? e.2.2.1 = some T ∧ ∀ E as, e.2.2.2.tf E as = .ok T := D11b.table_static

set_option maxRecDepth 16384 in
/-- **the model specs ARE the regenerated table entries**: for every function proved total above, the
parameter declarations of the model spec (types and the four `Allow*` flags of every parameter, the
variadic parameter) are those the BUILT code reports (`Generated.stdlibSpecs`), the declared static type
and the declared `RefineResult` (`refineNonNull`, or none: `index`, `timeadd`) are what the SOURCE says
(`Generated.stdlibSyntax`).  (It has already refused a wrong model spec: `timeadd` with `refineNonNull`.) -/
theorem d11b_specs_are_table_entries :
    (D11b.table.all fun e =>
      match Std.find? e.2.1, Std.syntax? e.2.1 with
      | some s, some sy => D11b.specMatches e.2.2.2.spec s && (sy.staticType == some e.2.2.1) &&
          (sy.refine == "refineNonNull") && e.2.2.2.spec.refine.isSome
      | _, _ => false) = true ∧
    (D11b.glueTable.all fun e =>
      match Std.find? e.2.1, Std.syntax? e.2.1 with
      | some s, some sy => D11b.specMatches (e.2.2.2 D11b.idLib).spec s && (sy.staticType == some e.2.2.1) &&
          ((sy.refine == "refineNonNull") == (e.2.2.2 D11b.idLib).spec.refine.isSome) &&
          ((sy.refine == "none") == (e.2.2.2 D11b.idLib).spec.refine.isNone)
      | _, _ => false) = true ∧
    (D11b.mathTable.all fun e =>
      match Std.find? e.2.1, Std.syntax? e.2.1 with
      | some s, some sy => D11b.specMatches (e.2.2 fun _ _ => .nan).spec s && (sy.staticType == some "cty.Number") &&
          (sy.refine == "refineNonNull") && (e.2.2 fun _ _ => .nan).spec.refine.isSome
      | _, _ => false) = true ∧
    (D11b.dynTable.all fun e =>
      match Std.find? e.2.1, Std.syntax? e.2.1 with
      | some s, some sy => D11b.specMatches e.2.2.spec s && sy.staticType.isNone &&
          ((sy.refine == "refineNonNull") == e.2.2.spec.refine.isSome)
      | _, _ => false) = true ∧
    (D11b.collTable.all fun e =>
      match Stdlib.byName e.1, Std.find? e.2, Std.syntax? e.2 with
      | some f, some s, some sy => D11b.specMatches f.spec s && ((sy.refine == "refineNonNull") == f.spec.refine.isSome) &&
          ((sy.refine == "none") == f.spec.refine.isNone)
      | _, _, _ => false) = true := by
  refine ⟨?_, ?_, ?_, ?_, ?_⟩ <;> decide

/-- the hypothesis of the totality theorems is met by non-trivial argument lists, and the calls do
something: `min(3, -2)` answers a negative number; a map under a mark is a well-formed argument of `keys` -/
example : (match (call (D11b.specVar D11b.pNumD) (D11b.staticTf .number) (D11b.implOf StdNum.minImpl)
    [Value.intVal 3, Value.intVal (-2)]).1 with
    | .ok v => (match v.v with | .n x => x.signbit | _ => false)
    | _ => false) = true := by decide
example : ∀ a ∈ [(⟨.map .number, .marked ["m"] (.smap ["a"] [.n (.fin false 1 0 64)])⟩ : Value)], a.WF (fun _ => true) = true := by decide

/-! ### `merge`: the totality clause is FALSE of the code

Recorded finding `panic-error:does-not-conform:MergeFunc` (known_findings.json; reproduced by the harness on every run):
the `Type` callback counts the attributes of a NULL object argument into the predicted type, `Impl` skips null
arguments, so the value `Impl` returns does not conform to the type it was given and `Call` reports an internal panic. -/

/-- `merge`: the full statement -/
def CallTotalMerge : Prop :=
  ∀ (nfc : String → Bool) (E : Stdlib.Env) (args : List Value), (∀ a ∈ args, a.WF nfc = true) →
    (∀ w, (call Stdlib.mergeSpec Stdlib.mergeType (Stdlib.mergeImpl E) args).1 ≠ .panic w) ∧
    (∀ w, (call Stdlib.mergeSpec Stdlib.mergeType (Stdlib.mergeImpl E) args).1 ≠ .err (.panicError w))

/-- the witness `merge(null object{d = bool})` -/
def mergeNullArg : List Value := [⟨.object ["d"] [.bool] [false], .null⟩]

theorem call_total_merge_counterexample_witness :
    (∀ a ∈ mergeNullArg, a.WF (fun _ => true) = true) ∧
    (match (call Stdlib.mergeSpec Stdlib.mergeType (Stdlib.mergeImpl {}) mergeNullArg).1 with
      | .err (.panicError _) => true
      | _ => false) = true := by
  constructor <;> decide

theorem call_total_merge_counterexample : ¬ CallTotalMerge := fun h => by
  have h2 := (h (fun _ => true) {} mergeNullArg call_total_merge_counterexample_witness.1).2
  have hw := call_total_merge_counterexample_witness.2
  cases hc : (call Stdlib.mergeSpec Stdlib.mergeType (Stdlib.mergeImpl {}) mergeNullArg).1 with
  | err e =>
    cases e with
    | panicError w => exact h2 w hc
    | _ => rw [hc] at hw; cases hw
  | _ => rw [hc] at hw; cases hw

/-! ### bookkeeping: which exported functions have an end-to-end totality theorem -/

/-- the Go variables of the functions with a `call_total` theorem above -/
def totalityProved : List String :=
  D11b.collTable.map (·.2) ++ D11b.table.map (·.2.1) ++ D11b.glueTable.map (·.2.1) ++ D11b.mathTable.map (·.2.1) ++
    D11b.dynTable.map (·.2.1)

/-- the exported functions WITHOUT one: for them "never a panic, never a PanicError" is searched by the
harness only (`merge` is a proved counterexample) -/
def totalityOnlySearched : List String :=
  (Generated.stdlibSyntax.map (·.var)).filter fun v => !totalityProved.contains v

set_option maxRecDepth 16384 in
/-- 43 of the 80 exported functions are proved total end to end, every one of them is an entry of the
regenerated syntax table, and these 37 are not (regenerated: a function added to cty/function/stdlib shows
up in the second list and fails this theorem until the list is updated) -/
theorem totality_bookkeeping :
    totalityProved.length = 43 ∧ totalityProved.all (fun v => (Generated.stdlibSyntax.map (·.var)).contains v) = true ∧
    totalityOnlySearched =
      ["BytesLenFunc", "BytesSliceFunc", "CSVDecodeFunc", "CoalesceFunc", "ConcatFunc", "ContainsFunc",
       "DistinctFunc", "ElementFunc", "EqualFunc", "FlattenFunc", "FormatDateFunc", "FormatFunc", "FormatListFunc",
       "GreaterThanFunc", "GreaterThanOrEqualToFunc", "JSONDecodeFunc", "JSONEncodeFunc", "JoinFunc", "LengthFunc",
       "LessThanFunc", "LessThanOrEqualToFunc", "LookupFunc", "MergeFunc", "NotEqualFunc", "ParseIntFunc",
       "RegexAllFunc", "RegexFunc", "SetHasElementFunc", "SetIntersectionFunc", "SetProductFunc",
       "SetSubtractFunc", "SetSymmetricDifferenceFunc", "SetUnionFunc", "SliceFunc", "SortFunc", "StrlenFunc",
       "ZipmapFunc"] := by
  refine ⟨by decide, by decide, by decide⟩

/-! ### the hypotheses are satisfiable -/

example : TypeMono (staticType (.list .string)) := static_typeMono _
example : ∃ s ∈ Generated.stdlibSpecs, s.var = "UpperFunc" ∧ s.params.length = 1 := by decide
example : (Std.syntax? "UpperFunc").map (·.staticType) = some (some "cty.String") := by decide
/-- a non-constant monotone callback: "the type of the first argument, else dynamic" -/
example : TypeMono (fun as => .ok ((as.head?.map (·.ty)).getD .dyn)) := by
  intro as t h
  refine ⟨t, ?_, fun _ hc => hc⟩
  cases as with
  | nil => exact h
  | cons a _ => simpa [unkOf, Value.unknown] using h

end C11
end CtyModel
