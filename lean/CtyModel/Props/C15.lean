/-
C15 — JSON encoding round-trips values and agrees with plain JSON.

Property theorems only; lemmas live in `CtyModel/Lemmas/JsonVal*.lean`.  Every statement
is about `JsonVal.marshal`, `JsonVal.unmarshalTop` (the public `Unmarshal`: annotations of the
requested type dropped, then `JsonVal.unmarshal`), `JsonVal.impliedType` — the
transliterations of cty/json's marshal.go, value.go, unmarshal.go, type_implied.go that the
correspondence harness diffs against /repo on every run — at token-tree level:
`encoding/json`'s lexer is an oracle (the harness lexes the real bytes), `env.norm` is
`cty.NormalizeString`, `env.hkey` the set hash (see the header of `CtyModel/JsonVal.lean`).

`rtHyps env v t` is the hypothesis list of the property as one decidable predicate:
well-formed (type and payload agree, strings and names normalised, no optional
annotation in the value's type), wholly known, unmarked, capsule-free, conforming to
`t`, and `NumOK` (every number is finite and its `Text('f',-1)` re-parses at 512 bits to
a `rawNumberEqual` number — an explicit hypothesis, probed by the harness on every run
for int64/uint64, integers below 2^500 held at 512 bits and parsed decimals of up to 90
digits; it FAILS for a float64 such as 1e23 and for 2^513 at 512 bits, see the two
`numOK_…_counterexample`s).
`rtCheck env v t` is the conclusion: Marshal succeeds, Unmarshal of its output with
the same constraint succeeds, the types are `Equals`, the payloads are `sameP` (structural
equality, numbers by `rawNumberEqual`: what `RawEquals`/`Equals` compute on known
set-free values).

NOT PROVED HERE (correspondence and predicate search only): values containing sets (the
decoder rebuilds the set through the hash oracle; iteration order ≠ storage order).

THE BYTE LEVEL.  Every theorem below is about token trees, so "the bytes are valid JSON" has
no theorem of its own.  It rests on three things, each visible here or checked on every run:
(1) `encoding/json` is the lexer: the harness lexes the REAL output of every `Marshal` call
with `encoding/json`'s `Decoder` (one value, then EOF) and fails the check at site `valid-json`
if it does not lex — searched, not proved; since harness/c15names.go the generated attribute
names, map keys and strings include control characters, DEL, U+2028, non-printable astral
code points, quotes and backslashes.  (2) A cty string becomes bytes in exactly one place,
`json.Marshal(val.AsString())` — Go's own JSON string encoder, trusted — and BOTH object
attribute names and map keys reach the buffer through that same place, by a recursive
`marshal(cty.StringVal(k), cty.String, …)` / `marshal(ek, ek.Type(), …)`; everything else the
encoder writes is a punctuation / keyword literal, math/big's decimal text, or the output of
`MarshalType` / `json.Marshal` of a capsule.  That is a REGENERATED FACT
(`Generated.jsonEmitEvents`, re-read from cty/json/marshal.go by extract/jsonemit.go on every
check; any other use of the output buffer makes the extractor fail closed) and
`strings_names_keys_share_one_encoder` decides it: a change such as writing attribute names
with `strconv.Quote` breaks that theorem before any input is generated.  (3) math/big's
`Text('f', -1)` of a finite number is a JSON number literal (digits, optional '-', optional
fraction): modelled (`Num.textF`) and diffed on every run, its syntax not proved.

`impliedType` is type_implied.go WITHOUT its depth counter; the function the code has and the
harness compares is `impliedTypeGo` (`CtyModel/JsonD15.lean`, the limit re-read from the source):
`implied_type_go_exact` ties the two.
-/
import CtyModel.Lemmas.JsonValRT
import CtyModel.Lemmas.d15Implied
import CtyModel.Lemmas.d15Mirror
import CtyModel.Lemmas.d15Emit
import CtyModel.Lemmas.d15DocU
import CtyModel.Lemmas.d15Reject
import CtyModel.Lemmas.d15DocDup
import CtyModel.Lemmas.JsonValStrip
import CtyModel.Lemmas.JsonValNoOpt
import CtyModel.Lemmas.JsonValReject
import CtyModel.Lemmas.JsonValDoc
import CtyModel.Lemmas.JsonValMirror
import CtyModel.Lemmas.JsonValEquals
import CtyModel.Lemmas.JsonMarshalFnsTie
namespace CtyModel
namespace C15
open Ty JsonVal

/-- an environment for concrete instances: every string already normalised, no set hashes -/
def env0 : JEnv := { norm := id, hkey := fun _ _ => none }

/-! ## Round trip -/

/-- THE FULL STATEMENT of the first clause of the property ("marshalling any wholly known,
unmarked, capsule-free value against any constraint it conforms to and unmarshalling with
the same constraint yields a value of the same type equal to the original").
It is FALSE of the code as it exists — see the counterexamples — and is kept here so that
it stays visible. -/
def roundtrip : Prop :=
  ∀ (env : JEnv) (v : Value) (t : Ty), rtHyps env v t = true → rtCheck env v t = true

/-- The strongest version that holds: the round trip succeeds for every set-free value at
every depth, dynamic wrappers included, provided every `null` and every empty
list/map inside the value sits at a position of the constraint that is the placeholder
itself or — optional-attribute annotations aside — is the value's own type there (`exact`):
positions where JSON's `null` / `[]` / `{}` can still be given their type back.  Since /repo
afdc0a2 (`Unmarshal` drops the annotations of the requested type) optional attributes in
the constraint cost nothing any more; the only remaining obstacle is a placeholder NESTED in
the constraint of such a position.  Conclusion in full: the encoder returns a document, the
decoder returns a value of exactly the original type whose payload is the same up to
`rawNumberEqual` on numbers. -/
theorem roundtrip_partial (env : JEnv) (v : Value) (t : Ty)
    (h : rtHyps env v t = true) (hs : setFree v.ty = true) (hx : exact t v.ty v.v = true) :
    ∃ j v', marshal env v t = .ok j ∧ unmarshalTop env j t = .ok v' ∧ v'.ty = v.ty ∧
      sameP v'.v v.v = true := by
  simp only [rtHyps, Bool.and_eq_true, Bool.not_eq_true'] at h
  obtain ⟨⟨⟨⟨⟨⟨⟨⟨⟨⟨h1, h2⟩, h3⟩, h4⟩, h5⟩, h6⟩, h7⟩, h8⟩, h9⟩, h10⟩, h11⟩ := h
  have hr : RT env.norm t v.ty v.v :=
    { wt := h1, wvt := h2, noOpt := h3, noCaps := h9, noSet := hs, names := h6, conf := h10, wfp := h4,
      known := h7, unmarked := h8, nums := h11, strs := h5 }
  rw [exact_eq_exact0] at hx
  -- the decoder works with `t.stripOpt`; the encoder cannot tell `t` from `t.stripOpt`
  obtain ⟨j, p', hj, hu, hsame⟩ := rt_entry env v.v t.stripOpt v.ty hr.strip hx
    (fun t' a b c => rt_body env v.v t' v.ty a b c)
  refine ⟨j, ⟨v.ty, p'⟩, ?_, hu, rfl, hsame⟩
  rw [← marshal_strip]
  exact hj

/-- … and "equal" in the sense of the code: the transliteration of `Value.Equals`
(`Value.equals`, the model C01–C03 diff against the implementation) answers a known `True`
for the decoded value and the original. -/
theorem roundtrip_partial_equals (env : JEnv) (v : Value) (t : Ty)
    (h : rtHyps env v t = true) (hs : setFree v.ty = true) (hx : exact t v.ty v.v = true) :
    ∃ j v', marshal env v t = .ok j ∧ unmarshalTop env j t = .ok v' ∧ v'.ty = v.ty ∧
      Value.equals v' v = .ok (Value.boolVal true) := by
  obtain ⟨j, v', hj, hu, hty, hsame⟩ := roundtrip_partial env v t h hs hx
  have h' := h
  simp only [rtHyps, Bool.and_eq_true, Bool.not_eq_true'] at h'
  obtain ⟨⟨⟨⟨⟨⟨⟨⟨⟨⟨_, h2⟩, _⟩, h4⟩, _⟩, _⟩, h7⟩, h8⟩, _⟩, _⟩, _⟩ := h'
  refine ⟨j, v', hj, hu, hty, ?_⟩
  have := equals_of_same v.ty v'.v v.v hsame h2 hs h4 h7 h8
  cases v'
  simp only at hty
  subst hty
  exact this

/-- the same, as the check the harness evaluates -/
theorem roundtrip_partial_check (env : JEnv) (v : Value) (t : Ty)
    (h : rtHyps env v t = true) (hs : setFree v.ty = true) (hx : exact t v.ty v.v = true) :
    rtCheck env v t = true := by
  obtain ⟨j, v', hj, hu, hty, hsame⟩ := roundtrip_partial env v t h hs hx
  have hw : wf v.ty = true := by
    simp only [rtHyps, Bool.and_eq_true] at h
    exact h.1.1.1.1.1.1.1.1.1.2
  simp [rtCheck, hj, hu, hty, hsame, (Ty.equals_iff_eq v.ty v.ty hw hw).mpr rfl]

/-- A constraint WITHOUT a placeholder — optional-attribute annotations allowed anywhere in
it — needs no side condition at all: every set-free value that conforms to it round-trips,
nulls and empty collections at every depth included.  (Before /repo afdc0a2 this failed for
annotated constraints: `NullVal(Object{a})` against `ObjectWithOptionalAttrs{a?}` came back
as a null of the ANNOTATED type; recorded then as `roundtrip [type:typeloss-*]`, now
repaired.)  What is left of that finding is the nested placeholder, below. -/
theorem roundtrip_placeholder_free (env : JEnv) (v : Value) (t : Ty)
    (h : rtHyps env v t = true) (hs : setFree v.ty = true) (hd : hasDyn t = false) :
    ∃ j v', marshal env v t = .ok j ∧ unmarshalTop env j t = .ok v' ∧ v'.ty = v.ty ∧
      sameP v'.v v.v = true ∧ Value.equals v' v = .ok (Value.boolVal true) := by
  have h' := h
  simp only [rtHyps, Bool.and_eq_true, Bool.not_eq_true'] at h'
  obtain ⟨⟨⟨⟨⟨⟨⟨⟨⟨⟨h1, h2⟩, h3⟩, h4⟩, _⟩, _⟩, _⟩, _⟩, _⟩, h10⟩, _⟩ := h'
  have hx := exact_of_noDyn t v.ty v.v h1 h2 hd h3 h10 h4
  obtain ⟨j, v', hj, hu, hty, hsame⟩ := roundtrip_partial env v t h hs hx
  obtain ⟨j2, v2, hj2, hu2, _, heq⟩ := roundtrip_partial_equals env v t h hs hx
  rw [hj] at hj2
  cases hj2
  rw [hu] at hu2
  cases hu2
  exact ⟨j, v', hj, hu, hty, hsame, heq⟩

/-- REGRESSION (fixed by /repo afdc0a2), the recorded witnesses: a null object, an empty list
of objects, and a null next to a non-null sibling in a list, each against the constraint that
marks the attribute optional.  Before the fix the first two came back with the annotated type
(type not `Equals`), the third was refused ("all list elements must have the same type"). -/
theorem roundtrip_optional_annotation_regression :
    rtCheck env0 ⟨.object ["a"] [.string] [false], .null⟩ (.object ["a"] [.string] [true]) = true ∧
    rtCheck env0 ⟨.list (.object ["a"] [.string] [false]), .seq []⟩ (.list (.object ["a"] [.string] [true])) = true ∧
    rtCheck env0 ⟨.list (.object ["a"] [.string] [false]), .seq [.null, .smap ["a"] [.s "x"]]⟩
      (.list (.object ["a"] [.string] [true])) = true := by decide

/-- … and the same from input alone: a dynamic type descriptor with an optional attribute,
`{"type":["object",{"a":"string"},["a"]],"value":null}`, decodes to a null of the object type
WITHOUT the annotation (`unmarshalDynamic` goes through the public `Unmarshal`). -/
theorem dynamic_descriptor_annotation_dropped :
    unmarshalTop env0 (.obj ["type", "value"]
        [.arr [.str "object", .obj ["a"] [.str "string"], .arr [.str "a"]], .null]) .dyn =
      .ok ⟨.object ["a"] [.string] [false], .null⟩ := by rfl

/-- The statement of the repair itself, for EVERY document and EVERY requested type (sets,
capsules, dynamic wrappers, ill-formed documents included): whenever `Unmarshal` returns a
value, the type of that value carries no optional-attribute annotation anywhere — whether
the annotation was in the requested type or in a type descriptor inside the document. -/
theorem unmarshal_type_has_no_annotations (env : JEnv) (j : Json) (t : Ty) (v : Value)
    (h : unmarshalTop env j t = .ok v) : hasOpt v.ty = false :=
  unmarshalTop_noOpt env j t v h

/-- non-vacuous: the annotated request and the annotated descriptor both decode -/
example : (∃ v, unmarshalTop env0 .null (.object ["a"] [.string] [true]) = .ok v) ∧
    hasOpt (.object ["a"] [.string] [true]) = true := ⟨⟨_, rfl⟩, by decide⟩

/-- COUNTEREXAMPLE (null under a partially dynamic constraint): `NullVal(List(String))`
against `List(DynamicPseudoType)` is written as `null` and read back as
`NullVal(List(DynamicPseudoType))` — the type is lost. -/
theorem roundtrip_counterexample : ¬ roundtrip := fun h =>
  absurd (h env0 ⟨.list .string, .null⟩ (.list .dyn) (by decide)) (by decide)

/-- the same for an empty collection: `ListValEmpty(Bool)` against `List(Dynamic)` comes
back as `ListValEmpty(DynamicPseudoType)` -/
theorem roundtrip_empty_counterexample :
    rtHyps env0 ⟨.list .bool, .seq []⟩ (.list .dyn) = true ∧
    rtCheck env0 ⟨.list .bool, .seq []⟩ (.list .dyn) = false := by decide

/-- and inside a list the mistyped null makes the decoder REFUSE the encoder's own output:
`[null, ["a"]]` as `List(List(Dynamic))` is answered with the error "all list elements must
have the same type" (`cty.CanListVal`; before /repo e63bbcc it was a panic in `cty.ListVal`).
Still a failed round trip, no longer a crash. -/
theorem roundtrip_refused_counterexample :
    rtHyps env0 ⟨.list (.list .string), .seq [.null, .seq [.s "a"]]⟩ (.list (.list .dyn)) = true ∧
    (match marshal env0 ⟨.list (.list .string), .seq [.null, .seq [.s "a"]]⟩ (.list (.list .dyn)) with
     | .ok j =>
       (match unmarshalTop env0 j (.list (.list .dyn)) with
        | .err _ => true
        | _ => false)
     | _ => false) = true := by decide

/-- `NumOK` is needed: the float64 nearest to 1e23 (= 2980232238769531·2^25, precision
53) is written as `100000000000000000000000`, the shortest text that identifies it among
float64s, and read back at 512 bits as exactly 10^23 — a different integer. -/
theorem numOK_needed_counterexample :
    numOK (.fin false 2980232238769531 25 53) = false ∧
    rtCheck env0 ⟨.number, .n (.fin false 2980232238769531 25 53)⟩ .number = false := by
  decide +kernel

/-- `NumOK` also fails for numbers held at cty's OWN 512 bits: 2^513.  math/big's shortest
text takes the rounding interval to be symmetric, but below a power of two the neighbour is
only half as far: it prints …168190 = 2^513 − 2, the float just below, and that is what the
decoder returns (`Num.textF` transliterates the search, the correspondence diffs it on every
run).  Recorded as `roundtrip [equals:num-text-not-exact-at-own-precision]`. -/
theorem numOK_power_of_two_counterexample :
    numOK (.fin false 1 513 512) = false ∧
    rtCheck env0 ⟨.number, .n (.fin false 1 513 512)⟩ .number = false := by
  decide +kernel

/-! ## Mirror: a value against its own type -/

/-- against its own type no position is inexact … -/
theorem exact_self (vt : Ty) (p : Payload) (hw : wf vt = true) (ho : hasOpt vt = false)
    (hp : wfP vt p = true) : exact vt vt p = true := by
  have := exactK_self p vt hw hp
  unfold exact
  rw [stripOpt_id_of_noOpt vt ho]
  split <;> exact this

/-- … so `Unmarshal(Marshal(v, v.Type()), v.Type())` returns `v` for every set-free value
(no side condition on nulls or empties) -/
theorem mirror (env : JEnv) (v : Value)
    (h : rtHyps env v v.ty = true) (hs : setFree v.ty = true) :
    ∃ j v', marshal env v v.ty = .ok j ∧ unmarshalTop env j v.ty = .ok v' ∧ v'.ty = v.ty ∧
      sameP v'.v v.v = true := by
  have h' := h
  simp only [rtHyps, Bool.and_eq_true, Bool.not_eq_true'] at h'
  exact roundtrip_partial env v v.ty h hs
    (exact_self v.ty v.v h'.1.1.1.1.1.1.1.1.1.2 h'.1.1.1.1.1.1.1.1.2 h'.1.1.1.1.1.1.1.2)

/-- "the bytes are valid JSON whose plain decoding mirrors the value's structure": against
its own placeholder-free type a set-free value is encoded without any wrapper object —
null as null, a bool / string as itself, a number as its decimal text, a list or tuple as
an array with one entry per element in order, a map or object as an object with exactly
the value's keys.  (That the bytes ARE valid JSON is checked on the real output on every
run: the harness lexes them with `encoding/json`.) -/
theorem mirror_structure (env : JEnv) (v : Value) (j : Json) (hd : hasDyn v.ty = false)
    (hs : setFree v.ty = true) (hw : wfP v.ty v.v = true) (hk : v.v.whollyKnown = true)
    (hm : v.v.containsMarked = false) (hj : marshal env v v.ty = .ok j) : mirrors v.v j = true := by
  unfold marshal at hj
  rw [marshalEntry_same v.ty v.v _ (isMarked_of_containsMarked hm)
    (isKnown_of_whollyKnown hk (isMarked_of_containsMarked hm))] at hj
  exact mirror_known env v.v v.ty j ⟨hd, hs, hw, hk, hm⟩ hj

/-- The same clause for ANY constraint (audit C15 item 2, missing theorem (b)): whatever the
constraint is — placeholders at any position — whenever the encoder returns a document for a
value without set types, that document has the structure `mirrorsW` describes: exactly at the
positions where the constraint is the placeholder (and the value's type is not) a two-member
object `{"value": x, "type": τ}`, τ being the type document `MarshalType` gives for the value's
type there and x the encoding of the value against its OWN type; below and elsewhere null as
null, a bool / string as itself, a number as its decimal text, a list or tuple as an array
with one entry per element in order, a map or object as an object with exactly the value's
keys in order.  No hypothesis on knownness, marks or conformance is needed: the encoder
answers `ok` for nothing else. -/
theorem mirror_structure_any_constraint (env : JEnv) (v : Value) (t : Ty) (j : Json)
    (hs : setFree v.ty = true) (hj : marshal env v t = .ok j) : mirrorsW t v.ty v.v j = true :=
  mirrorW_entry env v.v t v.ty j hs hj

/-- … of which the plain mirror is the placeholder-free instance, now for ANY placeholder-free
constraint (not only the value's own type; optional-attribute annotations allowed) and without
the well-formedness / knownness / unmarkedness hypotheses of `mirror_structure`: those follow
from the encoder having returned a document. -/
theorem mirror_structure_placeholder_free (env : JEnv) (v : Value) (t : Ty) (j : Json)
    (hd : hasDyn t = false) (hs : setFree v.ty = true) (hj : marshal env v t = .ok j) :
    mirrors v.v j = true :=
  mirrors_of_mirrorsW v.v t v.ty j hd (mirror_structure_any_constraint env v t j hs hj)

/-- non-vacuous, and what it looks like: the sample value of the non-vacuity section (a
placeholder at the top-level attribute `a` and inside the map) is encoded with two wrappers -/
example : marshal env0 ⟨.object ["a", "b"] [.list .string, .map .bool] [false, false],
      .smap ["a", "b"] [.seq [.s "x", .null], .smap ["k"] [.b true]]⟩
      (.object ["a", "b"] [.dyn, .map .dyn] [false, false]) =
    .ok (.obj ["a", "b"] [.obj ["value", "type"] [.arr [.str "x", .null], .arr [.str "list", .str "string"]],
      .obj ["k"] [.obj ["value", "type"] [.bool true, .str "bool"]]]) := by rfl

/-- … and a document WITHOUT the wrapper at a placeholder position does not pass (the seeded
change C15-dynamic-wrapper-skipped-for-typed-nulls in one instance: a typed null written
bare) -/
example : mirrorsW .dyn .string .null .null = false ∧
    mirrorsW .dyn .string .null (.obj ["value", "type"] [.null, .str "string"]) = true ∧
    mirrorsW .dyn .string .null (.obj ["value", "type"] [.null, .str "number"]) = false := by decide

/-- against a placeholder-free constraint `mirrorsW` is the plain mirror: no wrapper anywhere
(the instance `mirror_structure` is about) -/
example : mirrorsW (.tuple [.number, .list .string]) (.tuple [.number, .list .string])
      (.seq [.n (.fin false 3 (-1) 53), .seq [.s "a"]]) (.arr [.num "1.5", .arr [.str "a"]]) = true ∧
    mirrors (.seq [.n (.fin false 3 (-1) 53), .seq [.s "a"]]) (.arr [.num "1.5", .arr [.str "a"]]) = true := by
  decide +kernel

/-! ## The byte level: where strings, attribute names and map keys become bytes -/

/-- REGENERATED FACT about cty/json/marshal.go (see the header, "THE BYTE LEVEL"), decided
over the table extracted on every check:
* every write into the output buffer is a literal of `JsonEmit.literalWrites` (JSON
  punctuation, `null` / `true` / `false`, the two halves of the wrapper object) or one of the
  four computed writes (`json.Marshal` of the string, `Text('f', -1)` of the number,
  `json.Marshal` of a capsule's value, `MarshalType` of the type);
* the thing done immediately before a `:` is written — how a member NAME reaches the output —
  is, in the map branch and in the object branch alike, a recursive call of `marshal` with a
  string value and a string type (`ek` is the key `ElementIterator` yields for a map, a
  `cty.String`; `cty.StringVal(k)` the attribute name);
* the `cty.String` branch of `marshal` does exactly one thing with the buffer: it writes the
  result of `json.Marshal(val.AsString())`.
So attribute names and map keys are escaped by the same call that escapes string values.
The seeded change C15-object-attr-names-go-quoted-in-json-marshal (`b.WriteString(strconv.Quote(k))`)
falsifies the first two conjuncts. -/
theorem strings_names_keys_share_one_encoder :
    JsonEmit.allWritesOk Generated.jsonEmitEvents = true ∧
    JsonEmit.nameEmitters Generated.jsonEmitEvents =
      [("t.IsMapType()", "call", "marshal", "ek", "ek.Type()"),
       ("t.IsObjectType()", "call", "marshal", "cty.StringVal(k)", "cty.String")] ∧
    JsonEmit.branchEvents "cty.String" Generated.jsonEmitEvents = [JsonEmit.stringWrite] := by
  decide

/-- the predicate is not vacuous: the seeded shape is refused -/
example : JsonEmit.allWritesOk
    [⟨"marshal", "t.IsObjectType()", "write", "WriteString", "strconv.Quote(k)", ""⟩] = false := by decide

/-! ## Values JSON cannot represent -/

/-- A value that contains a mark, an unknown or an infinite number ANYWHERE is never
encoded — whatever its type and the constraint are (sets and capsules included): no
document is produced for it, so nothing can be mis-encoded. -/
theorem never_encodes_unknown_marked (env : JEnv) (v : Value) (t : Ty)
    (h : v.v.containsMarked = true ∨ v.v.whollyKnown = false ∨ hasInf v.v = true) :
    ∀ j, marshal env v t ≠ .ok j := noOk_marshal env v t h

/-- … and the refusal is an ERROR, not a panic: for a well-formed, capsule-free, set-free
value conforming to the constraint, `marshal` returns `err`.  (As the code does: the
checks for marks and unknowns come first in every recursive call, infinity is tested
before the number is written.) -/
theorem rejects_unknown_marked (env : JEnv) (v : Value) (t : Ty)
    (hwt : wf t = true) (hwv : wf v.ty = true) (hcaps : hasCapsule v.ty = false)
    (hset : setFree v.ty = true) (hconf : «matches» t v.ty = true) (hwf : wfP v.ty v.v = true)
    (h : v.v.containsMarked = true ∨ v.v.whollyKnown = false ∨ hasInf v.v = true) :
    ∃ c, marshal env v t = .err c := by
  rcases okErr_marshal env v t ⟨hwt, hwv, hcaps, hset, hconf, hwf⟩ with ⟨j, hj⟩ | hc
  · exact absurd hj (noOk_marshal env v t h j)
  · exact hc

/-- the hypotheses are satisfiable: an unknown deep inside a marked list, under a dynamic
position of the constraint -/
example :
    let v : Value := ⟨.tuple [.list .string, .number], .seq [.marked ["m"] (.seq [.s "a", .unk .unref]), .n (.inf true)]⟩
    let t : Ty := .tuple [.dyn, .number]
    wf t = true ∧ wf v.ty = true ∧ hasCapsule v.ty = false ∧ setFree v.ty = true ∧
    «matches» t v.ty = true ∧ wfP v.ty v.v = true ∧ v.v.containsMarked = true ∧
    v.v.whollyKnown = false ∧ hasInf v.v = true := by decide

/-- The same WITHOUT the set-free side condition (audit C15 item 3): sets anywhere in the value.
The set branch of `marshal` adds only the iteration order, which goes through the hash
oracle; `htot` says the oracle answers for every member — the real `Value.Hash` is total, and
the harness supplies its answers — and then the refusal of a value holding a mark, an unknown
or an infinity is still an error, never a panic.  (Capsule-free stays: a capsule's payload
goes through `encoding/json` reflection, which is not modelled.) -/
theorem rejects_unknown_marked_with_sets (env : JEnv) (htot : ∀ t p, (env.hkey t p).isSome = true)
    (v : Value) (t : Ty) (hwt : wf t = true) (hwv : wf v.ty = true) (hcaps : hasCapsule v.ty = false)
    (hconf : «matches» t v.ty = true) (hwf : wfP v.ty v.v = true)
    (h : v.v.containsMarked = true ∨ v.v.whollyKnown = false ∨ hasInf v.v = true) :
    ∃ c, marshal env v t = .err c := by
  rcases okErrS_marshal env htot v t ⟨hwt, hwv, hcaps, hconf, hwf⟩ with ⟨j, hj⟩ | hc
  · exact absurd hj (noOk_marshal env v t h j)
  · exact hc

/-- a total oracle for instances -/
def envTot : JEnv := { norm := id, hkey := fun _ _ => some (0, "h") }

/-- satisfiable with a set: an infinity and an unknown inside a set of numbers inside a tuple,
against a constraint with a placeholder; and the encoder's answer is the error -/
example :
    let v : Value := ⟨.tuple [.set .number, .string], .seq [.sset [0, 0] [.n (.inf false), .unk .unref], .s "a"]⟩
    let t : Ty := .tuple [.dyn, .string]
    (∀ t p, (envTot.hkey t p).isSome = true) ∧ wf t = true ∧ wf v.ty = true ∧ hasCapsule v.ty = false ∧
    setFree v.ty = false ∧ «matches» t v.ty = true ∧ wfP v.ty v.v = true ∧ v.v.whollyKnown = false ∧
    hasInf v.v = true ∧ (∃ c, marshal envTot v t = .err c) :=
  ⟨fun _ _ => rfl, by decide, by decide, by decide, by decide, by decide, by decide, by decide, by decide, ⟨_, rfl⟩⟩

/-! ## Documents -/

/-- THE FULL STATEMENT of the document clause ("for any valid JSON document with
representable numbers and no conflicting duplicate keys the implied type is the document's
structural type, unmarshalling with it succeeds and re-marshalling gives the same document
up to key order, number spelling and string normalization"), for an idempotent `norm`.
PROVED: `doc_roundtrip_holds` / `doc_roundtrip_full` below (keys in any order, keys repeated —
also keys that coincide only after normalisation — as long as the members under one
normalised key have `Equals` implied types); about the recursion WITHOUT the nesting limit of
the code's `ImpliedType` (`doc_roundtrip_full_go` adds it).  Since /repo
5aa0ac9 no counterexample is known: the former one (`{"e\u0301": null}`) now passes, see
`doc_roundtrip_nonNFC_key`.  The harness evaluates this check on every generated document. -/
def doc_roundtrip : Prop :=
  ∀ (env : JEnv) (d : Json), (∀ s, env.norm (env.norm s) = env.norm s) →
    docValid env d = true → docCheckFull env d = true

/-- What is proved: for every document (any depth) in which the NORMAL FORMS of the keys of
each object are strictly ascending (so no duplicates, also none after normalisation) and
whose numbers are representable — keys and strings need NOT be normalised — the implied
type IS the structural type (over the normalised keys), unmarshalling with it succeeds, the
value has exactly that type, and re-marshalling returns the document with every key and
string replaced by its normal form, up to number spelling. -/
theorem doc_roundtrip_partial (env : JEnv) (d : Json) (h : docOK env d = true) :
    impliedType env d = .ok (structTy env.norm d) ∧
    ∃ v d', unmarshalTop env d (structTy env.norm d) = .ok v ∧ v.ty = structTy env.norm d ∧
      marshal env v (structTy env.norm d) = .ok d' ∧ jsonNormEq env.norm d' d = true := by
  obtain ⟨p, d', hi, hu, hm, hk, hmar, he⟩ := doc_rt env d h
  have hu' : unmarshalTop env d (structTy env.norm d) = .ok ⟨structTy env.norm d, p⟩ := by
    unfold unmarshalTop
    rw [stripOpt_id_of_noOpt _ (structTy_noOpt env.norm d)]
    exact hu
  refine ⟨hi, ⟨structTy env.norm d, p⟩, d', hu', rfl, ?_, he⟩
  unfold marshal
  rw [marshalEntry_same (structTy env.norm d) p _ hm hk]
  exact hmar

/-- the same, as the check the harness evaluates -/
theorem doc_roundtrip_partial_check (env : JEnv) (d : Json) (h : docOK env d = true) :
    docCheck env d = true := by
  obtain ⟨hi, v, d', hu, _, hm, he⟩ := doc_roundtrip_partial env d h
  simp [docCheck, hi, hu, hm, he]

/-- an idempotent environment with one non-trivial normal form ("e" + combining acute ↦ "é") -/
def envNFC0 : JEnv :=
  { norm := fun s => if s = "e\u0301" then "\u00e9" else s, hkey := fun _ _ => none }

/-- KEYS IN ANY ORDER (audit C15 item 1, missing theorem (a)).  `docOK` above wants the keys of
every object already sorted, which almost no real document is (`{"b":1,"a":2}` fails it).
This is the statement without that demand: for every document (any depth) in which the
normal forms of the keys of each object are DISTINCT — in any order — and whose numbers are
representable, and an idempotent `norm`: the implied type IS the structural type (`structTyU`:
the object type over the sorted normalised keys), unmarshalling with it succeeds, the value
has exactly that type, and re-marshalling returns the same document up to key order, number
spelling and string normalisation (`canon` sorts the members and normalises keys and strings,
`jsonEquiv` compares numbers as 512-bit parses) — the check `docCheckFull` of the full
statement.  (`doc_roundtrip_full` drops "distinct" too.) -/
theorem doc_roundtrip_any_key_order (env : JEnv) (d : Json)
    (hid : ∀ s, env.norm (env.norm s) = env.norm s) (h : docOKU env d = true) :
    impliedType env d = .ok (structTyU env.norm d) ∧
    ∃ v d', unmarshalTop env d (structTyU env.norm d) = .ok v ∧ v.ty = structTyU env.norm d ∧
      marshal env v (structTyU env.norm d) = .ok d' ∧ jsonEquiv (canon env d') (canon env d) = true := by
  obtain ⟨p, d', hi, hu, hm, hk, hmar, he⟩ := doc_rtU env hid d h
  have hu' : unmarshalTop env d (structTyU env.norm d) = .ok ⟨structTyU env.norm d, p⟩ := by
    unfold unmarshalTop
    rw [stripOpt_id_of_noOpt _ (structTyU_noOpt env.norm d)]
    exact hu
  refine ⟨hi, ⟨structTyU env.norm d, p⟩, d', hu', rfl, ?_, he⟩
  unfold marshal
  rw [marshalEntry_same (structTyU env.norm d) p _ hm hk]
  exact hmar

/-- the same, as the check of the full statement that the harness evaluates on every document -/
theorem doc_roundtrip_any_key_order_check (env : JEnv) (d : Json)
    (hid : ∀ s, env.norm (env.norm s) = env.norm s) (h : docOKU env d = true) :
    docCheckFull env d = true := by
  obtain ⟨hi, v, d', hu, _, hm, he⟩ := doc_roundtrip_any_key_order env d hid h
  simp [docCheckFull, hi, hu, hm, he]

/-- … and with the code's `ImpliedType` / `SimpleJSONValue` (nesting limit, see below) -/
theorem doc_roundtrip_any_key_order_go (env : JEnv) (d : Json)
    (hid : ∀ s, env.norm (env.norm s) = env.norm s) (h : docOKU env d = true)
    (hd : nest d ≤ Generated.jsonMaxImpliedTypeDepth) :
    impliedTypeGo env d = .ok (structTyU env.norm d) ∧
    ∃ v d', simpleUnmarshalGo env d = .ok v ∧ v.ty = structTyU env.norm d ∧
      marshal env v (structTyU env.norm d) = .ok d' ∧ jsonEquiv (canon env d') (canon env d) = true := by
  obtain ⟨hi, v, d', hu, hty, hm, he⟩ := doc_roundtrip_any_key_order env d hid h
  have hg : impliedTypeGo env d = impliedType env d := impliedTypeD_eq env _ d 0 (by omega)
  refine ⟨hg.trans hi, v, d', ?_, hty, hm, he⟩
  simp [simpleUnmarshalGo, hg, hi, hu]

/-- the audit's document `{"b":1,"a":2}` and a nested one with unsorted keys at two levels, a
non-NFC key, a null, an empty object and a fraction meet the hypothesis (and fail `docOK`);
a repeated key does not -/
example : docOKU env0 (.obj ["b", "a"] [.num "1", .num "2"]) = true ∧
    docOK env0 (.obj ["b", "a"] [.num "1", .num "2"]) = false ∧
    docOKU envNFC0 (.obj ["z", "e\u0301", "a"] [.obj ["y", "x"] [.null, .obj [] []], .num "1.50", .arr [.str "s"]]) = true ∧
    docOKU env0 (.obj ["a", "a"] [.num "1", .num "2"]) = false := by decide +kernel

/-- THE FULL DOCUMENT CLAUSE (audit C15 item 1).  For every document (any depth) with
representable numbers and no conflicting duplicate keys — `docValid`: objects may list their
keys in any order and REPEAT them, also keys that coincide only after normalisation, as long as
the members under one normalised key have `Equals` implied types — and an idempotent `norm`:
the implied type IS the structural type (`structTyU`: per normalised key the type of its
members), unmarshalling with it succeeds and gives a value of exactly that type, and
re-marshalling returns the same document up to key order, number spelling and string
normalisation, where of several members under one key the LAST in document order stands
(in the decoder — it fills a Go map — as in `canon`, and as in plain JSON decoding). -/
theorem doc_roundtrip_full (env : JEnv) (d : Json)
    (hid : ∀ s, env.norm (env.norm s) = env.norm s) (h : docValid env d = true) :
    impliedType env d = .ok (structTyU env.norm d) ∧
    ∃ v d', unmarshalTop env d (structTyU env.norm d) = .ok v ∧ v.ty = structTyU env.norm d ∧
      marshal env v (structTyU env.norm d) = .ok d' ∧ jsonEquiv (canon env d') (canon env d) = true := by
  obtain ⟨p, d', hi, hu, hm, hk, hmar, he⟩ := doc_rtD env hid d h
  have hu' : unmarshalTop env d (structTyU env.norm d) = .ok ⟨structTyU env.norm d, p⟩ := by
    unfold unmarshalTop
    rw [stripOpt_id_of_noOpt _ (structTyU_noOpt env.norm d)]
    exact hu
  refine ⟨hi, ⟨structTyU env.norm d, p⟩, d', hu', rfl, ?_, he⟩
  unfold marshal
  rw [marshalEntry_same (structTyU env.norm d) p _ hm hk]
  exact hmar

/-- … which is the statement `doc_roundtrip` kept above as the full strength of the clause -/
theorem doc_roundtrip_holds : doc_roundtrip := fun env d hid h => by
  obtain ⟨hi, v, d', hu, _, hm, he⟩ := doc_roundtrip_full env d hid h
  simp [docCheckFull, hi, hu, hm, he]

/-- … and with the code's `ImpliedType` / `SimpleJSONValue` (nesting limit, see below) -/
theorem doc_roundtrip_full_go (env : JEnv) (d : Json)
    (hid : ∀ s, env.norm (env.norm s) = env.norm s) (h : docValid env d = true)
    (hd : nest d ≤ Generated.jsonMaxImpliedTypeDepth) :
    impliedTypeGo env d = .ok (structTyU env.norm d) ∧
    ∃ v d', simpleUnmarshalGo env d = .ok v ∧ v.ty = structTyU env.norm d ∧
      marshal env v (structTyU env.norm d) = .ok d' ∧ jsonEquiv (canon env d') (canon env d) = true := by
  obtain ⟨hi, v, d', hu, hty, hm, he⟩ := doc_roundtrip_full env d hid h
  have hg : impliedTypeGo env d = impliedType env d := impliedTypeD_eq env _ d 0 (by omega)
  refine ⟨hg.trans hi, v, d', ?_, hty, hm, he⟩
  simp [simpleUnmarshalGo, hg, hi, hu]

/-- the hypothesis is met by a document that repeats a key (with members of one type), repeats
it in another spelling, and lists its keys unsorted; it is not met when the repeated members
differ in type -/
example : docValid envNFC0 (.obj ["z", "e\u0301", "a", "\u00e9", "a"]
      [.null, .arr [.num "1"], .str "x", .arr [.num "2.50"], .str "y"]) = true ∧
    docOKU envNFC0 (.obj ["z", "e\u0301", "a", "\u00e9", "a"]
      [.null, .arr [.num "1"], .str "x", .arr [.num "2.50"], .str "y"]) = false ∧
    docCheckFull envNFC0 (.obj ["z", "e\u0301", "a", "\u00e9", "a"]
      [.null, .arr [.num "1"], .str "x", .arr [.num "2.50"], .str "y"]) = true ∧
    docValid env0 (.obj ["a", "a"] [.num "1", .str "x"]) = false := by decide +kernel

/-- an environment in which "e" + combining acute normalises to "é" (as NFC does) -/
def envNFC : JEnv :=
  { norm := fun s => if s = "e\u0301" then "\u00e9" else s, hkey := fun _ _ => none }

/-- REGRESSION (fixed by /repo 5aa0ac9): `{"e\u0301": null}`.  `ImpliedType` names the
attribute "é"; `unmarshalObject` now looks the NORMALISED key up, so the document meets the
hypothesis of the partial theorem and passes both checks (before the fix: "unsupported
attribute"). -/
theorem doc_roundtrip_nonNFC_key :
    docOK envNFC (.obj ["e\u0301"] [.null]) = true ∧
    docCheck envNFC (.obj ["e\u0301"] [.null]) = true ∧
    docCheckFull envNFC (.obj ["e\u0301"] [.null]) = true := by decide

/-- the hypothesis of the partial theorem is satisfiable by a nested document with a null,
an empty array, an empty object, a fraction and an exponent spelling -/
example : docOK env0 (.obj ["a", "b", "c"] [.arr [.null, .num "1.50", .arr []], .obj [] [], .num "1e-3"]) = true := by
  decide +kernel

/-! ## The implied type -/

/-- `ImpliedType` never panics, and the kind of its result is the kind of the document:
null ↦ the placeholder, bool/number/string ↦ the primitive type, an array ↦ a tuple with
one element type per member (the implied type of that member), an object ↦ an object
type without optional attributes whose attribute names are exactly the normal forms of the
document's keys, strictly ascending.  (`ks.length = vs.length` holds for every lexed tree.) -/
theorem implied_type_shape (env : JEnv) (j : Json) :
    (∀ w, impliedType env j ≠ .panic w) ∧
    (∀ t, impliedType env j = .ok t →
      match j with
      | .null => t = .dyn
      | .bool _ => t = .bool
      | .num _ => t = .number
      | .str _ => t = .string
      | .arr xs => ∃ ts, t = .tuple ts ∧ ts.length = xs.length ∧
          ∀ i (h : i < xs.length) (h' : i < ts.length), impliedType env xs[i] = .ok ts[i]
      | .obj ks vs => ks.length = vs.length → ∃ ns ts, t = .object ns ts (ns.map fun _ => false) ∧
          strictAsc ns = true ∧ ns.length = ts.length ∧ ∀ x, x ∈ ns ↔ x ∈ ks.map env.norm) := by
  refine ⟨implied_no_panic env j, ?_⟩
  intro t ht
  cases j with
  | null => simpa [impliedType] using ht.symm
  | bool _ => simpa [impliedType] using ht.symm
  | num _ => simpa [impliedType] using ht.symm
  | str _ => simpa [impliedType] using ht.symm
  | arr xs =>
    simp only [impliedType] at ht
    cases h : impliedAll env xs with
    | ok ts =>
      simp [h, Res.map] at ht
      obtain ⟨hl, hi⟩ := impliedAll_length env xs ts h
      exact ⟨ts, ht.symm, hl, hi⟩
    | _ => simp [h, Res.map] at ht
  | obj ks vs => exact fun hl => implied_object_names env ks vs t hl ht

/-- for the documents of `doc_roundtrip_partial` the implied type is the structural type -/
theorem implied_type_structural (env : JEnv) (d : Json) (h : docOK env d = true) :
    impliedType env d = .ok (structTy env.norm d) := (doc_roundtrip_partial env d h).1

/-- `SimpleJSONValue.UnmarshalJSON` (implied type, then `Unmarshal` with it) succeeds on
those documents and returns a value of the structural type -/
theorem simple_unmarshal_typed (env : JEnv) (d : Json) (h : docOK env d = true) :
    ∃ v, simpleUnmarshal env d = .ok v ∧ v.ty = structTy env.norm d := by
  obtain ⟨hi, v, _, hu, hty, _, _⟩ := doc_roundtrip_partial env d h
  exact ⟨v, by simp [simpleUnmarshal, hi, hu], hty⟩

/-! ## `ImpliedType` as the code has it: the nesting limit (/repo 0c63e6a) -/

/-- `ImpliedType` (with the depth counter of type_implied.go, limit re-read from the source:
`Generated.jsonMaxImpliedTypeDepth` = 10000) against the plain recursion `impliedType` every
theorem above is about: on a document whose arrays and objects are nested at most 10000
deep the two are THE SAME function (result or failure); a deeper document is never answered
with a type (it is an error, or whatever an earlier member already failed with). -/
theorem implied_type_go_exact (env : JEnv) (j : Json) :
    (nest j ≤ Generated.jsonMaxImpliedTypeDepth → impliedTypeGo env j = impliedType env j) ∧
    (nest j > Generated.jsonMaxImpliedTypeDepth → ∀ t, impliedTypeGo env j ≠ .ok t) :=
  ⟨fun h => impliedTypeD_eq env _ j 0 (by omega), fun h => impliedTypeD_deep env _ j 0 (Nat.zero_le _) (by omega)⟩

/-- THE FULL STATEMENT of the implied-type clause for the documents of `doc_roundtrip_partial`,
about the code's function.  FALSE since /repo 0c63e6a put a nesting limit into `ImpliedType`
(a deliberate repair of a stack exhaustion, documented in the source: not a defect) — kept
visible; see the counterexample. -/
def implied_type_structural_any_depth : Prop :=
  ∀ (env : JEnv) (d : Json), docOK env d = true → impliedTypeGo env d = .ok (structTy env.norm d)

/-- What holds: up to the limit.  The document round trip with the code's `ImpliedType`. -/
theorem doc_roundtrip_go_partial (env : JEnv) (d : Json) (h : docOK env d = true)
    (hd : nest d ≤ Generated.jsonMaxImpliedTypeDepth) :
    impliedTypeGo env d = .ok (structTy env.norm d) ∧
    ∃ v d', simpleUnmarshalGo env d = .ok v ∧ v.ty = structTy env.norm d ∧
      marshal env v (structTy env.norm d) = .ok d' ∧ jsonNormEq env.norm d' d = true := by
  obtain ⟨hi, v, d', hu, hty, hm, he⟩ := doc_roundtrip_partial env d h
  have hg := (implied_type_go_exact env d).1 hd
  refine ⟨hg.trans hi, v, d', ?_, hty, hm, he⟩
  simp [simpleUnmarshalGo, hg, hi, hu]

/-- COUNTEREXAMPLE to the unbounded statement: 10001 arrays inside each other around `null`
— a valid document without any key or number — has no implied type. -/
theorem implied_type_structural_any_depth_counterexample : ¬ implied_type_structural_any_depth := fun h =>
  (implied_type_go_exact env0 (nestArr (Generated.jsonMaxImpliedTypeDepth + 1))).2
    (by rw [nest_nestArr]; omega) _ (h env0 _ (docOK_nestArr env0 _))

/-- the side condition is satisfiable together with `docOK` by a nested document, and the
limit is the one of the source -/
example : docOK env0 (.obj ["a"] [.arr [.obj [] [], .null]]) = true ∧
    nest (.obj ["a"] [.arr [.obj [] [], .null]]) = 3 ∧ Generated.jsonMaxImpliedTypeDepth = 10000 := by decide

/-! ## Sets — not proved; the full statement is false

Values containing sets are outside `roundtrip_partial` / `mirror` (`setFree`).  The decoder
rebuilds a set through the member hash, and the hash of a number depends on its precision
(C03 finding), so even against its own type a set of numbers need not come back equal. -/

/-- the set hash of float64 3.9477794105 (the 53-bit branch) and of its 512-bit re-parse, as the
implementation computes them (re-observed by the harness on every run: probe
`set-hash-witness`) -/
def envHash : JEnv :=
  { norm := id
    hkey := fun _ p =>
      match p with
      | .n (.fin _ _ _ 53) => some (1243578146, "h")
      | _ => some (1459007788, "h") }

/-- the mirror clause with sets allowed (stored bucket ids agree with the hash oracle) -/
def mirror_with_sets : Prop :=
  ∀ (env : JEnv) (v : Value), rtHyps env v v.ty = true → setsCoherent env v.ty v.v = true →
    rtCheck env v v.ty = true

/-- COUNTEREXAMPLE: `SetVal([NumberFloatVal(3.9477794105)])` against `Set(Number)`: written
as `[3.9477794105]`, read back as the 512-bit number, which lands in another bucket. -/
theorem mirror_with_sets_counterexample : ¬ mirror_with_sets := fun h =>
  absurd (h envHash ⟨.set .number, .sset [1243578146] [.n (.fin false 4444804470517179 (-50) 53)]⟩
    (by decide +kernel) (by decide +kernel)) (by decide +kernel)

/-! ## The same about the REGENERATED encoder

`Generated.JsonMarshalFns.marshal` is translated from cty/json/marshal.go (`marshal`, `marshalDynamic`) by
extract/translate_jsonmarshal.go on every check; `JsonMarshalFnsTie.marshal_tie` proves it answers as
`JsonVal.marshal` does — same outcome, and on success the output buffer holds exactly the tokens
`JsonGo.render j` of the model's document `j` — for every order `ord` in which Go's `range` may visit the
attribute map, on well-formed set-free values conforming to the constraint.  The clauses above therefore
hold of what the source says now. -/

/-- `roundtrip_partial` of the regenerated encoder: it writes the tokens of a document `j` (into an empty
buffer) that `Unmarshal` with the same constraint decodes to a value of the original type with the same
payload. -/
theorem roundtrip_partial_generated (env : JEnv) (ord : JsonGo.MapOrder) (ho : ∀ l, (ord l).Perm l) (v : Value) (t : Ty)
    (h : rtHyps env v t = true) (hs : setFree v.ty = true) (hx : exact t v.ty v.v = true) :
    ∃ j v', Generated.JsonMarshalFns.marshal env ord v t [] = .ok (JsonGo.render j) ∧
      unmarshalTop env j t = .ok v' ∧ v'.ty = v.ty ∧ sameP v'.v v.v = true := by
  obtain ⟨j, v', hj, hu, hty, hsame⟩ := roundtrip_partial env v t h hs hx
  have h' := h
  simp only [rtHyps, Bool.and_eq_true, Bool.not_eq_true'] at h'
  obtain ⟨⟨⟨⟨⟨⟨⟨⟨⟨⟨h1, h2⟩, _⟩, h4⟩, _⟩, _⟩, _⟩, _⟩, _⟩, h10⟩, _⟩ := h'
  exact ⟨j, v', by simpa using (JsonMarshalFnsTie.marshal_tie env ord ho v t [] h1 h2 h10 h4 hs).ok_of hj, hu, hty, hsame⟩

/-- `mirror_structure_any_constraint` of the regenerated encoder: whenever it returns, what it wrote is the
token list of a document with the structure `mirrorsW` describes (wrapper objects exactly at the placeholder
positions of the constraint). -/
theorem mirror_structure_any_constraint_generated (env : JEnv) (ord : JsonGo.MapOrder) (ho : ∀ l, (ord l).Perm l)
    (v : Value) (t : Ty) (buf : JsonGo.Buf)
    (hwt : wf t = true) (hwv : wf v.ty = true) (hconf : «matches» t v.ty = true) (hwf : wfP v.ty v.v = true)
    (hs : setFree v.ty = true) (hj : Generated.JsonMarshalFns.marshal env ord v t [] = .ok buf) :
    ∃ j, buf = JsonGo.render j ∧ mirrorsW t v.ty v.v j = true := by
  obtain ⟨j, hm, hb⟩ := (JsonMarshalFnsTie.marshal_tie env ord ho v t [] hwt hwv hconf hwf hs).of_ok hj
  exact ⟨j, by simpa using hb, mirror_structure_any_constraint env v t j hs hm⟩

/-- `rejects_unknown_marked` of the regenerated encoder (set-free values: the set branch of the translation is
generated but outside the tie, see `Lemmas/JsonMarshalFnsTie.lean`): a value holding a mark, an unknown or an
infinity anywhere is refused with an ERROR — never a panic, never a document — whatever order Go's `range` takes. -/
theorem rejects_unknown_marked_generated (env : JEnv) (ord : JsonGo.MapOrder) (ho : ∀ l, (ord l).Perm l)
    (v : Value) (t : Ty) (b : JsonGo.Buf)
    (hwt : wf t = true) (hwv : wf v.ty = true) (hcaps : hasCapsule v.ty = false)
    (hset : setFree v.ty = true) (hconf : «matches» t v.ty = true) (hwf : wfP v.ty v.v = true)
    (h : v.v.containsMarked = true ∨ v.v.whollyKnown = false ∨ hasInf v.v = true) :
    ∃ c, Generated.JsonMarshalFns.marshal env ord v t b = .err c := by
  obtain ⟨c, hc⟩ := rejects_unknown_marked env v t hwt hwv hcaps hset hconf hwf h
  exact (JsonMarshalFnsTie.marshal_tie env ord ho v t b hwt hwv hconf hwf hset).err_of hc

/-- non-vacuous, and the regenerated definitions COMPUTE: the sample of the non-vacuity section, with Go's map
order reversed, gives the tokens of the document the model gives -/
example : Generated.JsonMarshalFns.marshal env0 List.reverse ⟨.object ["a", "b"] [.list .string, .map .bool] [false, false],
      .smap ["a", "b"] [.seq [.s "x", .null], .smap ["k"] [.b true]]⟩
      (.object ["a", "b"] [.dyn, .map .dyn] [false, false]) [] =
    .ok (JsonGo.render (.obj ["a", "b"] [.obj ["value", "type"] [.arr [.str "x", .null], .arr [.str "list", .str "string"]],
      .obj ["k"] [.obj ["value", "type"] [.bool true, .str "bool"]]])) := by decide +kernel

/-! ## Non-vacuity -/

/-- a nested value with nulls, an empty list at an exact position, a fraction, a dynamic
position and an optional attribute in the constraint meets every hypothesis -/
def sampleV : Value :=
  ⟨.object ["a", "b"] [.list .string, .tuple [.number, .map .bool, .list .number]] [false, false],
   .smap ["a", "b"] [.seq [.s "x", .null], .seq [.n (.fin false 1 (-1) 53), .smap ["k"] [.b true], .seq []]]⟩
def sampleT : Ty :=
  .object ["a", "b"] [.dyn, .tuple [.number, .map .dyn, .list .number]] [true, false]

example : rtHyps env0 sampleV sampleT = true ∧ setFree sampleV.ty = true ∧
    exact sampleT sampleV.ty sampleV.v = true := by decide +kernel
example : rtCheck env0 sampleV sampleT = true := by decide +kernel
/-- `NumOK` holds for numbers of the classes the theorems are meant for: int64 limits,
uint64 max, a float64 fraction, the 512-bit parse of 0.1, negative zero -/
example :
    numOK (Num.ofInt 9223372036854775807 64) = true ∧ numOK (Num.ofInt (-9223372036854775808) 64) = true ∧
    numOK (Num.ofNat 18446744073709551615 64) = true ∧ numOK (.fin false 3 (-2) 53) = true ∧
    numOK (.fin true 0 0 64) = true ∧
    (match Num.parse512 "0.1" with
     | .ok a => numOK a
     | _ => false) = true := by decide +kernel

end C15
end CtyModel
